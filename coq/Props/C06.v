(* C06 - A parsed document always has the canonical html/head/body skeleton.
   Only statements, closed by [exact], and their assumptions.

   FULL STATEMENT (not proved here; refuted as stated by WHATWG-conformant behaviour, see below):
     for every input, chunking and scripting setting,
       skeleton_ok (tree of html5ever::parse_document) = true.
   What is proved: the boolean judge [skeleton_ok] (extracted; applied by ./check C06 to the
   abstract DOM DomSpec.run computes from the recorded TreeSink calls of every monitored parse)
   means exactly the predicate the property states, and the counterexample class is exhibited
   inside Coq on a recorded trace.  That every parse outside the known class yields the skeleton
   is established by the monitored runs only (no tree-builder model yet).

   Skeleton d (coq/SinkSpec/Skeleton.v):
     document children = comments* doctype? comments* html comments*   (so: at most one doctype,
       preceded only by comments; exactly one element child, html; no text child);
     element children of html = head, then body | frameset noframes*;
     other children of html: comments and white-space text only;
     on every node: no two adjacent text children, no empty text node, children only below
       elements and Document-kind nodes (the document, template contents). *)
From Coq Require Import List NArith Bool Arith.
From HV Require Import Dom.DomSpec SinkSpec.Contract SinkSpec.ContractSpec SinkSpec.ContractProofs
                       SinkSpec.Skeleton SinkSpec.SkeletonProofs SinkSpec.Examples SinkSpec.ExamplesProofs.
Import ListNotations.

Theorem C06_skeleton_ok_means_statement :
  forall d, skeleton_ok d = true <-> Skeleton d.
Proof. exact skeleton_ok_iff. Qed.
Print Assumptions C06_skeleton_ok_means_statement.

(* the three shapes of the statement, separately *)
Theorem C06_document_children :
  forall l, doc_shape 0 l = true <-> DocChildren l.
Proof. exact doc_shape0. Qed.
Print Assumptions C06_document_children.

Theorem C06_html_element_children :
  forall l, html_elems_ok l = true <-> HtmlElements l.
Proof. exact html_elems_ok_iff. Qed.
Print Assumptions C06_html_element_children.

Theorem C06_no_adjacent_text :
  forall l, no_adjacent_text l = true <-> ~ AdjacentText l.
Proof. exact no_adjacent_text_iff. Qed.
Print Assumptions C06_no_adjacent_text.

(* REFUTATION of the full statement (known finding
   C06-formatting-element-reconstructed-after-frameset, WHATWG-conformant): the recorded calls of
   parse_document on <s><frameset></frameset></html>SPACE respect the calling contract, and the
   tree they build has html children head, frameset, s: the active formatting element <s> is
   reconstructed under html when the in-body rules process the white space in the
   after-after-frameset mode. *)
Theorem C06_skeleton_refuted_by_whatwg_behaviour :
  monitor init frameset_trace = None /\
  skeleton_ok (run_calls init frameset_trace) = false /\
  skeleton_faults (run_calls init frameset_trace) = [FHtmlElements] /\
  ~ Skeleton (run_calls init frameset_trace).
Proof. exact frameset_skeleton_refuted. Qed.
Print Assumptions C06_skeleton_refuted_by_whatwg_behaviour.

(* non-vacuity: the tree built by the recorded adoption-agency trace of <b><p>x</b>y has the skeleton *)
Example C06_adoption_tree_has_skeleton :
  skeleton_ok (run_calls init adoption_trace) = true /\ Skeleton (run_calls init adoption_trace).
Proof. exact adoption_tree_has_skeleton. Qed.

(* ------------------------------------------------------------------ the html tree-builder model *)
(* PROVED FOR ALL INPUTS over the executable model coq/Tree (tied to html5ever by ./check C02), for the abstract
   DOM [dom_of s'] = DomSpec.run of the operations the model emitted:
     - clause sk_leaves of Skeleton (children only below the document, template contents and elements), on every
       node of the arena, for every protocol-respecting run;
     - the bottom of the stack of open elements is an HTML `html` element node of that DOM in every mode after
       "before html" (the element create_root appends to the document).
   The other five clauses (document children, head/body|frameset under html, white-space-only text under html,
   no adjacent / empty text) stay monitored by ./check C06: they need the shape of the tree, which the model's
   invariant does not track (and the full statement is refuted by the known WHATWG-conformant class above). *)
From HV Require Tree.TreeTypes Tree.TreeModel Tree.TreeInvDefs Tree.TreeInvMain Tree.TreeContractRun.

Theorem C06_skeleton_leaves_partial :
  forall o toks, TreeInvMain.protocol (TreeModel.init_state o) toks ->
    match TreeModel.run_tokens (TreeModel.init_state o) toks [] with
    | TreeModel.RunOk s' _ =>
      forall n, kids (TreeContractRun.dom_of s') n <> [] -> is_container (data_of (TreeContractRun.dom_of s') n) = true
    | TreeModel.RunPanic n => n = 99%N
    | TreeModel.RunFuel => True
    end.
Proof. exact TreeContractRun.skeleton_leaves_partial. Qed.
Print Assumptions C06_skeleton_leaves_partial.

Theorem C06_root_is_html_element_partial :
  forall s, TreeInvDefs.TInv s -> TreeInvDefs.early_mode (TreeTypes.mode s) = false ->
    exists r rest n nm at_ tm ip, TreeTypes.open_elems s = r :: rest /\ resolve (TreeContractRun.dom_of s) r = Some n /\
      data_of (TreeContractRun.dom_of s) n = Element nm at_ tm ip /\
      q_ns nm = TreeTypes.ns_html /\ q_local nm = Skeleton.s_html.
Proof. exact TreeContractRun.skeleton_root_and_head_partial. Qed.
Print Assumptions C06_root_is_html_element_partial.
