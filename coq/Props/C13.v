(* C13 — BufferQueue behaves as one flat character stream.
   Only statements, closed by [exact], and their assumptions. *)
From Coq Require Import List NArith Bool.
From HV Require Import Base.Utf8 BQ.BQModel BQ.BQSpec BQ.BQProofs.
Import ListNotations.

(* every history of public operations on arbitrary buffer partitions of valid
   text: the byte-level model (what runs against buffer_queue.rs) yields
   exactly the outputs the flat-string specification allows, and keeps its
   buffers non-empty and valid UTF-8 *)
Theorem C13_refines_flat_stream :
  forall ops cs, wfc cs -> Forall valid_op ops ->
  exists cs' rs, run (encq cs) (map enc_op ops) = (encq cs', map enc_out rs) /\ wfc cs' /\
                 spec_run (concat cs) ops rs (concat cs').
Proof. exact run_refines. Qed.
Print Assumptions C13_refines_flat_stream.

Theorem C13_no_panic :
  forall ops, Forall valid_op ops -> ~ In OPanic (snd (run [] (map enc_op ops))).
Proof. exact run_no_panic. Qed.
Print Assumptions C13_no_panic.

(* a returned run is a maximal non-empty run of non-members of the FIRST buffer *)
Theorem C13_pop_run_maximal_within_first_buffer :
  forall mask c cs, wfc (c :: cs) ->
  match snd (pop_except_from mask (encq (c :: cs))) with
  | ORun r => exists run rest, r = encs run /\ c = run ++ rest /\ run <> [] /\
                forallb (fun x => negb (mem mask x)) run = true /\
                match rest with [] => True | x :: _ => mem mask x = true end
  | OSet x => exists rest, c = x :: rest /\ mem mask x = true
  | _ => False
  end.
Proof. exact pop_run_within_first_buffer. Qed.
Print Assumptions C13_pop_run_maximal_within_first_buffer.

(* eat's answer is the prefix comparison of the concatenation (exact case) *)
Theorem C13_eat_is_prefix_comparison :
  forall p f r, (eat_flat (eqc_of false) p f = FMatch r <-> f = p ++ r) /\
                (eat_flat (eqc_of false) p f = FNone <-> exists x, x <> [] /\ p = f ++ x).
Proof. intros p f r. split; [apply eat_flat_match_exact|apply eat_flat_none_exact]. Qed.
Print Assumptions C13_eat_is_prefix_comparison.

Theorem C13_eat_match_consumes_pattern :
  forall ic p f r, eat_flat (eqc_of ic) p f = FMatch r ->
  exists f1, f = f1 ++ r /\ length f1 = length p /\ Forall2 (fun y x => eqc_of ic y x = true) f1 p.
Proof. exact eat_flat_match_gen. Qed.
Print Assumptions C13_eat_match_consumes_pattern.

(* nothing lost, duplicated or reordered *)
Theorem C13_no_loss :
  forall f ops rs f', spec_run f ops rs f' -> Forall consuming ops ->
  delivered_all ops rs ++ f' = f ++ pushed ops.
Proof. exact spec_no_loss. Qed.
Print Assumptions C13_no_loss.

(* non-vacuity: a two-buffer queue holding "aé" | "<b" is well formed and
   the operations do something on it *)
Example C13_nonvacuous :
  wfc [[97; 233]; [60; 98]]%N /\
  snd (run (encq [[97; 233]; [60; 98]]%N)
           [PopExcept 0x1000000000000000%N; Eat [60; 66]%N true; Next]) =
  [ORun [97; 195; 169]%N; OBool true; ONone].
Proof.
  split; [|vm_compute; reflexivity].
  repeat constructor; discriminate.
Qed.
