(* C07 - HTML serializer output re-parses to the same tree; inner equals outer.
   Only statements, closed by [exact], and their assumptions.

   The model (HtmlSer/SerModel.v, tied to html5ever/src/serialize/mod.rs and
   rcdom's Serialize impl by the correspondence run of lib/checks/c07.py) has
   two switches: [as_is] mirrors the code at the pinned commit, [repaired]
   mirrors the code with the two defects of DESIGN 6.3 (#16, #11) repaired;
   the check detects which one the working tree implements.

   Proved here
   * escaping: what write_escaped writes, exactly, for EVERY string; it is the
     WHATWG "escaping a string" outside the class U+0080..U+00BF minus U+00A0
     and for the repaired loop; refuted for the code as it is (witness: the
     copyright sign, bytes C2 A9, is written as the single byte A9);
   * nothing escapes its context: for every Unicode string free of CR and NUL
     the tokenizer fragment (Data state / double-quoted attribute value,
     character references) reads the escaped string back to the original and
     never leaves the context; no raw less-than, greater-than (and no raw
     quotation mark in attribute mode) is ever produced;
   * inner = between-tags(outer) for ALL trees: refuted for the code as it is
     (SVG style element), proved outside that class and for the repaired
     variant; text is raw only under HTML raw-text elements.

   NOT proved (no theorem below claims it): parse_fragment (serialize t) = t
   for vocabulary trees.  That needs the tokenizer and tree-builder models;
   it is judged on the implementation by the round-trip oracle of
   lib/checks/c07.py.  The reversibility theorem C07_escape_reversible is
   stated against the hand-written tokenizer fragment SerSpec.untok; the
   theorems at the END of this file state it against the tokenizer model
   (TokIR interpreter on the regenerated html table and entity table). *)
From Coq Require Import List NArith Bool.
From HV Require Import Base.Utf8 HtmlSer.SerModel HtmlSer.SerSpec HtmlSer.SerProofs.
Import ListNotations.

(* ------------------------------------------------------------------ escaping *)

(* the byte-position loop never panics and never exhausts its bound, on any bytes *)
Theorem C07_write_escaped_total :
  forall v attr bytes, write_escaped_impl v attr bytes = WOk (we_bytes v attr bytes).
Proof. exact write_escaped_total. Qed.
Print Assumptions C07_write_escaped_total.

(* exact characterisation, every string, both variants *)
Theorem C07_escape_impl_exact :
  forall v attr s,
  write_escaped_impl v attr (encs s) =
  WOk (flat_map (fun c => if lost_lead c && negb (fix_c2 v) then [c] else encs (esc_char attr c)) s).
Proof. exact write_escaped_exact. Qed.
Print Assumptions C07_escape_impl_exact.

(* C07_escape_impl_spec : forall attr s, write_escaped_impl as_is attr (encs s)
   = WOk (encs (escape_spec attr s))   is FALSE for the code as it is: *)
Theorem C07_escape_impl_spec_refuted :
  exists s attr, scalars s /\
    write_escaped_impl as_is attr (encs s) <> WOk (encs (escape_spec attr s)).
Proof. exact escape_impl_spec_refuted. Qed.
Print Assumptions C07_escape_impl_spec_refuted.

Theorem C07_escape_impl_loses_exactly_the_lead_byte :
  forall attr c, lost_lead c = true ->
  write_escaped_impl as_is attr (encs [c]) = WOk [c] /\ encs (escape_spec attr [c]) = [0xC2; c]%N.
Proof. exact escape_impl_loses_exactly_the_lead_byte. Qed.
Print Assumptions C07_escape_impl_loses_exactly_the_lead_byte.

Theorem C07_escape_impl_spec_outside_finding :
  forall v attr s, Forall (fun c => lost_lead c = false) s ->
  write_escaped_impl v attr (encs s) = WOk (encs (escape_spec attr s)).
Proof. exact escape_impl_spec_outside. Qed.
Print Assumptions C07_escape_impl_spec_outside_finding.

Theorem C07_escape_impl_spec_repaired :
  forall v attr s, fix_c2 v = true ->
  write_escaped_impl v attr (encs s) = WOk (encs (escape_spec attr s)).
Proof. exact escape_impl_spec_repaired. Qed.
Print Assumptions C07_escape_impl_spec_repaired.

(* the sequential replacement steps of the standard are a per-character map *)
Theorem C07_escape_spec_charwise :
  forall attr s, escape_spec attr s = flat_map (esc_char attr) s.
Proof. exact escape_spec_charwise. Qed.
Print Assumptions C07_escape_spec_charwise.

(* ------------------------------------------------------------------ nothing escapes its context *)
Theorem C07_escape_reversible :
  forall attr s, ~ In 0%N s -> ~ In 0x0D%N s -> unescape attr (escape_spec attr s) = Some s.
Proof. exact escape_reversible. Qed.
Print Assumptions C07_escape_reversible.

Theorem C07_escape_no_raw_delimiter :
  forall attr s x, (x = 0x3C \/ x = 0x3E \/ (attr = true /\ x = 0x22))%N -> ~ In x (escape_spec attr s).
Proof. exact escape_no_raw_delimiter. Qed.
Print Assumptions C07_escape_no_raw_delimiter.

(* ------------------------------------------------------------------ the serializer over a tree *)

(* the stack machine driven by the rcdom traversal is a function of
   (parent info, node); in particular it never panics *)
Theorem C07_ser_include_node :
  forall v o n, doc_free n = true ->
  ser_bytes v (with_scope o IncludeNode) n =
  Some (node_bytes v (scripting_enabled o) (init_info v IncludeNode) n).
Proof. exact ser_include_node. Qed.
Print Assumptions C07_ser_include_node.

Theorem C07_ser_children_only :
  forall v o x n, forallb doc_free (children_of n) = true ->
  ser_bytes v (with_scope o (ChildrenOnly x)) n =
  Some (concat (map (node_bytes v (scripting_enabled o) (init_info v (ChildrenOnly x))) (children_of n))).
Proof. exact ser_children_only. Qed.
Print Assumptions C07_ser_children_only.

(* rcdom's traversal as written (a deque of Open/Close operations popped from the
   front) issues exactly the calls of the recursive traversal, for every tree *)
Theorem C07_rcdom_deque_is_preorder :
  forall v o n, ser_deque_bytes v o n = ser_bytes v o n.
Proof. exact ser_deque_bytes_is_ser_bytes. Qed.
Print Assumptions C07_rcdom_deque_is_preorder.

(* C07_inner_outer : forall v o name attrs ch, outer = start_tag ++ inner ++ end_tag
   is FALSE for the code as it is: *)
Theorem C07_inner_outer_refuted :
  exists name attrs ch o inner,
    forallb doc_free ch = true /\ is_void name = false /\
    ser_bytes as_is (with_scope o (ChildrenOnly (Some name))) (Element name attrs ch) = Some inner /\
    ser_bytes as_is (with_scope o IncludeNode) (Element name attrs ch) <>
      Some (start_tag as_is name attrs ++ inner ++ end_tag name).
Proof. exact inner_outer_refuted. Qed.
Print Assumptions C07_inner_outer_refuted.

(* every tree, every element, every option set, outside the defect class
   (non-HTML element with a raw-text local name and a text child); a void HTML
   element must not have element children (the parser never creates any) *)
Theorem C07_inner_outer_outside_finding :
  forall v o name attrs ch,
  forallb doc_free ch = true ->
  (fix_ns v = true \/ ns_eqb (fst name) NsHtml = true \/
   raw_parent (scripting_enabled o) (snd name) = false \/ existsb is_text ch = false) ->
  (is_void name = true -> existsb is_elem ch = false) ->
  exists inner,
    ser_bytes v (with_scope o (ChildrenOnly (Some name))) (Element name attrs ch) = Some inner /\
    ser_bytes v (with_scope o IncludeNode) (Element name attrs ch) =
      Some (start_tag v name attrs ++ inner ++ (if is_void name then [] else end_tag name)).
Proof. exact inner_outer. Qed.
Print Assumptions C07_inner_outer_outside_finding.

Theorem C07_inner_outer_repaired :
  forall v o name attrs ch,
  fix_ns v = true ->
  forallb doc_free ch = true ->
  (is_void name = true -> existsb is_elem ch = false) ->
  exists inner,
    ser_bytes v (with_scope o (ChildrenOnly (Some name))) (Element name attrs ch) = Some inner /\
    ser_bytes v (with_scope o IncludeNode) (Element name attrs ch) =
      Some (start_tag v name attrs ++ inner ++ (if is_void name then [] else end_tag name)).
Proof. exact inner_outer_repaired. Qed.
Print Assumptions C07_inner_outer_repaired.

(* text left unescaped only under the HTML raw-text elements *)
Theorem C07_text_raw_only_under_html_raw_text :
  forall v scr name t,
  node_bytes v scr (info_of name) (Text t) =
  if ns_eqb (fst name) NsHtml && raw_parent scr (snd name) then t else we_bytes v false t.
Proof. exact text_raw_only_under_html_raw_text. Qed.
Print Assumptions C07_text_raw_only_under_html_raw_text.

(* non-vacuity: a tree with an attribute, escaped text, a raw-text element and a
   void element serializes as expected, and inner is the middle of outer *)
Example C07_nonvacuous :
  let o := {| scripting_enabled := true; traversal_scope := IncludeNode; create_missing_parent := false |} in
  let sp := (NsHtml, [115; 112; 97; 110]%N) in                       (* span *)
  let t := Element sp [((NsNone, [105; 100]%N), [34; 60]%N)]          (* id = QUOTE < *)
             [Text [97; 38; 194; 160]%N;                              (* a & NBSP *)
              Element (NsHtml, [115; 116; 121; 108; 101]%N) [] [Text [60]%N];   (* style: raw *)
              Element (NsHtml, [98; 114]%N) [] []] in                 (* br: void *)
  ser_bytes as_is (with_scope o IncludeNode) t =
    Some ([60; 115; 112; 97; 110; 32; 105; 100; 61; 34; 38; 113; 117; 111; 116; 59; 38; 108; 116; 59; 34; 62]
          ++ [97; 38; 97; 109; 112; 59; 38; 110; 98; 115; 112; 59;
              60; 115; 116; 121; 108; 101; 62; 60; 60; 47; 115; 116; 121; 108; 101; 62; 60; 98; 114; 62]
          ++ [60; 47; 115; 112; 97; 110; 62])%N /\
  ser_bytes as_is (with_scope o (ChildrenOnly (Some sp))) t =
    Some [97; 38; 97; 109; 112; 59; 38; 110; 98; 115; 112; 59;
          60; 115; 116; 121; 108; 101; 62; 60; 60; 47; 115; 116; 121; 108; 101; 62; 60; 98; 114; 62]%N.
Proof. split; vm_compute; reflexivity. Qed.

(* ------------------------------------------------------------------ nothing escapes its context: the REAL tokenizer model
   HtmlSer/SerLex.v + Inst/InstSerLex.v.  The statements above use the hand-written fragment SerSpec.untok; the ones below
   use the TokIR interpreter (TokIR/Interp.v) on the html table regenerated from html5ever/src/tokenizer/mod.rs on every run,
   with named character references looked up in the entity table regenerated from the compiled PHF map
   ([hent] = alookup Gen.GenEntities.entities): reference semantics (flat queue, exact_errors = true), transported to the
   default mode (chunked queue, bulk reads, SIMD scan) by TokIR/BulkSim.v.
   [obs]: TError entries dropped, adjacent character tokens merged (TokIR/BulkSim.v).  In exact mode the tokenizer reports
   one parse error for every control character / noncharacter of s; these are the only other entries.
   That the five references resolve (amp; lt; gt; quot; nbsp;) and that the longest-match logic does not overshoot past
   the semicolon, whatever character follows, is decided by computation on the regenerated entity table inside the proofs. *)
From HV Require Import TokIR.IR TokIR.Interp TokIR.Checks TokIR.QueueSim TokIR.BulkSim Gen.GenHtmlTok HtmlSer.SerLex Inst.InstBulk Inst.InstSerLex.

(* the escaped text never leaves the Data state, whatever follows it (x = U+003C in particular): from ANY machine in the
   Data state (no pending character reference, reconsume and ignore_lf clear) whose unread input starts with
   escape_spec false t followed by a character x, finitely many steps lead to a machine in the same state whose unread
   input is x :: q, whose configuration differs in current_char and line only, and which has delivered, up to [obs],
   the character token t and nothing else *)
Theorem C07_escaped_text_stays_in_data :
  forall sg ss sn c1 sk t x q (m : mach hstate (list N)),
  Forall okc t -> St HData m -> mq m = escape_spec false t ++ x :: q ->
  exists n m', iter html_flavour html_table (sg, ss, sn) hent c1 sk n m = Some m' /\ mq m' = x :: q /\
               EffS false t m m' /\ St HData m'.
Proof. exact text_stays_in_data. Qed.
Print Assumptions C07_escaped_text_stays_in_data.

(* the escaped attribute value never leaves the double-quoted attribute-value state: the same, the characters of t being
   appended to the current attribute value and no token delivered (up to [obs]) *)
Theorem C07_escaped_value_stays_in_attribute :
  forall sg ss sn c1 sk t x q (m : mach hstate (list N)),
  Forall okc t -> St HAV m -> mq m = escape_spec true t ++ x :: q ->
  exists n m', iter html_flavour html_table (sg, ss, sn) hent c1 sk n m = Some m' /\ mq m' = x :: q /\
               EffS true t m m' /\ St HAV m'.
Proof. exact value_stays_in_attribute. Qed.
Print Assumptions C07_escaped_value_stays_in_attribute.

(* (a) whole runs, text: escape_spec false s as the whole input, then end() *)
Theorem C07_escaped_text_lexes_back :
  forall simd c1 sk last s, ~ In 0%N s -> ~ In 13%N s ->
  exists fuel0, forall fuel, (fuel0 <= fuel)%nat ->
    let r := drive_flat html_flavour true html_table simd hent c1 sk fuel [] [escape_spec false s]
               (mkmach (init_cfg HData last false) [] [] 0%N) [] in
    snd r = [SSuspend; SSuspend] /\ st (mc (fst r)) = HData /\
    exists l k l' k', obs (mout (fst r)) = (TEof, l', k') :: match s with [] => [] | _ => [(TChars s, l, k)] end.
Proof. exact html_escaped_text_lexes_back. Qed.
Print Assumptions C07_escaped_text_lexes_back.

(* (b) whole runs, attribute values: less-than a space b equals QUOT ([pre6]), escape_spec true s, QUOT greater-than, then
   end(), for a sink that does not answer on the tag name a: exactly one start tag a with the single attribute (b, s) *)
Theorem C07_escaped_attr_lexes_back :
  forall simd c1 sk last s,
  lookup_resp [97%N] (sk_resp sk) = None -> ~ In 0%N s -> ~ In 13%N s ->
  exists fuel0, forall fuel, (fuel0 <= fuel)%nat ->
    let r := drive_flat html_flavour true html_table simd hent c1 sk fuel [] [pre6 ++ escape_spec true s ++ [34; 62]%N]
               (mkmach (init_cfg HData last false) [] [] 0%N) [] in
    snd r = [SSuspend; SSuspend] /\ st (mc (fst r)) = HData /\
    exists l k l' k', obs (mout (fst r)) = [(TEof, l', k'); (TTag TStartTag [97%N] false [([98%N], s)] false, l, k)].
Proof. exact html_escaped_attr_lexes_back. Qed.
Print Assumptions C07_escaped_attr_lexes_back.

(* the same for the tokenizer's DEFAULT mode: the chunked-queue interpreter with exact_errors = false (bulk reads, SIMD
   scan; the interpreter that runs against the Rust code), for every fuel with which its run ends regularly *)
Theorem C07_escaped_text_lexes_back_default_mode :
  forall c1 sk last s fuel, ~ In 0%N s -> ~ In 13%N s ->
  let rf := drive_chunked html_flavour false html_table html_simd hent c1 sk fuel [] [escape_spec false s]
              (mkmach (init_cfg HData last false) [] [] 0%N) [] in
  regular (snd rf) ->
  snd rf = [SSuspend; SSuspend] /\ st (mc (fst rf)) = HData /\
  exists l k l' k', obs (mout (fst rf)) = (TEof, l', k') :: match s with [] => [] | _ => [(TChars s, l, k)] end.
Proof. exact html_escaped_text_lexes_back_default_mode. Qed.
Print Assumptions C07_escaped_text_lexes_back_default_mode.

Theorem C07_escaped_attr_lexes_back_default_mode :
  forall c1 sk last s fuel,
  lookup_resp [97%N] (sk_resp sk) = None -> ~ In 0%N s -> ~ In 13%N s ->
  let rf := drive_chunked html_flavour false html_table html_simd hent c1 sk fuel [] [pre6 ++ escape_spec true s ++ [34; 62]%N]
              (mkmach (init_cfg HData last false) [] [] 0%N) [] in
  regular (snd rf) ->
  snd rf = [SSuspend; SSuspend] /\ st (mc (fst rf)) = HData /\
  exists l k l' k', obs (mout (fst rf)) = [(TEof, l', k'); (TTag TStartTag [97%N] false [([98%N], s)] false, l, k)].
Proof. exact html_escaped_attr_lexes_back_default_mode. Qed.
Print Assumptions C07_escaped_attr_lexes_back_default_mode.

(* non-vacuity (a test, by computation): s = a & b NBSP LT GT QUOT U+0001 LF c, 25 / 30 characters escaped; the text run
   delivers 12 entries (10 character tokens, one parse error for U+0001, EOF), observably the character token s and EOF *)
Example C07_lex_example :
  let rt := drive_flat html_flavour true html_table html_simd hent (fun _ => None) lex_sk 200 [] [escape_spec false lex_s]
              (mkmach (init_cfg HData None false) [] [] 0%N) [] in
  let ra := drive_flat html_flavour true html_table html_simd hent (fun _ => None) lex_sk 200 [] [pre6 ++ escape_spec true lex_s ++ [34; 62]%N]
              (mkmach (init_cfg HData None false) [] [] 0%N) [] in
  map (fun e => fst (fst e)) (obs (mout (fst rt))) = [TEof; TChars lex_s] /\
  map (fun e => fst (fst e)) (obs (mout (fst ra))) = [TEof; TTag TStartTag [97%N] false [([98%N], lex_s)] false] /\
  length (escape_spec false lex_s) = 25%nat /\ length (escape_spec true lex_s) = 30%nat /\
  length (mout (fst rt)) = 12%nat.
Proof. exact lex_example. Qed.
Print Assumptions C07_lex_example.

(* ------------------------------------------------------------------ the TAG SYNTAX the serializer writes, read back by the real
   tokenizer model (HtmlSer/SerLexTag.v, Inst/InstSerLexTag.v; reference semantics, default mode via TokIR/BulkSim.v).
   render_start n attrs = less-than n { space name equals QUOT escape_spec true value QUOT } greater-than,
   render_end n = less-than slash n greater-than, attribute names as printed (prefix ++ local name: xlink:href, xml:lang,
   xmlns:xlink, ... - a colon is an ordinary name character for the tokenizer).
   tag_name_ok: non-empty, first character a lower-case ASCII letter, no white space / slash / greater-than / NUL / CR /
   upper-case ASCII letter; attr_name_ok: non-empty, additionally no equals sign, quotation mark, apostrophe, less-than.
   DataOK: Data state, no pending character reference, reconsume / ignore_lf clear, no pending attribute. *)
From HV Require Import HtmlSer.SerLexTag Inst.InstSerLexTag.

(* what the byte-level serializer model writes for a tag IS the UTF-8 encoding of these characters (repaired
   write_escaped loop, ASCII names, values given as code points) *)
Theorem C07_tag_bytes_are_rendered_chars :
  (forall v name attrs, fix_c2 v = true -> ascii (snd name) -> Forall (fun a => ascii (fst (printed_attr a))) attrs ->
     start_tag v name (map byte_attr attrs) = encs (render_start (snd name) (map printed_attr attrs))) /\
  (forall name, ascii (snd name) -> end_tag name = encs (render_end (snd name))).
Proof. split; [exact start_tag_is_render|exact end_tag_is_render]. Qed.
Print Assumptions C07_tag_bytes_are_rendered_chars.

(* a start tag: from ANY machine in a clean Data state whose unread input starts with the rendered start tag, for a sink that
   does not answer on the name: exactly one token TTag TStartTag n false attrs false (all attributes, in order, values
   unescaped, no duplicate flag, not self-closing) up to [obs], back in a clean Data state with the rest unread *)
Theorem C07_start_tag_lexes :
  forall sg ss sn c1 sk n attrs rest (m : mach hstate (list N)),
  DataOK m -> mq m = render_start n attrs ++ rest -> tag_name_ok n = true -> attrs_ok attrs ->
  lookup_resp n (sk_resp sk) = None ->
  exists j m', iter html_flavour html_table (sg, ss, sn) hent c1 sk j m = Some m' /\ DataOK m' /\ mq m' = rest /\
               exists l kk, obs (mout m') = ocons (TTag TStartTag n false attrs false, l, kk) (obs (mout m)).
Proof. exact start_tag_lex. Qed.
Print Assumptions C07_start_tag_lexes.

Theorem C07_end_tag_lexes :
  forall sg ss sn c1 sk n rest (m : mach hstate (list N)),
  DataOK m -> mq m = render_end n ++ rest -> tag_name_ok n = true -> lookup_resp n (sk_resp sk) = None ->
  exists j m', iter html_flavour html_table (sg, ss, sn) hent c1 sk j m = Some m' /\ DataOK m' /\ mq m' = rest /\
               exists l kk, obs (mout m') = ocons (TTag TEndTag n false [] false, l, kk) (obs (mout m)).
Proof. exact end_tag_lex. Qed.
Print Assumptions C07_end_tag_lexes.

(* a serialized SEQUENCE of start tags, escaped texts and end tags lexes to the corresponding token sequence (up to [obs];
   [deliv ts o o']: o' extends o by the tokens ts in order, adjacent texts merged), from any clean Data state, whatever
   follows ([follow]: a non-empty text is followed by something).
   _partial: this is the tokenizer half of "parse (serialize t) = t" for ordinary elements only - names on which the sink
   does not switch the tokenizer state (so not script / style / title / textarea / plaintext ... after whose start tag the
   tree builder answers RawData / Plaintext), no void-element, comment, doctype or processing-instruction syntax, a flat
   sequence rather than the serialization of a tree, and the tokens -> tree direction (the tree builder) is not covered. *)
Theorem C07_serialized_sequence_lexes_partial :
  forall sg ss sn c1 sk its rest (m : mach hstate (list N)),
  DataOK m -> mq m = render_items its ++ rest -> Forall (item_ok sk) its -> follow its rest ->
  exists j m', iter html_flavour html_table (sg, ss, sn) hent c1 sk j m = Some m' /\ DataOK m' /\ mq m' = rest /\
               deliv (items_tokens its) (obs (mout m)) (obs (mout m')).
Proof. exact chain_lex. Qed.
Print Assumptions C07_serialized_sequence_lexes_partial.

(* whole runs: the sequence as the whole input, then end() - reference semantics, and the default mode *)
Theorem C07_serialized_sequence_lexes_back_partial :
  forall simd c1 sk last its, Forall (item_ok sk) its -> follow its [] ->
  exists fuel0, forall fuel, (fuel0 <= fuel)%nat ->
    let r := drive_flat html_flavour true html_table simd hent c1 sk fuel [] [render_items its]
               (mkmach (init_cfg HData last false) [] [] 0%N) [] in
    snd r = [SSuspend; SSuspend] /\ st (mc (fst r)) = HData /\
    exists l' k' o, obs (mout (fst r)) = (TEof, l', k') :: o /\ deliv (items_tokens its) [] o.
Proof. exact html_items_lex_back. Qed.
Print Assumptions C07_serialized_sequence_lexes_back_partial.

Theorem C07_serialized_sequence_lexes_back_default_mode_partial :
  forall c1 sk last its fuel, Forall (item_ok sk) its -> follow its [] ->
  let rf := drive_chunked html_flavour false html_table html_simd hent c1 sk fuel [] [render_items its]
              (mkmach (init_cfg HData last false) [] [] 0%N) [] in
  regular (snd rf) ->
  snd rf = [SSuspend; SSuspend] /\ st (mc (fst rf)) = HData /\
  exists l' k' o, obs (mout (fst rf)) = (TEof, l', k') :: o /\ deliv (items_tokens its) [] o.
Proof. exact html_items_lex_back_default_mode. Qed.
Print Assumptions C07_serialized_sequence_lexes_back_default_mode_partial.

(* non-vacuity (a test, by computation, and the side conditions of the theorem on the same sequence):
   div id = a LT b  xlink:href = x AMP y QUOT z ; text 1 LT 2 AMP 3 ; b ; text x ; end b ; end div  - 75 characters *)
Example C07_tag_sequence_example :
  (let r := drive_flat html_flavour true html_table html_simd hent (fun _ => None) lex_sk 400 [] [render_items tag_items]
              (mkmach (init_cfg HData None false) [] [] 0%N) [] in
   rev (map (fun e => fst (fst e)) (obs (mout (fst r)))) = items_tokens tag_items ++ [TEof] /\
   length (render_items tag_items) = 75%nat /\ snd r = [SSuspend; SSuspend]) /\
  Forall (item_ok lex_sk) tag_items /\ follow tag_items [].
Proof. split; [exact tag_items_example|exact tag_items_ok]. Qed.
Print Assumptions C07_tag_sequence_example.

(* ------------------------------------------------------------------------------------------------------------
   The default-mode lexing theorems with the explicit fuel bound of Props/C04.v in place of `regular`
   (Inst/InstSerLexTotal.v over Inst/InstBulkTerm.v): fuel >= (T + 1)(2T + 10), T the length of the serialized text. *)
From HV Require Inst.InstTermination Inst.InstSerLexTotal.

Theorem C07_escaped_text_lexes_back_default_mode_total :
  forall c1 sk last s fuel, ~ In 0%N s -> ~ In 13%N s ->
  (InstTermination.html_fuel (length (escape_spec false s)) <= fuel)%nat -> (4 <= fuel)%nat ->
  let rf := drive_chunked html_flavour false html_table html_simd hent c1 sk fuel [] [escape_spec false s]
              (mkmach (init_cfg HData last false) [] [] 0%N) [] in
  snd rf = [SSuspend; SSuspend] /\ st (mc (fst rf)) = HData /\
  exists l k l' k', obs (mout (fst rf)) = (TEof, l', k') :: match s with [] => [] | _ => [(TChars s, l, k)] end.
Proof. exact InstSerLexTotal.html_escaped_text_lexes_back_default_mode_total. Qed.
Print Assumptions C07_escaped_text_lexes_back_default_mode_total.

Theorem C07_escaped_attr_lexes_back_default_mode_total :
  forall c1 sk last s fuel,
  lookup_resp [97%N] (sk_resp sk) = None -> ~ In 0%N s -> ~ In 13%N s ->
  (InstTermination.html_fuel (length (pre6 ++ escape_spec true s ++ [34; 62]%N)) <= fuel)%nat -> (4 <= fuel)%nat ->
  let rf := drive_chunked html_flavour false html_table html_simd hent c1 sk fuel [] [pre6 ++ escape_spec true s ++ [34; 62]%N]
              (mkmach (init_cfg HData last false) [] [] 0%N) [] in
  snd rf = [SSuspend; SSuspend] /\ st (mc (fst rf)) = HData /\
  exists l k l' k', obs (mout (fst rf)) = [(TEof, l', k'); (TTag TStartTag [97%N] false [([98%N], s)] false, l, k)].
Proof. exact InstSerLexTotal.html_escaped_attr_lexes_back_default_mode_total. Qed.
Print Assumptions C07_escaped_attr_lexes_back_default_mode_total.

Theorem C07_serialized_sequence_lexes_back_default_mode_total_partial :
  forall c1 sk last its fuel, Forall (item_ok sk) its -> follow its [] ->
  (InstTermination.html_fuel (length (render_items its)) <= fuel)%nat -> (4 <= fuel)%nat ->
  let rf := drive_chunked html_flavour false html_table html_simd hent c1 sk fuel [] [render_items its]
              (mkmach (init_cfg HData last false) [] [] 0%N) [] in
  snd rf = [SSuspend; SSuspend] /\ st (mc (fst rf)) = HData /\
  exists l' k' o, obs (mout (fst rf)) = (TEof, l', k') :: o /\ deliv (items_tokens its) [] o.
Proof. exact InstSerLexTotal.html_items_lex_back_default_mode_total. Qed.
Print Assumptions C07_serialized_sequence_lexes_back_default_mode_total_partial.
