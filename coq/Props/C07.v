(* C07 - placeholder while the proofs are being written *)
From Coq Require Import List NArith Bool.
From HV Require Import HtmlSer.SerModel HtmlSer.SerSpec.
Import ListNotations.
Example C07_smoke : write_escaped_impl as_is false [0xC2; 0xA9]%N = WOk [0xA9]%N.
Proof. vm_compute. reflexivity. Qed.
Print Assumptions C07_smoke.
