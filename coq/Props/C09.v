(* C09 — line numbers reported with tokens match the source.  Statements only. *)
From Coq Require Import List NArith Bool.
From HV Require Import TokIR.IR TokIR.Interp TokIR.Checks Gen.GenHtmlTok Inst.InstHtmlTok.
Import ListNotations.

(* no peek-then-raw-discard path of the regenerated html table can drop a CR or LF uncounted *)
Theorem C09_raw_discard_safe : raw_discard_safe html_table = [].
Proof. exact html_raw_discard_safe. Qed.
Print Assumptions C09_raw_discard_safe.

(* every bulk-read state stops at CR and LF, so line breaks are always counted by get_preprocessed_char
   (or by the SIMD scan, whose stop/newline sets are mutually consistent) *)
Theorem C09_bulk_sets_stop_at_line_breaks : sets_adequate hstate_beq true html_table = [].
Proof. exact html_sets_adequate. Qed.
Print Assumptions C09_bulk_sets_stop_at_line_breaks.

Theorem C09_simd_sets_consistent :
  simd_consistent (match html_step HData with BPop s _ _ _ => s | _ => [] end)
                  simd_first_guard simd_tail_stop simd_tail_newline simd_lane_stop simd_lane_newline = true.
Proof. exact simd_sets_consistent. Qed.
Print Assumptions C09_simd_sets_consistent.
