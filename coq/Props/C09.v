(* C09 — line numbers reported with tokens match the source.  Statements only. *)
From Coq Require Import List NArith Bool.
From HV Require Import TokIR.IR TokIR.Interp TokIR.Checks TokIR.LineInv Gen.GenHtmlTok Inst.InstHtmlTok Inst.InstLine.
From HV Require Import CharRef.CRModel Gen.GenEntities.
From HV Require Import TokIR.Chunk TokIR.QueueSim TokIR.BulkSim TokIR.NoPanic Inst.InstBulk Inst.InstTermination Inst.InstNoPanic Inst.InstLineDefault.
Import ListNotations.
Local Open Scope N_scope.

(* no peek-then-raw-discard path of the regenerated html table can drop a CR or LF uncounted *)
Theorem C09_raw_discard_safe : raw_discard_safe html_table = [].
Proof. exact html_raw_discard_safe. Qed.
Print Assumptions C09_raw_discard_safe.

(* every bulk-read state stops at CR and LF, so line breaks are always counted by get_preprocessed_char
   (or by the SIMD scan, whose stop/newline sets are mutually consistent) *)
Theorem C09_bulk_sets_stop_at_line_breaks : sets_adequate hstate_beq true html_table = [].
Proof. exact html_sets_adequate. Qed.
Print Assumptions C09_bulk_sets_stop_at_line_breaks.

Theorem C09_simd_sets_consistent :
  simd_consistent (match html_step HData with BPop s _ _ _ => s | _ => [] end)
                  simd_first_guard simd_tail_stop simd_tail_newline simd_lane_stop simd_lane_newline = true.
Proof. exact simd_sets_consistent. Qed.
Print Assumptions C09_simd_sets_consistent.

(* ------------------------------------------------------------------------------------------------------------
   The law itself, for ALL inputs (TokIR/LineInv.v, instantiated on the regenerated html table in Inst/InstLine.v).
   Reference semantics: html flavour, exact_errors = true, flat queue, the whole input fed at once and then end(),
   any start state, any sink answers.  [mout] holds every token delivered, each with the line number passed to the
   sink and the ghost position k (characters consumed so far); [breaks] counts LF, lone CR and CR LF (once).
   A CR that is the last consumed character has been counted; the LF that may follow is not counted again. *)
Theorem C09_line_numbers_match_source :
  forall simd ent c1 sk,
  (forall buf v, ent buf = Some v -> nobreaks buf = true) ->     (* entity-table keys contain no CR / LF *)
  forall input fuel s0 last t ln k,
  In (t, ln, k) (mout (fst (drive_flat html_flavour true html_table simd ent c1 sk fuel [] [input]
                                       (mkmach (init_cfg s0 last false) [] [] 0) []))) ->
  ln = 1 + breaks (firstn (N.to_nat k) input).
Proof. exact html_drive_line_law. Qed.
Print Assumptions C09_line_numbers_match_source.

(* with the entity table of the pinned source (web_atoms::NAMED_ENTITIES as compiled, the table C14 proves equal to
   the WHATWG list) the hypothesis is discharged *)
Theorem C09_line_numbers_match_source_pinned_entities :
  forall simd c1 sk input fuel s0 last t ln k,
  In (t, ln, k) (mout (fst (drive_flat html_flavour true html_table simd (alookup entities) c1 sk fuel [] [input]
                                       (mkmach (init_cfg s0 last false) [] [] 0) []))) ->
  ln = 1 + breaks (firstn (N.to_nat k) input).
Proof. exact html_drive_line_law_entities. Qed.
Print Assumptions C09_line_numbers_match_source_pinned_entities.

Theorem C09_entity_keys_have_no_line_break :
  forall buf v, alookup entities buf = Some v -> nobreaks buf = true.
Proof. exact real_entities_ok. Qed.
Print Assumptions C09_entity_keys_have_no_line_break.

(* the same law for the tokens delivered before end() is called (feed() of the whole input, with the sink's
   script / encoding pauses) *)
Theorem C09_line_numbers_match_source_before_end :
  forall simd ent c1 sk,
  (forall buf v, ent buf = Some v -> nobreaks buf = true) ->
  forall input fuel s0 last t ln k,
  In (t, ln, k)
     (mout (fst (feed_loop [] fq_next fq_peek (@app N) (fun q => q) fq_run1 html_flavour true html_table
                           simd ent c1 sk 50 fuel [] (mkmach (init_cfg s0 last false) input [] 0) []))) ->
  ln = 1 + breaks (firstn (N.to_nat k) input).
Proof. exact html_feed_line_law. Qed.
Print Assumptions C09_line_numbers_match_source_before_end.

(* every machine reached: the invariant holds initially, is kept by every step (table arm or character-reference
   step, before or after end()), and gives the law for all tokens delivered so far *)
Theorem C09_line_invariant_initially :
  forall (simd : list N * list N * list N) (ent : list N -> option (N * N)) input s0 last,
  HtmlLineInv input false (mkmach (init_cfg s0 last false) input [] 0).
Proof. exact html_line_inv_init. Qed.
Print Assumptions C09_line_invariant_initially.

Theorem C09_line_invariant_kept_by_every_step :
  forall simd ent c1 sk,
  (forall buf v, ent buf = Some v -> nobreaks buf = true) ->
  forall input at_eof m,
  HtmlLineInv input false m ->
  HtmlLineInv input at_eof
    (fst (step [] fq_next fq_peek (@app N) (fun q => q) fq_run1 html_flavour true html_table simd ent c1 sk at_eof m)).
Proof. exact html_line_inv_step. Qed.
Print Assumptions C09_line_invariant_kept_by_every_step.

Theorem C09_line_invariant_gives_the_law :
  forall input at_eof m, HtmlLineInv input at_eof m ->
  forall t ln k, In (t, ln, k) (mout m) -> ln = 1 + breaks (firstn (N.to_nat k) input).
Proof. exact html_line_inv_law. Qed.
Print Assumptions C09_line_invariant_gives_the_law.

(* ------------------------------------------------------------------------------------------------------------
   The law in the tokenizer's REAL default configuration: exact_errors = false, the chunked BufferQueue, bulk reads
   (pop_except_from) and the SIMD scan of the Data state - the code path every ordinary parse takes
   (Inst/InstLineDefault.v).  It is transported from the reference semantics through the default-mode simulation
   (TokIR/BulkSim.v, fuel bound html_fuel of TokIR/BulkTerm.v: no regularity hypothesis is left).  Default mode
   merges a run of characters into one token and drops some error tokens; [obs] is the observation that forgets
   exactly that (a maximal character run is represented by its last piece, errors are erased), so the law is stated
   for every entry of the observation, and literally for every token that is neither characters nor an error. *)
Theorem C09_default_mode_line_numbers_match_source :
  forall ent c1 sk,
  (forall buf v, ent buf = Some v -> nobreaks buf = true) ->
  forall input fuel s0 last,
  (html_fuel (length input) <= fuel)%nat -> (4 <= fuel)%nat ->
  forall t ln k,
  In (t, ln, k) (obs (mout (fst (drive_chunked html_flavour false html_table html_simd ent c1 sk fuel [] [input]
                                               (mkmach (init_cfg s0 last false) [] [] 0) [])))) ->
  ln = 1 + breaks (firstn (N.to_nat k) input).
Proof. exact html_default_mode_line_law. Qed.
Print Assumptions C09_default_mode_line_numbers_match_source.

Theorem C09_default_mode_line_numbers_of_tags_comments_doctypes_eof :
  forall ent c1 sk,
  (forall buf v, ent buf = Some v -> nobreaks buf = true) ->
  forall input fuel s0 last t ln k,
  (html_fuel (length input) <= fuel)%nat -> (4 <= fuel)%nat ->
  plain_tok t = true ->                                            (* any token but TChars / TError *)
  In (t, ln, k) (mout (fst (drive_chunked html_flavour false html_table html_simd ent c1 sk fuel [] [input]
                                          (mkmach (init_cfg s0 last false) [] [] 0) []))) ->
  ln = 1 + breaks (firstn (N.to_nat k) input).
Proof. exact html_default_mode_line_law_tokens. Qed.
Print Assumptions C09_default_mode_line_numbers_of_tags_comments_doctypes_eof.

(* with the entity table of the pinned source no hypothesis is left: every fuel above the explicit bound *)
Theorem C09_default_mode_line_numbers_match_source_pinned_entities :
  forall c1 sk input fuel s0 last,
  (html_fuel (length input) <= fuel)%nat -> (4 <= fuel)%nat ->
  forall t ln k,
  In (t, ln, k) (obs (mout (fst (drive_chunked html_flavour false html_table html_simd (alookup entities) c1 sk fuel [] [input]
                                               (mkmach (init_cfg s0 last false) [] [] 0) [])))) ->
  ln = 1 + breaks (firstn (N.to_nat k) input).
Proof. exact (fun c1 sk => html_default_mode_line_law (alookup entities) c1 sk real_entities_ok). Qed.
Print Assumptions C09_default_mode_line_numbers_match_source_pinned_entities.

(* any chunking (non-empty chunks) of the input, for a sink that never pauses the tokenizer: positions count in the
   concatenated input *)
Theorem C09_default_mode_line_numbers_match_source_any_chunking :
  forall ent c1 sk,
  (forall buf v, ent buf = Some v -> nobreaks buf = true) ->
  forall chunks fuel s0 last,
  html_sink_ok sk = true -> html_sink_never_pauses sk = true -> html_kind_ok s0 = true ->
  all_nonempty chunks -> chunks <> [] ->
  (html_fuel (length (concat chunks)) <= fuel)%nat -> (4 <= fuel)%nat ->
  forall t ln k,
  In (t, ln, k) (obs (mout (fst (drive_chunked html_flavour false html_table html_simd ent c1 sk fuel [] chunks
                                               (mkmach (init_cfg s0 last false) [] [] 0) [])))) ->
  ln = 1 + breaks (firstn (N.to_nat k) (concat chunks)).
Proof. exact html_default_mode_line_law_chunked. Qed.
Print Assumptions C09_default_mode_line_numbers_match_source_any_chunking.

(* the decidable conditions under which the generic theorem holds, on the regenerated table *)
Theorem C09_step_arms_count_every_line_break : forall s, start_ok html_table html_clean s = true.
Proof. exact html_start_ok_all. Qed.
Print Assumptions C09_step_arms_count_every_line_break.

Theorem C09_eof_arms_do_not_read : forall s, eof_ok (t_eof html_table s) = true.
Proof. exact html_eof_ok_all. Qed.
Print Assumptions C09_eof_arms_do_not_read.

(* non-vacuity (a test, by computation): a document with a tag spanning four lines, CR LF, lone CR, LF, named /
   numeric / unfinished character references, comment, doctype, a reported bad character: 16 tokens, the EOF token
   at line 10 = 1 + 9 line breaks with all 60 characters consumed *)
Example C09_line_law_example :
  line_law_b InstLine.ex_input (mout (fst InstLine.ex_run)) = true /\
  InstLine.ex_positions = [(4, 14); (4, 19); (5, 20); (5, 25); (5, 26); (5, 27); (5, 28); (6, 29); (7, 41); (8, 42);
                  (9, 57); (10, 58); (10, 59); (10, 59); (10, 60); (10, 60)] /\
  lenN InstLine.ex_input = 60 /\ breaks InstLine.ex_input = 9.
Proof. exact ex_run_obeys_law. Qed.
Print Assumptions C09_line_law_example.

(* non-vacuity of the default-mode law (a test, by computation): the same document fed as two chunks cut inside
   `&amp;`, default mode, fuel exactly html_fuel 60: 7 observed entries, all obeying the law, three clean returns *)
Example C09_default_mode_line_law_example :
  line_law_b InstLine.ex_input (obs (mout (fst dex_run))) = true /\
  length (obs (mout (fst dex_run))) = 7%nat /\ snd dex_run = [SSuspend; SSuspend; SSuspend].
Proof. exact dex_run_obeys_law. Qed.
Print Assumptions C09_default_mode_line_law_example.
