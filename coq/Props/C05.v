(* C05 - Tree builders honour the documented TreeSink calling contract.
   Only statements, closed by [exact], and their assumptions.

   FULL STATEMENT (not proved here):
     for every input, every document / fragment context and either scripting flag, every call
     html5ever's and xml5ever's tree builders make on a sink satisfies [AllowedCall] in the DOM
     state in which it is issued.
   The quantification over ALL INPUTS is discharged by two parts:
     (a) the meta-theorems below, which hold for ALL call sequences: the decision procedure
         [Contract.monitor] (extracted, it judges every recorded trace) answers None exactly when
         the relational contract holds at every call; contract-respecting sequences keep the
         abstract DOM well-formed; acceptance implies DomSpec.contract_run (C20's hypothesis);
     (b) the monitored runs of ./check C05 (every TreeSink call of generated parses is recorded
         and judged) - testing, not proof -
   until the executable tree-builder model's invariant theorem (all ops of process_token satisfy
   the contract) lands.  For xml5ever the full statement is REFUTED (C05_xml_two_doctypes_rejected).

   Vocabulary (coq/Dom/DomSpec.v, coq/SinkSpec/Contract.v, ContractSpec.v):
     call               one TreeSink method call with its arguments (sinkop + the pure queries)
     run_calls d cs     the abstract DOM after the calls, as the trait documentation prescribes
     monitor d cs       index and clause of the first call that breaks the contract, or None
     AllowedCall d c    the contract, relationally: handles were handed out by this sink; element-only
                        operations get elements of the right kind (HTML template / form /
                        form-associatable / script / option); an inserted child was created by the
                        sink, has no parent and is not the new parent or one of its ancestors; the
                        reference sibling is not text and has a parent; a doctype only while the
                        document has neither doctype nor element; attribute names pairwise distinct
     ContractHolds d cs every call of cs is allowed in the state in which it is issued
     WellFormed d       children in bounds, unique parents, duplicate-free child lists, acyclic,
                        only documents/fragments/elements have children, handles in bounds *)
From Coq Require Import List NArith Bool Arith.
From HV Require Import Dom.DomSpec SinkSpec.Contract SinkSpec.ContractSpec SinkSpec.ContractProofs
                       SinkSpec.Examples SinkSpec.ExamplesProofs.
Import ListNotations.

(* the judge is sound and complete for the relational contract, for every call sequence *)
Theorem C05_monitor_sound_complete :
  forall cs, monitor init cs = None <-> ContractHolds init cs.
Proof. exact monitor_sound_complete. Qed.
Print Assumptions C05_monitor_sound_complete.

(* one call, in any state reached by allowed calls *)
Theorem C05_check_call_decides_contract :
  forall pre c, monitor init pre = None ->
  (check_call (run_calls init pre) c = None <-> AllowedCall (run_calls init pre) c).
Proof. exact check_call_decides. Qed.
Print Assumptions C05_check_call_decides_contract.

(* contract-respecting call sequences keep the abstract DOM well-formed, at every prefix *)
Theorem C05_contract_keeps_dom_wellformed :
  forall pre post, monitor init (pre ++ post) = None -> WellFormed (run_calls init pre).
Proof. exact monitor_wellformed_prefix. Qed.
Print Assumptions C05_contract_keeps_dom_wellformed.

(* a trace the judge accepts satisfies the calling contract C20's refinement theorem assumes *)
Theorem C05_monitor_implies_domspec_contract :
  forall cs, monitor init cs = None -> contract_run init (ops_of cs) = true.
Proof. exact monitor_domspec. Qed.
Print Assumptions C05_monitor_implies_domspec_contract.

(* REFUTATION for xml5ever: the recorded trace of <!DOCTYPE a><!DOCTYPE b><r/> (phase Start
   appends every DOCTYPE token) breaks "a doctype is appended at most once"
   (known finding C05-xml-doctype-appended-twice; vm_compute on the recorded trace) *)
Theorem C05_xml_two_doctypes_rejected :
  monitor init xml_two_doctypes = Some (2, CSecondDoctype) /\ ~ ContractHolds init xml_two_doctypes.
Proof. exact xml_two_doctypes_rejected. Qed.
Print Assumptions C05_xml_two_doctypes_rejected.

(* non-vacuity: the recorded adoption-agency trace of <b><p>x</b>y (remove_from_parent,
   reparent_children, re-append) is accepted, hence satisfies the relational contract ... *)
Example C05_adoption_trace_accepted :
  monitor init adoption_trace = None /\ ContractHolds init adoption_trace.
Proof. exact adoption_trace_accepted. Qed.
(* ... and the same trace without the removal before the re-append is rejected at that call *)
Example C05_missing_removal_rejected :
  monitor init adoption_trace_without_removal = Some (14, CChildHasParent).
Proof. exact missing_removal_rejected. Qed.
