(* C05 - Tree builders honour the documented TreeSink calling contract.
   Only statements, closed by [exact], and their assumptions.

   FULL STATEMENT (not proved here):
     for every input, every document / fragment context and either scripting flag, every call
     html5ever's and xml5ever's tree builders make on a sink satisfies [AllowedCall] in the DOM
     state in which it is issued.
   The quantification over ALL INPUTS is discharged by two parts:
     (a) the meta-theorems below, which hold for ALL call sequences: the decision procedure
         [Contract.monitor] (extracted, it judges every recorded trace) answers None exactly when
         the relational contract holds at every call; contract-respecting sequences keep the
         abstract DOM well-formed; acceptance implies DomSpec.contract_run (C20's hypothesis);
     (b) the monitored runs of ./check C05 (every TreeSink call of generated parses is recorded
         and judged) - testing, not proof -
   until the executable tree-builder model's invariant theorem (all ops of process_token satisfy
   the contract) lands.  For xml5ever the full statement is REFUTED (C05_xml_two_doctypes_rejected).

   Vocabulary (coq/Dom/DomSpec.v, coq/SinkSpec/Contract.v, ContractSpec.v):
     call               one TreeSink method call with its arguments (sinkop + the pure queries)
     run_calls d cs     the abstract DOM after the calls, as the trait documentation prescribes
     monitor d cs       index and clause of the first call that breaks the contract, or None
     AllowedCall d c    the contract, relationally: handles were handed out by this sink; element-only
                        operations get elements of the right kind (HTML template / form /
                        form-associatable / script / option); an inserted child was created by the
                        sink, has no parent and is not the new parent or one of its ancestors; the
                        reference sibling is not text and has a parent; a doctype only while the
                        document has neither doctype nor element; attribute names pairwise distinct
     ContractHolds d cs every call of cs is allowed in the state in which it is issued
     WellFormed d       children in bounds, unique parents, duplicate-free child lists, acyclic,
                        only documents/fragments/elements have children, handles in bounds *)
From Coq Require Import List NArith Bool Arith.
From HV Require Import Dom.DomSpec SinkSpec.Contract SinkSpec.ContractSpec SinkSpec.ContractProofs
                       SinkSpec.Examples SinkSpec.ExamplesProofs.
Import ListNotations.

(* the judge is sound and complete for the relational contract, for every call sequence *)
Theorem C05_monitor_sound_complete :
  forall cs, monitor init cs = None <-> ContractHolds init cs.
Proof. exact monitor_sound_complete. Qed.
Print Assumptions C05_monitor_sound_complete.

(* one call, in any state reached by allowed calls *)
Theorem C05_check_call_decides_contract :
  forall pre c, monitor init pre = None ->
  (check_call (run_calls init pre) c = None <-> AllowedCall (run_calls init pre) c).
Proof. exact check_call_decides. Qed.
Print Assumptions C05_check_call_decides_contract.

(* contract-respecting call sequences keep the abstract DOM well-formed, at every prefix *)
Theorem C05_contract_keeps_dom_wellformed :
  forall pre post, monitor init (pre ++ post) = None -> WellFormed (run_calls init pre).
Proof. exact monitor_wellformed_prefix. Qed.
Print Assumptions C05_contract_keeps_dom_wellformed.

(* a trace the judge accepts satisfies the calling contract C20's refinement theorem assumes *)
Theorem C05_monitor_implies_domspec_contract :
  forall cs, monitor init cs = None -> contract_run init (ops_of cs) = true.
Proof. exact monitor_domspec. Qed.
Print Assumptions C05_monitor_implies_domspec_contract.

(* REFUTATION for xml5ever: the recorded trace of <!DOCTYPE a><!DOCTYPE b><r/> (phase Start
   appends every DOCTYPE token) breaks "a doctype is appended at most once"
   (known finding C05-xml-doctype-appended-twice; vm_compute on the recorded trace) *)
Theorem C05_xml_two_doctypes_rejected :
  monitor init xml_two_doctypes = Some (2, CSecondDoctype) /\ ~ ContractHolds init xml_two_doctypes.
Proof. exact xml_two_doctypes_rejected. Qed.
Print Assumptions C05_xml_two_doctypes_rejected.

(* non-vacuity: the recorded adoption-agency trace of <b><p>x</b>y (remove_from_parent,
   reparent_children, re-append) is accepted, hence satisfies the relational contract ... *)
Example C05_adoption_trace_accepted :
  monitor init adoption_trace = None /\ ContractHolds init adoption_trace.
Proof. exact adoption_trace_accepted. Qed.
(* ... and the same trace without the removal before the re-append is rejected at that call *)
Example C05_missing_removal_rejected :
  monitor init adoption_trace_without_removal = Some (14, CChildHasParent).
Proof. exact missing_removal_rejected. Qed.

(* ------------------------------------------------------------------ the html tree-builder model *)
(* PROVED FOR ALL INPUTS (over the executable model coq/Tree/TreeModel*.v, which ./check C02 ties to html5ever
   event for event): on every token run that respects the tokenizer protocol, whatever breach the judge could
   report on the operations the model emits is a breach of one of the clauses NOT covered:
     CDuplicateAttribute, CChildHasParent, CCycle, CSecondDoctype, CDoctypeAfterElement, CCloneModel.
   Covered (never reported): CUnknownHandle, CHandleNumbering, CTemplateFlag, CMathmlIpFlag, CNotElement,
   CNotTemplate, CNotForm, CNotAssociatable, CNotScript, CNotOption, CParentNotContainer, CChildNotCreated,
   CSiblingIsText, CSiblingNoParent
   - i.e. handles are handed out before use and numbered consecutively, element-only arguments are elements of the
   right HTML kind, children are only put below the document / template contents / elements, what is inserted is
   an element or a comment the sink created, and the reference node of an insert-before is an element that has a
   parent (append_before_sibling is never called; append_based_on_parent_node takes its "before" branch only for a
   parented element).  The uncovered clauses stay monitored (./check C05).
   (RunPanic 99 = the ghost shape assertion of C02_tree_no_panic_partial, RunFuel = fuel of the Reprocess loop.) *)
From HV Require Tree.TreeTypes Tree.TreeModel Tree.TreeInvDefs Tree.TreeInvMain Tree.TreeContract Tree.TreeContractRun.

Theorem C05_html_ops_respect_contract_partial :
  forall o toks, TreeInvMain.protocol (TreeModel.init_state o) toks ->
    match TreeModel.run_tokens (TreeModel.init_state o) toks [] with
    | TreeModel.RunOk s' _ =>
      forall k c, In (k, c) (monitor_all 0 init (TreeContractRun.calls_of s')) -> TreeContract.covered c = false
    | TreeModel.RunPanic n => n = 99%N
    | TreeModel.RunFuel => True
    end.
Proof. exact TreeContractRun.ops_respect_contract_partial. Qed.
Print Assumptions C05_html_ops_respect_contract_partial.

Theorem C05_html_fragment_ops_respect_contract_partial :
  forall o name attrs with_form toks,
    match TreeModel.init_fragment name attrs with_form (TreeModel.init_state o) with
    | TreeTypes.Ok _ s0 =>
      TreeInvMain.protocol s0 toks ->
      match TreeModel.run_tokens s0 toks [] with
      | TreeModel.RunOk s' _ =>
        forall k c, In (k, c) (monitor_all 0 init (TreeContractRun.calls_of s')) -> TreeContract.covered c = false
      | TreeModel.RunPanic n => n = 99%N
      | TreeModel.RunFuel => True
      end
    | _ => False
    end.
Proof. exact TreeContractRun.ops_respect_contract_fragment_partial. Qed.
Print Assumptions C05_html_fragment_ops_respect_contract_partial.

(* the same for the first breach, i.e. for [monitor] itself, in any state satisfying the model's invariant *)
Theorem C05_html_first_breach_uncovered :
  forall s, TreeInvDefs.TInv s ->
    forall k c, monitor init (TreeContractRun.calls_of s) = Some (k, c) -> TreeContract.covered c = false.
Proof. exact (fun s I => TreeContract.trace_contract_first (TreeTypes.out s) (TreeContract.TInv_trace_okb s I)). Qed.
Print Assumptions C05_html_first_breach_uncovered.

(* which clauses are covered *)
Theorem C05_covered_clauses :
  map TreeContract.covered
    [CUnknownHandle; CHandleNumbering; CTemplateFlag; CMathmlIpFlag; CNotElement; CNotTemplate; CNotForm;
     CNotAssociatable; CNotScript; CNotOption; CParentNotContainer; CChildNotCreated; CSiblingIsText; CSiblingNoParent;
     CDuplicateAttribute; CChildHasParent; CCycle; CSecondDoctype; CDoctypeAfterElement; CCloneModel]
  = [true; true; true; true; true; true; true; true; true; true; true; true; true; true;
     false; false; false; false; false; false].
Proof. exact eq_refl. Qed.

(* non-vacuity: the example run of Props/C02.v emits its operations and the FULL judge accepts them;
   the partial check rejects an append below a comment *)
Theorem C05_html_example_run_accepted :
  match TreeModel.run_tokens (TreeModel.init_state TreeInvMain.ex_opts) TreeInvMain.ex_tokens [] with
  | TreeModel.RunOk s' _ =>
    Nat.leb 10 (length (TreeContractRun.calls_of s')) = true /\ monitor init (TreeContractRun.calls_of s') = None
  | _ => False
  end.
Proof. exact TreeContractRun.ex_contract_accepts. Qed.
Print Assumptions C05_html_example_run_accepted.
