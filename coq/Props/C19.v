(* C19 - Encoding indicators are raised exactly for meta-declared encodings.
   Only statements, closed by [exact], and their assumptions.

   Proved here: the extraction function.  The byte-position model of
   html5ever/src/encoding.rs (MetaModel.extract_impl, tied to the code by the
   correspondence run of lib/checks/c19.py) returns, for EVERY string of
   Unicode scalar values, exactly the label the WHATWG algorithm "extracting a
   character encoding from a meta element" (MetaSpec.extract_spec, on
   characters) returns, never takes a slice that is out of range or off a
   code-point boundary, and its loops terminate within the modelled bound.

   Proved in part (C19_label_partial): the body of the in-head arm as a
   function of the tag's attributes.

   NOT proved (no theorem below claims it): C19_when - "feed() returns
   EncodingIndicator l  iff  the token is a meta start tag that results in an
   inserted HTML meta element and (charset present with l = its value, or
   http-equiv ~ content-type and extract_spec content = Some l), the element
   is already in the tree, resuming continues as if nothing had happened".
   That needs the tree-builder model; it is judged on the implementation by the
   document oracle of lib/checks/c19.py. *)
From Coq Require Import List NArith Bool.
From HV Require Import Base.Utf8 Meta.MetaModel Meta.MetaSpec Meta.MetaProofs.
Import ListNotations.

Theorem C19_extract :
  forall s, scalars s ->
  extract_impl (encs s) =
  match extract_spec s with None => XNone | Some l => XSome (encs l) end.
Proof. exact extract_impl_correct_match. Qed.
Print Assumptions C19_extract.

Theorem C19_extract_no_panic :
  forall s, scalars s -> extract_impl (encs s) <> XPanic /\ extract_impl (encs s) <> XFuel.
Proof. exact extract_impl_no_panic. Qed.
Print Assumptions C19_extract_no_panic.

(* the two halves, each for a wider domain: on ANY byte string the positional
   code computes the character-level function and then validates the slice ... *)
Theorem C19_positions_are_suffixes :
  forall b, extract_impl b =
  match extract_spec b with
  | None => XNone
  | Some l => if validate_subseq l then XSome l else XPanic
  end.
Proof. exact impl_is_spec_on_bytes. Qed.
Print Assumptions C19_positions_are_suffixes.

(* ... and the WHATWG function commutes with UTF-8 encoding *)
Theorem C19_spec_commutes_with_utf8 :
  forall s, extract_spec (encs s) = option_map encs (extract_spec s).
Proof. exact spec_commutes_with_utf8. Qed.
Print Assumptions C19_spec_commutes_with_utf8.

(* C19_when, the part that is a function of the tag alone (named _partial: the
   full statement also says WHICH tokens reach this arm - every meta start tag
   that ends up inserted as an HTML element, from every insertion mode - that
   the element is already in the tree and that resuming is transparent; those
   need the tree-builder model).  The body of the in-head arm returns
   EncodingIndicator l exactly when the tag carries charset (l = its value) or,
   without charset, http-equiv ~ content-type and a content attribute from
   which the WHATWG extraction returns l; otherwise it is DoneAckSelfClosing;
   it never panics. *)
Theorem C19_label_partial :
  forall attrs, scalar_attrs attrs ->
  meta_arm (enc_attrs attrs) =
  match meta_label_spec attrs with Some l => AIndicator (encs l) | None => ADone end.
Proof. exact meta_arm_correct_match. Qed.
Print Assumptions C19_label_partial.

(* non-vacuity: `text/html; charset = "é x";` yields the label `é x`, and a
   byte string cut inside a code point really makes the model panic *)
Example C19_nonvacuous :
  scalars [116; 59; 32; 99; 104; 97; 114; 115; 101; 116; 32; 61; 32; 34; 233; 32; 120; 34; 59]%N /\
  extract_impl (encs [116; 59; 32; 99; 104; 97; 114; 115; 101; 116; 32; 61; 32; 34; 233; 32; 120; 34; 59]%N)
    = XSome [195; 169; 32; 120]%N /\
  extract_impl [99; 104; 97; 114; 115; 101; 116; 61; 169; 32]%N = XPanic.
Proof.
  split; [|split; vm_compute; reflexivity].
  repeat constructor.
Qed.

(* ------------------------------------------------------------------ C19_when over the tree-builder model *)
(* The executable tree-builder model coq/Tree (tied to html5ever event for event by ./check C02) answers the part of
   C19_when that is about WHICH tokens raise the indicator.  All statements are about TreeModel.process_token, on
   states satisfying the model's invariant TInv, for tokens respecting the tokenizer protocol (token_ok) whose
   attribute values are scalar sequences (scalar_token).  Panic 99 / OutOfFuel = the ghost shape assertion and the
   unproved fuel bound of C02_tree_no_panic_partial.
   NOT proved (stays judged on the implementation by lib/checks/c19.py): the tokenizer / driver side - that feed()
   suspends exactly when the tree builder answers with the indicator, once per such token, and that resuming the
   TOKENIZER continues as if nothing had happened; and completeness across insertion modes is given as the dispatch
   table plus the arm theorem, not as a single "iff the element ends up inserted" statement. *)
From Coq Require Import String.
From HV Require Tree.TreeTypes Tree.TreeTables Tree.TreeModelHelpers Tree.TreeModelRules Tree.TreeModel Tree.TreeHoare
  Tree.TreeInvDefs Tree.TreeInvPrims Tree.TreeInvHelpers Tree.TreeInvDispatch Tree.TreeInvRules Tree.TreeInvMain Tree.TreeEncoding.

(* (a) soundness: an EncodingIndicator l is only ever the answer to a START tag selected by the charset / http-equiv
   arm of the "in head" rules (arm 4: meta, and - only with deviation switch 7, repaired in /repo by 9a3cd45 - base,
   basefont, bgsound, link), whatever the current insertion mode; l is the label property C19 names
   (MetaSpec.meta_label_spec of the tag's attributes); and by then the sink has been asked to create an HTML element
   with the tag's name and attributes and to insert it (the element is already in the tree). *)
Theorem C19_indicator_sound_partial :
  forall s tk line, TreeInvDefs.TInv s -> TreeInvMain.token_ok s tk -> TreeInvMain.scalar_token tk ->
  match TreeModel.process_token tk line s with
  | TreeTypes.Ok (TreeTypes.SEncoding l) s' =>
    exists name sc attrs dup,
      tk = TreeTypes.TTag TreeTypes.StartTag name sc attrs dup /\
      TreeTables.first_match TreeTables.heads_in_head
        (TreeTypes.KTag (TreeInvMain.tag_of_token TreeTypes.StartTag name sc attrs dup)) = 4 /\
      (TreeTypes.dev_on s' 7 = false -> name = TreeTypes.nm "meta"%string) /\
      meta_label_spec attrs = Some l /\
      TreeEncoding.meta_in_tree s' name (TreeModel.conv_attrs attrs) /\ TreeInvDefs.TInv s'
  | TreeTypes.Ok _ s' => TreeInvDefs.TInv s'
  | TreeTypes.Panic n => n = 99%N
  | TreeTypes.OutOfFuel => True
  end.
Proof. exact TreeEncoding.indicator_sound. Qed.
Print Assumptions C19_indicator_sound_partial.

(* ... for every token of every protocol-respecting run *)
Theorem C19_indicator_sound_run_partial :
  forall toks s, TreeInvDefs.TInv s -> TreeInvMain.protocol s toks -> TreeEncoding.indicators_sound s toks.
Proof. exact TreeEncoding.indicator_sound_run. Qed.
Print Assumptions C19_indicator_sound_run_partial.

(* the label the model computes is the one C19_label_partial is about *)
Theorem C19_model_label_is_spec :
  forall k name sc attrs dup,
    TreeInvHelpers.model_label (TreeInvMain.tag_of_token k name sc attrs dup) = meta_label_spec attrs.
Proof. exact TreeEncoding.model_label_is_meta_label_spec. Qed.
Print Assumptions C19_model_label_is_spec.

(* (b) completeness of the arm: a start tag that reaches the arm (meta; or any of the arm's tags under deviation 7)
   and declares a label yields the indicator with that label; one that declares none yields DoneAckSelfClosing *)
Theorem C19_meta_arm_complete_partial :
  forall in_body s g l,
    TreeInvDefs.TInv s -> TreeInvPrims.late s -> TreeInvHelpers.scalar_tag g ->
    TreeTables.first_match TreeTables.heads_in_head (TreeTypes.KTag g) = 4 ->
    (TreeTypes.dev_on s 7 || TreeModelHelpers.is_n (TreeTypes.tg_name g) "meta")%bool = true ->
    TreeInvHelpers.model_label g = Some l ->
    TreeHoare.wp (TreeModelRules.step_in_head_gen in_body (TreeTypes.KTag g))
      (fun r s' => r = TreeTypes.PEncoding l /\ TreeInvDefs.TInv s') s.
Proof. exact TreeEncoding.in_head_meta_arm_complete. Qed.
Print Assumptions C19_meta_arm_complete_partial.

Theorem C19_meta_arm_silent_partial :
  forall in_body s g,
    TreeInvDefs.TInv s -> TreeInvPrims.late s -> TreeInvHelpers.scalar_tag g ->
    TreeTables.first_match TreeTables.heads_in_head (TreeTypes.KTag g) = 4 ->
    TreeInvHelpers.model_label g = None ->
    TreeHoare.wp (TreeModelRules.step_in_head_gen in_body (TreeTypes.KTag g))
      (fun r s' => r = TreeTypes.DoneAckSelfClosing /\ TreeInvDefs.TInv s') s.
Proof. exact TreeEncoding.in_head_meta_arm_silent. Qed.
Print Assumptions C19_meta_arm_silent_partial.

(* which arm a meta start tag selects in each insertion mode (Initial ... AfterAfterFrameset, then the foreign-content
   rules), on the dispatch tables regenerated from rules.rs; the comment at TreeEncoding.meta_dispatch_table says what
   each of these arms does (delegation to "in head" / Reprocess / foster parenting / ignored / break-out) *)
Theorem C19_meta_dispatch_table :
  map (fun hs => TreeTables.first_match hs TreeEncoding.meta_start)
    [TreeTables.heads_initial; TreeTables.heads_before_html; TreeTables.heads_before_head; TreeTables.heads_in_head;
     TreeTables.heads_in_head_noscript; TreeTables.heads_after_head; TreeTables.heads_in_body; TreeTables.heads_text;
     TreeTables.heads_in_table; TreeTables.heads_in_table_text; TreeTables.heads_in_caption;
     TreeTables.heads_in_column_group; TreeTables.heads_in_table_body; TreeTables.heads_in_row; TreeTables.heads_in_cell;
     TreeTables.heads_in_template; TreeTables.heads_after_body; TreeTables.heads_in_frameset;
     TreeTables.heads_after_frameset; TreeTables.heads_after_after_body; TreeTables.heads_after_after_frameset;
     TreeTables.heads_foreign]
  = [3; 6; 7; 4; 5; 6; 4; 3; 14; 2; 2; 9; 5; 5; 4; 2; 6; 9; 7; 5; 6; 3].
Proof. exact TreeEncoding.meta_dispatch_table. Qed.
Print Assumptions C19_meta_dispatch_table.

(* in "in frameset", "after frameset" and "after after frameset" a meta start tag is dropped: one parse error, no
   element, no indicator *)
Theorem C19_meta_ignored_in_frameset_modes :
  forall s g, TreeTypes.tg_kind g = TreeTypes.StartTag -> TreeTypes.tg_name g = TreeTypes.nm "meta"%string ->
    (TreeTypes.mode s = TreeTypes.InFrameset \/ TreeTypes.mode s = TreeTypes.AfterFrameset \/
     TreeTypes.mode s = TreeTypes.AfterAfterFrameset) ->
    exists k, TreeModelRules.step (TreeTypes.mode s) (TreeTypes.KTag g) s =
              TreeTypes.Ok TreeTypes.Done
                (TreeTypes.set_out (TreeTypes.EvOp Dom.DomSpec.OpParseError ::
                                    TreeTypes.EvArm (TreeTypes.mode_id (TreeTypes.mode s)) k :: TreeTypes.out s) s).
Proof. exact TreeEncoding.meta_ignored_in_frameset_modes. Qed.
Print Assumptions C19_meta_ignored_in_frameset_modes.

(* (c) transparency, tree-builder side: computing the indicator changes nothing in the builder state except one
   coverage marker of the model's log (not a sink call); the loop then returns it as a plain value *)
Theorem C19_indicator_transparent_partial :
  forall t s, TreeInvHelpers.scalar_tag t ->
    exists r, (TreeModelHelpers.meta_like_result t s = TreeTypes.Ok r s /\ r = TreeTypes.DoneAckSelfClosing) \/
              (exists k l, TreeModelHelpers.meta_like_result t s =
                             TreeTypes.Ok (TreeTypes.PEncoding l) (TreeTypes.set_out (TreeTypes.EvArm 30 k :: TreeTypes.out s) s) /\
                           r = TreeTypes.PEncoding l).
Proof. exact TreeEncoding.meta_like_result_transparent. Qed.
Print Assumptions C19_indicator_transparent_partial.

(* non-vacuity: <meta charset=x> as first token and inside <svg> (break-out) yields the indicator x, after <frameset> none *)
Theorem C19_model_examples :
  match TreeModel.run_tokens (TreeModel.init_state TreeInvMain.ex_opts) [(TreeEncoding.meta_tok, 1%N)] [] with
  | TreeModel.RunOk _ res => res = [TreeTypes.SEncoding (TreeTypes.nm "x"%string)] | _ => False end /\
  match TreeModel.run_tokens (TreeModel.init_state TreeInvMain.ex_opts)
          [(TreeTypes.TTag TreeTypes.StartTag (TreeTypes.nm "svg"%string) false [] false, 1%N); (TreeEncoding.meta_tok, 1%N)] [] with
  | TreeModel.RunOk _ res => res = [TreeTypes.SContinue; TreeTypes.SEncoding (TreeTypes.nm "x"%string)] | _ => False end /\
  match TreeModel.run_tokens (TreeModel.init_state TreeInvMain.ex_opts)
          [(TreeTypes.TTag TreeTypes.StartTag (TreeTypes.nm "frameset"%string) false [] false, 1%N); (TreeEncoding.meta_tok, 1%N)] [] with
  | TreeModel.RunOk _ res => res = [TreeTypes.SContinue; TreeTypes.SContinue] | _ => False end.
Proof. exact TreeEncoding.ex_indicator. Qed.
