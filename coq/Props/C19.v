(* C19 - Encoding indicators are raised exactly for meta-declared encodings.
   Only statements, closed by [exact], and their assumptions.

   Proved here: the extraction function.  The byte-position model of
   html5ever/src/encoding.rs (MetaModel.extract_impl, tied to the code by the
   correspondence run of lib/checks/c19.py) returns, for EVERY string of
   Unicode scalar values, exactly the label the WHATWG algorithm "extracting a
   character encoding from a meta element" (MetaSpec.extract_spec, on
   characters) returns, never takes a slice that is out of range or off a
   code-point boundary, and its loops terminate within the modelled bound.

   Proved in part (C19_label_partial): the body of the in-head arm as a
   function of the tag's attributes.

   NOT proved (no theorem below claims it): C19_when - "feed() returns
   EncodingIndicator l  iff  the token is a meta start tag that results in an
   inserted HTML meta element and (charset present with l = its value, or
   http-equiv ~ content-type and extract_spec content = Some l), the element
   is already in the tree, resuming continues as if nothing had happened".
   That needs the tree-builder model; it is judged on the implementation by the
   document oracle of lib/checks/c19.py. *)
From Coq Require Import List NArith Bool.
From HV Require Import Base.Utf8 Meta.MetaModel Meta.MetaSpec Meta.MetaProofs.
Import ListNotations.

Theorem C19_extract :
  forall s, scalars s ->
  extract_impl (encs s) =
  match extract_spec s with None => XNone | Some l => XSome (encs l) end.
Proof. exact extract_impl_correct_match. Qed.
Print Assumptions C19_extract.

Theorem C19_extract_no_panic :
  forall s, scalars s -> extract_impl (encs s) <> XPanic /\ extract_impl (encs s) <> XFuel.
Proof. exact extract_impl_no_panic. Qed.
Print Assumptions C19_extract_no_panic.

(* the two halves, each for a wider domain: on ANY byte string the positional
   code computes the character-level function and then validates the slice ... *)
Theorem C19_positions_are_suffixes :
  forall b, extract_impl b =
  match extract_spec b with
  | None => XNone
  | Some l => if validate_subseq l then XSome l else XPanic
  end.
Proof. exact impl_is_spec_on_bytes. Qed.
Print Assumptions C19_positions_are_suffixes.

(* ... and the WHATWG function commutes with UTF-8 encoding *)
Theorem C19_spec_commutes_with_utf8 :
  forall s, extract_spec (encs s) = option_map encs (extract_spec s).
Proof. exact spec_commutes_with_utf8. Qed.
Print Assumptions C19_spec_commutes_with_utf8.

(* C19_when, the part that is a function of the tag alone (named _partial: the
   full statement also says WHICH tokens reach this arm - every meta start tag
   that ends up inserted as an HTML element, from every insertion mode - that
   the element is already in the tree and that resuming is transparent; those
   need the tree-builder model).  The body of the in-head arm returns
   EncodingIndicator l exactly when the tag carries charset (l = its value) or,
   without charset, http-equiv ~ content-type and a content attribute from
   which the WHATWG extraction returns l; otherwise it is DoneAckSelfClosing;
   it never panics. *)
Theorem C19_label_partial :
  forall attrs, scalar_attrs attrs ->
  meta_arm (enc_attrs attrs) =
  match meta_label_spec attrs with Some l => AIndicator (encs l) | None => ADone end.
Proof. exact meta_arm_correct_match. Qed.
Print Assumptions C19_label_partial.

(* non-vacuity: `text/html; charset = "é x";` yields the label `é x`, and a
   byte string cut inside a code point really makes the model panic *)
Example C19_nonvacuous :
  scalars [116; 59; 32; 99; 104; 97; 114; 115; 101; 116; 32; 61; 32; 34; 233; 32; 120; 34; 59]%N /\
  extract_impl (encs [116; 59; 32; 99; 104; 97; 114; 115; 101; 116; 32; 61; 32; 34; 233; 32; 120; 34; 59]%N)
    = XSome [195; 169; 32; 120]%N /\
  extract_impl [99; 104; 97; 114; 115; 101; 116; 61; 169; 32]%N = XPanic.
Proof.
  split; [|split; vm_compute; reflexivity].
  repeat constructor.
Qed.
