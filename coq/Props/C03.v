(* C03 — output independent of chunking, pausing and resuming.  Statements only. *)
From Coq Require Import List NArith Bool.
From HV Require Import TokIR.IR TokIR.Interp TokIR.Checks Gen.GenHtmlTok Inst.InstHtmlTok.
Import ListNotations.

(* in every state of the regenerated html table, no command precedes a read: a step that suspends for lack of
   input has had no effect other than the read itself (the premise of the suspend/resume argument) *)
Theorem C03_reads_first : reads_first html_table = [].
Proof. exact html_reads_first. Qed.
Print Assumptions C03_reads_first.
