(* C03 — output independent of chunking, pausing and resuming.  Statements only.

   FULL STATEMENT (not proved as such): for the html5ever tokenizer + driver + tree builder, every feed schedule over
   the same input, with any exact_errors setting, yields the same tokens, parse errors, line numbers and tree.

   WHAT IS PROVED: the statement for the tokenizer's REFERENCE semantics (the TokIR interpreter over a flat queue),
   exact_errors = true, for the table REGENERATED from html5ever/src/tokenizer/mod.rs on every run, including script
   pauses with injected text and EncodingIndicator suspensions: the whole machine reached (token stream with parse
   errors and line numbers, tokenizer configuration, unread input) is the same for any two chunkings of the same
   input.  The theorem is generic: it holds for every table whose arm bodies have the shapes checked by
   [shape]/[no_eof] (reads first; a suspending arm only re-arranges look-ahead).
   ALSO PROVED (end of this file, TokIR/BulkSim.v): the chunked-queue interpreter with bulk reads and
   exact_errors = false - the tokenizer's default mode - agrees with the reference semantics up to [obs] (parse errors
   dropped, adjacent character tokens merged), hence its observable output is chunk-independent too.
   NOT PROVED (tied by differential runs in the check): (b) the Rust tokenizer agrees with the chunked-queue
   interpreter; (c) the tree-builder half. *)
From Coq Require Import List NArith Bool.
From HV Require Import TokIR.IR TokIR.Interp TokIR.Checks TokIR.Chunk TokIR.QueueSim TokIR.ChunkInv TokIR.ChunkExec TokIR.BulkSim Gen.GenHtmlTok Inst.InstHtmlTok Inst.InstChunk Inst.InstBulk.
Import ListNotations.

Theorem C03_reference_semantics_chunk_independent_partial :
  forall simd ent c1 sk inj cs1 cs2 m m1 m2,
  all_nonempty cs1 -> all_nonempty cs2 -> cs1 <> [] -> cs2 <> [] -> concat cs1 = concat cs2 ->
  feed_chunks html_flavour true html_table simd ent c1 sk inj m cs1 m1 ->
  feed_chunks html_flavour true html_table simd ent c1 sk inj m cs2 m2 -> m1 = m2.
Proof. exact html_chunking_independent. Qed.
Print Assumptions C03_reference_semantics_chunk_independent_partial.

(* the run relation used above is the fuelled executable loop of the interpreter (html: no side condition) *)
Theorem C03_run_relation_is_the_executable_loop :
  forall simd ent c1 sk fuel m m' r,
  run [] fq_next fq_peek (@app N) (fun q => q) fq_run1 html_flavour true html_table simd ent c1 sk false fuel m = (m', r) ->
  oruns html_flavour true html_table simd ent c1 sk m m' r \/ r = SPanic 98.
Proof. exact html_run_is_relation. Qed.
Print Assumptions C03_run_relation_is_the_executable_loop.

(* every arm body of the regenerated table has a shape the suspend/resume argument covers *)
Theorem C03_table_shapes : (forall s, shape html_flavour (html_step s) = true) /\ (forall s, no_eof (html_step s) = true).
Proof. split; [exact html_shape_all|exact html_no_eof_all]. Qed.
Print Assumptions C03_table_shapes.

Theorem C03_reads_first : reads_first html_table = [].
Proof. exact html_reads_first. Qed.
Print Assumptions C03_reads_first.

(* non-vacuity: a concrete run of the executable interpreter ("<a>x", data state) is an instance of the relation *)
Definition C03_m0 : mach hstate (list N) := mkmach (init_cfg HData None false) [60; 97; 62; 120]%N [] 0%N.
Example C03_nonvacuous :
  exists m', oruns html_flavour true html_table (simd_first_guard, simd_tail_stop, simd_tail_newline)
                   (fun _ => None) (fun _ => None) {| sk_resp := []; sk_foreign := false |} C03_m0 m' SSuspend.
Proof.
  pose (res := run [] fq_next fq_peek (@app N) (fun q => q) fq_run1 html_flavour true html_table
                   (simd_first_guard, simd_tail_stop, simd_tail_newline) (fun _ => None) (fun _ => None)
                   {| sk_resp := []; sk_foreign := false |} false 100 C03_m0).
  assert (E : res = (fst res, snd res)) by (destruct res; reflexivity).
  assert (Er : snd res = SSuspend) by (vm_compute; reflexivity).
  destruct (html_run_is_relation _ _ _ _ _ _ _ _ E) as [H|H]; [|rewrite Er in H; discriminate].
  rewrite Er in H. eexists. exact H.
Qed.

(* T2 for exact_errors = true (TokIR/QueueSim.v, generic in the table): the interpreter over the CHUNKED queue - the one the
   correspondence check runs against the Rust tokenizer - and the reference interpreter over the flat queue deliver the
   same tokens with parse errors and line numbers, the same configuration, unread input and results, for every list of
   chunks, sink script, injected text and fuel: with exact_errors the interpreter never takes a bulk read, and every
   queue operation is adequate for its flat reading.  (For exact_errors = false the two differ by the merging of
   adjacent character tokens and by the fast path's missing per-character errors: that leg stays differential.) *)
Theorem C03_chunked_interpreter_is_reference_exact :
  forall simd ent c1 sk fuel inject chunks (m : mach _ queue) log,
  wfq (mq m) ->
  let r := drive_chunked html_flavour true html_table simd ent c1 sk fuel inject chunks m log in
  let r' := drive_flat html_flavour true html_table simd ent c1 sk fuel inject chunks (mkmach (mc m) (qflat (mq m)) (mout m) (mcons m)) log in
  wfq (mq (fst r)) /\
  mc (fst r) = mc (fst r') /\ qflat (mq (fst r)) = mq (fst r') /\ mout (fst r) = mout (fst r') /\ mcons (fst r) = mcons (fst r') /\
  snd r = snd r'.
Proof. exact (chunked_is_reference_exact html_flavour html_table). Qed.
Print Assumptions C03_chunked_interpreter_is_reference_exact.

(* the chunk-independence theorem at the level of the EXECUTABLE driver (TokIR/ChunkExec.v): two chunkings of one input
   through drive_flat - push each chunk, feed until done with script pauses injecting text, then end() - reach the same
   final machine (tokens with parse errors and line numbers, configuration) and the same result of end(), whenever
   every feed call of both runs ended regularly (done / script / encoding indicator, i.e. no panic value and no fuel
   exhaustion) and the BOM flag is clear.  With C03_chunked_interpreter_is_reference_exact the same holds of
   drive_chunked, the interpreter that runs against the Rust code, in exact mode. *)
Theorem C03_driver_chunking_independent :
  forall simd ent c1 sk fuel inj cs1 cs2 (m : mach hstate (list N)),
  discard_bom (mc m) = false ->
  all_nonempty cs1 -> all_nonempty cs2 -> cs1 <> [] -> cs2 <> [] -> concat cs1 = concat cs2 ->
  all_done (tl (snd (drive_flat html_flavour true html_table simd ent c1 sk fuel inj cs1 m []))) ->
  all_done (tl (snd (drive_flat html_flavour true html_table simd ent c1 sk fuel inj cs2 m []))) ->
  fst (drive_flat html_flavour true html_table simd ent c1 sk fuel inj cs1 m []) =
  fst (drive_flat html_flavour true html_table simd ent c1 sk fuel inj cs2 m []) /\
  hd SSuspend (snd (drive_flat html_flavour true html_table simd ent c1 sk fuel inj cs1 m [])) =
  hd SSuspend (snd (drive_flat html_flavour true html_table simd ent c1 sk fuel inj cs2 m [])).
Proof. exact html_drive_chunking_independent. Qed.
Print Assumptions C03_driver_chunking_independent.

(* non-vacuity of the driver theorem: "<a b='c'>x</a>&amp;" with a script pause on </a> injecting "y", cut in two different
   ways; both runs end every feed regularly (vm_compute), so the theorem applies - and the outcome is checked too *)
Definition C03_sk : sinkcfg := {| sk_resp := [([97]%N, RespScript)]; sk_foreign := false |}.
Definition C03_init : mach hstate (list N) := mkmach (init_cfg HData None false) [] [] 0%N.
Definition C03_cs1 : list (list N) := [[60; 97; 32; 98; 61; 39; 99]; [39; 62; 120; 60; 47; 97; 62; 38; 97; 109; 112; 59]]%N.
Definition C03_cs2 : list (list N) := [[60]; [97; 32; 98; 61; 39; 99; 39; 62; 120; 60; 47]; [97; 62; 38; 97]; [109; 112; 59]]%N.
Definition C03_drive cs := drive_flat html_flavour true html_table (simd_first_guard, simd_tail_stop, simd_tail_newline)
                                      (fun _ => None) (fun _ => None) C03_sk 200 [121]%N cs C03_init [].
Definition all_done_b (l : list sres) : bool :=
  forallb (fun r => match r with SSuspend | SScript | SEncoding => true | _ => false end) l.
Example C03_driver_nonvacuous :
  concat C03_cs1 = concat C03_cs2 /\
  all_done_b (tl (snd (C03_drive C03_cs1))) = true /\ all_done_b (tl (snd (C03_drive C03_cs2))) = true /\
  existsb (fun r => match r with SScript => true | _ => false end) (snd (C03_drive C03_cs1)) = true /\
  fst (C03_drive C03_cs1) = fst (C03_drive C03_cs2) /\
  length (mout (fst (C03_drive C03_cs1))) = 11%nat.
Proof. vm_compute. repeat split; reflexivity. Qed.

(* ... and including the byte order mark: from a fresh machine (empty queue), whatever its discard_bom flag, as long as
   neither chunking starts with a chunk that consists of U+FEFF alone (the first feed that sees input looks at the
   first character of the stream only) *)
Theorem C03_driver_chunking_independent_bom :
  forall simd ent c1 sk fuel inj cs1 cs2 (m : mach hstate (list N)),
  mq m = [] ->
  all_nonempty cs1 -> all_nonempty cs2 -> cs1 <> [] -> cs2 <> [] -> concat cs1 = concat cs2 ->
  hd [] cs1 <> [BOM] -> hd [] cs2 <> [BOM] ->
  all_done (tl (snd (drive_flat html_flavour true html_table simd ent c1 sk fuel inj cs1 m []))) ->
  all_done (tl (snd (drive_flat html_flavour true html_table simd ent c1 sk fuel inj cs2 m []))) ->
  fst (drive_flat html_flavour true html_table simd ent c1 sk fuel inj cs1 m []) =
  fst (drive_flat html_flavour true html_table simd ent c1 sk fuel inj cs2 m []) /\
  hd SSuspend (snd (drive_flat html_flavour true html_table simd ent c1 sk fuel inj cs1 m [])) =
  hd SSuspend (snd (drive_flat html_flavour true html_table simd ent c1 sk fuel inj cs2 m [])).
Proof. exact html_drive_chunking_independent_bom. Qed.
Print Assumptions C03_driver_chunking_independent_bom.

(* ------------------------------------------------------------------ the tree builder's side (partial) *)
(* The theorems above say that two chunkings give the same token stream up to the SPLITTING of character tokens.
   What the tree builder does with a split character token is proved here, over the executable tree-builder model
   coq/Tree (tied to html5ever event for event by ./check C02), for ONE group of insertion modes; the header of
   coq/Tree/TreeSplit.v lists what the other groups need and the frame property (the event log is write-only) that
   the statement for whole token lists needs on top.  _partial: "text" mode only. *)
From HV Require Tree.TreeTypes Tree.TreeModelHelpers Tree.TreeModelRules Tree.TreeModel Tree.TreeInvDefs Tree.TreeInvRules
  Tree.TreeContractRun Tree.TreeSplit Base.Utf8.

(* in "text" mode (RCDATA / RAWTEXT / script data / PLAINTEXT) one character token or two: same answers, states that
   agree on everything but the event log, same abstract DOM *)
Theorem C03_tree_text_mode_split_partial :
  forall s line line' a b target,
    TreeInvDefs.TInv s -> TreeTypes.mode s = TreeTypes.Text -> TreeInvRules.Hshape s ->
    TreeTypes.foster_parenting s = false ->
    TreeTypes.vlast (TreeTypes.open_elems s) = Some target ->
    TreeSplit.is_template_node s target = false ->
    Utf8.scalars (a ++ b) -> a <> [] ->
    exists s1 sa s2,
      TreeModel.process_token (TreeTypes.TChars (a ++ b)) line s = TreeTypes.Ok TreeTypes.SContinue s1 /\
      TreeModel.process_token (TreeTypes.TChars a) line s = TreeTypes.Ok TreeTypes.SContinue sa /\
      TreeModel.process_token (TreeTypes.TChars b) line' sa = TreeTypes.Ok TreeTypes.SContinue s2 /\
      TreeSplit.same_core s1 s2 /\ TreeContractRun.dom_of s1 = TreeContractRun.dom_of s2 /\
      TreeInvDefs.TInv s1 /\ TreeInvDefs.TInv s2.
Proof. exact TreeSplit.text_mode_split. Qed.
Print Assumptions C03_tree_text_mode_split_partial.

(* the abstract DOM merges adjacent text: two appends to the same parent are one append of the concatenation *)
Theorem C03_tree_append_text_merges :
  forall d p a b, (forall n, Dom.DomSpec.resolve d p = Some n -> n < Dom.DomSpec.size d) ->
    Dom.DomSpec.apply (Dom.DomSpec.apply d (Dom.DomSpec.OpAppend p (inr a))) (Dom.DomSpec.OpAppend p (inr b)) =
    Dom.DomSpec.apply d (Dom.DomSpec.OpAppend p (inr (a ++ b))).
Proof. exact TreeSplit.apply_append_text_twice. Qed.
Print Assumptions C03_tree_append_text_merges.

(* pending table text: the all-white-space test over the whole pending text does not depend on how it was cut *)
Theorem C03_tree_pending_table_text_test :
  forall p q a b,
    TreeModelRules.pending_contains_nonspace (p ++ [(TreeTypes.NotSplit, a ++ b)] ++ q) =
    TreeModelRules.pending_contains_nonspace (p ++ [(TreeTypes.NotSplit, a); (TreeTypes.NotSplit, b)] ++ q).
Proof. exact TreeSplit.pending_nonspace_split. Qed.
Print Assumptions C03_tree_pending_table_text_test.

(* T2 for exact_errors = false (TokIR/BulkSim.v): the interpreter over the CHUNKED queue in the tokenizer's DEFAULT mode -
   bulk reads up to the end of the first buffer, the SIMD scan of the data state with its own newline count, no
   current_char update and no bad-character errors on the fast path - against the REFERENCE interpreter (flat queue, one
   character at a time, exact_errors = true), for every list of chunks, sink script, injected text, start machine with a
   well-formed queue, and fuel: if the default-mode run ends regularly (no fuel exhaustion in any feed call, in end() or
   its EOF loop), the reference run with any fuel from some bound on reports the same results, leaves the same unread
   input, has consumed the same number of characters, ends in the same configuration up to current_char, and has
   delivered the same tokens up to [obs]: TError entries dropped, every maximal group of adjacent TChars entries merged
   into ONE TChars entry carrying the line and consumed-count of the group's last character token, every other token kept
   with its line and consumed-count.  Stuttering simulation, one fast step on a run r = |r| reference steps. *)
Theorem C03_default_mode_against_reference :
  forall ent c1 sk fuel inject chunks (m : mach hstate queue) log,
  wfq (mq m) ->
  let rf := drive_chunked html_flavour false html_table html_simd ent c1 sk fuel inject chunks m log in
  regular (snd rf) ->
  exists k, forall j,
    let rs := drive_flat html_flavour true html_table html_simd ent c1 sk (k + j) inject chunks
                (mkmach (mc m) (qflat (mq m)) (mout m) (mcons m)) log in
    snd rs = snd rf /\ obs (mout (fst rs)) = obs (mout (fst rf)) /\ ceq (mc (fst rs)) (mc (fst rf)) /\
    mq (fst rs) = qflat (mq (fst rf)) /\ mcons (fst rs) = mcons (fst rf).
Proof. exact html_bulk_chunked_reference. Qed.
Print Assumptions C03_default_mode_against_reference.

(* the same in the shape of the property: one input, any start state, any sink script *)
Theorem C03_default_mode_is_reference_up_to_obs :
  forall ent c1 sk inject s0 last input fuel,
  let fast := drive_chunked html_flavour false html_table html_simd ent c1 sk fuel inject [input]
                (mkmach (init_cfg s0 last false) [] [] 0%N) [] in
  regular (snd fast) ->
  exists fuel0, forall fuel', (fuel0 <= fuel')%nat ->
    let ref := drive_flat html_flavour true html_table html_simd ent c1 sk fuel' inject [input]
                 (mkmach (init_cfg s0 last false) [] [] 0%N) [] in
    obs (mout (fst fast)) = obs (mout (fst ref)) /\ snd fast = snd ref.
Proof. exact html_default_mode_is_reference_up_to_obs. Qed.
Print Assumptions C03_default_mode_is_reference_up_to_obs.

(* T1 and T2 composed: in default mode the observable output of the chunked interpreter (tokens up to [obs]) and the
   result of end() are independent of the chunking, script pauses and encoding suspensions included, for runs that end
   every feed call regularly *)
Theorem C03_default_mode_chunking_independent_obs :
  forall ent c1 sk fuel1 fuel2 inj cs1 cs2 (m : mach hstate queue),
  wfq (mq m) -> discard_bom (mc m) = false ->
  all_nonempty cs1 -> all_nonempty cs2 -> cs1 <> [] -> cs2 <> [] -> concat cs1 = concat cs2 ->
  let f1 := drive_chunked html_flavour false html_table html_simd ent c1 sk fuel1 inj cs1 m [] in
  let f2 := drive_chunked html_flavour false html_table html_simd ent c1 sk fuel2 inj cs2 m [] in
  regular (snd f1) -> regular (snd f2) -> all_done (tl (snd f1)) -> all_done (tl (snd f2)) ->
  obs (mout (fst f1)) = obs (mout (fst f2)) /\ hd SSuspend (snd f1) = hd SSuspend (snd f2).
Proof. exact html_default_mode_chunking_independent_obs. Qed.
Print Assumptions C03_default_mode_chunking_independent_obs.

(* non-vacuity (a test, by computation): see C08_bulk_obs_example - the raw token lists of the two runs differ (11
   entries against 19), the observable ones agree (7) *)
Example C03_default_mode_example :
  regular_b (snd ex_fast) = true /\ snd ex_fast = snd ex_ref /\ obs (mout (fst ex_fast)) = obs (mout (fst ex_ref)) /\
  (length (mout (fst ex_fast)), length (mout (fst ex_ref)), length (obs (mout (fst ex_ref)))) = (11, 19, 7)%nat.
Proof. destruct ex_bulk_obs as (A & B & C & D & _). exact (conj A (conj B (conj C D))). Qed.
Print Assumptions C03_default_mode_example.

(* fuel discharged for the REFERENCE driver (TokIR/Termination.v, see Props/C04.v): with fuel from the explicit bound
   on the total input length the log of drive_flat is [regular] - no SPanic 98 / 97 - for every chunking, sink script
   and injected text.  (The [regular] hypotheses above are about the default-mode run over the chunked queue, and
   [all_done] also excludes the genuine panic values 96 / 99 / 1: those are not fuel questions.) *)
From HV Require Inst.InstTermination.
Theorem C03_reference_driver_is_regular_with_enough_fuel :
  forall simd ent c1 sk fuel inj chunks s0 last,
  (InstTermination.html_fuel (length (concat chunks) + length chunks * (50 * length inj)) <= fuel)%nat ->
  (4 <= fuel)%nat ->
  regular (snd (drive_flat html_flavour true html_table simd ent c1 sk fuel inj chunks
                           (mkmach (init_cfg s0 last false) [] [] 0%N) [])).
Proof. exact InstTermination.html_drive_terminates. Qed.
Print Assumptions C03_reference_driver_is_regular_with_enough_fuel.

(* C03_driver_chunking_independent WITHOUT the regularity hypotheses (TokIR/NoPanic.v + Termination.v): from a fresh
   tokenizer in a well-kinded state, with a well-kinded sink and fuel above the explicit bound, every feed call ends
   regularly unless the driver model's limit of 50 script pauses per chunk (SPanic 96) is hit - so the two chunkings
   reach the same machine and the same answer of end() ... *)
From HV Require Inst.InstNoPanic.
Theorem C03_driver_chunking_independent_total :
  forall simd ent c1 sk, InstNoPanic.html_sink_ok sk = true ->
  forall fuel inj cs1 cs2 s0 last,
  InstNoPanic.html_kind_ok s0 = true ->
  all_nonempty cs1 -> all_nonempty cs2 -> cs1 <> [] -> cs2 <> [] -> concat cs1 = concat cs2 ->
  (InstTermination.html_fuel (length (concat cs1) + length cs1 * (50 * length inj)) <= fuel)%nat ->
  (InstTermination.html_fuel (length (concat cs2) + length cs2 * (50 * length inj)) <= fuel)%nat -> (4 <= fuel)%nat ->
  let d1 := drive_flat html_flavour true html_table simd ent c1 sk fuel inj cs1 (mkmach (init_cfg s0 last false) [] [] 0%N) [] in
  let d2 := drive_flat html_flavour true html_table simd ent c1 sk fuel inj cs2 (mkmach (init_cfg s0 last false) [] [] 0%N) [] in
  ~ In (SPanic 96) (snd d1) -> ~ In (SPanic 96) (snd d2) ->
  fst d1 = fst d2 /\ hd SSuspend (snd d1) = hd SSuspend (snd d2).
Proof. exact InstNoPanic.html_drive_chunking_independent_total. Qed.
Print Assumptions C03_driver_chunking_independent_total.

(* ... and with a sink that never answers Script / EncodingIndicator nothing but the fuel bound is left *)
Theorem C03_driver_chunking_independent_no_pauses :
  forall simd ent c1 sk, InstNoPanic.html_sink_ok sk = true ->
  forall fuel inj cs1 cs2 s0 last,
  InstNoPanic.html_sink_never_pauses sk = true -> InstNoPanic.html_kind_ok s0 = true ->
  all_nonempty cs1 -> all_nonempty cs2 -> cs1 <> [] -> cs2 <> [] -> concat cs1 = concat cs2 ->
  (InstTermination.html_fuel (length (concat cs1)) <= fuel)%nat -> (4 <= fuel)%nat ->
  let d1 := drive_flat html_flavour true html_table simd ent c1 sk fuel inj cs1 (mkmach (init_cfg s0 last false) [] [] 0%N) [] in
  let d2 := drive_flat html_flavour true html_table simd ent c1 sk fuel inj cs2 (mkmach (init_cfg s0 last false) [] [] 0%N) [] in
  fst d1 = fst d2 /\ hd SSuspend (snd d1) = hd SSuspend (snd d2).
Proof. exact InstNoPanic.html_drive_chunking_independent_quiet. Qed.
Print Assumptions C03_driver_chunking_independent_no_pauses.

(* ------------------------------------------------------------------ the tree builder's side, continued *)
(* coq/Tree/TreeFrame.v, TreeSplitBody.v, TreeSplitRun.v.  The statement for whole token lists is _partial: it is
   restricted to cuts that happen in a covered state (TreeSplitRun.covered_at: foster parenting off, the current node
   not a template element, the shape assumption of the mode, and the insertion mode "text", or "in body" /
   "in caption" / "in template" / "in cell" with an HTML adjusted current node, or - in any mode - a token handled by
   the foreign-content rules; or a token of WHITE SPACE ONLY in the modes whose character arm answers SplitWhitespace:
   initial .. after head, in column group, after body, the frameset and after-after modes).  Not covered: the
   table-text queue and its flush, tokens with other characters in the SplitWhitespace modes, foster parenting, a
   template element as the current node. *)
From HV Require Tree.TreeInvHelpers Tree.TreeInvMain Tree.TreeFrame Tree.TreeSplitBody Tree.TreeSplitRun.

(* the event log of the model is write-only: a token processed from two states that differ only in the log (same
   core, same DOM built so far) gives the same answer and again two such states *)
Theorem C03_tree_event_log_is_write_only :
  forall tk line s s', TreeSplit.same_core s s' -> TreeContractRun.dom_of s = TreeContractRun.dom_of s' ->
    match TreeModel.process_token tk line s, TreeModel.process_token tk line s' with
    | TreeTypes.Ok r1 t1, TreeTypes.Ok r2 t2 =>
        r1 = r2 /\ TreeSplit.same_core t1 t2 /\ TreeContractRun.dom_of t1 = TreeContractRun.dom_of t2
    | TreeTypes.Panic n1, TreeTypes.Panic n2 => n1 = n2
    | TreeTypes.OutOfFuel, TreeTypes.OutOfFuel => True
    | _, _ => False
    end.
Proof. exact TreeSplit.log_irrelevant_holds. Qed.
Print Assumptions C03_tree_event_log_is_write_only.

(* "in body" and the modes that hand character tokens to it (in caption, in template, in cell - the last under the
   shape assumption of that mode: a td / th element is open, which is carried through reconstruct; after body, after
   after body, after after frameset for tokens of white space only): one character token or two.  The second reconstruct-the-active-formatting-elements is a no-op, frameset-ok is the OR over the
   pieces, the appends merge *)
Theorem C03_tree_body_mode_split_partial :
  forall s line line' a b target,
    TreeInvDefs.TInv s ->
    TreeTypes.mode s = TreeTypes.InBody \/ TreeTypes.mode s = TreeTypes.InCaption \/ TreeTypes.mode s = TreeTypes.InTemplate \/
    (TreeTypes.mode s = TreeTypes.InCell /\ TreeInvRules.Hshape s) \/
    ((TreeTypes.mode s = TreeTypes.AfterBody \/ TreeTypes.mode s = TreeTypes.AfterAfterBody \/
      TreeTypes.mode s = TreeTypes.AfterAfterFrameset) /\ TreeTypes.any_not_whitespace (a ++ b) = false) ->
    TreeTypes.foster_parenting s = false -> TreeInvHelpers.adjusted_ns s = TreeTypes.ns_html ->
    TreeTypes.vlast (TreeTypes.open_elems s) = Some target ->
    TreeSplit.is_template_node s target = false ->
    a <> [] -> b <> [] ->
    exists s1 sa s2,
      TreeModel.process_token (TreeTypes.TChars (a ++ b)) line s = TreeTypes.Ok TreeTypes.SContinue s1 /\
      TreeModel.process_token (TreeTypes.TChars a) line s = TreeTypes.Ok TreeTypes.SContinue sa /\
      TreeModel.process_token (TreeTypes.TChars b) line' sa = TreeTypes.Ok TreeTypes.SContinue s2 /\
      TreeSplit.same_core s1 s2 /\ TreeContractRun.dom_of s1 = TreeContractRun.dom_of s2 /\
      TreeInvDefs.TInv s1 /\ TreeInvDefs.TInv s2.
Proof. exact TreeSplitBody.body_mode_split_explicit. Qed.
Print Assumptions C03_tree_body_mode_split_partial.

(* whole token lists: toks' is toks with character tokens cut into pieces, every cut in a covered state of the run of
   toks' (TreeSplitRun.splits_cov, which refines TreeSplit.splits), toks' obeys the tokenizer protocol: the two runs
   end in states with the same core and the same DOM, or stop at the same Panic site, or both run out of fuel *)
Theorem C03_tree_split_run_partial :
  forall o toks toks',
    TreeInvMain.protocol (TreeModel.init_state o) toks' ->
    TreeSplitRun.splits_cov (TreeModel.init_state o) toks toks' ->
    match TreeModel.run_tokens (TreeModel.init_state o) toks [], TreeModel.run_tokens (TreeModel.init_state o) toks' [] with
    | TreeModel.RunOk t1 _, TreeModel.RunOk t2 _ =>
        TreeSplit.same_core t1 t2 /\ TreeContractRun.dom_of t1 = TreeContractRun.dom_of t2
    | TreeModel.RunPanic n1, TreeModel.RunPanic n2 => n1 = n2
    | TreeModel.RunFuel, TreeModel.RunFuel => True
    | _, _ => False
    end.
Proof. exact TreeSplitRun.tree_split_run_partial. Qed.
Print Assumptions C03_tree_split_run_partial.

(* the side condition only allows cuts of character tokens ... *)
Theorem C03_tree_split_side_condition_refines_splits :
  forall s l l', TreeSplitRun.splits_cov s l l' -> TreeSplit.splits l l'.
Proof. exact TreeSplitRun.splits_cov_splits. Qed.
Print Assumptions C03_tree_split_side_condition_refines_splits.

(* ... is implied by a boolean check that runs the model ... *)
Theorem C03_tree_split_side_condition_checker_sound :
  forall l' s l, TreeSplitRun.splits_covb s l l' = true -> TreeSplitRun.splits_cov s l l'.
Proof. exact TreeSplitRun.splits_covb_sound. Qed.
Print Assumptions C03_tree_split_side_condition_checker_sound.

(* ... and is satisfiable (a test, by computation): <!DOCTYPE html><title>xy</title><p>abc EOF with "xy" cut in "text"
   mode and "abc" cut twice in "in body" *)
Example C03_tree_split_example :
  TreeSplitRun.splits_cov (TreeModel.init_state TreeInvMain.ex_opts) TreeSplitRun.ex_split_whole TreeSplitRun.ex_split_pieces /\
  TreeSplit.run_sim (TreeModel.run_tokens (TreeModel.init_state TreeInvMain.ex_opts) TreeSplitRun.ex_split_whole [])
                    (TreeModel.run_tokens (TreeModel.init_state TreeInvMain.ex_opts) TreeSplitRun.ex_split_pieces []).
Proof. exact (conj TreeSplitRun.ex_split_covered TreeSplitRun.ex_split_same_dom). Qed.
Print Assumptions C03_tree_split_example.

(* the line number passed with a token does not matter either (pieces of a cut token may carry different ones) *)
Theorem C03_tree_token_line_irrelevant :
  forall tk l l' s s', TreeSplit.same_core s s' -> TreeContractRun.dom_of s = TreeContractRun.dom_of s' ->
    TreeSplitRun.tok_sim (TreeModel.process_token tk l s) (TreeModel.process_token tk l' s').
Proof. exact TreeSplitRun.process_token_line. Qed.
Print Assumptions C03_tree_token_line_irrelevant.

(* table text (coq/Tree/TreeSplitTable.v): character tokens in "in table" are queued and flushed by the next other
   token; a cut token leaves two queue entries where the whole token leaves one.  _partial: the flush is covered for a
   queue of white space only (every entry appended at the current node; foster parenting off, current node not a
   template element); the foster-parenting branch for a queue with a non-white-space character, the queueing steps
   and the integration into C03_tree_split_run_partial are not proved. *)
From HV Require Tree.TreeSplitTable Tree.TreeTables.
Theorem C03_tree_table_text_flush_ws_split_partial :
  forall s t pre post a b target,
    TreeInvDefs.TInv s -> TreeTypes.foster_parenting s = false ->
    TreeTypes.vlast (TreeTypes.open_elems s) = Some target -> TreeSplit.is_template_node s target = false ->
    TreeTypes.pending_table_text s = pre ++ [(TreeTypes.NotSplit, a ++ b)] ++ post ->
    TreeModelRules.pending_contains_nonspace (TreeTypes.pending_table_text s) = false ->
    TreeTables.first_match TreeTables.heads_in_table_text t = 2 ->
    let s' := TreeTypes.set_pending_table_text (pre ++ [(TreeTypes.NotSplit, a); (TreeTypes.NotSplit, b)] ++ post) s in
    match TreeModelRules.step_in_table_text t s, TreeModelRules.step_in_table_text t s' with
    | TreeTypes.Ok r1 t1, TreeTypes.Ok r2 t2 =>
        r1 = r2 /\ TreeSplit.same_core t1 t2 /\ TreeContractRun.dom_of t1 = TreeContractRun.dom_of t2
    | TreeTypes.Panic n1, TreeTypes.Panic n2 => n1 = n2
    | TreeTypes.OutOfFuel, TreeTypes.OutOfFuel => True
    | _, _ => False
    end.
Proof. exact TreeSplitTable.step_in_table_text_flush_ws_split. Qed.
Print Assumptions C03_tree_table_text_flush_ws_split_partial.

(* its DOM half: appending the entries of a queue one by one at the same parent, with one entry cut or not *)
Theorem C03_tree_appends_split :
  forall target pre post sp sp1 sp2 a b d, TreeSplitTable.bound d target ->
    Dom.DomSpec.run_from d (TreeSplitTable.append_ops target (pre ++ [(sp, a ++ b)] ++ post)) =
    Dom.DomSpec.run_from d (TreeSplitTable.append_ops target (pre ++ [(sp1, a); (sp2, b)] ++ post)).
Proof. exact TreeSplitTable.run_appends_split. Qed.
Print Assumptions C03_tree_appends_split.

(* ------------------------------------------------------------------------------------------------------------
   The `regular` hypotheses of the default-mode theorems above, DISCHARGED (TokIR/BulkTerm.v, Inst/InstBulkTerm.v): the
   interpreter over the chunked queue in the tokenizer's default mode (exact_errors = false: bulk reads, SIMD scan)
   never runs out of fuel - neither in a feed call nor in end() or its EOF loop - when the fuel meets the explicit bound
   of Props/C04.v computed from what is unread in the start machine, the chunks and the text script pauses can inject.
   Proof: one default-mode step is n >= 1 exact-mode steps (BulkSim.step_sim), a run that has ended ends the same way
   with more fuel, so the fast run needs no more fuel than the slow one; the EOF loops run in lock step; the exact-mode
   chunked interpreter is the reference one (QueueSim.v), which terminates within the bound (Termination.v). *)
From HV Require Inst.InstBulkTerm.

Theorem C03_default_mode_run_is_regular :
  forall ent c1 sk fuel inj chunks (m : mach hstate queue) log,
  wfq (mq m) -> InstTermination.HtmlTI (absm qflat m) ->
  (InstTermination.html_fuel (InstTermination.html_unread (absm qflat m) + length (concat chunks) +
                              length chunks * (50 * length inj)) <= fuel)%nat -> (4 <= fuel)%nat ->
  regular log -> regular (snd (drive_chunked html_flavour false html_table html_simd ent c1 sk fuel inj chunks m log)).
Proof. exact InstBulkTerm.html_default_regular. Qed.
Print Assumptions C03_default_mode_run_is_regular.

Theorem C03_default_mode_against_reference_total :
  forall ent c1 sk fuel inject chunks (m : mach hstate queue) log,
  wfq (mq m) -> InstTermination.HtmlTI (absm qflat m) ->
  (InstTermination.html_fuel (InstTermination.html_unread (absm qflat m) + length (concat chunks) +
                              length chunks * (50 * length inject)) <= fuel)%nat -> (4 <= fuel)%nat ->
  regular log ->
  let rf := drive_chunked html_flavour false html_table html_simd ent c1 sk fuel inject chunks m log in
  exists k, forall j,
    let rs := drive_flat html_flavour true html_table html_simd ent c1 sk (k + j) inject chunks
                (mkmach (mc m) (qflat (mq m)) (mout m) (mcons m)) log in
    snd rs = snd rf /\ obs (mout (fst rs)) = obs (mout (fst rf)) /\ ceq (mc (fst rs)) (mc (fst rf)) /\
    mq (fst rs) = qflat (mq (fst rf)) /\ mcons (fst rs) = mcons (fst rf).
Proof. exact InstBulkTerm.html_bulk_chunked_reference_total. Qed.
Print Assumptions C03_default_mode_against_reference_total.

(* one input, any start state, any sink script, injected text: nothing but the fuel bound is left *)
Theorem C03_default_mode_is_reference_up_to_obs_total :
  forall ent c1 sk inject s0 last input fuel,
  (InstTermination.html_fuel (length input + 50 * length inject) <= fuel)%nat -> (4 <= fuel)%nat ->
  let fast := drive_chunked html_flavour false html_table html_simd ent c1 sk fuel inject [input]
                (mkmach (init_cfg s0 last false) [] [] 0%N) [] in
  exists fuel0, forall fuel', (fuel0 <= fuel')%nat ->
    let ref := drive_flat html_flavour true html_table html_simd ent c1 sk fuel' inject [input]
                 (mkmach (init_cfg s0 last false) [] [] 0%N) [] in
    obs (mout (fst fast)) = obs (mout (fst ref)) /\ snd fast = snd ref.
Proof. exact InstBulkTerm.html_default_mode_is_reference_up_to_obs_total. Qed.
Print Assumptions C03_default_mode_is_reference_up_to_obs_total.

(* chunk independence in default mode from a fresh tokenizer: the fuel bounds replace `regular`; the all_done hypotheses
   (no genuine panic value, no driver pause limit in the default-mode logs) remain *)
Theorem C03_default_mode_chunking_independent_obs_total :
  forall ent c1 sk fuel1 fuel2 inj cs1 cs2 s0 last,
  all_nonempty cs1 -> all_nonempty cs2 -> cs1 <> [] -> cs2 <> [] -> concat cs1 = concat cs2 ->
  (InstTermination.html_fuel (length (concat cs1) + length cs1 * (50 * length inj)) <= fuel1)%nat -> (4 <= fuel1)%nat ->
  (InstTermination.html_fuel (length (concat cs2) + length cs2 * (50 * length inj)) <= fuel2)%nat -> (4 <= fuel2)%nat ->
  let m := mkmach (init_cfg s0 last false) ([] : queue) [] 0%N in
  let f1 := drive_chunked html_flavour false html_table html_simd ent c1 sk fuel1 inj cs1 m [] in
  let f2 := drive_chunked html_flavour false html_table html_simd ent c1 sk fuel2 inj cs2 m [] in
  all_done (tl (snd f1)) -> all_done (tl (snd f2)) ->
  obs (mout (fst f1)) = obs (mout (fst f2)) /\ hd SSuspend (snd f1) = hd SSuspend (snd f2).
Proof. exact InstBulkTerm.html_default_mode_chunking_independent_obs_total. Qed.
Print Assumptions C03_default_mode_chunking_independent_obs_total.

Example C03_default_mode_regular_example :
  snd (drive_chunked html_flavour false html_table html_simd (fun _ => None) (fun _ => None)
                     {| sk_resp := []; sk_foreign := false |} (InstTermination.html_fuel 12) []
                     [[60;97;32;98;62;38]%N; [97;109;112;59;13;10]%N]
                     (mkmach (init_cfg HData None false) [] [] 0%N) []) = [SSuspend; SSuspend; SSuspend].
Proof. exact InstBulkTerm.default_regular_ex. Qed.
Print Assumptions C03_default_mode_regular_example.

(* default-mode chunk independence from a fresh tokenizer WITHOUT regularity hypotheses (Inst/InstTotalDefault.v): the
   default-mode log is the reference log (no panic value other than the driver's pause limit 96 among the feed entries),
   so only the fuel bounds and "no 96" remain - and nothing but the fuel bounds for sinks that never pause *)
From HV Require Inst.InstTotalDefault.
Theorem C03_default_mode_chunking_independent_total :
  forall ent c1 sk, InstNoPanic.html_sink_ok sk = true ->
  forall fuel1 fuel2 inj cs1 cs2 s0 last, InstNoPanic.html_kind_ok s0 = true ->
  all_nonempty cs1 -> all_nonempty cs2 -> cs1 <> [] -> cs2 <> [] -> concat cs1 = concat cs2 ->
  (InstTermination.html_fuel (length (concat cs1) + length cs1 * (50 * length inj)) <= fuel1)%nat -> (4 <= fuel1)%nat ->
  (InstTermination.html_fuel (length (concat cs2) + length cs2 * (50 * length inj)) <= fuel2)%nat -> (4 <= fuel2)%nat ->
  let f1 := drive_chunked html_flavour false html_table html_simd ent c1 sk fuel1 inj cs1 (mkmach (init_cfg s0 last false) [] [] 0%N) [] in
  let f2 := drive_chunked html_flavour false html_table html_simd ent c1 sk fuel2 inj cs2 (mkmach (init_cfg s0 last false) [] [] 0%N) [] in
  ~ In (SPanic 96) (snd f1) -> ~ In (SPanic 96) (snd f2) ->
  obs (mout (fst f1)) = obs (mout (fst f2)) /\ hd SSuspend (snd f1) = hd SSuspend (snd f2).
Proof. exact InstTotalDefault.html_default_mode_chunking_independent_total. Qed.
Print Assumptions C03_default_mode_chunking_independent_total.

Theorem C03_default_mode_chunking_independent_no_pauses :
  forall ent c1 sk, InstNoPanic.html_sink_ok sk = true ->
  forall fuel1 fuel2 inj cs1 cs2 s0 last, InstNoPanic.html_sink_never_pauses sk = true -> InstNoPanic.html_kind_ok s0 = true ->
  all_nonempty cs1 -> all_nonempty cs2 -> cs1 <> [] -> cs2 <> [] -> concat cs1 = concat cs2 ->
  (InstTermination.html_fuel (length (concat cs1) + length cs1 * (50 * length inj)) <= fuel1)%nat -> (4 <= fuel1)%nat ->
  (InstTermination.html_fuel (length (concat cs2) + length cs2 * (50 * length inj)) <= fuel2)%nat -> (4 <= fuel2)%nat ->
  let f1 := drive_chunked html_flavour false html_table html_simd ent c1 sk fuel1 inj cs1 (mkmach (init_cfg s0 last false) [] [] 0%N) [] in
  let f2 := drive_chunked html_flavour false html_table html_simd ent c1 sk fuel2 inj cs2 (mkmach (init_cfg s0 last false) [] [] 0%N) [] in
  obs (mout (fst f1)) = obs (mout (fst f2)) /\ hd SSuspend (snd f1) = hd SSuspend (snd f2).
Proof. exact InstTotalDefault.html_default_mode_chunking_independent_quiet. Qed.
Print Assumptions C03_default_mode_chunking_independent_no_pauses.

(* ------------------------------------------------------------------ the tree builder's side: foreign content *)
(* coq/Tree/TreeSplitForeign.v: a character token handled by the foreign-content rules (the adjusted current node is
   foreign for character tokens: TreeSplitForeign.foreignb), in any insertion mode: one token or two *)
From HV Require Tree.TreeSplitForeign.
Theorem C03_tree_foreign_split_partial :
  forall s line line' a b h target,
    TreeInvDefs.TInv s -> TreeInvRules.Hshape s -> TreeTypes.foster_parenting s = false ->
    TreeSplitForeign.adjusted_node s = Some h -> TreeSplitForeign.foreignb s h = true ->
    TreeTypes.vlast (TreeTypes.open_elems s) = Some target -> TreeSplit.is_template_node s target = false ->
    a <> [] -> b <> [] ->
    exists s1 sa s2,
      TreeModel.process_token (TreeTypes.TChars (a ++ b)) line s = TreeTypes.Ok TreeTypes.SContinue s1 /\
      TreeModel.process_token (TreeTypes.TChars a) line s = TreeTypes.Ok TreeTypes.SContinue sa /\
      TreeModel.process_token (TreeTypes.TChars b) line' sa = TreeTypes.Ok TreeTypes.SContinue s2 /\
      TreeSplit.same_core s1 s2 /\ TreeContractRun.dom_of s1 = TreeContractRun.dom_of s2 /\
      TreeInvDefs.TInv s1 /\ TreeInvDefs.TInv s2.
Proof. exact TreeSplitForeign.foreign_mode_split_explicit. Qed.
Print Assumptions C03_tree_foreign_split_partial.

(* the foreign test of process_to_completion on a character token is that pure function *)
Theorem C03_tree_foreign_test_on_chars :
  forall s sp x h, TreeSplitForeign.adjusted_node s = Some h ->
    TreeModelHelpers.is_foreign (TreeTypes.KChars sp x) s = TreeTypes.Ok (TreeSplitForeign.foreignb s h) s.
Proof. exact TreeSplitForeign.is_foreign_chars_val. Qed.
Print Assumptions C03_tree_foreign_test_on_chars.

(* the enlarged side condition is satisfiable too (a test, by computation): <!DOCTYPE html><table><td>yz<svg>uv EOF with
   "yz" cut in "in cell" and "uv" cut in foreign content *)
Example C03_tree_split_example_cell_foreign :
  TreeSplitRun.splits_cov (TreeModel.init_state TreeInvMain.ex_opts) TreeSplitRun.ex_split_whole2 TreeSplitRun.ex_split_pieces2.
Proof. exact TreeSplitRun.ex_split_covered2. Qed.
Print Assumptions C03_tree_split_example_cell_foreign.

(* ------------------------------------------------------------------ the tree builder's side: white space at the start *)
(* coq/Tree/TreeSplitEarly.v: a character token of white space only in the modes that cut character tokens into runs
   and ignore the white-space run (initial, before html, before head) or append it (in head, in head noscript, after
   head, in column group, in frameset, after frameset): one token or two.  [earlyhyp]: TInv, the shape assumption,
   the token is not handled by the foreign rules, and in the appending modes foster parenting off and a current node
   that is not a template element.  _partial: tokens with other characters in these modes are not covered. *)
From HV Require Tree.TreeSplitEarly.
Theorem C03_tree_early_modes_whitespace_split_partial :
  forall s line line' a b,
    TreeSplitEarly.earlyhyp s -> TreeTypes.any_not_whitespace (a ++ b) = false -> a <> [] -> b <> [] ->
    exists s1 sa s2,
      TreeModel.process_token (TreeTypes.TChars (a ++ b)) line s = TreeTypes.Ok TreeTypes.SContinue s1 /\
      TreeModel.process_token (TreeTypes.TChars a) line s = TreeTypes.Ok TreeTypes.SContinue sa /\
      TreeModel.process_token (TreeTypes.TChars b) line' sa = TreeTypes.Ok TreeTypes.SContinue s2 /\
      TreeSplit.same_core s1 s2 /\ TreeContractRun.dom_of s1 = TreeContractRun.dom_of s2 /\
      TreeInvDefs.TInv s1 /\ TreeInvDefs.TInv s2.
Proof. exact TreeSplitEarly.early_mode_split. Qed.
Print Assumptions C03_tree_early_modes_whitespace_split_partial.

(* the side condition of C03_tree_split_run_partial, enlarged accordingly, on a document with white space between all
   its tags (a test, by computation): <!DOCTYPE html> LF SP <html> LF SP <head> LF SP </head> LF SP <body>x</body> LF SP
   </html> LF SP EOF, every white-space token cut in two (before html, before head, in head, after head, after body,
   after after body) *)
Example C03_tree_split_example_whitespace :
  TreeSplitRun.splits_cov (TreeModel.init_state TreeInvMain.ex_opts) TreeSplitRun.ex_split_whole3 TreeSplitRun.ex_split_pieces3.
Proof. exact TreeSplitRun.ex_split_covered3. Qed.
Print Assumptions C03_tree_split_example_whitespace.

(* ------------------------------------------------------------------ the tree builder's side: a cut at a run boundary *)
(* coq/Tree/TreeLoop.v, TreeSplitBoundary.v: the modes that cut character tokens into runs (SplitWhitespace), text of ANY
   kind, cut at the end of the first run.  p: a state whose NotSplit character arm answers SplitWhitespace and where
   character tokens are not foreign; x = r1 ++ rest, r1 the first maximal run of x.  Conditional on the three calls
   answering Ok (their loops get different fuel; an answer does not depend on the fuel: C02_loop_answer_fuel_independent)
   and on decidable side conditions that only run the model (TreeLoop.plain: the run token answers Reprocess ... Done,
   never SplitWhitespace, from the two states the cut leaves; ignore_lf off after the first piece).  _partial: the cut
   inside a run and the induction over the runs are not proved, and this theorem is not part of the side condition of
   C03_tree_split_run_partial. *)
From HV Require Tree.TreeLoop Tree.TreeSplitBoundary.
Theorem C03_tree_run_boundary_split_partial :
  forall p x k0 r1 w rest f line' r sx ra sa rb sb,
    TreeInvRules.Hshape p ->
    (forall y, TreeModelHelpers.is_foreign (TreeTypes.KChars TreeTypes.NotSplit y) p = TreeTypes.Ok false p) ->
    (forall y, TreeModelRules.step (TreeTypes.mode p) (TreeTypes.KChars TreeTypes.NotSplit y) p =
               TreeTypes.Ok (TreeTypes.SplitWhitespace y) (TreeSplitBody.alog (TreeTypes.mode p) k0 p)) ->
    x = r1 ++ rest -> rest <> [] ->
    TreeTypes.pop_front_char_run x = Some (r1, w, rest) -> TreeTypes.pop_front_char_run r1 = Some (r1, w, []) ->
    TreeLoop.plain f (TreeSplitBoundary.run_tok w r1) (TreeSplitBody.alog (TreeTypes.mode p) k0 p) ->
    TreeLoop.plain f (TreeSplitBoundary.run_tok w r1)
      (TreeSplitBoundary.cut_state (TreeSplitBody.alog (TreeTypes.mode p) k0 p) rest) ->
    TreeModel.process_to_completion (TreeTypes.KChars TreeTypes.NotSplit x) p = TreeTypes.Ok r sx ->
    TreeModel.process_to_completion (TreeTypes.KChars TreeTypes.NotSplit r1) p = TreeTypes.Ok ra sa ->
    TreeTypes.ignore_lf sa = false ->
    TreeModel.process_token (TreeTypes.TChars rest) line' sa = TreeTypes.Ok rb sb ->
    ra = TreeTypes.SContinue /\ rb = r /\ TreeSplit.same_core sx sb /\
    TreeContractRun.dom_of sx = TreeContractRun.dom_of sb.
Proof. exact TreeSplitBoundary.run_boundary_split. Qed.
Print Assumptions C03_tree_run_boundary_split_partial.

(* the loop over a token with one queued token is the loop over the token followed by the loop over the queued one *)
Theorem C03_tree_loop_queue_decomposition :
  forall q f t s, TreeLoop.plain f t s ->
    exists k s1, 1 <= k <= f /\
      (forall g, TreeModel.ptc_loop (k + g) t [] s = TreeTypes.Ok TreeTypes.SContinue s1) /\
      (forall g, TreeModel.ptc_loop (k + g) t [q] s = TreeModel.ptc_loop g q [] s1).
Proof. exact TreeLoop.loop_queue. Qed.
Print Assumptions C03_tree_loop_queue_decomposition.
