(* C18 - trace_handles reports every node the tree builder still needs.
   Only statements, closed by [exact], and their assumptions.

   FULL STATEMENT (not proved here):
     for every input and every schedule of suspension points, GcSafe (recorded segments of the
     parse): at every suspension point the handles trace_handles reports, together with everything
     connected to them, contain every node created before that point that is later handed to
     the sink.
   What is proved:
     (1) census, on the field lists REGENERATED from the Rust sources on every run
         (gen/gen_handle_census.py -> coq/Gen/GenHandleCensus.v): every field of TreeBuilder /
         XmlTreeBuilder whose type mentions Handle, and every Handle-carrying variant of the enums
         inside those types, is visited by trace_handles (vm_compute; an untraced Handle field
         added to the struct makes this file fail to compile);
     (2) the judge [Gc.gc_ok] (extracted; applied by ./check C18 to the recorded segments of every
         monitored parse) is equivalent to the relational statement [GcSafe], for all segment lists.
   That GcSafe holds of the tree builders on all inputs and schedules is established by the
   monitored runs (a collecting sink at every return of tokenizer.feed); the missing link - every
   handle the tree builder passes comes from a Handle field, a sink query or a creation in the same
   call - needs the tree-builder model.

   Vocabulary (coq/SinkSpec/Gc.v, GcSpec.v):
     seg             the calls made up to a suspension point, and the handles traced there
     Edge / Conn     child and template-contents edges of the abstract DOM, followed both ways
     Live d tr n     n is connected to a node named by one of the traced handles tr
     GcSafe segs     for each suspension point: every handle used by any later call names a node
                     that did not exist yet or was Live at that point *)
From Coq Require Import List NArith Bool Arith String.
From HV Require Import Dom.DomSpec SinkSpec.Contract SinkSpec.Gc SinkSpec.GcSpec SinkSpec.GcProofs
                       SinkSpec.HandleCensus Gen.GenHandleCensus Inst.InstHandleCensus SinkSpec.Examples SinkSpec.ExamplesProofs.
Import ListNotations.

Theorem C18_census_html :
  (forall f, In f html_handle_fields -> In f html_traced_fields) /\
  (forall v, In v html_handle_variants -> In v html_traced_variants).
Proof. exact (census_sound _ _ _ _ html_census_ok). Qed.
Print Assumptions C18_census_html.

Theorem C18_census_xml :
  (forall f, In f xml_handle_fields -> In f xml_traced_fields) /\
  (forall v, In v xml_handle_variants -> In v xml_traced_variants).
Proof. exact (census_sound _ _ _ _ xml_census_ok). Qed.
Print Assumptions C18_census_xml.

Theorem C18_gc_judge_decides_statement :
  forall segs, gc_ok segs = true <-> GcSafe segs.
Proof. exact gc_ok_iff. Qed.
Print Assumptions C18_gc_judge_decides_statement.

(* the set the collector keeps is the set of live nodes *)
Theorem C18_live_set :
  forall d tr n, In n (live_set d tr) <-> Live d tr n.
Proof. exact live_set_spec. Qed.
Print Assumptions C18_live_set.

(* non-vacuity: the recorded parse of <s><frameset></frameset></html>SPACE in three chunks keeps a
   detached body subtree alive through the traced formatting element and is safe; two nodes (the
   old body and the first <s>) are collected at the fourth suspension point ... *)
Example C18_frameset_parse_safe :
  gc_ok frameset_segments = true /\ GcSafe frameset_segments /\
  gc_counts init [] frameset_segments = [0; 0; 0; 2; 6].
Proof. exact frameset_parse_safe. Qed.
(* ... and a trace_handles that forgot the active formatting elements is caught: the first <s>
   (handle 4) is collected and then handed to same_node *)
Example C18_untraced_formatting_element_caught :
  gc_check frameset_segments_formatting_untraced = Some (3, 0, 4) /\
  ~ GcSafe frameset_segments_formatting_untraced.
Proof. exact untraced_formatting_element_caught. Qed.

(* ------------------------------------------------------------------ the html tree-builder model *)
(* Over the executable model coq/Tree (tied to html5ever by ./check C02): the handles trace_handles reports are
   exactly the Handle-typed components of the state, each of them is the Document or an element the sink created,
   and (Props/C05.v, clause CUnknownHandle covered) no operation is ever handed a handle the sink has not handed
   out before.  The liveness statement GcSafe itself - connectivity of every later-used node to a traced handle at
   every suspension point - needs the shape of the tree and stays monitored by ./check C18. *)
From HV Require Tree.TreeTypes Tree.TreeInvDefs Tree.TreeInvMain.

Theorem C18_model_handles_traced :
  forall s h, In h (TreeInvDefs.trace s) <->
    h = 0 \/ In h (TreeTypes.open_elems s) \/ (exists t, In (TreeTypes.FElem h t) (TreeTypes.active_formatting s)) \/
    TreeTypes.head_elem s = Some h \/ TreeTypes.form_elem s = Some h \/ TreeTypes.context_elem s = Some h.
Proof. exact TreeInvMain.handles_traced. Qed.
Print Assumptions C18_model_handles_traced.

Theorem C18_model_traced_handles_are_sink_elements :
  forall s, TreeInvDefs.TInv s -> forall h, In h (TreeInvDefs.trace s) -> h = 0 \/ TreeInvDefs.known s h.
Proof. exact TreeInvMain.traced_handles_known. Qed.
Print Assumptions C18_model_traced_handles_are_sink_elements.
