(* C17 - XML serializer output re-parses to the same namespaced tree.
   Only statements, closed by [exact], and their assumptions.
   Model: XmlNs/XSerModel.v (XmlSerializer driven by RcDom's traversal);
   specification: XmlNs/XSerSpec.v. *)
From Coq Require Import List NArith Bool.
From HV Require Import XmlNs.XTreeModel XmlNs.XSerModel XmlNs.XSerSpec XmlNs.XSerProofs.
Import ListNotations.
Local Open Scope N_scope.

(* C17_decl_adequate outside the finding classes: in the serializer's output
   every prefix used by an element or attribute name is bound to the name's
   namespace URI by a declaration WRITTEN on that element or an open ancestor
   (xml / xmlns are bound by definition), unprefixed elements see their own
   namespace as the default namespace and unprefixed attributes have none -
   for every document on which the silent registrations (attribute prefixes
   after the declarations were written, end_elem into the parent's map) are
   never relied upon and no xmlns="" would be needed ([ser_clean]) *)
Theorem C17_decl_adequate_outside_finding :
  forall kids, ser_clean kids = true -> adequate (ser_doc kids) [] = true.
Proof. exact decl_adequate_outside_finding. Qed.
Print Assumptions C17_decl_adequate_outside_finding.

(* the three declaration findings of DESIGN 6.3 row 10, on the model of the code as it is *)
Theorem C17_decl_adequate_refuted :
  adequate (ser_doc wA) [] = false /\ adequate (ser_doc wB) [] = false /\ adequate (ser_doc wC) [] = false.
Proof. exact decl_adequate_refuted. Qed.
Print Assumptions C17_decl_adequate_refuted.

(* C17_escape_reversible: what write_to_buf_escaped writes for a text node /
   an attribute value is read back unchanged by the Data / double-quoted
   attribute value states (predefined entities, CR LF normalisation), for every
   string without CR and U+0000 ... *)
Theorem C17_escape_reversible_text :
  forall s rest, no_cr_nul s = true ->
  lex_text (S (length (escape false s ++ 60 :: rest))) (escape false s ++ 60 :: rest) = Some (s, 60 :: rest).
Proof. exact escape_text_reversible. Qed.
Print Assumptions C17_escape_reversible_text.

Theorem C17_escape_reversible_attr :
  forall s rest, no_cr_nul s = true ->
  lex_attr_value (S (length (escape true s ++ 34 :: rest))) (escape true s ++ 34 :: rest) = Some (s, rest).
Proof. exact escape_attr_reversible. Qed.
Print Assumptions C17_escape_reversible_attr.

(* ... and not for CR (DESIGN 6.3 row 10): "\r" comes back as "\n" *)
Theorem C17_escape_refuted_cr :
  lex_text 3 (escape false [13] ++ [60]) = Some ([10], [60]).
Proof. exact escape_text_refuted_cr. Qed.
Print Assumptions C17_escape_refuted_cr.

(* the ghost-instrumented serializer used to describe the finding classes is
   the serializer: same items *)
Theorem C17_instrumentation_is_erasable :
  forall l st ph, length ph = length st ->
  fst (fst (fst (ser_nodes_g l st ph))) = fst (ser_nodes l st).
Proof. exact ser_nodes_g_erase. Qed.
Print Assumptions C17_instrumentation_is_erasable.

(* C17_roundtrip_partial.  Full statement (NOT proved as a theorem):
     forall x, let t := tree (parse x) in
       t outside the finding classes -> tree (parse (serialize t)) = t.
   Proved: the two lemmas above (every name is adequately declared; text and
   attribute values are escaped reversibly) for all trees outside the classes,
   and C16 (Props/C16.v: the tree builder resolves exactly what is declared).
   Missing: (1) the composition "adequately declared + lexical-scope resolver
   => the re-built tree is the same tree" by induction over the builder's run
   on the serializer's token stream (tested on every generated tree by the
   check through [roundtrip_tok], see evidence: model_roundtrip_expected);
   (2) the XML tokenizer's lexing of tags, attributes, comments and PIs of the
   serializer's output (tied by the item-denotation correspondence only).
   What IS proved about the round trip are the refutations: the token-level
   re-parse of the model's own output loses the three witness trees. *)
Theorem C17_roundtrip_refuted :
  roundtrip_tok wA = false /\ roundtrip_tok wB = false /\ roundtrip_tok wC = false.
Proof. exact roundtrip_refuted. Qed.
Print Assumptions C17_roundtrip_refuted.

Theorem C17_witnesses_are_in_the_classes :
  ser_clean wA = false /\ ser_clean wB = false /\ ser_clean wC = false /\ ser_clean wD = true.
Proof. exact witnesses_not_clean. Qed.
Print Assumptions C17_witnesses_are_in_the_classes.

(* non-vacuity: a namespaced tree with a prefixed attribute, nested use of the
   prefix and escaped characters is clean, adequately declared and survives the
   token-level round trip (a TEST by vm_compute, not a proof of the round trip) *)
Example C17_nonvacuous :
  ser_clean ex_tree = true /\ adequate (ser_doc ex_tree) [] = true /\ roundtrip_tok ex_tree = true.
Proof. exact ex_tree_ok. Qed.
