(* C17 - XML serializer output re-parses to the same namespaced tree.
   Only statements, closed by [exact], and their assumptions.
   Model: XmlNs/XSerModel.v (XmlSerializer driven by RcDom's traversal, as of
   the repairs 1365bbe, 94524fa, 90b86cd, cc87c47, e751ebf in /repo);
   specification: XmlNs/XSerSpec.v. *)
From Coq Require Import List NArith Bool.
From HV Require Import XmlNs.XTreeModel XmlNs.XSerModel XmlNs.XSerSpec XmlNs.XSerProofs XmlNs.XRoundTrip.
Import ListNotations.
Local Open Scope N_scope.

(* C17_decl_adequate, for EVERY document: in the serializer's output every
   prefix used by an element or attribute name is bound to the name's namespace
   URI by a declaration WRITTEN on that element or an open ancestor (xml /
   xmlns are bound by definition), unprefixed elements see their own namespace
   as the default namespace and unprefixed attributes have none.
   [forest_cons] is not a condition on the serializer but on what a tag can
   express at all: one prefix names one URI per tag, and an unprefixed
   attribute is in no namespace.
   (Before the repairs this held only for documents on which the silent
   registrations were never relied upon - [ser_clean] - and was refuted by
   <a xmlns:p="u" p:x="1"/>, <r><p:a xmlns:p="u"/><p:b xmlns:p="u"/></r>,
   <a xmlns="u"><b xmlns=""/></a>: repaired in /repo, commits cc87c47, 90b86cd,
   e751ebf.) *)
Theorem C17_decl_adequate :
  forall kids, forest_cons kids = true -> adequate (ser_doc kids) [] = true.
Proof. exact decl_adequate. Qed.
Print Assumptions C17_decl_adequate.

(* the former witnesses are now adequately declared ... *)
Theorem C17_former_witnesses_adequate :
  adequate (ser_doc wA) [] = true /\ adequate (ser_doc wB) [] = true /\ adequate (ser_doc wC) [] = true.
Proof. exact witnesses_adequate. Qed.
Print Assumptions C17_former_witnesses_adequate.

(* C17_escape_reversible: what write_to_buf_escaped writes for a text node /
   an attribute value is read back unchanged by the Data / double-quoted
   attribute value states (predefined entities, &#13;, CR LF normalisation), for
   every string without U+0000 (which no parsed tree contains).
   (Before the repair CR had to be excluded: "\r" was written raw and came back
   as "\n" - repaired in /repo, commit 1365bbe.) *)
Theorem C17_escape_reversible_text :
  forall s rest, no_nul s = true ->
  lex_text (S (length (escape false s ++ 60 :: rest))) (escape false s ++ 60 :: rest) = Some (s, 60 :: rest).
Proof. exact escape_text_reversible. Qed.
Print Assumptions C17_escape_reversible_text.

(* also the form in which a namespace URI is written into an xmlns declaration
   (written raw before commit 94524fa) *)
Theorem C17_escape_reversible_attr :
  forall s rest, no_nul s = true ->
  lex_attr_value (S (length (escape true s ++ 34 :: rest))) (escape true s ++ 34 :: rest) = Some (s, rest).
Proof. exact escape_attr_reversible. Qed.
Print Assumptions C17_escape_reversible_attr.

(* C17_roundtrip_partial: the round trip at TOKEN level.
   Full statement: forall x, let t := tree (parse x) in tree (parse (serialize t)) = t.
   Proved here, with NO condition on the serializer's behaviour left: for every
   document [kids] of the shape the parser produces (prolog of comments / PIs /
   at most one doctype, one root element, epilog of comments / PIs; no adjacent
   text nodes; names that print and split back; xml / xmlns fixed; attributes
   with distinct expanded names that are not declarations; one prefix = one URI
   per tag) - one decidable check [rt_hyps] - the tokens denoted by the
   serializer's items ([item_rtoken]: start tag with the written declarations
   and attributes, end tag, text, comment, PI, doctype), run through the
   tokenizer's attribute stage and the tree builder model, rebuild the same
   document (doctype ids blanked: they are outside the serializer API).
   What is missing for the full statement:
   (1) the XML tokenizer's lexing of the characters [render] writes into those
       tokens (tags, attributes, comments, PIs) - tied by the item-denotation
       correspondence of the check; for character data, attribute values and
       namespace URIs it is C17_escape_reversible_* above;
   (2) "t = tree (parse x)" is replaced by the explicit shape conditions; that
       parsed trees satisfy them is tested on every generated tree, not proved. *)
Theorem C17_roundtrip_partial :
  forall kids, rt_hyps kids = true -> reparse kids = map strip_ids kids.
Proof. exact roundtrip_tokens_decidable. Qed.
Print Assumptions C17_roundtrip_partial.

Theorem C17_roundtrip_partial_explicit :
  forall pre name attrs ks post,
  let kids := pre ++ XElem name attrs ks :: post in
  forallb is_prolog pre = true -> dt_ok false pre = true -> forallb is_misc post = true ->
  node_wf (XElem name attrs ks) = true ->
  reparse kids = map strip_ids kids.
Proof. exact roundtrip_tokens. Qed.
Print Assumptions C17_roundtrip_partial_explicit.

(* ... and survive the token-level round trip, as do the CR and the
   quoted-URI witnesses (all five were refutations before the repairs) *)
Theorem C17_former_witnesses_roundtrip :
  roundtrip_tok wA = true /\ roundtrip_tok wB = true /\ roundtrip_tok wC = true /\
  roundtrip_tok wD = true /\ roundtrip_tok wE = true.
Proof. exact witnesses_roundtrip. Qed.
Print Assumptions C17_former_witnesses_roundtrip.

(* non-vacuity: a namespaced tree with a prefixed attribute, nested use of the
   prefix and escaped characters is consistent, adequately declared and
   survives the token-level round trip; with a prolog and an epilog around it
   it satisfies the hypotheses of C17_roundtrip_partial *)
Example C17_nonvacuous :
  forest_cons ex_tree = true /\ adequate (ser_doc ex_tree) [] = true /\ roundtrip_tok ex_tree = true /\
  rt_hyps ex_doc2 = true.
Proof. destruct ex_tree_ok as (A & B & C). pose proof ex_doc2_hyps as D. repeat split; assumption. Qed.
