(* C17 - XML serializer output re-parses to the same namespaced tree.
   Only statements, closed by [exact], and their assumptions.
   Model: XmlNs/XSerModel.v (XmlSerializer driven by RcDom's traversal);
   specification: XmlNs/XSerSpec.v. *)
From Coq Require Import List NArith Bool.
From HV Require Import XmlNs.XTreeModel XmlNs.XSerModel XmlNs.XSerSpec XmlNs.XSerProofs XmlNs.XRoundTrip.
Import ListNotations.
Local Open Scope N_scope.

(* C17_decl_adequate outside the finding classes: in the serializer's output
   every prefix used by an element or attribute name is bound to the name's
   namespace URI by a declaration WRITTEN on that element or an open ancestor
   (xml / xmlns are bound by definition), unprefixed elements see their own
   namespace as the default namespace and unprefixed attributes have none -
   for every document on which the silent registrations (attribute prefixes
   after the declarations were written, end_elem into the parent's map) are
   never relied upon and no xmlns="" would be needed ([ser_clean]) *)
Theorem C17_decl_adequate_outside_finding :
  forall kids, ser_clean kids = true -> adequate (ser_doc kids) [] = true.
Proof. exact decl_adequate_outside_finding. Qed.
Print Assumptions C17_decl_adequate_outside_finding.

(* the three declaration findings of DESIGN 6.3 row 10, on the model of the code as it is *)
Theorem C17_decl_adequate_refuted :
  adequate (ser_doc wA) [] = false /\ adequate (ser_doc wB) [] = false /\ adequate (ser_doc wC) [] = false.
Proof. exact decl_adequate_refuted. Qed.
Print Assumptions C17_decl_adequate_refuted.

(* C17_escape_reversible: what write_to_buf_escaped writes for a text node /
   an attribute value is read back unchanged by the Data / double-quoted
   attribute value states (predefined entities, CR LF normalisation), for every
   string without CR and U+0000 ... *)
Theorem C17_escape_reversible_text :
  forall s rest, no_cr_nul s = true ->
  lex_text (S (length (escape false s ++ 60 :: rest))) (escape false s ++ 60 :: rest) = Some (s, 60 :: rest).
Proof. exact escape_text_reversible. Qed.
Print Assumptions C17_escape_reversible_text.

Theorem C17_escape_reversible_attr :
  forall s rest, no_cr_nul s = true ->
  lex_attr_value (S (length (escape true s ++ 34 :: rest))) (escape true s ++ 34 :: rest) = Some (s, rest).
Proof. exact escape_attr_reversible. Qed.
Print Assumptions C17_escape_reversible_attr.

(* ... and not for CR (DESIGN 6.3 row 10): "\r" comes back as "\n" *)
Theorem C17_escape_refuted_cr :
  lex_text 3 (escape false [13] ++ [60]) = Some ([10], [60]).
Proof. exact escape_text_refuted_cr. Qed.
Print Assumptions C17_escape_refuted_cr.

(* the ghost-instrumented serializer used to describe the finding classes is
   the serializer: same items *)
Theorem C17_instrumentation_is_erasable :
  forall l st ph, length ph = length st ->
  fst (fst (fst (ser_nodes_g l st ph))) = fst (ser_nodes l st).
Proof. exact ser_nodes_g_erase. Qed.
Print Assumptions C17_instrumentation_is_erasable.

(* C17_roundtrip_partial: the round trip at TOKEN level.
   Full statement: forall x, let t := tree (parse x) in
     t outside the finding classes -> tree (parse (serialize t)) = t.
   Proved here: for every document [kids] of the shape the parser produces
   (prolog of comments / PIs / at most one doctype, one root element, epilog of comments /
   PIs; no adjacent text nodes; names that print and split back; xml / xmlns
   fixed; attributes with distinct expanded names that are not declarations),
   on which the serializer's bookkeeping defects do not come into play
   ([ser_clean]) - all of it one decidable check [rt_hyps]; the former
   condition on the written tags (C16 classes, DESIGN 6.3 rows 8/9) is gone
   with the repair of those defects - the tokens denoted by the serializer's items
   ([item_rtoken]: start tag with the written declarations and attributes, end
   tag, text, comment, PI, doctype), run through the tokenizer's attribute
   stage and the tree builder model, rebuild the same document (doctype ids
   blanked: they are outside the serializer API).
   What is missing for the full statement:
   (1) the XML tokenizer's lexing of the characters [render] writes into those
       tokens (tags, attributes, comments, PIs) - tied by the item-denotation
       correspondence of the check; for character data and attribute values it
       is C17_escape_reversible_* above;
   (2) "t = tree (parse x)" is replaced by the explicit shape conditions; that
       parsed trees satisfy them is tested on every generated tree, not proved. *)
Theorem C17_roundtrip_partial :
  forall kids, rt_hyps kids = true -> reparse kids = map strip_ids kids.
Proof. exact roundtrip_tokens_decidable. Qed.
Print Assumptions C17_roundtrip_partial.

Theorem C17_roundtrip_partial_explicit :
  forall pre name attrs ks post,
  let kids := pre ++ XElem name attrs ks :: post in
  forallb is_prolog pre = true -> dt_ok false pre = true -> forallb is_misc post = true ->
  node_wf (XElem name attrs ks) = true ->
  ser_clean kids = true ->
  reparse kids = map strip_ids kids.
Proof. exact roundtrip_tokens_outside_finding. Qed.
Print Assumptions C17_roundtrip_partial_explicit.

(* the unconditional round trip is false for the model of the code as it is *)
Theorem C17_roundtrip_refuted :
  roundtrip_tok wA = false /\ roundtrip_tok wB = false /\ roundtrip_tok wC = false.
Proof. exact roundtrip_refuted. Qed.
Print Assumptions C17_roundtrip_refuted.

Theorem C17_witnesses_are_in_the_classes :
  ser_clean wA = false /\ ser_clean wB = false /\ ser_clean wC = false /\ ser_clean wD = true.
Proof. exact witnesses_not_clean. Qed.
Print Assumptions C17_witnesses_are_in_the_classes.

(* non-vacuity: a namespaced tree with a prefixed attribute, nested use of the
   prefix and escaped characters is clean, adequately declared and survives the
   token-level round trip (a TEST by vm_compute, not a proof of the round trip) *)
Example C17_nonvacuous :
  ser_clean ex_tree = true /\ adequate (ser_doc ex_tree) [] = true /\ roundtrip_tok ex_tree = true /\
  rt_hyps ex_doc2 = true.
Proof. destruct ex_tree_ok as (A & B & C). pose proof ex_doc2_hyps as D. repeat split; assumption. Qed.
