(* C17 - XML serializer output re-parses to the same namespaced tree.
   Only statements, closed by [exact], and their assumptions.
   Model: XmlNs/XSerModel.v (XmlSerializer driven by RcDom's traversal, as of
   the repairs 1365bbe, 94524fa, 90b86cd, cc87c47, e751ebf in /repo);
   specification: XmlNs/XSerSpec.v. *)
From Coq Require Import List NArith Bool.
From HV Require Import XmlNs.XTreeModel XmlNs.XSerModel XmlNs.XSerSpec XmlNs.XSerProofs XmlNs.XRoundTrip.
Import ListNotations.
Local Open Scope N_scope.

(* C17_decl_adequate, for EVERY document: in the serializer's output every
   prefix used by an element or attribute name is bound to the name's namespace
   URI by a declaration WRITTEN on that element or an open ancestor (xml /
   xmlns are bound by definition), unprefixed elements see their own namespace
   as the default namespace and unprefixed attributes have none.
   [forest_cons] is not a condition on the serializer but on what a tag can
   express at all: one prefix names one URI per tag, and an unprefixed
   attribute is in no namespace.
   (Before the repairs this held only for documents on which the silent
   registrations were never relied upon - [ser_clean] - and was refuted by
   <a xmlns:p="u" p:x="1"/>, <r><p:a xmlns:p="u"/><p:b xmlns:p="u"/></r>,
   <a xmlns="u"><b xmlns=""/></a>: repaired in /repo, commits cc87c47, 90b86cd,
   e751ebf.) *)
Theorem C17_decl_adequate :
  forall kids, forest_cons kids = true -> adequate (ser_doc kids) [] = true.
Proof. exact decl_adequate. Qed.
Print Assumptions C17_decl_adequate.

(* the former witnesses are now adequately declared ... *)
Theorem C17_former_witnesses_adequate :
  adequate (ser_doc wA) [] = true /\ adequate (ser_doc wB) [] = true /\ adequate (ser_doc wC) [] = true.
Proof. exact witnesses_adequate. Qed.
Print Assumptions C17_former_witnesses_adequate.

(* C17_escape_reversible: what write_to_buf_escaped writes for a text node /
   an attribute value is read back unchanged by the Data / double-quoted
   attribute value states (predefined entities, &#13;, CR LF normalisation), for
   every string without U+0000 (which no parsed tree contains).
   (Before the repair CR had to be excluded: "\r" was written raw and came back
   as "\n" - repaired in /repo, commit 1365bbe.) *)
Theorem C17_escape_reversible_text :
  forall s rest, no_nul s = true ->
  lex_text (S (length (escape false s ++ 60 :: rest))) (escape false s ++ 60 :: rest) = Some (s, 60 :: rest).
Proof. exact escape_text_reversible. Qed.
Print Assumptions C17_escape_reversible_text.

(* also the form in which a namespace URI is written into an xmlns declaration
   (written raw before commit 94524fa) *)
Theorem C17_escape_reversible_attr :
  forall s rest, no_nul s = true ->
  lex_attr_value (S (length (escape true s ++ 34 :: rest))) (escape true s ++ 34 :: rest) = Some (s, rest).
Proof. exact escape_attr_reversible. Qed.
Print Assumptions C17_escape_reversible_attr.

(* C17_roundtrip_partial: the round trip at TOKEN level.
   Full statement: forall x, let t := tree (parse x) in tree (parse (serialize t)) = t.
   Proved here, with NO condition on the serializer's behaviour left: for every
   document [kids] of the shape the parser produces (prolog of comments / PIs /
   at most one doctype, one root element, epilog of comments / PIs; no adjacent
   text nodes; names that print and split back; xml / xmlns fixed; attributes
   with distinct expanded names that are not declarations; one prefix = one URI
   per tag) - one decidable check [rt_hyps] - the tokens denoted by the
   serializer's items ([item_rtoken]: start tag with the written declarations
   and attributes, end tag, text, comment, PI, doctype), run through the
   tokenizer's attribute stage and the tree builder model, rebuild the same
   document (doctype ids blanked: they are outside the serializer API).
   What is missing for the full statement:
   (1) the XML tokenizer's lexing of the characters [render] writes into those
       tokens (tags, attributes, comments, PIs) - tied by the item-denotation
       correspondence of the check; for character data, attribute values and
       namespace URIs it is C17_escape_reversible_* above;
   (2) "t = tree (parse x)" is replaced by the explicit shape conditions; that
       parsed trees satisfy them is tested on every generated tree, not proved. *)
Theorem C17_roundtrip_partial :
  forall kids, rt_hyps kids = true -> reparse kids = map strip_ids kids.
Proof. exact roundtrip_tokens_decidable. Qed.
Print Assumptions C17_roundtrip_partial.

Theorem C17_roundtrip_partial_explicit :
  forall pre name attrs ks post,
  let kids := pre ++ XElem name attrs ks :: post in
  forallb is_prolog pre = true -> dt_ok false pre = true -> forallb is_misc post = true ->
  node_wf (XElem name attrs ks) = true ->
  reparse kids = map strip_ids kids.
Proof. exact roundtrip_tokens. Qed.
Print Assumptions C17_roundtrip_partial_explicit.

(* ... and survive the token-level round trip, as do the CR and the
   quoted-URI witnesses (all five were refutations before the repairs) *)
Theorem C17_former_witnesses_roundtrip :
  roundtrip_tok wA = true /\ roundtrip_tok wB = true /\ roundtrip_tok wC = true /\
  roundtrip_tok wD = true /\ roundtrip_tok wE = true.
Proof. exact witnesses_roundtrip. Qed.
Print Assumptions C17_former_witnesses_roundtrip.

(* non-vacuity: a namespaced tree with a prefixed attribute, nested use of the
   prefix and escaped characters is consistent, adequately declared and
   survives the token-level round trip; with a prolog and an epilog around it
   it satisfies the hypotheses of C17_roundtrip_partial *)
Example C17_nonvacuous :
  forest_cons ex_tree = true /\ adequate (ser_doc ex_tree) [] = true /\ roundtrip_tok ex_tree = true /\
  rt_hyps ex_doc2 = true.
Proof. destruct ex_tree_ok as (A & B & C). pose proof ex_doc2_hyps as D. repeat split; assumption. Qed.

(* ---------------------------------------------------------------------------------------------
   Gap (1) of C17_roundtrip_partial, closed for character data, attribute values and tags: the
   characters [render] writes, read by the tokenizer AS MODELLED IN TokIR (TokIR/Interp.v
   interpreting the table REGENERATED from xml5ever/src/tokenizer/mod.rs; reference semantics:
   flat queue, exact_errors = true), with the entity table as compiled into web_atoms
   (Gen/GenEntities.v).  The theorems of XmlNs/XLex*.v are generic in the step table (nine arm
   bodies as hypotheses, XLexBase.xml_bodies) and in the entity lookup (XLexBase.ent_five);
   Inst/InstXmlLex.v discharges both on the generated files.
   [xml_steps m m'] = the step function takes m to m' in finitely many steps, none of which
   suspends; it is the executable loop (C17_lex_steps_are_the_loop). *)
From HV Require TokIR.IR TokIR.Interp XmlNs.XLexBase XmlNs.XLex XmlNs.XLexTag XmlNs.XLexSer Inst.InstXmlLex.

Theorem C17_lex_steps_are_the_loop :
  forall simd c1 sk m m', InstXmlLex.xml_steps simd c1 sk m m' ->
  exists n, forall fuel, InstXmlLex.xml_run simd c1 sk (n + fuel) m = InstXmlLex.xml_run simd c1 sk fuel m'.
Proof. exact InstXmlLex.xml_steps_run. Qed.
Print Assumptions C17_lex_steps_are_the_loop.

(* (a) character data: from the Data state, the escaped text of a text node followed by '<' is
   delivered as one character token per character of the ORIGINAL text ([exp_text]; a parse error
   token precedes a character that exact_errors reports - control characters, non-characters - and
   the CR that was written as &#13;), nothing else changes, and the tokenizer is in the tag state
   with the rest of the input.  For every text without U+0000 and every configuration. *)
Theorem C17_lex_text :
  forall simd c1 sk s b cu tk tn ta an av rest o k, no_nul s = true ->
  exists o' k',
    InstXmlLex.xml_steps simd c1 sk
      (XLexBase.mkM b IR.XData false cu false None tk tn ta an av (escape false s ++ 60 :: rest) o k)
      (XLexBase.mkM b IR.XTagState false 60 false None tk tn ta an av rest o' k') /\
    XLexBase.otoks o' = rev (XLex.exp_text s) ++ XLexBase.otoks o.
Proof. exact InstXmlLex.xml_text_lex. Qed.
Print Assumptions C17_lex_text.

(* (b) attribute values: <a b="..."> with the escaped value is one start tag a whose attribute b
   has the ORIGINAL value (plus the parse errors of reported characters, [err_toks]) *)
Theorem C17_lex_attr_value :
  forall simd c1 sk s b cu tk tn ta rest o k, no_nul s = true ->
  exists b' o' k',
    InstXmlLex.xml_steps simd c1 sk
      (XLexBase.mkM b IR.XData false cu false None tk tn ta [] []
                    ([60; 97; 32; 98; 61; 34] ++ escape true s ++ [34; 62] ++ rest) o k)
      (XLexBase.mkM b' IR.XData false 62 false None IR.TStartTag [] [] [] [] rest o' k') /\
    XLexBase.otoks o' =
      Interp.TTag IR.TStartTag [97] false [([98], s)] false :: rev (XLex.err_toks s) ++ XLexBase.otoks o.
Proof. exact InstXmlLex.xml_attr_tag_lex. Qed.
Print Assumptions C17_lex_attr_value.

(* (c) a whole start tag as the serializer writes it - name, xmlns declarations, attributes with
   escaped values - is read back as ONE start tag token whose name and attribute list (duplicates
   dropped, declarations first: the tokenizer's finish_attribute) are exactly those of
   [tokenize (item_rtoken i)], the token C17_roundtrip_partial feeds the tree builder model.
   Hypotheses: the characters of the names are ones the tokenizer keeps in a name
   ([tag_name_ok], [raw_ok]: no white space, '/', '>', '=', CR or U+0000 in the respective positions -
   true of names that came out of this tokenizer; a reported character in a name is allowed and costs
   one parse-error token, [tag_errs_of]), values without U+0000. *)
Theorem C17_lex_start_tag_partial :
  forall simd c1 sk name decls attrs b cu tk tn ta rest o k,
  XLexTag.tag_name_ok (qual name) = true ->
  forallb XLexTag.raw_ok (XRoundTrip.item_raws decls attrs) = true ->
  exists tas o' k',
    InstXmlLex.xml_steps simd c1 sk
      (XLexBase.mkM b IR.XData false cu false None tk tn ta [] []
                    (render_item (IStart name decls attrs) ++ rest) o k)
      (XLexBase.mkM b IR.XData false 62 false None IR.TStartTag [] [] [] [] rest o' k') /\
    XLexBase.otoks o' =
      Interp.TTag IR.TStartTag (qual name) false tas false
      :: rev (XLexTag.tag_errs_of (qual name) (XRoundTrip.item_raws decls attrs)) ++ XLexBase.otoks o /\
    tokenize (item_rtoken (IStart name decls attrs)) =
      TTag StartTag (process_qname (qual name)) (map XLexSer.conv_attr tas)
           (qual name, XRoundTrip.item_raws decls attrs).
Proof. exact InstXmlLex.xml_start_item_lex. Qed.
Print Assumptions C17_lex_start_tag_partial.

(* ... and an end tag (for a sink that does not answer end tags with a script request, which
   would suspend the loop) *)
Theorem C17_lex_end_tag_partial :
  forall simd c1 sk, Interp.sk_resp sk = [] -> forall name b cu tk tn ta rest o k,
  XLexTag.etag_name_ok (qual name) = true ->
  exists o' k',
    InstXmlLex.xml_steps simd c1 sk
      (XLexBase.mkM b IR.XData false cu false None tk tn ta [] [] (render_item (IEnd name) ++ rest) o k)
      (XLexBase.mkM b IR.XData false 62 false None IR.TEndTag [] [] [] [] rest o' k') /\
    XLexBase.otoks o' = Interp.TTag IR.TEndTag (qual name) false [] false
                        :: rev (XLexTag.bad_errs (qual name)) ++ XLexBase.otoks o /\
    tokenize (item_rtoken (IEnd name)) = TTag EndTag (process_qname (qual name)) [] (qual name, []).
Proof. exact InstXmlLex.xml_end_item_lex. Qed.
Print Assumptions C17_lex_end_tag_partial.

(* ---------------------------------------------------------------------------------------------
   Gap (1) closed for the remaining items and for whole documents (XmlNs/XLexMisc.v, XLexDoc.v,
   XUnsrc.v, XLexTree.v, XLexHyps.v, XLexRound.v; eighteen more arm bodies, XLexMisc.xml_misc_bodies,
   discharged on the regenerated table in Inst/InstXmlLex.v).
   Side conditions, on the text of the node (all of them hold for a node this tokenizer produced):
   - every character of a comment, of a PI target / data and of a doctype name is neither U+000D
     nor U+0000 ([pre_ok]; the input preprocessing never lets them through); a reported character
     (control character, noncharacter) is allowed and costs one parse-error token;
   - comment ([comment_ok]): the text does not start with '>' or '->' and does not contain '-->'
     or '--!>' - stated as: the ten-mode automaton [cm_next] of the comment states never closes
     the comment before its end.  '--' inside, a trailing '-', '<!--' inside (one parse error) are
     all fine.  Outside: the serializer writes the text RAW, so <!-- --> around a text with '-->'
     ends early; such a comment cannot come from parsing - it is a limitation of the serializer
     for trees built by hand (the Rust code has no check either);
   - PI ([pi_target_ok], [pi_data_ok]): the target is not empty, has no white space and no '?'
     after its first character; the data does not start with white space and does not contain
     '?>' ([no_qgt]) - a '?' anywhere else is data (the PiAfter state as of /repo cff04a2: only
     '?>' ends a processing instruction), the end of the data included: <?t a??> is data "a?".
     Outside: '?>' inside the data ends the PI early, data with leading white space comes back
     without it - neither can come from parsing (limitations of the serializer for hand-built
     trees; before cff04a2 <?t? x?> was read as data " x", now as "? x", which is covered);
   - doctype ([doctype_name_ok]): the name has no white space, no '>' and no ASCII upper-case
     letter (the tokenizer lower-cases doctype names: a hand-built doctype R comes back as r).
     The empty name (from <!DOCTYPE>) is written <!DOCTYPE > and read back, with a parse error,
     as a doctype whose name is absent - the same node for the tree builder, which does not tell
     an absent name from an empty one (C17_tree_builder_ignores_tag_source). *)
From HV Require XmlNs.XLexMisc XmlNs.XLexDoc XmlNs.XUnsrc XmlNs.XLexTree XmlNs.XLexHyps XmlNs.XLexRound XmlNs.XSplit.

(* (i) <!--text--> from the Data state: the parse errors of [comment_toks] (reported characters, '<!--'
   inside), then ONE comment token with exactly the text; back in the Data state, nothing else changed *)
Theorem C17_lex_comment :
  forall simd c1 sk s b cu tk tn ta an av rest o k,
  XLexMisc.bg_clean b -> XLexMisc.comment_ok s = true -> exists o' k',
    InstXmlLex.xml_steps simd c1 sk
      (XLexBase.mkM b IR.XData false cu false None tk tn ta an av ([60; 33; 45; 45] ++ s ++ [45; 45; 62] ++ rest) o k)
      (XLexBase.mkM b IR.XData false 62 false None tk tn ta an av rest o' k') /\
    XLexBase.otoks o' = rev (XLexMisc.comment_toks s) ++ XLexBase.otoks o.
Proof. exact InstXmlLex.xml_comment_lex. Qed.
Print Assumptions C17_lex_comment.

(* the condition is the automaton's: [comment_toks s] ends in the comment token, everything before it
   is a parse error *)
Theorem C17_lex_comment_tokens :
  forall s, XLexMisc.comment_toks s = XLexMisc.cm_errs XLexMisc.MS [] s ++ [Interp.TComment s] /\
            forallb XLexTree.is_err (XLexMisc.cm_errs XLexMisc.MS [] s) = true.
Proof. exact (fun s => conj eq_refl (XLexTree.cm_errs_err s XLexMisc.MS [])). Qed.
Print Assumptions C17_lex_comment_tokens.

(* <?target data?> *)
Theorem C17_lex_pi :
  forall simd c1 sk t d b cu tk tn ta an av rest o k,
  XLexMisc.bg_clean b -> XLexMisc.pi_target_ok t = true -> XLexMisc.pi_data_ok d = true -> exists o' k',
    InstXmlLex.xml_steps simd c1 sk
      (XLexBase.mkM b IR.XData false cu false None tk tn ta an av ([60; 63] ++ t ++ [32] ++ d ++ [63; 62] ++ rest) o k)
      (XLexBase.mkM b IR.XData false 62 false None tk tn ta an av rest o' k') /\
    XLexBase.otoks o' = rev (XLexMisc.pi_toks t d) ++ XLexBase.otoks o.
Proof. exact InstXmlLex.xml_pi_lex. Qed.
Print Assumptions C17_lex_pi.

(* <!DOCTYPE name> *)
Theorem C17_lex_doctype :
  forall simd c1 sk n b cu tk tn ta an av rest o k,
  XLexMisc.bg_clean b -> XLexMisc.doctype_name_ok n = true -> exists o' k',
    InstXmlLex.xml_steps simd c1 sk
      (XLexBase.mkM b IR.XData false cu false None tk tn ta an av
                    ([60; 33; 68; 79; 67; 84; 89; 80; 69; 32] ++ n ++ [62] ++ rest) o k)
      (XLexBase.mkM b IR.XData false 62 false None tk tn ta an av rest o' k') /\
    XLexBase.otoks o' = rev (XLexMisc.doctype_toks n) ++ XLexBase.otoks o.
Proof. exact InstXmlLex.xml_doctype_lex. Qed.
Print Assumptions C17_lex_doctype.

(* The conditions on the TREE ([lex_hyps]: every element name passes tag_name_ok and etag_name_ok,
   every attribute raw_ok, every declaration the serializer may write for a name of the tag raw_ok,
   texts not empty and without U+0000, comments / PIs / doctype as above) give, for a document of the
   round-trip shape, the per-item conditions for EVERYTHING the serializer writes, and character data
   is always followed by markup. *)
Theorem C17_tree_conditions_reach_every_item :
  forall kids, rt_hyps kids = true -> XLexHyps.lex_hyps kids = true ->
  forallb XLexTree.item_ok2 (ser_doc kids) = true /\ XLexDoc.text_sep (ser_doc kids) = true /\
  XLexDoc.starts_with_markup (ser_doc kids) = true.
Proof. exact XLexHyps.doc_items. Qed.
Print Assumptions C17_tree_conditions_reach_every_item.

(* (ii) the DRIVER of the reference semantics (Interp.drive over the flat queue, exact_errors = true,
   on the regenerated table; the serializer's output as one chunk, then end of input; any setting of
   discard_bom; a sink that asks for no script) with enough fuel suspends twice - end of the chunk,
   end of the input - and has delivered exactly [flat_map lex_item (ser_doc kids)] and the EOF token:
   per item the parse errors, then the token of the item; character data one token per character. *)
Theorem C17_lex_document :
  forall simd c1 sk, Interp.sk_resp sk = [] -> forall kids bom,
  rt_hyps kids = true -> XLexHyps.lex_hyps kids = true ->
  exists n, forall f, exists m',
    InstXmlLex.xml_drive simd c1 sk (n + S f)%nat [] [serialize kids] (XLexDoc.init_m bom) [] =
      (m', [Interp.SSuspend; Interp.SSuspend]) /\
    rev (XLexBase.otoks (Interp.mout m')) = flat_map XLexDoc.lex_item (ser_doc kids) ++ [Interp.TEof].
Proof. exact InstXmlLex.xml_doc_tokens. Qed.
Print Assumptions C17_lex_document.

(* ... which is the token list of C17_roundtrip_partial up to parse-error tokens (dropped by
   [conv_toks], as process_token hands them to the error log), the cutting of character data
   (C15_tree_builder_independent_of_character_token_splitting), the ghost source of tag tokens,
   which no rule of the builder reads, and absent against empty doctype names, which it does not
   distinguish (next theorem): both lists build the same tree *)
Theorem C17_lexed_tokens_build_the_same_tree :
  forall items, forallb XLexTree.item_ok2 items = true ->
  map erase (parse_tokens (XLexTree.conv_toks (flat_map XLexDoc.lex_item items ++ [Interp.TEof]))) =
  map erase (parse_raw (map item_rtoken items ++ [REof])).
Proof. exact XLexTree.lexed_tree. Qed.
Print Assumptions C17_lexed_tokens_build_the_same_tree.

Theorem C17_tree_builder_ignores_tag_source :
  (forall s t, XUnsrc.unsrc_s (step s t) = step (XUnsrc.unsrc_s s) (XUnsrc.unsrc_tok t)) /\
  (forall l l', map XUnsrc.unsrc_tok l = map XUnsrc.unsrc_tok l' ->
                map erase (parse_tokens l) = map erase (parse_tokens l')).
Proof. exact (conj XUnsrc.un_step XUnsrc.unsrc_parse). Qed.
Print Assumptions C17_tree_builder_ignores_tag_source.

(* (iii) C17_roundtrip_through_tokenizer_partial: serializer model, then the tokenizer AS MODELLED IN TokIR
   run by its driver on the regenerated table, then the tree builder model - the tree is rebuilt.
   Full statement: forall x, let t := tree (parse x) in tree (parse (serialize t)) = t.
   Hypotheses on the tree only: [rt_hyps] (shape, C17_roundtrip_partial) and [lex_hyps] (characters).
   Partial because (a) the three models are tied to the Rust code by the correspondence checks, not
   by proof; (b) the run is the reference semantics - flat queue, exact_errors = true, one chunk:
   TokIR/QueueSim.v (chunked_is_reference_exact) and TokIR/BulkSim.v (bulk_chunked_reference) relate
   the chunked queue and the default mode to it up to parse errors and the merging of character
   tokens, which the builder does not see; (c) "t = tree (parse x)" is replaced by the two decidable
   hypotheses: the check evaluates both on every tree the Rust parser produced and asserts
   [lex_hyps] whenever [rt_hyps] holds, without exception.
   Doctype public / system identifiers are outside the serializer API ([strip_ids]). *)
Theorem C17_roundtrip_through_tokenizer_partial :
  forall simd c1 sk, Interp.sk_resp sk = [] -> forall kids bom,
  rt_hyps kids = true -> XLexHyps.lex_hyps kids = true ->
  exists n, forall f, exists m',
    InstXmlLex.xml_drive simd c1 sk (n + S f)%nat [] [serialize kids] (XLexDoc.init_m bom) [] =
      (m', [Interp.SSuspend; Interp.SSuspend]) /\
    map erase (parse_tokens (XLexTree.conv_toks (rev (XLexBase.otoks (Interp.mout m'))))) = map strip_ids kids.
Proof. exact InstXmlLex.xml_roundtrip_through_tokenizer. Qed.
Print Assumptions C17_roundtrip_through_tokenizer_partial.

(* not vacuous: the example document of C17_nonvacuous satisfies both hypotheses *)
Theorem C17_roundtrip_through_tokenizer_nonvacuous :
  rt_hyps ex_doc2 = true /\ XLexHyps.lex_hyps ex_doc2 = true.
Proof. exact (conj ex_doc2_hyps XLexRound.ex_doc2_lex_hyps). Qed.
Print Assumptions C17_roundtrip_through_tokenizer_nonvacuous.
