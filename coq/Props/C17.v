(* C17 - placeholder while the proofs are being developed *)
From Coq Require Import List NArith Bool.
From HV Require Import XmlNs.XTreeModel.
Import ListNotations.
Example C17_nonvacuous : qname_split [112;58;120]%N = Some 1%nat.
Proof. vm_compute. reflexivity. Qed.
Print Assumptions C17_nonvacuous.
