(* C14 - Every character reference resolves to its WHATWG value.
   Only statements, closed by [exact], and their assumptions. *)
From Coq Require Import List NArith Bool.
From HV Require Import CharRef.CRModel CharRef.CRSpec CharRef.CRTable CharRef.CRRun CharRef.CRNamed
  CharRef.CRNumeric CharRef.CRTheorems CharRef.CRGenTable CharRef.CRInst CharRef.WhatwgEntities Gen.GenEntities Gen.GenC1.
Import ListNotations.
Open Scope N_scope.

(* The table compiled into web_atoms (phf map dumped from the built crate,
   regenerated on every run) against the WHATWG table (2231 rows, committed):
   every WHATWG row is a key with its two code points; every key with a
   non-zero first code point is a WHATWG row with the same value; every other
   key has value (0,0); identifiers are [A-Za-z0-9]+;? (so byte lengths are
   character counts); every non-empty prefix of an identifier is a key; all
   code points are scalar values; the extracted trie lookup is the list lookup. *)
Theorem C14_table :
  same_table GenEntities.entities whatwg_entities /\
  table_ok gen_table /\
  (forall k, gen_table k = alookup GenEntities.entities k) /\
  length whatwg_entities = 2231%nat.
Proof.
  exact (conj gen_same_as_whatwg (conj gen_table_ok (conj gen_table_is_list whatwg_count))).
Qed.
Print Assumptions C14_table.

(* C1_REPLACEMENTS as compiled and the arms of `match self.num` in finish_numeric as
   parsed from the source are what the model uses, and the C1 table is WHATWG's *)
Theorem C14_numeric_tables :
  GenC1.c1_replacements = CRModel.c1_replacements /\
  GenC1.finish_numeric_arms = CRModel.finish_numeric_arms /\
  c1_agrees GenC1.c1_replacements.
Proof. exact (conj gen_c1_is_model (conj gen_arms_is_model gen_c1_agrees_whatwg)). Qed.
Print Assumptions C14_numeric_tables.

(* named references, for EVERY prefix-closed table, every input, in text and
   in attributes: longest match, legacy attribute exception, exact
   un-consumption; no identifier -> nothing delivered, input untouched *)
Theorem C14_named :
  forall T, table_ok T -> forall in_attr c0 r0, is_alnum c0 = true ->
  let input := c0 :: r0 in
  let o := cr_whole T in_attr input in
  (forall n rest v, longest_name T input n rest v ->
     if legacy_exception in_attr n rest
     then o_status o = CrDone [] /\ o_q o = input
     else o_status o = CrDone (chars_of v) /\ o_q o = rest) /\
  (no_name T input -> o_status o = CrDone [] /\ o_q o = input).
Proof. exact named_spec. Qed.
Print Assumptions C14_named.

(* the result does not depend on how the text after '&' is split over feeds
   (queue runs empty, Stuck, more input), for named and numeric references alike *)
Theorem C14_chunking :
  forall T in_attr chunks,
  cr_feed T (cr_new in_attr) chunks [] false = cr_whole T in_attr (concat chunks).
Proof. exact chunks_whole. Qed.
Print Assumptions C14_chunking.

(* end to end for the table compiled into web_atoms, against the WHATWG table,
   for every chunking: the model never panics, finishes, and delivers what
   [named_result whatwg_table] prescribes *)
Theorem C14_named_html :
  forall in_attr chunks c0 r0,
  concat chunks = c0 :: r0 -> is_alnum c0 = true ->
  let o := cr_feed gen_table (cr_new in_attr) chunks [] false in
  exists chars, o_status o = CrDone chars /\ named_result whatwg_table in_attr (c0 :: r0) chars (o_q o).
Proof. exact html_named. Qed.
Print Assumptions C14_named_html.

(* numeric references: any digit count (leading zeros, overflow of the u32
   accumulator included): the delivered character is the WHATWG function of the
   UNBOUNDED value; an optional ';' is consumed, nothing else *)
Theorem C14_numeric :
  forall T in_attr base marker ds rest,
  num_shape base marker -> ds <> [] -> forallb (is_digit base) ds = true -> ends_digits base rest ->
  let o := cr_whole T in_attr (CH_HASH :: marker ++ ds ++ rest) in
  o_status o = CrDone [whatwg_numeric (digits_value base ds 0)] /\ o_q o = strip_semi rest.
Proof. exact numeric_whole. Qed.
Print Assumptions C14_numeric.

(* non-references leave the original characters untouched *)
Theorem C14_numeric_no_digits :
  forall T in_attr base marker rest,
  num_shape base marker -> ends_digits base rest ->
  (base = 10 -> match rest with c :: _ => (c =? CH_x) || (c =? CH_X) = false | [] => True end) ->
  let o := cr_whole T in_attr (CH_HASH :: marker ++ rest) in
  o_status o = CrDone [] /\ o_q o = CH_HASH :: marker ++ rest.
Proof. exact numeric_no_digits. Qed.
Print Assumptions C14_numeric_no_digits.

Theorem C14_non_reference :
  forall T in_attr input,
  match input with c :: _ => is_alnum c = false /\ c <> CH_HASH | [] => True end ->
  let o := cr_whole T in_attr input in
  o_status o = CrDone [] /\ o_q o = input.
Proof. exact begin_other. Qed.
Print Assumptions C14_non_reference.

(* whatever follows '&' and however it is split: no panic site is reached, the
   steps suffice, the result is Done *)
Theorem C14_total :
  forall T, table_ok T -> forall in_attr chunks,
  exists chars, o_status (cr_feed T (cr_new in_attr) chunks [] false) = CrDone chars.
Proof. exact cr_total. Qed.
Print Assumptions C14_total.

(* non-vacuity: the model on the generated table does what the statement is about.
   "&notit;" -> U+00AC then "it;" ; attribute "&not=" -> untouched ; "&#x80;" -> U+20AC ;
   "&#4294967361;" (2^32 + 65, wraps to 65) -> U+FFFD ; "&NotEqualTilde;" -> two code points *)
Example C14_nonvacuous :
  (let o := cr_whole gen_table false [110; 111; 116; 105; 116; 59] in (o_status o, o_q o))
    = (CrDone [172], [105; 116; 59]) /\
  (let o := cr_whole gen_table true [110; 111; 116; 61] in (o_status o, o_q o))
    = (CrDone [], [110; 111; 116; 61]) /\
  (let o := cr_whole gen_table false [35; 120; 56; 48; 59] in (o_status o, o_q o))
    = (CrDone [0x20AC], []) /\
  (let o := cr_whole gen_table false [35; 52; 50; 57; 52; 57; 54; 55; 51; 54; 49; 59] in (o_status o, o_q o))
    = (CrDone [0xFFFD], []) /\
  (let o := cr_whole gen_table false [78; 111; 116; 69; 113; 117; 97; 108; 84; 105; 108; 100; 101; 59; 33] in
     (o_status o, o_q o)) = (CrDone [8770; 824], [33]).
Proof. vm_compute. repeat split. Qed.
