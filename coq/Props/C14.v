(* C14 - Every character reference resolves to its WHATWG value.
   Only statements, closed by [exact], and their assumptions. *)
From Coq Require Import List NArith Bool.
From HV Require Import CharRef.CRModel CharRef.CRSpec CharRef.CRTable CharRef.CRRun CharRef.CRNamed
  CharRef.CRNumeric CharRef.CRTheorems CharRef.CRGenTable CharRef.CRInst CharRef.WhatwgEntities Gen.GenEntities Gen.GenC1.
From HV Require Import TokIR.IR.
From HV Require TokIR.Interp.
From HV Require Import CharRef.CrInterp CharRef.CrInterpInst.
Import ListNotations.
Open Scope N_scope.

(* The table compiled into web_atoms (phf map dumped from the built crate,
   regenerated on every run) against the WHATWG table (2231 rows, committed):
   every WHATWG row is a key with its two code points; every key with a
   non-zero first code point is a WHATWG row with the same value; every other
   key has value (0,0); identifiers are [A-Za-z0-9]+;? (so byte lengths are
   character counts); every non-empty prefix of an identifier is a key; all
   code points are scalar values; the extracted trie lookup is the list lookup. *)
Theorem C14_table :
  same_table GenEntities.entities whatwg_entities /\
  table_ok gen_table /\
  (forall k, gen_table k = alookup GenEntities.entities k) /\
  length whatwg_entities = 2231%nat.
Proof.
  exact (conj gen_same_as_whatwg (conj gen_table_ok (conj gen_table_is_list whatwg_count))).
Qed.
Print Assumptions C14_table.

(* C1_REPLACEMENTS as compiled and the arms of `match self.num` in finish_numeric as
   parsed from the source are what the model uses, and the C1 table is WHATWG's *)
Theorem C14_numeric_tables :
  GenC1.c1_replacements = CRModel.c1_replacements /\
  GenC1.finish_numeric_arms = CRModel.finish_numeric_arms /\
  c1_agrees GenC1.c1_replacements.
Proof. exact (conj gen_c1_is_model (conj gen_arms_is_model gen_c1_agrees_whatwg)). Qed.
Print Assumptions C14_numeric_tables.

(* named references, for EVERY prefix-closed table, every input, in text and
   in attributes: longest match, legacy attribute exception, exact
   un-consumption; no identifier -> nothing delivered, input untouched *)
Theorem C14_named :
  forall T, table_ok T -> forall in_attr c0 r0, is_alnum c0 = true ->
  let input := c0 :: r0 in
  let o := cr_whole T in_attr input in
  (forall n rest v, longest_name T input n rest v ->
     if legacy_exception in_attr n rest
     then o_status o = CrDone [] /\ o_q o = input
     else o_status o = CrDone (chars_of v) /\ o_q o = rest) /\
  (no_name T input -> o_status o = CrDone [] /\ o_q o = input).
Proof. exact named_spec. Qed.
Print Assumptions C14_named.

(* the result does not depend on how the text after '&' is split over feeds
   (queue runs empty, Stuck, more input), for named and numeric references alike *)
Theorem C14_chunking :
  forall T in_attr chunks,
  cr_feed T (cr_new in_attr) chunks [] false = cr_whole T in_attr (concat chunks).
Proof. exact chunks_whole. Qed.
Print Assumptions C14_chunking.

(* end to end for the table compiled into web_atoms, against the WHATWG table,
   for every chunking: the model never panics, finishes, and delivers what
   [named_result whatwg_table] prescribes *)
Theorem C14_named_html :
  forall in_attr chunks c0 r0,
  concat chunks = c0 :: r0 -> is_alnum c0 = true ->
  let o := cr_feed gen_table (cr_new in_attr) chunks [] false in
  exists chars, o_status o = CrDone chars /\ named_result whatwg_table in_attr (c0 :: r0) chars (o_q o).
Proof. exact html_named. Qed.
Print Assumptions C14_named_html.

(* numeric references: any digit count (leading zeros, overflow of the u32
   accumulator included): the delivered character is the WHATWG function of the
   UNBOUNDED value; an optional ';' is consumed, nothing else *)
Theorem C14_numeric :
  forall T in_attr base marker ds rest,
  num_shape base marker -> ds <> [] -> forallb (is_digit base) ds = true -> ends_digits base rest ->
  let o := cr_whole T in_attr (CH_HASH :: marker ++ ds ++ rest) in
  o_status o = CrDone [whatwg_numeric (digits_value base ds 0)] /\ o_q o = strip_semi rest.
Proof. exact numeric_whole. Qed.
Print Assumptions C14_numeric.

(* non-references leave the original characters untouched *)
Theorem C14_numeric_no_digits :
  forall T in_attr base marker rest,
  num_shape base marker -> ends_digits base rest ->
  (base = 10 -> match rest with c :: _ => (c =? CH_x) || (c =? CH_X) = false | [] => True end) ->
  let o := cr_whole T in_attr (CH_HASH :: marker ++ rest) in
  o_status o = CrDone [] /\ o_q o = CH_HASH :: marker ++ rest.
Proof. exact numeric_no_digits. Qed.
Print Assumptions C14_numeric_no_digits.

Theorem C14_non_reference :
  forall T in_attr input,
  match input with c :: _ => is_alnum c = false /\ c <> CH_HASH | [] => True end ->
  let o := cr_whole T in_attr input in
  o_status o = CrDone [] /\ o_q o = input.
Proof. exact begin_other. Qed.
Print Assumptions C14_non_reference.

(* whatever follows '&' and however it is split: no panic site is reached, the
   steps suffice, the result is Done *)
Theorem C14_total :
  forall T, table_ok T -> forall in_attr chunks,
  exists chars, o_status (cr_feed T (cr_new in_attr) chunks [] false) = CrDone chars.
Proof. exact cr_total. Qed.
Print Assumptions C14_total.

(* ------------------------------------------------------------------ the same, OF THE TOKENIZER INTERPRETER
   coq/TokIR/Interp.v has its own model of the sub-tokenizer (cr_new / cr_step / cr_read / finish_named /
   finish_numeric / unconsume_numeric / cr_eof, inside step / run / tok_end).  That interpreter is what runs
   against the Rust tokenizer on whole documents and what the chunking / line-number / bulk-read theorems are
   about.  For the html flavour on the flat queue (any exact_errors) it agrees with the C14 model step for step;
   [to_i] maps the states (same fields; the name buffer is a plain list there), [clean m] = not re-consuming and
   no CR pending (true right after '&' has been read through get_char), [post m q k m'] = m' is m with queue q
   and k more parse errors, [agrees] = no panic site reached, same result (Stuck / Progress to the [to_i]-image of
   the model's next state / Done with the same characters for process_char_ref), the queue the model predicts
   (same consumed input, same pushed-back characters), as many parse errors as the model lists. *)
Theorem C14_interp_step :
  forall (S : Type) (fl : Interp.flavour S), Interp.f_html fl = true ->
  forall (ex : bool) (T : entity_table) (c1 : N -> option N),
  (forall n, in_range 0x80 0x9F n = true -> c1 n = c1_of_list CRModel.c1_replacements n) ->
  values_scalar T ->
  forall ad t (m : Interp.mach S (list N)), wf t -> clean m ->
  agrees ad m 0 (CRModel.cr_step T t (Interp.mq m))
         (Interp.cr_step Interp.fq_next Interp.fq_peek (@app N) fl ex T c1 (to_i ad t) m).
Proof. exact @sim_step. Qed.
Print Assumptions C14_interp_step.

Theorem C14_interp_eof :
  forall (S : Type) (fl : Interp.flavour S), Interp.f_html fl = true ->
  forall (T : entity_table) (c1 : N -> option N),
  (forall n, in_range 0x80 0x9F n = true -> c1 n = c1_of_list CRModel.c1_replacements n) ->
  forall ad t (m : Interp.mach S (list N)), wf t -> clean m ->
  let o := CRModel.cr_eof T t (Interp.mq m) in
  exists chars, o_status o = CRModel.CrDone chars /\
    fst (Interp.cr_eof (@app N) fl c1 (to_i ad t) m) = chars /\
    post m (o_q o) (length (o_errs o)) (snd (Interp.cr_eof (@app N) fl c1 (to_i ad t) m)).
Proof. exact @sim_eof. Qed.
Print Assumptions C14_interp_eof.

(* a whole reference: from a machine that has just read '&' (the ConsumeCharRef terminator: cref := Some (cr_new
   in_attr addnl)) with the rest of the input in its queue, the interpreter's run hands to process_char_ref exactly
   the characters the model delivers ([] = '&' itself), leaves exactly the queue the model leaves, reports as many
   parse errors - either inside the input or, when the input runs out, through Tokenizer::end() ([delivers]) *)
Theorem C14_interp_whole :
  forall (S : Type) (fl : Interp.flavour S), Interp.f_html fl = true ->
  forall (ex : bool) (T : entity_table) (c1 : N -> option N),
  (forall n, in_range 0x80 0x9F n = true -> c1 n = c1_of_list CRModel.c1_replacements n) ->
  values_scalar T ->
  forall tb simd sk ad in_attr (m : Interp.mach S (list N)),
  clean m -> Interp.cref (Interp.mc m) = Some (Interp.cr_new in_attr ad) ->
  let w := cr_whole T in_attr (Interp.mq m) in
  exists chars, o_status w = CRModel.CrDone chars /\
                delivers fl ex T c1 tb simd sk m chars (o_q w) (length (o_errs w)).
Proof. exact @interp_whole. Qed.
Print Assumptions C14_interp_whole.

(* C14_named transported: every prefix-closed table, every input, text and attribute *)
Theorem C14_interp_named :
  forall (S : Type) (fl : Interp.flavour S), Interp.f_html fl = true ->
  forall (ex : bool) (T : entity_table) (c1 : N -> option N),
  (forall n, in_range 0x80 0x9F n = true -> c1 n = c1_of_list CRModel.c1_replacements n) ->
  values_scalar T ->
  forall tb simd sk, table_ok T ->
  forall ad in_attr (m : Interp.mach S (list N)) c0 r0,
  clean m -> Interp.cref (Interp.mc m) = Some (Interp.cr_new in_attr ad) ->
  Interp.mq m = c0 :: r0 -> CRModel.is_alnum c0 = true ->
  let input := c0 :: r0 in
  (forall n rest v, longest_name T input n rest v ->
     if legacy_exception in_attr n rest
     then exists ne, delivers fl ex T c1 tb simd sk m [] input ne
     else exists ne, delivers fl ex T c1 tb simd sk m (chars_of v) rest ne) /\
  (no_name T input -> exists ne, delivers fl ex T c1 tb simd sk m [] input ne).
Proof. exact @interp_named_spec. Qed.
Print Assumptions C14_interp_named.

(* the html interpreter as it is instantiated (entity lookup in the regenerated NAMED_ENTITIES, regenerated
   C1_REPLACEMENTS), against the WHATWG table *)
Theorem C14_interp_named_html :
  forall ex tb simd sk ad in_attr (m : Interp.mach hstate (list N)) c0 r0,
  clean m -> Interp.cref (Interp.mc m) = Some (Interp.cr_new in_attr ad) ->
  Interp.mq m = c0 :: r0 -> CRModel.is_alnum c0 = true ->
  exists chars rest ne, named_result whatwg_table in_attr (c0 :: r0) chars rest /\
                        delivers Interp.html_flavour ex html_ent html_c1 tb simd sk m chars rest ne.
Proof. exact html_interp_named. Qed.
Print Assumptions C14_interp_named_html.

Theorem C14_interp_numeric_html :
  forall ex tb simd sk ad in_attr (m : Interp.mach hstate (list N)) base marker ds rest,
  clean m -> Interp.cref (Interp.mc m) = Some (Interp.cr_new in_attr ad) ->
  Interp.mq m = CH_HASH :: marker ++ ds ++ rest ->
  num_shape base marker -> ds <> [] -> forallb (CRSpec.is_digit base) ds = true -> ends_digits base rest ->
  exists ne, delivers Interp.html_flavour ex html_ent html_c1 tb simd sk m
                      [whatwg_numeric (digits_value base ds 0)] (strip_semi rest) ne.
Proof. exact html_interp_numeric. Qed.
Print Assumptions C14_interp_numeric_html.

Theorem C14_interp_numeric_no_digits_html :
  forall ex tb simd sk ad in_attr (m : Interp.mach hstate (list N)) base marker rest,
  clean m -> Interp.cref (Interp.mc m) = Some (Interp.cr_new in_attr ad) ->
  Interp.mq m = CH_HASH :: marker ++ rest ->
  num_shape base marker -> ends_digits base rest ->
  (base = 10 -> match rest with c :: _ => (c =? CH_x) || (c =? CH_X) = false | [] => True end) ->
  exists ne, delivers Interp.html_flavour ex html_ent html_c1 tb simd sk m [] (CH_HASH :: marker ++ rest) ne.
Proof. exact html_interp_numeric_no_digits. Qed.
Print Assumptions C14_interp_numeric_no_digits_html.

Theorem C14_interp_non_reference_html :
  forall ex tb simd sk ad in_attr (m : Interp.mach hstate (list N)),
  clean m -> Interp.cref (Interp.mc m) = Some (Interp.cr_new in_attr ad) ->
  match Interp.mq m with c :: _ => CRModel.is_alnum c = false /\ c <> CH_HASH | [] => True end ->
  exists ne, delivers Interp.html_flavour ex html_ent html_c1 tb simd sk m [] (Interp.mq m) ne.
Proof. exact html_interp_non_reference. Qed.
Print Assumptions C14_interp_non_reference_html.

(* the ConsumeCharRef terminator produces the starting state of these theorems *)
Theorem C14_interp_start :
  forall (S Q : Type) (fl : Interp.flavour S) sk addnl (m : Interp.mach S Q),
  Interp.cref (Interp.mc (fst (Interp.do_term fl sk (ConsumeCharRef addnl) m))) =
  Some (Interp.cr_new (Interp.f_is_attr_value fl (Interp.st (Interp.mc m))) addnl).
Proof. exact @consume_char_ref_starts. Qed.
Print Assumptions C14_interp_start.

(* non-vacuity: the model on the generated table does what the statement is about.
   "&notit;" -> U+00AC then "it;" ; attribute "&not=" -> untouched ; "&#x80;" -> U+20AC ;
   "&#4294967361;" (2^32 + 65, wraps to 65) -> U+FFFD ; "&NotEqualTilde;" -> two code points *)
Example C14_nonvacuous :
  (let o := cr_whole gen_table false [110; 111; 116; 105; 116; 59] in (o_status o, o_q o))
    = (CrDone [172], [105; 116; 59]) /\
  (let o := cr_whole gen_table true [110; 111; 116; 61] in (o_status o, o_q o))
    = (CrDone [], [110; 111; 116; 61]) /\
  (let o := cr_whole gen_table false [35; 120; 56; 48; 59] in (o_status o, o_q o))
    = (CrDone [0x20AC], []) /\
  (let o := cr_whole gen_table false [35; 52; 50; 57; 52; 57; 54; 55; 51; 54; 49; 59] in (o_status o, o_q o))
    = (CrDone [0xFFFD], []) /\
  (let o := cr_whole gen_table false [78; 111; 116; 69; 113; 117; 97; 108; 84; 105; 108; 100; 101; 59; 33] in
     (o_status o, o_q o)) = (CrDone [8770; 824], [33]).
Proof. vm_compute. repeat split. Qed.

(* the premise [clean m] (and the cr_new premise) of the C14_interp_* theorems holds on the regenerated html table right
   after EVERY ConsumeCharRef terminator (TokIR/CharRefClean.v, Inst/InstCharRefClean.v): for a machine satisfying the
   control invariant HtmlTI (Props/C04.v) and CI - reconsume set and CR pending imply current_char = LF; both true of
   every fresh tokenizer and kept by every step - a step of the table that starts a reference ends clean, with a fresh
   reference state *)
From HV Require TokIR.CharRefClean Inst.InstTermination Inst.InstCharRefClean.
Theorem C14_consume_charref_clean :
  forall simd ent c1 sk at_eof (m : Interp.mach hstate (list N)),
  InstTermination.HtmlTI m -> InstCharRefClean.HtmlCI m -> Interp.cref (Interp.mc m) = None ->
  let m' := fst (Interp.step [] Interp.fq_next Interp.fq_peek (@app N) (fun q => q) Interp.fq_run1 Interp.html_flavour true
                             Gen.GenHtmlTok.html_table simd ent c1 sk at_eof m) in
  Interp.cref (Interp.mc m') <> None ->
  clean m' /\ exists in_attr ad, Interp.cref (Interp.mc m') = Some (Interp.cr_new in_attr ad).
Proof. exact InstCharRefClean.html_consume_charref_clean. Qed.
Print Assumptions C14_consume_charref_clean.

Theorem C14_charref_clean_invariant :
  (forall s0 last q o k, InstCharRefClean.HtmlCI (Interp.mkmach (Interp.init_cfg s0 last false) q o k)) /\
  (forall simd ent c1 sk at_eof (m : Interp.mach hstate (list N)),
     InstTermination.HtmlTI m -> InstCharRefClean.HtmlCI m ->
     InstCharRefClean.HtmlCI (fst (Interp.step [] Interp.fq_next Interp.fq_peek (@app N) (fun q => q) Interp.fq_run1
                                               Interp.html_flavour true Gen.GenHtmlTok.html_table simd ent c1 sk at_eof m))).
Proof. exact (conj InstCharRefClean.html_CI_init InstCharRefClean.html_step_keeps_CI). Qed.
Print Assumptions C14_charref_clean_invariant.
