(* C08 — diagnostic and housekeeping options never change what is parsed.  Statements only. *)
From Coq Require Import List NArith Bool.
From HV Require Import TokIR.IR TokIR.Interp TokIR.Checks TokIR.QueueSim TokIR.BulkSim Gen.GenHtmlTok Gen.GenXmlTok Inst.InstHtmlTok Inst.InstXmlTok Inst.InstBulk.
Import ListNotations.

(* exact_errors switches every bulk read to the character-at-a-time path.  For every bulk state of the regenerated
   tables the two paths agree: the set contains every character the slow path treats specially, and the default
   FromSet arm is the per-character form of the NotFromSet arm (up to parse errors). *)
Theorem C08_html_bulk_sets_adequate : sets_adequate hstate_beq true html_table = [].
Proof. exact html_sets_adequate. Qed.
Print Assumptions C08_html_bulk_sets_adequate.

Theorem C08_xml_bulk_sets_adequate : sets_adequate xstate_beq false xml_table = [].
Proof. exact xml_sets_adequate. Qed.
Print Assumptions C08_xml_bulk_sets_adequate.

(* the SIMD fast path of the data state scans for the same characters as the scalar path *)
Theorem C08_simd_sets_consistent :
  simd_consistent (match html_step HData with BPop s _ _ _ => s | _ => [] end)
                  simd_first_guard simd_tail_stop simd_tail_newline simd_lane_stop simd_lane_newline = true.
Proof. exact simd_sets_consistent. Qed.
Print Assumptions C08_simd_sets_consistent.

(* what the check means for one arm: a character outside the set is handled like the default arm *)
Theorem C08_chain_ok_sound :
  forall (S : Type) (seqb : S -> S -> bool), (forall a b, seqb a b = true -> a = b) ->
  forall set dflt (b : body S) c,
  chain_ok seqb set dflt b = true -> in_set set c = false -> strip_err (resolve c b) = dflt.
Proof. exact @chain_ok_resolve. Qed.
Print Assumptions C08_chain_ok_sound.

(* WHOLE RUNS (TokIR/BulkSim.v, one theory for both flavours; html here, xml below): exact_errors changes nothing but parse errors and the cutting of text into
   character tokens.  The chunked-queue interpreter - the one that runs against the Rust tokenizer - in the DEFAULT mode
   (exact_errors = false: bulk reads up to the end of the first buffer, SIMD scan of the data state with its own newline
   count, no current_char update, no bad-character errors) against the same interpreter with exact_errors = true (one
   character at a time), from the same machine, for every list of chunks, sink script, injected text and fuel: if the
   default-mode run ends regularly (no fuel exhaustion), the exact-mode run with any fuel from some bound on reports the
   same results (script pauses, encoding suspensions, end()), leaves the same unread input, has consumed the same number
   of characters, ends in the same configuration up to current_char, and has delivered the same tokens up to [obs]:
   TError entries dropped, adjacent TChars entries merged into one (annotated with the line and consumed-count of the
   LAST character token of the group), every other token kept with its line and consumed-count.
   Proof: a stuttering simulation (one fast step on a run r = |r| slow steps) under the decidable table conditions
   below. *)
Theorem C08_exact_errors_changes_only_errors_and_text_cuts :
  forall ent c1 sk fuel inject chunks (m : mach hstate queue) log,
  let rf := drive_chunked html_flavour false html_table html_simd ent c1 sk fuel inject chunks m log in
  regular (snd rf) ->
  exists k, forall j,
    let rs := drive_chunked html_flavour true html_table html_simd ent c1 sk (k + j) inject chunks m log in
    snd rs = snd rf /\ obs (mout (fst rs)) = obs (mout (fst rf)) /\ ceq (mc (fst rs)) (mc (fst rf)) /\
    mq (fst rs) = mq (fst rf) /\ mcons (fst rs) = mcons (fst rf).
Proof. exact html_bulk_chunked_obs. Qed.
Print Assumptions C08_exact_errors_changes_only_errors_and_text_cuts.

(* the same for the flat queue with unit runs (the reference semantics' queue) *)
Theorem C08_exact_errors_flat_unit_runs :
  forall ent c1 sk fuel inject chunks (m : mach hstate (list N)) log,
  let rf := drive_flat html_flavour false html_table html_simd ent c1 sk fuel inject chunks m log in
  regular (snd rf) ->
  exists k, forall j,
    let rs := drive_flat html_flavour true html_table html_simd ent c1 sk (k + j) inject chunks m log in
    snd rs = snd rf /\ obs (mout (fst rs)) = obs (mout (fst rf)) /\ ceq (mc (fst rs)) (mc (fst rf)) /\
    mq (fst rs) = mq (fst rf) /\ mcons (fst rs) = mcons (fst rf).
Proof. exact html_bulk_flat_obs. Qed.
Print Assumptions C08_exact_errors_flat_unit_runs.

(* the table conditions of the simulation, decided on the regenerated table: every step body is either a bulk read whose
   set contains CR, LF, NUL, whose per-character arm treats every character outside the set (and, for the SIMD state,
   outside the scan's stop set, which lies inside the first-character guard and counts only LF) like the run arm for one
   character up to Error commands, or a body without bulk read; an arm reconsumes only after having read a character in
   the same step; EOF arms do not read *)
Theorem C08_bulk_table_conditions :
  (forall s, step_ok html_flavour simd_first_guard simd_tail_stop simd_tail_newline hstate_beq (html_step s) = true) /\
  (forall s, ok_body false false (html_eof s) = true).
Proof. split; [exact html_step_ok_all|exact html_eof_lockstep_all]. Qed.
Print Assumptions C08_bulk_table_conditions.

(* non-vacuity (a test, by computation): text runs with a line feed, attribute values with NUL, a quote and a character
   reference, NUL and a bad character in text: the default-mode run delivers 11 entries (2 parse errors), the exact-mode
   reference run 19 (4 parse errors) - the raw token lists differ - and both have the same 7 observable tokens *)
Example C08_bulk_obs_example :
  regular_b (snd ex_fast) = true /\ snd ex_fast = snd ex_ref /\
  obs (mout (fst ex_fast)) = obs (mout (fst ex_ref)) /\
  (length (mout (fst ex_fast)), length (mout (fst ex_ref)), length (obs (mout (fst ex_ref)))) = (11, 19, 7)%nat /\
  (length (filter is_error (mout (fst ex_fast))), length (filter is_error (mout (fst ex_ref)))) = (2, 4)%nat /\
  rev (obs (mout (fst ex_ref))) =
    [(TChars [97; 98; 10; 99; 100], 2, 5);
     (TTag TStartTag [112] false [([116], [120; 65533; 121; 38; 122]); ([117], [118; 34; 119])] false, 2, 28);
     (TChars [101; 60; 102], 2, 34); (TNull, 2, 35); (TChars [103; 1; 104], 2, 38);
     (TTag TEndTag [112] false [] false, 2, 42); (TEof, 2, 42)]%N.
Proof. exact ex_bulk_obs. Qed.
Print Assumptions C08_bulk_obs_example.

(* xml5ever, WHOLE RUNS: the same theorem for the xml flavour on the regenerated xml table, for ANY value of the (unused)
   SIMD sets: XmlTokenizer with exact_errors = false (bulk reads in Data and the three attribute-value states) against
   exact_errors = true, chunked queue, all chunk lists, sink scripts (Script answers on end tags), injected text, fuel.
   What differs between the flavours and is covered: NUL is turned into U+FFFD by get_preprocessed_char (and is in every
   bulk set), lines are not counted there (so LF need not stop a run, and does not in Data), discard_char reads through
   get_char, eat has its own pending-LF clause, EOF arms may emit tags and go on after a Script answer. *)
Theorem C08_xml_exact_errors_changes_only_errors_and_text_cuts :
  forall simd ent c1 sk fuel inject chunks (m : mach xstate queue) log,
  let rf := drive_chunked xml_flavour false xml_table simd ent c1 sk fuel inject chunks m log in
  regular (snd rf) ->
  exists k, forall j,
    let rs := drive_chunked xml_flavour true xml_table simd ent c1 sk (k + j) inject chunks m log in
    snd rs = snd rf /\ obs (mout (fst rs)) = obs (mout (fst rf)) /\ ceq (mc (fst rs)) (mc (fst rf)) /\
    mq (fst rs) = mq (fst rf) /\ mcons (fst rs) = mcons (fst rf).
Proof. exact xml_bulk_chunked_obs. Qed.
Print Assumptions C08_xml_exact_errors_changes_only_errors_and_text_cuts.

Theorem C08_xml_bulk_table_conditions :
  (forall guard stop nl s, step_ok xml_flavour guard stop nl xstate_beq (xml_step s) = true) /\
  (forall s, ok_body false false (xml_eof s) = true).
Proof. split; [exact xml_step_ok_all|exact xml_eof_lockstep_all]. Qed.
Print Assumptions C08_xml_bulk_table_conditions.

(* non-vacuity (a test, by computation): x LF y <a b='p NUL q&amp;r' c=QUOT s QUOT> t NUL u U+0001 v &lt; </a> - 8 entries
   against 13 (one bad-character error on the slow path only), the same 5 observable tokens *)
Example C08_xml_bulk_obs_example :
  regular_b (snd xex_fast) = true /\ snd xex_fast = snd xex_ref /\
  obs (mout (fst xex_fast)) = obs (mout (fst xex_ref)) /\
  (length (mout (fst xex_fast)), length (mout (fst xex_ref)), length (obs (mout (fst xex_ref)))) = (8, 13, 5)%nat /\
  (length (filter is_error (mout (fst xex_fast))), length (filter is_error (mout (fst xex_ref)))) = (0, 1)%nat /\
  rev (obs (mout (fst xex_ref))) =
    [(TChars [120; 10; 121], 1, 3);
     (TTag TStartTag [97] false [([98], [112; 65533; 113; 38; 114]); ([99], [115])] false, 1, 26);
     (TChars [116; 65533; 117; 1; 118; 60], 1, 35); (TTag TEndTag [97] false [] false, 1, 39); (TEof, 1, 39)]%N.
Proof. exact xex_bulk_obs. Qed.
Print Assumptions C08_xml_bulk_obs_example.

(* ------------------------------------------------------------------------------------------------------------
   The `regular` hypothesis discharged (TokIR/BulkTerm.v, Inst/InstBulkTerm.v; see Props/C03.v
   C03_default_mode_run_is_regular): with fuel above the explicit bound of Props/C04.v the default-mode run over the
   chunked queue never runs out of fuel, so the exact-mode comparison holds outright - both tokenizers. *)
From HV Require Inst.InstTermination Inst.InstTermX Inst.InstBulkTerm.

Theorem C08_exact_errors_changes_only_errors_and_text_cuts_total :
  forall ent c1 sk fuel inject chunks (m : mach hstate queue) log,
  wfq (mq m) -> InstTermination.HtmlTI (absm qflat m) ->
  (InstTermination.html_fuel (InstTermination.html_unread (absm qflat m) + length (concat chunks) +
                              length chunks * (50 * length inject)) <= fuel)%nat -> (4 <= fuel)%nat ->
  regular log ->
  let rf := drive_chunked html_flavour false html_table html_simd ent c1 sk fuel inject chunks m log in
  exists k, forall j,
    let rs := drive_chunked html_flavour true html_table html_simd ent c1 sk (k + j) inject chunks m log in
    snd rs = snd rf /\ obs (mout (fst rs)) = obs (mout (fst rf)) /\ ceq (mc (fst rs)) (mc (fst rf)) /\
    mq (fst rs) = mq (fst rf) /\ mcons (fst rs) = mcons (fst rf).
Proof. exact InstBulkTerm.html_bulk_chunked_obs_total. Qed.
Print Assumptions C08_exact_errors_changes_only_errors_and_text_cuts_total.

Theorem C08_xml_exact_errors_changes_only_errors_and_text_cuts_total :
  forall simd ent c1 sk fuel inject chunks (m : mach xstate queue) log,
  wfq (mq m) -> InstTermX.XmlTI (absm qflat m) ->
  (InstTermX.xml_fuel (InstTermX.xml_unread (absm qflat m) + length (concat chunks) +
                       length chunks * (50 * length inject)) <= fuel)%nat -> (4 <= fuel)%nat ->
  regular log ->
  let rf := drive_chunked xml_flavour false xml_table simd ent c1 sk fuel inject chunks m log in
  exists k, forall j,
    let rs := drive_chunked xml_flavour true xml_table simd ent c1 sk (k + j) inject chunks m log in
    snd rs = snd rf /\ obs (mout (fst rs)) = obs (mout (fst rf)) /\ ceq (mc (fst rs)) (mc (fst rf)) /\
    mq (fst rs) = mq (fst rf) /\ mcons (fst rs) = mcons (fst rf).
Proof. exact InstBulkTerm.xml_bulk_chunked_obs_total. Qed.
Print Assumptions C08_xml_exact_errors_changes_only_errors_and_text_cuts_total.

(* the flat queue with unit runs in default mode, fuel discharged (Inst/InstTotalDefault.v) *)
From HV Require Inst.InstTotalDefault.
Theorem C08_exact_errors_flat_unit_runs_total :
  forall ent c1 sk fuel inject chunks (m : mach hstate (list N)) log,
  InstTermination.HtmlTI m ->
  (InstTermination.html_fuel (InstTermination.html_unread m + length (concat chunks) + length chunks * (50 * length inject)) <= fuel)%nat ->
  (4 <= fuel)%nat -> regular log ->
  let rf := drive_flat html_flavour false html_table html_simd ent c1 sk fuel inject chunks m log in
  exists k, forall j,
    let rs := drive_flat html_flavour true html_table html_simd ent c1 sk (k + j) inject chunks m log in
    snd rs = snd rf /\ obs (mout (fst rs)) = obs (mout (fst rf)) /\ ceq (mc (fst rs)) (mc (fst rf)) /\
    mq (fst rs) = mq (fst rf) /\ mcons (fst rs) = mcons (fst rf).
Proof. exact InstTotalDefault.html_bulk_flat_obs_total. Qed.
Print Assumptions C08_exact_errors_flat_unit_runs_total.
