(* C08 — diagnostic and housekeeping options never change what is parsed.  Statements only. *)
From Coq Require Import List NArith Bool.
From HV Require Import TokIR.IR TokIR.Interp TokIR.Checks Gen.GenHtmlTok Gen.GenXmlTok Inst.InstHtmlTok Inst.InstXmlTok.
Import ListNotations.

(* exact_errors switches every bulk read to the character-at-a-time path.  For every bulk state of the regenerated
   tables the two paths agree: the set contains every character the slow path treats specially, and the default
   FromSet arm is the per-character form of the NotFromSet arm (up to parse errors). *)
Theorem C08_html_bulk_sets_adequate : sets_adequate hstate_beq true html_table = [].
Proof. exact html_sets_adequate. Qed.
Print Assumptions C08_html_bulk_sets_adequate.

Theorem C08_xml_bulk_sets_adequate : sets_adequate xstate_beq false xml_table = [].
Proof. exact xml_sets_adequate. Qed.
Print Assumptions C08_xml_bulk_sets_adequate.

(* the SIMD fast path of the data state scans for the same characters as the scalar path *)
Theorem C08_simd_sets_consistent :
  simd_consistent (match html_step HData with BPop s _ _ _ => s | _ => [] end)
                  simd_first_guard simd_tail_stop simd_tail_newline simd_lane_stop simd_lane_newline = true.
Proof. exact simd_sets_consistent. Qed.
Print Assumptions C08_simd_sets_consistent.

(* what the check means for one arm: a character outside the set is handled like the default arm *)
Theorem C08_chain_ok_sound :
  forall (S : Type) (seqb : S -> S -> bool), (forall a b, seqb a b = true -> a = b) ->
  forall set dflt (b : body S) c,
  chain_ok seqb set dflt b = true -> in_set set c = false -> strip_err (resolve c b) = dflt.
Proof. exact @chain_ok_resolve. Qed.
Print Assumptions C08_chain_ok_sound.
