(* C11 — Tendrils behave as independent owned strings under every operation.
   Only statements, closed by [exact], and their assumptions.

   Model: Tendril/Heap.v + TModel.v (tendril.rs / buf32.rs / fmt.rs / futf.rs as they are).
   Specification: Tendril/TSpec.v, a pool of independent byte strings.
   [run_history n ops] executes a history of public operations on a pool of n
   slots from the empty heap; every step reports outcome, allocator events and
   (format, representation kind, len32, bytes) of every live tendril. *)
From Coq Require Import List NArith Bool.
From HV Require Import Base.Utf8 Tendril.Heap Tendril.TModel Tendril.TSpec Tendril.TUtf8 Tendril.TWtf8 Tendril.TInv
     Tendril.TPool Tendril.TExec Tendril.TProofs Tendril.TMore.
Import ListNotations.

(* All histories, all operations, all five formats: after every operation, the
   outcome (Ok / Err code / popped char / class) and the bytes of EVERY tendril
   of the pool are exactly those of the independent-strings specification,
   len32 is the length of those bytes, inline tendrils hold at most 8 bytes, and
   every tendril is valid in its format (UTF-8 tendrils decode strictly, WTF-8
   tendrils are generalised UTF-8 without a surrogate pair in 3+3 form).  The
   specification's WTF-8 validity and concatenation ([wtf8_spec], [sconcat]) are
   defined on their own, not through futf::classify.  A model history can only
   end early with the documented u32-overflow panic.
   (Until the repairs be977c4 and b017b27 in /repo this was provable only
   without WTF-8: the validator accepted stray continuation bytes and
   push_tendril's adjacent-slices shortcut skipped the surrogate fix-up.) *)
Theorem C11_refines_vec :
  forall npool ops,
  match_outs (fst (run_history npool ops)) (spec_run ops (repeat None npool)).
Proof. intros npool ops. rewrite <- abs_pool0. apply history_refines. Qed.
Print Assumptions C11_refines_vec.

(* Every observation of every history: len32 = number of bytes, inline <= 8
   bytes, and the bytes are valid in the tendril's format: a UTF-8 tendril
   always holds valid UTF-8, a WTF-8 tendril always holds WTF-8. *)
Theorem C11_utf8_valid :
  forall npool ops o, In o (fst (run_history npool ops)) ->
  match o with SOk _ _ snap => snap_ok snap | _ => True end.
Proof. exact history_snap_ok. Qed.
Print Assumptions C11_utf8_valid.

(* Copy on write: an operation changes only the slots it names; every other
   tendril keeps its bytes although it may share a buffer with a mutated one. *)
Theorem C11_mutation_is_local :
  forall o p s out p' s' ev j, PInv s p ->
  exec_op o p s = Ok ((out, p'), s', ev) -> ~ In j (targets o) ->
  sget (abs s' p') j = sget (abs s p) j.
Proof. exact exec_frame. Qed.
Print Assumptions C11_mutation_is_local.

(* One step, any state satisfying the invariant (heap invariant + validity):
   no undefined behaviour, no uncaught Err, invariant preserved, and the
   abstract pool moves exactly as the specification says. *)
Theorem C11_step :
  forall o p s, PInv s p ->
  match exec_op o p s with
  | Ok ((out, p'), s', ev) => step_post o s p (out, p') s' ev
  | Err _ => False
  | Panic _ => True
  | UB _ => False
  end.
Proof. exact exec_cases. Qed.
Print Assumptions C11_step.

(* Checked operations: the implementation decides validity of the RESULT of a
   slice / pop with futf::classify on its first and last byte only.  On any
   valid UTF-8 parent that is exact: Ok iff the resulting bytes are valid UTF-8
   (so an empty slice at a non-boundary offset is Ok). *)
Theorem C11_utf8_subseq_decides_validity :
  forall x off len, uvalid x = true ->
  vsubseq FUtf8 (firstn len (skipn off x)) = uvalid (firstn len (skipn off x)).
Proof. exact utf8_subseq_ok. Qed.
Print Assumptions C11_utf8_subseq_decides_validity.

Theorem C11_utf8_suffix_decides_validity :
  forall x n, uvalid x = true -> vsuffix FUtf8 (skipn n x) = uvalid (skipn n x).
Proof. exact utf8_suffix_ok. Qed.
Print Assumptions C11_utf8_suffix_decides_validity.

Theorem C11_utf8_prefix_decides_validity :
  forall x k, uvalid x = true -> vprefix FUtf8 (firstn k x) = uvalid (firstn k x).
Proof. exact utf8_prefix_ok. Qed.
Print Assumptions C11_utf8_prefix_decides_validity.

(* The same for WTF-8 (the code points may be surrogates; a lead surrogate is
   never directly followed by a trail surrogate) *)
Theorem C11_wtf8_subseq_decides_validity :
  forall x off len, wtf8_spec x = true ->
  vsubseq FWtf8 (firstn len (skipn off x)) = wtf8_spec (firstn len (skipn off x)).
Proof. exact wtf8_subseq_ok. Qed.
Print Assumptions C11_wtf8_subseq_decides_validity.

(* The implementation's fix-up of the junction is WTF-8 concatenation, and it
   keeps the result valid *)
Theorem C11_wtf8_concat :
  forall a b, wtf8_spec a = true -> wtf8_spec b = true ->
  pushed FWtf8 a b = sconcat FWtf8 a b /\ wtf8_spec (sconcat FWtf8 a b) = true.
Proof. intros a b Ha Hb. split; [apply wtf8_pushed_sconcat|apply wtf8_sconcat_valid]; assumption. Qed.
Print Assumptions C11_wtf8_concat.

(* Former known finding C11-wtf8-validate (WTF8::validate accepted a stray
   continuation byte after a complete sequence and skipped what followed):
   repaired in /repo, commit be977c4.  The validator now accepts exactly the
   WTF-8 of the specification; the old witnesses are rejected. *)
Theorem C11_wtf8_validate_exact :
  forall b, validate FWtf8 b = wtf8_spec b.
Proof. exact wtf8_validate_exact. Qed.
Print Assumptions C11_wtf8_validate_exact.

Theorem C11_wtf8_validate_witnesses :
  validate FWtf8 [0xC3; 0xA9; 0x80]%N = false /\
  validate FWtf8 [0xE2; 0xA9; 0x80; 0x82; 0xC0; 0x41]%N = false /\
  validate FWtf8 [0xED; 0xA0; 0x80; 0xED; 0xB0; 0x80]%N = false /\
  validate FWtf8 [0xED; 0xA0; 0x80]%N = true /\
  validate FWtf8 [0xED; 0xB0; 0x80; 0xED; 0xA0; 0x80]%N = true.
Proof. exact wtf8_validate_witnesses. Qed.
Print Assumptions C11_wtf8_validate_witnesses.

(* non-vacuity: "abcdefghi" (9 bytes, owned), clone it (both shared), push "xy"
   onto the clone (copy on write: the original keeps its bytes), slice
   "é" out of "aéb" at a char boundary and fail inside the char *)
Example C11_nonvacuous :
  let ops := [ONew 0 FUtf8 [97;98;99;100;101;102;103;104;105]%N; OClone 1 0; OPush 1 [120;121]%N;
              ONew 2 FUtf8 [97;195;169;98]%N; OSub false 3 2 1 2; OSub false 3 2 2 1]%N in
  map (fun o => match o with SOk r _ snap => Some (r, map (option_map (fun e => (snd (fst (fst e)), snd e))) snap) | _ => None end)
      (fst (run_history 4 ops)) =
  [Some (ROk, [Some (KOwned, [97;98;99;100;101;102;103;104;105]); None; None; None]);
   Some (ROk, [Some (KShared, [97;98;99;100;101;102;103;104;105]); Some (KShared, [97;98;99;100;101;102;103;104;105]); None; None]);
   Some (ROk, [Some (KShared, [97;98;99;100;101;102;103;104;105]); Some (KOwned, [97;98;99;100;101;102;103;104;105;120;121]); None; None]);
   Some (ROk, [Some (KShared, [97;98;99;100;101;102;103;104;105]); Some (KOwned, [97;98;99;100;101;102;103;104;105;120;121]); Some (KInline, [97;195;169;98]); None]);
   Some (ROk, [Some (KShared, [97;98;99;100;101;102;103;104;105]); Some (KOwned, [97;98;99;100;101;102;103;104;105;120;121]); Some (KInline, [97;195;169;98]); Some (KInline, [195;169])]);
   Some (RErr false 2, [Some (KShared, [97;98;99;100;101;102;103;104;105]); Some (KOwned, [97;98;99;100;101;102;103;104;105;120;121]); Some (KInline, [97;195;169;98]); Some (KInline, [195;169])])]%N.
Proof. vm_compute. reflexivity. Qed.

(* former known finding C11-wtf8-pusht-merge (repaired in /repo, commit b017b27):
   two adjacent shared slices of one buffer, the first ending in a lead surrogate,
   the second starting with a trail surrogate, reinterpreted as WTF-8 and joined
   with push_tendril: the pair becomes the 4-byte sequence F0 90 80 80 *)
Example C11_wtf8_adjacent_join :
  let a := [97;97;97;97;97;97;97;97;97;237;160;128]%N in
  let b := [237;176;128;98;98;98;98;98;98;98;98;98]%N in
  let ops := [ONew 0 FBytes (a ++ b); OSub false 1 0 0 12; OSub false 2 0 12 12;
              OReint 1 FWtf8; OReint 2 FWtf8; OPushT 1 2]%N in
  match last (fst (run_history 4 ops)) (SUB 0) with
  | SOk r _ snap => r = ROk /\ nth 1 snap None =
      Some (FWtf8, KOwned, 22%N, [97;97;97;97;97;97;97;97;97;240;144;128;128;98;98;98;98;98;98;98;98;98]%N)
  | _ => False
  end.
Proof. vm_compute. split; reflexivity. Qed.
