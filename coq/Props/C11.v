(* C11 — Tendrils behave as independent owned strings under every operation.
   Only statements, closed by [exact], and their assumptions.

   Model: Tendril/Heap.v + TModel.v (tendril.rs / buf32.rs / fmt.rs / futf.rs as they are).
   Specification: Tendril/TSpec.v, a pool of independent byte strings.
   [run_history n ops] executes a history of public operations on a pool of n
   slots from the empty heap; every step reports outcome, allocator events and
   (format, representation kind, len32, bytes) of every live tendril. *)
From Coq Require Import List NArith Bool.
From HV Require Import Base.Utf8 Tendril.Heap Tendril.TModel Tendril.TSpec Tendril.TUtf8 Tendril.TInv
     Tendril.TPool Tendril.TExec Tendril.TProofs Tendril.TMore.
Import ListNotations.

(* All histories over Bytes / UTF-8 / ASCII / Latin-1 tendrils (no operation
   introduces the WTF-8 format): after every operation, the outcome (Ok / Err
   code / popped char / class) and the bytes of EVERY tendril of the pool are
   exactly those of the independent-strings specification, len32 is the length
   of those bytes, inline tendrils hold at most 8 bytes, and every tendril is
   valid in its format (UTF-8 tendrils decode).  A model history can only end
   early with the documented u32-overflow panic. *)
Theorem C11_refines_vec :
  forall npool ops, forallb (fun o => negb (op_wtf8 o)) ops = true ->
  match_outs (fst (run_history npool ops)) (spec_run ops (repeat None npool)).
Proof.
  intros npool ops H. rewrite <- abs_pool0. apply history_refines.
  rewrite abs_pool0. apply nowtf8_no_corner; [apply nowtf8_repeat|exact H].
Qed.
Print Assumptions C11_refines_vec.

(* The same for histories that do use WTF-8, except that push_tendril onto a
   WTF-8 tendril is excluded (its adjacent-slices shortcut skips the surrogate
   fix-up, which is only right for valid WTF-8, and WTF-8 validity is refuted
   below).  WTF-8 tendrils are compared byte for byte, but their validity is
   not claimed and their checked operations use the implementation's own
   validators as the specification.  PARTIAL with respect to "all formats". *)
Theorem C11_refines_vec_wtf8_partial :
  forall npool ops, no_corner ops (repeat None npool) = true ->
  match_outs (fst (run_history npool ops)) (spec_run ops (repeat None npool)).
Proof. intros npool ops H. rewrite <- abs_pool0 in *. apply history_refines, H. Qed.
Print Assumptions C11_refines_vec_wtf8_partial.

(* Every observation of every history (any formats): len32 = number of bytes,
   inline <= 8 bytes, and the bytes are valid in the tendril's format for
   Bytes / UTF-8 / ASCII / Latin-1: a UTF-8 tendril always holds valid UTF-8. *)
Theorem C11_utf8_valid :
  forall npool ops o, In o (fst (run_history npool ops)) ->
  match o with SOk _ _ snap => snap_ok snap | _ => True end.
Proof. exact history_snap_ok. Qed.
Print Assumptions C11_utf8_valid.

(* Copy on write: an operation changes only the slots it names; every other
   tendril keeps its bytes although it may share a buffer with a mutated one. *)
Theorem C11_mutation_is_local :
  forall o p s out p' s' ev j, PInv s p -> wtf8_corner o p = false ->
  exec_op o p s = Ok ((out, p'), s', ev) -> ~ In j (targets o) ->
  sget (abs s' p') j = sget (abs s p) j.
Proof. exact exec_frame. Qed.
Print Assumptions C11_mutation_is_local.

(* One step, any state satisfying the invariant (heap invariant + validity):
   no undefined behaviour, no uncaught Err, invariant preserved, and the
   abstract pool moves exactly as the specification says. *)
Theorem C11_step :
  forall o p s, PInv s p ->
  match exec_op o p s with
  | Ok ((out, p'), s', ev) => step_post o s p (out, p') s' ev
  | Err _ => False
  | Panic _ => True
  | UB _ => False
  end.
Proof. exact exec_cases. Qed.
Print Assumptions C11_step.

(* Checked operations: the implementation decides validity of the RESULT of a
   slice / pop with futf::classify on its first and last byte only.  On any
   valid UTF-8 parent that is exact: Ok iff the resulting bytes are valid UTF-8
   (so an empty slice at a non-boundary offset is Ok). *)
Theorem C11_utf8_subseq_decides_validity :
  forall x off len, uvalid x = true ->
  vsubseq FUtf8 (firstn len (skipn off x)) = uvalid (firstn len (skipn off x)).
Proof. exact utf8_subseq_ok. Qed.
Print Assumptions C11_utf8_subseq_decides_validity.

Theorem C11_utf8_suffix_decides_validity :
  forall x n, uvalid x = true -> vsuffix FUtf8 (skipn n x) = uvalid (skipn n x).
Proof. exact utf8_suffix_ok. Qed.
Print Assumptions C11_utf8_suffix_decides_validity.

Theorem C11_utf8_prefix_decides_validity :
  forall x k, uvalid x = true -> vprefix FUtf8 (firstn k x) = uvalid (firstn k x).
Proof. exact utf8_prefix_ok. Qed.
Print Assumptions C11_utf8_prefix_decides_validity.

(* Known finding C11-wtf8-validate: the WTF-8 validator (fmt.rs WTF8::validate
   over futf::classify) accepts a stray continuation byte after a complete
   sequence, so try_from_byte_slice / try_push_bytes / try_reinterpret build a
   WTF-8 tendril that is not WTF-8. *)
Theorem C11_wtf8_validate_refuted :
  exists b, validate FWtf8 b = true /\ wtf8_spec b = false.
Proof. exact wtf8_validate_refuted. Qed.
Print Assumptions C11_wtf8_validate_refuted.

(* non-vacuity: "abcdefghi" (9 bytes, owned), clone it (both shared), push "xy"
   onto the clone (copy on write: the original keeps its bytes), slice
   "é" out of "aéb" at a char boundary and fail inside the char *)
Example C11_nonvacuous :
  let ops := [ONew 0 FUtf8 [97;98;99;100;101;102;103;104;105]%N; OClone 1 0; OPush 1 [120;121]%N;
              ONew 2 FUtf8 [97;195;169;98]%N; OSub false 3 2 1 2; OSub false 3 2 2 1]%N in
  forallb (fun o => negb (op_wtf8 o)) ops = true /\
  map (fun o => match o with SOk r _ snap => Some (r, map (option_map (fun e => (snd (fst (fst e)), snd e))) snap) | _ => None end)
      (fst (run_history 4 ops)) =
  [Some (ROk, [Some (KOwned, [97;98;99;100;101;102;103;104;105]); None; None; None]);
   Some (ROk, [Some (KShared, [97;98;99;100;101;102;103;104;105]); Some (KShared, [97;98;99;100;101;102;103;104;105]); None; None]);
   Some (ROk, [Some (KShared, [97;98;99;100;101;102;103;104;105]); Some (KOwned, [97;98;99;100;101;102;103;104;105;120;121]); None; None]);
   Some (ROk, [Some (KShared, [97;98;99;100;101;102;103;104;105]); Some (KOwned, [97;98;99;100;101;102;103;104;105;120;121]); Some (KInline, [97;195;169;98]); None]);
   Some (ROk, [Some (KShared, [97;98;99;100;101;102;103;104;105]); Some (KOwned, [97;98;99;100;101;102;103;104;105;120;121]); Some (KInline, [97;195;169;98]); Some (KInline, [195;169])]);
   Some (RErr false 2, [Some (KShared, [97;98;99;100;101;102;103;104;105]); Some (KOwned, [97;98;99;100;101;102;103;104;105;120;121]); Some (KInline, [97;195;169;98]); Some (KInline, [195;169])])]%N.
Proof. split; vm_compute; reflexivity. Qed.
