(* C02 - HTML tree construction equals the WHATWG tree-construction algorithm.
   Property theorems over the tree-builder model coq/Tree/TreeModel*.v (tied to
   html5ever by the correspondence run of lib/checks/c02.py: same sequence of
   TreeSink calls, token by token).  Only statements + `exact`; proofs live in
   coq/Tree/TreeInv*.v and coq/Inst/InstTreeTables.v. *)
From Coq Require Import List NArith Bool Arith String.
From HV Require Import Dom.DomSpec Tree.TreeTypes Tree.TreeTables Tree.TreeModelHelpers Tree.TreeModelRules
  Tree.TreeModel Tree.TreeHoare Tree.TreeInvBasic Tree.TreeInvDefs Tree.TreeInvPrims Tree.TreeInvRules
  Tree.TreeInvModes Tree.TreeInvMain Tree.TreeTableTies.
From HV Require Gen.GenTagSets Gen.GenDispatch Gen.GenQuirks Inst.InstTreeTables.
Import ListNotations.

(* ------------------------------------------------------------------ dispatch *)
(* The dispatch of every insertion mode is total and aligned with its arm bodies:
   the model never falls off a dispatch table (Panic site 90 is unreachable). *)
Theorem C02_dispatch_total_in_body : total_heads heads_in_body.
Proof. exact total_in_body. Qed.
Print Assumptions C02_dispatch_total_in_body.

Theorem C02_dispatch_first_match :
  forall heads t k, first_match heads t = k -> k < length heads ->
    head_matches t (nth k heads []) = true /\ forall j, j < k -> head_matches t (nth j heads []) = false.
Proof. exact first_match_sound. Qed.
Print Assumptions C02_dispatch_first_match.

(* ------------------------------------------------------------------ the model's tables are the regenerated ones *)
Theorem C02_heads_are_generated :
  heads_in_body = conv_arms GenDispatch.arms_InBody /\ heads_in_table = conv_arms GenDispatch.arms_InTable /\
  heads_foreign = conv_arms GenDispatch.arms_Foreign.
Proof.
  exact (conj (proj1 (proj2 (proj2 (proj2 (proj2 (proj2 (proj2 dispatch_heads_are_generated)))))))
        (conj (proj1 (proj2 (proj2 (proj2 (proj2 (proj2 (proj2 (proj2 (proj2 dispatch_heads_are_generated)))))))))
              (proj2 (proj2 (proj2 (proj2 (proj2 (proj2 (proj2 (proj2 (proj2 (proj2 (proj2 (proj2 (proj2 (proj2 (proj2 (proj2
                 (proj2 (proj2 (proj2 (proj2 (proj2 dispatch_heads_are_generated))))))))))))))))))))))).
Qed.
Print Assumptions C02_heads_are_generated.

Theorem C02_special_is_generated : special_tag = conv_set GenTagSets.ts_special_tag.
Proof. exact (proj1 tag_sets_are_generated). Qed.
Print Assumptions C02_special_is_generated.

(* ... and the regenerated tables are the WHATWG ones outside the recorded findings (c02tables' half) *)
Theorem C02_special_is_whatwg_except :
  forall n, InstTreeTables.emem n (HV.TreeTables.Deviations.special_extra ++ HV.TreeTables.Deviations.special_missing) = false ->
    InstTreeTables.emem n GenTagSets.ts_special_tag = InstTreeTables.emem n HV.TreeTables.WhatwgLists.whatwg_special.
Proof. exact InstTreeTables.special_tag_is_whatwg_except. Qed.
Print Assumptions C02_special_is_whatwg_except.

(* ------------------------------------------------------------------ invariant and Panic sites *)
(* Every insertion mode: one step from a state satisfying the invariant, the shape assumption and the
   tokenizer protocol reaches no Panic site and re-establishes the invariant (for a Reprocess result, after
   the switch to the new mode), passes the token on unchanged when it is reprocessed, and a character token
   only produces Done / SplitWhitespace / Reprocess. *)
Theorem C02_step_ok :
  forall s t, TInv s -> Hshape s -> tok_ok s t -> scalar_tok t -> wp (step (mode s) t) (step_post t) s.
Proof. exact step_ok. Qed.
Print Assumptions C02_step_ok.

Theorem C02_process_token_ok :
  forall s tk line, TInv s -> token_ok s tk -> scalar_token tk ->
    match process_token tk line s with
    | Ok _ s' => TInv s'
    | Panic n => n = 99%N
    | OutOfFuel => True
    end.
Proof. exact process_token_ok. Qed.
Print Assumptions C02_process_token_ok.

(* tree_no_panic_partial (see the comment at TreeInvMain.tree_no_panic_partial for the full statement wanted
   and for what is left: the ghost assertion 99 and the fuel of the Reprocess loop) *)
Theorem C02_tree_no_panic_partial :
  forall o toks, protocol (init_state o) toks ->
    match run_tokens (init_state o) toks [] with
    | RunOk s' _ => TInv s'
    | RunPanic n => n = 99%N
    | RunFuel => True
    end.
Proof. exact tree_no_panic_document_partial. Qed.
Print Assumptions C02_tree_no_panic_partial.

(* non-vacuity: a run through Initial .. InBody, Text, the table modes and foreign content satisfies the
   hypotheses and is RunOk; without the protocol a Panic site is reached *)
Theorem C02_example_protocol : protocol (init_state ex_opts) ex_tokens.
Proof. exact ex_protocol. Qed.
Print Assumptions C02_example_protocol.
Theorem C02_example_run :
  match run_tokens (init_state ex_opts) ex_tokens [] with RunOk s' _ => TInv s' | _ => False end.
Proof. exact ex_no_panic. Qed.
Print Assumptions C02_example_run.

Theorem C02_protocol_needed :
  run_tokens (init_state ex_opts)
    [ (TTag StartTag (nm "title") false [] false, 1%N); (TTag StartTag (nm "b") false [] false, 1%N) ] [] = RunPanic 42%N.
Proof. exact ex_protocol_needed. Qed.
Print Assumptions C02_protocol_needed.

(* ------------------------------------------------------------------ handles (C18) *)
Theorem C02_handles_traced :
  forall s h, In h (trace s) <->
    h = 0 \/ In h (open_elems s) \/ (exists t, In (FElem h t) (active_formatting s)) \/
    head_elem s = Some h \/ form_elem s = Some h \/ context_elem s = Some h.
Proof. exact handles_traced. Qed.
Print Assumptions C02_handles_traced.

(* every traced handle is the Document or an element the sink created *)
Theorem C02_traced_handles_known : forall s, TInv s -> forall h, In h (trace s) -> h = 0 \/ known s h.
Proof. exact traced_handles_known. Qed.
Print Assumptions C02_traced_handles_known.

(* ------------------------------------------------------------------ fragments *)
Theorem C02_tree_no_panic_fragment_partial :
  forall o name attrs with_form toks,
    match init_fragment name attrs with_form (init_state o) with
    | Ok _ s0 =>
      protocol s0 toks ->
      match run_tokens s0 toks [] with
      | RunOk s' _ => TInv s'
      | RunPanic n => n = 99%N
      | RunFuel => True
      end
    | _ => False
    end.
Proof. exact tree_no_panic_fragment_partial. Qed.
Print Assumptions C02_tree_no_panic_fragment_partial.

(* ------------------------------------------------------------------ skeleton facts carried by the invariant (C06) *)
Theorem C02_stack_bottom_is_html :
  forall s, TInv s -> early_mode (mode s) = false ->
    exists r rest, open_elems s = r :: rest /\ ename_of s r = html_html.
Proof. exact stack_bottom_is_html. Qed.
Print Assumptions C02_stack_bottom_is_html.

Theorem C02_pointers_named :
  forall s, TInv s ->
    (forall h, head_elem s = Some h -> ename_of s h = (ns_html, nm "head")) /\
    (forall f, form_elem s = Some f -> ename_of s f = (ns_html, nm "form")).
Proof. exact pointers_named. Qed.
Print Assumptions C02_pointers_named.

(* ------------------------------------------------------------------ refinements of helpers *)
Theorem C02_in_scope_spec :
  forall s scope pred l,
    in_scope_l s scope pred l = true <->
    exists pre x post, l = pre ++ x :: post /\ pred x = true /\
      Forall (fun y => pred y = false /\ scope (ename_of s y) = false) pre.
Proof. exact in_scope_l_spec. Qed.
Print Assumptions C02_in_scope_spec.

Theorem C02_implied_end_tags_spec :
  forall s set l p q, implied_split s set l = (p, q) ->
    l = p ++ q /\ Forall (fun h => set (ename_of s h) = true) p /\
    match q with [] => True | h :: _ => set (ename_of s h) = false end.
Proof. exact implied_split_spec. Qed.
Print Assumptions C02_implied_end_tags_spec.

(* ------------------------------------------------------------------ fuel *)
(* One iteration of the Reprocess loop never runs out of fuel (the fuel of the in-body / in-head / in-template knot and
   of the meta extraction is proved sufficient); it answers, or stops at the ghost assertion 99, and keeps the loop
   invariant.  So the OutOfFuel tolerated by C02_tree_no_panic_partial can only be the counter of ptc_loop. *)
From HV Require Tree.TreeFuel.
Theorem C02_iteration_never_out_of_fuel :
  forall t0 s t more, TreeInvMain.LI t0 s t more ->
    match ptc_iter t more s with
    | Ok r s' => TreeInvMain.iter_post t0 r s'
    | Panic n => n = 99%N
    | OutOfFuel => False
    end.
Proof. exact TreeFuel.ptc_iter_never_out_of_fuel. Qed.
Print Assumptions C02_iteration_never_out_of_fuel.

(* C02_process_token_never_out_of_fuel is NOT proved.  What is proved is the reduction: the loop never runs out of
   fuel as soon as SOME measure on its configurations drops at every iteration that continues it and the fuel exceeds
   the measure of the first configuration.  The header of coq/Tree/TreeFuel.v records the measure that was worked out
   for the 25 Reprocess sites (token-class dependent rank + number of open table elements + template modes), why no
   simpler one exists, and what in the chain has to change to prove it. *)
Theorem C02_never_out_of_fuel_given_measure_partial :
  forall t0 Meas, TreeFuel.decreasing t0 Meas ->
    forall fuel s t more, TreeInvMain.LI t0 s t more -> Meas s t more < fuel ->
      match ptc_loop fuel t more s with
      | Ok res s' => TreeInvMain.res_post t0 res s'
      | Panic n => n = 99%N
      | OutOfFuel => False
      end.
Proof. exact TreeFuel.loop_never_out_of_fuel_given_measure. Qed.
Print Assumptions C02_never_out_of_fuel_given_measure_partial.

(* the loop fuel of the model is irrelevant once the loop answers (coq/Tree/TreeLoop.v): two runs of the Reprocess loop
   with different fuel that both answer (Ok or Panic) give the same answer and the same state; html5ever's loop has no
   fuel.  (That the loop always answers - termination - is the open part, see C02_never_out_of_fuel_given_measure_partial.) *)
From HV Require Tree.TreeLoop.
Theorem C02_loop_answer_fuel_independent :
  forall f1 f2 t more s,
    TreeModel.ptc_loop f1 t more s <> TreeTypes.OutOfFuel -> TreeModel.ptc_loop f2 t more s <> TreeTypes.OutOfFuel ->
    TreeModel.ptc_loop f1 t more s = TreeModel.ptc_loop f2 t more s.
Proof. exact TreeLoop.loop_answer_fuel_independent. Qed.
Print Assumptions C02_loop_answer_fuel_independent.
