(* C02 - HTML tree construction equals the WHATWG tree-construction algorithm.
   Property theorems over the tree-builder model coq/Tree/TreeModel*.v (tied to
   html5ever by the correspondence run of lib/checks/c02.py).  Only statements
   + `exact`; proofs live in coq/Tree/TreeInv*.v. *)
From Coq Require Import List NArith Bool Arith.
From HV Require Import Dom.DomSpec Tree.TreeTypes Tree.TreeTables Tree.TreeModelHelpers Tree.TreeModelRules
  Tree.TreeModel Tree.TreeInvBasic.
Import ListNotations.

(* The dispatch of every insertion mode is total and aligned with its arm bodies:
   the model never falls off a dispatch table (Panic site 90 is unreachable). *)
Theorem C02_dispatch_total_in_body : total_heads heads_in_body.
Proof. exact total_in_body. Qed.
Print Assumptions C02_dispatch_total_in_body.

Theorem C02_dispatch_first_match :
  forall heads t k, first_match heads t = k -> k < length heads ->
    head_matches t (nth k heads []) = true /\ forall j, j < k -> head_matches t (nth j heads []) = false.
Proof. exact first_match_sound. Qed.
Print Assumptions C02_dispatch_first_match.
