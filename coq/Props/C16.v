(* C16 - XML namespaces resolve by lexical scope and lose no attribute.
   Only statements, closed by [exact], and their assumptions.
   Model: XmlNs/XTreeModel.v (tree builder at token level + finish_attribute +
   QualNameTokenizer); independent specification: XmlNs/XTreeSpec.v. *)
From Coq Require Import List NArith Bool Permutation.
From HV Require Import XmlNs.XTreeModel XmlNs.XTreeSpec XmlNs.XTreeProofs.
Import ListNotations.

(* the tokenizer's QualNameTokenizer state machine is the declarative split:
   exactly one colon, neither first nor last *)
Theorem C16_qname_split :
  forall s, process_qname s = mkq (fst (spec_split s)) [] (snd (spec_split s)).
Proof. exact process_qname_spec. Qed.
Print Assumptions C16_qname_split.

(* namespace_stack = default :: one map per open element (the map made from
   that element's own tag), current_namespace is empty between tokens, and no
   expect()/unwrap() of the builder fires - for every token stream, as long as
   elements can still be created (phases Start and Main) *)
Theorem C16_stack_invariant :
  forall rts, let s := run (map tokenize rts) in
  tpanic s = false /\
  (tphase s <> PEnd ->
   tcur s = [] /\ tnss s = map (fun f => dmap (snd (fsrc f))) (topen s) ++ [nm_default]).
Proof. exact stack_invariant. Qed.
Print Assumptions C16_stack_invariant.

(* lexical scope, for EVERY token stream (no side condition): the name and
   the attributes of every element of the resulting tree are a function of the
   element's own tag and the tags of its ancestors in the resulting tree -
   never of siblings, descendants, preceding or following content, tag kind or
   the error recovery that closed other elements *)
Theorem C16_lexical_scope :
  forall rts, Forall (all_elems elem_lex []) (parse_raw rts).
Proof. exact lexical_scope. Qed.
Print Assumptions C16_lexical_scope.

(* C16_scope, full strength (no side condition; the three finding classes of
   the first round - raw-vs-local duplicate test, p:xmlns, duplicate
   declarations - are repaired in /repo by df982ff and 8f1ed74 and the model
   mirrors the repaired code): for EVERY token stream every element carries
   resolve(prefix, declarations of its own tag :: declarations of its ancestors
   in the resulting tree) - the default namespace for unprefixed elements, xml
   and xmlns fixed, an empty declaration un-binds, the first of duplicate
   declarations counts *)
Theorem C16_scope :
  forall rts, Forall (all_elems name_scoped []) (parse_raw rts).
Proof. exact scope_all. Qed.
Print Assumptions C16_scope.

(* C16_attrs, full strength: for EVERY token stream the attributes of every
   element are the first-wins de-duplication by expanded name of the
   non-declaration attributes of its tag (p:xmlns included), unprefixed ones in
   no namespace, prefixed ones resolved like element prefixes *)
Theorem C16_attrs :
  forall rts, Forall (all_elems attrs_scoped []) (parse_raw rts).
Proof. exact attrs_all. Qed.
Print Assumptions C16_attrs.

(* the rule does not depend on the order of the attributes: permuting a tag's
   attributes leaves the set of surviving expanded names unchanged *)
Theorem C16_attrs_order_independent :
  forall scopes raws raws', Permutation raws raws' ->
  forall k, In k (map akey (spec_attrs scopes raws)) <-> In k (map akey (spec_attrs scopes raws')).
Proof. exact spec_attrs_order_independent. Qed.
Print Assumptions C16_attrs_order_independent.

(* the map a tag pushes is exactly what the tag declares - for every tag *)
Theorem C16_tag_map_is_its_declarations :
  forall raws k, nm_get (dmap raws) k = tag_binding k raws.
Proof. exact dmap_binding. Qed.
Print Assumptions C16_tag_map_is_its_declarations.

(* the witnesses of the repaired findings now give the trees the property asks for *)
Theorem C16_former_witnesses_repaired :
  map erase (parse_raw w8) =
    [XElem (mkq None [] [97]) [mka (mkq (Some [112]) [] [120]) [49]; mka (mkq None [] [120]) [50]] []]%N /\
  map erase (parse_raw w9) =
    [XElem (mkq None [] [97]) [mka (mkq (Some [112]) [] [120;109;108;110;115]) [118]; mka (mkq None [] [121]) [49]] []]%N /\
  map erase (parse_raw wdup) =
    [XElem (mkq None [] [97]) [] [XElem (mkq (Some [112]) [117] [98]) [] []]]%N.
Proof. exact former_witnesses. Qed.
Print Assumptions C16_former_witnesses_repaired.

(* non-vacuity: <r xmlns="d" xmlns:p="u"><p:a p:x="1" y="2" xmlns:p="v"/><b xmlns=""/></r>
   : the tree carries d, v (shadowing), no namespace for the unprefixed
   attribute, and the un-declared default *)
Definition ex_doc : list rtoken :=
  [RTag StartTag [114] [([120;109;108;110;115], [100]); ([120;109;108;110;115;58;112], [117])];
   RTag EmptyTag [112;58;97] [([112;58;120], [49]); ([121], [50]); ([120;109;108;110;115;58;112], [118])];
   RTag EmptyTag [98] [([120;109;108;110;115], [])];
   RTag EndTag [114] []; REof]%N.

Example C16_nonvacuous :
  map erase (parse_raw ex_doc) =
  [XElem (mkq None [100] [114]) []
     [XElem (mkq (Some [112]) [118] [97])
            [mka (mkq (Some [112]) [118] [120]) [49]; mka (mkq None [] [121]) [50]] [];
      XElem (mkq None [] [98]) [] []]]%N.
Proof. vm_compute. reflexivity. Qed.
