(* C10 — Byte-stream front ends decode exactly like a whole-input lossy decode.
   Only statements, closed by [exact], and their assumptions. *)
From Coq Require Import List NArith Bool.
From HV Require Import Base.Utf8 Decode.Utf8Check Decode.Utf8CheckProofs
  Decode.Utf8DecModel Decode.Utf8DecSpec Decode.Utf8DecProofs
  Decode.EncLoop Decode.EncLoopProofs.
Import ListNotations.

(* UTF-8 half, full strength: for EVERY list of chunks (any byte strings, any
   split positions, empty chunks included) the model of
   Utf8LossyDecoder::{new, process*, finish} does not panic; the text it hands
   to the inner sink is the lossy decode of the concatenation (one U+FFFD per
   maximal ill-formed subsequence); it inserts exactly as many U+FFFD as the
   one-shot decode; it calls error() exactly once per U+FFFD, immediately
   before it; every text piece is non-empty valid UTF-8. *)
Theorem C10_utf8_stream :
  forall chunks, exists evs,
    run chunks = Done evs /\
    text evs = lossy (concat chunks) /\
    n_repl evs = lossy_replacements (concat chunks) /\
    n_err evs = n_repl evs /\
    well_formed_events evs.
Proof. exact utf8_stream. Qed.
Print Assumptions C10_utf8_stream.

Theorem C10_utf8_no_panic : forall chunks, run chunks <> Panic.
Proof. exact utf8_stream_no_panic. Qed.
Print Assumptions C10_utf8_no_panic.

(* the invariant behind it: after any number of chunks the carried
   IncompleteUtf8 buffer is a non-empty proper prefix of a well-formed sequence
   (validation runs off its end), it is a suffix of the bytes consumed so far,
   and everything before it is decoded for good *)
Theorem C10_utf8_state_invariant :
  forall chunks st, inv st ->
  exists st' y is,
    state_after st chunks = Done st' /\ inv st' /\
    pend st ++ concat chunks = y ++ pend st' /\
    forall z, lossy_items (pend st ++ concat chunks ++ z) = is ++ lossy_items (pend st' ++ z).
Proof. exact utf8_state_invariant. Qed.
Print Assumptions C10_utf8_state_invariant.

(* ... and no longer suffix of the consumed bytes is such a prefix *)
Theorem C10_carried_buffer_maximal :
  forall q p, incp p -> incp (q ++ p) -> q = [].
Proof. exact carried_buffer_maximal. Qed.
Print Assumptions C10_carried_buffer_maximal.

(* the second public streaming API (Tendril::decode_utf8_lossy +
   IncompleteUtf8::try_complete) delivers the same text, without error() *)
Theorem C10_utf8_api_stream :
  forall chunks, exists evs,
    api_run chunks = Done evs /\
    text evs = lossy (concat chunks) /\
    n_repl evs = lossy_replacements (concat chunks) /\
    n_err evs = 0%nat.
Proof. exact utf8_api_stream. Qed.
Print Assumptions C10_utf8_api_stream.

(* the specification is what it should be: identity on valid UTF-8, always
   valid UTF-8; and the from_utf8 model accepts exactly valid UTF-8 *)
Theorem C10_lossy_spec_sane :
  (forall cs, scalars cs -> lossy (encs cs) = encs cs /\ lossy_replacements (encs cs) = 0%nat) /\
  (forall bs, valid_utf8 (lossy bs)) /\
  (forall bs, check bs = COk <-> valid_utf8 bs).
Proof.
  split; [exact lossy_valid_id|]. split; [exact lossy_is_valid|exact check_ok_iff_valid].
Qed.
Print Assumptions C10_lossy_spec_sane.

(* the byte-range table the specification uses for "maximal ill-formed
   subsequence" is not an extra assumption: a byte string is accepted by it iff
   it is a non-empty initial subsequence of the encoding of a scalar value *)
Theorem C10_spec_prefix_table_is_enc :
  forall p, wf_prefix p = true <->
            p <> [] /\ exists c s, is_scalar c = true /\ enc c = p ++ s.
Proof. exact wf_prefix_iff. Qed.
Print Assumptions C10_spec_prefix_table_is_enc.

(* Parser::from_utf8(): for any inner sink whose observable result does not
   depend on how its text input is cut into pieces (property C03, here a
   premise) nor on error() reports, the result is that of the lossy string *)
Theorem C10_parser_from_utf8_modulo_C03 :
  forall (pstate : Type) (feed : pstate -> list N -> pstate) (report : pstate -> bool -> pstate),
    (forall s, feed s [] = s) ->
    (forall s a b, feed (feed s a) b = feed s (a ++ b)) ->
    forall (observe : pstate -> list N),
    (forall s e, observe (report s e) = observe s) ->
    (forall s s' a, observe s = observe s' -> observe (feed s a) = observe (feed s' a)) ->
    forall chunks s0, exists evs,
      run chunks = Done evs /\
      observe (fold_left (deliver1 pstate feed report) evs s0) =
      observe (feed s0 (lossy (concat chunks))).
Proof. exact from_utf8_modulo_chunking. Qed.
Print Assumptions C10_parser_from_utf8_modulo_C03.

(* encoding_rs half (PARTIAL: the decoders are an external crate, represented
   by their documented contract).  For every decoder satisfying the contract
   of decode_to_utf8_without_replacement, and OUTSIDE the finding below,
   LossyDecoder delivers the one-shot decode of the concatenation. *)
Theorem C10_encoding_loop_outside_finding_partial :
  forall (dstate : Type) dec maxlen sem mu fuel_of,
    (forall s i, (mu s i < fuel_of s i)%nat) ->
    contract dstate dec sem mu ->
    no_pending_after_final_malformed dstate dec sem ->
    forall chunks s,
    exists evs, enc_run dstate dec maxlen fuel_of s chunks = Done evs /\
                text evs = text (sem s (concat chunks)) /\
                n_err evs = n_err (sem s (concat chunks)) /\
                n_repl evs = n_repl (sem s (concat chunks)).
Proof. exact enc_loop_outside_finding. Qed.
Print Assumptions C10_encoding_loop_outside_finding_partial.

(* the minimal repair - at end of stream keep calling until InputEmpty - is
   correct under the contract alone *)
Theorem C10_encoding_loop_repaired_partial :
  forall (dstate : Type) dec maxlen sem mu fuel_of,
    (forall s i, (mu s i < fuel_of s i)%nat) ->
    contract dstate dec sem mu ->
    forall chunks s,
    exists evs, enc_run_repaired dstate dec maxlen fuel_of s chunks = Done evs /\
                text evs = text (sem s (concat chunks)) /\
                n_err evs = n_err (sem s (concat chunks)) /\
                n_repl evs = n_repl (sem s (concat chunks)).
Proof. exact enc_loop_repaired_correct. Qed.
Print Assumptions C10_encoding_loop_repaired_partial.

(* mid-stream chunks are handled correctly under the contract alone *)
Theorem C10_encoding_loop_stream_chunk_partial :
  forall (dstate : Type) dec maxlen sem mu,
    contract dstate dec sem mu ->
    forall fuel s input, (mu s input < fuel)%nat ->
    exists s' evs, decode_to_sink dstate dec maxlen fuel s input false = Done (s', evs) /\
      forall y, equiv (sem s (input ++ y)) (evs ++ sem s' y).
Proof. exact enc_loop_stream_chunk. Qed.
Print Assumptions C10_encoding_loop_stream_chunk_partial.

(* the finding: a decoder that satisfies the contract (it has ISO-2022-JP's
   handling of a broken escape sequence) on the input 1B 28: one-shot gives
   U+FFFD "(", decode_to_sink returns after the Malformed result because its
   input is empty and never collects the pending "(" *)
Theorem C10_encoding_loop_refuted :
  contract tstate toy_dec toy_sem toy_mu /\
  exists evs, toy_run [[0x1B; 0x28]%N] = Done evs /\
              text evs = repl_bytes /\
              text (toy_sem TA (concat [[0x1B; 0x28]%N])) = repl_bytes ++ [0x28%N] /\
              ~ equiv evs (toy_sem TA (concat [[0x1B; 0x28]%N])).
Proof. exact enc_loop_refuted. Qed.
Print Assumptions C10_encoding_loop_refuted.

(* non-vacuity: E2 82 | AC 41 F0 9F | (end) - a euro sign split after two
   bytes, an 'A', a truncated four-byte sequence *)
Example C10_nonvacuous :
  run [[0xE2; 0x82]; [0xAC; 0x41; 0xF0; 0x9F]]%N =
    Done [Str [0xE2; 0x82; 0xAC; 0x41]; Error true; Replacement]%N /\
  lossy [0xE2; 0x82; 0xAC; 0x41; 0xF0; 0x9F]%N = [0xE2; 0x82; 0xAC; 0x41; 0xEF; 0xBF; 0xBD]%N /\
  check [0xE2; 0x82; 0xAC; 0x41; 0xF0; 0x9F]%N = CErr 4 None /\
  check [0xED; 0xA0; 0x80]%N = CErr 0 (Some 1%nat).
Proof. vm_compute. repeat split. Qed.

(* ------------------------------------------------------------------------------------------------
   Parser::from_utf8() down to the tokenizer, with C03 DISCHARGED at the level where it is proved
   (coq/Decode/DecodeParse.v).  For every list of byte chunks: the html tokenizer interpreter on the
   table regenerated from html5ever/src/tokenizer/mod.rs, fed the character chunks the decoder model
   delivers for those byte chunks (one chunk per StrTendril handed to the parser: the decoded Str pieces
   and one [U+FFFD] per replacement; the decoder never hands over an empty piece, so a process() call
   that decodes to nothing feeds nothing and the chunk list has no empty entry), reaches the SAME final
   machine - tokens with parse errors and line numbers, configuration, unread input - and the same
   answer of end() as fed the single chunk from_utf8_lossy(concatenated bytes) (no chunk at all when
   the input is empty).  [map encs (delivered_chunks evs) = pieces evs] is the bytes <-> code points
   bridge: the character chunks re-encode to exactly the delivered byte pieces.
   _partial, what is left: (a) the tree-builder half (the statement stops at the token stream);
   (b) the interpreter is tied to the Rust tokenizer by differential runs (./check C03), not by proof;
   (c) the C03 _total theorems start from discard_bom = false; (d) an explicit fuel bound; with
   script pauses also the driver model's limit of 50 pauses per chunk (SPanic 96). *)
From HV Require Import TokIR.IR TokIR.Interp TokIR.Chunk TokIR.ChunkExec TokIR.BulkSim Gen.GenHtmlTok.
From HV Require Inst.InstNoPanic Inst.InstTermination Inst.InstBulk Inst.InstBulkTerm.
From HV Require Import Decode.DecodeParse.

(* the decoder's side: the chunk list the tokenizer sees, for every byte chunking *)
Theorem C10_delivered_character_chunks :
  forall chunks, exists evs, Utf8DecModel.run chunks = Utf8DecModel.Done evs /\
    all_nonempty (delivered_chunks evs) /\
    map encs (delivered_chunks evs) = pieces evs /\
    concat (delivered_chunks evs) = lossy_chars (concat chunks) /\
    concat (whole_chunks (concat chunks)) = lossy_chars (concat chunks) /\
    all_nonempty (whole_chunks (concat chunks)) /\
    (concat chunks = [] -> evs = [] /\ whole_chunks (concat chunks) = []) /\
    (concat chunks <> [] -> delivered_chunks evs <> [] /\ whole_chunks (concat chunks) <> []).
Proof. exact delivered_chunks_spec. Qed.
Print Assumptions C10_delivered_character_chunks.

(* reference semantics, sink without script / encoding pauses: only the fuel bound is left *)
Theorem C10_tokenizer_from_utf8_partial :
  forall simd ent c1 sk,
  InstNoPanic.html_sink_ok sk = true -> InstNoPanic.html_sink_never_pauses sk = true ->
  forall fuel inj s0 last chunks,
  InstNoPanic.html_kind_ok s0 = true ->
  (InstTermination.html_fuel (length (lossy_chars (concat chunks))) <= fuel)%nat -> (4 <= fuel)%nat ->
  exists evs, Utf8DecModel.run chunks = Utf8DecModel.Done evs /\
    all_nonempty (delivered_chunks evs) /\ map encs (delivered_chunks evs) = pieces evs /\
    let d1 := drive_flat html_flavour true html_table simd ent c1 sk fuel inj
                         (delivered_chunks evs) (fresh_flat s0 last) [] in
    let d2 := drive_flat html_flavour true html_table simd ent c1 sk fuel inj
                         (whole_chunks (concat chunks)) (fresh_flat s0 last) [] in
    fst d1 = fst d2 /\ hd SSuspend (snd d1) = hd SSuspend (snd d2).
Proof. exact tokenizer_from_utf8_no_pauses. Qed.
Print Assumptions C10_tokenizer_from_utf8_partial.

(* with script pauses injecting text and encoding-indicator suspensions *)
Theorem C10_tokenizer_from_utf8_with_pauses_partial :
  forall simd ent c1 sk,
  InstNoPanic.html_sink_ok sk = true ->
  forall fuel inj s0 last chunks,
  InstNoPanic.html_kind_ok s0 = true ->
  exists evs, Utf8DecModel.run chunks = Utf8DecModel.Done evs /\
    all_nonempty (delivered_chunks evs) /\ map encs (delivered_chunks evs) = pieces evs /\
    let cs1 := delivered_chunks evs in
    let cs2 := whole_chunks (concat chunks) in
    (InstTermination.html_fuel (length (lossy_chars (concat chunks)) + length cs1 * (50 * length inj)) <= fuel)%nat ->
    (InstTermination.html_fuel (length (lossy_chars (concat chunks)) + length cs2 * (50 * length inj)) <= fuel)%nat ->
    (4 <= fuel)%nat ->
    let d1 := drive_flat html_flavour true html_table simd ent c1 sk fuel inj cs1 (fresh_flat s0 last) [] in
    let d2 := drive_flat html_flavour true html_table simd ent c1 sk fuel inj cs2 (fresh_flat s0 last) [] in
    ~ In (SPanic 96) (snd d1) -> ~ In (SPanic 96) (snd d2) ->
    fst d1 = fst d2 /\ hd SSuspend (snd d1) = hd SSuspend (snd d2).
Proof. exact tokenizer_from_utf8_total. Qed.
Print Assumptions C10_tokenizer_from_utf8_with_pauses_partial.

(* the tokenizer's default mode (chunked queue, bulk reads, exact_errors = false) up to [obs]:
   parse errors dropped, adjacent character tokens merged; the all_done hypotheses of
   C03_default_mode_chunking_independent_obs_total remain *)
Theorem C10_tokenizer_from_utf8_default_mode_obs_partial :
  forall ent c1 sk fuel inj s0 last chunks,
  exists evs, Utf8DecModel.run chunks = Utf8DecModel.Done evs /\
    all_nonempty (delivered_chunks evs) /\ map encs (delivered_chunks evs) = pieces evs /\
    let cs1 := delivered_chunks evs in
    let cs2 := whole_chunks (concat chunks) in
    (InstTermination.html_fuel (length (lossy_chars (concat chunks)) + length cs1 * (50 * length inj)) <= fuel)%nat ->
    (InstTermination.html_fuel (length (lossy_chars (concat chunks)) + length cs2 * (50 * length inj)) <= fuel)%nat ->
    (4 <= fuel)%nat ->
    let f1 := drive_chunked html_flavour false html_table InstBulk.html_simd ent c1 sk fuel inj cs1 (fresh_chunked s0 last) [] in
    let f2 := drive_chunked html_flavour false html_table InstBulk.html_simd ent c1 sk fuel inj cs2 (fresh_chunked s0 last) [] in
    all_done (tl (snd f1)) -> all_done (tl (snd f2)) ->
    obs (mout (fst f1)) = obs (mout (fst f2)) /\ hd SSuspend (snd f1) = hd SSuspend (snd f2).
Proof. exact tokenizer_from_utf8_default_mode_obs. Qed.
Print Assumptions C10_tokenizer_from_utf8_default_mode_obs_partial.

(* non-vacuity (a test, by computation): "<p>" E2 82 | AC "</p" | ">" F0 9F - the euro sign cut after two bytes,
   a truncated four-byte sequence at the end: five character chunks for the tokenizer (the completed
   sequence comes with the byte spliced after it), against one *)
Example C10_tokenizer_from_utf8_example :
  match Utf8DecModel.run [[60; 112; 62; 0xE2; 0x82]; [0xAC; 60; 47; 112]; [62; 0xF0; 0x9F]]%N with
  | Utf8DecModel.Done evs =>
      delivered_chunks evs = [[60; 112; 62]; [0x20AC; 60]; [47; 112]; [62]; [0xFFFD]]%N
  | Utf8DecModel.Panic => False
  end /\
  whole_chunks [60; 112; 62; 0xE2; 0x82; 0xAC; 60; 47; 112; 62; 0xF0; 0x9F]%N =
    [[60; 112; 62; 0x20AC; 60; 47; 112; 62; 0xFFFD]]%N.
Proof. vm_compute. split; reflexivity. Qed.
