(* C12 — Tendril buffers are freed exactly once and never accessed out of bounds.
   Only statements, closed by [exact], and their assumptions.

   Sequential part: the heap model of Tendril/TModel.v emits Alloc / Realloc /
   Free / RdEv / WrEv events; [replay] (TSpec.v) is an allocator that judges a
   trace on its own: Alloc needs a never-used id, Realloc / Free / RdEv / WrEv
   need a live id, Free must name the buffer's real capacity, RdEv / WrEv ranges
   must lie inside [0, capacity].
   Thread part: Tendril/TThreads.v. *)
From Coq Require Import List NArith Bool.
From HV Require Import Base.Utf8 Tendril.Heap Tendril.TModel Tendril.TSpec Tendril.TInv
     Tendril.TPool Tendril.TExec Tendril.TProofs Tendril.TMore Tendril.TThreads.
Import ListNotations.

(* Every history (all operations, all five formats) from the empty heap: the
   model never reaches an undefined-behaviour site (dangling id, inline tendril
   treated as heap, invalid UTF-8 handed to from_utf8_unchecked); the whole
   event trace, including the final drop of every tendril, is accepted by the
   independent allocator; afterwards no buffer is live, in the model and in the
   allocator.  If the history stops with the u32-overflow panic the trace so far
   is accepted. *)
Theorem C12_history_safe :
  forall npool ops,
  no_ub (fst (run_history npool ops)) /\
  match snd (run_history npool ops) with
  | Some (ev, live) =>
    live = [] /\
    exists a, replay shadow0 (events_of (fst (run_history npool ops)) ++ ev) = Some a /\
              forall id, fst a id = None
  | None => exists a, replay shadow0 (events_of (fst (run_history npool ops))) = Some a
  end.
Proof. exact history_safe. Qed.
Print Assumptions C12_history_safe.

(* What acceptance by the allocator means. (1) freed at most once, only
   buffers that were allocated, and they are dead afterwards *)
Theorem C12_free_once :
  forall evs a', replay shadow0 evs = Some a' ->
  NoDup (freed evs) /\
  forall id, In id (freed evs) -> fst a' id = None /\ In id (allocated evs).
Proof.
  intros evs a' H. destruct (replay_free_once evs shadow0 a' sinv_shadow0 H) as [A B].
  split; [exact A|]. intros id Hin. destruct (B id Hin) as [B1 [B2|B2]]; [|auto].
  exfalso. apply B2. reflexivity.
Qed.
Print Assumptions C12_free_once.

(* (2) every single event of an accepted trace: reads / writes inside the
   capacity of a buffer live at that moment, Free with the buffer's capacity,
   Realloc of a live buffer, Alloc of a fresh id *)
Theorem C12_bounds :
  forall a e1 e e2 a', replay a (e1 ++ e :: e2) = Some a' ->
  exists a1, replay a e1 = Some a1 /\
    match e with
    | RdEv id lo hi | WrEv id lo hi => exists c, fst a1 id = Some c /\ (lo <= hi)%N /\ (hi <= c)%N
    | Free id cap => fst a1 id = Some cap
    | Realloc id _ => fst a1 id <> None
    | Alloc id _ => fst a1 id = None \/ (snd a1 <= id)%N
    end.
Proof. exact replay_access_in_bounds. Qed.
Print Assumptions C12_bounds.

(* (3) nothing happens to a buffer after its release *)
Theorem C12_dead_stays_dead :
  forall evs a a' id, sinv a -> fst a id = None -> (id < snd a)%N -> replay a evs = Some a' ->
  ~ In id (freed evs) /\ ~ In id (allocated evs) /\ fst a' id = None /\
  (forall e, In e evs -> match e with
                         | RdEv i _ _ | WrEv i _ _ | Realloc i _ => i <> id
                         | _ => True end).
Proof. exact dead_stays_dead. Qed.
Print Assumptions C12_dead_stays_dead.

(* The invariant every operation preserves (C11_step): refcount of a buffer =
   number of Shared tendrils naming it (> 0), or exactly one Owned tendril and
   refcount 1 *)
Theorem C12_refcount :
  forall s ts id b, HInv s ts -> hp s id = Some b ->
  (nown id ts = 1%nat /\ nsh id ts = 0%nat /\ rc b = 1%N) \/
  (nown id ts = 0%nat /\ (0 < nsh id ts)%nat /\ rc b = N.of_nat (nsh id ts)).
Proof. exact refcount_meaning. Qed.
Print Assumptions C12_refcount.

(* ... and no tendril of the pool names a buffer that is not live, or is longer
   than its capacity *)
Theorem C12_no_dangling :
  forall s p t id, PInv s p -> In t (tendrils p) -> tid t = Some id ->
  exists b, hp s id = Some b /\ (tlen t <= acap b)%N.
Proof. exact no_dangling. Qed.
Print Assumptions C12_no_dangling.

(* Threads.  PARTIAL: sequentially consistent atomic steps only; the
   Relaxed / Release / Acquire orderings of the code and the hardware are not
   modelled, and the byte contents are left to the sequential theorems.
   For EVERY schedule (any interleaving of allocation, clone = fetch_add, reads,
   drop = fetch_sub followed later by destroy, and moves of tendrils /
   SendTendrils between threads): no use after free, no counter underflow, no
   double free; refcount = number of tendrils naming the buffer in all threads;
   each buffer destroyed at most once; and once no thread holds a tendril or a
   pending destroy, no buffer is live. *)
Theorem C12_any_interleaving_partial :
  forall sched,
  exists c fr, crun c0 sched = Some (c, fr) /\ CInv c /\ NoDup fr /\
               (hs c = [] -> pend c = [] -> forall id, cnt c id = None).
Proof.
  intros sched. destruct (crun_safe sched c0 CInv_c0) as [c [fr [R [I _]]]].
  exists c, fr. split; [exact R|]. split; [exact I|]. split.
  - exact (crun_free_once sched c0 c fr CInv_c0 R).
  - exact (cinv_no_leak c I).
Qed.
Print Assumptions C12_any_interleaving_partial.

Theorem C12_thread_refcount :
  forall c id n, CInv c -> cnt c id = Some n -> n = N.of_nat (cid id (hs c)).
Proof. exact cinv_refcount. Qed.
Print Assumptions C12_thread_refcount.

(* non-vacuity: a 20-byte tendril, two sub-tendrils sharing its buffer, the
   zero-copy merge, copy on write, drops: the trace is what the allocator sees *)
Example C12_nonvacuous :
  let ops := [ONew 0 FBytes [1;2;3;4;5;6;7;8;9;10;11;12;13;14;15;16;17;18;19;20]%N;
              OSub false 1 0 0 10; OSub false 2 0 10 10; OPushT 1 2; OClear 0; OPush 1 [7]%N; ODrop 2]%N in
  map (fun e => match e with Alloc i c => (0, i, c) | Realloc i c => (1, i, c) | Free i c => (2, i, c)
                        | RdEv i _ _ => (3, i, 0) | WrEv i _ _ => (4, i, 0) end)%N
      (filter (fun e => match e with RdEv _ _ _ | WrEv _ _ _ => false | _ => true end)
              (events_of (fst (run_history 4 ops)))) = [(0, 0, 32); (0, 1, 32); (2, 0, 32)]%N /\
  snd (run_history 4 ops) = Some ([Free 1 32]%N, []) /\
  (* two threads: clone in thread 0, move the clone to thread 1, both drop, the last one frees *)
  match crun c0 [KAlloc 0; KClone 0 0; KMove 0 1 0; KDec 0 0; KRead 1 0; KFree 0 0; KDec 1 0; KFree 0 0; KFree 1 0]%N with
  | Some (c, fr) => fr = [0%N] /\ hs c = [] /\ pend c = [] /\ cnt c 0%N = None
  | None => False
  end.
Proof. cbv zeta. split; [vm_compute; reflexivity|]. split; vm_compute; auto. Qed.
