(* C04 — parsing is total.  Statements only: reflective checks on the regenerated tokenizer tables, and the no-panic
   theorem of the xml tree-builder model (the html tree builder's is C02_tree_no_panic_partial in Props/C02.v, kept
   there because its proof chain is rebuilt whenever a tree-builder table changes). *)
From Coq Require Import List NArith Bool.
From HV Require Import TokIR.IR TokIR.Interp TokIR.Checks Gen.GenHtmlTok Gen.GenXmlTok Inst.InstHtmlTok Inst.InstXmlTok.
From HV Require XmlNs.XTreeModel XmlNs.XTreeProofs.
Import ListNotations.

(* EOF handling: no EOF arm reads input, and following EOF successor states from any state reaches an arm that
   emits EOF within |states| steps (the EOF graph is acyclic) *)
Theorem C04_html_eof_terminates : eof_rank_ok html_table = [].
Proof. exact html_eof_rank_ok. Qed.
Print Assumptions C04_html_eof_terminates.
Theorem C04_xml_eof_terminates : eof_rank_ok xml_table = [].
Proof. exact xml_eof_rank_ok. Qed.
Print Assumptions C04_xml_eof_terminates.

(* process_char_ref's panic arm is unreachable: a character reference is only ever started in a state for which
   process_char_ref has an arm (and the sub-tokenizer does not change the state) *)
Theorem C04_html_charref_states : charref_states_ok html_flavour html_table = [].
Proof. exact html_charref_states_ok. Qed.
Print Assumptions C04_html_charref_states.
Theorem C04_xml_charref_states : charref_states_ok xml_flavour xml_table = [].
Proof. exact xml_charref_states_ok. Qed.
Print Assumptions C04_xml_charref_states.

(* every arm of every state ends in an explicit transition *)
Theorem C04_html_no_fall : no_fall html_table = [].
Proof. exact html_no_fall. Qed.
Print Assumptions C04_html_no_fall.
Theorem C04_xml_no_fall : no_fall xml_table = [].
Proof. exact xml_no_fall. Qed.
Print Assumptions C04_xml_no_fall.

(* xml tree builder (model coq/XmlNs/XTreeModel.v, tied to XmlTreeBuilder by the C16 correspondence): for EVERY token
   stream the builder reaches none of its expect()/unwrap() sites.  _partial: the tie of the model to the Rust code is
   differential testing; stack depth and time are outside the model. *)
Theorem C04_xml_tree_builder_never_panics_partial :
  forall rts, XTreeModel.tpanic (XTreeModel.run (map XTreeModel.tokenize rts)) = false.
Proof. exact XTreeProofs.tree_builder_never_panics. Qed.
Print Assumptions C04_xml_tree_builder_never_panics_partial.

(* ------------------------------------------------------------------------------------------------------------
   The tokenizer interpreter TERMINATES, with an explicit fuel bound (TokIR/Termination.v, instantiated on the
   regenerated html table in Inst/InstTermination.v).  Reference semantics: html flavour, exact_errors = true, flat
   queue.  SPanic 98 = run() out of fuel, SPanic 97 = the EOF loop of end() out of fuel.
     html_unread m = |queue| + |temp_buf| in eat states (look-ahead stash) + what a pending character reference may
                     put back + 1 if the reconsume flag is set;
     html_fuel T   = (T + 1) * (2 T + 10);
     HtmlTI        = the control invariant (reconsume only in get_char states and not during a reference; temp_buf
                     empty in clean states; no reference pending in an eat state): true of every fresh tokenizer,
                     kept by run / feed / pushed chunks / injected text.
   Every step that continues decreases (html_unread, rank) lexicographically, under the decidable table conditions
   C09_step_arms_count_every_line_break (shape), C04_html_arms_make_progress and the three EOF-arm conditions. *)
From HV Require Import TokIR.LineInv TokIR.Termination Inst.InstLine Inst.InstTermination.

Theorem C04_html_fuel_bound : forall T, html_fuel T = ((T + 1) * (2 * T + 10))%nat.
Proof. exact html_fuel_eq. Qed.
Print Assumptions C04_html_fuel_bound.

Theorem C04_html_fresh_tokenizer_satisfies_invariant :
  forall s0 last q o k, HtmlTI (mkmach (init_cfg s0 last false) q o k) /\
                        html_unread (mkmach (init_cfg s0 last false) q o k) = length q.
Proof. exact (fun s0 last q o k => conj (html_TI_init s0 last q o k) (html_unread_init s0 last q o k)). Qed.
Print Assumptions C04_html_fresh_tokenizer_satisfies_invariant.

(* run() - before or after end() - with fuel >= the bound never runs out of fuel; it keeps the invariant and does not
   increase the measure, so the bound composes over successive calls *)
Theorem C04_html_tokenizer_run_terminates :
  forall simd ent c1 sk at_eof fuel m,
  HtmlTI m -> (html_fuel (html_unread m) <= fuel)%nat ->
  let r := run [] fq_next fq_peek (@app N) (fun q => q) fq_run1 html_flavour true html_table simd ent c1 sk at_eof fuel m in
  HtmlTI (fst r) /\ (html_unread (fst r) <= html_unread m)%nat /\ snd r <> SPanic 98 /\ snd r <> SPanic 97.
Proof. exact html_run_terminates. Qed.
Print Assumptions C04_html_tokenizer_run_terminates.

(* end(): the character-reference flush, the final run and the EOF loop *)
Theorem C04_html_tokenizer_end_terminates :
  forall simd ent c1 sk fuel m,
  HtmlTI m -> (html_fuel (html_unread m) <= fuel)%nat -> (4 <= fuel)%nat ->
  let r := tok_end [] fq_next fq_peek (@app N) (fun q => q) fq_run1 html_flavour true html_table simd ent c1 sk fuel m in
  snd r <> SPanic 98 /\ snd r <> SPanic 97.
Proof. exact html_end_terminates. Qed.
Print Assumptions C04_html_tokenizer_end_terminates.

(* the whole driver, any chunking, any sink answers, text injected at script pauses (at most 50 pauses per chunk, the
   bound of feed_loop): fuel computed from the total input length is enough for every feed call, for end() and for
   its EOF loop *)
Theorem C04_html_driver_terminates :
  forall simd ent c1 sk fuel inj chunks s0 last,
  (html_fuel (length (concat chunks) + length chunks * (50 * length inj)) <= fuel)%nat -> (4 <= fuel)%nat ->
  let log := snd (drive_flat html_flavour true html_table simd ent c1 sk fuel inj chunks
                             (mkmach (init_cfg s0 last false) [] [] 0%N) []) in
  ~ In (SPanic 98) log /\ ~ In (SPanic 97) log.
Proof. exact html_drive_terminates. Qed.
Print Assumptions C04_html_driver_terminates.

Theorem C04_html_driver_terminates_from_any_machine :
  forall simd ent c1 sk fuel inj chunks m,
  HtmlTI m ->
  (html_fuel (html_unread m + length (concat chunks) + length chunks * (50 * length inj)) <= fuel)%nat ->
  (4 <= fuel)%nat ->
  let log := snd (drive_flat html_flavour true html_table simd ent c1 sk fuel inj chunks m []) in
  ~ In (SPanic 98) log /\ ~ In (SPanic 97) log.
Proof. exact html_drive_terminates_from. Qed.
Print Assumptions C04_html_driver_terminates_from_any_machine.

(* the decidable table conditions, on the regenerated table *)
Theorem C04_html_arms_make_progress : forall s, pchk html_rank s false (t_step html_table s) = true.
Proof. exact html_progress_all. Qed.
Print Assumptions C04_html_arms_make_progress.

Theorem C04_html_eof_arms_reach_a_stop :
  forall s, eof_ok (t_eof html_table s) = true /\ notag (t_eof html_table s) = true /\ edepth html_table 4 s = true.
Proof. exact (fun s => conj (html_eof_ok_all s) (conj (html_eof_notag_all s) (html_eof_depth_all s))). Qed.
Print Assumptions C04_html_eof_arms_reach_a_stop.

(* non-vacuity (a test, by computation): 12 characters run with exactly the bound, 442 *)
Example C04_termination_example :
  html_fuel (length term_ex_input) = 442%nat /\
  snd (drive_flat html_flavour true html_table (simd_first_guard, simd_tail_stop, simd_tail_newline)
                  (fun _ => None) (fun _ => None) {| sk_resp := []; sk_foreign := false |}
                  (html_fuel (length term_ex_input)) [] [term_ex_input]
                  (mkmach (init_cfg HData None false) [] [] 0%N) []) = [SSuspend; SSuspend].
Proof. exact term_ex. Qed.
Print Assumptions C04_termination_example.

(* ------------------------------------------------------------------------------------------------------------
   The html tokenizer interpreter is TOTAL: it terminates (above) and never reaches a panic site (TokIR/NoPanic.v,
   Inst/InstNoPanic.v).  Reference semantics (exact_errors = true, flat queue), every input, chunking, injected text and
   sink script whose raw-text switches name states the table has real arms for (html_sink_ok), from a fresh tokenizer
   in such a state (html_kind_ok; every state of the Rust enum is: C04_html_listed_states_are_well_kinded), with fuel
   above the bound.  The log of the driver is  answer-of-end() :: feed entries:
     - every feed entry is done / script pause / encoding indicator, or SPanic 96 - the DRIVER MODEL's limit of 50
       pauses per chunk, not a tokenizer site;
     - end() answers done, or SPanic 4: the assert!(matches!(run, Done)) of Tokenizer::end, which in the model needs a
       tag completed from put-back character-reference input with a pausing answer; excluded outright for sinks that
       never answer Script / EncodingIndicator (second theorem).
   So no entry is SPanic 99 (fall-through), 1 (process_char_ref), 3 / 5 (EOF-loop unreachable!, input left after the
   final run), 98 / 97 (fuel). *)
From HV Require Import TokIR.NoPanic Inst.InstNoPanic.

Theorem C04_html_tokenizer_total :
  forall simd ent c1 sk, html_sink_ok sk = true ->
  forall fuel inj chunks s0 last, html_kind_ok s0 = true ->
  (html_fuel (length (concat chunks) + length chunks * (50 * length inj)) <= fuel)%nat -> (4 <= fuel)%nat ->
  exists r rest,
    snd (drive_flat html_flavour true html_table simd ent c1 sk fuel inj chunks
                    (mkmach (init_cfg s0 last false) [] [] 0%N) []) = r :: rest /\
    (r = SSuspend \/ r = SPanic 4) /\
    Forall (fun x => (x = SSuspend \/ x = SScript \/ x = SEncoding) \/ x = SPanic 96) rest.
Proof. exact html_tokenizer_total. Qed.
Print Assumptions C04_html_tokenizer_total.

Theorem C04_html_tokenizer_total_no_pauses :
  forall simd ent c1 sk, html_sink_ok sk = true ->
  forall fuel inj chunks s0 last, html_sink_never_pauses sk = true -> html_kind_ok s0 = true ->
  (html_fuel (length (concat chunks)) <= fuel)%nat -> (4 <= fuel)%nat ->
  Forall (eq SSuspend) (snd (drive_flat html_flavour true html_table simd ent c1 sk fuel inj chunks
                                        (mkmach (init_cfg s0 last false) [] [] 0%N) [])).
Proof. exact html_tokenizer_total_quiet. Qed.
Print Assumptions C04_html_tokenizer_total_no_pauses.

(* ALL INPUT IS CONSUMED (the third clause of the property): whenever feed() answers "done" (TokenizerResult::Done) the
   input queue is empty - what the tokenizer holds back (an eat() look-ahead, a pending character reference) lives in
   its own buffers - and so does the driver's feed loop with script pauses and injected text in between.  From any
   machine satisfying the two invariants, with fuel above the bound. *)
Theorem C04_html_feed_done_means_all_input_consumed :
  forall simd ent c1 sk, html_sink_ok sk = true ->
  forall fuel m, HtmlTI m -> HtmlK m -> (html_fuel (html_unread m) <= fuel)%nat ->
  let r := feed [] fq_next fq_peek (@app N) (fun q => q) fq_run1 html_flavour true html_table simd ent c1 sk fuel m in
  snd r = SSuspend -> mq (fst r) = [].
Proof. exact html_feed_consumes. Qed.
Print Assumptions C04_html_feed_done_means_all_input_consumed.

Theorem C04_html_feed_loop_done_means_all_input_consumed :
  forall simd ent c1 sk, html_sink_ok sk = true ->
  forall fuel inj n m log, HtmlTI m -> HtmlK m -> (html_fuel (html_unread m + n * length inj) <= fuel)%nat ->
  let r := feed_loop [] fq_next fq_peek (@app N) (fun q => q) fq_run1 html_flavour true html_table simd ent c1 sk n fuel inj m log in
  hd (SPanic 0) (snd r) = SSuspend -> mq (fst r) = [].
Proof. exact html_feed_loop_consumes. Qed.
Print Assumptions C04_html_feed_loop_done_means_all_input_consumed.

(* the same clause WITHOUT invariant or fuel hypotheses and for BOTH tokenizers (TokIR/Consumed.v, Inst/InstConsumed.v):
   any machine, any fuel, any sink - if feed() (or the driver's feed loop) answers Done, the queue is empty.  The only
   table condition is that no step arm ends in the Eof terminator, decided on the regenerated tables. *)
From HV Require Import TokIR.Consumed Inst.InstConsumed.

Theorem C04_html_feed_done_means_all_input_consumed_unconditional :
  forall simd ent c1 sk fuel m,
  let r := feed [] fq_next fq_peek (@app N) (fun q => q) fq_run1 html_flavour true html_table simd ent c1 sk fuel m in
  snd r = SSuspend -> mq (fst r) = [].
Proof. exact html_feed_done_queue_empty. Qed.
Print Assumptions C04_html_feed_done_means_all_input_consumed_unconditional.

Theorem C04_html_feed_loop_done_means_all_input_consumed_unconditional :
  forall simd ent c1 sk fuel inj n m log,
  let r := feed_loop [] fq_next fq_peek (@app N) (fun q => q) fq_run1 html_flavour true html_table simd ent c1 sk n fuel inj m log in
  hd (SPanic 0) (snd r) = SSuspend -> mq (fst r) = [].
Proof. exact html_feed_loop_done_queue_empty. Qed.
Print Assumptions C04_html_feed_loop_done_means_all_input_consumed_unconditional.

Theorem C04_xml_feed_done_means_all_input_consumed :
  forall simd ent c1 sk fuel m,
  let r := feed [] fq_next fq_peek (@app N) (fun q => q) fq_run1 xml_flavour true xml_table simd ent c1 sk fuel m in
  snd r = SSuspend -> mq (fst r) = [].
Proof. exact xml_feed_done_queue_empty. Qed.
Print Assumptions C04_xml_feed_done_means_all_input_consumed.

Theorem C04_xml_feed_loop_done_means_all_input_consumed :
  forall simd ent c1 sk fuel inj n m log,
  let r := feed_loop [] fq_next fq_peek (@app N) (fun q => q) fq_run1 xml_flavour true xml_table simd ent c1 sk n fuel inj m log in
  hd (SPanic 0) (snd r) = SSuspend -> mq (fst r) = [].
Proof. exact xml_feed_loop_done_queue_empty. Qed.
Print Assumptions C04_xml_feed_loop_done_means_all_input_consumed.

(* ONE EOF, delivered LAST (half of the fourth clause): whenever Tokenizer::end answers normally, the newest token
   delivered is the EOF token - any machine, any fuel, any sink, both tokenizers.  An EOF arm never reads
   ([eof_ok], decided on the regenerated tables), so it can answer "done" only through its Eof terminator, which has
   just emitted the token.  (That no EOF token is delivered BEFORE end(), and exactly one in all: C04_*_exactly_one_eof below.) *)
Theorem C04_html_end_delivers_eof_last :
  forall simd ent c1 sk fuel m,
  let r := tok_end [] fq_next fq_peek (@app N) (fun q => q) fq_run1 html_flavour true html_table simd ent c1 sk fuel m in
  snd r = SSuspend -> newest_is_eof (fst r).
Proof. exact html_end_delivers_eof_last. Qed.
Print Assumptions C04_html_end_delivers_eof_last.

Theorem C04_xml_end_delivers_eof_last :
  forall simd ent c1 sk fuel m,
  let r := tok_end [] fq_next fq_peek (@app N) (fun q => q) fq_run1 xml_flavour true xml_table simd ent c1 sk fuel m in
  snd r = SSuspend -> newest_is_eof (fst r).
Proof. exact xml_end_delivers_eof_last. Qed.
Print Assumptions C04_xml_end_delivers_eof_last.

Theorem C04_newest_is_eof_means : forall (m : mach hstate (list N)),
  newest_is_eof m <-> exists l k o, mout m = (TEof, l, k) :: o.
Proof. exact newest_is_eof_means. Qed.
Print Assumptions C04_newest_is_eof_means.

(* EXACTLY ONE EOF (the fourth clause, TokIR/SingleEof.v): [eofs m] counts the EOF tokens delivered so far.  feed() never
   delivers one (a frame lemma for every primitive of the interpreter; step arms have no Eof terminator), an end() that
   returns normally delivers exactly one, and the whole driver from a fresh tokenizer - any chunking, script pauses with
   injected text, any sink, any fuel, any start state - ends with exactly one EOF token, which by the theorems above is
   the last token.  Both tokenizers, no invariant or fuel hypotheses. *)
From HV Require Import TokIR.SingleEof.

Theorem C04_html_feed_delivers_no_eof :
  forall simd ent c1 sk fuel m,
  eofs (fst (feed [] fq_next fq_peek (@app N) (fun q => q) fq_run1 html_flavour true html_table simd ent c1 sk fuel m)) = eofs m.
Proof. exact html_feed_delivers_no_eof. Qed.
Print Assumptions C04_html_feed_delivers_no_eof.

Theorem C04_xml_feed_delivers_no_eof :
  forall simd ent c1 sk fuel m,
  eofs (fst (feed [] fq_next fq_peek (@app N) (fun q => q) fq_run1 xml_flavour true xml_table simd ent c1 sk fuel m)) = eofs m.
Proof. exact xml_feed_delivers_no_eof. Qed.
Print Assumptions C04_xml_feed_delivers_no_eof.

Theorem C04_html_end_delivers_exactly_one_eof :
  forall simd ent c1 sk fuel m,
  let r := tok_end [] fq_next fq_peek (@app N) (fun q => q) fq_run1 html_flavour true html_table simd ent c1 sk fuel m in
  snd r = SSuspend -> eofs (fst r) = Datatypes.S (eofs m).
Proof. exact html_end_delivers_one_eof. Qed.
Print Assumptions C04_html_end_delivers_exactly_one_eof.

Theorem C04_xml_end_delivers_exactly_one_eof :
  forall simd ent c1 sk fuel m,
  let r := tok_end [] fq_next fq_peek (@app N) (fun q => q) fq_run1 xml_flavour true xml_table simd ent c1 sk fuel m in
  snd r = SSuspend -> eofs (fst r) = Datatypes.S (eofs m).
Proof. exact xml_end_delivers_one_eof. Qed.
Print Assumptions C04_xml_end_delivers_exactly_one_eof.

Theorem C04_html_driver_exactly_one_eof :
  forall simd ent c1 sk fuel inj chunks s0 last,
  let r := drive_flat html_flavour true html_table simd ent c1 sk fuel inj chunks (mkmach (init_cfg s0 last false) [] [] 0%N) [] in
  hd (SPanic 0) (snd r) = SSuspend -> eofs (fst r) = 1%nat.
Proof. exact html_driver_exactly_one_eof. Qed.
Print Assumptions C04_html_driver_exactly_one_eof.

Theorem C04_xml_driver_exactly_one_eof :
  forall simd ent c1 sk fuel inj chunks s0 last,
  let r := drive_flat xml_flavour true xml_table simd ent c1 sk fuel inj chunks (mkmach (init_cfg s0 last false) [] [] 0%N) [] in
  hd (SPanic 0) (snd r) = SSuspend -> eofs (fst r) = 1%nat.
Proof. exact xml_driver_exactly_one_eof. Qed.
Print Assumptions C04_xml_driver_exactly_one_eof.

Example C04_consumed_example :
  let r := feed [] fq_next fq_peek (@app N) (fun q => q) fq_run1 html_flavour true html_table
                (simd_first_guard, simd_tail_stop, simd_tail_newline) (fun _ => None) (fun _ => None)
                {| sk_resp := []; sk_foreign := false |} 100
                (mkmach (init_cfg HData None false) [120; 38; 97; 109]%N [] 0%N) in
  snd r = SSuspend /\ mq (fst r) = [] /\
  match cref (mc (fst r)) with Some cr => cr_buf cr = [97; 109]%N | None => False end.
Proof. exact consumed_ex. Qed.
Print Assumptions C04_consumed_example.

Theorem C04_xml_step_arms_never_answer_eof : forall s, noeofb (t_step xml_table s) = true.
Proof. exact xml_noeof_all. Qed.
Print Assumptions C04_xml_step_arms_never_answer_eof.

(* from any machine satisfying the two invariants (kept by feed, pushed chunks and injected text) *)
Theorem C04_html_tokenizer_total_from_any_machine :
  forall simd ent c1 sk, html_sink_ok sk = true ->
  forall fuel inj chunks m, HtmlTI m -> HtmlK m ->
  (html_fuel (html_unread m + length (concat chunks) + length chunks * (50 * length inj)) <= fuel)%nat -> (4 <= fuel)%nat ->
  log_ok (snd (drive_flat html_flavour true html_table simd ent c1 sk fuel inj chunks m [])).
Proof. exact html_total_from. Qed.
Print Assumptions C04_html_tokenizer_total_from_any_machine.

(* the decidable conditions on the regenerated table *)
Theorem C04_html_states_closed_and_charref_safe : forall s, state_ok html_flavour html_table s = true.
Proof. exact html_state_ok_all. Qed.
Print Assumptions C04_html_states_closed_and_charref_safe.
Theorem C04_html_step_arms_never_answer_eof : forall s, noeofb (t_step html_table s) = true.
Proof. exact html_noeof_all. Qed.
Print Assumptions C04_html_step_arms_never_answer_eof.
Theorem C04_html_listed_states_are_well_kinded : forallb html_kind_ok html_states = true.
Proof. exact html_kind_ok_listed. Qed.
Print Assumptions C04_html_listed_states_are_well_kinded.

(* non-vacuity (a test, by computation): a sink with a raw-text switch on <s> and a script pause on </a>, two chunks *)
Example C04_total_example :
  html_sink_ok np_sk = true /\ html_kind_ok HData = true /\
  snd (drive_flat html_flavour true html_table (simd_first_guard, simd_tail_stop, simd_tail_newline)
                  (fun _ => None) (fun _ => None) np_sk (html_fuel 20) [] np_input
                  (mkmach (init_cfg HData None false) [] [] 0%N) []) = [SSuspend; SSuspend; SScript; SSuspend].
Proof. exact np_ex. Qed.
Print Assumptions C04_total_example.

(* ------------------------------------------------------------------------------------------------------------
   The XML tokenizer interpreter terminates with the same bound (TokIR/TermX.v: the argument of Termination.v with the
   flavour-specific lemmas re-proved for xml5ever's discard_char through get_char, raw next() in eat(), its own
   character-reference first state, tag-emitting EOF arms and an EOF loop that continues after a Script answer;
   Inst/InstTermX.v on the regenerated xml table, where every state is clean: no temp_buf command, no peek). *)
From HV Require Inst.InstTermX.

Theorem C04_xml_tokenizer_run_terminates :
  forall simd ent c1 sk at_eof fuel m,
  InstTermX.XmlTI m -> (InstTermX.xml_fuel (InstTermX.xml_unread m) <= fuel)%nat ->
  let r := run [] fq_next fq_peek (@app N) (fun q => q) fq_run1 xml_flavour true xml_table simd ent c1 sk at_eof fuel m in
  InstTermX.XmlTI (fst r) /\ (InstTermX.xml_unread (fst r) <= InstTermX.xml_unread m)%nat /\
  snd r <> SPanic 98 /\ snd r <> SPanic 97.
Proof. exact InstTermX.xml_run_terminates. Qed.
Print Assumptions C04_xml_tokenizer_run_terminates.

Theorem C04_xml_tokenizer_end_terminates :
  forall simd ent c1 sk fuel m,
  InstTermX.XmlTI m -> (InstTermX.xml_fuel (InstTermX.xml_unread m) <= fuel)%nat -> (4 <= fuel)%nat ->
  let r := tok_end [] fq_next fq_peek (@app N) (fun q => q) fq_run1 xml_flavour true xml_table simd ent c1 sk fuel m in
  snd r <> SPanic 98 /\ snd r <> SPanic 97.
Proof. exact InstTermX.xml_end_terminates. Qed.
Print Assumptions C04_xml_tokenizer_end_terminates.

Theorem C04_xml_driver_terminates :
  forall simd ent c1 sk fuel inj chunks s0 last,
  (InstTermX.xml_fuel (length (concat chunks) + length chunks * (50 * length inj)) <= fuel)%nat -> (4 <= fuel)%nat ->
  let log := snd (drive_flat xml_flavour true xml_table simd ent c1 sk fuel inj chunks
                             (mkmach (init_cfg s0 last false) [] [] 0%N) []) in
  ~ In (SPanic 98) log /\ ~ In (SPanic 97) log.
Proof. exact InstTermX.xml_drive_terminates. Qed.
Print Assumptions C04_xml_driver_terminates.

Theorem C04_xml_fuel_bound_and_fresh_tokenizer :
  (forall T, InstTermX.xml_fuel T = ((T + 1) * (2 * T + 10))%nat) /\
  (forall s0 last q o k, InstTermX.XmlTI (mkmach (init_cfg s0 last false) q o k) /\
                         InstTermX.xml_unread (mkmach (init_cfg s0 last false) q o k) = length q).
Proof.
  exact (conj InstTermX.xml_fuel_eq
              (fun s0 last q o k => conj (InstTermX.xml_TI_init s0 last q o k) (InstTermX.xml_unread_init s0 last q o k))).
Qed.
Print Assumptions C04_xml_fuel_bound_and_fresh_tokenizer.

Theorem C04_xml_table_conditions :
  (forall s, LineInv.start_ok xml_table InstTermX.xml_clean s = true) /\
  (forall s, pchk InstTermX.xml_rank s false (t_step xml_table s) = true) /\
  (forall s, eof_ok (t_eof xml_table s) = true) /\ (forall s, TermX.edepthx xml_table 4 s = true).
Proof.
  exact (conj InstTermX.xml_start_ok_all (conj InstTermX.xml_progress_all
          (conj InstTermX.xml_eof_ok_all InstTermX.xml_eof_depth_all))).
Qed.
Print Assumptions C04_xml_table_conditions.

Example C04_xml_termination_example :
  snd (drive_flat xml_flavour true xml_table ([], [], []) (fun _ => None) (fun _ => None)
                  {| sk_resp := []; sk_foreign := false |} (InstTermX.xml_fuel 22) [] InstTermX.xterm_input
                  (mkmach (init_cfg XData None false) [] [] 0%N) []) = [SSuspend; SSuspend; SSuspend].
Proof. exact InstTermX.xterm_ex. Qed.
Print Assumptions C04_xml_termination_example.

(* the XML tokenizer interpreter is TOTAL as well (TokIR/NoPanicX.v, Inst/InstNoPanicX.v): xml's emit_current_tag never
   switches the state (no condition on the sink) and Tokenizer::end has no assert sites, so the answer of end() is always
   "done"; every feed entry is done / script pause / encoding indicator or the driver model's pause limit 96 *)
From HV Require TokIR.NoPanicX Inst.InstNoPanicX.

Theorem C04_xml_tokenizer_total :
  forall simd ent c1 sk fuel inj chunks s0 last,
  InstNoPanicX.xml_kind_ok s0 = true ->
  (InstTermX.xml_fuel (length (concat chunks) + length chunks * (50 * length inj)) <= fuel)%nat -> (4 <= fuel)%nat ->
  exists rest,
    snd (drive_flat xml_flavour true xml_table simd ent c1 sk fuel inj chunks
                    (mkmach (init_cfg s0 last false) [] [] 0%N) []) = SSuspend :: rest /\
    Forall (fun x => (x = SSuspend \/ x = SScript \/ x = SEncoding) \/ x = SPanic 96) rest.
Proof. exact InstNoPanicX.xml_tokenizer_total. Qed.
Print Assumptions C04_xml_tokenizer_total.

Theorem C04_xml_tokenizer_total_no_pauses :
  forall simd ent c1 sk fuel inj chunks s0 last,
  sk_quiet sk = true -> InstNoPanicX.xml_kind_ok s0 = true ->
  (InstTermX.xml_fuel (length (concat chunks)) <= fuel)%nat -> (4 <= fuel)%nat ->
  Forall (eq SSuspend) (snd (drive_flat xml_flavour true xml_table simd ent c1 sk fuel inj chunks
                                        (mkmach (init_cfg s0 last false) [] [] 0%N) [])).
Proof. exact InstNoPanicX.xml_tokenizer_total_quiet. Qed.
Print Assumptions C04_xml_tokenizer_total_no_pauses.

Theorem C04_xml_states_closed_and_charref_safe :
  (forall s, state_ok xml_flavour xml_table s = true) /\ forallb InstNoPanicX.xml_kind_ok xml_states = true.
Proof. exact (conj InstNoPanicX.xml_state_ok_all InstNoPanicX.xml_kind_ok_listed). Qed.
Print Assumptions C04_xml_states_closed_and_charref_safe.

Example C04_xml_total_example :
  InstNoPanicX.xml_kind_ok XData = true /\
  snd (drive_flat xml_flavour true xml_table ([], [], []) (fun _ => None) (fun _ => None) InstNoPanicX.xnp_sk
                  (InstTermX.xml_fuel 17) [] InstNoPanicX.xnp_input
                  (mkmach (init_cfg XData None false) [] [] 0%N) []) = [SSuspend; SSuspend; SSuspend; SScript].
Proof. exact InstNoPanicX.xnp_ex. Qed.
Print Assumptions C04_xml_total_example.

(* ------------------------------------------------------------------------------------------------------------
   The statement C04 wants: the tokenizers in their REAL default configuration - exact_errors = false, the chunked queue
   (BufferQueue), bulk reads, the SIMD scan of the html data state - terminate and never reach a panic site
   (Inst/InstTotalDefault.v).  With fuel above the bound the default-mode run never runs out of fuel (TokIR/BulkTerm.v),
   a regular default-mode run has the log of the reference run (TokIR/BulkSim.v + QueueSim.v), and that log is
   characterised above.  Caveats as for the reference run: 96 is the driver model's limit of 50 pauses per chunk; html
   end() may answer the assert site 4 unless the sink never pauses (then the whole log is "done"). *)
From HV Require Inst.InstBulk Inst.InstTotalDefault.

Theorem C04_html_tokenizer_total_default_mode :
  forall ent c1 sk, html_sink_ok sk = true ->
  forall fuel inj chunks s0 last, html_kind_ok s0 = true ->
  (html_fuel (length (concat chunks) + length chunks * (50 * length inj)) <= fuel)%nat -> (4 <= fuel)%nat ->
  exists r rest,
    snd (drive_chunked html_flavour false html_table InstBulk.html_simd ent c1 sk fuel inj chunks
                       (mkmach (init_cfg s0 last false) [] [] 0%N) []) = r :: rest /\
    (r = SSuspend \/ r = SPanic 4) /\
    Forall (fun x => (x = SSuspend \/ x = SScript \/ x = SEncoding) \/ x = SPanic 96) rest.
Proof. exact InstTotalDefault.html_tokenizer_total_default_mode. Qed.
Print Assumptions C04_html_tokenizer_total_default_mode.

Theorem C04_html_tokenizer_total_default_mode_no_pauses :
  forall ent c1 sk, html_sink_ok sk = true ->
  forall fuel inj chunks s0 last, html_sink_never_pauses sk = true -> html_kind_ok s0 = true ->
  (html_fuel (length (concat chunks) + length chunks * (50 * length inj)) <= fuel)%nat -> (4 <= fuel)%nat ->
  Forall (eq SSuspend) (snd (drive_chunked html_flavour false html_table InstBulk.html_simd ent c1 sk fuel inj chunks
                                           (mkmach (init_cfg s0 last false) [] [] 0%N) [])).
Proof. exact InstTotalDefault.html_tokenizer_total_default_mode_quiet. Qed.
Print Assumptions C04_html_tokenizer_total_default_mode_no_pauses.

Theorem C04_xml_tokenizer_total_default_mode :
  forall simd ent c1 sk fuel inj chunks s0 last, InstNoPanicX.xml_kind_ok s0 = true ->
  (InstTermX.xml_fuel (length (concat chunks) + length chunks * (50 * length inj)) <= fuel)%nat -> (4 <= fuel)%nat ->
  exists rest,
    snd (drive_chunked xml_flavour false xml_table simd ent c1 sk fuel inj chunks
                       (mkmach (init_cfg s0 last false) [] [] 0%N) []) = SSuspend :: rest /\
    Forall (fun x => (x = SSuspend \/ x = SScript \/ x = SEncoding) \/ x = SPanic 96) rest.
Proof. exact InstTotalDefault.xml_tokenizer_total_default_mode. Qed.
Print Assumptions C04_xml_tokenizer_total_default_mode.

Theorem C04_xml_tokenizer_total_default_mode_no_pauses :
  forall simd ent c1 sk fuel inj chunks s0 last, sk_quiet sk = true -> InstNoPanicX.xml_kind_ok s0 = true ->
  (InstTermX.xml_fuel (length (concat chunks) + length chunks * (50 * length inj)) <= fuel)%nat -> (4 <= fuel)%nat ->
  Forall (eq SSuspend) (snd (drive_chunked xml_flavour false xml_table simd ent c1 sk fuel inj chunks
                                           (mkmach (init_cfg s0 last false) [] [] 0%N) [])).
Proof. exact InstTotalDefault.xml_tokenizer_total_default_mode_quiet. Qed.
Print Assumptions C04_xml_tokenizer_total_default_mode_no_pauses.

(* ------------------------------------------------------------------------------------------------------------
   The remaining html caveat, site 4 (the assert in Tokenizer::end).  NOT closed by a theorem; what is decided
   (Inst/InstEndSite.v, reflective facts on the regenerated step table and the pinned entity table):
   end()'s final run can answer Script / EncodingIndicator only by executing a tag-emitting terminator, and the only
   characters that run reads are the ones the character-reference flush puts back (the raw buffer: '#', 'x' / 'X',
   digits, characters of entity keys and their prefixes, alphanumerics of a bogus name) and the look-ahead stash of an
   eat state (characters matching an eat pattern up to ASCII case).  EXACT CONDITION for site 4: one of those characters
   is '>' - for an abstract entity table: some key contains '>'.  On the pinned table it is false:
     - every tag-emitting terminator is guarded, since the arm's last read, by the test "current character is '>'";
     - every entity key consists of ASCII alphanumerics and ';';
     - no eat pattern contains a character matching '>' up to case, and '#', 'x', 'X', alphanumerics are not '>'.
   Missing for C04_html_tokenizer_total_pinned_entities: the invariant proof that the final run reads nothing else
   (unread input = put-back buffer + stash, temp_buf discipline, reconsume clear when a feed suspends). *)
From HV Require Gen.GenEntities Inst.InstEndSite.
Theorem C04_html_site4_condition_is_false_on_the_pinned_tables :
  (forall s, InstEndSite.gchk [62%N] false (html_step s) = true) /\
  forallb (fun e => forallb (fun c => is_alnum c || (c =? 59)%N) (fst e)) GenEntities.entities = true /\
  forallb (fun s => forallb (fun p => forallb (fun c => negb (to_lower c =? to_lower 62)%N) p)
                            (InstEndSite.eat_pats (html_step s))) html_states = true /\
  (is_alnum 62 || (62 =? 59)%N || (62 =? 35)%N || (62 =? 120)%N || (62 =? 88)%N) = false.
Proof.
  exact (conj InstEndSite.html_emit_guarded (conj InstEndSite.html_entity_keys_alnum_semicolon
          InstEndSite.html_eat_patterns_no_gt)).
Qed.
Print Assumptions C04_html_site4_condition_is_false_on_the_pinned_tables.

(* ------------------------------------------------------------------------------------------------------------
   EXACTLY ONE EOF in the REAL default configuration (exact_errors = false, chunked BufferQueue, bulk reads, SIMD scan;
   Inst/InstEofDefault.v): the number of EOF tokens is a function of the observation of the default-mode simulation
   (errors erased, character runs merged, EOF tokens untouched), so the theorem above transports; the fuel bound of the
   termination theorem discharges the simulation's regularity hypothesis.  [eofc] counts the EOF tokens of an output list. *)
From HV Require Inst.InstEofDefault.

Theorem C04_html_default_mode_exactly_one_eof :
  forall ent c1 sk fuel inj chunks s0 last,
  (html_fuel (length (concat chunks) + length chunks * (50 * length inj)) <= fuel)%nat -> (4 <= fuel)%nat ->
  let fast := drive_chunked html_flavour false html_table InstBulk.html_simd ent c1 sk fuel inj chunks
                            (mkmach (init_cfg s0 last false) [] [] 0%N) [] in
  hd (SPanic 0) (snd fast) = SSuspend -> eofc (mout (fst fast)) = 1%nat.
Proof. exact InstEofDefault.html_default_mode_exactly_one_eof. Qed.
Print Assumptions C04_html_default_mode_exactly_one_eof.

Theorem C04_xml_default_mode_exactly_one_eof :
  forall simd ent c1 sk fuel inj chunks s0 last,
  (InstTermX.xml_fuel (length (concat chunks) + length chunks * (50 * length inj)) <= fuel)%nat -> (4 <= fuel)%nat ->
  let fast := drive_chunked xml_flavour false xml_table simd ent c1 sk fuel inj chunks
                            (mkmach (init_cfg s0 last false) [] [] 0%N) [] in
  hd (SPanic 0) (snd fast) = SSuspend -> eofc (mout (fst fast)) = 1%nat.
Proof. exact InstEofDefault.xml_default_mode_exactly_one_eof. Qed.
Print Assumptions C04_xml_default_mode_exactly_one_eof.

Theorem C04_eof_count_is_a_function_of_the_observation : forall o, eofc (BulkSim.obs o) = eofc o.
Proof. exact InstEofDefault.eofc_obs. Qed.
Print Assumptions C04_eof_count_is_a_function_of_the_observation.
