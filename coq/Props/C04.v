(* C04 — parsing is total.  Statements only: reflective checks on the regenerated tokenizer tables, and the no-panic
   theorem of the xml tree-builder model (the html tree builder's is C02_tree_no_panic_partial in Props/C02.v, kept
   there because its proof chain is rebuilt whenever a tree-builder table changes). *)
From Coq Require Import List NArith Bool.
From HV Require Import TokIR.IR TokIR.Interp TokIR.Checks Gen.GenHtmlTok Gen.GenXmlTok Inst.InstHtmlTok Inst.InstXmlTok.
From HV Require XmlNs.XTreeModel XmlNs.XTreeProofs.
Import ListNotations.

(* EOF handling: no EOF arm reads input, and following EOF successor states from any state reaches an arm that
   emits EOF within |states| steps (the EOF graph is acyclic) *)
Theorem C04_html_eof_terminates : eof_rank_ok html_table = [].
Proof. exact html_eof_rank_ok. Qed.
Print Assumptions C04_html_eof_terminates.
Theorem C04_xml_eof_terminates : eof_rank_ok xml_table = [].
Proof. exact xml_eof_rank_ok. Qed.
Print Assumptions C04_xml_eof_terminates.

(* process_char_ref's panic arm is unreachable: a character reference is only ever started in a state for which
   process_char_ref has an arm (and the sub-tokenizer does not change the state) *)
Theorem C04_html_charref_states : charref_states_ok html_flavour html_table = [].
Proof. exact html_charref_states_ok. Qed.
Print Assumptions C04_html_charref_states.
Theorem C04_xml_charref_states : charref_states_ok xml_flavour xml_table = [].
Proof. exact xml_charref_states_ok. Qed.
Print Assumptions C04_xml_charref_states.

(* every arm of every state ends in an explicit transition *)
Theorem C04_html_no_fall : no_fall html_table = [].
Proof. exact html_no_fall. Qed.
Print Assumptions C04_html_no_fall.
Theorem C04_xml_no_fall : no_fall xml_table = [].
Proof. exact xml_no_fall. Qed.
Print Assumptions C04_xml_no_fall.

(* xml tree builder (model coq/XmlNs/XTreeModel.v, tied to XmlTreeBuilder by the C16 correspondence): for EVERY token
   stream the builder reaches none of its expect()/unwrap() sites.  _partial: the tie of the model to the Rust code is
   differential testing; stack depth and time are outside the model. *)
Theorem C04_xml_tree_builder_never_panics_partial :
  forall rts, XTreeModel.tpanic (XTreeModel.run (map XTreeModel.tokenize rts)) = false.
Proof. exact XTreeProofs.tree_builder_never_panics. Qed.
Print Assumptions C04_xml_tree_builder_never_panics_partial.
