(* C04 — parsing is total.  Statements only (tokenizer part; reflective checks on the regenerated tables). *)
From Coq Require Import List NArith Bool.
From HV Require Import TokIR.IR TokIR.Interp TokIR.Checks Gen.GenHtmlTok Gen.GenXmlTok Inst.InstHtmlTok Inst.InstXmlTok.
Import ListNotations.

(* EOF handling: no EOF arm reads input, and following EOF successor states from any state reaches an arm that
   emits EOF within |states| steps (the EOF graph is acyclic) *)
Theorem C04_html_eof_terminates : eof_rank_ok html_table = [].
Proof. exact html_eof_rank_ok. Qed.
Print Assumptions C04_html_eof_terminates.
Theorem C04_xml_eof_terminates : eof_rank_ok xml_table = [].
Proof. exact xml_eof_rank_ok. Qed.
Print Assumptions C04_xml_eof_terminates.

(* process_char_ref's panic arm is unreachable: a character reference is only ever started in a state for which
   process_char_ref has an arm (and the sub-tokenizer does not change the state) *)
Theorem C04_html_charref_states : charref_states_ok html_flavour html_table = [].
Proof. exact html_charref_states_ok. Qed.
Print Assumptions C04_html_charref_states.
Theorem C04_xml_charref_states : charref_states_ok xml_flavour xml_table = [].
Proof. exact xml_charref_states_ok. Qed.
Print Assumptions C04_xml_charref_states.

(* every arm of every state ends in an explicit transition *)
Theorem C04_html_no_fall : no_fall html_table = [].
Proof. exact html_no_fall. Qed.
Print Assumptions C04_html_no_fall.
Theorem C04_xml_no_fall : no_fall xml_table = [].
Proof. exact xml_no_fall. Qed.
Print Assumptions C04_xml_no_fall.
