(* C01 — html tokenization equals the WHATWG tokenization algorithm.  Statements only.
   FULL STATEMENT (not proved here): forall cfg sink input, obs (run html_table cfg sink input) =
   obs (whatwg_run cfg sink (normalize_nl input)).  What is proved: the regenerated transition table equals, cell
   for cell, the golden table (a snapshot audited against WHATWG 13.2.5, deviations listed in DESIGN.md), and the
   structural well-formedness facts below; the interpreter that gives both tables their meaning is tied to the
   Rust tokenizer by the correspondence run. *)
From Coq Require Import List NArith Bool.
From HV Require Import TokIR.IR TokIR.Interp TokIR.Checks Gen.GenHtmlTok Golden.GoldenHtmlTok Inst.InstHtmlTok Inst.InstGolden.
Import ListNotations.

Theorem C01_table_is_golden_partial :
  table_diff hstate_beq html_table g_html_table = [] /\ html_states = g_html_states.
Proof. exact html_table_is_golden. Qed.
Print Assumptions C01_table_is_golden_partial.

Theorem C01_every_arm_terminated : no_fall html_table = [].
Proof. exact html_no_fall. Qed.
Print Assumptions C01_every_arm_terminated.

Theorem C01_charref_only_where_spec_allows : charref_states_ok html_flavour html_table = [].
Proof. exact html_charref_states_ok. Qed.
Print Assumptions C01_charref_only_where_spec_allows.

(* ------------------------------------------------------------------ against a FORMAL WHATWG tokenizer
   TokIR/WhatwgSpec.v is the tokenization algorithm of the standard (13.2.5, all 80 states, preprocessing of 13.2.3.5, named
   references by maximal munch over the WHATWG table CharRef/WhatwgEntities.v, tokens without parse errors, the feedback
   of tree construction scripted) as an executable state machine, transcribed from the text of the standard through
   lib/whatwg_tok.py and independent of html5ever, the interpreter and the tables.
   Stage A (this Example): a TEST by computation - on 33 nasty inputs (all token kinds, every family of states, CR / CR LF /
   NUL, duplicate attributes, legacy character references, numeric references of every class, end of input inside every
   construct, RCDATA / RAWTEXT / script data (escaped, double escaped) / PLAINTEXT / CDATA start states, state switches,
   a script pause inserting text, an encoding suspension) the specification's tokens and the tokens of the interpreter on
   the regenerated table (flat queue, exact_errors = true, regenerated entity and C1 tables) agree: character tokens merged,
   U+0000 kept as its own token, parse errors dropped. *)
From HV Require Import TokIR.BulkSim TokIR.WhatwgSpec Inst.InstWhatwg.
Example C01_whatwg_cross_check :
  map (fun c => spec_tokens 3000 (tc_sk c) (tc_inject c) (tc_state c) (tc_last c) (tc_text c)) cases =
  map (fun c => Some (interp_tokens 3000 (tc_sk c) (tc_inject c) (tc_state c) (tc_last c) (tc_text c))) cases /\
  length cases = 33%nat.
Proof. split; [exact whatwg_cross_check|reflexivity]. Qed.
Print Assumptions C01_whatwg_cross_check.
