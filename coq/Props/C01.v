(* C01 — html tokenization equals the WHATWG tokenization algorithm.  Statements only.
   FULL STATEMENT (not proved here): forall cfg sink input, obs (run html_table cfg sink input) =
   obs (whatwg_run cfg sink (normalize_nl input)).  What is proved: the regenerated transition table equals, cell
   for cell, the golden table (a snapshot audited against WHATWG 13.2.5, deviations listed in DESIGN.md), and the
   structural well-formedness facts below; the interpreter that gives both tables their meaning is tied to the
   Rust tokenizer by the correspondence run. *)
From Coq Require Import List NArith Bool.
From HV Require Import TokIR.IR TokIR.Interp TokIR.Checks Gen.GenHtmlTok Golden.GoldenHtmlTok Inst.InstHtmlTok Inst.InstGolden.
Import ListNotations.

Theorem C01_table_is_golden_partial :
  table_diff hstate_beq html_table g_html_table = [] /\ html_states = g_html_states.
Proof. exact html_table_is_golden. Qed.
Print Assumptions C01_table_is_golden_partial.

Theorem C01_every_arm_terminated : no_fall html_table = [].
Proof. exact html_no_fall. Qed.
Print Assumptions C01_every_arm_terminated.

Theorem C01_charref_only_where_spec_allows : charref_states_ok html_flavour html_table = [].
Proof. exact html_charref_states_ok. Qed.
Print Assumptions C01_charref_only_where_spec_allows.

(* ------------------------------------------------------------------ against a FORMAL WHATWG tokenizer
   TokIR/WhatwgSpec.v is the tokenization algorithm of the standard (13.2.5, all 80 states, preprocessing of 13.2.3.5, named
   references by maximal munch over the WHATWG table CharRef/WhatwgEntities.v, tokens without parse errors, the feedback
   of tree construction scripted) as an executable state machine, transcribed from the text of the standard through
   lib/whatwg_tok.py and independent of html5ever, the interpreter and the tables.
   Stage A (this Example): a TEST by computation - on 33 nasty inputs (all token kinds, every family of states, CR / CR LF /
   NUL, duplicate attributes, legacy character references, numeric references of every class, end of input inside every
   construct, RCDATA / RAWTEXT / script data (escaped, double escaped) / PLAINTEXT / CDATA start states, state switches,
   a script pause inserting text, an encoding suspension) the specification's tokens and the tokens of the interpreter on
   the regenerated table (flat queue, exact_errors = true, regenerated entity and C1 tables) agree: character tokens merged,
   U+0000 kept as its own token, parse errors dropped. *)
From HV Require Import TokIR.BulkSim TokIR.WhatwgSpec Inst.InstWhatwg.
Example C01_whatwg_cross_check :
  map (fun c => spec_tokens 3000 (tc_sk c) (tc_inject c) (tc_state c) (tc_last c) (tc_text c)) cases =
  map (fun c => Some (interp_tokens 3000 (tc_sk c) (tc_inject c) (tc_state c) (tc_last c) (tc_text c))) cases /\
  length cases = 33%nat.
Proof. split; [exact whatwg_cross_check|reflexivity]. Qed.
Print Assumptions C01_whatwg_cross_check.

(* Stages B and C1: the refinement THEOREM for the text states and for tags without attributes (TokIR/WhatwgRefine.v generic
   part, Inst/InstWhatwgRefine.v on the regenerated table).  Simulation relation by state: state correspondence, the live
   variables (temporary buffer, the tag under construction with "appropriate end tag", last start tag), and the LOGICAL INPUT
   of the machine - the reconsumed character followed by the unread queue with CR LF / CR normalised as the interpreter does
   it inside get_char with its ignore_lf flag - equal to the specification's preprocessed remaining input.  One interpreter
   step = one to three specification steps; end() = the specification's end-of-file clauses; emitting a start tag switches
   both tokenizers as the sink answers (PLAINTEXT / RCDATA / RAWTEXT / script data ...).  Discharged for 33 states by symbolic
   execution of both machines on a machine with all fields variables and a character that is a variable, case analysis
   following the tests of the arm.  Observation ([flat_i] / [flat_s]): parse errors dropped, character tokens compared
   character by character (U+0000 as its own token, as html5ever delivers it), every other token exactly.
   _partial - COVERED (33): Data, PLAINTEXT, RCDATA, RAWTEXT, script data and its 17 less-than-sign / end-tag-open /
   end-tag-name / escape states, tag open, end tag open, tag name, self-closing start tag, bogus comment.
   NOT covered (a run that reaches one of them is outside the theorem - the visiting hypothesis fails): before attribute name,
   attribute name, after attribute name, before attribute value, attribute value (double-quoted / single-quoted / unquoted),
   after attribute value (quoted); markup declaration open, the 10 comment states; the 16 DOCTYPE states; the
   3 CDATA section states; the character reference states.  Sink: no Script and no EncodingIndicator answer, one feed call. *)
From HV Require Import TokIR.WhatwgRefine HtmlSer.SerLex CharRef.CrInterpInst Inst.InstWhatwgRefine.

Theorem C01_refines_whatwg_text_and_attributeless_tags_partial :
  forall simd ent c1 sk env, e_script env = None ->
  (forall n, lookup_resp n (sk_resp sk) <> Some RespScript) -> (forall n, lookup_resp n (sk_resp sk) <> Some RespEncoding) ->
  (forall n, lookup_sw n (e_switches env) = sw_of_resp (lookup_resp n (sk_resp sk))) ->
  forall s0 w last text fuel m2 m3,
  covered s0 = true -> wstate_of_start s0 = Some w ->
  let m1 := RecordUpdate.RecordSet.set mq (fun q => q ++ text) (mkmach (init_cfg s0 last false) ([] : list N) [] 0%N) in
  (forall n m', iter html_flavour html_table simd ent c1 sk n m1 = Some m' -> cref (mc m') = None /\ covered (st (mc m')) = true) ->
  feed [] fq_next fq_peek (@app N) (fun q => q) fq_run1 html_flavour true html_table simd ent c1 sk fuel m1 = (m2, SSuspend) ->
  tok_end [] fq_next fq_peek (@app N) (fun q => q) fq_run1 html_flavour true html_table simd ent c1 sk fuel m2 = (m3, SSuspend) ->
  drive_flat html_flavour true html_table simd ent c1 sk fuel [] [text] (mkmach (init_cfg s0 last false) [] [] 0%N) [] = (m3, [SSuspend; SSuspend]) /\
  exists fs cfF, wrun fs env (winit w last) (preprocess text) = Some cfF /\ flat_i (mout m3) = flat_s (wout cfF).
Proof. exact html_refines_whatwg_partial. Qed.
Print Assumptions C01_refines_whatwg_text_and_attributeless_tags_partial.

Theorem C01_covered_states : forallb covered covered_states = true /\ length covered_states = 33%nat.
Proof. exact covered_states_ok. Qed.
Print Assumptions C01_covered_states.

(* non-vacuity (a test, by computation): a script-data text walking through the escaped and double escaped states, dashes,
   less-than signs, a non-appropriate end tag, CR LF, CR, U+0000: every machine of the run is in a covered state - the
   hypothesis of the theorem holds - and the 54 observable items agree *)
Example C01_refine_example :
  forallb (fun n => match iter html_flavour html_table html_simd0 html_ent html_c1 nosink n rex_m1 with
                    | Some m' => match cref (mc m') with None => covered (st (mc m')) | Some _ => false end
                    | None => true end) (seq 0 80) = true /\
  iter html_flavour html_table html_simd0 html_ent html_c1 nosink 60 rex_m1 = None /\
  (let r := drive_flat html_flavour true html_table html_simd0 html_ent html_c1 nosink 200 [] [rex_text]
              (mkmach (init_cfg (HRawData KScriptData) rex_last false) [] [] 0%N) [] in
   snd r = [SSuspend; SSuspend] /\
   exists cfF, wrun 200 rex_env (winit WScriptData rex_last) (preprocess rex_text) = Some cfF /\
               flat_i (mout (fst r)) = flat_s (wout cfF) /\ List.length (flat_s (wout cfF)) = 54%nat).
Proof. exact refine_example. Qed.
Print Assumptions C01_refine_example.

(* ------------------------------------------------------------------------------------------------------------
   The same refinement in the tokenizer's REAL default configuration (exact_errors = false, chunked BufferQueue, bulk
   reads, SIMD scan; Inst/InstWhatwgDefault.v): the C01 observation [flat_i] factors through the observation [obs] of the
   default-mode simulation (TokIR/BulkSim.v), and the fuel bound of C04 discharges its regularity hypothesis.  The
   reference run is still the one that must only visit covered states (same _partial coverage as above); it is taken
   with any fuel above fuel0 and returns normally by C04. *)
From HV Require Import TokIR.Chunk TokIR.QueueSim Inst.InstBulk Inst.InstTermination Inst.InstWhatwgDefault.

Theorem C01_default_mode_refines_whatwg_partial :
  forall ent c1 sk env, e_script env = None ->
  (forall n, lookup_resp n (sk_resp sk) <> Some RespScript) -> (forall n, lookup_resp n (sk_resp sk) <> Some RespEncoding) ->
  (forall n, lookup_sw n (e_switches env) = sw_of_resp (lookup_resp n (sk_resp sk))) ->
  forall s0 w last text fuel,
  covered s0 = true -> wstate_of_start s0 = Some w ->
  (html_fuel (length text) <= fuel)%nat -> (4 <= fuel)%nat ->
  let fast := drive_chunked html_flavour false html_table html_simd ent c1 sk fuel [] [text]
                (mkmach (init_cfg s0 last false) [] [] 0%N) [] in
  let m1 := RecordUpdate.RecordSet.set mq (fun q => q ++ text) (mkmach (init_cfg s0 last false) ([] : list N) [] 0%N) in
  (forall n m', iter html_flavour html_table html_simd ent c1 sk n m1 = Some m' -> cref (mc m') = None /\ covered (st (mc m')) = true) ->
  exists fuel0, forall fuelr m2 m3, (fuel0 <= fuelr)%nat ->
  feed [] fq_next fq_peek (@app N) (fun q => q) fq_run1 html_flavour true html_table html_simd ent c1 sk fuelr m1 = (m2, SSuspend) ->
  tok_end [] fq_next fq_peek (@app N) (fun q => q) fq_run1 html_flavour true html_table html_simd ent c1 sk fuelr m2 = (m3, SSuspend) ->
  snd fast = [SSuspend; SSuspend] /\
  exists fs cfF, wrun fs env (winit w last) (preprocess text) = Some cfF /\ flat_i (mout (fst fast)) = flat_s (wout cfF).
Proof. exact html_default_mode_refines_whatwg_partial. Qed.
Print Assumptions C01_default_mode_refines_whatwg_partial.

(* the C01 observation only depends on the simulation's observation *)
Theorem C01_observation_factors_through_obs : forall a b, obs a = obs b -> flat_i a = flat_i b.
Proof. exact obs_eq_flat_i. Qed.
Print Assumptions C01_observation_factors_through_obs.

(* non-vacuity (a test, by computation): the script-data text above in default mode, fuel exactly html_fuel |text| *)
Example C01_default_mode_refine_example :
  let fast := drive_chunked html_flavour false html_table html_simd html_ent html_c1 nosink (html_fuel (length rex_text)) [] [rex_text]
                (mkmach (init_cfg (HRawData KScriptData) rex_last false) [] [] 0%N) [] in
  snd fast = [SSuspend; SSuspend] /\
  exists cfF, wrun 200 rex_env (winit WScriptData rex_last) (preprocess rex_text) = Some cfF /\
              flat_i (mout (fst fast)) = flat_s (wout cfF) /\ List.length (flat_s (wout cfF)) = 54%nat.
Proof. exact default_refine_example. Qed.
Print Assumptions C01_default_mode_refine_example.
