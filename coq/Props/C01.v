(* C01 — html tokenization equals the WHATWG tokenization algorithm.  Statements only.
   FULL STATEMENT (not proved here): forall cfg sink input, obs (run html_table cfg sink input) =
   obs (whatwg_run cfg sink (normalize_nl input)).  What is proved: the regenerated transition table equals, cell
   for cell, the golden table (a snapshot audited against WHATWG 13.2.5, deviations listed in DESIGN.md), and the
   structural well-formedness facts below; the interpreter that gives both tables their meaning is tied to the
   Rust tokenizer by the correspondence run. *)
From Coq Require Import List NArith Bool.
From HV Require Import TokIR.IR TokIR.Interp TokIR.Checks Gen.GenHtmlTok Golden.GoldenHtmlTok Inst.InstHtmlTok Inst.InstGolden.
Import ListNotations.

Theorem C01_table_is_golden_partial :
  table_diff hstate_beq html_table g_html_table = [] /\ html_states = g_html_states.
Proof. exact html_table_is_golden. Qed.
Print Assumptions C01_table_is_golden_partial.

Theorem C01_every_arm_terminated : no_fall html_table = [].
Proof. exact html_no_fall. Qed.
Print Assumptions C01_every_arm_terminated.

Theorem C01_charref_only_where_spec_allows : charref_states_ok html_flavour html_table = [].
Proof. exact html_charref_states_ok. Qed.
Print Assumptions C01_charref_only_where_spec_allows.
