(* C20 - RcDom materialises sink operations faithfully.
   Only statements, closed by [exact], and their assumptions.

   Vocabulary (coq/Dom/DomSpec.v, coq/RcDom/RcModel.v):
     run ops            the abstract DOM the TreeSink documentation prescribes for the op sequence
     contract_run d ops every op is issued in a state in which the documented calling contract allows it
     rrun false ops     the executable mirror of rcdom/lib.rs at the pinned commit (Ok state | Panic site)
     rrun true ops      the mirror of the REPAIRED rcdom/lib.rs (fix: commits fade576, 67b052e, 9df0d5d, 3dab7ed:
                        node.data, tree-order search over HTML elements, copies with consistent parent links,
                        replaced children detached, template contents copied)
     clone_finite_run   at every option->selectedcontent request the option's subtree, template contents
                        included, is finite (Dom/DomCopy.v): no template sits inside its own contents
     abs s              the model state with its parent links forgotten
     Inv s              parent n = Some p <-> n in children p, child lists duplicate free, acyclic, ... *)
From Coq Require Import List NArith Bool.
From HV Require Import Dom.DomSpec Dom.DomCopy RcDom.RcModel RcDom.RcBasics RcDom.RcInv RcDom.RcProofs
                       RcDom.RcSerialize RcDom.RcClone RcDom.RcContract RcDom.RcCloneProofs RcDom.RcCloneFinite
                       RcDom.RcCloneDeep.
Import ListNotations.

(* ===== the repaired code: every operation, option->selectedcontent cloning included =====
   No panic, same arena (children order, text merging, attribute merging without overwriting,
   template contents, re-parenting, deep copies in the first selectedcontent in tree order,
   replaced children detached), same handle table, same quirks mode; parent links, duplicate
   freeness and acyclicity are kept.
   The premise clone_finite_run is needed: the calling contract looks at parent chains only and
   so does not exclude a template inserted (through a select and an option) into its own
   contents, on which clone_with_subtree does not terminate (C20_refines_finiteness_premise_needed).
   It holds trivially for sequences without clone requests (C20_refines_repaired_without_clone). *)
Theorem C20_refines :
  forall ops, contract_run init ops = true -> clone_finite_run init ops = true ->
  exists s, rrun true ops = Ok s /\ Inv s /\ abs s = run ops.
Proof. exact refines. Qed.
Print Assumptions C20_refines.

Theorem C20_refines_finiteness_premise_needed :
  exists ops s,
    contract_run init ops = true /\ clone_finite_run init ops = false /\ rrun true ops = Ok s /\
    exists n p, In n (rkids s p) /\ rparent s n <> Some p.
Proof. exact finiteness_premise_needed. Qed.
Print Assumptions C20_refines_finiteness_premise_needed.

Theorem C20_refines_repaired_without_clone :
  forall ops, contract_run init ops = true -> no_clone ops = true ->
  exists s, rrun true ops = Ok s /\ Inv s /\ abs s = run ops.
Proof. intros ops C N. apply refines; [exact C|]. apply no_clone_finite. exact N. Qed.
Print Assumptions C20_refines_repaired_without_clone.

(* the step behind it: the repaired maybe_clone_an_option_into_selectedcontent computes
   DomSpec.clone_option (nearest ancestor select, first selectedcontent in tree order,
   deep copy in the same allocation order, children replaced) and keeps the invariant *)
Theorem C20_clone_step :
  forall s n, Inv s -> n < rsize s -> is_html (rdata s n) s_option = true ->
  forallb (closed (S (rsize s)) (abs s)) (rkids s n) = true ->
  exists s', rc_clone_option true s n = Ok s' /\ Inv s' /\ abs s' = clone_option (abs s) n.
Proof. exact rc_clone_option_ok. Qed.
Print Assumptions C20_clone_step.

(* the first selectedcontent descendant (tree order) of the option's nearest ancestor select
   receives deep copies of the option's children (equal as trees once node identities are
   forgotten): the property refuted for the pinned commit (C20_selectedcontent_refuted) holds
   for the repaired code.  Uses: DomSpec.copy is a deep copy (Dom/DomCopyProofs.v). *)
Theorem C20_selectedcontent :
  forall ops o s0 s1 n,
    contract_run init (ops ++ [OpCloneOption o]) = true ->
    clone_finite_run init (ops ++ [OpCloneOption o]) = true ->
    rrun true ops = Ok s0 -> rresolve s0 o = Some n ->
    rapply true s0 (OpCloneOption o) = Ok s1 ->
    selectedcontent_filled s0 s1 n.
Proof. exact selectedcontent_property_repaired. Qed.
Print Assumptions C20_selectedcontent.

Theorem C20_parent_links_repaired :
  forall ops, contract_run init ops = true -> clone_finite_run init ops = true ->
  exists s, rrun true ops = Ok s /\
            (forall n p, rparent s n = Some p <-> In n (rkids s p)) /\
            (forall p, NoDup (rkids s p)) /\
            (forall n, ~ Anc s n n).
Proof.
  intros ops C F. destruct (refines ops C F) as [s [R [I _]]].
  exists s. split; [exact R|]. split; [exact (i_parent s I)|]. split; [exact (i_nodup s I)|exact (i_acyclic s I)].
Qed.
Print Assumptions C20_parent_links_repaired.

Theorem C20_serialize_preorder_repaired :
  forall ops, contract_run init ops = true -> clone_finite_run init ops = true ->
  exists s ts,
    rrun true ops = Ok s /\
    to_tree (S (rsize s)) (abs s) 0 = Some (T 0 Document ts) /\
    serialize (S (length (flat_map events ts))) s 0 false = SerOk (flat_map events ts) /\
    opens (flat_map events ts) = flat_map tree_ids ts /\
    NoDup (flat_map tree_ids ts) /\
    (forall y, In y (flat_map tree_ids ts) <-> Anc s 0 y).
Proof.
  intros ops C F. destruct (refines ops C F) as [s [R [I _]]].
  destruct (serialize_preorder s I) as [ts P]. exists s, ts. split; [exact R|exact P].
Qed.
Print Assumptions C20_serialize_preorder_repaired.

(* ===== the code at the pinned commit (rrun false), kept as the record of the finding =====
   FULL STATEMENT (refuted, see C20_refines_refuted / C20_selectedcontent_refuted):
     forall ops, contract_run init ops = true -> exists s, rrun false ops = Ok s /\ abs s = run ops.
   What holds: the same for every sequence whose option->selectedcontent requests are ones
   for which the specification itself changes nothing ([clone_trivial]); in particular for
   every sequence without such a request.  No panic, same arena, same handle table, same
   quirks mode: children order, text merging, attribute merging without overwriting,
   template contents, re-parenting. *)
Theorem C20_refines_outside_finding :
  forall ops, contract_run init ops = true -> clone_trivial init ops ->
  exists s, rrun false ops = Ok s /\ Inv s /\ abs s = run ops.
Proof. exact refines_outside_finding. Qed.
Print Assumptions C20_refines_outside_finding.

Theorem C20_refines_without_clone :
  forall ops, contract_run init ops = true -> no_clone ops = true ->
  exists s, rrun false ops = Ok s /\ Inv s /\ abs s = run ops.
Proof. exact refines_without_clone. Qed.
Print Assumptions C20_refines_without_clone.

Theorem C20_refines_refuted :
  exists ops s, contract_run init ops = true /\ rrun false ops = Ok s /\ abs s <> run ops.
Proof. exact refines_refuted. Qed.
Print Assumptions C20_refines_refuted.

(* every node's parent link names exactly the node whose child list contains it;
   child lists are duplicate free; no node is its own ancestor (fields of Inv) -
   for every op sequence that respects the contract in the model's own states,
   option->selectedcontent requests included *)
Theorem C20_parent_links :
  forall ops, rc_contract_run false rinit ops = true ->
  exists s, rrun false ops = Ok s /\
            (forall n p, rparent s n = Some p <-> In n (rkids s p)) /\
            (forall p, NoDup (rkids s p)) /\
            (forall n, ~ Anc s n n).
Proof.
  intros ops H. destruct (parent_links ops H) as [s [R I]].
  exists s. split; [exact R|]. split; [exact (i_parent s I)|]. split; [exact (i_nodup s I)|exact (i_acyclic s I)].
Qed.
Print Assumptions C20_parent_links.

(* the contract's cycle test (a fuelled walk to the root that says "yes" when the
   fuel runs out) is exact on every state the model can reach: the contract is
   not stricter than "the node is not the new parent or one of its ancestors" *)
Theorem C20_contract_cycle_check_exact :
  forall s, Inv s -> forall c p, in_subtree (abs s) c p = true <-> AncS s c p.
Proof. exact in_subtree_exact. Qed.
Print Assumptions C20_contract_cycle_check_exact.

(* serializing the document (ChildrenOnly, as html5ever::serialize does) emits the
   events of the tree reachable through the child lists: every node below the
   document opened exactly once, in pre-order (document order), elements closed
   after their children.  Reading decision: template contents are a separate
   fragment that RcDom's Serialize does not enter. *)
Theorem C20_serialize_preorder :
  forall ops, rc_contract_run false rinit ops = true ->
  exists s ts,
    rrun false ops = Ok s /\
    to_tree (S (rsize s)) (abs s) 0 = Some (T 0 Document ts) /\
    serialize (S (length (flat_map events ts))) s 0 false = SerOk (flat_map events ts) /\
    opens (flat_map events ts) = flat_map tree_ids ts /\
    NoDup (flat_map tree_ids ts) /\
    (forall y, In y (flat_map tree_ids ts) <-> Anc s 0 y).
Proof.
  intros ops H. destruct (parent_links ops H) as [s [R I]].
  destruct (serialize_preorder s I) as [ts P]. exists s, ts. split; [exact R|exact P].
Qed.
Print Assumptions C20_serialize_preorder.

(* the first selectedcontent descendant (tree order) of the option's select
   receives deep copies of the option's children: refuted for the code as it is
   (nothing is ever cloned: the search inspects the select's own data) ... *)
Theorem C20_selectedcontent_refuted : ~ selectedcontent_property false.
Proof. exact selectedcontent_refuted. Qed.
Print Assumptions C20_selectedcontent_refuted.

(* ... and, behind that typo, the search was breadth first and looked at local names only: repaired in /repo (tree
   order, HTML elements).  On the witnesses the repaired model refines the specification, cloning included. *)
Theorem C20_clone_witnesses_refine_after_repair :
  abs (state_of (rrun true (w1 ++ [OpCloneOption 4]))) = run (w1 ++ [OpCloneOption 4]) /\
  abs (state_of (rrun true (w2 ++ [OpCloneOption 6]))) = run (w2 ++ [OpCloneOption 6]) /\
  length (rkids (state_of (rrun true (w2 ++ [OpCloneOption 6]))) 4) = 1 /\
  rkids (state_of (rrun true (w2 ++ [OpCloneOption 6]))) 5 = [].
Proof. exact clone_witnesses_refine_after_repair. Qed.
Print Assumptions C20_clone_witnesses_refine_after_repair.

(* (the parent links of the copies and of the children they replace were repaired in /repo: the former
   refutation is now a pair of positive witnesses, instances of C20_parent_links_repaired evaluated by vm_compute) *)
Theorem C20_parent_links_repaired_witnesses :
  links_ok_b (state_of (rrun true (w1 ++ [OpCloneOption 4]))) = true /\
  links_ok_b (state_of (rrun true (w1b ++ [OpCloneOption 4]))) = true /\
  rparent (state_of (rrun true (w1b ++ [OpCloneOption 4]))) 3 = None /\
  length (rkids (state_of (rrun true (w1b ++ [OpCloneOption 4]))) 2) = 2.
Proof. exact parent_links_repaired_witnesses. Qed.
Print Assumptions C20_parent_links_repaired_witnesses.

(* outside the contract (tree builders always detach first; the trait text would
   allow it): append_before_sibling of an EARLIER sibling under the same parent
   puts the node AFTER the reference sibling, because the index is computed
   before the removal.  Recorded as a latent deviation, not judged by the check. *)
Theorem C20_before_sibling_same_parent_latent_outside_contract :
  contract_run init w3 = false /\
  rkids (state_of (rrun false w3)) 1 = [3; 2] /\ kids (run w3) 1 = [2; 3].
Proof. exact before_sibling_same_parent_latent. Qed.
Print Assumptions C20_before_sibling_same_parent_latent_outside_contract.

(* non-vacuity: a foster-parenting / adoption-agency shaped sequence (text merge
   before a sibling, remove + re-append, reparent_children, add_attrs_if_missing,
   template contents) respects the contract, is outside the finding, and the
   theorems' conclusions are about a non-trivial tree *)
Definition q (l : str) : qualname := {| q_prefix := None ; q_ns := s_ns_html ; q_local := l |}.
Definition at_ (l v : str) : dattr := {| d_name := {| q_prefix := None ; q_ns := [] ; q_local := l |} ; d_value := v |}.
Definition ex_ops : list sinkop :=
  [ OpAppendDoctype [104;116;109;108]%N [] [] ;
    OpCreateElement 1 (q [98;111;100;121]%N) [at_ [105;100]%N [49]%N] false false false ; OpAppend 0 (inl 1) ;
    OpCreateElement 2 (q [116;97;98;108;101]%N) [] false false false ; OpAppend 1 (inl 2) ;
    OpAppendBasedOnParent 2 1 (inr [102;111]%N) ; OpAppendBasedOnParent 2 1 (inr [111]%N) ;
    OpCreateElement 3 (q [98]%N) [] false false false ; OpAppendBeforeSibling 2 (inl 3) ;
    OpCreateElement 4 (q [105]%N) [] false false false ; OpAppend 3 (inl 4) ; OpAppend 4 (inr [120]%N) ;
    OpCreateElement 5 (q [98]%N) [] false false false ; OpReparentChildren 3 5 ; OpAppend 3 (inl 5) ;
    OpRemoveFromParent 4 ; OpAppend 2 (inl 4) ;
    OpAddAttrsIfMissing 1 [at_ [105;100]%N [50]%N ; at_ [99]%N [51]%N] ;
    OpCreateElement 6 (q [116;101;109;112;108;97;116;101]%N) [] true false false ; OpAppend 1 (inl 6) ;
    OpGetTemplateContents 6 7 ; OpAppend 7 (inr [116]%N) ;
    OpCreateElement 8 (q s_option) [] false false false ; OpAppend 5 (inl 8) ; OpCloneOption 8 ].
(* arena: 0 document [doctype 1, body 2]; body [text 4 "foo", b 5, table 3, template 10];
   table [i 6 [text 7 "x"]]; b 5 [b 8 [option 12]]; template contents 9 [text 11 "t"] *)
Example C20_nonvacuous :
  contract_run init ex_ops = true /\ rc_contract_run false rinit ex_ops = true /\
  clone_trivial init ex_ops /\
  map n_kids (d_nodes (run ex_ops)) = [[1; 2]; []; [4; 5; 3; 10]; [6]; []; [8]; [7]; []; [12]; [11]; []; []; []] /\
  map d_value (attrs_of (data_of (run ex_ops) 2)) = [[49]; [51]]%N /\
  data_of (run ex_ops) 4 = Text [102;111;111]%N.
Proof. vm_compute. repeat split; auto. Qed.

(* non-vacuity of the clone case: on the witness of the former finding every premise of
   C20_refines holds and the request really copies (two children arrive in the selectedcontent) *)
Example C20_refines_nonvacuous_clone :
  contract_run init (w1 ++ [OpCloneOption 4]) = true /\
  clone_finite_run init (w1 ++ [OpCloneOption 4]) = true /\
  length (kids (run (w1 ++ [OpCloneOption 4])) 3) = 2 /\
  kids (run w1) 3 = [].
Proof. vm_compute. repeat split; auto. Qed.
