(* C15 — xml5ever: result independent of chunking and diagnostic options.  Statements only.

   WHAT IS PROVED: (1) reflective facts on the regenerated xml table: bulk sets contain CR and NUL and every
   singled-out character; reads come first.  (2) chunk independence of the tokenizer's reference semantics (flat
   queue, exact_errors = true) for the regenerated xml table — _partial: the run relation carries the side condition
   [step_ok] (the reconsume flag is clear whenever a look-ahead state is entered), which is true of the xml table by
   inspection (no `reconsume` targets MarkupDecl / AfterDoctypeName) but is not proved as an invariant here.
   NOT PROVED (tied by differential runs / oracles in the check): agreement of the chunked-queue interpreter with the
   reference semantics up to merging of character tokens, agreement with the Rust code, the tree-builder half, the
   normalisation law tree(x) = tree(normalise x). *)
From Coq Require Import List NArith Bool.
From HV Require Import TokIR.IR TokIR.Interp TokIR.Checks TokIR.Chunk Gen.GenXmlTok Inst.InstXmlTok Inst.InstChunk.
Import ListNotations.

Theorem C15_bulk_sets_adequate : sets_adequate xstate_beq false xml_table = [].
Proof. exact xml_sets_adequate. Qed.
Print Assumptions C15_bulk_sets_adequate.

Theorem C15_reads_first : reads_first xml_table = [].
Proof. exact xml_reads_first. Qed.
Print Assumptions C15_reads_first.

Theorem C15_reference_semantics_chunk_independent_partial :
  forall simd ent c1 sk inj cs1 cs2 m m1 m2,
  all_nonempty cs1 -> all_nonempty cs2 -> cs1 <> [] -> cs2 <> [] -> concat cs1 = concat cs2 ->
  feed_chunks xml_flavour true xml_table simd ent c1 sk inj m cs1 m1 ->
  feed_chunks xml_flavour true xml_table simd ent c1 sk inj m cs2 m2 -> m1 = m2.
Proof. exact xml_chunking_independent_partial. Qed.
Print Assumptions C15_reference_semantics_chunk_independent_partial.

Theorem C15_table_shapes : (forall s, shape xml_flavour (xml_step s) = true) /\ (forall s, no_eof (xml_step s) = true).
Proof. split; [exact xml_shape_all|exact xml_no_eof_all]. Qed.
Print Assumptions C15_table_shapes.
