(* C15 — xml5ever: result independent of chunking and diagnostic options.  Statements only. *)
From Coq Require Import List NArith Bool.
From HV Require Import TokIR.IR TokIR.Interp TokIR.Checks Gen.GenXmlTok Inst.InstXmlTok.
Import ListNotations.

(* every bulk-read state of the regenerated xml table stops at CR and NUL (the characters the slow path rewrites)
   and at every character its FromSet arms single out; the default arm is the per-character form of the run arm *)
Theorem C15_bulk_sets_adequate : sets_adequate xstate_beq false xml_table = [].
Proof. exact xml_sets_adequate. Qed.
Print Assumptions C15_bulk_sets_adequate.

Theorem C15_reads_first : reads_first xml_table = [].
Proof. exact xml_reads_first. Qed.
Print Assumptions C15_reads_first.
