(* C15 — xml5ever: result independent of chunking and diagnostic options.  Statements only.

   WHAT IS PROVED: (1) reflective facts on the regenerated xml table: bulk sets contain CR and NUL and every
   singled-out character; reads come first.  (2) chunk independence of the tokenizer's reference semantics (flat
   queue, exact_errors = true) for the regenerated xml table.  The run relation carries the side condition [step_ok]
   (the reconsume flag is clear whenever a state whose body starts with eat() is entered: xml's eat does not look at
   that flag); it is proved to be an INVARIANT of the interpreter on the regenerated table (TokIR/ChunkInv.v, two
   decidable table checks: every step body starts with a consuming read or eat, no arm reconsumes into an eat state),
   so that on every machine reachable from an initial one the relation IS the fuelled executable loop
   (C15_run_relation_is_the_executable_loop).  The theorem keeps the suffix _partial because of what follows.
   NOT PROVED (tied by differential runs / oracles in the check): agreement of the chunked-queue interpreter with the
   reference semantics up to merging of character tokens, agreement with the Rust code, the
   normalisation law tree(x) = tree(normalise x).
   (3) at the END of this file: the tree-builder half over the token-level model of the XML tree builder - its result
   does not depend on how character data is cut into character tokens (only the parse-error count can). *)
From Coq Require Import List NArith Bool.
From HV Require Import TokIR.IR TokIR.Interp TokIR.Checks TokIR.Chunk TokIR.QueueSim TokIR.ChunkExec TokIR.ChunkInv Gen.GenXmlTok Inst.InstXmlTok Inst.InstChunk.
Import ListNotations.

Theorem C15_bulk_sets_adequate : sets_adequate xstate_beq false xml_table = [].
Proof. exact xml_sets_adequate. Qed.
Print Assumptions C15_bulk_sets_adequate.

Theorem C15_reads_first : reads_first xml_table = [].
Proof. exact xml_reads_first. Qed.
Print Assumptions C15_reads_first.

Theorem C15_reference_semantics_chunk_independent_partial :
  forall simd ent c1 sk inj cs1 cs2 m m1 m2,
  all_nonempty cs1 -> all_nonempty cs2 -> cs1 <> [] -> cs2 <> [] -> concat cs1 = concat cs2 ->
  feed_chunks xml_flavour true xml_table simd ent c1 sk inj m cs1 m1 ->
  feed_chunks xml_flavour true xml_table simd ent c1 sk inj m cs2 m2 -> m1 = m2.
Proof. exact xml_chunking_independent_partial. Qed.
Print Assumptions C15_reference_semantics_chunk_independent_partial.

Theorem C15_table_shapes : (forall s, shape xml_flavour (xml_step s) = true) /\ (forall s, no_eof (xml_step s) = true).
Proof. split; [exact xml_shape_all|exact xml_no_eof_all]. Qed.
Print Assumptions C15_table_shapes.

(* the side condition of the run relation is an invariant: kept by every step, true of every initial machine, and on
   J-machines the relation is the executable loop *)
Theorem C15_step_keeps_invariant : forall ex simd ent c1 sk m m' r,
  J xml_table m ->
  step [] fq_next fq_peek (@app N) (fun q => q) fq_run1 xml_flavour ex xml_table simd ent c1 sk false m = (m', r) ->
  J xml_table m'.
Proof. exact xml_step_keeps_J. Qed.
Print Assumptions C15_step_keeps_invariant.

Theorem C15_initial_machine_invariant : forall s0 last bom q o k, J xml_table (mkmach (init_cfg s0 last bom) q o k).
Proof. exact xml_J_init. Qed.
Print Assumptions C15_initial_machine_invariant.

Theorem C15_run_relation_is_the_executable_loop :
  forall simd ent c1 sk fuel m m' r,
  J xml_table m ->
  run [] fq_next fq_peek (@app N) (fun q => q) fq_run1 xml_flavour true xml_table simd ent c1 sk false fuel m = (m', r) ->
  (oruns xml_flavour true xml_table simd ent c1 sk m m' r /\ J xml_table m') \/ r = SPanic 98.
Proof. exact xml_run_is_relation. Qed.
Print Assumptions C15_run_relation_is_the_executable_loop.

Theorem C15_feeding_keeps_invariant :
  forall simd ent c1 sk inj cs m m',
  feed_chunks xml_flavour true xml_table simd ent c1 sk inj m cs m' -> J xml_table m -> J xml_table m'.
Proof. exact xml_feed_chunks_keeps_J. Qed.
Print Assumptions C15_feeding_keeps_invariant.

(* T2 for exact_errors = true (TokIR/QueueSim.v, generic in the table): the interpreter over the CHUNKED queue - the one the
   correspondence check runs against the Rust tokenizer - and the reference interpreter over the flat queue deliver the
   same tokens with parse errors and line numbers, the same configuration, unread input and results, for every list of
   chunks, sink script, injected text and fuel: with exact_errors the interpreter never takes a bulk read, and every
   queue operation is adequate for its flat reading.  (For exact_errors = false the two differ by the merging of
   adjacent character tokens and by the fast path's missing per-character errors: that leg stays differential.) *)
Theorem C15_chunked_interpreter_is_reference_exact :
  forall simd ent c1 sk fuel inject chunks (m : mach _ queue) log,
  wfq (mq m) ->
  let r := drive_chunked xml_flavour true xml_table simd ent c1 sk fuel inject chunks m log in
  let r' := drive_flat xml_flavour true xml_table simd ent c1 sk fuel inject chunks (mkmach (mc m) (qflat (mq m)) (mout m) (mcons m)) log in
  wfq (mq (fst r)) /\
  mc (fst r) = mc (fst r') /\ qflat (mq (fst r)) = mq (fst r') /\ mout (fst r) = mout (fst r') /\ mcons (fst r) = mcons (fst r') /\
  snd r = snd r'.
Proof. exact (chunked_is_reference_exact xml_flavour xml_table). Qed.
Print Assumptions C15_chunked_interpreter_is_reference_exact.

(* the chunk-independence theorem at the level of the EXECUTABLE driver (TokIR/ChunkExec.v): two chunkings of one input
   through drive_flat - push each chunk, feed until done with script pauses injecting text, then end() - reach the same
   final machine (tokens with parse errors and line numbers, configuration) and the same result of end(), whenever
   every feed call of both runs ended regularly (done / script / encoding indicator, i.e. no panic value and no fuel
   exhaustion) and the BOM flag is clear.  With C15_chunked_interpreter_is_reference_exact the same holds of
   drive_chunked, the interpreter that runs against the Rust code, in exact mode. *)
Theorem C15_driver_chunking_independent :
  forall simd ent c1 sk fuel inj cs1 cs2 (m : mach xstate (list N)),
  J xml_table m ->
  discard_bom (mc m) = false ->
  all_nonempty cs1 -> all_nonempty cs2 -> cs1 <> [] -> cs2 <> [] -> concat cs1 = concat cs2 ->
  all_done (tl (snd (drive_flat xml_flavour true xml_table simd ent c1 sk fuel inj cs1 m []))) ->
  all_done (tl (snd (drive_flat xml_flavour true xml_table simd ent c1 sk fuel inj cs2 m []))) ->
  fst (drive_flat xml_flavour true xml_table simd ent c1 sk fuel inj cs1 m []) =
  fst (drive_flat xml_flavour true xml_table simd ent c1 sk fuel inj cs2 m []) /\
  hd SSuspend (snd (drive_flat xml_flavour true xml_table simd ent c1 sk fuel inj cs1 m [])) =
  hd SSuspend (snd (drive_flat xml_flavour true xml_table simd ent c1 sk fuel inj cs2 m [])).
Proof. exact xml_drive_chunking_independent. Qed.
Print Assumptions C15_driver_chunking_independent.

(* ... and including the byte order mark: from a fresh machine (empty queue), whatever its discard_bom flag, as long as
   neither chunking starts with a chunk that consists of U+FEFF alone (the first feed that sees input looks at the
   first character of the stream only) *)
Theorem C15_driver_chunking_independent_bom :
  forall simd ent c1 sk fuel inj cs1 cs2 (m : mach xstate (list N)),
  J xml_table m ->
  mq m = [] ->
  all_nonempty cs1 -> all_nonempty cs2 -> cs1 <> [] -> cs2 <> [] -> concat cs1 = concat cs2 ->
  hd [] cs1 <> [BOM] -> hd [] cs2 <> [BOM] ->
  all_done (tl (snd (drive_flat xml_flavour true xml_table simd ent c1 sk fuel inj cs1 m []))) ->
  all_done (tl (snd (drive_flat xml_flavour true xml_table simd ent c1 sk fuel inj cs2 m []))) ->
  fst (drive_flat xml_flavour true xml_table simd ent c1 sk fuel inj cs1 m []) =
  fst (drive_flat xml_flavour true xml_table simd ent c1 sk fuel inj cs2 m []) /\
  hd SSuspend (snd (drive_flat xml_flavour true xml_table simd ent c1 sk fuel inj cs1 m [])) =
  hd SSuspend (snd (drive_flat xml_flavour true xml_table simd ent c1 sk fuel inj cs2 m [])).
Proof. exact xml_drive_chunking_independent_bom. Qed.
Print Assumptions C15_driver_chunking_independent_bom.

(* ---------------------------------------------------------------------------------------------------------------
   The tree-builder half (XmlNs/XSplit.v, over the token-level model of xml5ever's tree builder, XmlNs/XTreeModel.v).
   The tokenizer theorems above give the same token stream for two chunkings of one input up to the SPLITTING of
   character tokens.  The XML tree builder does not see that difference: *)
From HV Require XmlNs.XTreeModel XmlNs.XSplit.

(* two consecutive character tokens act like the one token holding both texts, in every builder state: the two
   resulting states agree on the phase, the open elements (with all children built so far, text nodes merged),
   the namespace stack, the current namespace map, the document children and the panic flag - on every field
   except the number of parse errors reported so far ([noerr] sets that counter to 0), which no rule reads.
   The counter can differ in the Start and End phases only, where character data is inspected as a whole by the
   white-space test: "xy" before the root element is one error, "x" then "y" are two.  Empty pieces are included. *)
Theorem C15_tree_builder_split_step :
  forall (s : XTreeModel.tb) (a b : XTreeModel.str),
  XSplit.noerr (XTreeModel.step (XTreeModel.step s (XTreeModel.TChars a)) (XTreeModel.TChars b)) =
  XSplit.noerr (XTreeModel.step s (XTreeModel.TChars (a ++ b))).
Proof. exact XSplit.split_step. Qed.
Print Assumptions C15_tree_builder_split_step.

(* in the Main phase (inside the root element) the two states are equal, error counter included: the second piece
   is merged into the text node the first one created or extended *)
Theorem C15_tree_builder_split_step_main :
  forall (s : XTreeModel.tb) (a b : XTreeModel.str), XTreeModel.tphase s = XTreeModel.PMain ->
  XTreeModel.step (XTreeModel.step s (XTreeModel.TChars a)) (XTreeModel.TChars b) =
  XTreeModel.step s (XTreeModel.TChars (a ++ b)).
Proof. exact XSplit.split_step_main. Qed.
Print Assumptions C15_tree_builder_split_step_main.

(* hence for whole token streams: if toks' is toks with some character tokens cut into consecutive pieces
   ([XSplit.splits]: sp_nil, sp_same, sp_cut), the two runs build the same document, and end in states that agree
   on everything but the error counter *)
Theorem C15_tree_builder_independent_of_character_token_splitting :
  forall toks toks', XSplit.splits toks toks' ->
  XTreeModel.parse_tokens toks = XTreeModel.parse_tokens toks' /\
  XSplit.noerr (XTreeModel.run toks) = XSplit.noerr (XTreeModel.run toks').
Proof. intros toks toks' H. split; [exact (proj1 (XSplit.splits_parse toks toks' H))|exact (XSplit.splits_noerr toks toks' H)]. Qed.
Print Assumptions C15_tree_builder_independent_of_character_token_splitting.

(* the error counter really is not preserved *)
Theorem C15_tree_builder_error_count_depends_on_splitting :
  XSplit.splits [XTreeModel.TChars [120; 121]%N] [XTreeModel.TChars [120]%N; XTreeModel.TChars [121]%N] /\
  XTreeModel.terrs (XTreeModel.run [XTreeModel.TChars [120; 121]%N]) = 1 /\
  XTreeModel.terrs (XTreeModel.run [XTreeModel.TChars [120]%N; XTreeModel.TChars [121]%N]) = 2.
Proof. exact XSplit.errs_differ. Qed.
Print Assumptions C15_tree_builder_error_count_depends_on_splitting.

(* ---------------------------------------------------------------------------------------------------------------
   T2 for exact_errors = false (TokIR/BulkSim.v - one theory for both flavours -, Inst/InstBulk.v): XmlTokenizer's DEFAULT
   mode against the reference semantics.  The interpreter over the CHUNKED queue with bulk reads (Data and the three
   attribute-value states take a run up to the end of the first buffer; no current_char update and no bad-character
   errors on the fast path) and the REFERENCE interpreter (flat queue, one character at a time, exact_errors = true), for
   every list of chunks, sink script, injected text, start machine with a well-formed queue, fuel and value of the
   (unused) SIMD sets: if the default-mode run ends regularly (no fuel exhaustion in any feed call, in end() or in its
   EOF loop), the reference run with any fuel from some bound on reports the same results, leaves the same unread input,
   has consumed the same number of characters, ends in the same configuration up to current_char, and has delivered
   the same tokens up to [obs]: TError entries dropped, every maximal group of adjacent TChars entries merged into ONE
   entry carrying the annotation of the group's last member, every other token kept with its annotation.  The two
   decidable table conditions are decided on the regenerated xml table (xml_step_ok_all, xml_eof_lockstep_all); none
   fails.  This replaces the tested leg "chunked-queue interpreter = reference up to merging of character tokens". *)
From HV Require Import TokIR.BulkSim Inst.InstBulk.

Theorem C15_default_mode_against_reference :
  forall simd ent c1 sk fuel inject chunks (m : mach xstate queue) log,
  wfq (mq m) ->
  let rf := drive_chunked xml_flavour false xml_table simd ent c1 sk fuel inject chunks m log in
  regular (snd rf) ->
  exists k, forall j,
    let rs := drive_flat xml_flavour true xml_table simd ent c1 sk (k + j) inject chunks
                (mkmach (mc m) (qflat (mq m)) (mout m) (mcons m)) log in
    snd rs = snd rf /\ obs (mout (fst rs)) = obs (mout (fst rf)) /\ ceq (mc (fst rs)) (mc (fst rf)) /\
    mq (fst rs) = qflat (mq (fst rf)) /\ mcons (fst rs) = mcons (fst rf).
Proof. exact xml_bulk_chunked_reference. Qed.
Print Assumptions C15_default_mode_against_reference.

Theorem C15_default_mode_is_reference_up_to_obs :
  forall simd ent c1 sk inject s0 last input fuel,
  let fast := drive_chunked xml_flavour false xml_table simd ent c1 sk fuel inject [input]
                (mkmach (init_cfg s0 last false) [] [] 0%N) [] in
  regular (snd fast) ->
  exists fuel0, forall fuel', (fuel0 <= fuel')%nat ->
    let ref := drive_flat xml_flavour true xml_table simd ent c1 sk fuel' inject [input]
                 (mkmach (init_cfg s0 last false) [] [] 0%N) [] in
    obs (mout (fst fast)) = obs (mout (fst ref)) /\ snd fast = snd ref.
Proof. exact xml_default_mode_is_reference_up_to_obs. Qed.
Print Assumptions C15_default_mode_is_reference_up_to_obs.

(* composed with C15_driver_chunking_independent: in default mode the observable token stream and the result of end()
   do not depend on the chunking (J: the invariant of TokIR/ChunkInv.v, true of every initial machine) *)
Theorem C15_default_mode_chunking_independent_obs :
  forall simd ent c1 sk fuel1 fuel2 inj cs1 cs2 (m : mach xstate queue),
  wfq (mq m) -> J xml_table (mkmach (mc m) (qflat (mq m)) (mout m) (mcons m)) -> discard_bom (mc m) = false ->
  all_nonempty cs1 -> all_nonempty cs2 -> cs1 <> [] -> cs2 <> [] -> concat cs1 = concat cs2 ->
  let f1 := drive_chunked xml_flavour false xml_table simd ent c1 sk fuel1 inj cs1 m [] in
  let f2 := drive_chunked xml_flavour false xml_table simd ent c1 sk fuel2 inj cs2 m [] in
  regular (snd f1) -> regular (snd f2) -> all_done (tl (snd f1)) -> all_done (tl (snd f2)) ->
  obs (mout (fst f1)) = obs (mout (fst f2)) /\ hd SSuspend (snd f1) = hd SSuspend (snd f2).
Proof. exact xml_default_mode_chunking_independent_obs. Qed.
Print Assumptions C15_default_mode_chunking_independent_obs.

Theorem C15_bulk_table_conditions :
  (forall guard stop nl s, step_ok xml_flavour guard stop nl xstate_beq (xml_step s) = true) /\
  (forall s, ok_body false false (xml_eof s) = true).
Proof. split; [exact xml_step_ok_all|exact xml_eof_lockstep_all]. Qed.
Print Assumptions C15_bulk_table_conditions.

(* non-vacuity (a test, by computation): the raw token lists of the two runs differ (8 entries against 13), the observable
   ones agree (5) *)
Example C15_default_mode_example :
  regular_b (snd xex_fast) = true /\ snd xex_fast = snd xex_ref /\ obs (mout (fst xex_fast)) = obs (mout (fst xex_ref)) /\
  (length (mout (fst xex_fast)), length (mout (fst xex_ref)), length (obs (mout (fst xex_ref)))) = (8, 13, 5)%nat.
Proof. destruct xex_bulk_obs as (A & B & C & D & _). exact (conj A (conj B (conj C D))). Qed.
Print Assumptions C15_default_mode_example.

(* ------------------------------------------------------------------------------------------------------------
   The `regular` hypotheses of the default-mode theorems above discharged for the xml tokenizer (TokIR/BulkTerm.v,
   Inst/InstBulkTerm.v over TokIR/TermX.v): with fuel above the explicit bound of Props/C04.v
   (C04_xml_tokenizer_run_terminates) the default-mode run over the chunked queue never runs out of fuel. *)
From HV Require Inst.InstTermX Inst.InstBulkTerm.

Theorem C15_default_mode_run_is_regular :
  forall simd ent c1 sk fuel inj chunks (m : mach xstate queue) log,
  wfq (mq m) -> InstTermX.XmlTI (absm qflat m) ->
  (InstTermX.xml_fuel (InstTermX.xml_unread (absm qflat m) + length (concat chunks) +
                       length chunks * (50 * length inj)) <= fuel)%nat -> (4 <= fuel)%nat ->
  regular log -> regular (snd (drive_chunked xml_flavour false xml_table simd ent c1 sk fuel inj chunks m log)).
Proof. exact InstBulkTerm.xml_default_regular. Qed.
Print Assumptions C15_default_mode_run_is_regular.

Theorem C15_default_mode_against_reference_total :
  forall simd ent c1 sk fuel inject chunks (m : mach xstate queue) log,
  wfq (mq m) -> InstTermX.XmlTI (absm qflat m) ->
  (InstTermX.xml_fuel (InstTermX.xml_unread (absm qflat m) + length (concat chunks) +
                       length chunks * (50 * length inject)) <= fuel)%nat -> (4 <= fuel)%nat ->
  regular log ->
  let rf := drive_chunked xml_flavour false xml_table simd ent c1 sk fuel inject chunks m log in
  exists k, forall j,
    let rs := drive_flat xml_flavour true xml_table simd ent c1 sk (k + j) inject chunks
                (mkmach (mc m) (qflat (mq m)) (mout m) (mcons m)) log in
    snd rs = snd rf /\ obs (mout (fst rs)) = obs (mout (fst rf)) /\ ceq (mc (fst rs)) (mc (fst rf)) /\
    mq (fst rs) = qflat (mq (fst rf)) /\ mcons (fst rs) = mcons (fst rf).
Proof. exact InstBulkTerm.xml_bulk_chunked_reference_total. Qed.
Print Assumptions C15_default_mode_against_reference_total.

Theorem C15_default_mode_is_reference_up_to_obs_total :
  forall simd ent c1 sk inject s0 last input fuel,
  (InstTermX.xml_fuel (length input + 50 * length inject) <= fuel)%nat -> (4 <= fuel)%nat ->
  let fast := drive_chunked xml_flavour false xml_table simd ent c1 sk fuel inject [input]
                (mkmach (init_cfg s0 last false) [] [] 0%N) [] in
  exists fuel0, forall fuel', (fuel0 <= fuel')%nat ->
    let ref := drive_flat xml_flavour true xml_table simd ent c1 sk fuel' inject [input]
                 (mkmach (init_cfg s0 last false) [] [] 0%N) [] in
    obs (mout (fst fast)) = obs (mout (fst ref)) /\ snd fast = snd ref.
Proof. exact InstBulkTerm.xml_default_mode_is_reference_up_to_obs_total. Qed.
Print Assumptions C15_default_mode_is_reference_up_to_obs_total.

(* default-mode chunk independence for xml from a fresh tokenizer without regularity hypotheses
   (Inst/InstTotalDefault.v; J holds of every fresh machine): only the fuel bounds and the driver's pause limit 96 *)
From HV Require TokIR.NoPanic Inst.InstNoPanicX Inst.InstTotalDefault.
Theorem C15_default_mode_chunking_independent_obs_total :
  forall simd ent c1 sk fuel1 fuel2 inj cs1 cs2 s0 last, InstNoPanicX.xml_kind_ok s0 = true ->
  all_nonempty cs1 -> all_nonempty cs2 -> cs1 <> [] -> cs2 <> [] -> concat cs1 = concat cs2 ->
  (InstTermX.xml_fuel (length (concat cs1) + length cs1 * (50 * length inj)) <= fuel1)%nat -> (4 <= fuel1)%nat ->
  (InstTermX.xml_fuel (length (concat cs2) + length cs2 * (50 * length inj)) <= fuel2)%nat -> (4 <= fuel2)%nat ->
  let f1 := drive_chunked xml_flavour false xml_table simd ent c1 sk fuel1 inj cs1 (mkmach (init_cfg s0 last false) [] [] 0%N) [] in
  let f2 := drive_chunked xml_flavour false xml_table simd ent c1 sk fuel2 inj cs2 (mkmach (init_cfg s0 last false) [] [] 0%N) [] in
  ~ In (SPanic 96) (snd f1) -> ~ In (SPanic 96) (snd f2) ->
  obs (mout (fst f1)) = obs (mout (fst f2)) /\ hd SSuspend (snd f1) = hd SSuspend (snd f2).
Proof. exact InstTotalDefault.xml_default_mode_chunking_independent_total. Qed.
Print Assumptions C15_default_mode_chunking_independent_obs_total.

Theorem C15_default_mode_chunking_independent_no_pauses :
  forall simd ent c1 sk fuel1 fuel2 inj cs1 cs2 s0 last, NoPanic.sk_quiet sk = true -> InstNoPanicX.xml_kind_ok s0 = true ->
  all_nonempty cs1 -> all_nonempty cs2 -> cs1 <> [] -> cs2 <> [] -> concat cs1 = concat cs2 ->
  (InstTermX.xml_fuel (length (concat cs1) + length cs1 * (50 * length inj)) <= fuel1)%nat -> (4 <= fuel1)%nat ->
  (InstTermX.xml_fuel (length (concat cs2) + length cs2 * (50 * length inj)) <= fuel2)%nat -> (4 <= fuel2)%nat ->
  let f1 := drive_chunked xml_flavour false xml_table simd ent c1 sk fuel1 inj cs1 (mkmach (init_cfg s0 last false) [] [] 0%N) [] in
  let f2 := drive_chunked xml_flavour false xml_table simd ent c1 sk fuel2 inj cs2 (mkmach (init_cfg s0 last false) [] [] 0%N) [] in
  obs (mout (fst f1)) = obs (mout (fst f2)) /\ hd SSuspend (snd f1) = hd SSuspend (snd f2).
Proof. exact InstTotalDefault.xml_default_mode_chunking_independent_quiet. Qed.
Print Assumptions C15_default_mode_chunking_independent_no_pauses.
