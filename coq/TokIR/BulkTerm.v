(* Termination of the DEFAULT-mode interpreter (exact_errors = false: bulk reads, SIMD scan) over any queue, from the
   termination of the exact-mode interpreter over the same queue, by counting steps through the simulation of
   TokIR/BulkSim.v: one fast step is n >= 1 slow steps (step_sim), a run that ends with fuel F ends the same way with
   more fuel, so the fast run needs no more fuel than the slow one; the EOF loops run in lock step.  Hence: with the
   fuel that is enough for the slow driver, the log of the fast driver is [regular] - the hypothesis of the BulkSim
   theorems is discharged.  The slow side enters through an abstract invariant [good] (instantiated in
   Inst/InstBulkTerm.v through QueueSim.v + Termination.v / TermX.v). *)
From Coq Require Import List NArith Bool Lia Arith.
From RecordUpdate Require Import RecordSet.
From HV Require Import TokIR.IR TokIR.Interp TokIR.Checks TokIR.BulkSim.
Import ListNotations RecordSetNotations.
Local Open Scope N_scope.

Section BulkTerm.
Context {S Q : Type}.
Variable Qemp : Q.
Variable Qnext : Q -> option (N * Q).
Variable Qpeek : Q -> option N.
Variable Qpushf : list N -> Q -> Q.
Variable Qpushb : Q -> list N -> Q.
Variable Qflat : Q -> list N.
Variable Qrun : (N -> bool) -> Q -> list N * Q.
Hypothesis peek_next : forall q, Qpeek q = match Qnext q with Some (c, _) => Some c | None => None end.
Hypothesis run_ok : forall stop q r q', Qrun stop q = (r, q') ->
  forallb (fun c => negb (stop c)) r = true /\ (r <> [] -> Qnexts Qnext r q q') /\
  (r = [] -> forall c, Qpeek q = Some c -> stop c = true).
Variable fl : flavour S.
Variable tb : table S.
Variables guard stop nl : list N.
Variable ent : list N -> option (N * N).
Variable c1 : N -> option N.
Variable sk : sinkcfg.
Variable seqb : S -> S -> bool.
Hypothesis seqb_eq : forall a b, seqb a b = true -> a = b.
Hypothesis Hstep : forall s, step_ok fl guard stop nl seqb (t_step tb s) = true.
Hypothesis Heof : forall s, ok_body false false (t_eof tb s) = true.

Notation simd := (guard, stop, nl).
Notation M := (mach S Q).
Notation runF ae := (@run S Q Qemp Qnext Qpeek Qpushf Qflat Qrun fl false tb simd ent c1 sk ae).
Notation runS ae := (@run S Q Qemp Qnext Qpeek Qpushf Qflat Qrun fl true tb simd ent c1 sk ae).
Notation stepF ae := (@step S Q Qemp Qnext Qpeek Qpushf Qflat Qrun fl false tb simd ent c1 sk ae).
Notation stepS ae := (@step S Q Qemp Qnext Qpeek Qpushf Qflat Qrun fl true tb simd ent c1 sk ae).
Notation execF ae := (@exec S Q Qemp Qnext Qpeek Qpushf Qflat Qrun fl false simd sk ae).
Notation execS ae := (@exec S Q Qemp Qnext Qpeek Qpushf Qflat Qrun fl true simd sk ae).
Notation feedF := (@feed S Q Qemp Qnext Qpeek Qpushf Qflat Qrun fl false tb simd ent c1 sk).
Notation feedS := (@feed S Q Qemp Qnext Qpeek Qpushf Qflat Qrun fl true tb simd ent c1 sk).
Notation eof_loopF := (@eof_loop S Q Qemp Qnext Qpeek Qpushf Qflat Qrun fl false tb simd sk).
Notation eof_loopS := (@eof_loop S Q Qemp Qnext Qpeek Qpushf Qflat Qrun fl true tb simd sk).
Notation tok_endF := (@tok_end S Q Qemp Qnext Qpeek Qpushf Qflat Qrun fl false tb simd ent c1 sk).
Notation tok_endS := (@tok_end S Q Qemp Qnext Qpeek Qpushf Qflat Qrun fl true tb simd ent c1 sk).
Notation feed_loopF := (@feed_loop S Q Qemp Qnext Qpeek Qpushf Qflat Qrun fl false tb simd ent c1 sk).
Notation feed_loopS := (@feed_loop S Q Qemp Qnext Qpeek Qpushf Qflat Qrun fl true tb simd ent c1 sk).
Notation driveF := (@drive S Q Qemp Qnext Qpeek Qpushf Qpushb Qflat Qrun fl false tb simd ent c1 sk).
Notation bomfixQ := (@bomfix S Q Qnext Qpeek).
Notation crfinQ := (@crfin S Q Qpushf fl c1).
Notation end_tailQ := (@end_tail S Q Qemp Qnext Qpeek Qpushf Qflat Qrun fl tb guard stop nl ent c1 sk).
Notation step_simB := (step_sim Qemp Qnext Qpeek Qpushf Qpushb Qflat Qrun peek_next run_ok fl tb guard stop nl ent c1 sk seqb seqb_eq Hstep).
Notation run_simB := (run_sim Qemp Qnext Qpeek Qpushf Qpushb Qflat Qrun peek_next run_ok fl tb guard stop nl ent c1 sk seqb seqb_eq Hstep).

(* ---------------------------------------------------------------- more fuel changes nothing once a run has ended *)
Lemma run_mono ae : forall F (ms : M), snd (runS ae F ms) <> SPanic 98 -> forall j, runS ae (F + j) ms = runS ae F ms.
Proof.
  induction F as [|F IH]; intros ms H j; [exfalso; apply H; reflexivity|]. cbn [Nat.add run] in *.
  destruct (stepS ae ms) as [m1 r]. destruct r; try reflexivity. apply IH. exact H.
Qed.

(* the fast run ends whenever the slow run with the same fuel does, in a related machine *)
Lemma fast_run ae : forall fuel F (mf ms : M), Rel true false mf ms -> snd (runS ae F ms) <> SPanic 98 -> (F <= fuel)%nat ->
  snd (runF ae fuel mf) <> SPanic 98.
Proof.
  induction fuel as [|f IH]; intros F mf ms H HF Hle.
  - assert (F = 0%nat) by lia. subst F. exfalso. apply HF. reflexivity.
  - cbn [run]. destruct (step_simB ae mf ms H) as (n & ms1 & Hn & A & B).
    destruct (stepF ae mf) as [mf1 r1]. cbn [fst snd] in *. unfold msteps in A.
    assert (Hstop : r1 <> SContinue -> r1 <> SPanic 98).
    { intros Hc E. subst r1. specialize (A F). cbn iota in A.
      pose proof (run_mono ae F ms HF n) as Mo. rewrite Nat.add_comm in Mo. rewrite Mo in A. apply HF. rewrite A. reflexivity. }
    destruct r1; try (cbn [snd]; apply Hstop; discriminate).
    destruct (Nat.le_gt_cases n F) as [Hc|Hc].
    + apply (IH (F - n)%nat mf1 ms1 B); [|lia]. specialize (A (F - n)%nat). cbn iota in A.
      replace (n + (F - n))%nat with F in A by lia. rewrite <- A. exact HF.
    + exfalso. specialize (A 0%nat). cbn iota in A. cbn [run] in A.
      pose proof (run_mono ae F ms HF (n - F)%nat) as Mo. replace (F + (n - F))%nat with (n + 0)%nat in Mo by lia.
      rewrite Mo in A. apply HF. rewrite A. reflexivity.
Qed.

Lemma fast_run_rel ae fuel (mf ms : M) : Rel true false mf ms -> snd (runS ae fuel ms) <> SPanic 98 ->
  snd (runF ae fuel mf) = snd (runS ae fuel ms) /\ Rel true false (fst (runF ae fuel mf)) (fst (runS ae fuel ms)).
Proof.
  intros H HF. pose proof (fast_run ae fuel fuel mf ms H HF (le_n _)) as Hne.
  destruct (run_simB ae fuel mf ms H Hne) as (k & ms' & A & B).
  specialize (A fuel). pose proof (run_mono ae fuel ms HF k) as Mo. rewrite Nat.add_comm in Mo. rewrite Mo in A.
  rewrite A. cbn [fst snd]. auto.
Qed.

(* ---------------------------------------------------------------- the EOF loops run in lock step *)
Lemma eof_lock : forall fuel (mf ms : M), Rel false false mf ms -> snd (eof_loopF fuel mf) = snd (eof_loopS fuel ms).
Proof.
  induction fuel as [|f IH]; intros mf ms H; cbn [eof_loop]; [reflexivity|].
  rewrite (rq_st _ _ _ _ H).
  destruct (exec_sim Qemp Qnext Qpeek Qpushf Qflat Qrun fl guard stop nl sk true (t_eof tb (st (mc mf))) false false false 0 [] mf ms
              (Heof _) (fun X => X) H) as [A B].
  destruct (execF true (t_eof tb (st (mc mf))) 0 [] mf) as [mf1 r]; destruct (execS true (t_eof tb (st (mc mf))) 0 [] ms) as [ms1 r'].
  cbn [fst snd] in *. subst r'. destruct r; try reflexivity; try (destruct (f_html fl); [reflexivity|]); apply IH; exact B.
Qed.

(* ---------------------------------------------------------------- the slow side, abstractly *)
Variable good : M -> nat -> Prop.       (* invariant of the exact-mode machine, with a bound on its measure *)
Variable Bd : nat -> nat.                (* fuel that is enough for measure T *)
Variable D : nat.
Hypothesis Bd_mono : forall a b, (a <= b)%nat -> (Bd a <= Bd b)%nat.
Definition okr (r : sres) : Prop := r <> SPanic 98 /\ r <> SPanic 97.
Hypothesis Hfeed : forall (ms : M) T fuel, good ms T -> (Bd T <= fuel)%nat ->
  okr (snd (feedS fuel ms)) /\ good (fst (feedS fuel ms)) T.
Hypothesis Hinj : forall (ms : M) T inj, good ms T -> good (ms <| mq ::= Qpushf inj |>) (T + length inj)%nat.
Hypothesis Hpush : forall (ms : M) T ch, good ms T -> good (ms <| mq ::= (fun q => Qpushb q ch) |>) (T + length ch)%nat.
Hypothesis Hgood_mono : forall (ms : M) T T', good ms T -> (T <= T')%nat -> good ms T'.
Hypothesis Hend : forall (ms : M) T fuel, good ms T -> (Bd T <= fuel)%nat -> (D <= fuel)%nat -> okr (snd (tok_endS fuel ms)).

Lemma feed_fast fuel (mf ms : M) T : Rel true false mf ms -> good ms T -> (Bd T <= fuel)%nat ->
  snd (feedF fuel mf) = snd (feedS fuel ms) /\ Rel true false (fst (feedF fuel mf)) (fst (feedS fuel ms)).
Proof.
  intros H HG Hf. destruct (Hfeed ms T fuel HG Hf) as [[H98 _] _]. revert H98.
  rewrite (feedF_eq Qemp Qnext Qpeek Qpushf Qflat Qrun fl tb guard stop nl ent c1 sk fuel mf).
  rewrite (feedS_eq Qemp Qnext Qpeek Qpushf Qflat Qrun fl tb guard stop nl ent c1 sk fuel ms).
  rewrite (Rel_mq _ _ _ _ H). destruct (Qpeek (mq mf)); [|intros _; cbn [fst snd]; auto].
  intros H98. apply fast_run_rel; [apply bomfix_sim; exact H|exact H98].
Qed.

Definition okl (log : list sres) : Prop := Forall okr log.

Lemma feed_loop_fast fuel inj : forall n (mf ms : M) log T, Rel true false mf ms -> good ms T ->
  (Bd (T + n * length inj) <= fuel)%nat -> okl log ->
  okl (snd (feed_loopF n fuel inj mf log)) /\
  exists ms', Rel true false (fst (feed_loopF n fuel inj mf log)) ms' /\ good ms' (T + n * length inj)%nat.
Proof.
  induction n as [|n IH]; intros mf ms log T H HG Hf HL; cbn [feed_loop].
  - cbn [fst snd]. split; [constructor; [split; discriminate|exact HL]|]. exists ms. split; [exact H|].
    apply (Hgood_mono ms T); [exact HG|lia].
  - assert (Hf0 : (Bd T <= fuel)%nat) by (pose proof (Bd_mono T (T + Datatypes.S n * length inj) ltac:(lia)); lia).
    destruct (feed_fast fuel mf ms T H HG Hf0) as [E R]. destruct (Hfeed ms T fuel HG Hf0) as [Hr HG1].
    destruct (feedF fuel mf) as [mf1 r]; destruct (feedS fuel ms) as [ms1 r']. cbn [fst snd] in *. subst r'.
    assert (Hdone : okl (r :: log) /\ exists ms', Rel true false mf1 ms' /\ good ms' (T + Datatypes.S n * length inj)%nat).
    { split; [constructor; assumption|]. exists ms1. split; [exact R|]. apply (Hgood_mono ms1 T); [exact HG1|lia]. }
    destruct r; try exact Hdone.
    + set (mf2 := mf1 <| mq ::= Qpushf inj |>). set (ms2 := ms1 <| mq ::= Qpushf inj |>).
      assert (R2 : Rel true false mf2 ms2) by (apply Rel_updq; exact R).
      assert (G2 : good ms2 (T + length inj)%nat) by (apply Hinj; exact HG1).
      destruct (IH mf2 ms2 (SScript :: log) (T + length inj)%nat R2 G2) as [I1 (ms' & I2 & I3)].
      * pose proof (Bd_mono (T + length inj + n * length inj) (T + Datatypes.S n * length inj) ltac:(lia)). lia.
      * constructor; [split; discriminate|exact HL].
      * split; [exact I1|]. exists ms'. split; [exact I2|]. apply (Hgood_mono ms' _ _ I3). lia.
    + destruct (IH mf1 ms1 (SEncoding :: log) T R HG1) as [I1 (ms' & I2 & I3)].
      * pose proof (Bd_mono (T + n * length inj) (T + Datatypes.S n * length inj) ltac:(lia)). lia.
      * constructor; [split; discriminate|exact HL].
      * split; [exact I1|]. exists ms'. split; [exact I2|]. apply (Hgood_mono ms' _ _ I3). lia.
Qed.

(* end(): the fast answer is the slow answer *)
Lemma end_fast fuel (mf ms : M) T : Rel true false mf ms -> good ms T -> (Bd T <= fuel)%nat -> (D <= fuel)%nat ->
  snd (tok_endF fuel mf) = snd (tok_endS fuel ms).
Proof.
  intros H HG Hf HD. destruct (Hend ms T fuel HG Hf HD) as [H98 _]. revert H98.
  rewrite (tok_end_eq Qemp Qnext Qpeek Qpushf Qflat Qrun fl tb guard stop nl ent c1 sk false fuel mf).
  rewrite (tok_end_eq Qemp Qnext Qpeek Qpushf Qflat Qrun fl tb guard stop nl ent c1 sk true fuel ms).
  destruct (crfin_sim Qpushf fl c1 true false (mf <| mq := Qemp |>) (ms <| mq := Qemp |>)) as (A & R); [apply Rel_setq; exact H|].
  destruct (crfinQ (mf <| mq := Qemp |>)) as [m1f bad]; destruct (crfinQ (ms <| mq := Qemp |>)) as [m1s bad'].
  cbn [fst snd] in *. subst bad'. destruct bad; [reflexivity|].
  unfold end_tail. intros H98.
  assert (HR : snd (runS true fuel m1s) <> SPanic 98).
  { intros E. apply H98. destruct (runS true fuel m1s) as [m3 r]. cbn [snd] in E. subst r. reflexivity. }
  destruct (fast_run_rel true fuel m1f m1s R HR) as [E R3].
  destruct (runF true fuel m1f) as [m3f r]; destruct (runS true fuel m1s) as [m3s r']. cbn [fst snd] in *. subst r'.
  assert (EL : snd (eof_loopF fuel m3f) = snd (eof_loopS fuel m3s)).
  { apply eof_lock. apply (Rel_weak true false); [discriminate|discriminate|exact R3]. }
  rewrite (Rel_mq _ _ _ _ R3).
  destruct r as [| | | |k].
  - destruct (f_html fl); [reflexivity|exact EL].
  - destruct (Qpeek (mq m3f)); [destruct (f_html fl); [reflexivity|exact EL]|exact EL].
  - destruct (f_html fl); [reflexivity|exact EL].
  - destruct (f_html fl); [reflexivity|exact EL].
  - reflexivity.
Qed.

Notation driveS := (@drive S Q Qemp Qnext Qpeek Qpushf Qpushb Qflat Qrun fl true tb simd ent c1 sk).

(* the driver in default mode never runs out of fuel when the exact-mode bound is met *)
Theorem drive_fast_regular fuel inj : forall chunks (mf ms : M) log T, Rel true false mf ms -> good ms T ->
  (Bd (T + length (concat chunks) + length chunks * (50 * length inj)) <= fuel)%nat -> (D <= fuel)%nat -> okl log ->
  okl (snd (driveF fuel inj chunks mf log)).
Proof.
  induction chunks as [|ch rest IH]; intros mf ms log T H HG Hf HD HL; cbn [drive].
  - cbn in Hf. assert (Hf0 : (Bd T <= fuel)%nat) by (pose proof (Bd_mono T (T + 0 + 0) ltac:(lia)); lia).
    pose proof (end_fast fuel mf ms T H HG Hf0 HD) as E. pose proof (Hend ms T fuel HG Hf0 HD) as O.
    destruct (tok_endF fuel mf) as [m' r]. cbn [snd] in *. rewrite <- E in O. constructor; assumption.
  - set (mf1 := mf <| mq ::= (fun q => Qpushb q ch) |>). set (ms1 := ms <| mq ::= (fun q => Qpushb q ch) |>).
    assert (R1 : Rel true false mf1 ms1) by (apply Rel_updq; exact H).
    assert (G1 : good ms1 (T + length ch)%nat) by (apply Hpush; exact HG).
    cbn [concat length] in Hf. rewrite app_length in Hf.
    destruct (feed_loop_fast fuel inj 50 mf1 ms1 log (T + length ch)%nat R1 G1) as [F1 (ms2 & F2 & F3)]; [|exact HL|].
    { pose proof (Bd_mono (T + length ch + 50 * length inj)
                    (T + (length ch + length (concat rest)) + Datatypes.S (length rest) * (50 * length inj)) ltac:(lia)). lia. }
    destruct (feed_loopF 50 fuel inj mf1 log) as [mf2 log2]. cbn [fst snd] in *.
    apply (IH mf2 ms2 log2 (T + length ch + 50 * length inj)%nat F2 F3); [|exact HD|exact F1].
    pose proof (Bd_mono (T + length ch + 50 * length inj + length (concat rest) + length rest * (50 * length inj))
                  (T + (length ch + length (concat rest)) + Datatypes.S (length rest) * (50 * length inj)) ltac:(lia)). lia.
Qed.

Lemma okl_regular log : okl log -> regular log.
Proof.
  intros H. unfold okl in H. rewrite Forall_forall in H. split; intros X; destruct (H _ X) as [A B]; congruence.
Qed.
End BulkTerm.
