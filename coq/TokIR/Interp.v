(* Semantics of TokIR: an executable model of html5ever::tokenizer::Tokenizer and
   xml5ever::tokenizer::XmlTokenizer around the generated step tables.  This file is
   hand-written: it is the meaning of the go!/shorthand! macros, of get_char /
   get_preprocessed_char / pop_except_from / eat / peek / discard_char, of
   emit_current_tag / finish_attribute, of the character-reference sub-tokenizers and
   of feed() / end().  It is tied to the Rust code by the correspondence run
   (harness bin `tok` vs the extracted interpreter).  No proofs here. *)
From Coq Require Import List NArith Bool.
From RecordUpdate Require Import RecordSet.
From HV Require Import TokIR.IR.
Import ListNotations RecordSetNotations.
Local Open Scope N_scope.

(* ------------------------------------------------------------------ tokens, sink *)
Inductive token :=
| TDoctype (name pub sys : option str) (force_quirks : bool)
| TTag (k : tagkind) (name : str) (self_closing : bool) (attrs : list (str * str)) (had_dup : bool)
| TComment (s : str) | TChars (s : str) | TNull | TEof | TError | TPi (target data : str).

(* what a scripted sink answers on a start tag (html) / any tag (xml) with a given name *)
Inductive resp := RespPlaintext | RespRawData (k : kind) | RespScript | RespEncoding.
Record sinkcfg := { sk_resp : list (str * resp); sk_foreign : bool }.

Inductive sres := SContinue | SSuspend | SScript | SEncoding | SPanic (site : N).

(* ------------------------------------------------------------------ small helpers *)
Fixpoint str_eqb (a b : str) : bool :=
  match a, b with
  | [], [] => true
  | x :: a', y :: b' => (x =? y) && str_eqb a' b'
  | _, _ => false
  end.
Definition memb (c : N) (l : list N) : bool := existsb (N.eqb c) l.
Definition is_upper (c : N) : bool := (65 <=? c) && (c <=? 90).
Definition is_lower (c : N) : bool := (97 <=? c) && (c <=? 122).
Definition is_digit (c : N) : bool := (48 <=? c) && (c <=? 57).
Definition is_alpha (c : N) : bool := is_upper c || is_lower c.
Definition is_alnum (c : N) : bool := is_alpha c || is_digit c.
Definition to_lower (c : N) : N := if is_upper c then c + 32 else c.
Definition LF : N := 10.  Definition CR : N := 13.  Definition BOM : N := 0xFEFF.  Definition REPL : N := 0xFFFD.

(* char::to_digit *)
Definition to_digit (base c : N) : option N :=
  if is_digit c then Some (c - 48)
  else if (base =? 16) && (97 <=? c) && (c <=? 102) then Some (c - 87)
  else if (base =? 16) && (65 <=? c) && (c <=? 70) then Some (c - 55)
  else None.

(* the "bad character" classes reported under exact_errors *)
Definition bad_char (c : N) : bool :=
  ((1 <=? c) && (c <=? 8)) || (c =? 0x0B) || ((0x0E <=? c) && (c <=? 0x1F)) ||
  ((0x7F <=? c) && (c <=? 0x9F)) || ((0xFDD0 <=? c) && (c <=? 0xFDEF)) ||
  (N.land c 0xFFFE =? 0xFFFE).

(* ------------------------------------------------------------------ the input queue (character view, C13) *)
Definition queue := list (list N).   (* front first, no empty buffer *)

Definition qpush_front (b : list N) (q : queue) : queue := match b with [] => q | _ => b :: q end.
Definition qpush_back (q : queue) (b : list N) : queue := match b with [] => q | _ => q ++ [b] end.
Definition qpeek (q : queue) : option N :=
  match q with (c :: _) :: _ => Some c | _ => None end.
Definition qnext (q : queue) : option (N * queue) :=
  match q with
  | (c :: []) :: t => Some (c, t)
  | (c :: r) :: t => Some (c, r :: t)
  | _ => None
  end.
Definition in_set (set : list N) (c : N) : bool := (c <? 64) && memb c set.
Fixpoint span_out (set : list N) (b : list N) : list N * list N :=
  match b with
  | [] => ([], [])
  | c :: t => if in_set set c then ([], b) else let '(r, s) := span_out set t in (c :: r, s)
  end.
Fixpoint span_stop (stop : list N) (b : list N) : list N * list N :=
  match b with
  | [] => ([], [])
  | c :: t => if memb c stop then ([], b) else let '(r, s) := span_stop stop t in (c :: r, s)
  end.
Fixpoint count_in (l : list N) (nl : list N) : N :=
  match l with [] => 0 | c :: t => (if memb c nl then 1 else 0) + count_in t nl end.
Fixpoint qdrop (n : nat) (q : queue) : queue :=
  match n with
  | O => q
  | S n' => match qnext q with Some (_, q') => qdrop n' q' | None => [] end
  end.
Definition qflat (q : queue) : list N := concat q.

Inductive cmp3 := EatNone | EatFalse | EatTrue.
Fixpoint eat_cmp (ic : bool) (pat flat : list N) : cmp3 :=
  match pat with
  | [] => EatTrue
  | p :: pt =>
    match flat with
    | [] => EatNone
    | f :: ft => if (if ic then to_lower f =? to_lower p else f =? p) then eat_cmp ic pt ft else EatFalse
    end
  end.
(* BufferQueue::eat *)
Definition qeat (ic : bool) (pat : list N) (q : queue) : cmp3 :=
  match q with [] => EatNone | _ => eat_cmp ic pat (qflat q) end.

(* ------------------------------------------------------------------ char-ref sub-tokenizer state *)
Inductive cr_state := CrBegin | CrOcto | CrNumeric (base : N) | CrNumSemi | CrNamed | CrBogus.
Record crt := mkcrt {
  cr_st : cr_state; cr_attr : bool; cr_addnl : option N;
  cr_num : N; cr_big : bool; cr_seen : bool; cr_hex : option N;
  cr_buf : list N; cr_match : option (N * N); cr_len : nat }.
#[export] Instance eta_crt : Settable _ :=
  settable! mkcrt <cr_st; cr_attr; cr_addnl; cr_num; cr_big; cr_seen; cr_hex; cr_buf; cr_match; cr_len>.
Definition cr_new (attr : bool) (addnl : option N) : crt :=
  mkcrt CrBegin attr addnl 0 false false None [] None O.

(* ------------------------------------------------------------------ tokenizer configuration *)
Record cfg (S : Type) := mkcfg {
  st : S; reconsume : bool; cur : N; ignore_lf : bool; discard_bom : bool;
  temp_buf : str; tag_kind : tagkind; tag_name : str; tag_self : bool; tag_dup : bool;
  tag_attrs : list (str * str); attr_name : str; attr_value : str; comment : str;
  dt_name : option str; dt_pub : option str; dt_sys : option str; dt_quirks : bool;
  pi_target : str; pi_data : str;
  last_start : option str; cref : option crt; line : N }.
Arguments mkcfg {S}. Arguments st {S}. Arguments reconsume {S}. Arguments cur {S}. Arguments ignore_lf {S}.
Arguments discard_bom {S}. Arguments temp_buf {S}. Arguments tag_kind {S}.
Arguments tag_name {S}. Arguments tag_self {S}. Arguments tag_dup {S}. Arguments tag_attrs {S}.
Arguments attr_name {S}. Arguments attr_value {S}. Arguments comment {S}. Arguments dt_name {S}.
Arguments dt_pub {S}. Arguments dt_sys {S}. Arguments dt_quirks {S}. Arguments pi_target {S}.
Arguments pi_data {S}. Arguments last_start {S}. Arguments cref {S}. Arguments line {S}.
#[export] Instance eta_cfg {S} : Settable (cfg S) :=
  settable! (@mkcfg S) <st; reconsume; cur; ignore_lf; discard_bom; temp_buf; tag_kind; tag_name; tag_self;
    tag_dup; tag_attrs; attr_name; attr_value; comment; dt_name; dt_pub; dt_sys; dt_quirks; pi_target; pi_data;
    last_start; cref; line>.

(* machine = configuration + input queue + tokens delivered so far (newest first, with line) *)
(* [mcons] is a ghost counter (never read by the semantics): characters taken from the input stream so far,
   minus characters put back (look-ahead stash re-inserted, character-reference un-consumption) *)
Record mach (S Q : Type) := mkmach { mc : cfg S; mq : Q; mout : list (token * N * N); mcons : N }.
Arguments mkmach {S Q}. Arguments mc {S Q}. Arguments mq {S Q}. Arguments mout {S Q}. Arguments mcons {S Q}.
#[export] Instance eta_mach {S Q} : Settable (mach S Q) := settable! (@mkmach S Q) <mc; mq; mout; mcons>.

(* what distinguishes the two tokenizers outside their tables *)
Record flavour (S : Type) := {
  f_html : bool;
  f_data : S; f_plaintext : S; f_rawdata : kind -> S;
  f_is_attr_value : S -> bool;
  f_charref_emit : S -> option bool;  (* process_char_ref: Some false = emit char, Some true = push_value, None = panic! *)
}.
Arguments f_html {S}. Arguments f_data {S}. Arguments f_plaintext {S}. Arguments f_rawdata {S}.
Arguments f_is_attr_value {S}. Arguments f_charref_emit {S}.

(* The interpreter is parametric in the implementation of the input queue:
     - the CHUNKED queue (list of buffers; bulk reads stop at buffer joins) mirrors BufferQueue and is what runs
       against the Rust code;
     - the FLAT queue with unit runs (one character per bulk read) is the reference semantics of the chunking
       theorems (TokIR/Chunk.v). *)
Section Interp.
Context {S Q : Type}.
Variable Qemp : Q.
Variable Qnext : Q -> option (N * Q).
Variable Qpeek : Q -> option N.
Variable Qpushf : list N -> Q -> Q.       (* push_front; an empty buffer is skipped *)
Variable Qpushb : Q -> list N -> Q.       (* push_back *)
Variable Qflat : Q -> list N.
Variable Qrun : (N -> bool) -> Q -> list N * Q.   (* longest run of non-[stop] characters the queue hands out at once *)
Variable fl : flavour S.
Variable exact_errors : bool.             (* TokenizerOpts::exact_errors: constant for the life of a tokenizer *)
Variable tb : table S.
Variable simd : list N * list N * list N.      (* html Data state: (first-char guard, stop set, newline) ; xml: unused *)
Variable ent : list N -> option (N * N).        (* web_atoms::NAMED_ENTITIES.get *)
Variable c1 : N -> option N.                    (* C1_REPLACEMENTS[n - 0x80] *)
Variable sk : sinkcfg.

Notation M := (mach S Q).

Fixpoint Qdrop (n : nat) (q : Q) : Q :=
  match n with
  | O => q
  | Datatypes.S n' => match Qnext q with Some (_, q') => Qdrop n' q' | None => Qemp end
  end.
(* BufferQueue::eat: need-more on an empty queue, otherwise the prefix comparison of the concatenation *)
Definition Qeat (ic : bool) (pat : list N) (q : Q) : cmp3 :=
  match Qpeek q with None => EatNone | Some _ => eat_cmp ic pat (Qflat q) end.

Definition upd (f : cfg S -> cfg S) (m : M) : M := m <| mc ::= f |>.
Definition emit (t : token) (m : M) : M := m <| mout ::= cons (t, line (mc m), mcons m) |>.
Definition took (n : N) (m : M) : M := m <| mcons ::= N.add n |>.
Definition gave (n : N) (m : M) : M := m <| mcons ::= (fun k => k - n) |>.
Definition lenN (l : list N) : N := N.of_nat (length l).
Definition unconsume (b : list N) (m : M) : M := gave (lenN b) (m <| mq ::= Qpushf b |>).
Definition err (m : M) : M := emit TError m.

(* ---- input primitives *)
(* get_preprocessed_char, in two parts.
   1. "if self.ignore_lf { ignore_lf = false; if c == '\n' { c = input.next()? } }" *)
Definition gpc_skip (c : N) (m : M) : option N * M :=
  if ignore_lf (mc m) then
    let m1 := upd (fun x => x <| ignore_lf := false |>) m in
    if c =? LF then
      match Qnext (mq m1) with
      | None => (None, m1)
      | Some (c', q') => (Some c', took 1 (m1 <| mq := q' |>))
      end
    else (Some c, m1)
  else (Some c, m).
(* 2. CR -> LF (remember it), line counting (html), NUL -> U+FFFD (xml), bad-character report, current_char.
   [gpc_decide] computes (resulting char, set ignore_lf?, count a line?, report a bad character?) *)
Definition gpc_decide (html ex : bool) (c : N) : N * bool * bool * bool :=
  let is_cr := c =? CR in
  let c1 := if is_cr then LF else c in
  let c2 := if negb html && (c1 =? 0) then REPL else c1 in
  (c2, is_cr, html && (c1 =? LF), ex && bad_char c2).
Definition gpc_post (c : N) (m1 : M) : N * M :=
  let '(c', set_il, inc_line, report) := gpc_decide (f_html fl) exact_errors c in
  let m2 := if set_il then upd (fun x => x <| ignore_lf := true |>) m1 else m1 in
  let m3 := if inc_line then upd (fun x => x <| line ::= N.add 1 |>) m2 else m2 in
  let m4 := if report then err m3 else m3 in
  (c', upd (fun x => x <| cur := c' |>) m4).
Definition get_preprocessed_char (c : N) (m : M) : option N * M :=
  match gpc_skip c m with
  | (None, m1) => (None, m1)
  | (Some c, m1) => let '(c', m2) := gpc_post c m1 in (Some c', m2)
  end.

Definition get_char (m : M) : option N * M :=
  if reconsume (mc m) then (Some (cur (mc m)), upd (fun x => x <| reconsume := false |>) m)
  else match Qnext (mq m) with
       | None => (None, m)
       | Some (c, q') => get_preprocessed_char c (took 1 (m <| mq := q' |>))
       end.

Definition peek (m : M) : option N :=
  if reconsume (mc m) then Some (cur (mc m)) else Qpeek (mq m).

(* html: one RAW character; xml: through get_char *)
Definition discard_char (m : M) : M :=
  if f_html fl then
    if reconsume (mc m) then upd (fun x => x <| reconsume := false |>) m
    else match Qnext (mq m) with
         | Some (_, q') => upd (fun x => x <| ignore_lf := false |>) (took 1 (m <| mq := q' |>))
         | None => upd (fun x => x <| ignore_lf := false |>) m
         end
  else snd (get_char m).

(* html discard_whitespace_char(input, c): a peeked whitespace character is dropped raw, line breaks counted here *)
Definition discard_ws (c : N) (m : M) : M :=
  let after_cr := ignore_lf (mc m) in
  let m1 := upd (fun x => x <| ignore_lf := (c =? CR) |>) (discard_char m) in
  if (c =? CR) || ((c =? LF) && negb after_cr) then upd (fun x => x <| line ::= N.add 1 |>) m1 else m1.

Inductive popres := PopNone | PopChar (c : N) | PopRun (r : list N).

Definition pop_except_from (set : list N) (use_simd : bool) (m : M) : popres * M :=
  if exact_errors || reconsume (mc m) || ignore_lf (mc m) then
    match get_char m with (None, m') => (PopNone, m') | (Some c, m') => (PopChar c, m') end
  else
    match Qpeek (mq m) with
    | None => (PopNone, m)
    | Some c0 =>
      let '(guard, stop, nl) := simd in
      if use_simd && negb (memb c0 guard) then
        (* data_state_simd_fast_path: scan to the first stop byte, count newlines *)
        let '(r, q') := Qrun (fun c => memb c stop) (mq m) in
        (PopRun r, took (lenN r) (upd (fun x => x <| line ::= N.add (count_in r nl) |>) (m <| mq := q' |>)))
      else
        let '(r, q') := Qrun (in_set set) (mq m) in
        match r with
        | [] =>
          match Qnext (mq m) with
          | Some (c, q1) => match get_preprocessed_char c (took 1 (m <| mq := q1 |>)) with
                            | (None, m') => (PopNone, m') | (Some c', m') => (PopChar c', m') end
          | None => (PopNone, m)
          end
        | _ => (PopRun r, took (lenN r) (m <| mq := q' |>))
        end
    end.

(* [at_eof]: Tokenizer::end() has been called (no more input will arrive: look-ahead must decide now) *)
Definition eat_body (at_eof : bool) (pat : str) (exact_cmp : bool) (m1 : M) : option bool * M :=
  let m2 := upd (fun x => x <| temp_buf := [] |>) (unconsume (temp_buf (mc m1)) m1) in
  match Qeat (negb exact_cmp) pat (mq m2) with
  | EatTrue => (Some true, took (lenN pat) (m2 <| mq := Qdrop (length pat) (mq m2) |>))
  | EatFalse => (Some false, m2)
  | EatNone =>
    if at_eof then (Some false, m2)
    else (None, took (lenN (Qflat (mq m2))) (upd (fun x => x <| temp_buf := Qflat (mq m2) |>) (m2 <| mq := Qemp |>)))
  end.

Definition eat (at_eof : bool) (pat : str) (exact_cmp : bool) (m : M) : option bool * M :=
  if ignore_lf (mc m) then
    (* the line feed of a CR LF pair may only arrive with the next chunk *)
    match peek m with
    | None => if at_eof then eat_body at_eof pat exact_cmp (upd (fun x => x <| ignore_lf := false |>) m) else (None, m)
    | Some c =>
      let m' := if c =? LF then
                  (if f_html fl then discard_char m
                   else match Qnext (mq m) with Some (_, q') => took 1 (m <| mq := q' |>) | None => m end)
                else m in
      eat_body at_eof pat exact_cmp (upd (fun x => x <| ignore_lf := false |>) m')
    end
  else eat_body at_eof pat exact_cmp m.

(* ---- attributes and tags *)
(* xml5ever qname.rs: index of the prefix colon, if the name has exactly the shape p:l *)
Fixpoint qn_after (s : list N) : bool :=   (* AfterColon: any further ':' invalidates the split *)
  match s with [] => true | c :: t => if c =? 58 then false else qn_after t end.
Fixpoint qn_in (pre : list N) (s : list N) : option (list N * list N) :=
  match s with
  | [] => None
  | c :: t =>
    if (c =? 58) && negb (match t with [] => true | _ => false end) then
      (* the first ':' that is not the last byte *)
      if qn_after t then Some (rev pre, t) else None
    else qn_in (c :: pre) t
  end.
Definition qname_split (s : list N) : option (list N) * list N :=
  match s with
  | [] => (None, [])
  | c :: t => if c =? 58 then (None, s)
              else match qn_in [c] t with Some (p, l) => (Some p, l) | None => (None, s) end
  end.
Definition xmlns_str : list N := [120; 109; 108; 110; 115].

Definition finish_attribute (m : M) : M :=
  let c := mc m in
  match attr_name c with
  | [] => m
  | name =>
    if f_html fl then
      if existsb (fun a => str_eqb (fst a) name) (tag_attrs c) then
        upd (fun x => x <| attr_name := [] |> <| tag_dup := true |> <| attr_value := [] |>) (err m)
      else
        upd (fun x => x <| attr_name := [] |> <| tag_attrs ::= (fun l => l ++ [(name, attr_value c)]) |>
                        <| attr_value := [] |>) m
    else
      (* xml: duplicate = same prefix and same local name, i.e. the same raw name (process_qname is injective) *)
      if existsb (fun a => str_eqb (fst a) name) (tag_attrs c) then
        upd (fun x => x <| attr_name := [] |> <| attr_value := [] |>) (err m)
      else
        let '(p, l) := qname_split name in
        let front := match p with Some p' => str_eqb p' xmlns_str | None => str_eqb l xmlns_str end in
        upd (fun x => x <| attr_name := [] |>
                        <| tag_attrs ::= (fun al => if front then (name, attr_value c) :: al else al ++ [(name, attr_value c)]) |>
                        <| attr_value := [] |>) m
  end.

Definition discard_tag (m : M) : M :=
  if f_html fl then upd (fun x => x <| tag_name := [] |> <| tag_self := false |> <| tag_dup := false |> <| tag_attrs := [] |>) m
  else upd (fun x => x <| tag_name := [] |> <| tag_attrs := [] |>) m.

Fixpoint lookup_resp (name : str) (l : list (str * resp)) : option resp :=
  match l with
  | [] => None
  | (n, r) :: t => if str_eqb n name then Some r else lookup_resp name t
  end.

Definition emit_current_tag (m : M) : M * sres :=
  let m := finish_attribute m in
  let c := mc m in
  let name := tag_name c in
  let m := upd (fun x => x <| tag_name := [] |>) m in
  if f_html fl then
    let m := match tag_kind c with
             | TStartTag => upd (fun x => x <| last_start := Some name |>) m
             | _ => let m := if match tag_attrs c with [] => false | _ => true end then err m else m in
                    if tag_self c then err m else m
             end in
    let m := emit (TTag (tag_kind c) name (tag_self c) (tag_attrs c) (tag_dup c)) m in
    let m := upd (fun x => x <| tag_attrs := [] |>) m in
    (* the scripted sink: Plaintext / RawData / EncodingIndicator answers on start tags, Script on END tags
       (as the tree builder does for </script>) *)
    match tag_kind c, lookup_resp name (sk_resp sk) with
    | TStartTag, Some RespPlaintext => (upd (fun x => x <| st := f_plaintext fl |>) m, SContinue)
    | TEndTag, Some RespScript => (upd (fun x => x <| st := f_data fl |>) m, SScript)
    | TStartTag, Some (RespRawData k) => (upd (fun x => x <| st := f_rawdata fl k |>) m, SContinue)
    | TStartTag, Some RespEncoding => (m, SEncoding)
    | _, _ => (m, SContinue)
    end
  else
    let m := match tag_kind c with
             | TEndTag | TShortTag => if match tag_attrs c with [] => false | _ => true end then err m else m
             | _ => m
             end in
    let m := emit (TTag (tag_kind c) name false (tag_attrs c) false) m in
    let m := upd (fun x => x <| tag_attrs := [] |>) m in
    match tag_kind c, lookup_resp name (sk_resp sk) with
    | TEndTag, Some RespScript => (m, SScript)
    | _, _ => (m, SContinue)
    end.

(* ---- commands *)
Definition ceval (e : cexp) (c : N) : N :=
  match e with CLit n => n | CCur => c | CLower => to_lower c | CAsciiLower => to_lower c end.

Definition opt_push (o : option str) (c : N) : option str :=
  match o with Some s => Some (s ++ [c]) | None => Some [c] end.

Definition emit_char (c : N) (m : M) : M :=
  if f_html fl then (if c =? 0 then emit TNull m else emit (TChars [c]) m)
  else emit (TChars [if c =? 0 then REPL else c]) m.

Definition do_cmd (k : cmd) (c : N) (run : list N) (m : M) : M :=
  match k with
  | CreateTag tk e => upd (fun x => x <| tag_name := [ceval e c] |> <| tag_kind := tk |>) (discard_tag m)
  | PushTag e => upd (fun x => x <| tag_name ::= (fun s => s ++ [ceval e c]) |>) m
  | DiscardTag => discard_tag m
  | DiscardChar => discard_char m
  | DiscardWs => discard_ws c m
  | PushTemp e => upd (fun x => x <| temp_buf ::= (fun s => s ++ [ceval e c]) |>) m
  | ClearTemp => upd (fun x => x <| temp_buf := [] |>) m
  | CreateAttr e => upd (fun x => x <| attr_name ::= (fun s => s ++ [ceval e c]) |>) (finish_attribute m)
  | PushName e => upd (fun x => x <| attr_name ::= (fun s => s ++ [ceval e c]) |>) m
  | PushValue e => upd (fun x => x <| attr_value ::= (fun s => s ++ [ceval e c]) |>) m
  | AppendValueRun => upd (fun x => x <| attr_value ::= (fun s => s ++ run) |>) m
  | PushComment e => upd (fun x => x <| comment ::= (fun s => s ++ [ceval e c]) |>) m
  | AppendComment s0 => upd (fun x => x <| comment ::= (fun s => s ++ s0) |>) m
  | EmitComment => upd (fun x => x <| comment := [] |>) (emit (TComment (comment (mc m))) m)
  | ClearComment => upd (fun x => x <| comment := [] |>) m
  | CreateDoctype => upd (fun x => x <| dt_name := None |> <| dt_pub := None |> <| dt_sys := None |> <| dt_quirks := false |>) m
  | PushDoctypeName e => upd (fun x => x <| dt_name ::= (fun o => opt_push o (ceval e c)) |>) m
  | PushDoctypeId KPublic e => upd (fun x => x <| dt_pub ::= (fun o => opt_push o (ceval e c)) |>) m
  | PushDoctypeId _ e => upd (fun x => x <| dt_sys ::= (fun o => opt_push o (ceval e c)) |>) m
  | ClearDoctypeId KPublic => upd (fun x => x <| dt_pub := Some [] |>) m
  | ClearDoctypeId _ => upd (fun x => x <| dt_sys := Some [] |>) m
  | ForceQuirks => upd (fun x => x <| dt_quirks := true |>) m
  | EmitDoctype =>
    let c0 := mc m in
    upd (fun x => x <| dt_name := None |> <| dt_pub := None |> <| dt_sys := None |> <| dt_quirks := false |>)
        (emit (TDoctype (dt_name c0) (dt_pub c0) (dt_sys c0) (dt_quirks c0)) m)
  | Emit e => emit_char (ceval e c) m
  | EmitRun => emit (TChars run) m
  | EmitTemp => upd (fun x => x <| temp_buf := [] |>) (emit (TChars (temp_buf (mc m))) m)
  | Error | ErrorEof | ErrorMsg => err m
  | SetSelfClosing => upd (fun x => x <| tag_self := true |>) m
  | SetEmptyTag => upd (fun x => x <| tag_kind := TEmptyTag |>) m
  | CreatePi e => upd (fun x => x <| pi_target := [ceval e c] |> <| pi_data := [] |>) m
  | PushPiTarget e => upd (fun x => x <| pi_target ::= (fun s => s ++ [ceval e c]) |>) m
  | PushPiData e => upd (fun x => x <| pi_data ::= (fun s => s ++ [ceval e c]) |>) m
  end.

Definition ceval_cond (k : cond) (c : N) (m : M) : bool :=
  match k with
  | CIn cs => memb c cs
  | CRange lo hi => (lo <=? c) && (c <=? hi)
  | CLetter => is_alpha c
  | CTempIs s => str_eqb (temp_buf (mc m)) s
  | CAppropriate =>
    match last_start (mc m) with
    | Some l => (match tag_kind (mc m) with TEndTag => true | _ => false end) && str_eqb (tag_name (mc m)) l
    | None => false
    end
  | CForeign => sk_foreign sk
  end.

Definition do_term (t : term S) (m : M) : M * sres :=
  match t with
  | Stay => (m, SContinue)
  | Fall => (m, SPanic 99)
  | To s => (upd (fun x => x <| st := s |>) m, SContinue)
  | Reconsume s => (upd (fun x => x <| reconsume := true |> <| st := s |>) m, SContinue)
  | ConsumeCharRef addnl =>
    (upd (fun x => x <| cref := Some (cr_new (f_is_attr_value fl (st x)) addnl) |>) m, SContinue)
  | EmitTag s => emit_current_tag (upd (fun x => x <| st := s |>) m)
  | EmitKind TShortTag s => emit_current_tag (upd (fun x => x <| st := s |> <| tag_kind := TShortTag |> <| tag_name := [] |>) m)
  | EmitKind k s => emit_current_tag (upd (fun x => x <| st := s |> <| tag_kind := k |>) m)
  | EmitPi s =>
    let c0 := mc m in
    (upd (fun x => x <| st := s |> <| pi_target := [] |> <| pi_data := [] |>) (emit (TPi (pi_target c0) (pi_data c0)) m), SContinue)
  | Eof => (emit TEof m, SSuspend)
  end.

Fixpoint exec (at_eof : bool) (b : body S) (c : N) (run : list N) (m : M) : M * sres :=
  match b with
  | BRead RGet k =>
    match get_char m with (None, m') => (m', SSuspend) | (Some c', m') => exec at_eof k c' run m' end
  | BRead RPeek k =>
    match peek m with None => (m, SSuspend) | Some c' => exec at_eof k c' run m end
  | BPop set use_simd krun kchar =>
    match pop_except_from set use_simd m with
    | (PopNone, m') => (m', SSuspend)
    | (PopChar c', m') => exec at_eof kchar c' run m'
    | (PopRun r, m') => exec at_eof krun c r m'
    end
  | BEat pat ex yes no =>
    match eat at_eof pat ex m with
    | (None, m') => (m', SSuspend)
    | (Some true, m') => exec at_eof yes c run m'
    | (Some false, m') => exec at_eof no c run m'
    end
  | BIf k yes no => if ceval_cond k c m then exec at_eof yes c run m else exec at_eof no c run m
  | BCmd k rest => exec at_eof rest c run (do_cmd k c run m)
  | BEnd t => do_term t m
  end.

(* ---- character references *)
Definition process_char_ref (chars : list N) (m : M) : M * bool (* panicked *) :=
  let chars := match chars with [] => [38] | _ => chars end in
  fold_left (fun '(m, bad) c =>
               match f_charref_emit fl (st (mc m)) with
               | Some false => (emit_char c m, bad)
               | Some true => (upd (fun x => x <| attr_value ::= (fun s => s ++ [c]) |>) m, bad)
               | None => (m, true)
               end) chars (m, false).

Definition finish_numeric (cr : crt) (m : M) : list N * M :=
  let n := cr_num cr in
  let '(c, e) :=
    if (0x10FFFF <? n) || cr_big cr then (REPL, true)
    else if (n =? 0) || ((0xD800 <=? n) && (n <=? 0xDFFF)) then (REPL, true)
    else if (0x80 <=? n) && (n <=? 0x9F) then (match c1 n with Some c => c | None => n end, true)
    else if ((1 <=? n) && (n <=? 8)) || (n =? 0x0B) || ((0x0D <=? n) && (n <=? 0x1F)) || (n =? 0x7F)
            || ((0xFDD0 <=? n) && (n <=? 0xFDEF)) then (n, true)
    else if N.land n 0xFFFE =? 0xFFFE then (n, true)
    else (n, false) in
  ([c], if e then err m else m).

Inductive crres := CrStuck | CrProgress (cr : crt) | CrDone (chars : list N).

Definition unconsume_numeric (cr : crt) (m : M) : crres * M :=
  let u := 35 :: match cr_hex cr with Some c => [c] | None => [] end in
  (CrDone [], err (unconsume u m)).

(* NB on the ghost counter: the name buffer is look-ahead, so for [mcons] the un-consumption is accounted for
   BEFORE the parse error is emitted (the Rust code emits first and pushes back second; the two commute for
   everything except the ghost) *)
Definition finish_named (cr : crt) (end_char : option N) (m : M) : crres * M :=
  match cr_match cr with
  | None =>
    match end_char with
    | Some c =>
      if is_alnum c then (CrProgress (cr <| cr_st := CrBogus |>), m)
      else
        let m0 := unconsume (cr_buf cr) m in
        (CrDone [], if (c =? 59) && Nat.ltb 1 (length (cr_buf cr)) then err m0 else m0)
    | None => (CrDone [], unconsume (cr_buf cr) m)
    end
  | Some (c1', c2') =>
    let nl := cr_len cr in
    let last := nth (nl - 1) (cr_buf cr) 0 in
    let next_after := nth_error (cr_buf cr) nl in
    let in_attr := if f_html fl then cr_attr cr else match cr_addnl cr with Some _ => true | None => false end in
    (* (unconsume_all, error) *)
    let '(unc, e) :=
      if last =? 59 then (false, false)
      else match in_attr, next_after with
           | true, Some c => if c =? 61 then (true, negb (f_html fl))
                             else if is_alnum c then (true, false) else (false, true)
           | _, _ => (false, true)
           end in
    if unc then
      let m0 := unconsume (cr_buf cr) m in
      (CrDone [], if e then err m0 else m0)
    else
      let m0 := unconsume (skipn nl (cr_buf cr)) m in
      let m1 := if e then err m0 else m0 in
      let m3 := if f_html fl then upd (fun x => x <| ignore_lf := false |>) m1 else m1 in
      (CrDone (c1' :: (if c2' =? 0 then [] else [c2'])), m3)
  end.

(* the named / bogus-name read: peek + RAW discard (no newline normalisation), so that what is un-consumed
   later is exactly what was read.  xml: XmlTokenizer::discard_raw_char *)
Definition discard_raw (m : M) : M :=
  if f_html fl then discard_char m
  else if reconsume (mc m) then upd (fun x => x <| reconsume := false |>) m
  else match Qnext (mq m) with Some (_, q') => took 1 (m <| mq := q' |>) | None => m end.
Definition cr_read (m : M) : option N * M :=
  match peek m with None => (None, m) | Some c => (Some c, discard_raw m) end.

Definition cr_step (cr : crt) (m : M) : crres * M :=
  match cr_st cr with
  | CrBegin =>
    match peek m with
    | None => (CrStuck, m)
    | Some c =>
      if f_html fl then
        if is_alnum c then (CrProgress (cr <| cr_st := CrNamed |> <| cr_buf := [] |>), m)
        else if c =? 35 then (CrProgress (cr <| cr_st := CrOcto |>), discard_char m)
        else (CrDone [], m)
      else
        if memb c [9; 10; 12; 32; 60; 38] then (CrDone [], m)
        else if match cr_addnl cr with Some a => a =? c | None => false end then (CrDone [], m)
        else if c =? 35 then (CrProgress (cr <| cr_st := CrOcto |>), discard_char m)
        else (CrProgress (cr <| cr_st := CrNamed |> <| cr_buf := [] |>), m)
    end
  | CrOcto =>
    match peek m with
    | None => (CrStuck, m)
    | Some c =>
      if (c =? 120) || (c =? 88) then (CrProgress (cr <| cr_hex := Some c |> <| cr_st := CrNumeric 16 |>), discard_char m)
      else (CrProgress (cr <| cr_hex := None |> <| cr_st := CrNumeric 10 |>), m)
    end
  | CrNumeric base =>
    match peek m with
    | None => (CrStuck, m)
    | Some c =>
      match to_digit base c with
      | Some n =>
        let num := (cr_num cr * base) mod 4294967296 in
        let big := cr_big cr || (0x10FFFF <? num) in
        let num := (num + n) mod 4294967296 in
        (CrProgress (cr <| cr_num := num |> <| cr_big := big |> <| cr_seen := true |>), discard_char m)
      | None =>
        if negb (cr_seen cr) then unconsume_numeric cr m
        else (CrProgress (cr <| cr_st := CrNumSemi |>), m)
      end
    end
  | CrNumSemi =>
    match peek m with
    | None => (CrStuck, m)
    | Some c =>
      let m1 := if c =? 59 then discard_char m else err m in
      let '(chars, m2) := finish_numeric cr m1 in (CrDone chars, m2)
    end
  | CrNamed =>
    match cr_read m with
    | (None, m1) => (CrStuck, m1)
    | (Some c, m1) =>
      let buf := cr_buf cr ++ [c] in
      let cr1 := cr <| cr_buf := buf |> in
      match ent buf with
      | Some (a, b) =>
        (CrProgress (if a =? 0 then cr1 else cr1 <| cr_match := Some (a, b) |> <| cr_len := length buf |>), m1)
      | None => finish_named cr1 (Some c) m1
      end
    end
  | CrBogus =>
    match cr_read m with
    | (None, m1) => (CrStuck, m1)
    | (Some c, m1) =>
      let cr1 := cr <| cr_buf ::= (fun b => b ++ [c]) |> in
      if is_alnum c then (CrProgress cr1, m1)
      else
        let m2 := unconsume (cr_buf cr1) m1 in
        (CrDone [], if c =? 59 then err m2 else m2)
    end
  end.

Definition cr_eof (cr : crt) (m : M) : list N * M :=
  match cr_st cr with
  | CrBegin => ([], m)
  | CrNumeric _ =>
    if negb (cr_seen cr) then (match unconsume_numeric cr m with (_, m') => ([], m') end)
    else finish_numeric cr (err m)
  | CrNumSemi => finish_numeric cr (err m)
  | CrNamed =>
    match finish_named cr None m with
    | (CrDone chars, m') => (chars, m')
    | (_, m') => ([], m')
    end
  | CrBogus => ([], unconsume (cr_buf cr) m)
  | CrOcto => ([], err (unconsume [35] m))
  end.

(* ---- step / run / feed / end *)
Definition step (at_eof : bool) (m : M) : M * sres :=
  match cref (mc m) with
  | Some cr =>
    match cr_step cr m with
    | (CrStuck, m') => (m', SSuspend)
    | (CrProgress cr', m') => (upd (fun x => x <| cref := Some cr' |>) m', SContinue)
    | (CrDone chars, m') =>
      let '(m'', bad) := process_char_ref chars m' in
      (upd (fun x => x <| cref := None |>) m'', if bad then SPanic 1 else SContinue)
    end
  | None => exec at_eof (t_step tb (st (mc m))) 0 [] m
  end.

Fixpoint run (at_eof : bool) (fuel : nat) (m : M) : M * sres :=
  match fuel with
  | O => (m, SPanic 98)
  | Datatypes.S f =>
    match step at_eof m with
    | (m', SContinue) => run at_eof f m'
    | r => r
    end
  end.

(* Tokenizer::feed *)
Definition feed (fuel : nat) (m : M) : M * sres :=
  match Qpeek (mq m) with
  | None => (m, SSuspend)
  | Some _ =>
    let m1 := if discard_bom (mc m) then
                match Qpeek (mq m) with
                | Some c =>
                  let m' := if c =? BOM then match Qnext (mq m) with Some (_, q') => took 1 (m <| mq := q' |>) | None => m end else m in
                  upd (fun x => x <| discard_bom := false |>) m'     (* only the first character of the stream *)
                | None => m
                end
              else m in
    run false fuel m1
  end.

Fixpoint eof_loop (fuel : nat) (m : M) : M * sres :=
  match fuel with
  | O => (m, SPanic 97)
  | Datatypes.S f =>
    match exec true (t_eof tb (st (mc m))) 0 [] m with
    | (m', SContinue) => eof_loop f m'
    | (m', SSuspend) => (m', SSuspend)
    | (m', SPanic n) => (m', SPanic n)
    | (m', _) =>
      (* html: unreachable!();  xml: a Script request from a tag completed by the end of the input cannot be handed to
         the caller of end(): the loop goes on so that the EOF token is delivered *)
      if f_html fl then (m', SPanic 3) else eof_loop f m'
    end
  end.

(* Tokenizer::end — works on a FRESH input queue: whatever is still in the caller's queue is not seen *)
Definition tok_end (fuel : nat) (m : M) : M * sres :=
  let m0 := m <| mq := Qemp |> in
  let '(m1, bad) :=
    match cref (mc m0) with
    | None => (m0, false)
    | Some cr =>
      let '(chars, m') := cr_eof cr (upd (fun x => x <| cref := None |>) m0) in
      process_char_ref chars m'
    end in
  if bad then (m1, SPanic 1) else
  let m2 := m1 in
  match run true fuel m2 with
  | (m3, SSuspend) =>
    match Qpeek (mq m3) with
    | None => eof_loop fuel m3
    | Some _ => if f_html fl then (m3, SPanic 5) (* assert!(input.is_empty()) *) else eof_loop fuel m3
    end
  | (m3, SPanic n) => (m3, SPanic n)
  | (m3, _) => if f_html fl then (m3, SPanic 4) (* assert!(matches!(run, Done)) *) else eof_loop fuel m3
  end.

(* a driver in the style of the harness: push each chunk, feed until Done; on a Script result
   optionally inject a string at the front of the queue first (document.write) *)
Fixpoint feed_loop (n : nat) (fuel : nat) (inject : list N) (m : M) (log : list sres) : M * list sres :=
  match n with
  | O => (m, SPanic 96 :: log)
  | Datatypes.S n' =>
    match feed fuel m with
    | (m', SScript) => feed_loop n' fuel inject (m' <| mq ::= Qpushf inject |>) (SScript :: log)
    | (m', SEncoding) => feed_loop n' fuel inject m' (SEncoding :: log)
    | (m', r) => (m', r :: log)
    end
  end.

Fixpoint drive (fuel : nat) (inject : list N) (chunks : list (list N)) (m : M) (log : list sres) : M * list sres :=
  match chunks with
  | [] => let '(m', r) := tok_end fuel m in (m', r :: log)
  | ch :: rest =>
    let '(m', log') := feed_loop 50 fuel inject (m <| mq ::= (fun q => Qpushb q ch) |>) log in
    drive fuel inject rest m' log'
  end.

End Interp.

(* ------------------------------------------------------------------ the chunked queue = BufferQueue (C13) *)
Definition qrun_chunked (stop : N -> bool) (q : queue) : list N * queue :=
  match q with
  | [] => ([], [])
  | buf :: t =>
    let r := (fix go (b : list N) : list N * list N :=
                match b with [] => ([], []) | c :: b' => if stop c then ([], b) else let '(r, s) := go b' in (c :: r, s) end) buf in
    (fst r, qpush_front (snd r) t)
  end.
Definition drive_chunked {S} := @drive S queue [] qnext qpeek qpush_front qpush_back qflat qrun_chunked.

(* the flat queue with unit runs: reference semantics of the chunking theorems *)
Definition fq_next (q : list N) : option (N * list N) := match q with [] => None | c :: t => Some (c, t) end.
Definition fq_peek (q : list N) : option N := match q with [] => None | c :: _ => Some c end.
Definition fq_run1 (stop : N -> bool) (q : list N) : list N * list N :=
  match q with [] => ([], []) | c :: t => if stop c then ([], q) else ([c], t) end.
Definition drive_flat {S} := @drive S (list N) [] fq_next fq_peek (@app N) (@app N) (fun q => q) fq_run1.

Definition init_cfg {S} (s0 : S) (last : option str) (bom : bool) : cfg S :=
  mkcfg s0 false 0 false bom [] TStartTag [] false false [] [] [] [] None None None false [] [] last None 1.

(* ------------------------------------------------------------------ the two flavours *)
Definition html_flavour : flavour hstate := {|
  f_html := true; f_data := HData; f_plaintext := HPlaintext; f_rawdata := HRawData;
  f_is_attr_value := fun s => match s with HAttributeValue _ => true | _ => false end;
  f_charref_emit := fun s => match s with
                             | HData | HRawData KRcdata => Some false
                             | HAttributeValue _ => Some true
                             | _ => None end |}.
Definition xml_flavour : flavour xstate := {|
  f_html := false; f_data := XData; f_plaintext := XData; f_rawdata := fun _ => XData;
  f_is_attr_value := fun s => match s with XTagAttrValue _ => true | _ => false end;
  f_charref_emit := fun s => match s with
                             | XData | XCdata => Some false
                             | XTagAttrValue _ => Some true
                             | _ => None end |}.
