(* The side condition [step_ok] of the run relation of TokIR/Chunk.v is an INVARIANT of the interpreter, for every
   table that passes two decidable checks:
     - [rfirst]:   every step body starts with a consuming read (get_char / pop_except_from) or with eat;
     - [rtargets]: no arm reconsumes in a state whose body starts with eat.
   Invariant J: the reconsume flag is set only while the current state's body does not start with eat.
   (For the html flavour step_ok is trivially true; the invariant matters for xml, whose eat() does not look at the
   reconsume flag.)  Consequence: on every machine reachable from a J-machine the relational run of Chunk.v is the
   fuelled executable loop, without side condition. *)
From Coq Require Import List NArith Bool Lia Arith.
From RecordUpdate Require Import RecordSet.
From HV Require Import TokIR.IR TokIR.Interp TokIR.Checks TokIR.Chunk.
Import ListNotations RecordSetNotations.
Local Open Scope N_scope.

Section Inv.
Context {S : Type}.
Variable fl : flavour S.
Variable ex : bool.
Variable tb : table S.
Variable simd : list N * list N * list N.
Variable ent : list N -> option (N * N).
Variable c1 : N -> option N.
Variable sk : sinkcfg.

Notation M := (mach S (list N)).
Notation fid := (fun q : list N => q).
Notation gpcF := (@get_preprocessed_char S (list N) fq_next fl ex).
Notation get_charF := (@get_char S (list N) fq_next fl ex).
Notation peekF := (@peek S (list N) fq_peek).
Notation discard_charF := (@discard_char S (list N) fq_next fl ex).
Notation discard_wsF := (@discard_ws S (list N) fq_next fl ex).
Notation popF := (@pop_except_from S (list N) fq_next fq_peek fq_run1 fl ex simd).
Notation eat_bodyF := (@eat_body S (list N) [] fq_next fq_peek (@app N) fid false).
Notation eatF := (@eat S (list N) [] fq_next fq_peek (@app N) fid fl ex false).
Notation do_cmdF := (@do_cmd S (list N) fq_next fl ex).
Notation do_termF := (@do_term S (list N) fl sk).
Notation execF := (@exec S (list N) [] fq_next fq_peek (@app N) fid fq_run1 fl ex simd sk false).
Notation unconsumeF := (@unconsume S (list N) (@app N)).
Notation cr_stepF := (@cr_step S (list N) fq_next fq_peek (@app N) fl ex ent c1).
Notation stepF := (@step S (list N) [] fq_next fq_peek (@app N) fid fq_run1 fl ex tb simd ent c1 sk false).
Notation runF := (@run S (list N) [] fq_next fq_peek (@app N) fid fq_run1 fl ex tb simd ent c1 sk false).
Notation orunsF := (@oruns S fl ex tb simd ent c1 sk).
Notation step_okF := (@step_ok S fl tb).

Definition rc (m : M) : bool := reconsume (mc m).
Definition stt (m : M) : S := st (mc m).

(* the invariant *)
Definition J (m : M) : Prop := rc m = true -> is_eat (t_step tb (stt m)) = false.

Lemma J_step_ok (m : M) : J m -> step_okF m.
Proof.
  unfold J, step_ok, rec_ok, rc, stt. intros HJ _ He. right.
  destruct (reconsume (mc m)) eqn:E; [|reflexivity]. rewrite (HJ eq_refl) in He. discriminate.
Qed.

(* "not increased": the state is unchanged and the reconsume flag was not raised *)
Definition dbom (m : M) : bool := discard_bom (mc m).
Definition ni (m m' : M) : Prop := stt m' = stt m /\ (rc m' = true -> rc m = true) /\ dbom m' = dbom m.
Lemma ni_refl m : ni m m. Proof. repeat split; auto. Qed.
Lemma ni_trans m1 m2 m3 : ni m1 m2 -> ni m2 m3 -> ni m1 m3.
Proof. intros (A & B & E) (C & D & F). repeat split; [congruence|auto|congruence]. Qed.
Lemma ni_false m m' : ni m m' -> rc m = false -> rc m' = false.
Proof. intros (_ & B & _) H. destruct (rc m') eqn:E; [|reflexivity]. rewrite (B eq_refl) in H. discriminate. Qed.
Lemma ni_dbom m m' : ni m m' -> dbom m' = dbom m.
Proof. intros (_ & _ & B). exact B. Qed.

(* an update of the configuration that touches none of the three fields *)
Definition cfg_keeps (f : cfg S -> cfg S) : Prop :=
  forall x, st (f x) = st x /\ reconsume (f x) = reconsume x /\ discard_bom (f x) = discard_bom x.
Lemma upd_ni f (m : M) : cfg_keeps f -> ni m (upd f m).
Proof.
  intros H. destruct m as [cf q o k]. unfold ni, rc, stt, dbom, upd; cbn. destruct (H cf) as (A & B & C).
  rewrite A, B, C. auto.
Qed.
Lemma upd_clear_ni (m : M) : ni m (upd (fun x => x <| reconsume := false |>) m).
Proof. destruct m as [cf q o k]. destruct cf. unfold ni, rc, stt, dbom, upd; cbn. repeat split; discriminate. Qed.
Lemma emit_ni t (m : M) : ni m (emit t m).
Proof. destruct m; repeat split; auto. Qed.
Lemma err_ni (m : M) : ni m (err m).
Proof. apply emit_ni. Qed.
Lemma took_ni n (m : M) : ni m (took n m).
Proof. destruct m; repeat split; auto. Qed.
Lemma setq_ni q (m : M) : ni m (m <| mq := q |>).
Proof. destruct m; repeat split; auto. Qed.
Lemma unconsume_ni b (m : M) : ni m (unconsumeF b m).
Proof. destruct m; repeat split; auto. Qed.

Ltac keeps := intros x; destruct x; repeat split; reflexivity.

(* ---------------------------------------------------------------- reads *)
Notation gpc_skipF := (@gpc_skip S (list N) fq_next).
Notation gpc_postF := (@gpc_post S (list N) fl ex).

Lemma gpc_skip_ni c (m : M) : ni m (snd (gpc_skipF c m)).
Proof.
  unfold gpc_skip. destruct m as [cf q o k]. unfold ni, rc, stt, upd, took, set; cbn.
  destruct (ignore_lf cf); [|cbn; auto].
  destruct (c =? LF); [|cbn; destruct cf; cbn; auto].
  destruct q as [|d q']; cbn; destruct cf; cbn; auto.
Qed.
Lemma gpc_post_ni c (m : M) : ni m (snd (gpc_postF c m)).
Proof.
  unfold gpc_post. destruct (gpc_decide (f_html fl) ex c) as [[[c' a] b] d].
  destruct m as [cf q o k]; destruct cf; destruct a, b, d; split; auto.
Qed.
Lemma gpc_ni c (m : M) : ni m (snd (gpcF c m)).
Proof.
  unfold get_preprocessed_char. pose proof (gpc_skip_ni c m) as H.
  destruct (gpc_skipF c m) as [[d|] m1]; cbn [snd fst] in *; [|exact H].
  pose proof (gpc_post_ni d m1) as H2. destruct (gpc_postF d m1) as [c2 m2]; cbn [snd fst] in *.
  eapply ni_trans; eassumption.
Qed.

(* get_char: the state is kept; a character delivered leaves the flag clear; a suspension leaves it as it was
   (necessarily clear) *)
Lemma get_char_ni (m : M) : ni m (snd (get_charF m)).
Proof.
  unfold get_char. destruct (reconsume (mc m)) eqn:E; cbn; [apply upd_clear_ni|].
  destruct (fq_next (mq m)) as [[c q']|]; [|apply ni_refl].
  eapply ni_trans; [|apply gpc_ni]. eapply ni_trans; [apply setq_ni|apply took_ni].
Qed.
Lemma get_char_some_clear (m m' : M) c : get_charF m = (Some c, m') -> rc m' = false.
Proof.
  unfold get_char. destruct (reconsume (mc m)) eqn:E.
  - intros H; inversion H; subst. destruct m as [cf q o k]; reflexivity.
  - destruct (fq_next (mq m)) as [[d q']|]; [|discriminate]. intros H.
    pose proof (gpc_ni d (took 1 (m <| mq := q' |>))) as G.
    replace m' with (snd (gpcF d (took 1 (m <| mq := q' |>)))) by (rewrite H; reflexivity).
    apply (ni_false _ _ G). destruct m as [cf q o k]; exact E.
Qed.

Lemma discard_char_ni (m : M) : ni m (discard_charF m).
Proof.
  unfold discard_char. destruct (f_html fl); [|apply get_char_ni].
  destruct (reconsume (mc m)); [apply upd_clear_ni|].
  destruct (fq_next (mq m)) as [[c q']|].
  - eapply ni_trans; [eapply ni_trans; [apply setq_ni|apply took_ni]|apply upd_ni; keeps].
  - apply upd_ni; keeps.
Qed.
Lemma discard_ws_ni c (m : M) : ni m (discard_wsF c m).
Proof.
  unfold discard_ws.
  assert (H : ni m (upd (fun x => x <| ignore_lf := (c =? CR) |>) (discard_charF m))).
  { eapply ni_trans; [apply discard_char_ni|apply upd_ni; keeps]. }
  destruct ((c =? CR) || ((c =? LF) && negb (ignore_lf (mc m)))); [|exact H].
  eapply ni_trans; [exact H|apply upd_ni; keeps].
Qed.

Lemma pop_ni set sm (m : M) : ni m (snd (popF set sm m)).
Proof.
  unfold pop_except_from.
  destruct (ex || reconsume (mc m) || ignore_lf (mc m)).
  - pose proof (get_char_ni m) as H. destruct (get_charF m) as [[c|] m']; exact H.
  - destruct (fq_peek (mq m)) as [c0|]; [|apply ni_refl].
    destruct simd as [[guard stop] nl].
    destruct (sm && negb (memb c0 guard)).
    + destruct (fq_run1 (fun c => memb c stop) (mq m)) as [r q']. cbn.
      eapply ni_trans; [|apply took_ni]. eapply ni_trans; [apply setq_ni|apply upd_ni; keeps].
    + destruct (fq_run1 (in_set set) (mq m)) as [r q'].
      destruct r as [|a r'].
      * destruct (fq_next (mq m)) as [[c q1]|]; [|apply ni_refl].
        pose proof (gpc_ni c (took 1 (m <| mq := q1 |>))) as H.
        destruct (gpcF c (took 1 (m <| mq := q1 |>))) as [[c'|] m']; cbn [snd fst] in *;
          (eapply ni_trans; [eapply ni_trans; [apply setq_ni|apply took_ni]|exact H]).
      * cbn. eapply ni_trans; [apply setq_ni|apply took_ni].
Qed.

Lemma eat_body_ni p e (m : M) : ni m (snd (eat_bodyF p e m)).
Proof.
  unfold eat_body.
  set (m2 := upd (fun x => x <| temp_buf := [] |>) (unconsumeF (temp_buf (mc m)) m)).
  assert (H2 : ni m m2). { eapply ni_trans; [apply unconsume_ni|apply upd_ni; keeps]. }
  match goal with |- context [match ?e with EatTrue => _ | EatFalse => _ | EatNone => _ end] => destruct e end; cbn [snd].
  - eapply ni_trans; [exact H2|]. eapply ni_trans; [|apply took_ni].
    eapply ni_trans; [apply setq_ni|apply upd_ni; keeps].
  - exact H2.
  - eapply ni_trans; [exact H2|]. eapply ni_trans; [apply setq_ni|apply took_ni].
Qed.
Lemma eat_ni p e (m : M) : ni m (snd (eatF p e m)).
Proof.
  unfold eat. destruct (ignore_lf (mc m)); [|apply eat_body_ni].
  destruct (peekF m) as [c|]; [|apply ni_refl].
  eapply ni_trans; [|apply eat_body_ni].
  eapply ni_trans; [|apply upd_ni; keeps].
  destruct (c =? LF); [|apply ni_refl].
  destruct (f_html fl); [apply discard_char_ni|].
  destruct (fq_next (mq m)) as [[d q']|]; [|apply ni_refl].
  eapply ni_trans; [apply setq_ni|apply took_ni].
Qed.

(* ---------------------------------------------------------------- commands and terminators *)
Notation finish_attributeF := (@finish_attribute S (list N) fl).
Notation discard_tagF := (@discard_tag S (list N) fl).
Notation emit_charF := (@emit_char S (list N) fl).
Notation emit_current_tagF := (@emit_current_tag S (list N) fl sk).

Lemma finish_attribute_ni (m : M) : ni m (finish_attributeF m).
Proof.
  unfold finish_attribute. destruct (attr_name (mc m)); [apply ni_refl|].
  destruct (f_html fl).
  - destruct (existsb _ _).
    + eapply ni_trans; [apply err_ni|apply upd_ni; keeps].
    + apply upd_ni; keeps.
  - destruct (existsb _ _).
    + eapply ni_trans; [apply err_ni|apply upd_ni; keeps].
    + destruct (qname_split _) as [p l]. apply upd_ni; keeps.
Qed.
Lemma discard_tag_ni (m : M) : ni m (discard_tagF m).
Proof. unfold discard_tag. destruct (f_html fl); apply upd_ni; keeps. Qed.
Lemma emit_char_ni c (m : M) : ni m (emit_charF c m).
Proof. unfold emit_char. destruct (f_html fl); [destruct (c =? 0)|]; apply emit_ni. Qed.

Lemma do_cmd_ni k c run (m : M) : ni m (do_cmdF k c run m).
Proof.
  destruct k; cbn [do_cmd];
    try match goal with |- context [match ?x with KPublic => _ | _ => _ end] => destruct x end;
    match goal with
    | |- ni _ (upd _ (discard_tagF _)) => eapply ni_trans; [apply discard_tag_ni|apply upd_ni; keeps]
    | |- ni _ (upd _ (finish_attributeF _)) => eapply ni_trans; [apply finish_attribute_ni|apply upd_ni; keeps]
    | |- ni _ (upd _ (emit _ _)) => eapply ni_trans; [apply emit_ni|apply upd_ni; keeps]
    | |- ni _ (upd _ _) => apply upd_ni; keeps
    | |- ni _ (discard_tagF _) => apply discard_tag_ni
    | |- ni _ (discard_charF _) => apply discard_char_ni
    | |- ni _ (discard_wsF _ _) => apply discard_ws_ni
    | |- ni _ (emit_charF _ _) => apply emit_char_ni
    | |- ni _ (err _) => apply err_ni
    | |- ni _ (emit _ _) => apply emit_ni
    end.
Qed.

(* emitting a tag may change the state (html: raw-text / plaintext / script feedback) but never raises the flag *)
Lemma emit_current_tag_rc (m : M) : rc (fst (emit_current_tagF m)) = true -> rc m = true.
Proof.
  unfold emit_current_tag. pose proof (finish_attribute_ni m) as [_ H0].
  set (m1 := finish_attributeF m) in *. intros H. apply H0. clear H0. revert H.
  destruct (f_html fl).
  - destruct (tag_kind (mc m1)) eqn:Ek;
      destruct (lookup_resp (tag_name (mc m1)) (sk_resp sk)) as [[]|];
      destruct (tag_attrs (mc m1)); destruct (tag_self (mc m1)); destruct m1 as [cf q o k0]; destruct cf; cbn; auto.
  - destruct (tag_kind (mc m1)) eqn:Ek;
      destruct (lookup_resp (tag_name (mc m1)) (sk_resp sk)) as [[]|];
      destruct (tag_attrs (mc m1)); destruct m1 as [cf q o k0]; destruct cf; cbn; auto.
Qed.

(* targets of reconsume terminators must not be eat states *)
Fixpoint rt_ok (b : body S) : bool :=
  match b with
  | BRead _ k => rt_ok k
  | BPop _ _ r c => rt_ok r && rt_ok c
  | BEat _ _ y n | BIf _ y n => rt_ok y && rt_ok n
  | BCmd _ k => rt_ok k
  | BEnd (Reconsume s) => negb (is_eat (t_step tb s))
  | BEnd _ => true
  end.

Lemma do_term_J t (m : M) : rt_ok (BEnd t) = true -> rc m = false -> J (fst (do_termF t m)).
Proof.
  intros Ht Hr. unfold J.
  destruct t; cbn [do_term fst].
  - (* Stay *) intros H. unfold rc in *. congruence.
  - intros H. unfold rc in *. congruence.
  - (* To *) destruct m as [cf q o k]; unfold rc in *; cbn in *. intros H; congruence.
  - (* Reconsume *) cbn [rt_ok] in Ht. apply negb_true_iff in Ht. intros _.
    destruct m as [cf q o k]; unfold stt; cbn. exact Ht.
  - (* ConsumeCharRef *) destruct m as [cf q o k]; unfold rc in *; cbn in *. intros H; congruence.
  - (* EmitTag *) intros H. apply emit_current_tag_rc in H.
    destruct m as [cf q o k]; unfold rc in *; cbn in *. congruence.
  - (* EmitKind *) intros H.
    assert (G : forall m0 : M, rc m0 = false -> rc (fst (emit_current_tagF m0)) = true -> False).
    { intros m0 A B. apply emit_current_tag_rc in B. congruence. }
    exfalso. destruct k; cbn [do_term fst] in H; (eapply G; [|exact H]);
      destruct m as [cf q o k0]; unfold rc in *; cbn in *; exact Hr.
  - (* EmitPi *) destruct m as [cf q o k]; unfold rc in *; cbn in *. intros H; congruence.
  - (* Eof *) destruct m as [cf q o k]; unfold rc in *; cbn in *. intros H; congruence.
Qed.

(* an arm body run from a machine whose flag is clear ends in a J-machine *)
Lemma exec_J b : rt_ok b = true -> forall c run (m : M), rc m = false -> J (fst (execF b c run m)).
Proof.
  induction b as [rk k IH|set sm krun IHr kchar IHc|p e y IHy n IHn|k y IHy n IHn|k r IH|t];
    intros Hb c run m Hr; cbn [exec]; cbn [rt_ok] in Hb.
  - destruct rk.
    + destruct (get_charF m) as [[c'|] m'] eqn:E.
      * apply IH; [exact Hb|]. eapply get_char_some_clear; exact E.
      * cbn [fst]. intros H. pose proof (get_char_ni m) as G. rewrite E in G. cbn [snd] in G.
        rewrite (ni_false _ _ G Hr) in H. discriminate.
    + destruct (peekF m) as [c'|]; [apply IH; assumption|]. cbn [fst]. intros H. congruence.
  - apply andb_true_iff in Hb. destruct Hb as [Hb1 Hb2].
    pose proof (pop_ni set sm m) as G.
    destruct (popF set sm m) as [[|c'|r] m']; cbn [snd] in G; pose proof (ni_false _ _ G Hr) as Hr'.
    + cbn [fst]. intros H. congruence.
    + apply IHc; assumption.
    + apply IHr; assumption.
  - apply andb_true_iff in Hb. destruct Hb as [Hb1 Hb2].
    pose proof (eat_ni p e m) as G.
    destruct (eatF p e m) as [[[|]|] m']; cbn [snd] in G; pose proof (ni_false _ _ G Hr) as Hr'.
    + apply IHy; assumption.
    + apply IHn; assumption.
    + cbn [fst]. intros H. congruence.
  - apply andb_true_iff in Hb. destruct Hb as [Hb1 Hb2].
    destruct (ceval_cond _ _ _ _); [apply IHy|apply IHn]; assumption.
  - apply IH; [exact Hb|]. exact (ni_false _ _ (do_cmd_ni k c run m) Hr).
  - apply do_term_J; assumption.
Qed.

(* every step body starts with a consuming read or with eat *)
(* ([BEnd Fall] is the default arm the translator gives to parameter values a state does not have, e.g.
   TagAttrValue(Rcdata): it stops the machine with a panic value and changes nothing) *)
Definition rfirst (b : body S) : bool :=
  match b with BRead RGet _ | BPop _ _ _ _ | BEat _ _ _ _ | BEnd Fall => true | _ => false end.

Hypothesis Hfirst : forall s, rfirst (t_step tb s) = true.
Hypothesis Htargets : forall s, rt_ok (t_step tb s) = true.

Lemma exec_step_J (m : M) : J m -> J (fst (execF (t_step tb (stt m)) 0 [] m)).
Proof.
  intros HJ. destruct (rc m) eqn:Hr.
  - (* flag set: the body is not an eat body, so it starts with get_char / pop_except_from, which clear the flag *)
    pose proof (HJ Hr) as He. pose proof (Hfirst (stt m)) as Hf. pose proof (Htargets (stt m)) as Ht.
    destruct (t_step tb (stt m)) as [rk k|set sm krun kchar|p e y nb|k y nb|k rr|t]; cbn [rfirst is_eat] in *;
      try discriminate.
    + destruct rk; [|discriminate]. cbn [exec]. cbn [rt_ok] in Ht.
      destruct (get_charF m) as [[c'|] m'] eqn:E.
      * apply exec_J; [exact Ht|]. eapply get_char_some_clear; exact E.
      * exfalso. unfold get_char in E. unfold rc in Hr. rewrite Hr in E. discriminate.
    + cbn [exec]. cbn [rt_ok] in Ht. apply andb_true_iff in Ht. destruct Ht as [Ht1 Ht2].
      unfold pop_except_from. unfold rc in Hr. rewrite Hr, orb_true_r. cbn [orb].
      destruct (get_charF m) as [[c'|] m'] eqn:E.
      * apply exec_J; [exact Ht2|]. eapply get_char_some_clear; exact E.
      * exfalso. unfold get_char in E. rewrite Hr in E. discriminate.
    + destruct t; try discriminate. cbn [exec do_term fst]. exact HJ.
  - apply exec_J; [apply Htargets|exact Hr].
Qed.

(* ---------------------------------------------------------------- the character-reference sub-tokenizer *)
Notation finish_numericF := (@finish_numeric S (list N) c1).
Notation unconsume_numericF := (@unconsume_numeric S (list N) (@app N)).
Notation finish_namedF := (@finish_named S (list N) (@app N) fl).
Notation discard_rawF := (@discard_raw S (list N) fq_next fl ex).
Notation cr_readF := (@cr_read S (list N) fq_next fq_peek fl ex).
Notation process_char_refF := (@process_char_ref S (list N) fl).

Lemma finish_numeric_ni cr (m : M) : ni m (snd (finish_numericF cr m)).
Proof.
  unfold finish_numeric.
  repeat match goal with |- context [if ?b then _ else _] => destruct b end; cbn [snd]; try apply err_ni; apply ni_refl.
Qed.
Lemma unconsume_numeric_ni cr (m : M) : ni m (snd (unconsume_numericF cr m)).
Proof. unfold unconsume_numeric. cbn [snd]. eapply ni_trans; [apply unconsume_ni|apply err_ni]. Qed.
Lemma finish_named_ni cr e (m : M) : ni m (snd (finish_namedF cr e m)).
Proof.
  unfold finish_named. destruct (cr_match cr) as [[a b]|].
  - repeat match goal with
           | |- context [match ?x with Some _ => _ | None => _ end] => destruct x
           | |- context [if ?b then _ else _] => destruct b
           end; cbn [snd];
      repeat first [apply ni_refl | apply unconsume_ni
                   | (eapply ni_trans; [|apply upd_ni; keeps]) | (eapply ni_trans; [|apply err_ni])].
  - destruct e as [c|].
    + destruct (is_alnum c); cbn [snd]; [apply ni_refl|].
      destruct ((c =? 59) && _); [eapply ni_trans; [apply unconsume_ni|apply err_ni]|apply unconsume_ni].
    + cbn [snd]. apply unconsume_ni.
Qed.
Lemma discard_raw_ni (m : M) : ni m (discard_rawF m).
Proof.
  unfold discard_raw. destruct (f_html fl); [apply discard_char_ni|].
  destruct (reconsume (mc m)); [apply upd_clear_ni|].
  destruct (fq_next (mq m)) as [[c q']|]; [|apply ni_refl].
  eapply ni_trans; [apply setq_ni|apply took_ni].
Qed.
Lemma cr_read_ni (m : M) : ni m (snd (cr_readF m)).
Proof. unfold cr_read. destruct (peekF m); cbn [snd]; [apply discard_raw_ni|apply ni_refl]. Qed.

Lemma cr_step_ni cr (m : M) : ni m (snd (cr_stepF cr m)).
Proof.
  unfold cr_step. destruct (cr_st cr).
  - destruct (peekF m) as [c|]; [|apply ni_refl].
    repeat match goal with |- context [if ?b then _ else _] => destruct b end; cbn [snd];
      first [apply ni_refl|apply discard_char_ni].
  - destruct (peekF m) as [c|]; [|apply ni_refl].
    destruct ((c =? 120) || (c =? 88)); cbn [snd]; [apply discard_char_ni|apply ni_refl].
  - destruct (peekF m) as [c|]; [|apply ni_refl].
    destruct (to_digit _ c); cbn [snd]; [apply discard_char_ni|].
    destruct (negb (cr_seen cr)); [apply unconsume_numeric_ni|apply ni_refl].
  - destruct (peekF m) as [c|]; [|apply ni_refl].
    match goal with |- context [finish_numericF ?a ?b] =>
      pose proof (finish_numeric_ni a b) as H; destruct (finish_numericF a b) as [chars m2] end.
    cbn [snd] in *. eapply ni_trans; [|exact H].
    destruct (c =? 59); [apply discard_char_ni|apply err_ni].
  - pose proof (cr_read_ni m) as H. destruct (cr_readF m) as [[c|] m1]; cbn [snd] in *; [|exact H].
    destruct (ent _) as [[a b]|].
    + cbn [snd]. exact H.
    + eapply ni_trans; [exact H|apply finish_named_ni].
  - pose proof (cr_read_ni m) as H. destruct (cr_readF m) as [[c|] m1]; cbn [snd] in *; [|exact H].
    destruct (is_alnum c); cbn [snd]; [exact H|].
    eapply ni_trans; [exact H|]. destruct (c =? 59); [eapply ni_trans; [apply unconsume_ni|apply err_ni]|apply unconsume_ni].
Qed.

Lemma process_char_ref_ni chars (m : M) : ni m (fst (process_char_refF chars m)).
Proof.
  unfold process_char_ref.
  set (cs := match chars with [] => [38] | _ => chars end). clearbody cs.
  assert (G : forall l (m0 : M) b, ni m m0 ->
    ni m (fst (fold_left (fun '(m1, bad) c =>
               match f_charref_emit fl (st (mc m1)) with
               | Some false => (emit_charF c m1, bad)
               | Some true => (upd (fun x => x <| attr_value ::= (fun s => s ++ [c]) |>) m1, bad)
               | None => (m1, true)
               end) l (m0, b)))).
  { induction l as [|c l IH]; intros m0 b H; cbn [fold_left fst]; [exact H|].
    destruct (f_charref_emit fl (st (mc m0))) as [[|]|]; apply IH.
    - eapply ni_trans; [exact H|apply upd_ni; keeps].
    - eapply ni_trans; [exact H|apply emit_char_ni].
    - exact H. }
  apply G. apply ni_refl.
Qed.

(* ---------------------------------------------------------------- the invariant is kept by every step *)
Lemma ni_J (m m' : M) : ni m m' -> J m -> J m'.
Proof. intros [A B] HJ H. rewrite A. apply HJ. apply B. exact H. Qed.

Theorem step_J (m m' : M) r : J m -> stepF m = (m', r) -> J m'.
Proof.
  intros HJ H. unfold step in H.
  destruct (cref (mc m)) as [cr|] eqn:Ec.
  - pose proof (cr_step_ni cr m) as G.
    destruct (cr_stepF cr m) as [[|cr'|chars] m1]; cbn [snd] in G.
    + inversion H; subst. eapply ni_J; eassumption.
    + inversion H; subst. eapply ni_J; [|exact HJ]. eapply ni_trans; [exact G|apply upd_ni; keeps].
    + pose proof (process_char_ref_ni chars m1) as G2.
      destruct (process_char_refF chars m1) as [m2 bad]. cbn [fst] in G2. inversion H; subst.
      eapply ni_J; [|exact HJ]. eapply ni_trans; [exact G|]. eapply ni_trans; [exact G2|apply upd_ni; keeps].
  - pose proof (exec_step_J m HJ) as G. unfold stt in G. rewrite H in G. exact G.
Qed.

Lemma J_ext x (m : M) : J m <-> J (ext x m).
Proof. unfold J, rc, stt. rewrite ext_mc. tauto. Qed.
Lemma J_inj inj (m : M) : J m -> J (m <| mq ::= app inj |>).
Proof. destruct m; exact (fun H => H). Qed.

(* ---------------------------------------------------------------- the discard_bom flag is never touched by a step *)
Lemma emit_current_tag_db (m : M) : dbom (fst (emit_current_tagF m)) = dbom m.
Proof.
  unfold emit_current_tag. pose proof (ni_dbom _ _ (finish_attribute_ni m)) as H0.
  set (m1 := finish_attributeF m) in *. rewrite <- H0. clear H0.
  destruct (f_html fl).
  - destruct (tag_kind (mc m1)) eqn:Ek;
      destruct (lookup_resp (tag_name (mc m1)) (sk_resp sk)) as [[]|];
      destruct (tag_attrs (mc m1)); destruct (tag_self (mc m1)); destruct m1 as [cf q o k0]; destruct cf; reflexivity.
  - destruct (tag_kind (mc m1)) eqn:Ek;
      destruct (lookup_resp (tag_name (mc m1)) (sk_resp sk)) as [[]|];
      destruct (tag_attrs (mc m1)); destruct m1 as [cf q o k0]; destruct cf; reflexivity.
Qed.
Lemma do_term_db t (m : M) : dbom (fst (do_termF t m)) = dbom m.
Proof.
  destruct t; cbn [do_term fst]; try (destruct m as [cf q o k]; destruct cf; reflexivity).
  - rewrite emit_current_tag_db. destruct m as [cf q o k]; destruct cf; reflexivity.
  - destruct k; cbn [do_term fst]; rewrite emit_current_tag_db; destruct m as [cf q o k0]; destruct cf; reflexivity.
Qed.
Lemma exec_db b : forall c run (m : M), dbom (fst (execF b c run m)) = dbom m.
Proof.
  induction b as [rk k IH|set sm krun IHr kchar IHc|p e y IHy n IHn|k y IHy n IHn|k r IH|t]; intros c run m; cbn [exec].
  - destruct rk.
    + pose proof (ni_dbom _ _ (get_char_ni m)) as G. destruct (get_charF m) as [[c'|] m']; cbn [snd fst] in *;
        [rewrite IH|]; exact G.
    + destruct (peekF m); [apply IH|reflexivity].
  - pose proof (ni_dbom _ _ (pop_ni set sm m)) as G.
    destruct (popF set sm m) as [[|c'|r] m']; cbn [snd fst] in *; [exact G|rewrite IHc; exact G|rewrite IHr; exact G].
  - pose proof (ni_dbom _ _ (eat_ni p e m)) as G.
    destruct (eatF p e m) as [[[|]|] m']; cbn [snd fst] in *; [rewrite IHy; exact G|rewrite IHn; exact G|exact G].
  - destruct (ceval_cond _ _ _ _); [apply IHy|apply IHn].
  - rewrite IH. apply (ni_dbom _ _ (do_cmd_ni k c run m)).
  - apply do_term_db.
Qed.
Lemma step_db (m : M) : dbom (fst (stepF m)) = dbom m.
Proof.
  unfold step. destruct (cref (mc m)) as [cr|]; [|apply exec_db].
  pose proof (ni_dbom _ _ (cr_step_ni cr m)) as G.
  destruct (cr_stepF cr m) as [[|cr'|chars] m1]; cbn [snd fst] in *.
  - exact G.
  - rewrite <- G. destruct m1 as [cf q o k]; destruct cf; reflexivity.
  - pose proof (ni_dbom _ _ (process_char_ref_ni chars m1)) as G2.
    destruct (process_char_refF chars m1) as [m2 bad]. cbn [fst] in *. rewrite <- G, <- G2.
    destruct m2 as [cf q o k]; destruct cf; reflexivity.
Qed.
Lemma run_db fuel : forall (m : M), dbom (fst (runF fuel m)) = dbom m.
Proof.
  induction fuel as [|f IH]; intros m; cbn [run]; [reflexivity|].
  pose proof (step_db m) as G. destruct (stepF m) as [m1 r]; cbn [fst] in *.
  destruct r; try exact G. rewrite IH. exact G.
Qed.

(* on J-machines the relational run of Chunk.v is the executable loop, and the result is a J-machine again *)
Theorem run_is_oruns_J : forall fuel (m m' : M) r, J m ->
  runF fuel m = (m', r) -> (orunsF m m' r /\ J m') \/ r = SPanic 98.
Proof.
  induction fuel as [|f IH]; intros m m' r HJ H; cbn [run] in H.
  - injection H as _ <-. right. reflexivity.
  - destruct (stepF m) as [m1 r1] eqn:E.
    pose proof (step_J m m1 r1 HJ E) as HJ1.
    destruct r1; try (injection H as <- <-; left; split; [apply runs_stop; [apply J_step_ok; exact HJ|exact E|discriminate]|exact HJ1]).
    destruct (IH m1 m' r HJ1 H) as [[Hr HJ']|Hr]; [left|right; exact Hr].
    split; [|exact HJ']. eapply runs_step; [apply J_step_ok; exact HJ|exact E|exact Hr].
Qed.

Lemma oruns_J (m m' : M) r : orunsF m m' r -> J m -> J m'.
Proof.
  induction 1 as [m m' r Hok H Hr|m ma m' r Hok H Hrun IH]; intros HJ.
  - eapply step_J; eassumption.
  - apply IH. eapply step_J; eassumption.
Qed.
Lemma feeds_J inj (m m' : M) : @feeds S fl ex tb simd ent c1 sk inj m m' -> J m -> J m'.
Proof.
  induction 1 as [m Hq|m m' Hq Hr|m ma m' Hq Hr Hf IH|m ma m' Hq Hr Hf IH]; intros HJ.
  - exact HJ.
  - eapply oruns_J; eassumption.
  - apply IH. apply J_inj. eapply oruns_J; eassumption.
  - apply IH. eapply oruns_J; eassumption.
Qed.
Lemma feed_chunks_J inj cs : forall (m m' : M), @feed_chunks S fl ex tb simd ent c1 sk inj m cs m' -> J m -> J m'.
Proof.
  induction cs as [|c cs IH]; intros m m' H HJ; inversion H; subst; [exact HJ|].
  eapply IH; [eassumption|]. eapply feeds_J; [eassumption|]. apply J_ext. exact HJ.
Qed.
End Inv.
