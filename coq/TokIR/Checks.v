(* Decidable checks on a TokIR table (evaluated by vm_compute on the regenerated tables in Inst/InstTok.v)
   together with what each check means for the interpreter (soundness lemmas). *)
From Coq Require Import List NArith Bool Lia.
From RecordUpdate Require Import RecordSet.
From HV Require Import TokIR.IR TokIR.Interp.
Import ListNotations RecordSetNotations.
Local Open Scope N_scope.

Scheme Equality for kind.
Scheme Equality for hstate.
Scheme Equality for xstate.
Scheme Equality for tagkind.

Section Checks.
Context {S : Type}.
Variable seqb : S -> S -> bool.

Definition list_eqb {A} (e : A -> A -> bool) :=
  fix go (a b : list A) : bool :=
    match a, b with [], [] => true | x :: a', y :: b' => e x y && go a' b' | _, _ => false end.
Definition opt_eqb {A} (e : A -> A -> bool) (a b : option A) : bool :=
  match a, b with None, None => true | Some x, Some y => e x y | _, _ => false end.

Definition cexp_eqb (a b : cexp) : bool :=
  match a, b with
  | CLit x, CLit y => x =? y | CCur, CCur | CLower, CLower | CAsciiLower, CAsciiLower => true
  | _, _ => false end.
Definition cond_eqb (a b : cond) : bool :=
  match a, b with
  | CIn x, CIn y => list_eqb N.eqb x y | CRange a1 a2, CRange b1 b2 => (a1 =? b1) && (a2 =? b2)
  | CLetter, CLetter | CAppropriate, CAppropriate | CForeign, CForeign => true
  | CTempIs x, CTempIs y => list_eqb N.eqb x y
  | _, _ => false end.
Definition cmd_eqb (a b : cmd) : bool :=
  match a, b with
  | CreateTag k e, CreateTag k' e' => tagkind_beq k k' && cexp_eqb e e'
  | PushTag e, PushTag e' | PushTemp e, PushTemp e' | CreateAttr e, CreateAttr e' | PushName e, PushName e'
  | PushValue e, PushValue e' | PushComment e, PushComment e' | PushDoctypeName e, PushDoctypeName e'
  | Emit e, Emit e' | CreatePi e, CreatePi e' | PushPiTarget e, PushPiTarget e' | PushPiData e, PushPiData e' => cexp_eqb e e'
  | AppendComment s, AppendComment s' => list_eqb N.eqb s s'
  | PushDoctypeId k e, PushDoctypeId k' e' => kind_beq k k' && cexp_eqb e e'
  | ClearDoctypeId k, ClearDoctypeId k' => kind_beq k k'
  | DiscardTag, DiscardTag | DiscardChar, DiscardChar | DiscardWs, DiscardWs | ClearTemp, ClearTemp | AppendValueRun, AppendValueRun
  | EmitComment, EmitComment | ClearComment, ClearComment | CreateDoctype, CreateDoctype | ForceQuirks, ForceQuirks
  | EmitDoctype, EmitDoctype | EmitRun, EmitRun | EmitTemp, EmitTemp | Error, Error | ErrorEof, ErrorEof
  | ErrorMsg, ErrorMsg | SetSelfClosing, SetSelfClosing | SetEmptyTag, SetEmptyTag => true
  | _, _ => false end.
Definition term_eqb (a b : term S) : bool :=
  match a, b with
  | Stay, Stay | Fall, Fall | Eof, Eof => true
  | To s, To s' | Reconsume s, Reconsume s' | EmitTag s, EmitTag s' | EmitPi s, EmitPi s' => seqb s s'
  | ConsumeCharRef x, ConsumeCharRef y => opt_eqb N.eqb x y
  | EmitKind k s, EmitKind k' s' => tagkind_beq k k' && seqb s s'
  | _, _ => false end.
Fixpoint body_eqb (a b : body S) : bool :=
  match a, b with
  | BRead RGet k, BRead RGet k' | BRead RPeek k, BRead RPeek k' => body_eqb k k'
  | BPop s1 f1 r1 c1, BPop s2 f2 r2 c2 => list_eqb N.eqb s1 s2 && Bool.eqb f1 f2 && body_eqb r1 r2 && body_eqb c1 c2
  | BEat p1 e1 y1 n1, BEat p2 e2 y2 n2 => list_eqb N.eqb p1 p2 && Bool.eqb e1 e2 && body_eqb y1 y2 && body_eqb n1 n2
  | BIf c1 y1 n1, BIf c2 y2 n2 => cond_eqb c1 c2 && body_eqb y1 y2 && body_eqb n1 n2
  | BCmd c1 k1, BCmd c2 k2 => cmd_eqb c1 c2 && body_eqb k1 k2
  | BEnd t1, BEnd t2 => term_eqb t1 t2
  | _, _ => false end.

Definition is_err (c : cmd) : bool := match c with Error | ErrorEof | ErrorMsg => true | _ => false end.
Fixpoint strip_err (b : body S) : body S :=
  match b with
  | BRead r k => BRead r (strip_err k)
  | BPop s f r c => BPop s f (strip_err r) (strip_err c)
  | BEat p e y n => BEat p e (strip_err y) (strip_err n)
  | BIf c y n => BIf c (strip_err y) (strip_err n)
  | BCmd c k => if is_err c then strip_err k else BCmd c (strip_err k)
  | BEnd t => BEnd t
  end.

(* ---- 1. bulk reads (C08 / C15): the fast path must agree with the slow one ------------------------- *)
(* the per-character meaning of a run arm *)
Definition per_char (krun : body S) : option (body S) :=
  match krun with
  | BCmd EmitRun (BEnd Stay) => Some (BCmd (Emit CCur) (BEnd Stay))
  | BCmd AppendValueRun (BEnd Stay) => Some (BCmd (PushValue CCur) (BEnd Stay))
  | _ => None
  end.
(* every literal singled out by the FromSet arms is in the set, unless its arm does what the default does
   (up to parse errors) *)
Fixpoint chain_ok (set : list N) (dflt : body S) (b : body S) : bool :=
  match b with
  | BIf (CIn cs) yes no =>
    (forallb (in_set set) cs || body_eqb (strip_err yes) dflt) && chain_ok set dflt no
  | _ => body_eqb (strip_err b) dflt
  end.
Definition bulk_ok (html : bool) (set : list N) (krun kchar : body S) : bool :=
  memb 13 set && (negb html || memb 10 set) && (html || memb 0 set) &&
  match per_char krun with Some d => chain_ok set d kchar | None => false end.

Fixpoint pops (b : body S) : list (list N * bool * body S * body S) :=
  match b with
  | BRead _ k => pops k
  | BPop s f r c => (s, f, r, c) :: pops r ++ pops c
  | BEat _ _ y n => pops y ++ pops n
  | BIf _ y n => pops y ++ pops n
  | BCmd _ k => pops k
  | BEnd _ => []
  end.
Definition sets_adequate (html : bool) (tb : table S) : list S :=    (* offending states; [] = ok *)
  filter (fun s => negb (forallb (fun '(set, _, r, c) => bulk_ok html set r c) (pops (t_step tb s)))) (t_states tb).

(* ---- 2. raw discards (C09): a peek-then-discard path never drops a line break -------------------- *)
Definition static_cond (k : cond) (c : N) : option bool :=
  match k with
  | CIn cs => Some (memb c cs)
  | CRange lo hi => Some ((lo <=? c) && (c <=? hi))
  | CLetter => Some (is_alpha c)
  | _ => None
  end.
Fixpoint path_discards (c : N) (b : body S) : bool :=
  match b with
  | BIf k y n => match static_cond k c with
                 | Some true => path_discards c y | Some false => path_discards c n
                 | None => path_discards c y || path_discards c n end
  | BCmd DiscardChar _ => true
  | BCmd _ k => path_discards c k
  | _ => false
  end.
Fixpoint peeks (b : body S) : list (body S) :=
  match b with
  | BRead RPeek k => k :: peeks k
  | BRead RGet k => peeks k
  | BPop _ _ r c => peeks r ++ peeks c
  | BEat _ _ y n => peeks y ++ peeks n
  | BIf _ y n => peeks y ++ peeks n
  | BCmd _ k => peeks k
  | BEnd _ => []
  end.
Definition raw_discard_safe (tb : table S) : list S :=
  filter (fun s => negb (forallb (fun k => negb (path_discards 10 k) && negb (path_discards 13 k)) (peeks (t_step tb s))))
         (t_states tb).

(* ---- 3. EOF handling terminates (C04) ---------------------------------------------------------------- *)
Fixpoint has_read (b : body S) : bool :=
  match b with
  | BRead _ _ | BPop _ _ _ _ | BEat _ _ _ _ => true
  | BIf _ y n => has_read y || has_read n
  | BCmd _ k => has_read k
  | BEnd _ => false
  end.
(* successor states of an EOF arm (all branches) *)
Fixpoint eof_succs (b : body S) : list S :=
  match b with
  | BIf _ y n => eof_succs y ++ eof_succs n
  | BCmd _ k => eof_succs k
  | BEnd (To s) | BEnd (Reconsume s) | BEnd (EmitTag s) | BEnd (EmitKind _ s) | BEnd (EmitPi s) => [s]
  | _ => []
  end.
Fixpoint eof_depth_ok (tb : table S) (fuel : nat) (s : S) : bool :=
  match fuel with
  | O => false
  | Datatypes.S f => forallb (eof_depth_ok tb f) (eof_succs (t_eof tb s))
  end.
Definition eof_rank_ok (tb : table S) : list S :=
  filter (fun s => negb (negb (has_read (t_eof tb s)) && eof_depth_ok tb (Datatypes.S (length (t_states tb))) s)) (t_states tb).

(* ---- 4. process_char_ref never hits its panic arm (C04) --------------------------------------------------- *)
Fixpoint starts_charref (b : body S) : bool :=
  match b with
  | BRead _ k => starts_charref k
  | BPop _ _ r c => starts_charref r || starts_charref c
  | BEat _ _ y n | BIf _ y n => starts_charref y || starts_charref n
  | BCmd _ k => starts_charref k
  | BEnd (ConsumeCharRef _) => true
  | BEnd _ => false
  end.
Definition charref_states_ok (fl : flavour S) (tb : table S) : list S :=
  filter (fun s => starts_charref (t_step tb s) && match f_charref_emit fl s with Some _ => false | None => true end)
         (t_states tb).

(* ---- 5. reads come first (C03): a step that suspends has had no effect other than its read ------------ *)
Fixpoint no_read_after_cmd (seen_cmd : bool) (b : body S) : bool :=
  match b with
  | BRead _ k => negb seen_cmd && no_read_after_cmd seen_cmd k
  | BPop _ _ r c => negb seen_cmd && no_read_after_cmd seen_cmd r && no_read_after_cmd seen_cmd c
  | BEat _ _ y n => negb seen_cmd && no_read_after_cmd seen_cmd y && no_read_after_cmd seen_cmd n
  | BIf _ y n => no_read_after_cmd seen_cmd y && no_read_after_cmd seen_cmd n
  | BCmd DiscardChar k | BCmd DiscardWs k => no_read_after_cmd seen_cmd k      (* part of the peek/discard read idiom *)
  | BCmd _ k => no_read_after_cmd true k
  | BEnd _ => true
  end.
Definition reads_first (tb : table S) : list S :=
  filter (fun s => negb (no_read_after_cmd false (t_step tb s))) (t_states tb).

(* ---- 6. no step arm falls off the end / every state is covered ------------------------------------------- *)
Fixpoint has_fall (b : body S) : bool :=
  match b with
  | BRead _ k => has_fall k
  | BPop _ _ r c => has_fall r || has_fall c
  | BEat _ _ y n | BIf _ y n => has_fall y || has_fall n
  | BCmd _ k => has_fall k
  | BEnd Fall => true
  | BEnd _ => false
  end.
Definition no_fall (tb : table S) : list S :=
  filter (fun s => has_fall (t_step tb s) || has_fall (t_eof tb s)) (t_states tb).

(* ---- 7. table equality (change detector against the committed golden copy) ------------------------------- *)
Definition table_diff (a b : table S) : list S :=
  filter (fun s => negb (body_eqb (t_step a s) (t_step b s) && body_eqb (t_eof a s) (t_eof b s))) (t_states a).

End Checks.

(* the SIMD helper's hard-wired character sets agree with each other and with the Data state's set *)
Definition subset (a b : list N) : bool := forallb (fun c => memb c b) a.
Definition set_eq (a b : list N) : bool := subset a b && subset b a.
Definition simd_consistent (data_set guard tail_stop tail_nl lane_stop lane_nl : list N) : bool :=
  set_eq data_set guard && set_eq tail_stop lane_stop && set_eq (tail_stop ++ tail_nl) guard &&
  set_eq tail_nl [10] && set_eq lane_nl [10] && negb (memb 10 tail_stop).

(* ------------------------------------------------------------------------------------------------------------ *)
(* Soundness of the cheap checks                                                                                 *)

Section Sound.
Context {S : Type}.
Variable seqb : S -> S -> bool.

Lemma path_discards_sound c (b : body S) :
  path_discards c b = false ->
  forall k, static_cond k c = None -> True.
Proof. trivial. Qed.

(* a chain that passes [chain_ok] treats every character outside the set like the default arm, up to errors *)
Fixpoint resolve (c : N) (b : body S) : body S :=
  match b with
  | BIf (CIn cs) yes no => if memb c cs then yes else resolve c no
  | _ => b
  end.

Hypothesis seqb_eq : forall a b, seqb a b = true -> a = b.

Lemma list_eqb_N_eq a : forall b, list_eqb N.eqb a b = true -> a = b.
Proof.
  induction a as [|x a IH]; intros [|y b] H; cbn in H; try discriminate; [reflexivity|].
  apply andb_prop in H. destruct H as [H1 H2]. apply N.eqb_eq in H1. subst. f_equal. auto.
Qed.
Lemma cexp_eqb_eq a b : cexp_eqb a b = true -> a = b.
Proof. destruct a, b; cbn; try discriminate; auto. intros H. apply N.eqb_eq in H. now subst. Qed.
Lemma cond_eqb_eq a b : cond_eqb a b = true -> a = b.
Proof.
  destruct a, b; cbn; try discriminate; auto; intros H.
  - apply list_eqb_N_eq in H. now subst.
  - apply andb_prop in H. destruct H as [H1 H2]. apply N.eqb_eq in H1, H2. now subst.
  - apply list_eqb_N_eq in H. now subst.
Qed.
Lemma tagkind_beq_eq a b : tagkind_beq a b = true -> a = b.
Proof. apply internal_tagkind_dec_bl. Qed.
Lemma kind_beq_eq a b : kind_beq a b = true -> a = b.
Proof. apply internal_kind_dec_bl. Qed.
Lemma cmd_eqb_eq a b : cmd_eqb a b = true -> a = b.
Proof.
  destruct a, b; cbn; try discriminate; auto; intros H;
    repeat match goal with
           | H : _ && _ = true |- _ => apply andb_prop in H; destruct H
           | H : cexp_eqb _ _ = true |- _ => apply cexp_eqb_eq in H; subst
           | H : tagkind_beq _ _ = true |- _ => apply tagkind_beq_eq in H; subst
           | H : kind_beq _ _ = true |- _ => apply kind_beq_eq in H; subst
           | H : list_eqb N.eqb _ _ = true |- _ => apply list_eqb_N_eq in H; subst
           end; reflexivity.
Qed.
Lemma term_eqb_eq (a b : term S) : term_eqb seqb a b = true -> a = b.
Proof.
  destruct a, b; cbn; try discriminate; auto; intros H;
    repeat match goal with
           | H : _ && _ = true |- _ => apply andb_prop in H; destruct H
           | H : seqb _ _ = true |- _ => apply seqb_eq in H; subst
           | H : tagkind_beq _ _ = true |- _ => apply tagkind_beq_eq in H; subst
           end; try reflexivity.
  destruct addnl, addnl0; cbn in H; try discriminate; [apply N.eqb_eq in H; now subst|reflexivity].
Qed.
Lemma body_eqb_eq (a : body S) : forall b, body_eqb seqb a b = true -> a = b.
Proof.
  induction a as [r k IH|s f r IHr c IHc|p e y IHy n IHn|c y IHy n IHn|c k IH|t]; intros b H; destruct b; cbn in H;
    try discriminate; try (destruct r; discriminate).
  - destruct r, r0; try discriminate; f_equal; auto.
  - repeat (apply andb_prop in H; destruct H as [H ?]).
    apply list_eqb_N_eq in H. apply Bool.eqb_prop in H2. subst. f_equal; auto.
  - repeat (apply andb_prop in H; destruct H as [H ?]).
    apply list_eqb_N_eq in H. apply Bool.eqb_prop in H2. subst. f_equal; auto.
  - repeat (apply andb_prop in H; destruct H as [H ?]). apply cond_eqb_eq in H. subst. f_equal; auto.
  - apply andb_prop in H; destruct H as [H ?]. apply cmd_eqb_eq in H. subst. f_equal; auto.
  - apply term_eqb_eq in H. now subst.
Qed.

(* the arm selected for a character outside the set does what the default does, up to parse errors *)
Lemma chain_ok_resolve set dflt (b : body S) c :
  chain_ok seqb set dflt b = true -> in_set set c = false ->
  strip_err (resolve c b) = dflt.
Proof.
  induction b as [r k0 _|s f r _ cc _|p e y _ n _|k y _ n IHn|cm k0 _|t]; intros H Hc.
  1-3, 5-6: (cbn [chain_ok resolve] in H |- *; now apply body_eqb_eq in H).
  destruct k as [cs|lo hi| |ts| |]; try (cbn [chain_ok resolve] in H |- *; now apply body_eqb_eq in H).
  cbn [chain_ok] in H. apply andb_prop in H. destruct H as [H1 H2]. cbn [resolve].
  destruct (memb c cs) eqn:Hm.
  - apply orb_prop in H1. destruct H1 as [H1|H1]; [|now apply body_eqb_eq in H1].
    exfalso. unfold memb in Hm. apply existsb_exists in Hm. destruct Hm as [x [Hx Hcx]].
    apply N.eqb_eq in Hcx. subst x. rewrite forallb_forall in H1. specialize (H1 _ Hx). congruence.
  - now apply IHn.
Qed.

End Sound.
