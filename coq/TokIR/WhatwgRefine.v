(* C01: the TokIR interpreter on an html table REFINES the formal WHATWG tokenizer (TokIR/WhatwgSpec.v) - generic part.
   Reference semantics of the interpreter (flat queue, exact_errors = true), html flavour, a sink that answers start tags
   with state switches only.

   - the LOGICAL INPUT of a machine: what the specification's preprocessed input stream looks like from where the machine
     stands: the reconsumed character, then the unread queue with CR LF / CR turned into LF (the interpreter does this inside
     get_char, with its ignore_lf flag; the standard does it in a pass before tokenization);
   - get_char on the logical input (getc_nil / getc_cons): the CR / LF case analysis, once;
   - the observation both sides are compared on: the sequence of tokens with parse errors dropped and character tokens cut
     into single characters (U+0000 in the Data / CDATA states being html5ever's NullCharacterToken): this is "adjacent
     character tokens concatenated" without caring where the cuts are;
   - the simulation relation [Rel], by state (state correspondence + the variables that are live in that state);
   - the run theorem: IF every state the run visits satisfies the step obligations ([Hstep]: one interpreter step = finitely
     many specification steps; [Heof]: end() = the specification's end-of-file clauses), the whole-input run of the
     interpreter followed by end() delivers the specification's tokens.  The obligations are discharged state by state on the
     regenerated table in Inst/InstWhatwgRefine.v. *)
From Coq Require Import List NArith Bool Lia Arith.
From RecordUpdate Require Import RecordSet.
From HV Require Import TokIR.IR TokIR.Interp TokIR.WhatwgSpec HtmlSer.SerLex.
Import ListNotations RecordSetNotations.
Local Open Scope N_scope.

(* ------------------------------------------------------------------ observation *)
Definition tok_of_w (t : wtoken) : token :=
  match t with
  | WTDoctype n p s fq => TDoctype n p s fq
  | WTStart n sc a d => TTag TStartTag n sc a d
  | WTEnd n sc a d => TTag TEndTag n sc a d
  | WTComment d => TComment d
  | WTChar c => if c =? 0 then TNull else TChars [c]
  | WTEof => TEof
  end.
(* one character as a token: U+0000 is html5ever's NullCharacterToken *)
Definition char_tok (c : N) : token := tok_of_w (WTChar c).
Definition atoms_of (t : token) : list token :=
  match t with
  | TError => []
  | TChars s => map char_tok s
  | t => [t]
  end.
(* interpreter: newest-first list with annotations *)
Fixpoint flat_i (o : list (token * N * N)) : list token :=
  match o with
  | [] => []
  | e :: o' => match fst (fst e) with TError => flat_i o' | t => flat_i o' ++ atoms_of t end
  end.
(* specification: newest-first list *)
Fixpoint flat_s (o : list wtoken) : list token :=
  match o with [] => [] | w :: o' => flat_s o' ++ [tok_of_w w] end.
Lemma flat_s_app a b : flat_s (a ++ b) = flat_s b ++ flat_s a.
Proof. induction a as [|x a IH]; cbn [app flat_s]; [rewrite app_nil_r; reflexivity|]. rewrite IH, app_assoc. reflexivity. Qed.
Lemma flat_s_rev_chars s : flat_s (rev (map WTChar s)) = map char_tok s.
Proof.
  induction s as [|c s IH]; [reflexivity|]. cbn [map rev]. rewrite flat_s_app, IH. reflexivity.
Qed.
(* emitting the characters of a string one by one *)
Lemma emitcs_closed s : forall cf, emitcs s cf = RecordSet.set wout (fun o => rev (map WTChar s) ++ o) cf.
Proof.
  unfold emitcs. induction s as [|c s IH]; intros cf; cbn [fold_left map rev app].
  - destruct cf; reflexivity.
  - rewrite IH. destruct cf. unfold emitc, emit. lazy -[app rev map]. f_equal. rewrite <- app_assoc. reflexivity.
Qed.

(* ------------------------------------------------------------------ machines in constructor form *)
(* the configuration fields get_char does not touch *)
Record gfr := mkgfr {
  g_bom : bool; g_tmp : str; g_tk : tagkind; g_tn : str; g_tself : bool; g_tdup : bool; g_ta : list (str * str);
  g_an : str; g_av : str; g_cm : str; g_dn : option str; g_dp : option str; g_ds : option str; g_dq : bool;
  g_pt : str; g_pd : str; g_ls : option str }.
Definition mkM (s : hstate) (rc : bool) (cu : N) (il : bool) (G : gfr) (ln : N) (q : list N) (o : list (token * N * N)) (k : N)
  : mach hstate (list N) :=
  mkmach (mkcfg s rc cu il (g_bom G) (g_tmp G) (g_tk G) (g_tn G) (g_tself G) (g_tdup G) (g_ta G) (g_an G) (g_av G) (g_cm G)
                (g_dn G) (g_dp G) (g_ds G) (g_dq G) (g_pt G) (g_pd G) (g_ls G) None ln) q o k.
Definition gfr_of (c : cfg hstate) : gfr :=
  mkgfr (discard_bom c) (temp_buf c) (tag_kind c) (tag_name c) (tag_self c) (tag_dup c) (tag_attrs c) (attr_name c) (attr_value c)
        (comment c) (dt_name c) (dt_pub c) (dt_sys c) (dt_quirks c) (pi_target c) (pi_data c) (last_start c).
Lemma mkM_eta (m : mach hstate (list N)) : cref (mc m) = None ->
  m = mkM (st (mc m)) (reconsume (mc m)) (cur (mc m)) (ignore_lf (mc m)) (gfr_of (mc m)) (line (mc m)) (mq m) (mout m) (mcons m).
Proof. intros H. destruct m as [c q o k]. destruct c. cbn in H. subst. reflexivity. Qed.

Notation M := (mach hstate (list N)).
(* the logical input *)
Definition linput (m : M) : list N :=
  (if reconsume (mc m) then [cur (mc m)] else []) ++ preprocess_from (ignore_lf (mc m)) (mq m).

Notation get_charX := (@get_char hstate (list N) fq_next html_flavour true).

(* get_char in exact mode on a character that is not CR, with ignore_lf clear *)
Definition gpost (c : N) (m1 : M) : M :=
  upd (fun x => x <| cur := c |>)
      (if bad_char c then err (if c =? LF then upd (fun x => x <| line ::= N.add 1 |>) m1 else m1)
       else (if c =? LF then upd (fun x => x <| line ::= N.add 1 |>) m1 else m1)).
Lemma getc (m : M) c q : reconsume (mc m) = false -> ignore_lf (mc m) = false -> mq m = c :: q -> (c =? 13) = false ->
  get_charX m = (Some c, gpost c (took 1 (m <| mq := q |>))).
Proof.
  intros Hrc Hil Hq Hc. unfold get_char. rewrite Hrc, Hq. cbn [fq_next].
  unfold get_preprocessed_char, gpc_skip.
  replace (ignore_lf (mc (took 1 (m <| mq := q |>)))) with false by (destruct m; symmetry; exact Hil).
  unfold gpc_post, gpc_decide. change CR with 13. rewrite Hc. cbn [html_flavour f_html].
  cbv beta iota zeta delta [negb andb]. reflexivity.
Qed.

(* nothing left: get_char finds nothing (at most it drops the LF of a CR LF pair) *)
Lemma getc_nil s rc cu il G ln q o k : linput (mkM s rc cu il G ln q o k) = [] ->
  exists il' k', get_charX (mkM s rc cu il G ln q o k) = (None, mkM s false cu il' G ln [] o k').
Proof.
  unfold linput. cbn [mkM mc reconsume cur ignore_lf mq]. destruct rc; [discriminate|]. cbn [app].
  destruct q as [|x q]; [intros _; exists il, k; reflexivity|]. cbn [preprocess_from].
  destruct il; cbn [andb].
  - destruct (x =? 10) eqn:E10.
    + destruct q as [|y q]; [|cbn [preprocess_from andb]; destruct (y =? 13); discriminate].
      intros _. exists false, (1 + k). unfold get_char, mkM. cbn [mc reconsume mq fq_next].
      unfold get_preprocessed_char, gpc_skip. cbn. change LF with 10. rewrite E10. reflexivity.
    + destruct (x =? 13); discriminate.
  - destruct (x =? 13); discriminate.
Qed.

(* the result of reading character c (already normalised) *)
Lemma getc_cons s rc cu il G ln q o k c L : linput (mkM s rc cu il G ln q o k) = c :: L ->
  exists il' ln' q' o' k', get_charX (mkM s rc cu il G ln q o k) = (Some c, mkM s false c il' G ln' q' o' k') /\
                          preprocess_from il' q' = L /\ flat_i o' = flat_i o.
Proof.
  unfold linput. cbn [mkM mc reconsume cur ignore_lf mq]. destruct rc; cbn [app].
  - intros H. injection H as <- <-. exists il, ln, q, o, k. repeat split.
  - assert (Plain : forall x q0 k0, (x =? 13) = false -> preprocess_from false (x :: q0) = c :: L ->
              exists il' ln' o' k', get_charX (mkM s false cu false G ln (x :: q0) o k0) = (Some c, mkM s false c il' G ln' q0 o' k') /\
                                   preprocess_from il' q0 = L /\ flat_i o' = flat_i o).
    { intros x q0 k0 E13 H. cbn [preprocess_from andb] in H. rewrite E13 in H. injection H as <- <-.
      erewrite getc; [|reflexivity|reflexivity|reflexivity|exact E13]. unfold gpost.
      destruct (x =? LF); destruct (bad_char x); (do 4 eexists; split; [reflexivity|split; reflexivity]). }
    assert (Cr : forall q0 k0, preprocess_from false (13 :: q0) = c :: L ->
              exists il' ln' o' k', get_charX (mkM s false cu false G ln (13 :: q0) o k0) = (Some c, mkM s false c il' G ln' q0 o' k') /\
                                   preprocess_from il' q0 = L /\ flat_i o' = flat_i o).
    { intros q0 k0 H. cbn [preprocess_from andb] in H. change (13 =? 13) with true in H. cbn iota in H. injection H as <- <-.
      do 4 eexists. split; [vm_compute; reflexivity|split; reflexivity]. }
    destruct q as [|x q]; [discriminate|]. destruct il.
    + cbn [preprocess_from andb]. destruct (x =? 10) eqn:E10.
      * (* the LF of a CR LF pair is skipped *)
        apply N.eqb_eq in E10. subst x. intros H.
        destruct q as [|y q]; [discriminate H|].
        assert (Skip : forall m2, get_charX (mkM s false cu false G ln (y :: q) o (1 + k)) = m2 ->
                                  get_charX (mkM s false cu true G ln (10 :: y :: q) o k) = m2).
        { intros m2 <-. unfold get_char, mkM. cbn [mc reconsume mq fq_next]. unfold get_preprocessed_char, gpc_skip.
          cbn [mc ignore_lf took upd]. reflexivity. }
        destruct (y =? 13) eqn:E13.
        -- apply N.eqb_eq in E13. subst y. destruct (Cr q (1 + k) H) as (il' & ln' & o' & k' & A & B & C).
           exists il', ln', q, o', k'. split; [apply Skip; exact A|split; assumption].
        -- destruct (Plain y q (1 + k) E13 H) as (il' & ln' & o' & k' & A & B & C).
           exists il', ln', q, o', k'. split; [apply Skip; exact A|split; assumption].
      * intros H.
        assert (NoSkip : forall m2, get_charX (mkM s false cu false G ln (x :: q) o k) = m2 ->
                                    get_charX (mkM s false cu true G ln (x :: q) o k) = m2).
        { intros m2 <-. unfold get_char, mkM. cbn [mc reconsume mq fq_next]. unfold get_preprocessed_char, gpc_skip.
          cbn [mc ignore_lf took upd]. change LF with 10. rewrite E10. reflexivity. }
        destruct (x =? 13) eqn:E13.
        -- apply N.eqb_eq in E13. subst x. destruct (Cr q k) as (il' & ln' & o' & k' & A & B & C).
           { cbn [preprocess_from andb]. exact H. }
           exists il', ln', q, o', k'. split; [apply NoSkip; exact A|split; assumption].
        -- destruct (Plain x q k E13) as (il' & ln' & o' & k' & A & B & C).
           { cbn [preprocess_from andb]. rewrite E13. exact H. }
           exists il', ln', q, o', k'. split; [apply NoSkip; exact A|split; assumption].
    + intros H. destruct (x =? 13) eqn:E13.
      * apply N.eqb_eq in E13. subst x. destruct (Cr q k H) as (il' & ln' & o' & k' & A & B & C).
        exists il', ln', q, o', k'. split; [exact A|split; assumption].
      * destruct (Plain x q k E13 H) as (il' & ln' & o' & k' & A & B & C).
        exists il', ln', q, o', k'. split; [exact A|split; assumption].
Qed.

(* ------------------------------------------------------------------ iterating the specification *)
Fixpoint wsteps (k : nat) (env : wenv) (cf : wconf) (inp : list N) : option (wconf * list N) :=
  match k with
  | O => Some (cf, inp)
  | S k' => match wstep env cf inp with WCont cf' inp' => wsteps k' env cf' inp' | WStop _ => None end
  end.
Lemma wrun_wsteps k env : forall cf inp cf' inp', wsteps k env cf inp = Some (cf', inp') ->
  forall j, wrun (k + j) env cf inp = wrun j env cf' inp'.
Proof.
  induction k as [|k IH]; intros cf inp cf' inp' H j; cbn [wsteps] in H.
  - injection H as <- <-. reflexivity.
  - cbn [Nat.add wrun]. destruct (wstep env cf inp) as [c1 i1|c1]; [|discriminate H]. apply IH. exact H.
Qed.
Lemma wsteps_trans a b env cf inp cf1 inp1 cf2 inp2 :
  wsteps a env cf inp = Some (cf1, inp1) -> wsteps b env cf1 inp1 = Some (cf2, inp2) -> wsteps (a + b) env cf inp = Some (cf2, inp2).
Proof.
  revert cf inp. induction a as [|a IH]; intros cf inp H1 H2; cbn [wsteps Nat.add] in *.
  - injection H1 as <- <-. exact H2.
  - destruct (wstep env cf inp) as [c1 i1|c1]; [|discriminate H1]. apply IH; assumption.
Qed.

Section Run.
Variable tb : table hstate.
Variable simd : list N * list N * list N.
Variable ent : list N -> option (N * N).
Variable c1 : N -> option N.
Variable sk : sinkcfg.
Variable env : wenv.

Notation stepX := (step [] fq_next fq_peek (@app N) (fun q => q) fq_run1 html_flavour true tb simd ent c1 sk).
Notation runX := (run [] fq_next fq_peek (@app N) (fun q => q) fq_run1 html_flavour true tb simd ent c1 sk).
Notation feedX := (feed [] fq_next fq_peek (@app N) (fun q => q) fq_run1 html_flavour true tb simd ent c1 sk).
Notation eof_loopX := (eof_loop [] fq_next fq_peek (@app N) (fun q => q) fq_run1 html_flavour true tb simd sk).
Notation tok_endX := (tok_end [] fq_next fq_peek (@app N) (fun q => q) fq_run1 html_flavour true tb simd ent c1 sk).
Notation iterX := (iter html_flavour tb simd ent c1 sk).

(* the state-dependent part of the relation and the set of states whose obligations are proved *)
Variable SR : cfg hstate -> wconf -> Prop.
Variable ok : hstate -> Prop.

Definition Rel (m : M) (cf : wconf) (inp : list N) : Prop :=
  cref (mc m) = None /\ inp = linput m /\ flat_i (mout m) = flat_s (wout cf) /\ SR (mc m) cf.
(* a machine in a proved state, outside the character-reference sub-tokenizer *)
Definition okm (m : M) : Prop := cref (mc m) = None /\ ok (st (mc m)).

(* one interpreter step from a machine in a proved state: it suspends exactly when the logical input is exhausted, otherwise
   it continues and the specification gets to a related configuration in finitely many steps *)
Hypothesis Hstep : forall ae (m : M) cf inp, Rel m cf inp -> ok (st (mc m)) ->
  (linput m = [] -> exists m', stepX ae m = (m', SSuspend) /\ Rel m' cf inp /\ mq m' = [] /\ st (mc m') = st (mc m)) /\
  (linput m <> [] -> exists m', stepX ae m = (m', SContinue) /\
                     (okm m' -> exists k cf' inp', wsteps k env cf inp = Some (cf', inp') /\ Rel m' cf' inp')).
(* the end of the input *)
Hypothesis Heof : forall (m : M) cf, Rel m cf [] -> ok (st (mc m)) -> mq m = [] ->
  exists j mF js cfF, (forall f, eof_loopX (j + f) m = (mF, SSuspend)) /\ wrun js env cf [] = Some cfF /\
                      flat_i (mout mF) = flat_s (wout cfF).

Lemma eof_loop_mono fuel : forall (m : M) r, eof_loopX fuel m = r -> snd r <> SPanic 97 -> forall d, eof_loopX (fuel + d) m = r.
Proof.
  induction fuel as [|f IH]; intros m r H Hne d; cbn [eof_loop Nat.add] in *.
  - subst r. exfalso. apply Hne. reflexivity.
  - destruct (exec [] fq_next fq_peek (@app N) (fun q => q) fq_run1 html_flavour true simd sk true (t_eof tb (st (mc m))) 0 [] m) as [m' r'].
    destruct r'; try exact H. apply IH; assumption.
Qed.

(* the run loop: as long as every state reached is a proved one *)
Lemma run_refine fuel : forall (m : M) cf inp m2,
  Rel m cf inp -> (forall n m', iterX n m = Some m' -> okm m') ->
  runX false fuel m = (m2, SSuspend) ->
  exists k cf2, wsteps k env cf inp = Some (cf2, []) /\ Rel m2 cf2 [] /\ mq m2 = [] /\ ok (st (mc m2)).
Proof.
  induction fuel as [|f IH]; intros m cf inp m2 HR Hvis Hrun; cbn [run] in Hrun; [discriminate Hrun|].
  pose proof (proj2 (Hvis 0%nat m eq_refl)) as Hok.
  destruct (Hstep false m cf inp HR Hok) as [Hs Hc].
  destruct (linput m) as [|c L] eqn:El.
  - destruct (Hs eq_refl) as (m' & E & R' & Q' & S'). rewrite E in Hrun. injection Hrun as <-.
    exists 0%nat, cf. destruct HR as (_ & Ei & _). rewrite El in Ei. subst inp.
    split; [reflexivity|]. split; [exact R'|]. split; [exact Q'|]. rewrite S'. exact Hok.
  - destruct Hc as (m' & E & Hm'); [discriminate|]. rewrite E in Hrun.
    assert (Om : okm m') by (apply (Hvis 1%nat); cbn [iter]; rewrite E; reflexivity).
    destruct (Hm' Om) as (k & cf' & inp' & W & R').
    destruct (IH m' cf' inp' m2 R') as (k2 & cf2 & W2 & R2 & Q2 & O2).
    + intros n m'' Hn. apply (Hvis (1 + n)%nat). cbn [Nat.add iter]. rewrite E. exact Hn.
    + exact Hrun.
    + exists (k + k2)%nat, cf2. split; [eapply wsteps_trans; eassumption|]. auto.
Qed.

Lemma setq_nil (m : M) : mq m = [] -> m <| mq := [] |> = m.
Proof. intros H. destruct m as [c q o k]. cbn in H. subst. reflexivity. Qed.

(* the whole input in one chunk, then end(): if feed and end() both return normally (no fuel exhaustion) and every state
   the feed visits is a proved one, the specification - with enough fuel - stops with the same observable tokens *)
Theorem feed_end_refine fuel (m1 m2 m3 : M) cf1 inp1 :
  Rel m1 cf1 inp1 -> discard_bom (mc m1) = false -> reconsume (mc m1) = false ->
  (forall n m', iterX n m1 = Some m' -> okm m') ->
  feedX fuel m1 = (m2, SSuspend) -> tok_endX fuel m2 = (m3, SSuspend) ->
  exists fs cfF, wrun fs env cf1 inp1 = Some cfF /\ flat_i (mout m3) = flat_s (wout cfF).
Proof.
  intros HR Hb Hrc Hvis Hfeed Hend.
  assert (G : exists k cf2, wsteps k env cf1 inp1 = Some (cf2, []) /\ Rel m2 cf2 [] /\ mq m2 = [] /\ ok (st (mc m2))).
  { destruct (mq m1) as [|x q] eqn:Eq.
    - rewrite (feed_empty html_flavour tb simd ent c1 sk fuel m1 Eq) in Hfeed. injection Hfeed as <-.
      pose proof (proj2 (Hvis 0%nat m1 eq_refl)) as Hok.
      assert (El : linput m1 = []) by (unfold linput; rewrite Hrc, Eq; reflexivity).
      exists 0%nat, cf1. destruct HR as (A & B & C & D). rewrite El in B. subst inp1.
      split; [reflexivity|]. split; [repeat split; try assumption; symmetry; exact El|]. split; [exact Eq|exact Hok].
    - rewrite (feed_nonempty html_flavour tb simd ent c1 sk fuel m1) in Hfeed; [|rewrite Eq; discriminate|exact Hb].
      exact (run_refine fuel m1 cf1 inp1 m2 HR Hvis Hfeed). }
  destruct G as (k & cf2 & W & R2 & Q2 & O2).
  unfold tok_end in Hend. rewrite (setq_nil m2 Q2) in Hend.
  pose proof R2 as (Hcr & Hin & _). rewrite Hcr in Hend.
  destruct fuel as [|f]; [cbn in Hend; discriminate Hend|]. cbn [run] in Hend.
  destruct (Hstep true m2 cf2 [] R2 O2) as [Hs _].
  destruct (Hs (eq_sym Hin)) as (m2' & E & R2' & Q2' & S2'). rewrite E in Hend.
  rewrite Q2' in Hend. cbn [fq_peek] in Hend.
  assert (O2' : ok (st (mc m2'))) by (rewrite S2'; exact O2).
  destruct (Heof m2' cf2 R2' O2' Q2') as (j & mF & js & cfF & EF & WF & FF).
  pose proof (eof_loop_mono (Datatypes.S f) m2' _ Hend ltac:(cbn; discriminate) j) as M1.
  rewrite Nat.add_comm, EF in M1. injection M1 as <-.
  exists (k + js)%nat, cfF. split; [rewrite (wrun_wsteps k env cf1 inp1 cf2 [] W); exact WF|exact FF].
Qed.
End Run.
