(* C15 / C04 - termination of the tokenizer interpreter for the XML flavour (f_html fl = false): the argument of
   TokIR/Termination.v (same invariant TI, same potential (Tl, sg), same bound) with the flavour-specific lemmas
   re-proved: xml's discard_char goes through get_char, its eat() drops a pending LF with a raw next(), the
   character-reference sub-tokenizer has its own first state and raw discard, emit_current_tag never switches the state,
   EOF arms may emit tags and the EOF loop continues after a Script answer (so the EOF successor graph contains the
   tag-emitting arms' targets), end() has no assert sites. *)
From Coq Require Import List NArith Bool Lia Arith.
From RecordUpdate Require Import RecordSet.
From HV Require Import TokIR.IR TokIR.Interp TokIR.Checks TokIR.LineInv TokIR.Termination.
Import ListNotations RecordSetNotations.
Local Open Scope N_scope.

Section TermX.
Context {S : Type}.
Variable fl : flavour S.
Variable tb : table S.
Variable simd : list N * list N * list N.
Variable ent : list N -> option (N * N).
Variable c1 : N -> option N.
Variable sk : sinkcfg.
Hypothesis Hx : f_html fl = false.

Notation M := (mach S (list N)).
Notation fid := (fun q : list N => q).
Notation gpcF := (@get_preprocessed_char S (list N) fq_next fl true).
Notation get_charF := (@get_char S (list N) fq_next fl true).
Notation peekF := (@peek S (list N) fq_peek).
Notation discard_charF := (@discard_char S (list N) fq_next fl true).
Notation discard_wsF := (@discard_ws S (list N) fq_next fl true).
Notation discard_rawF := (@discard_raw S (list N) fq_next fl true).
Notation popF := (@pop_except_from S (list N) fq_next fq_peek fq_run1 fl true simd).
Notation eat_bodyF := (@eat_body S (list N) [] fq_next fq_peek (@app N) fid).
Notation eatF := (@eat S (list N) [] fq_next fq_peek (@app N) fid fl true).
Notation do_cmdF := (@do_cmd S (list N) fq_next fl true).
Notation do_termF := (@do_term S (list N) fl sk).
Notation execF := (@exec S (list N) [] fq_next fq_peek (@app N) fid fq_run1 fl true simd sk).
Notation unconsumeF := (@unconsume S (list N) (@app N)).
Notation finish_attributeF := (@finish_attribute S (list N) fl).
Notation discard_tagF := (@discard_tag S (list N) fl).
Notation emit_charF := (@emit_char S (list N) fl).
Notation emit_current_tagF := (@emit_current_tag S (list N) fl sk).

Ltac unf := unfold qn, dv, cv, cv3, cvx, vrc, vst, vil, vtmp, vcr, vln in *.
Ltac keeps := intros x; destruct x; repeat split; reflexivity.

(* ---------------------------------------------------------------- xml: commands and tag emission are quiet *)
Lemma finish_attribute_quiet_x (m : M) : quiet m (finish_attributeF m).
Proof.
  unfold finish_attribute. destruct (attr_name (mc m)); [apply quiet_refl|].
  rewrite Hx. destruct (existsb _ _).
  - eapply quiet_trans; [apply err_quiet|apply upd_quiet; keeps].
  - destruct (qname_split _) as [p l]. apply upd_quiet; keeps.
Qed.
Lemma discard_tag_quiet_x (m : M) : quiet m (discard_tagF m).
Proof. unfold discard_tag. rewrite Hx. apply upd_quiet; keeps. Qed.
Lemma emit_char_quiet_x c (m : M) : quiet m (emit_charF c m).
Proof. unfold emit_char. rewrite Hx. apply emit_quiet. Qed.

Lemma do_cmd_quiet_x k c run (m : M) : is_discard k = false -> is_tempcmd k = false -> quiet m (do_cmdF k c run m).
Proof.
  intros Hd Ht. destruct k; try discriminate; cbn [do_cmd];
    try match goal with |- context [match ?x with KPublic => _ | _ => _ end] => destruct x end;
    match goal with
    | |- quiet _ (upd _ (discard_tagF _)) => eapply quiet_trans; [apply discard_tag_quiet_x|apply upd_quiet; keeps]
    | |- quiet _ (upd _ (finish_attributeF _)) => eapply quiet_trans; [apply finish_attribute_quiet_x|apply upd_quiet; keeps]
    | |- quiet _ (upd _ (emit _ _)) => eapply quiet_trans; [apply emit_quiet|apply upd_quiet; keeps]
    | |- quiet _ (upd _ _) => apply upd_quiet; keeps
    | |- quiet _ (discard_tagF _) => apply discard_tag_quiet_x
    | |- quiet _ (emit_charF _ _) => apply emit_char_quiet_x
    | |- quiet _ (err _) => apply err_quiet
    | |- quiet _ (emit _ _) => apply emit_quiet
    end.
Qed.

(* xml: emitting a tag never changes the state *)
Definition ectPx (m m' : M) : Prop := ectP m m' /\ vst m' = vst m.
Lemma ect_spec_x (m : M) : ectPx m (fst (emit_current_tagF m)).
Proof.
  unfold emit_current_tag. pose proof (finish_attribute_quiet_x m) as [[H0 H1] H2].
  destruct (cv3_inv _ _ H1) as (I1 & I2 & I3).
  set (m1 := finish_attributeF m) in *. clearbody m1.
  assert (G : forall m' : M, ectPx m1 m' -> ectPx m m').
  { intros m' ((A & B & C & D) & E). split; [split; [eapply quietD_trans; eassumption|repeat split; congruence]|congruence]. }
  apply G. clear G H0 H1 H2 I1 I2 I3.
  rewrite Hx.
  destruct (tag_kind (mc m1)) eqn:Ek;
    destruct (lookup_resp (tag_name (mc m1)) (sk_resp sk)) as [[]|];
    destruct (tag_attrs (mc m1));
    destruct m1 as [cf q o k0]; destruct cf; unfold ectPx, ectP, quietD; unf; cbn; repeat split; repeat constructor.
Qed.
Lemma ect_res (m : M) n : snd (emit_current_tagF m) <> SPanic n.
Proof.
  unfold emit_current_tag. set (m1 := finish_attribute fl m). clearbody m1. rewrite Hx.
  destruct (tag_kind (mc m1));
    destruct (lookup_resp (tag_name (mc m1)) (sk_resp sk)) as [[]|]; cbn [snd]; discriminate.
Qed.

Lemma pcr_quiet_x chars (m : M) : quiet m (fst (process_char_ref fl chars m)).
Proof.
  unfold process_char_ref.
  set (cs := match chars with [] => [38] | _ => chars end). clearbody cs.
  assert (G0 : forall l (m0 : M) b, quiet m m0 ->
    quiet m (fst (fold_left (fun '(m1, bad) c =>
               match f_charref_emit fl (st (mc m1)) with
               | Some false => (emit_charF c m1, bad)
               | Some true => (upd (fun x => x <| attr_value ::= (fun s => s ++ [c]) |>) m1, bad)
               | None => (m1, true)
               end) l (m0, b)))).
  { induction l as [|c l IH]; intros m0 b H; cbn [fold_left fst]; [exact H|].
    destruct (f_charref_emit fl (st (mc m0))) as [[|]|]; apply IH.
    - eapply quiet_trans; [exact H|apply upd_quiet; keeps].
    - eapply quiet_trans; [exact H|apply emit_char_quiet_x].
    - exact H. }
  apply G0. apply quiet_refl.
Qed.

(* ---------------------------------------------------------------- xml: discards *)
Lemma get_char_dec (m : M) c q' : vrc m = false -> mq m = c :: q' ->
  (qn (snd (get_charF m)) + 1 <= qn m)%nat /\ cv (snd (get_charF m)) = cv m.
Proof.
  intros Hr Hq. destruct (get_char_sz fl m) as (A & B & _). destruct (cvx_inv _ _ A) as (A1 & A2 & A3).
  split; [|unfold cv; congruence].
  unfold get_char. unfold vrc in Hr. rewrite Hr, Hq. cbn [fq_next].
  destruct (gpc_sz fl c (took 1 (m <| mq := q' |>))) as [G _].
  unfold qn. rewrite Hq. cbn [length]. replace (mq (took 1 (m <| mq := q' |>))) with q' in G by (destruct m; reflexivity). lia.
Qed.
Lemma dc_sz (m : M) c q' : vrc m = false -> mq m = c :: q' ->
  (qn (discard_charF m) + 1 <= qn m)%nat /\ cv (discard_charF m) = cv m.
Proof. intros Hr Hq. unfold discard_char. rewrite Hx. apply (get_char_dec m c q' Hr Hq). Qed.
Lemma draw_sz (m : M) c q' : vrc m = false -> mq m = c :: q' ->
  (qn (discard_rawF m) + 1 = qn m)%nat /\ cv (discard_rawF m) = cv m.
Proof.
  intros Hr Hq. unfold discard_raw. rewrite Hx. unfold vrc in Hr. rewrite Hr, Hq. cbn [fq_next].
  destruct m as [cf q o k]. unf. cbn in *. subst. cbn. split; [lia|reflexivity].
Qed.
Lemma discard_ws_sz (m : M) c q' : vrc m = false -> mq m = c :: q' ->
  (qn (discard_wsF c m) + 1 <= qn m)%nat /\ cv (discard_wsF c m) = cv m.
Proof.
  intros Hr Hq. destruct (dc_sz m c q' Hr Hq) as [A B]. unfold discard_ws.
  set (d := discard_charF m) in *. clearbody d. rewrite <- B.
  destruct ((c =? CR) || (c =? LF) && negb (ignore_lf (mc m))); destruct d as [cf q o k]; destruct cf; unf; cbn in *; split; (lia || reflexivity).
Qed.

Lemma eat_sz a pat ex (m : M) : vrc m = false ->
  cv3 (snd (eatF a pat ex m)) = cv3 m /\
  match fst (eatF a pat ex m) with
  | Some true => vtmp (snd (eatF a pat ex m)) = [] /\ (qn (snd (eatF a pat ex m)) + length pat <= qn m + tn m)%nat
  | Some false => vtmp (snd (eatF a pat ex m)) = [] /\ (qn (snd (eatF a pat ex m)) <= qn m + tn m)%nat
  | None => (qn (snd (eatF a pat ex m)) + tn (snd (eatF a pat ex m)) <= qn m + tn m)%nat
  end.
Proof.
  intros Hr.
  assert (Hbody : forall m1 : M, cv3 m1 = cv3 m -> (qn m1 + tn m1 <= qn m + tn m)%nat ->
    cv3 (snd (eat_bodyF a pat ex m1)) = cv3 m /\
    match fst (eat_bodyF a pat ex m1) with
    | Some true => vtmp (snd (eat_bodyF a pat ex m1)) = [] /\ (qn (snd (eat_bodyF a pat ex m1)) + length pat <= qn m + tn m)%nat
    | Some false => vtmp (snd (eat_bodyF a pat ex m1)) = [] /\ (qn (snd (eat_bodyF a pat ex m1)) <= qn m + tn m)%nat
    | None => (qn (snd (eat_bodyF a pat ex m1)) + tn (snd (eat_bodyF a pat ex m1)) <= qn m + tn m)%nat
    end).
  { intros m1 A1 A2. destruct (eat_body_sz a pat ex m1) as (B1 & B2). split; [congruence|].
    destruct (fst (eat_bodyF a pat ex m1)) as [[|]|]; [destruct B2; split; [auto|lia]|destruct B2; split; [auto|lia]|lia]. }
  unfold eat. destruct (ignore_lf (mc m)) eqn:Hil; [|apply Hbody; auto].
  destruct (peekF m) as [c|] eqn:Hpk.
  - destruct (peek_some m c Hr Hpk) as [q' Hq]. destruct (c =? LF).
    + rewrite Hx, Hq. cbn [fq_next]. apply Hbody.
      * destruct m as [cf q o k]; destruct cf; reflexivity.
      * destruct m as [cf q o k]; destruct cf; unfold tn; unf; cbn in *. subst. cbn. lia.
    + apply Hbody.
      * destruct m as [cf q o k]; destruct cf; reflexivity.
      * destruct m as [cf q o k]; destruct cf; unfold tn; unf; cbn. lia.
  - destruct a.
    + apply Hbody.
      * destruct m as [cf q o k]; destruct cf; reflexivity.
      * destruct m as [cf q o k]; destruct cf; unfold tn; unf; cbn. lia.
    + cbn [fst snd]. split; [reflexivity|lia].
Qed.

(* ---------------------------------------------------------------- invariant and potential: those of Termination.v *)
Variable clean : S -> bool.
Variable rank : S -> nat.
Variable R : nat.
Hypothesis Hrank : forall s, (rank s <= R)%nat.
Hypothesis Hec : forall s, eatS tb s = true -> clean s = true.
Notation TI := (Termination.TI tb clean).
Notation Tl := (Termination.Tl tb).
Notation sg := (Termination.sg rank R).
Notation Post := (Termination.Post tb clean rank R).
Notation pchk := (Termination.pchk rank).
Notation Pt := (Termination.Pt tb).
Notation stash := (Termination.stash tb).
Notation pterm := (Termination.pterm rank).
Notation fin := (Termination.fin tb clean rank R Hec).
Notation Lc := (Termination.Lc R).
Notation run_bound := (Termination.run_bound R).
Notation sg_lt := (Termination.sg_lt tb clean rank R Hrank).
Notation TI_same := (Termination.TI_same tb clean).
Notation Tl_same := (Termination.Tl_same tb).
Notation run_bound_mono := (Termination.run_bound_mono R).
Notation drive_total := (Termination.drive_total tb).
Notation get_char_sz := (Termination.get_char_sz fl).
Notation eat_body_sz := (@Termination.eat_body_sz S).

Lemma do_term_term s T0 cl pg t (m : M) : term_ok tb clean s cl t = true -> pterm s pg t = true ->
  Gt s cl m -> (qn m + pgn pg <= T0)%nat -> Post T0 (rank s) (do_termF t m).
Proof.
  intros Ht Hp (Hs & Hr & Hcr & Htmp) Hq.
  assert (Hfin : forall (m' : M) r, qn m' = qn m -> vrc m' = false -> vcr m' = None -> vtmp m' = vtmp m ->
                 implb (clean (vst m')) cl = true -> r <> SPanic 98 -> r <> SPanic 97 ->
                 (r = SContinue -> pg = true \/ (rank (vst m') < rank s)%nat) -> Post T0 (rank s) (m', r)).
  { intros m' r A B C D E F1 F2 G0.
    assert (Hc' : clean (vst m') = true -> vtmp m' = []).
    { intros X. rewrite D. apply Htmp. eapply implb_use; eassumption. }
    destruct (fin m' B C Hc') as (I1 & I2 & I3).
    unfold Termination.Post, Termination.dec. cbn [fst snd]. rewrite I2, I3, A.
    split; [exact I1|split; [lia|split; [exact F1|split; [exact F2|]]]].
    intros X. destruct (G0 X) as [->|Y]; cbn [pgn] in Hq; lia. }
  assert (Hect : forall m1 : M, qn m1 = qn m -> vrc m1 = false -> vcr m1 = None -> vtmp m1 = vtmp m -> cl = true ->
                 pg = true -> Post T0 (rank s) (emit_current_tagF m1)).
  { intros m1 A B C D E F. destruct (ect_spec_x m1) as [HE _]. destruct HE as ([E1 _] & E2 & E3 & E4).
    destruct (dv_inv _ _ E1) as (E5 & _).
    pose proof (ect_res m1 98) as N1. pose proof (ect_res m1 97) as N2.
    destruct (emit_current_tagF m1) as [m' r]. cbn [fst snd] in *. apply Hfin; auto; try congruence.
    - unfold qn in *. congruence.
    - rewrite E. destruct (clean _); reflexivity. }
  destruct t; cbn [do_term]; cbn [term_ok pterm] in Ht, Hp.
  - (* Stay *) apply Hfin; auto; try discriminate. rewrite Hs. exact Ht.
  - (* Fall *) apply Hfin; auto; try discriminate. rewrite Hs. exact Ht.
  - (* To *) apply Hfin; try discriminate.
    + destruct m as [cf q o k]; reflexivity.
    + destruct m as [cf q o k]; destruct cf; exact Hr.
    + destruct m as [cf q o k]; destruct cf; exact Hcr.
    + destruct m as [cf q o k]; destruct cf; reflexivity.
    + destruct m as [cf q o k]; destruct cf; exact Ht.
    + intros _. apply orb_prop in Hp. destruct Hp as [Hp|Hp]; [left; exact Hp|right].
      apply Nat.ltb_lt in Hp. destruct m as [cf q o k]; destruct cf; exact Hp.
  - (* Reconsume *) apply andb_prop in Ht. destruct Ht as [Ht1 Ht2]. apply andb_prop in Hp. destruct Hp as [Hp1 Hp2].
    apply Nat.ltb_lt in Hp2. subst pg. cbn [pgn] in Hq.
    set (m' := upd (fun x => x <| reconsume := true |> <| st := s0 |>) m).
    assert (E : qn m' = qn m /\ vst m' = s0 /\ vrc m' = true /\ vcr m' = None /\ vtmp m' = vtmp m)
      by (subst m'; destruct m as [cf q o k]; destruct cf; unf; cbn in *; auto).
    destruct E as (E1 & E2 & E3 & E4 & E5).
    assert (ET : Tl m' = (qn m + 1)%nat).
    { unfold Termination.Tl, Termination.stash, wn, rcn. rewrite E1, E2, E3, E4, (getter_not_eat tb _ Ht1). lia. }
    unfold Termination.Post, Termination.dec. cbn [fst snd]. rewrite ET. unfold Termination.sg. rewrite E4, E2.
    split; [split; [|split]|split; [lia|split; [discriminate|split; [discriminate|intros _; lia]]]].
    + intros _. split; [rewrite E2; exact Ht1|exact E4].
    + rewrite E2, E5. intros X _. apply Htmp. eapply implb_use; eassumption.
    + rewrite E4. congruence.
  - (* ConsumeCharRef *) apply andb_prop in Ht. destruct Ht as [Ht1 Ht2]. apply negb_true_iff in Ht1.
    subst pg. cbn [pgn] in Hq.
    set (m' := upd (fun x => x <| cref := Some (cr_new (f_is_attr_value fl (st x)) addnl) |>) m).
    assert (E : qn m' = qn m /\ vst m' = s /\ vrc m' = false /\
                vcr m' = Some (cr_new (f_is_attr_value fl (vst m)) addnl) /\ vtmp m' = vtmp m)
      by (subst m'; destruct m as [cf q o k]; destruct cf; unf; cbn in *; auto).
    destruct E as (E1 & E2 & E3 & E4 & E5).
    assert (ET : Tl m' = qn m).
    { unfold Termination.Tl, Termination.stash, wn, rcn. rewrite E1, E2, E3, E4, Ht1. cbn. lia. }
    unfold Termination.Post, Termination.dec. cbn [fst snd]. rewrite ET.
    split; [split; [|split]|split; [lia|split; [discriminate|split; [discriminate|intros _; lia]]]].
    + rewrite E3. discriminate.
    + rewrite E2, E5. intros X _. apply Htmp. eapply implb_use; eassumption.
    + rewrite E2. auto.
  - (* EmitTag *) apply Hect;
      [destruct m as [cf q o k0]; reflexivity
      |destruct m as [cf q o k0]; destruct cf; exact Hr
      |destruct m as [cf q o k0]; destruct cf; exact Hcr
      |destruct m as [cf q o k0]; destruct cf; reflexivity
      |exact Ht|exact Hp].
  - (* EmitKind *) destruct k; cbn [do_term]; (apply Hect;
      [destruct m as [cf q o k0]; reflexivity
      |destruct m as [cf q o k0]; destruct cf; exact Hr
      |destruct m as [cf q o k0]; destruct cf; exact Hcr
      |destruct m as [cf q o k0]; destruct cf; reflexivity
      |exact Ht|exact Hp]).
  - (* EmitPi *) apply Hfin; try discriminate.
    + destruct m as [cf q o k]; reflexivity.
    + destruct m as [cf q o k]; destruct cf; exact Hr.
    + destruct m as [cf q o k]; destruct cf; exact Hcr.
    + destruct m as [cf q o k]; destruct cf; reflexivity.
    + destruct m as [cf q o k]; destruct cf; exact Ht.
    + intros _. apply orb_prop in Hp. destruct Hp as [Hp|Hp]; [left; exact Hp|right].
      apply Nat.ltb_lt in Hp. destruct m as [cf q o k]; destruct cf; exact Hp.
  - (* Eof *) apply Hfin; try discriminate.
    + destruct m as [cf q o k]; reflexivity.
    + destruct m as [cf q o k]; exact Hr.
    + destruct m as [cf q o k]; exact Hcr.
    + destruct m as [cf q o k]; reflexivity.
    + destruct m as [cf q o k]; unf; cbn in *. rewrite Hs. exact Ht.
Qed.

Lemma susp_post s T0 cl (m : M) r : Gt s cl m -> implb (clean s) cl = true -> (qn m <= T0)%nat ->
  r <> SPanic 98 -> r <> SPanic 97 -> r <> SContinue -> Post T0 (rank s) (m, r).
Proof.
  intros (Hs & Hr & Hcr & Htmp) Hc Hq N1 N2 N3.
  assert (Hc' : clean (vst m) = true -> vtmp m = []).
  { intros X. apply Htmp. eapply implb_use; [exact Hc|congruence]. }
  destruct (fin m Hr Hcr Hc') as (I1 & I2 & I3). unfold Termination.Post. cbn [fst snd]. rewrite I2.
  split; [exact I1|split; [lia|split; [exact N1|split; [exact N2|intros X; contradiction]]]].
Qed.

Lemma exec_term a s T0 : forall b md cl pg c run (m : M),
  lchk tb clean s md cl b = true -> pchk s pg b = true -> Gt s cl m -> Pt md c m ->
  (qn m + pgn pg <= T0)%nat -> Post T0 (rank s) (execF a b c run m).
Proof.
  induction b as [rk k IH|set sm krun IHr kchar IHc|p e y IHy n IHn|k y IHy n IHn|k rest IH|t];
    intros md cl pg c run m Hc Hp HG HP Hq; cbn [exec]; cbn [lchk pchk] in Hc, Hp.
  - (* BRead *) destruct rk.
    + apply andb_prop in Hc. destruct Hc as [Hc1 Hc2]. pose proof HG as (Hs & Hr & Hcr & Ht).
      destruct (get_char_sz m) as (A & B & D & E). destruct (cvx_inv _ _ A) as (A1 & A2 & A3).
      unfold rcn in E. rewrite Hr in E.
      destruct (get_charF m) as [[c'|] m1]; cbn [fst snd] in *.
      * apply (IH AGot cl true); [exact Hc2|exact Hp| |exact I|].
        -- repeat split; try congruence. intros X. rewrite A2. auto.
        -- assert (Some c' <> None) as X by discriminate. specialize (E X). cbn [pgn]. destruct pg; cbn [pgn] in Hq; lia.
      * apply (susp_post s T0 cl); try discriminate; [|exact Hc1|destruct pg; cbn [pgn] in Hq; lia].
        repeat split; try congruence. intros X. rewrite A2. auto.
    + apply andb_prop in Hc. destruct Hc as [Hc Hc4]. apply andb_prop in Hc. destruct Hc as [Hc _].
      apply andb_prop in Hc. destruct Hc as [Hc1 _]. pose proof HG as (Hs & Hr & Hcr & Ht).
      destruct (peekF m) as [c'|] eqn:Hpk.
      * apply (IH APeek cl pg); auto. eapply peek_some; eassumption.
      * apply (susp_post s T0 cl); try discriminate; auto. destruct pg; cbn [pgn] in Hq; lia.
  - (* BPop *) rewrite pop_exact.
    apply andb_prop in Hc. destruct Hc as [Hc1 Hc2]. pose proof HG as (Hs & Hr & Hcr & Ht).
    destruct (get_char_sz m) as (A & B & D & E). destruct (cvx_inv _ _ A) as (A1 & A2 & A3).
    unfold rcn in E. rewrite Hr in E.
    destruct (get_charF m) as [[c'|] m1]; cbn [fst snd] in *.
    + apply (IHc AGot cl true); [exact Hc2|exact Hp| |exact I|].
      * repeat split; try congruence. intros X. rewrite A2. auto.
      * assert (Some c' <> None) as X by discriminate. specialize (E X). cbn [pgn]. destruct pg; cbn [pgn] in Hq; lia.
    + apply (susp_post s T0 cl); try discriminate; [|exact Hc1|destruct pg; cbn [pgn] in Hq; lia].
      repeat split; try congruence. intros X. rewrite A2. auto.
  - (* BEat *) destruct md; try discriminate. apply andb_prop in Hc. destruct Hc as [Hc Hc3].
    apply andb_prop in Hc. destruct Hc as [_ Hc2]. apply andb_prop in Hp. destruct Hp as [Hp1 Hp2].
    pose proof HG as (Hs & Hr & Hcr & Ht). destruct HP as (P2 & P3).
    destruct (eat_sz a p e m Hr) as (A & D). destruct (cv3_inv _ _ A) as (A1 & A2 & A3).
    assert (Htn : tn m = 0%nat) by (unfold tn; rewrite P2; reflexivity). rewrite Htn in D.
    destruct (eatF a p e m) as [[[|]|] m1]; cbn [fst snd] in *.
    + destruct D as [D1 D2]. apply (IHy AGot true (pg || negb match p with [] => true | _ => false end));
        [exact Hc2|exact Hp1| |exact I|].
      * repeat split; auto; congruence.
      * destruct pg; cbn [orb pgn] in *; [lia|]. destruct p; cbn [negb pgn length] in *; lia.
    + destruct D as [D1 D2]. apply (IHn AEat true pg); [exact Hc3|exact Hp2| | |lia].
      * repeat split; auto; congruence.
      * split; [exact D1|congruence].
    + (* look-ahead stashed: suspended *)
      unfold Termination.Post. cbn [fst snd].
      assert (ET : Tl m1 = (qn m1 + tn m1)%nat).
      { unfold Termination.Tl, Termination.stash, wn, rcn. rewrite A1, A2, A3, Hr, Hcr, P3. lia. }
      rewrite ET. split; [|split; [destruct pg; cbn [pgn] in Hq; lia|split; [discriminate|split; [discriminate|discriminate]]]].
      split; [rewrite A2, Hr; discriminate|split; [rewrite A1, P3; discriminate|rewrite A3, Hcr; congruence]].
  - (* BIf *) apply andb_prop in Hc. destruct Hc as [Hc1 Hc2]. apply andb_prop in Hp. destruct Hp as [Hp1 Hp2].
    destruct (ceval_cond sk k c m); [apply (IHy md cl pg)|apply (IHn md cl pg)]; auto.
  - (* BCmd *) destruct (is_discard k) eqn:Ed.
    + pose proof HG as (Hs & Hr & Hcr & Ht).
      destruct k; try discriminate Ed; cbn [lchk pchk do_cmd] in *; (destruct md; try discriminate Hc);
        destruct HP as [q' Hq'].
      * destruct (dc_sz m c q' Hr Hq') as (A1 & B).
        destruct (cv_inv _ _ B) as (B1 & B2 & B3 & B4).
        apply (IH AGot cl true); [exact Hc|exact Hp| |exact I|].
        -- repeat split; try congruence. intros X. rewrite B3. auto.
        -- cbn [pgn]. destruct pg; cbn [pgn] in Hq; lia.
      * destruct (discard_ws_sz m c q' Hr Hq') as (A1 & B).
        destruct (cv_inv _ _ B) as (B1 & B2 & B3 & B4).
        apply (IH AGot cl true); [exact Hc|exact Hp| |exact I|].
        -- repeat split; try congruence. intros X. rewrite B3. auto.
        -- cbn [pgn]. destruct pg; cbn [pgn] in Hq; lia.
    + assert (Hp' : pchk s pg rest = true) by (destruct k; try discriminate Ed; exact Hp).
      destruct (is_tempcmd k) eqn:Et.
      * destruct (do_cmd_temp fl k c run m Et) as [Q Htmp].
        destruct k; try discriminate Et; cbn [lchk] in Hc.
        -- destruct (Gt_quietT s cl false _ _ HG Q) as [G1 G2]; [discriminate|].
           apply (IH (match md with AEat => AGot | _ => md end) false pg); [exact Hc|exact Hp'|exact G1| |unfold qn in *; rewrite G2; exact Hq].
           destruct md; [exact I| |exact I]. destruct HP as [q' Hq']. exists q'. congruence.
        -- destruct (Gt_quietT s cl true _ _ HG Q) as [G1 G2]; [intros _; exact Htmp|].
           apply (IH md true pg); [exact Hc|exact Hp'|exact G1| |unfold qn in *; rewrite G2; exact Hq].
           destruct md; [exact I| |].
           ++ destruct HP as [q' Hq']. exists q'. congruence.
           ++ destruct HP as [P1 P2]. split; [exact Htmp|]. destruct G1 as (X & _). destruct HG as (Y & _). congruence.
        -- destruct (Gt_quietT s cl true _ _ HG Q) as [G1 G2]; [intros _; exact Htmp|].
           apply (IH md true pg); [exact Hc|exact Hp'|exact G1| |unfold qn in *; rewrite G2; exact Hq].
           destruct md; [exact I| |].
           ++ destruct HP as [q' Hq']. exists q'. congruence.
           ++ destruct HP as [P1 P2]. split; [exact Htmp|]. destruct G1 as (X & _). destruct HG as (Y & _). congruence.
      * assert (Hc' : lchk tb clean s md cl rest = true) by (rewrite <- (lchk_quiet tb clean s md cl k rest Ed Et); exact Hc).
        pose proof (do_cmd_quiet_x k c run m Ed Et) as [Q Htmp].
        destruct (Gt_quietT s cl cl _ _ HG Q) as [G1 G2].
        { intros X. rewrite Htmp. destruct HG as (_ & _ & _ & Ht). auto. }
        apply (IH md cl pg); [exact Hc'|exact Hp'|exact G1| |unfold qn in *; rewrite G2; exact Hq].
        destruct md; [exact I| |].
        -- destruct HP as [q' Hq']. exists q'. congruence.
        -- destruct HP as [P1 P2]. split; [congruence|]. destruct G1 as (X & _). destruct HG as (Y & _). congruence.
  - (* BEnd *) eapply do_term_term; eassumption.
Qed.

Hypothesis Hstart : forall s, start_ok tb clean s = true.
Hypothesis Hprog : forall s, pchk s false (t_step tb s) = true.

Lemma step_exec_term a (m : M) : TI m -> vcr m = None ->
  Post (Tl m) (sg m) (execF a (t_step tb (vst m)) 0 [] m).
Proof.
  intros (HR & HT & HC) Hcr. pose proof (Hstart (vst m)) as Hs. pose proof (Hprog (vst m)) as Hp.
  unfold start_ok in Hs. unfold Termination.sg. rewrite Hcr.
  assert (HTl : Tl m = (qn m + stash m + rcn m)%nat) by (unfold Termination.Tl, wn; rewrite Hcr; lia).
  destruct (t_step tb (vst m)) as [rk k|set sm krun kchar|p e y n|k y n|k rest|t] eqn:Eb; try discriminate Hs.
  - assert (He : eatS tb (vst m) = false) by (unfold eatS; rewrite Eb; destruct rk; reflexivity).
    assert (Hst : stash m = 0%nat) by (unfold Termination.stash; rewrite He; reflexivity).
    destruct rk; cbn [pchk] in Hp.
    + cbn [exec]. destruct (get_char_sz m) as (A & B & D & E). destruct (cvx_inv _ _ A) as (A1 & A2 & A3).
      destruct (get_charF m) as [[c'|] m1]; cbn [fst snd] in *.
      * apply (exec_term a (vst m) (Tl m) k AGot (clean (vst m)) true); [exact Hs|exact Hp| |exact I|].
        -- repeat split; try congruence. intros X. rewrite A2. auto.
        -- assert (Some c' <> None) as X by discriminate. specialize (E X). cbn [pgn]. lia.
      * apply (susp_post (vst m) (Tl m) (clean (vst m))); try discriminate; [| |lia].
        -- repeat split; try congruence. intros X. rewrite A2. auto.
        -- destruct (clean (vst m)); reflexivity.
    + assert (Hr : vrc m = false).
      { destruct (vrc m) eqn:E; [|reflexivity]. destruct (HR eq_refl) as [G0 _]. try rewrite Eb in G0. discriminate G0. }
      apply (exec_term a (vst m) (Tl m) (BRead RPeek k) AGot (clean (vst m)) false); [exact Hs|exact Hp| |exact I|].
      * repeat split; auto.
      * cbn [pgn]. lia.
  - assert (He : eatS tb (vst m) = false) by (unfold eatS; rewrite Eb; reflexivity).
    assert (Hst : stash m = 0%nat) by (unfold Termination.stash; rewrite He; reflexivity).
    cbn [exec]. rewrite pop_exact. cbn [pchk] in Hp.
    destruct (get_char_sz m) as (A & B & D & E). destruct (cvx_inv _ _ A) as (A1 & A2 & A3).
    destruct (get_charF m) as [[c'|] m1]; cbn [fst snd] in *.
    + apply (exec_term a (vst m) (Tl m) kchar AGot (clean (vst m)) true); [exact Hs|exact Hp| |exact I|].
      * repeat split; try congruence. intros X. rewrite A2. auto.
      * assert (Some c' <> None) as X by discriminate. specialize (E X). cbn [pgn]. lia.
    + apply (susp_post (vst m) (Tl m) (clean (vst m))); try discriminate; [| |lia].
      * repeat split; try congruence. intros X. rewrite A2. auto.
      * destruct (clean (vst m)); reflexivity.
  - assert (He : eatS tb (vst m) = true) by (unfold eatS; rewrite Eb; reflexivity).
    assert (Hst : stash m = tn m) by (unfold Termination.stash; rewrite He; reflexivity).
    assert (Hr : vrc m = false).
    { destruct (vrc m) eqn:E; [|reflexivity]. destruct (HR eq_refl) as [G0 _]. try rewrite Eb in G0. discriminate G0. }
    assert (Hrn : rcn m = 0%nat) by (unfold rcn; rewrite Hr; reflexivity).
    apply andb_prop in Hs. destruct Hs as [Hs Hc3]. apply andb_prop in Hs. destruct Hs as [_ Hc2].
    cbn [pchk] in Hp. cbn [orb] in Hp. apply andb_prop in Hp. destruct Hp as [Hp1 Hp2]. cbn [exec].
    destruct (eat_sz a p e m Hr) as (A & D). destruct (cv3_inv _ _ A) as (A1 & A2 & A3).
    destruct (eatF a p e m) as [[[|]|] m1]; cbn [fst snd] in *.
    + destruct D as [D1 D2].
      apply (exec_term a (vst m) (Tl m) y AGot true (negb match p with [] => true | _ => false end)); [exact Hc2|exact Hp1| |exact I|].
      * repeat split; auto; congruence.
      * destruct p; cbn [negb pgn length] in *; lia.
    + destruct D as [D1 D2]. apply (exec_term a (vst m) (Tl m) n AEat true false); [exact Hc3|exact Hp2| | |cbn [pgn]; lia].
      * repeat split; auto; congruence.
      * split; [exact D1|congruence].
    + unfold Termination.Post. cbn [fst snd].
      assert (ET : Tl m1 = (qn m1 + tn m1)%nat).
      { unfold Termination.Tl, Termination.stash, wn, rcn. rewrite A1, A2, A3, Hr, Hcr, He. lia. }
      rewrite ET. split; [|split; [lia|split; [discriminate|split; [discriminate|discriminate]]]].
      split; [rewrite A2, Hr; discriminate|split; [rewrite A1, He; discriminate|rewrite A3, Hcr; congruence]].
  - destruct t; try discriminate Hs. cbn [exec do_term]. unfold Termination.Post. cbn [fst snd].
    split; [split; [rewrite Eb; exact HR|split; [exact HT|exact HC]]|split; [lia|split; [discriminate|split; [discriminate|discriminate]]]].
Qed.

(* ---------------------------------------------------------------- the character-reference sub-tokenizer (xml) *)
Notation finish_numericF := (@finish_numeric S (list N) c1).
Notation unconsume_numericF := (@unconsume_numeric S (list N) (@app N)).
Notation finish_namedF := (@finish_named S (list N) (@app N) fl).
Notation cr_readF := (@cr_read S (list N) fq_next fq_peek fl true).
Notation cr_stepF := (@cr_step S (list N) fq_next fq_peek (@app N) fl true ent c1).
Notation process_char_refF := (@process_char_ref S (list N) fl).
Notation cr_eofF := (@cr_eof S (list N) (@app N) fl c1).
Notation unc_sz := (@Termination.unc_sz S).
Notation quiet_sz := (@Termination.quiet_sz S).
Notation err_sz := (@Termination.err_sz S).
Notation errif_sz := (@Termination.errif_sz S).
Notation fn_sz := (@Termination.fn_sz S c1).
Notation crS := (@Termination.crS S).
Notation crrank := Termination.crrank.

Lemma finish_named_sz cr1 e (m1 : M) :
  cv (snd (finish_namedF cr1 e m1)) = cv m1 /\
  match fst (finish_namedF cr1 e m1) with
  | CrStuck => False
  | CrProgress cr' => snd (finish_namedF cr1 e m1) = m1 /\ cr' = cr1 <| cr_st := CrBogus |> /\ e <> None
  | CrDone _ => (qn (snd (finish_namedF cr1 e m1)) <= length (cr_buf cr1) + qn m1)%nat
  end.
Proof.
  assert (Hall : forall (b : bool) W, (length W <= length (cr_buf cr1))%nat ->
     cv (if b then err (unconsumeF W m1) else unconsumeF W m1) = cv m1 /\
     (qn (if b then err (unconsumeF W m1) else unconsumeF W m1) <= length (cr_buf cr1) + qn m1)%nat).
  { intros b W HW. destruct (unc_sz W m1) as [A B]. destruct (errif_sz b (unconsumeF W m1)) as [A' B'].
    rewrite A', B'. split; [exact B|lia]. }
  unfold finish_named. destruct (cr_match cr1) as [[a b]|].
  - rewrite Hx.
    match goal with |- context [let '(unc, e) := ?X in _] => destruct X as [unc e0] end.
    destruct unc.
    + destruct (Hall e0 (cr_buf cr1) (le_n _)) as [A B]. cbn [fst snd]. auto.
    + assert (HW : (length (skipn (cr_len cr1) (cr_buf cr1)) <= length (cr_buf cr1))%nat) by (rewrite skipn_length; lia).
      destruct (Hall e0 _ HW) as [A B]. cbn [fst snd].
      auto.
  - destruct e as [c|].
    + destruct (is_alnum c); cbn [fst snd].
      * repeat split; auto. discriminate.
      * destruct (Hall ((c =? 59) && Nat.ltb 1 (length (cr_buf cr1))) (cr_buf cr1) (le_n _)) as [A B]. auto.
    + cbn [fst snd]. destruct (Hall false (cr_buf cr1) (le_n _)) as [A B]. auto.
Qed.

Lemma cr_step_sz cr (m : M) : vrc m = false -> crS cr m (cr_stepF cr m).
Proof.
  intros Hr. assert (Hstuck : crS cr m (CrStuck, m)) by (unfold Termination.crS; cbn [fst snd]; auto).
  unfold cr_step. destruct (cr_st cr) eqn:Est.
  - destruct (peekF m) as [c|] eqn:Hp; [|exact Hstuck].
    destruct (peek_some m c Hr Hp) as [q' Hq]. rewrite Hx.
    destruct (memb c [9; 10; 12; 32; 60; 38]); [unfold Termination.crS; cbn [fst snd]; split; [reflexivity|lia]|].
    destruct (match cr_addnl cr with Some a => a =? c | None => false end);
      [unfold Termination.crS; cbn [fst snd]; split; [reflexivity|lia]|].
    destruct (c =? 35); unfold Termination.crS; cbn [fst snd].
    + destruct (dc_sz m c q' Hr Hq) as [A B]. split; [exact B|]. unfold crW, Termination.crrank. rewrite Est.
      destruct cr; cbn in *. subst. cbn. lia.
    + split; [reflexivity|]. unfold crW, Termination.crrank. rewrite Est. destruct cr; cbn in *. subst. cbn. lia.
  - destruct (peekF m) as [c|] eqn:Hp; [|exact Hstuck].
    destruct (peek_some m c Hr Hp) as [q' Hq].
    destruct ((c =? 120) || (c =? 88)); unfold Termination.crS; cbn [fst snd].
    + destruct (dc_sz m c q' Hr Hq) as [A B]. split; [exact B|]. unfold crW, Termination.crrank. rewrite Est.
      destruct cr; cbn in *. subst. destruct cr_seen; cbn; lia.
    + split; [reflexivity|]. unfold crW, Termination.crrank. rewrite Est. destruct cr; cbn in *. subst. destruct cr_seen; cbn; lia.
  - destruct (peekF m) as [c|] eqn:Hp; [|exact Hstuck].
    destruct (peek_some m c Hr Hp) as [q' Hq].
    destruct (to_digit base c) as [n|].
    + unfold Termination.crS; cbn [fst snd]. destruct (dc_sz m c q' Hr Hq) as [A B]. split; [exact B|]. unfold crW, Termination.crrank. rewrite Est.
      destruct cr; cbn in *. subst. cbn. lia.
    + destruct (negb (cr_seen cr)) eqn:Eseen.
      * apply negb_true_iff in Eseen. unfold unconsume_numeric, Termination.crS; cbn [fst snd].
        destruct (unc_sz (35 :: match cr_hex cr with Some c0 => [c0] | None => [] end) m) as [A B].
        destruct (err_sz (unconsumeF (35 :: match cr_hex cr with Some c0 => [c0] | None => [] end) m)) as [A' B'].
        rewrite A', B', A. split; [exact B|]. unfold crW. rewrite Est, Eseen. unfold hexl. lia.
      * unfold Termination.crS; cbn [fst snd]. split; [reflexivity|]. unfold crW, Termination.crrank. rewrite Est.
        destruct cr; cbn in *. subst. destruct cr_seen; cbn; lia.
  - destruct (peekF m) as [c|] eqn:Hp; [|exact Hstuck].
    destruct (peek_some m c Hr Hp) as [q' Hq].
    assert (G0 : (qn (if (c =? 59)%N then discard_charF m else err m) <= qn m)%nat /\
                cv (if c =? 59 then discard_charF m else err m) = cv m).
    { destruct (c =? 59); [destruct (dc_sz m c q' Hr Hq) as [A B]; split; [lia|exact B]|].
      destruct (err_sz m) as [A B]. split; [lia|exact B]. }
    destruct G0 as [G1 G2]. set (m1 := if c =? 59 then discard_charF m else err m) in *. clearbody m1.
    destruct (fn_sz cr m1) as [F1 F2]. destruct (finish_numericF cr m1) as [chars m2]. cbn [fst snd] in *.
    unfold Termination.crS; cbn [fst snd]. split; [congruence|lia].
  - unfold cr_read. destruct (peekF m) as [c|] eqn:Hp; [|exact Hstuck].
    destruct (peek_some m c Hr Hp) as [q' Hq].
    destruct (draw_sz m c q' Hr Hq) as [A B].
    destruct (ent (cr_buf cr ++ [c])) as [[a b]|].
    + unfold Termination.crS; cbn [fst snd]. split; [exact B|]. unfold crW, Termination.crrank. rewrite Est.
      destruct (a =? 0); destruct cr; cbn in *; subst; rewrite app_length; cbn; lia.
    + match goal with |- crS cr m (finish_namedF ?X _ _) => set (cr1 := X) end.
      assert (Eb : cr_buf cr1 = cr_buf cr ++ [c]) by (subst cr1; destruct cr; reflexivity).
      destruct (finish_named_sz cr1 (Some c) (discard_rawF m)) as [F1 F2].
      destruct (finish_namedF cr1 (Some c) (discard_rawF m)) as [[|cr'|chars] m2]; cbn [fst snd] in *; [contradiction| |].
      * destruct F2 as (-> & -> & _). unfold Termination.crS; cbn [fst snd]. split; [exact B|]. unfold crW, Termination.crrank. rewrite Est.
        subst cr1. destruct cr; cbn in *; subst; rewrite app_length; cbn; lia.
      * unfold Termination.crS; cbn [fst snd]. split; [congruence|]. unfold crW. rewrite Est. rewrite Eb, app_length in F2. cbn in F2. lia.
  - unfold cr_read. destruct (peekF m) as [c|] eqn:Hp; [|exact Hstuck].
    destruct (peek_some m c Hr Hp) as [q' Hq].
    destruct (draw_sz m c q' Hr Hq) as [A B].
    destruct (is_alnum c); unfold Termination.crS; cbn [fst snd].
    + split; [exact B|]. unfold crW, Termination.crrank. rewrite Est. destruct cr; cbn in *; subst; rewrite app_length; cbn; lia.
    + replace (cr_buf (cr <| cr_buf ::= (fun b => b ++ [c]) |>)) with (cr_buf cr ++ [c]) by (destruct cr; reflexivity).
      destruct (unc_sz (cr_buf cr ++ [c]) (discard_rawF m)) as [A1 B1].
      destruct (errif_sz (c =? 59) (unconsumeF (cr_buf cr ++ [c]) (discard_rawF m))) as [A2 B2].
      rewrite A2, B2, A1, B1. split; [exact B|]. unfold crW. rewrite Est, app_length. cbn. lia.
Qed.

Notation stepF := (@step S (list N) [] fq_next fq_peek (@app N) fid fq_run1 fl true tb simd ent c1 sk).
Notation runF := (@run S (list N) [] fq_next fq_peek (@app N) fid fq_run1 fl true tb simd ent c1 sk).

Lemma step_term a (m : M) : TI m -> Post (Tl m) (sg m) (stepF a m).
Proof.
  intros HI. unfold step. fold (vcr m). fold (vst m).
  destruct (vcr m) as [cr|] eqn:Ecr; [|apply step_exec_term; assumption].
  pose proof HI as (HR & HT & HC).
  assert (He : eatS tb (vst m) = false) by (apply HC; rewrite Ecr; discriminate).
  assert (Hr : vrc m = false).
  { destruct (vrc m) eqn:E; [|reflexivity]. destruct (HR eq_refl) as [_ G0]. congruence. }
  assert (HTl : Tl m = (qn m + length (crW cr))%nat).
  { unfold Termination.Tl, Termination.stash, wn, rcn. rewrite He, Ecr, Hr. lia. }
  assert (Hsg : sg m = (R + 1 + 2 * qn m + crrank cr)%nat) by (unfold Termination.sg; rewrite Ecr; reflexivity).
  pose proof (cr_step_sz cr m Hr) as [A D]. destruct (cv_inv _ _ A) as (A1 & A2 & A3 & A4).
  destruct (cr_stepF cr m) as [[|cr'|chars] m1]; cbn [fst snd] in *.
  - subst m1. unfold Termination.Post. cbn [fst snd].
    split; [exact HI|split; [lia|split; [discriminate|split; [discriminate|discriminate]]]].
  - set (m2 := upd (fun x => x <| cref := Some cr' |>) m1).
    assert (E : qn m2 = qn m1 /\ vst m2 = vst m1 /\ vrc m2 = vrc m1 /\ vtmp m2 = vtmp m1 /\ vcr m2 = Some cr')
      by (subst m2; destruct m1 as [cf q o k]; destruct cf; repeat split).
    destruct E as (E1 & E2 & E3 & E4 & E5).
    assert (ET : Tl m2 = (qn m1 + length (crW cr'))%nat).
    { unfold Termination.Tl, Termination.stash, wn, rcn. rewrite E1, E2, E3, E5, A1, A2, He, Hr. lia. }
    assert (ES : sg m2 = (R + 1 + 2 * qn m1 + crrank cr')%nat) by (unfold Termination.sg; rewrite E5, E1; reflexivity).
    unfold Termination.Post, Termination.dec. cbn [fst snd]. rewrite ET, ES, HTl, Hsg.
    split; [|split; [lia|split; [discriminate|split; [discriminate|intros _; lia]]]].
    split; [rewrite E3, A2, Hr; discriminate|split; [rewrite E2, E4, A1, A3; exact HT|intros _; rewrite E2, A1; exact He]].
  - pose proof (pcr_quiet_x chars m1) as Q. destruct (quiet_sz _ _ Q) as [Q1 Q2].
    destruct (cv_inv _ _ Q2) as (Q3 & Q4 & Q5 & Q6).
    destruct (process_char_refF chars m1) as [m2 bad]. cbn [fst snd] in *.
    set (m3 := upd (fun x => x <| cref := None |>) m2).
    assert (E : qn m3 = qn m2 /\ vst m3 = vst m2 /\ vrc m3 = vrc m2 /\ vtmp m3 = vtmp m2 /\ vcr m3 = None)
      by (subst m3; destruct m2 as [cf q o k]; destruct cf; repeat split).
    destruct E as (E1 & E2 & E3 & E4 & E5).
    assert (Hc' : clean (vst m3) = true -> vtmp m3 = []).
    { rewrite E2, E4, Q3, Q5, A1, A3. intros X. apply HT; assumption. }
    assert (Hr3 : vrc m3 = false) by congruence.
    destruct (fin m3 Hr3 E5 Hc') as (I1 & I2 & I3).
    unfold Termination.Post, Termination.dec. cbn [fst snd]. rewrite I2, I3, HTl, Hsg.
    pose proof (Hrank (vst m3)) as HR3.
    split; [exact I1|split; [lia|split; [destruct bad; discriminate|split; [destruct bad; discriminate|intros _; lia]]]].
Qed.

Lemma run_term a T0 : forall fuel (m : M), TI m -> (Tl m <= T0)%nat -> (Tl m * Lc T0 + sg m < fuel)%nat ->
  TI (fst (runF a fuel m)) /\ (Tl (fst (runF a fuel m)) <= Tl m)%nat /\
  snd (runF a fuel m) <> SPanic 98 /\ snd (runF a fuel m) <> SPanic 97.
Proof.
  induction fuel as [|f IH]; intros m HI HT Hf; [lia|]. cbn [run].
  pose proof (step_term a m HI) as (P1 & P2 & P3 & P4 & P5).
  destruct (stepF a m) as [m1 r]. cbn [fst snd] in *.
  destruct r; try (cbn [fst snd]; split; [exact P1|split; [exact P2|split; [exact P3|exact P4]]]).
  specialize (P5 eq_refl).
  assert (Hm : (Tl m1 * Lc T0 + sg m1 < f)%nat).
  { pose proof (sg_lt m1 T0 P1 ltac:(lia)) as S1. destruct P5 as [P5|[P5 P6]].
    - assert ((Tl m1 + 1) * Lc T0 <= Tl m * Lc T0)%nat by (apply Nat.mul_le_mono_r; lia). lia.
    - rewrite P5. lia. }
  destruct (IH m1 P1 ltac:(lia) Hm) as (I1 & I2 & I3 & I4). split; [exact I1|split; [lia|split; [exact I3|exact I4]]].
Qed.

Theorem run_terminates a fuel (m : M) : TI m -> (run_bound (Tl m) <= fuel)%nat ->
  TI (fst (runF a fuel m)) /\ (Tl (fst (runF a fuel m)) <= Tl m)%nat /\
  snd (runF a fuel m) <> SPanic 98 /\ snd (runF a fuel m) <> SPanic 97.
Proof.
  intros HI Hf. apply (run_term a (Tl m)); auto. pose proof (sg_lt m (Tl m) HI (le_n _)). unfold Termination.run_bound in Hf. lia.
Qed.

(* ---------------------------------------------------------------- end(): xml EOF arms may emit tags, the loop goes on *)
Notation eof_loopF := (@eof_loop S (list N) [] fq_next fq_peek (@app N) fid fq_run1 fl true tb simd sk).
Notation tok_endF := (@tok_end S (list N) [] fq_next fq_peek (@app N) fid fq_run1 fl true tb simd ent c1 sk).
Notation feedF := (@feed S (list N) [] fq_next fq_peek (@app N) fid fq_run1 fl true tb simd ent c1 sk).
Notation feed_loopF := (@feed_loop S (list N) [] fq_next fq_peek (@app N) fid fq_run1 fl true tb simd ent c1 sk).
Notation driveF := (@drive S (list N) [] fq_next fq_peek (@app N) (@app N) fid fq_run1 fl true tb simd ent c1 sk).

Lemma do_term_res t (m : M) : okr (snd (do_termF t m)).
Proof.
  destruct t; cbn [do_term snd]; try (split; discriminate); try (split; apply ect_res).
  destruct k; cbn [do_term]; split; apply ect_res.
Qed.
Lemma exec_res a : forall b c run (m : M), okr (snd (execF a b c run m)).
Proof.
  induction b as [rk k IH|set sm krun IHr kchar IHc|p e y IHy n IHn|k y IHy n IHn|k rest IH|t]; intros c run m; cbn [exec].
  - destruct rk.
    + destruct (get_charF m) as [[c'|] m1]; [apply IH|split; discriminate].
    + destruct (peekF m); [apply IH|split; discriminate].
  - destruct (popF set sm m) as [[|c'|r] m1]; [split; discriminate|apply IHc|apply IHr].
  - destruct (eatF a p e m) as [[[|]|] m1]; [apply IHy|apply IHn|split; discriminate].
  - destruct (ceval_cond sk k c m); [apply IHy|apply IHn].
  - apply IH.
  - apply do_term_res.
Qed.

Fixpoint esuccx (s : S) (b : body S) : list S :=
  match b with
  | BIf _ y n => esuccx s y ++ esuccx s n
  | BCmd _ k => esuccx s k
  | BEnd (To s') | BEnd (Reconsume s') | BEnd (EmitPi s') | BEnd (EmitTag s') | BEnd (EmitKind _ s') => [s']
  | BEnd Stay | BEnd (ConsumeCharRef _) => [s]
  | _ => []
  end.
Fixpoint edepthx (n : nat) (s : S) : bool :=
  match n with O => false | Datatypes.S n' => forallb (edepthx n') (esuccx s (t_eof tb s)) end.

Variable D : nat.
Hypothesis Heof : forall s, eof_ok (t_eof tb s) = true.
Hypothesis Hdepth : forall s, edepthx D s = true.

Lemma exec_eof_succ a : forall b c run (m : M), eof_ok b = true ->
  snd (execF a b c run m) <> SSuspend -> (forall n, snd (execF a b c run m) <> SPanic n) ->
  In (vst (fst (execF a b c run m))) (esuccx (vst m) b).
Proof.
  induction b as [rk k IH|set sm krun IHr kchar IHc|p e y IHy n IHn|k y IHy n IHn|k rest IH|t];
    intros c run m Hb Hr1 Hr2; cbn [eof_ok] in Hb; try discriminate; cbn [exec esuccx] in *.
  - apply andb_prop in Hb. destruct Hb as [Hb1 Hb2].
    apply in_or_app. destruct (ceval_cond sk k c m); [left; apply IHy|right; apply IHn]; assumption.
  - apply andb_prop in Hb. destruct Hb as [Hb1 Hb2]. apply negb_true_iff in Hb1.
    assert (E : vst (do_cmdF k c run m) = vst m).
    { destruct (is_tempcmd k) eqn:Et.
      - destruct (do_cmd_temp fl k c run m Et) as [[_ Q] _]. apply (cv3_inv _ _ Q).
      - destruct (do_cmd_quiet_x k c run m Hb1 Et) as [[_ Q] _]. apply (cv3_inv _ _ Q). }
    rewrite <- E. apply IH; assumption.
  - assert (Hect : forall (m1 : M) s', vst m1 = s' -> In (vst (fst (emit_current_tagF m1))) [s']).
    { intros m1 s' E. destruct (ect_spec_x m1) as [_ V]. left. congruence. }
    destruct t; cbn [do_term fst snd] in *; try (exfalso; apply Hr1; reflexivity); try (exfalso; exact (Hr2 _ eq_refl));
      try (left; reflexivity); try (left; destruct m as [cf q o k]; destruct cf; reflexivity).
    + apply Hect. destruct m as [cf q o k]; destruct cf; reflexivity.
    + destruct k; cbn [do_term]; apply Hect; destruct m as [cf q o k0]; destruct cf; reflexivity.
Qed.

Lemma eof_loop_term : forall n fuel (m : M), edepthx n (vst m) = true -> (n <= fuel)%nat -> okr (snd (eof_loopF fuel m)).
Proof.
  induction n as [|n IH]; intros fuel m Hd Hf; [discriminate|]. destruct fuel as [|f]; [lia|].
  cbn [edepthx] in Hd. cbn [eof_loop]. fold (vst m).
  pose proof (exec_res true (t_eof tb (vst m)) 0 [] m) as Hres.
  pose proof (exec_eof_succ true (t_eof tb (vst m)) 0 [] m (Heof _)) as Hs.
  destruct (execF true (t_eof tb (vst m)) 0 [] m) as [m1 r]. cbn [fst snd] in *.
  rewrite forallb_forall in Hd.
  destruct r; try exact Hres; try rewrite Hx; (apply IH; [|lia]); apply Hd; apply Hs; try discriminate; intros k; discriminate.
Qed.

Lemma cr_eof_sz cr (m : M) :
  cv (snd (cr_eofF cr m)) = cv m /\ (qn (snd (cr_eofF cr m)) <= length (crW cr) + qn m)%nat.
Proof.
  assert (Hunc : forall (b : bool) W, (length W <= length (crW cr))%nat ->
     cv (if b then err (unconsumeF W m) else unconsumeF W m) = cv m /\
     (qn (if b then err (unconsumeF W m) else unconsumeF W m) <= length (crW cr) + qn m)%nat).
  { intros b W HW. destruct (unc_sz W m) as [A B]. destruct (errif_sz b (unconsumeF W m)) as [A' B'].
    rewrite A', B'. split; [exact B|lia]. }
  unfold cr_eof. unfold crW in *. destruct (cr_st cr) eqn:Est.
  - cbn [snd]. split; [reflexivity|lia].
  - cbn [snd]. apply (Hunc true [35]). cbn. lia.
  - destruct (negb (cr_seen cr)) eqn:Eseen.
    + apply negb_true_iff in Eseen. rewrite Eseen in *. unfold unconsume_numeric. cbn [snd]. apply (Hunc true). unfold hexl. lia.
    + destruct (err_sz m) as [A B]. destruct (fn_sz cr (err m)) as [F1 F2]. rewrite F1, F2. split; [exact B|lia].
  - destruct (err_sz m) as [A B]. destruct (fn_sz cr (err m)) as [F1 F2]. rewrite F1, F2. split; [exact B|lia].
  - destruct (finish_named_sz cr None m) as [F1 F2].
    destruct (finish_namedF cr None m) as [[|cr'|chars] m2]; cbn [fst snd] in *; [contradiction| |].
    + destruct F2 as (-> & _). split; [reflexivity|lia].
    + split; [exact F1|lia].
  - cbn [snd]. apply (Hunc false). lia.
Qed.

Theorem tok_end_terminates fuel (m : M) : TI m -> (run_bound (Tl m) <= fuel)%nat -> (D <= fuel)%nat ->
  okr (snd (tok_endF fuel m)).
Proof.
  intros HI Hf HD. unfold tok_end.
  set (m0 := m <| mq := [] |>).
  assert (E0 : cv m0 = cv m /\ qn m0 = 0%nat) by (subst m0; destruct m as [cf q o k]; split; reflexivity).
  destruct E0 as [E0 E0q].
  assert (H1 : forall r : M * bool, r = (match cref (mc m0) with
                 | None => (m0, false)
                 | Some cr => let '(chars, m') := cr_eofF cr (upd (fun x => x <| cref := None |>) m0) in
                              process_char_refF chars m' end) -> TI (fst r) /\ (Tl (fst r) <= Tl m)%nat).
  { intros r ->. destruct (vcr m) as [cr|] eqn:Ecr.
    - replace (cref (mc m0)) with (Some cr) by (subst m0; destruct m as [cf q o k]; symmetry; exact Ecr).
      pose proof HI as (HR & HT & HC).
      assert (He : eatS tb (vst m) = false) by (apply HC; rewrite Ecr; discriminate).
      assert (Hr : vrc m = false).
      { destruct (vrc m) eqn:E; [|reflexivity]. destruct (HR eq_refl) as [_ G0]. congruence. }
      set (m0' := upd (fun x => x <| cref := None |>) m0).
      assert (E : qn m0' = 0%nat /\ vst m0' = vst m /\ vrc m0' = vrc m /\ vtmp m0' = vtmp m /\ vcr m0' = None)
        by (subst m0' m0; destruct m as [cf q o k]; destruct cf; repeat split).
      destruct E as (E1 & E2 & E3 & E4 & E5).
      destruct (cr_eof_sz cr m0') as [F1 F2]. destruct (cv_inv _ _ F1) as (G1 & G2 & G3 & G4).
      destruct (cr_eofF cr m0') as [chars m1]. cbn [snd] in *.
      pose proof (pcr_quiet_x chars m1) as Q. destruct (quiet_sz _ _ Q) as [Q1 Q2].
      destruct (cv_inv _ _ Q2) as (Q3 & Q4 & Q5 & Q6).
      set (m2 := fst (process_char_refF chars m1)) in *.
      assert (Hc' : clean (vst m2) = true -> vtmp m2 = []).
      { rewrite Q3, Q5, G1, G3, E2, E4. intros X. apply HT; assumption. }
      assert (Hr2 : vrc m2 = false) by congruence. assert (Hcr2 : vcr m2 = None) by congruence.
      destruct (fin m2 Hr2 Hcr2 Hc') as (I1 & I2 & I3). split; [exact I1|]. rewrite I2.
      unfold Termination.Tl, wn. rewrite Ecr. lia.
    - replace (cref (mc m0)) with (@None crt) by (subst m0; destruct m as [cf q o k]; symmetry; exact Ecr).
      cbn [fst]. split; [eapply TI_same; eassumption|]. rewrite (Tl_same _ _ E0). lia. }
  specialize (H1 _ eq_refl).
  destruct (match cref (mc m0) with
            | None => (m0, false)
            | Some cr => let '(chars, m') := cr_eofF cr (upd (fun x => x <| cref := None |>) m0) in
                         process_char_refF chars m' end) as [m1 bad].
  cbn [fst] in H1. destruct H1 as [H1 H1'].
  destruct bad; [cbn [snd]; split; discriminate|].
  assert (Hf1 : (run_bound (Tl m1) <= fuel)%nat) by (pose proof (run_bound_mono _ _ H1'); lia).
  pose proof (run_terminates true fuel m1 H1 Hf1) as (R1 & R2 & R3 & R4).
  destruct (runF true fuel m1) as [m3 r]. cbn [fst snd] in *.
  destruct r; try (rewrite Hx; apply (eof_loop_term D); [apply Hdepth|exact HD]); try (cbn [snd]; split; assumption).
  destruct (fq_peek (mq m3)); [rewrite Hx|]; apply (eof_loop_term D); try apply Hdepth; exact HD.
Qed.

Lemma feed_term fuel (m : M) : TI m -> (run_bound (Tl m) <= fuel)%nat ->
  TI (fst (feedF fuel m)) /\ (Tl (fst (feedF fuel m)) <= Tl m)%nat /\ okr (snd (feedF fuel m)).
Proof.
  intros HI Hf. unfold feed. destruct (fq_peek (mq m)) as [c|] eqn:Hp; [|cbn [fst snd]; split; [exact HI|split; [lia|split; discriminate]]].
  match goal with |- context [runF false fuel ?X] => set (m1 := X) end.
  assert (E : cv m1 = cv m /\ (qn m1 <= qn m)%nat).
  { subst m1. destruct (discard_bom (mc m)); [|split; [reflexivity|lia]].
    destruct (c =? BOM); [|destruct m as [cf q o k]; destruct cf; split; [reflexivity|unfold qn; cbn; lia]].
    destruct m as [cf q o k]; destruct q as [|d q']; [discriminate Hp|]. destruct cf; split; [reflexivity|unfold qn; cbn; lia]. }
  destruct E as [E1 E2].
  assert (H1 : TI m1) by (eapply TI_same; eassumption).
  assert (H2 : (Tl m1 <= Tl m)%nat) by (rewrite (Tl_same _ _ E1); lia).
  assert (Hf1 : (run_bound (Tl m1) <= fuel)%nat) by (pose proof (run_bound_mono _ _ H2); lia).
  pose proof (run_terminates false fuel m1 H1 Hf1) as (R1 & R2 & R3 & R4).
  split; [exact R1|split; [lia|split; assumption]].
Qed.

Lemma feed_loop_term fuel inj : forall n (m : M) log, TI m -> (run_bound (Tl m + n * length inj) <= fuel)%nat -> oks log ->
  TI (fst (feed_loopF n fuel inj m log)) /\ (Tl (fst (feed_loopF n fuel inj m log)) <= Tl m + n * length inj)%nat /\
  oks (snd (feed_loopF n fuel inj m log)).
Proof.
  induction n as [|n IH]; intros m log HI Hf HL; cbn [feed_loop].
  - cbn [fst snd]. split; [exact HI|split; [lia|constructor; [split; discriminate|exact HL]]].
  - assert (Hf0 : (run_bound (Tl m) <= fuel)%nat).
    { pose proof (run_bound_mono (Tl m) (Tl m + Datatypes.S n * length inj) ltac:(lia)). lia. }
    destruct (feed_term fuel m HI Hf0) as (F1 & F2 & F3). destruct (feedF fuel m) as [m1 r]. cbn [fst snd] in *.
    destruct r; try (cbn [fst snd]; split; [exact F1|split; [lia|constructor; [exact F3|exact HL]]]).
    + set (m2 := m1 <| mq ::= app inj |>).
      assert (E : cv m2 = cv m1 /\ qn m2 = (length inj + qn m1)%nat)
        by (subst m2; destruct m1 as [cf q o k]; split; [reflexivity|unfold qn; cbn; rewrite app_length; lia]).
      destruct E as [E1 E2].
      assert (H1 : TI m2) by (eapply TI_same; eassumption).
      assert (H2 : Tl m2 = (Tl m1 + length inj)%nat) by (rewrite (Tl_same _ _ E1); lia).
      assert (Hf2 : (run_bound (Tl m2 + n * length inj) <= fuel)%nat).
      { pose proof (run_bound_mono (Tl m2 + n * length inj) (Tl m + Datatypes.S n * length inj) ltac:(lia)). lia. }
      destruct (IH m2 (SScript :: log) H1 Hf2) as (I1 & I2 & I3); [constructor; [split; discriminate|exact HL]|].
      split; [exact I1|split; [lia|exact I3]].
    + assert (Hf2 : (run_bound (Tl m1 + n * length inj) <= fuel)%nat).
      { pose proof (run_bound_mono (Tl m1 + n * length inj) (Tl m + Datatypes.S n * length inj) ltac:(lia)). lia. }
      destruct (IH m1 (SEncoding :: log) F1 Hf2) as (I1 & I2 & I3); [constructor; [split; discriminate|exact HL]|].
      split; [exact I1|split; [lia|exact I3]].
Qed.

Theorem drive_terminates fuel inj : forall chunks (m : M) log, TI m ->
  (run_bound (drive_total inj chunks m) <= fuel)%nat -> (D <= fuel)%nat -> oks log ->
  oks (snd (driveF fuel inj chunks m log)).
Proof.
  induction chunks as [|ch rest IH]; intros m log HI Hf HD HL; cbn [drive].
  - pose proof (tok_end_terminates fuel m HI) as H. unfold Termination.drive_total in Hf. cbn in Hf.
    assert (Hf0 : (run_bound (Tl m) <= fuel)%nat) by (pose proof (run_bound_mono (Tl m) (Tl m + 0 + 0) ltac:(lia)); lia).
    specialize (H Hf0 HD). destruct (tok_endF fuel m) as [m' r]. cbn [snd] in *. constructor; assumption.
  - set (m1 := m <| mq ::= (fun q => q ++ ch) |>).
    assert (E : cv m1 = cv m /\ qn m1 = (qn m + length ch)%nat)
      by (subst m1; destruct m as [cf q o k]; split; [reflexivity|unfold qn; cbn; rewrite app_length; lia]).
    destruct E as [E1 E2].
    assert (H1 : TI m1) by (eapply TI_same; eassumption).
    assert (H2 : Tl m1 = (Tl m + length ch)%nat) by (rewrite (Tl_same _ _ E1); lia).
    unfold Termination.drive_total in Hf. cbn [concat length] in Hf. rewrite app_length in Hf.
    assert (Hf1 : (run_bound (Tl m1 + 50 * length inj) <= fuel)%nat).
    { pose proof (run_bound_mono (Tl m1 + 50 * length inj)
                    (Tl m + (length ch + length (concat rest)) + Datatypes.S (length rest) * (50 * length inj)) ltac:(lia)). lia. }
    destruct (feed_loop_term fuel inj 50 m1 log H1 Hf1 HL) as (F1 & F2 & F3).
    destruct (feed_loopF 50 fuel inj m1 log) as [m2 log2]. cbn [fst snd] in *.
    apply IH; auto. unfold Termination.drive_total.
    pose proof (run_bound_mono (Tl m2 + length (concat rest) + length rest * (50 * length inj))
                  (Tl m + (length ch + length (concat rest)) + Datatypes.S (length rest) * (50 * length inj)) ltac:(lia)). lia.
Qed.

End TermX.
