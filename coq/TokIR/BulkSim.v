(* T2 for exact_errors = false: bulk reads against the character-at-a-time reference.

   The TokIR interpreter with exact_errors = false takes, in a state whose body is [BPop set simd krun kchar], a whole RUN of
   characters outside [set] at once (as many as the queue hands out: one on the flat queue with unit runs, up to the end
   of the first buffer on the chunked queue, with its own newline count in the SIMD branch of the html data state) and
   continues with the run arm, without going through get_preprocessed_char: no current_char update, no bad-character
   parse error.  With exact_errors = true it always reads one character and continues with the per-character arm.

   This file proves, for ANY queue implementation whose [Qrun] hands out a stop-free prefix that [Qnext] would hand out
   character by character, any table that passes the decidable conditions [step_ok] / [ok_body] below, either flavour
   (the SIMD scan, which counts line feeds, is admitted for the html flavour only):
   the two interpreters over the same queue are in a STUTTERING SIMULATION - one fast step that takes a run r is matched
   by |r| slow steps - under a relation that ignores [cur] unless [reconsume] is set, ignores TError tokens, and
   identifies the token lists up to merging of adjacent character tokens ([obs]).  The whole driver (feed with BOM
   handling, script pauses with injected text, encoding suspensions, end()) is covered; the fast run must end
   regularly (no fuel exhaustion), the slow run then ends the same way with any sufficiently large fuel.

   [obs] (on the newest-first token list): TError entries are dropped; a maximal group of adjacent TChars entries
   becomes ONE TChars entry with the concatenated text and the (line, consumed) annotation of its LAST character
   token; every other entry is kept with its annotation. *)
From Coq Require Import List NArith Bool Lia Arith.
From RecordUpdate Require Import RecordSet.
From HV Require Import TokIR.IR TokIR.Interp TokIR.Checks TokIR.QueueSim.
Import ListNotations RecordSetNotations.
Local Open Scope N_scope.

(* ------------------------------------------------------------------ the observation *)
Definition otok := (token * N * N)%type.
Definition ocons (x : otok) (o : list otok) : list otok :=
  match x with
  | (TError, _, _) => o
  | (TChars s, l, k) => match o with (TChars s', _, _) :: o' => (TChars (s' ++ s), l, k) :: o' | _ => x :: o end
  | _ => x :: o
  end.
Definition obs (l : list otok) : list otok := fold_right ocons [] l.

Arguments obs : simpl never.
Arguments ocons : simpl never.
Lemma obs_cons x l : obs (x :: l) = ocons x (obs l). Proof. reflexivity. Qed.
Lemma ocons_err l k o : ocons (TError, l, k) o = o. Proof. reflexivity. Qed.
Lemma ocons_chars_chars a b l1 k1 l2 k2 o :
  ocons (TChars b, l2, k2) (ocons (TChars a, l1, k1) o) = ocons (TChars (a ++ b), l2, k2) o.
Proof.
  unfold ocons. destruct o as [|[[t l0] k0] o']; [reflexivity|].
  destruct t; try reflexivity. rewrite app_assoc. reflexivity.
Qed.

Definition setcur {S} (x : N) (c : cfg S) : cfg S := c <| cur := x |>.
Definition ceq {S} (a b : cfg S) : Prop := setcur 0 a = setcur 0 b.

Lemma pair_inv {A B} (a a' : A) (b b' : B) : (a, b) = (a', b') -> a = a' /\ b = b'.
Proof. intros H. split; [exact (f_equal fst H)|exact (f_equal snd H)]. Qed.

Section Bulk.
Context {S Q : Type}.
Variable Qemp : Q.
Variable Qnext : Q -> option (N * Q).
Variable Qpeek : Q -> option N.
Variable Qpushf : list N -> Q -> Q.
Variable Qpushb : Q -> list N -> Q.
Variable Qflat : Q -> list N.
Variable Qrun : (N -> bool) -> Q -> list N * Q.

(* consuming the characters of r one by one with Qnext leads from q to q' *)
Fixpoint Qnexts (r : list N) (q q' : Q) : Prop :=
  match r with
  | [] => q = q'
  | c :: r' => exists q1, Qnext q = Some (c, q1) /\ Qnexts r' q1 q'
  end.
(* what the simulation needs of the bulk read: a non-empty run is a stop-free prefix of what Qnext delivers, and the run
   is non-empty when the first character is not a stop character *)
Hypothesis peek_next : forall q, Qpeek q = match Qnext q with Some (c, _) => Some c | None => None end.
Hypothesis run_ok : forall stop q r q', Qrun stop q = (r, q') ->
  forallb (fun c => negb (stop c)) r = true /\ (r <> [] -> Qnexts r q q') /\
  (r = [] -> forall c, Qpeek q = Some c -> stop c = true).

Variable fl : flavour S.
Variable tb : table S.
Variables guard stop nl : list N.
Notation simd := (guard, stop, nl).
Variable ent : list N -> option (N * N).
Variable c1 : N -> option N.
Variable sk : sinkcfg.
Variable seqb : S -> S -> bool.
Hypothesis seqb_eq : forall a b, seqb a b = true -> a = b.

Notation M := (mach S Q).

(* ------------------------------------------------------------------ the relation *)
Definition Rel (w t : bool) (mf ms : M) : Prop :=
  ceq (mc mf) (mc ms) /\ mq mf = mq ms /\ mcons mf = mcons ms /\ obs (mout mf) = obs (mout ms) /\
  (w = true -> (t || reconsume (mc mf)) = true -> cur (mc mf) = cur (mc ms)).

(* setters that neither look at nor change [cur] and do not raise [reconsume] *)
Definition cgood (g : cfg S -> cfg S) : Prop :=
  (forall a b, ceq a b -> ceq (g a) (g b)) /\ (forall a, cur (g a) = cur a) /\
  (forall a, reconsume (g a) = true -> reconsume a = true).

Ltac cg :=
  split; [|split];
  [ let a := fresh "a" in let b := fresh "b" in let H := fresh "H" in
    intros a b H; destruct a, b; unfold ceq, setcur in *; cbn in *; injection H; intros; subst; reflexivity
  | let a := fresh "a" in intros a; destruct a; reflexivity
  | let a := fresh "a" in let H := fresh "H" in intros a H; destruct a; cbn in *; first [exact H|discriminate H] ].

Lemma ceq_refl (a : cfg S) : ceq a a. Proof. reflexivity. Qed.
Lemma ceq_rc (a b : cfg S) : ceq a b -> reconsume a = reconsume b.
Proof. intros H. destruct a, b; unfold ceq, setcur in H; cbn in *; injection H; intros; subst; reflexivity. Qed.
Lemma ceq_line (a b : cfg S) : ceq a b -> line a = line b.
Proof. intros H. destruct a, b; unfold ceq, setcur in H; cbn in *; injection H; intros; subst; reflexivity. Qed.
Lemma ceq_full (a b : cfg S) : ceq a b -> cur a = cur b -> a = b.
Proof. intros H E. destruct a, b; unfold ceq, setcur in H; cbn in *; injection H; intros; subst; reflexivity. Qed.

Lemma Rel_refl w t (m : M) : Rel w t m m.
Proof. repeat split; reflexivity. Qed.
Lemma Rel_weak w t w' t' (mf ms : M) : (w' = true -> w = true) -> (t' = true -> t = true) -> Rel w t mf ms -> Rel w' t' mf ms.
Proof.
  intros Hw Ht (A & B & C & D & E). repeat split; auto. intros W T. apply E; [auto|].
  destruct t'; [rewrite (Ht eq_refl); reflexivity|cbn in T; rewrite T; apply orb_true_r].
Qed.

Lemma Rel_upd w t g (mf ms : M) : cgood g -> Rel w t mf ms -> Rel w t (upd g mf) (upd g ms).
Proof.
  intros (G1 & G2 & G3) (A & B & C & D & E). destruct mf as [cf qf of kf], ms as [cs qs os ks]. unfold Rel, upd. cbn in *.
  split; [apply G1; exact A|]. split; [exact B|]. split; [exact C|]. split; [exact D|].
  intros W T. rewrite !G2. apply E; [exact W|].
  destruct t; [reflexivity|]. cbn in *. apply G3. exact T.
Qed.
Lemma Rel_setcur w t x (mf ms : M) : Rel w t mf ms ->
  Rel w true (upd (fun c => c <| cur := x |>) mf) (upd (fun c => c <| cur := x |>) ms).
Proof.
  intros (A & B & C & D & E). destruct mf as [cf qf of kf], ms as [cs qs os ks]. unfold Rel, upd. cbn in *.
  split; [|split; [exact B|split; [exact C|split; [exact D|]]]].
  - destruct cf, cs; unfold ceq, setcur in *; cbn in *; injection A; intros; subst; reflexivity.
  - intros _ _. destruct cf, cs; reflexivity.
Qed.
Lemma Rel_rcfalse w t (mf ms : M) : Rel w t mf ms ->
  Rel w t (upd (fun c => c <| reconsume := false |>) mf) (upd (fun c => c <| reconsume := false |>) ms).
Proof. apply Rel_upd. cg. Qed.
Ltac relsplit A B C D E :=
  split; [try exact A|split; [try exact B|split; [try exact C|split; [try exact D|try exact E]]]].
Ltac relstart A B C D E mf ms :=
  intros (A & B & C & D & E); destruct mf as [cf qf of kf], ms as [cs qs os ks];
  unfold Rel, upd, emit, err, took, gave; cbn in *.
Lemma Rel_emit w t tok (mf ms : M) : Rel w t mf ms -> Rel w t (emit tok mf) (emit tok ms).
Proof.
  relstart A B C D E mf ms. relsplit A B C D E.
  rewrite !obs_cons, D, (ceq_line _ _ A), C. reflexivity.
Qed.
Lemma Rel_err w t (mf ms : M) : Rel w t mf ms -> Rel w t (err mf) (err ms).
Proof. apply Rel_emit. Qed.
Lemma Rel_err_r w t (mf ms : M) : Rel w t mf ms -> Rel w t mf (err ms).
Proof. relstart A B C D E mf ms. relsplit A B C D E. Qed.
Lemma Rel_err_l w t (mf ms : M) : Rel w t mf ms -> Rel w t (err mf) ms.
Proof. relstart A B C D E mf ms. relsplit A B C D E. Qed.
Lemma Rel_took w t n (mf ms : M) : Rel w t mf ms -> Rel w t (took n mf) (took n ms).
Proof. relstart A B C D E mf ms. relsplit A B C D E. rewrite C. reflexivity. Qed.
Lemma Rel_gave w t n (mf ms : M) : Rel w t mf ms -> Rel w t (gave n mf) (gave n ms).
Proof. relstart A B C D E mf ms. relsplit A B C D E. rewrite C. reflexivity. Qed.
Lemma Rel_setq w t q (mf ms : M) : Rel w t mf ms -> Rel w t (mf <| mq := q |>) (ms <| mq := q |>).
Proof. relstart A B C D E mf ms. relsplit A B C D E. reflexivity. Qed.
Lemma Rel_updq w t (h : Q -> Q) (mf ms : M) : Rel w t mf ms -> Rel w t (mf <| mq ::= h |>) (ms <| mq ::= h |>).
Proof. relstart A B C D E mf ms. relsplit A B C D E. rewrite B. reflexivity. Qed.
Lemma Rel_mq w t (mf ms : M) : Rel w t mf ms -> mq ms = mq mf.
Proof. intros (A & B & C & D & E). auto. Qed.
Lemma Rel_cur w t (mf ms : M) : Rel w t mf ms -> w = true -> (t || reconsume (mc mf)) = true -> cur (mc ms) = cur (mc mf).
Proof. intros (A & B & C & D & E) W T. symmetry. auto. Qed.

(* reading a field other than [cur] gives the same on both sides *)
Ltac fld := let H := fresh "H" in
  intros (H & _); destruct (mc _) , (mc _); unfold ceq, setcur in H; cbn in *; injection H; intros; subst; reflexivity.
Lemma rq_st w t (mf ms : M) : Rel w t mf ms -> st (mc ms) = st (mc mf). Proof. fld. Qed.
Lemma rq_rc w t (mf ms : M) : Rel w t mf ms -> reconsume (mc ms) = reconsume (mc mf). Proof. fld. Qed.
Lemma rq_il w t (mf ms : M) : Rel w t mf ms -> ignore_lf (mc ms) = ignore_lf (mc mf). Proof. fld. Qed.
Lemma rq_bom w t (mf ms : M) : Rel w t mf ms -> discard_bom (mc ms) = discard_bom (mc mf). Proof. fld. Qed.
Lemma rq_tmp w t (mf ms : M) : Rel w t mf ms -> temp_buf (mc ms) = temp_buf (mc mf). Proof. fld. Qed.
Lemma rq_tk w t (mf ms : M) : Rel w t mf ms -> tag_kind (mc ms) = tag_kind (mc mf). Proof. fld. Qed.
Lemma rq_tn w t (mf ms : M) : Rel w t mf ms -> tag_name (mc ms) = tag_name (mc mf). Proof. fld. Qed.
Lemma rq_ts w t (mf ms : M) : Rel w t mf ms -> tag_self (mc ms) = tag_self (mc mf). Proof. fld. Qed.
Lemma rq_td w t (mf ms : M) : Rel w t mf ms -> tag_dup (mc ms) = tag_dup (mc mf). Proof. fld. Qed.
Lemma rq_ta w t (mf ms : M) : Rel w t mf ms -> tag_attrs (mc ms) = tag_attrs (mc mf). Proof. fld. Qed.
Lemma rq_an w t (mf ms : M) : Rel w t mf ms -> attr_name (mc ms) = attr_name (mc mf). Proof. fld. Qed.
Lemma rq_av w t (mf ms : M) : Rel w t mf ms -> attr_value (mc ms) = attr_value (mc mf). Proof. fld. Qed.
Lemma rq_cm w t (mf ms : M) : Rel w t mf ms -> comment (mc ms) = comment (mc mf). Proof. fld. Qed.
Lemma rq_dn w t (mf ms : M) : Rel w t mf ms -> dt_name (mc ms) = dt_name (mc mf). Proof. fld. Qed.
Lemma rq_dp w t (mf ms : M) : Rel w t mf ms -> dt_pub (mc ms) = dt_pub (mc mf). Proof. fld. Qed.
Lemma rq_ds w t (mf ms : M) : Rel w t mf ms -> dt_sys (mc ms) = dt_sys (mc mf). Proof. fld. Qed.
Lemma rq_dq w t (mf ms : M) : Rel w t mf ms -> dt_quirks (mc ms) = dt_quirks (mc mf). Proof. fld. Qed.
Lemma rq_pt w t (mf ms : M) : Rel w t mf ms -> pi_target (mc ms) = pi_target (mc mf). Proof. fld. Qed.
Lemma rq_pd w t (mf ms : M) : Rel w t mf ms -> pi_data (mc ms) = pi_data (mc mf). Proof. fld. Qed.
Lemma rq_ls w t (mf ms : M) : Rel w t mf ms -> last_start (mc ms) = last_start (mc mf). Proof. fld. Qed.
Lemma rq_cref w t (mf ms : M) : Rel w t mf ms -> cref (mc ms) = cref (mc mf). Proof. fld. Qed.
Lemma rq_ln w t (mf ms : M) : Rel w t mf ms -> line (mc ms) = line (mc mf). Proof. fld. Qed.

Ltac sync H :=
  rewrite ?(rq_st _ _ _ _ H), ?(rq_rc _ _ _ _ H), ?(rq_il _ _ _ _ H), ?(rq_bom _ _ _ _ H), ?(rq_tmp _ _ _ _ H),
    ?(rq_tk _ _ _ _ H), ?(rq_tn _ _ _ _ H), ?(rq_ts _ _ _ _ H), ?(rq_td _ _ _ _ H), ?(rq_ta _ _ _ _ H),
    ?(rq_an _ _ _ _ H), ?(rq_av _ _ _ _ H), ?(rq_cm _ _ _ _ H), ?(rq_dn _ _ _ _ H), ?(rq_dp _ _ _ _ H),
    ?(rq_ds _ _ _ _ H), ?(rq_dq _ _ _ _ H), ?(rq_pt _ _ _ _ H), ?(rq_pd _ _ _ _ H), ?(rq_ls _ _ _ _ H),
    ?(rq_cref _ _ _ _ H), ?(rq_ln _ _ _ _ H), ?(Rel_mq _ _ _ _ H).

Lemma Rel_strong w t (mf ms : M) : Rel w t mf ms -> cur (mc mf) = cur (mc ms) -> Rel w true mf ms.
Proof. intros (A & B & C & D & E) F. relsplit A B C D E. intros _ _. exact F. Qed.
Lemma Rel_reconsume w t s (mf ms : M) : (w = true -> t = true) -> Rel w t mf ms ->
  Rel w false (upd (fun x => x <| reconsume := true |> <| st := s |>) mf) (upd (fun x => x <| reconsume := true |> <| st := s |>) ms).
Proof.
  intros Hw. relstart A B C D E mf ms. relsplit A B C D E.
  - destruct cf, cs; unfold ceq, setcur in *; cbn in *; injection A; intros; subst; reflexivity.
  - intros W _. specialize (E W). rewrite (Hw W) in E. specialize (E eq_refl). destruct cf, cs; exact E.
Qed.

(* ------------------------------------------------------------------ the two interpreters *)
Notation gpc_skipQ := (@gpc_skip S Q Qnext).
Notation gpc_postF := (@gpc_post S Q fl false).
Notation gpc_postS := (@gpc_post S Q fl true).
Notation gpcF := (@get_preprocessed_char S Q Qnext fl false).
Notation gpcS := (@get_preprocessed_char S Q Qnext fl true).
Notation get_charF := (@get_char S Q Qnext fl false).
Notation get_charS := (@get_char S Q Qnext fl true).
Notation peekQ := (@peek S Q Qpeek).
Notation discard_charF := (@discard_char S Q Qnext fl false).
Notation discard_charS := (@discard_char S Q Qnext fl true).
Notation discard_wsF := (@discard_ws S Q Qnext fl false).
Notation discard_wsS := (@discard_ws S Q Qnext fl true).
Notation unconsumeQ := (@unconsume S Q Qpushf).
Notation eat_bodyQ ae := (@eat_body S Q Qemp Qnext Qpeek Qpushf Qflat ae).
Notation eatF ae := (@eat S Q Qemp Qnext Qpeek Qpushf Qflat fl false ae).
Notation eatS ae := (@eat S Q Qemp Qnext Qpeek Qpushf Qflat fl true ae).
Notation finish_attributeQ := (@finish_attribute S Q fl).
Notation discard_tagQ := (@discard_tag S Q fl).
Notation emit_charQ := (@emit_char S Q fl).
Notation emit_current_tagQ := (@emit_current_tag S Q fl sk).
Notation do_cmdF := (@do_cmd S Q Qnext fl false).
Notation do_cmdS := (@do_cmd S Q Qnext fl true).
Notation do_termQ := (@do_term S Q fl sk).
Notation ceval_condQ := (@ceval_cond S Q sk).
Notation popF := (@pop_except_from S Q Qnext Qpeek Qrun fl false simd).
Notation popS := (@pop_except_from S Q Qnext Qpeek Qrun fl true simd).
Notation execF ae := (@exec S Q Qemp Qnext Qpeek Qpushf Qflat Qrun fl false simd sk ae).
Notation execS ae := (@exec S Q Qemp Qnext Qpeek Qpushf Qflat Qrun fl true simd sk ae).

Definition simP {A} (w t : bool) (rf rs : A * M) : Prop := fst rf = fst rs /\ Rel w t (snd rf) (snd rs).
Definition simG {A} (w t : bool) (rf rs : option A * M) : Prop :=
  fst rf = fst rs /\ Rel w t (snd rf) (snd rs) /\ (fst rf <> None -> Rel w true (snd rf) (snd rs)).
Definition simR (w : bool) (rf rs : M * sres) : Prop := snd rf = snd rs /\ Rel w false (fst rf) (fst rs).

Lemma gpc_skip_sim c w t (mf ms : M) : Rel w t mf ms -> simP w t (gpc_skipQ c mf) (gpc_skipQ c ms).
Proof.
  intros H. unfold gpc_skip. sync H. destruct (ignore_lf (mc mf)); [|split; [reflexivity|exact H]].
  destruct (c =? LF).
  - set (m1f := upd (fun x => x <| ignore_lf := false |>) mf). set (m1s := upd (fun x => x <| ignore_lf := false |>) ms).
    assert (H1 : Rel w t m1f m1s) by (apply Rel_upd; [cg|exact H]).
    rewrite (Rel_mq _ _ _ _ H1). destruct (Qnext (mq m1f)) as [[c' q']|]; (split; [reflexivity|]); cbn [snd].
    + apply Rel_took, Rel_setq. exact H1.
    + exact H1.
  - split; [reflexivity|]. apply Rel_upd; [cg|exact H].
Qed.

Lemma gpc_post_sim c w t (mf ms : M) : Rel w t mf ms -> simP w true (gpc_postF c mf) (gpc_postS c ms).
Proof.
  intros H. unfold gpc_post, gpc_decide. destruct (f_html fl); cbv beta iota zeta delta [negb andb].
  - destruct (c =? CR); destruct (_ =? LF); destruct (bad_char _); (split; [reflexivity|]); cbn [snd];
      apply (Rel_setcur w t); try apply Rel_err_r; repeat (apply Rel_upd; [cg|]); exact H.
  - destruct (c =? CR); destruct (bad_char _); (split; [reflexivity|]); cbn [snd];
      apply (Rel_setcur w t); try apply Rel_err_r; repeat (apply Rel_upd; [cg|]); exact H.
Qed.

Lemma gpc_sim c w t (mf ms : M) : Rel w t mf ms -> simG w t (gpcF c mf) (gpcS c ms).
Proof.
  intros H. unfold get_preprocessed_char.
  destruct (gpc_skip_sim c w t mf ms H) as (A & B).
  destruct (gpc_skipQ c mf) as [o m1]; destruct (gpc_skipQ c ms) as [o' m1']; cbn [fst snd] in *. subst o'.
  destruct o as [d|].
  - destruct (gpc_post_sim d w t m1 m1' B) as (A2 & B2).
    destruct (gpc_postF d m1) as [c2 m2]; destruct (gpc_postS d m1') as [c2' m2']; cbn [fst snd] in *. subst c2'.
    split; [reflexivity|]. split; [|intros _; exact B2]. eapply Rel_weak; [| |exact B2]; auto.
  - split; [reflexivity|]. split; [exact B|]. intros X. exfalso. apply X. reflexivity.
Qed.

Lemma get_char_sim t (mf ms : M) : Rel true t mf ms -> simG true t (get_charF mf) (get_charS ms).
Proof.
  intros H. unfold get_char. sync H. destruct (reconsume (mc mf)) eqn:Erc.
  - assert (Ec : cur (mc ms) = cur (mc mf)) by (apply (Rel_cur _ _ _ _ H eq_refl); rewrite Erc; apply orb_true_r).
    split; [cbn [fst]; rewrite Ec; reflexivity|]. split; [apply Rel_rcfalse; exact H|].
    intros _. apply Rel_rcfalse. apply Rel_strong with t; [exact H|symmetry; exact Ec].
  - destruct (Qnext (mq mf)) as [[c q']|].
    + apply gpc_sim. apply Rel_took, Rel_setq. exact H.
    + split; [reflexivity|]. split; [exact H|]. intros X. exfalso. apply X. reflexivity.
Qed.

Lemma peek_sim t (mf ms : M) : Rel true t mf ms -> peekQ ms = peekQ mf.
Proof.
  intros H. unfold peek. sync H. destruct (reconsume (mc mf)) eqn:Erc; [|reflexivity].
  f_equal. apply (Rel_cur _ _ _ _ H eq_refl). rewrite Erc. apply orb_true_r.
Qed.

Lemma get_char_snd_sim w t (mf ms : M) : Rel w t mf ms -> Rel w t (snd (get_charF mf)) (snd (get_charS ms)).
Proof.
  intros H. unfold get_char. sync H. destruct (reconsume (mc mf)); [apply Rel_rcfalse; exact H|].
  destruct (Qnext (mq mf)) as [[c q']|]; [|exact H].
  apply (gpc_sim c w t). apply Rel_took, Rel_setq. exact H.
Qed.

Lemma discard_char_sim w t (mf ms : M) : Rel w t mf ms -> Rel w t (discard_charF mf) (discard_charS ms).
Proof.
  intros H. unfold discard_char. destruct (f_html fl); [|apply get_char_snd_sim; exact H].
  sync H. destruct (reconsume (mc mf)); [apply Rel_rcfalse; exact H|].
  destruct (Qnext (mq mf)) as [[c q']|]; (apply Rel_upd; [cg|]); [apply Rel_took, Rel_setq|]; exact H.
Qed.

Lemma discard_ws_sim c w t (mf ms : M) : Rel w t mf ms -> Rel w t (discard_wsF c mf) (discard_wsS c ms).
Proof.
  intros H. unfold discard_ws. sync H. pose proof (discard_char_sim w t mf ms H) as G.
  destruct ((c =? CR) || ((c =? LF) && negb (ignore_lf (mc mf)))); repeat (apply Rel_upd; [cg|]); exact G.
Qed.

Lemma unconsume_sim b w t (mf ms : M) : Rel w t mf ms -> Rel w t (unconsumeQ b mf) (unconsumeQ b ms).
Proof. intros H. unfold unconsume. apply Rel_gave, Rel_updq. exact H. Qed.

Lemma eat_body_sim at_eof p e w t (mf ms : M) : Rel w t mf ms -> simP w t (eat_bodyQ at_eof p e mf) (eat_bodyQ at_eof p e ms).
Proof.
  intros H. unfold eat_body. sync H.
  set (m2f := upd (fun x => x <| temp_buf := [] |>) (unconsumeQ (temp_buf (mc mf)) mf)).
  set (m2s := upd (fun x => x <| temp_buf := [] |>) (unconsumeQ (temp_buf (mc mf)) ms)).
  assert (H2 : Rel w t m2f m2s) by (apply Rel_upd; [cg|apply unconsume_sim; exact H]).
  rewrite (Rel_mq _ _ _ _ H2). destruct (Qeat Qpeek Qflat (negb e) p (mq m2f)).
  - destruct at_eof; (split; [reflexivity|]); cbn [snd]; [exact H2|].
    apply Rel_took, Rel_upd; [cg|]. apply Rel_setq. exact H2.
  - split; [reflexivity|exact H2].
  - split; [reflexivity|]. cbn [snd]. apply Rel_took, Rel_setq. exact H2.
Qed.

Lemma eat_sim at_eof p e t (mf ms : M) : Rel true t mf ms -> simP true t (eatF at_eof p e mf) (eatS at_eof p e ms).
Proof.
  intros H. unfold eat. sync H. destruct (ignore_lf (mc mf)); [|apply eat_body_sim; exact H].
  rewrite (peek_sim t mf ms H). destruct (peekQ mf) as [c|].
  - apply eat_body_sim. apply Rel_upd; [cg|]. destruct (c =? LF); [|exact H].
    destruct (f_html fl); [apply discard_char_sim; exact H|].
    destruct (Qnext (mq mf)) as [[d q']|]; [apply Rel_took, Rel_setq|]; exact H.
  - destruct at_eof; [|split; [reflexivity|exact H]]. apply eat_body_sim. apply Rel_upd; [cg|exact H].
Qed.

Lemma finish_attribute_sim w t (mf ms : M) : Rel w t mf ms -> Rel w t (finish_attributeQ mf) (finish_attributeQ ms).
Proof.
  intros H. unfold finish_attribute. cbv zeta. sync H. destruct (attr_name (mc mf)); [exact H|].
  destruct (f_html fl).
  - destruct (existsb _ _); [apply Rel_upd; [cg|apply Rel_err; exact H]|apply Rel_upd; [cg|exact H]].
  - destruct (existsb _ _); [apply Rel_upd; [cg|apply Rel_err; exact H]|].
    destruct (qname_split _) as [p l]. apply Rel_upd; [cg|exact H].
Qed.
Lemma discard_tag_sim w t (mf ms : M) : Rel w t mf ms -> Rel w t (discard_tagQ mf) (discard_tagQ ms).
Proof. intros H. unfold discard_tag. destruct (f_html fl); (apply Rel_upd; [cg|exact H]). Qed.
Lemma emit_char_sim c w t (mf ms : M) : Rel w t mf ms -> Rel w t (emit_charQ c mf) (emit_charQ c ms).
Proof. intros H. unfold emit_char. destruct (f_html fl); [destruct (c =? 0)|]; apply Rel_emit; exact H. Qed.

Lemma do_cmd_sim k c run w t (mf ms : M) : Rel w t mf ms -> Rel w t (do_cmdF k c run mf) (do_cmdS k c run ms).
Proof.
  intros H.
  destruct k; cbn [do_cmd]; cbv zeta; sync H;
    try match goal with |- context [match ?x with KPublic => _ | _ => _ end] => destruct x end;
    match goal with
    | |- Rel _ _ (upd _ (discard_tagQ _)) _ => apply Rel_upd; [cg|apply discard_tag_sim; exact H]
    | |- Rel _ _ (upd _ (finish_attributeQ _)) _ => apply Rel_upd; [cg|apply finish_attribute_sim; exact H]
    | |- Rel _ _ (upd _ (emit _ _)) _ => apply Rel_upd; [cg|apply Rel_emit; exact H]
    | |- Rel _ _ (upd _ _) _ => apply Rel_upd; [cg|exact H]
    | |- Rel _ _ (discard_tagQ _) _ => apply discard_tag_sim; exact H
    | |- Rel _ _ (discard_charF _) _ => apply discard_char_sim; exact H
    | |- Rel _ _ (discard_wsF _ _) _ => apply discard_ws_sim; exact H
    | |- Rel _ _ (emit_charQ _ _) _ => apply emit_char_sim; exact H
    | |- Rel _ _ (err _) _ => apply Rel_err; exact H
    | |- Rel _ _ (emit _ _) _ => apply Rel_emit; exact H
    end.
Qed.

(* emit_current_tag (html), cut into pieces that take the tag fields they read as parameters *)
Definition ect_b (tk : tagkind) (ta : list (str * str)) (tself : bool) (name : str) (m : M) : M :=
  match tk with
  | TStartTag => upd (fun x => x <| last_start := Some name |>) m
  | _ => let m := if match ta with [] => false | _ => true end then err m else m in
         if tself then err m else m
  end.
Definition ect_d (tk : tagkind) (name : str) (m : M) : M * sres :=
  match tk, lookup_resp name (sk_resp sk) with
  | TStartTag, Some RespPlaintext => (upd (fun x => x <| st := f_plaintext fl |>) m, SContinue)
  | TEndTag, Some RespScript => (upd (fun x => x <| st := f_data fl |>) m, SScript)
  | TStartTag, Some (RespRawData k) => (upd (fun x => x <| st := f_rawdata fl k |>) m, SContinue)
  | TStartTag, Some RespEncoding => (m, SEncoding)
  | _, _ => (m, SContinue)
  end.
Definition ect_tail (m1 : M) : M * sres :=
  let c := mc m1 in
  ect_d (tag_kind c) (tag_name c)
    (upd (fun x => x <| tag_attrs := [] |>)
      (emit (TTag (tag_kind c) (tag_name c) (tag_self c) (tag_attrs c) (tag_dup c))
        (ect_b (tag_kind c) (tag_attrs c) (tag_self c) (tag_name c) (upd (fun x => x <| tag_name := [] |>) m1)))).
Lemma ect_eq (m : M) : f_html fl = true -> emit_current_tagQ m = ect_tail (finish_attributeQ m).
Proof. intros Hh. unfold emit_current_tag. rewrite Hh. reflexivity. Qed.
(* ... and the xml branch *)
Definition ect_bx (tk : tagkind) (ta : list (str * str)) (m : M) : M :=
  match tk with
  | TEndTag | TShortTag => if match ta with [] => false | _ => true end then err m else m
  | _ => m
  end.
Definition ect_dx (tk : tagkind) (name : str) (m : M) : M * sres :=
  match tk, lookup_resp name (sk_resp sk) with
  | TEndTag, Some RespScript => (m, SScript)
  | _, _ => (m, SContinue)
  end.
Definition ect_tail_x (m1 : M) : M * sres :=
  let c := mc m1 in
  ect_dx (tag_kind c) (tag_name c)
    (upd (fun x => x <| tag_attrs := [] |>)
      (emit (TTag (tag_kind c) (tag_name c) false (tag_attrs c) false)
        (ect_bx (tag_kind c) (tag_attrs c) (upd (fun x => x <| tag_name := [] |>) m1)))).
Lemma ect_eq_x (m : M) : f_html fl = false -> emit_current_tagQ m = ect_tail_x (finish_attributeQ m).
Proof. intros Hh. unfold emit_current_tag. rewrite Hh. reflexivity. Qed.
Lemma ect_bx_sim tk ta w t (mf ms : M) : Rel w t mf ms -> Rel w t (ect_bx tk ta mf) (ect_bx tk ta ms).
Proof. intros H. unfold ect_bx. destruct tk; try exact H; (destruct ta; [|apply Rel_err]; exact H). Qed.
Lemma ect_dx_sim tk name w t (mf ms : M) : Rel w t mf ms ->
  snd (ect_dx tk name mf) = snd (ect_dx tk name ms) /\ Rel w t (fst (ect_dx tk name mf)) (fst (ect_dx tk name ms)).
Proof.
  intros H. unfold ect_dx. destruct tk; destruct (lookup_resp name (sk_resp sk)) as [[]|]; cbn [fst snd];
    (split; [reflexivity|exact H]).
Qed.
Lemma ect_b_sim tk ta tself name w t (mf ms : M) : Rel w t mf ms -> Rel w t (ect_b tk ta tself name mf) (ect_b tk ta tself name ms).
Proof.
  intros H. unfold ect_b. destruct tk; [apply Rel_upd; [cg|exact H]| | |];
    (destruct tself; [apply Rel_err|]; (destruct ta; [|apply Rel_err]; exact H)).
Qed.
Lemma ect_d_sim tk name w t (mf ms : M) : Rel w t mf ms ->
  snd (ect_d tk name mf) = snd (ect_d tk name ms) /\ Rel w t (fst (ect_d tk name mf)) (fst (ect_d tk name ms)).
Proof.
  intros H. unfold ect_d. destruct tk; destruct (lookup_resp name (sk_resp sk)) as [[]|]; cbn [fst snd];
    (split; [reflexivity|]); first [exact H|apply Rel_upd; [cg|exact H]].
Qed.
Lemma emit_current_tag_sim w t (mf ms : M) : Rel w t mf ms ->
  snd (emit_current_tagQ mf) = snd (emit_current_tagQ ms) /\ Rel w t (fst (emit_current_tagQ mf)) (fst (emit_current_tagQ ms)).
Proof.
  intros H. pose proof (finish_attribute_sim w t mf ms H) as H1. destruct (f_html fl) eqn:Hh.
  - rewrite !(ect_eq _ Hh).
    set (m1f := finish_attributeQ mf) in *. set (m1s := finish_attributeQ ms) in *.
    unfold ect_tail. cbv zeta. sync H1.
    apply ect_d_sim. apply Rel_upd; [cg|]. apply Rel_emit. apply ect_b_sim. apply Rel_upd; [cg|exact H1].
  - rewrite !(ect_eq_x _ Hh).
    set (m1f := finish_attributeQ mf) in *. set (m1s := finish_attributeQ ms) in *.
    unfold ect_tail_x. cbv zeta. sync H1.
    apply ect_dx_sim. apply Rel_upd; [cg|]. apply Rel_emit. apply ect_bx_sim. apply Rel_upd; [cg|exact H1].
Qed.

Lemma do_term_sim tm w t (mf ms : M) :
  (match tm with Reconsume _ => negb w || t | _ => true end) = true ->
  Rel w t mf ms -> simR w (do_termQ tm mf) (do_termQ tm ms).
Proof.
  intros Hr H.
  assert (W0 : forall (a b : M), Rel w t a b -> Rel w false a b).
  { intros a b X. eapply Rel_weak; [| |exact X]; [auto|discriminate]. }
  destruct tm; cbn [do_term]; cbv zeta; sync H.
  - split; [reflexivity|apply W0; exact H].
  - split; [reflexivity|apply W0; exact H].
  - split; [reflexivity|]. apply W0. apply Rel_upd; [cg|exact H].
  - split; [reflexivity|]. cbn [fst]. apply (Rel_reconsume w t); [|exact H].
    intros W. rewrite W in Hr. exact Hr.
  - split; [reflexivity|]. apply W0. apply Rel_upd; [cg|exact H].
  - destruct (emit_current_tag_sim w t (upd (fun x => x <| st := s |>) mf) (upd (fun x => x <| st := s |>) ms)) as [A B];
      [apply Rel_upd; [cg|exact H]|]. split; [exact A|apply W0; exact B].
  - destruct k;
      match goal with |- simR _ (emit_current_tagQ (upd ?g _)) _ =>
        destruct (emit_current_tag_sim w t (upd g mf) (upd g ms)) as [A B]; [apply Rel_upd; [cg|exact H]|];
        (split; [exact A|apply W0; exact B]) end.
  - split; [reflexivity|]. apply W0. apply Rel_upd; [cg|apply Rel_emit; exact H].
  - split; [reflexivity|]. apply W0. apply Rel_emit; exact H.
Qed.

Lemma ceval_cond_sim k c w t (mf ms : M) : Rel w t mf ms -> ceval_condQ k c ms = ceval_condQ k c mf.
Proof. intros H. destruct k; cbn [ceval_cond]; sync H; reflexivity. Qed.

(* ------------------------------------------------------------------ bodies that are simulated in lock step *)
(* [w]: does the body run while [cur] matters (step bodies: yes; EOF bodies: no, they must not read);
   [g]: has a character been read by get_char / pop_except_from in this body already (then [cur] is fresh) *)
Fixpoint ok_body (w g : bool) (b : body S) : bool :=
  match b with
  | BRead RGet k => w && ok_body w true k
  | BRead RPeek k => w && ok_body w g k
  | BPop _ _ _ _ => false
  | BEat _ _ y n => w && ok_body w g y && ok_body w g n
  | BIf _ y n => ok_body w g y && ok_body w g n
  | BCmd _ k => ok_body w g k
  | BEnd (Reconsume _) => negb w || g
  | BEnd _ => true
  end.

Lemma exec_sim at_eof b : forall w g t c run (mf ms : M),
  ok_body w g b = true -> (g = true -> t = true) -> Rel w t mf ms ->
  simR w (execF at_eof b c run mf) (execS at_eof b c run ms).
Proof.
  induction b as [rk k IH|set sm krun IHr kchar IHc|p e y IHy n IHn|k y IHy n IHn|k r IH|tm];
    intros w g t c run mf ms Hok Hg H; cbn [exec]; cbn [ok_body] in Hok.
  - destruct rk; apply andb_prop in Hok; destruct Hok as [Hw Hok]; subst w.
    + destruct (get_char_sim t mf ms H) as (A & B & C).
      destruct (get_charF mf) as [o m1]; destruct (get_charS ms) as [o' m1']; cbn [fst snd] in *. subst o'.
      destruct o as [c'|].
      * apply (IH true true true); [exact Hok|reflexivity|]. apply C. discriminate.
      * split; [reflexivity|]. cbn [fst]. eapply Rel_weak; [| |exact B]; [auto|discriminate].
    + rewrite (peek_sim t mf ms H). destruct (peekQ mf) as [c'|].
      * apply (IH true g t); assumption.
      * split; [reflexivity|]. cbn [fst]. eapply Rel_weak; [| |exact H]; [auto|discriminate].
  - discriminate.
  - apply andb_prop in Hok; destruct Hok as [Hok Hn]. apply andb_prop in Hok; destruct Hok as [Hw Hy]. subst w.
    destruct (eat_sim at_eof p e t mf ms H) as (A & B).
    destruct (eatF at_eof p e mf) as [o m1]; destruct (eatS at_eof p e ms) as [o' m1']; cbn [fst snd] in *. subst o'.
    destruct o as [[|]|].
    + apply (IHy true g t); assumption.
    + apply (IHn true g t); assumption.
    + split; [reflexivity|]. cbn [fst]. eapply Rel_weak; [| |exact B]; [auto|discriminate].
  - apply andb_prop in Hok; destruct Hok as [Hy Hn].
    rewrite (ceval_cond_sim k c w t mf ms H). destruct (ceval_condQ k c mf); [apply (IHy w g t)|apply (IHn w g t)]; assumption.
  - apply (IH w g t); [exact Hok|exact Hg|]. apply do_cmd_sim. exact H.
  - apply (do_term_sim tm w t); [|exact H]. destruct tm; try reflexivity.
    destruct w; [|reflexivity]. cbn in Hok |- *. apply Hg. exact Hok.
Qed.

(* ------------------------------------------------------------------ the character-reference sub-tokenizer *)
Notation finish_numericQ := (@finish_numeric S Q c1).
Notation unconsume_numericQ := (@unconsume_numeric S Q Qpushf).
Notation finish_namedQ := (@finish_named S Q Qpushf fl).
Notation discard_rawF := (@discard_raw S Q Qnext fl false).
Notation discard_rawS := (@discard_raw S Q Qnext fl true).
Notation cr_readF := (@cr_read S Q Qnext Qpeek fl false).
Notation cr_readS := (@cr_read S Q Qnext Qpeek fl true).
Notation cr_stepF := (@cr_step S Q Qnext Qpeek Qpushf fl false ent c1).
Notation cr_stepS := (@cr_step S Q Qnext Qpeek Qpushf fl true ent c1).
Notation process_char_refQ := (@process_char_ref S Q fl).
Notation cr_eofQ := (@cr_eof S Q Qpushf fl c1).

Lemma simP_intro {A} w t (a : A) (mf ms : M) : Rel w t mf ms -> simP w t (a, mf) (a, ms).
Proof. intros H. split; [reflexivity|exact H]. Qed.

Lemma finish_numeric_sim cr w t (mf ms : M) : Rel w t mf ms -> simP w t (finish_numericQ cr mf) (finish_numericQ cr ms).
Proof.
  intros H. unfold finish_numeric.
  repeat match goal with |- context [if ?b then _ else _] => destruct b end;
    (apply simP_intro; try apply Rel_err; exact H).
Qed.
Lemma unconsume_numeric_sim cr w t (mf ms : M) : Rel w t mf ms -> simP w t (unconsume_numericQ cr mf) (unconsume_numericQ cr ms).
Proof. intros H. unfold unconsume_numeric. apply simP_intro. apply Rel_err, unconsume_sim. exact H. Qed.
Lemma finish_named_sim cr e w t (mf ms : M) : Rel w t mf ms -> simP w t (finish_namedQ cr e mf) (finish_namedQ cr e ms).
Proof.
  intros H. unfold finish_named. destruct (cr_match cr) as [[a b]|].
  - cbv zeta.
    match goal with |- simP _ _ (let '(unc, e) := ?X in _) _ => destruct X as [unc e0] end.
    destruct unc.
    + apply simP_intro. destruct e0; [apply Rel_err|]; apply unconsume_sim; exact H.
    + apply simP_intro. destruct (f_html fl); [apply Rel_upd; [cg|]|]; (destruct e0; [apply Rel_err|]; apply unconsume_sim; exact H).
  - destruct e as [c|].
    + destruct (is_alnum c); [apply simP_intro; exact H|].
      apply simP_intro. destruct ((c =? 59) && _); [apply Rel_err|]; apply unconsume_sim; exact H.
    + apply simP_intro. apply unconsume_sim; exact H.
Qed.
Lemma discard_raw_sim w t (mf ms : M) : Rel w t mf ms -> Rel w t (discard_rawF mf) (discard_rawS ms).
Proof.
  intros H. unfold discard_raw. destruct (f_html fl); [apply discard_char_sim; exact H|].
  sync H. destruct (reconsume (mc mf)); [apply Rel_rcfalse; exact H|].
  destruct (Qnext (mq mf)) as [[c q']|]; [apply Rel_took, Rel_setq|]; exact H.
Qed.
Lemma cr_read_sim t (mf ms : M) : Rel true t mf ms -> simP true t (cr_readF mf) (cr_readS ms).
Proof.
  intros H. unfold cr_read. rewrite (peek_sim t mf ms H). destruct (peekQ mf) as [c|]; apply simP_intro; [|exact H].
  apply discard_raw_sim; exact H.
Qed.

Lemma cr_step_sim cr t (mf ms : M) : Rel true t mf ms -> simP true t (cr_stepF cr mf) (cr_stepS cr ms).
Proof.
  intros H. unfold cr_step. destruct (cr_st cr).
  - rewrite (peek_sim t mf ms H). destruct (peekQ mf) as [c|]; [|apply simP_intro; exact H].
    repeat match goal with |- context [if ?b then _ else _] => destruct b end;
      (apply simP_intro; first [exact H|apply discard_char_sim; exact H]).
  - rewrite (peek_sim t mf ms H). destruct (peekQ mf) as [c|]; [|apply simP_intro; exact H].
    destruct ((c =? 120) || (c =? 88)); apply simP_intro; [apply discard_char_sim|]; exact H.
  - rewrite (peek_sim t mf ms H). destruct (peekQ mf) as [c|]; [|apply simP_intro; exact H].
    destruct (to_digit _ c).
    + apply simP_intro. apply discard_char_sim; exact H.
    + destruct (negb (cr_seen cr)); [apply unconsume_numeric_sim; exact H|apply simP_intro; exact H].
  - rewrite (peek_sim t mf ms H). destruct (peekQ mf) as [c|]; [|apply simP_intro; exact H].
    assert (G : Rel true t (if c =? 59 then discard_charF mf else err mf) (if c =? 59 then discard_charS ms else err ms)).
    { destruct (c =? 59); [apply discard_char_sim|apply Rel_err]; exact H. }
    destruct (finish_numeric_sim cr true t _ _ G) as (A & B).
    destruct (finish_numericQ cr (if c =? 59 then discard_charF mf else err mf)) as [ch m2];
      destruct (finish_numericQ cr (if c =? 59 then discard_charS ms else err ms)) as [ch' m2'];
      cbn [fst snd] in *. subst ch'. apply simP_intro; exact B.
  - destruct (cr_read_sim t mf ms H) as (A & B).
    destruct (cr_readF mf) as [o m1]; destruct (cr_readS ms) as [o' m1']; cbn [fst snd] in *. subst o'.
    destruct o as [c|]; [|apply simP_intro; exact B].
    destruct (ent _) as [[a b]|]; [apply simP_intro; exact B|].
    apply finish_named_sim. exact B.
  - destruct (cr_read_sim t mf ms H) as (A & B).
    destruct (cr_readF mf) as [o m1]; destruct (cr_readS ms) as [o' m1']; cbn [fst snd] in *. subst o'.
    destruct o as [c|]; [|apply simP_intro; exact B].
    destruct (is_alnum c); [apply simP_intro; exact B|].
    apply simP_intro. destruct (c =? 59); [apply Rel_err|]; apply unconsume_sim; exact B.
Qed.

Lemma process_char_ref_sim chars w t (mf ms : M) : Rel w t mf ms ->
  snd (process_char_refQ chars mf) = snd (process_char_refQ chars ms) /\
  Rel w t (fst (process_char_refQ chars mf)) (fst (process_char_refQ chars ms)).
Proof.
  intros H. unfold process_char_ref.
  set (cs := match chars with [] => [38] | _ => chars end). clearbody cs.
  revert mf ms H. generalize false as bad.
  induction cs as [|c cs IH]; intros bad mf ms H; cbn [fold_left fst snd]; [split; [reflexivity|exact H]|].
  sync H.
  destruct (f_charref_emit fl (st (mc mf))) as [[|]|].
  - apply IH. apply Rel_upd; [cg|exact H].
  - apply IH. apply emit_char_sim; exact H.
  - apply IH. exact H.
Qed.

Lemma cr_eof_sim cr w t (mf ms : M) : Rel w t mf ms -> simP w t (cr_eofQ cr mf) (cr_eofQ cr ms).
Proof.
  intros H. unfold cr_eof. destruct (cr_st cr).
  - apply simP_intro; exact H.
  - apply simP_intro. apply Rel_err, unconsume_sim; exact H.
  - destruct (negb (cr_seen cr)).
    + destruct (unconsume_numeric_sim cr w t mf ms H) as (A & B).
      destruct (unconsume_numericQ cr mf) as [x m1]; destruct (unconsume_numericQ cr ms) as [x' m1']; cbn [fst snd] in *.
      apply simP_intro; exact B.
    + apply finish_numeric_sim. apply Rel_err; exact H.
  - apply finish_numeric_sim. apply Rel_err; exact H.
  - destruct (finish_named_sim cr None w t mf ms H) as (A & B).
    destruct (finish_namedQ cr None mf) as [x m1]; destruct (finish_namedQ cr None ms) as [x' m1']; cbn [fst snd] in *.
    subst x'. destruct x; apply simP_intro; exact B.
  - apply simP_intro. apply unconsume_sim; exact H.
Qed.

(* ------------------------------------------------------------------ bulk reads: static conditions *)
(* a bulk state: CR and NUL - and, in the html flavour, where get_preprocessed_char counts lines, LF - stop the run; the
   per-character arm treats every character outside the set like the run arm specialised to one character (up to Error
   commands); the per-character arm is a lock-step body; a state that uses the SIMD scan (which counts line feeds: html
   flavour only) satisfies the same for the scan's stop set, which must be inside the first-character guard, contain
   CR and NUL, and the only newline it counts is LF *)
Definition pop_ok (set : list N) (sm : bool) (krun kchar : body S) : bool :=
  memb 13 set && (negb (f_html fl) || memb 10 set) && memb 0 set && ok_body true true kchar &&
  match per_char krun with
  | Some d => chain_ok seqb set d kchar &&
              (negb sm || (f_html fl && subset stop guard && list_eqb N.eqb nl [10] && memb 13 stop && memb 0 stop &&
                           chain_ok seqb stop d kchar))
  | None => false
  end.
Definition step_ok (b : body S) : bool :=
  match b with BPop set sm krun kchar => pop_ok set sm krun kchar | _ => ok_body true false b end.

Lemma per_char_inv (krun d : body S) : per_char krun = Some d ->
  (krun = BCmd EmitRun (BEnd Stay) /\ d = BCmd (Emit CCur) (BEnd Stay)) \/
  (krun = BCmd AppendValueRun (BEnd Stay) /\ d = BCmd (PushValue CCur) (BEnd Stay)).
Proof.
  intros H. destruct krun as [| | | |k r|]; try discriminate H.
  destruct r as [| | | | |tm]; try (destruct k; discriminate H).
  destruct tm; try (destruct k; discriminate H).
  destruct k; try discriminate H; cbn in H; injection H as <-; auto.
Qed.

Lemma Rel_trans_l w t (a b c : M) : Rel true true a b -> Rel w t b c -> Rel w t a c.
Proof.
  intros (A & B & C & D & E) (A' & B' & C' & D' & E').
  assert (X : mc a = mc b) by (apply ceq_full; [exact A|apply E; reflexivity]).
  unfold Rel. rewrite X, B, C, D. relsplit A' B' C' D' E'.
Qed.
Lemma Rel_trans_r w t (a b c : M) : Rel w t a b -> Rel true true c b -> Rel w t a c.
Proof.
  intros (A' & B' & C' & D' & E') (A & B & C & D & E).
  assert (X : mc c = mc b) by (apply ceq_full; [exact A|apply E; reflexivity]).
  unfold Rel. rewrite X, B, C, D. relsplit A' B' C' D' E'.
Qed.
Lemma Rel_mc_eq (a b : M) : Rel true true a b -> mc a = mc b.
Proof. intros (A & B & C & D & E). apply ceq_full; [exact A|apply E; reflexivity]. Qed.

(* an If-chain on character literals selects its arm *)
Lemma exec_resolve ae (b : body S) : forall c run (m : M), execS ae b c run m = execS ae (resolve c b) c run m.
Proof.
  induction b as [rk k IH|set sm krun IHr kchar IHc|p e y IHy n IHn|k y IHy n IHn|k r IH|tm]; intros c run m; try reflexivity.
  destruct k; try reflexivity. cbn [exec resolve ceval_cond]. destruct (memb c cs); [reflexivity|apply IHn].
Qed.

(* a body that is [X; Stay] up to Error commands does X and emits only parse errors besides *)
Lemma exec_strip_end ae (b : body S) : strip_err b = BEnd Stay -> forall c run w t (m1 m2 : M),
  Rel w t m1 m2 -> snd (execS ae b c run m1) = SContinue /\ Rel w t (fst (execS ae b c run m1)) m2.
Proof.
  induction b as [rk k IH|set sm krun IHr kchar IHc|p e y IHy n IHn|k y IHy n IHn|k r IH|tm]; intros Hs c run w t m1 m2 H;
    cbn [strip_err] in Hs; try discriminate Hs.
  - destruct (is_err k) eqn:Ek; [|discriminate Hs]. cbn [exec].
    apply IH; [exact Hs|]. destruct k; try discriminate Ek; cbn [do_cmd]; apply Rel_err_l; exact H.
  - injection Hs as ->. cbn [exec do_term fst snd]. split; [reflexivity|exact H].
Qed.
Definition doC (xk : bool) (c : N) (m : M) : M :=
  if xk then emit (TChars [c]) m else upd (fun x => x <| attr_value ::= (fun s => s ++ [c]) |>) m.
Definition doR (xk : bool) (r : list N) (m : M) : M :=
  if xk then emit (TChars r) m else upd (fun x => x <| attr_value ::= (fun s => s ++ r) |>) m.
Definition xcmd (xk : bool) : cmd := if xk then Emit CCur else PushValue CCur.
Lemma doC_cmd xk c run (m : M) : c <> 0 -> do_cmdS (xcmd xk) c run m = doC xk c m.
Proof.
  intros Hc. destruct xk; cbn [xcmd do_cmd doC ceval]; [|reflexivity].
  unfold emit_char. apply N.eqb_neq in Hc. rewrite Hc. destruct (f_html fl); reflexivity.
Qed.
Lemma doC_sim xk c w t (m1 m2 : M) : Rel w t m1 m2 -> Rel w t (doC xk c m1) (doC xk c m2).
Proof. intros H. destruct xk; cbn [doC]; [apply Rel_emit|apply Rel_upd; [cg|]]; exact H. Qed.
Lemma exec_strip ae xk (b : body S) : strip_err b = BCmd (xcmd xk) (BEnd Stay) -> forall c run w t (m1 m2 : M), c <> 0 ->
  Rel w t m1 m2 -> snd (execS ae b c run m1) = SContinue /\ Rel w t (fst (execS ae b c run m1)) (doC xk c m2).
Proof.
  induction b as [rk k IH|set sm krun IHr kchar IHc|p e y IHy n IHn|k y IHy n IHn|k r IH|tm]; intros Hs c run w t m1 m2 Hc H;
    cbn [strip_err] in Hs; try discriminate Hs.
  destruct (is_err k) eqn:Ek; cbn [exec].
  - apply IH; [exact Hs|exact Hc|]. destruct k; try discriminate Ek; cbn [do_cmd]; apply Rel_err_l; exact H.
  - injection Hs as Hk Hr. subst k. rewrite (doC_cmd xk c run m1 Hc).
    apply exec_strip_end; [exact Hr|]. apply doC_sim; exact H.
Qed.

(* ------------------------------------------------------------------ one slow step on a run character *)
Lemma mc_took n (m : M) : mc (took n m) = mc m. Proof. destruct m; reflexivity. Qed.
Lemma mc_setq q (m : M) : mc (m <| mq := q |>) = mc m. Proof. destruct m; reflexivity. Qed.

Definition slow1 (c : N) (q1 : Q) (ms : M) : M :=
  upd (fun x => x <| cur := c |>)
      (if f_html fl && (c =? LF) then upd (fun x => x <| line ::= N.add 1 |>) (took 1 (ms <| mq := q1 |>))
       else took 1 (ms <| mq := q1 |>)).
Definition pre (s : S) (m : M) : Prop :=
  cref (mc m) = None /\ reconsume (mc m) = false /\ ignore_lf (mc m) = false /\ st (mc m) = s.

Lemma slow_get s c q1 (ms : M) : pre s ms -> Qnext (mq ms) = Some (c, q1) -> c <> CR -> c <> 0 ->
  exists m1, get_charS ms = (Some c, m1) /\ Rel true true m1 (slow1 c q1 ms).
Proof.
  intros (Hcr & Hrc & Hil & Hst) Hq Hc H0. unfold get_char. rewrite Hrc, Hq.
  unfold get_preprocessed_char, gpc_skip. rewrite mc_took, mc_setq, Hil.
  unfold gpc_post, gpc_decide, slow1. apply N.eqb_neq in Hc. apply N.eqb_neq in H0. rewrite Hc.
  destruct (f_html fl); cbv beta iota zeta delta [negb andb]; rewrite ?H0; cbv beta iota;
    (eexists; split; [reflexivity|]); apply (Rel_setcur true true);
    (destruct (bad_char c); [apply Rel_err_l|]; apply Rel_refl).
Qed.

Notation stepF ae := (@step S Q Qemp Qnext Qpeek Qpushf Qflat Qrun fl false tb simd ent c1 sk ae).
Notation stepS ae := (@step S Q Qemp Qnext Qpeek Qpushf Qflat Qrun fl true tb simd ent c1 sk ae).
Notation runF ae := (@run S Q Qemp Qnext Qpeek Qpushf Qflat Qrun fl false tb simd ent c1 sk ae).
Notation runS ae := (@run S Q Qemp Qnext Qpeek Qpushf Qflat Qrun fl true tb simd ent c1 sk ae).

Lemma pre_doC s xk c q1 (ms : M) : pre s ms -> pre s (doC xk c (slow1 c q1 ms)).
Proof.
  intros H. destruct ms as [cs qs os ks]. destruct cs. unfold pre, doC, slow1, upd, emit, took in *. cbn in *.
  destruct xk; destruct (f_html fl); destruct (c =? LF); cbn; exact H.
Qed.

Lemma slow_step ae s set sm krun kchar xk c q1 (ms : M) :
  t_step tb s = BPop set sm krun kchar -> pre s ms -> Qnext (mq ms) = Some (c, q1) -> c <> CR -> c <> 0 ->
  strip_err (resolve c kchar) = BCmd (xcmd xk) (BEnd Stay) ->
  exists ms1, stepS ae ms = (ms1, SContinue) /\ Rel true true ms1 (doC xk c (slow1 c q1 ms)) /\ pre s ms1.
Proof.
  intros Hb Hpre Hq Hc H0 Hs. pose proof Hpre as (Hcr & Hrc & Hil & Hst).
  destruct (slow_get s c q1 ms Hpre Hq Hc H0) as (m1 & G1 & G2).
  unfold step. rewrite Hcr, Hst, Hb. cbn [exec]. unfold pop_except_from. cbn [orb]. rewrite G1.
  rewrite exec_resolve.
  destruct (exec_strip ae xk _ Hs c [] true true m1 (slow1 c q1 ms) H0 G2) as [A B].
  destruct (execS ae (resolve c kchar) c [] m1) as [m2 r2]. cbn [fst snd] in *. subst r2.
  exists m2. split; [reflexivity|]. split; [exact B|].
  pose proof (pre_doC s xk c q1 ms Hpre) as P. unfold pre in *. rewrite (Rel_mc_eq _ _ B). exact P.
Qed.

(* ------------------------------------------------------------------ the fast step on a run, cut into unit runs *)
(* the lines the slow path counts while it reads the run: line feeds, in the html flavour *)
Definition inc1 (c : N) : N := if f_html fl && (c =? LF) then 1 else 0.
Fixpoint cnt (r : list N) : N := match r with [] => 0 | c :: t => inc1 c + cnt t end.
Definition bulkfx (xk : bool) (r : list N) (q' : Q) (m : M) : M :=
  doR xk r (took (lenN r) (upd (fun x => x <| line ::= N.add (cnt r) |>) (m <| mq := q' |>))).

Lemma cnt_cons c r : cnt (c :: r) = cnt [c] + cnt r.
Proof. cbn [cnt]. lia. Qed.
Lemma count1 c : cnt [c] = if f_html fl && (c =? LF) then 1 else 0.
Proof. cbn [cnt]. unfold inc1. lia. Qed.
Lemma cnt_html r : f_html fl = true -> cnt r = count_in r [10].
Proof.
  intros Hh. induction r as [|c r IH]; [reflexivity|]. cbn [cnt count_in]. rewrite IH. unfold inc1. rewrite Hh.
  unfold memb, existsb. change LF with 10. destruct (c =? 10); reflexivity.
Qed.
Lemma cnt_zero r : Forall (fun c => f_html fl = true -> c <> LF) r -> cnt r = 0.
Proof.
  induction 1 as [|c r Hc _ IH]; [reflexivity|]. cbn [cnt]. rewrite IH. unfold inc1.
  destruct (f_html fl); [|reflexivity]. specialize (Hc eq_refl). apply N.eqb_neq in Hc. rewrite Hc. reflexivity.
Qed.
Lemma lenN_cons (c : N) r : lenN (c :: r) = 1 + lenN r.
Proof. unfold lenN. cbn [length]. lia. Qed.

Lemma Rel_bulk1 xk c q1 (vf ms : M) : Rel true false vf ms -> reconsume (mc ms) = false ->
  Rel true false (bulkfx xk [c] q1 vf) (doC xk c (slow1 c q1 ms)).
Proof.
  intros (A & B & C & D & E) Hrc. unfold bulkfx. rewrite count1. change (lenN [c]) with 1.
  pose proof (ceq_rc _ _ A) as Hr. rewrite Hrc in Hr.
  destruct vf as [cf qf of kf], ms as [cs qs os ks].
  unfold Rel, doR, doC, slow1, upd, emit, took in *. cbn in *.
  destruct xk; destruct (f_html fl); destruct (c =? LF); cbn; (split; [|split; [reflexivity|split; [rewrite C; reflexivity|split]]]);
    try (destruct cf, cs; unfold ceq, setcur in *; cbn in *; injection A; intros; subst; reflexivity);
    try (rewrite !obs_cons, D; destruct cf, cs; unfold ceq, setcur in *; cbn in *; injection A; intros; subst; reflexivity);
    try exact D;
    (intros _ X; destruct cf; cbn in *; rewrite Hr in X; discriminate X).
Qed.

Lemma bulk_cons xk c c2 r q1 q' (vf : M) :
  Rel true true (bulkfx xk (c :: c2 :: r) q' vf) (bulkfx xk (c2 :: r) q' (bulkfx xk [c] q1 vf)).
Proof.
  unfold bulkfx. rewrite (cnt_cons c (c2 :: r)), (lenN_cons c (c2 :: r)). change (lenN [c]) with 1.
  generalize (cnt [c]) as n1. generalize (cnt (c2 :: r)) as n2. generalize (lenN (c2 :: r)) as k2.
  intros k2 n2 n1. destruct vf as [cf qf of kf]. destruct cf.
  unfold Rel, doR, upd, emit, took, ceq, setcur.
  destruct xk; lazy -[N.add app obs ocons]; (split; [|split; [reflexivity|split; [lia|split]]]).
  - f_equal. lia.
  - rewrite !obs_cons, ocons_chars_chars. cbn [app]. f_equal. f_equal; [f_equal; lia|lia].
  - intros _ _. reflexivity.
  - rewrite <- app_assoc. cbn [app]. f_equal. lia.
  - reflexivity.
  - intros _ _. reflexivity.
Qed.

Fixpoint stepsC (ae : bool) (n : nat) (m m' : M) : Prop :=
  match n with
  | O => m = m'
  | Datatypes.S n' => exists m1, stepS ae m = (m1, SContinue) /\ stepsC ae n' m1 m'
  end.
Definition msteps (ae : bool) (n : nat) (m m' : M) (r : sres) : Prop :=
  forall j, runS ae (n + j) m = match r with SContinue => runS ae j m' | _ => (m', r) end.
Lemma msteps_one ae (m m' : M) r : stepS ae m = (m', r) -> msteps ae 1 m m' r.
Proof. intros H j. cbn [Nat.add run]. rewrite H. destruct r; reflexivity. Qed.
Lemma msteps_C ae n : forall (m m' : M), stepsC ae n m m' -> msteps ae n m m' SContinue.
Proof.
  induction n as [|n IH]; intros m m' H j; cbn [stepsC] in H.
  - subst. reflexivity.
  - destruct H as (m1 & A & B). cbn [Nat.add run]. rewrite A. apply IH. exact B.
Qed.

Definition good (kchar : body S) (xk : bool) (c : N) : Prop :=
  c <> CR /\ c <> 0 /\ strip_err (resolve c kchar) = BCmd (xcmd xk) (BEnd Stay).

Lemma run_aux ae s set sm krun kchar xk : t_step tb s = BPop set sm krun kchar ->
  forall r (vf ms : M) q', r <> [] -> Forall (good kchar xk) r -> Qnexts r (mq ms) q' -> pre s ms -> Rel true false vf ms ->
  exists ms', stepsC ae (length r) ms ms' /\ pre s ms' /\ Rel true false (bulkfx xk r q' vf) ms'.
Proof.
  intros Hb. induction r as [|c r IH]; intros vf ms q' Hne Hg Hq Hpre H; [congruence|].
  inversion Hg as [|? ? (G1 & G2 & G3) Hg']; subst. cbn [Qnexts] in Hq. destruct Hq as (q1 & Hq1 & Hq).
  destruct (slow_step ae s set sm krun kchar xk c q1 ms Hb Hpre Hq1 G1 G2 G3) as (ms1 & S1 & S2 & S3).
  assert (R1 : Rel true false (bulkfx xk [c] q1 vf) ms1).
  { eapply Rel_trans_r; [|exact S2]. apply Rel_bulk1; [exact H|]. destruct Hpre as (_ & X & _). exact X. }
  destruct r as [|c2 r].
  - cbn [Qnexts] in Hq. subst q'. exists ms1. split; [cbn; exists ms1; split; [exact S1|reflexivity]|]. split; [exact S3|exact R1].
  - assert (Hq2 : Qnexts (c2 :: r) (mq ms1) q').
    { replace (mq ms1) with q1; [exact Hq|]. destruct S2 as (_ & X & _). rewrite X. destruct ms as [cs qs os ks].
      unfold doC, slow1, upd, emit, took. destruct xk; destruct (f_html fl); destruct (c =? LF); reflexivity. }
    destruct (IH (bulkfx xk [c] q1 vf) ms1 q') as (ms' & T1 & T2 & T3); [discriminate|exact Hg'|exact Hq2|exact S3|exact R1|].
    exists ms'. split; [cbn [length stepsC]; exists ms1; split; [exact S1|exact T1]|]. split; [exact T2|].
    eapply Rel_trans_l; [apply (bulk_cons xk c c2 r q1 q' vf)|exact T3].
Qed.

(* ------------------------------------------------------------------ one fast step = one or more slow steps *)
Lemma lock_msteps ae (rf : M * sres) (ms : M) : simR true rf (stepS ae ms) ->
  exists n ms', (1 <= n)%nat /\ msteps ae n ms ms' (snd rf) /\ Rel true false (fst rf) ms'.
Proof.
  intros [A B]. exists 1%nat, (fst (stepS ae ms)). split; [apply le_n|]. split; [|exact B].
  apply msteps_one. rewrite A. destruct (stepS ae ms); reflexivity.
Qed.

Lemma pop_lock ae set sm krun kchar (mf ms : M) : Rel true false mf ms -> ok_body true true kchar = true ->
  simR true (match get_charF mf with (None, m') => (m', SSuspend) | (Some c', m') => execF ae kchar c' [] m' end)
            (execS ae (BPop set sm krun kchar) 0 [] ms).
Proof.
  intros H Hk. cbn [exec]. unfold pop_except_from. cbn [orb].
  destruct (get_char_sim false mf ms H) as (A & B & C).
  destruct (get_charF mf) as [o m1]; destruct (get_charS ms) as [o' m1']; cbn [fst snd] in *; subst o'.
  destruct o as [c'|].
  - apply (exec_sim ae kchar true true true); [exact Hk|reflexivity|apply C; discriminate].
  - split; [reflexivity|exact B].
Qed.

Lemma get_char_nr (m : M) : reconsume (mc m) = false ->
  get_charF m = match Qnext (mq m) with None => (None, m) | Some (c, q') => gpcF c (took 1 (m <| mq := q' |>)) end.
Proof. intros H. unfold get_char. rewrite H. reflexivity. Qed.

Lemma subset_memb a b c : subset a b = true -> memb c a = true -> memb c b = true.
Proof.
  unfold subset, memb. intros H1 H2. apply existsb_exists in H2. destruct H2 as (x & Hx & E). apply N.eqb_eq in E. subst x.
  rewrite forallb_forall in H1. exact (H1 _ Hx).
Qed.
Lemma in_set_memb set c : c <? 64 = true -> memb c set = true -> in_set set c = true.
Proof. intros A B. unfold in_set. rewrite A, B. reflexivity. Qed.
Lemma upd_line0 (m : M) : upd (fun x => x <| line ::= N.add 0 |>) m = m.
Proof. destruct m as [cf q o k]. destruct cf. reflexivity. Qed.
Lemma bulk_step ae set sm krun kchar (mf ms : M) :
  Rel true false mf ms -> cref (mc mf) = None -> t_step tb (st (mc mf)) = BPop set sm krun kchar ->
  pop_ok set sm krun kchar = true ->
  exists n ms', (1 <= n)%nat /\ msteps ae n ms ms' (snd (execF ae (BPop set sm krun kchar) 0 [] mf)) /\
                Rel true false (fst (execF ae (BPop set sm krun kchar) 0 [] mf)) ms'.
Proof.
  intros H Hcr Hb Hok.
  unfold pop_ok in Hok. apply andb_prop in Hok. destruct Hok as [Hok HM].
  apply andb_prop in Hok. destruct Hok as [Hok Hkc]. apply andb_prop in Hok. destruct Hok as [Hok H0].
  apply andb_prop in Hok. destruct Hok as [H13 H10].
  destruct (per_char krun) as [d|] eqn:Epc; [|discriminate HM]. apply andb_prop in HM. destruct HM as [Hch Hsimd].
  assert (X : exists xk, d = BCmd (xcmd xk) (BEnd Stay) /\ forall c r (m : M), execF ae krun c r m = (doR xk r m, SContinue)).
  { destruct (per_char_inv krun d Epc) as [[-> ->]|[-> ->]]; [exists true|exists false]; split; reflexivity. }
  destruct X as (xk & Ed & Hkrun).
  assert (Hstep_s : stepS ae ms = execS ae (BPop set sm krun kchar) 0 [] ms).
  { unfold step. sync H. rewrite Hcr, Hb. reflexivity. }
  pose proof (pop_lock ae set sm krun kchar mf ms H Hkc) as L.
  cbn [exec]. unfold pop_except_from. cbn [orb].
  destruct (reconsume (mc mf)) eqn:Erc; cbn [orb].
  { apply lock_msteps. rewrite Hstep_s. destruct (get_charF mf) as [[c'|] m1]; exact L. }
  destruct (ignore_lf (mc mf)) eqn:Eil.
  { apply lock_msteps. rewrite Hstep_s. destruct (get_charF mf) as [[c'|] m1]; exact L. }
  rewrite (get_char_nr mf Erc) in L.
  assert (Hpre : pre (st (mc mf)) ms).
  { unfold pre. sync H. auto. }
  assert (Hmq : mq ms = mq mf) by (apply (Rel_mq _ _ _ _ H)).
  destruct (Qpeek (mq mf)) as [c0|] eqn:Ep.
  2:{ apply lock_msteps. rewrite Hstep_s. pose proof (peek_next (mq mf)) as PN. rewrite Ep in PN.
      destruct (Qnext (mq mf)) as [[c q1]|]; [discriminate PN|exact L]. }
  cbv beta iota.
  destruct (sm && negb (memb c0 guard)) eqn:Esm.
  - (* the SIMD scan *)
    apply andb_prop in Esm. destruct Esm as [Es Eg]. subst sm. cbn [negb orb] in Hsimd.
    apply andb_prop in Hsimd. destruct Hsimd as [Hsimd Hch2]. apply andb_prop in Hsimd. destruct Hsimd as [Hsimd Hs0].
    apply andb_prop in Hsimd. destruct Hsimd as [Hsimd Hs13]. apply andb_prop in Hsimd. destruct Hsimd as [Hsimd Hnl].
    apply andb_prop in Hsimd. destruct Hsimd as [Hh Hsub].
    apply list_eqb_N_eq in Hnl.
    destruct (Qrun (fun c => memb c stop) (mq mf)) as [r q'] eqn:ER.
    destruct (run_ok _ _ _ _ ER) as (F1 & F2 & F3).
    assert (Hne : r <> []).
    { intros ->. specialize (F3 eq_refl c0 Ep). cbn beta in F3. rewrite (subset_memb _ _ _ Hsub F3) in Eg. discriminate Eg. }
    rewrite Hkrun. cbn [fst snd].
    replace (count_in r nl) with (cnt r) by (rewrite Hnl; apply cnt_html; exact Hh).
    destruct (run_aux ae (st (mc mf)) set true krun kchar xk Hb r mf ms q' Hne) as (ms' & T1 & T2 & T3);
      [|rewrite Hmq; apply F2; exact Hne|exact Hpre|exact H|].
    { apply Forall_forall. intros c Hc. rewrite forallb_forall in F1. specialize (F1 c Hc). cbn beta in F1.
      apply negb_true_iff in F1. repeat split.
      - intros ->. change (memb CR stop) with (memb 13 stop) in F1. rewrite Hs13 in F1. discriminate F1.
      - intros ->. rewrite Hs0 in F1. discriminate F1.
      - rewrite <- Ed. apply (chain_ok_resolve seqb seqb_eq stop d kchar c Hch2). unfold in_set. rewrite F1. apply andb_false_r. }
    exists (length r), ms'. split; [destruct r; [congruence|cbn; lia]|]. split; [apply msteps_C; exact T1|exact T3].
  - (* the scalar scan *)
    destruct (Qrun (in_set set) (mq mf)) as [r q'] eqn:ER.
    destruct (run_ok _ _ _ _ ER) as (F1 & F2 & F3).
    destruct r as [|c r].
    { apply lock_msteps. rewrite Hstep_s.
      destruct (Qnext (mq mf)) as [[c q1]|]; [destruct (gpcF c _) as [[c'|] m1]|]; exact L. }
    rewrite Hkrun. cbn [fst snd].
    assert (G : Forall (fun c => good kchar xk c /\ (f_html fl = true -> c <> LF)) (c :: r)).
    { apply Forall_forall. intros x Hx. rewrite forallb_forall in F1. specialize (F1 x Hx). cbn beta in F1.
      apply negb_true_iff in F1. repeat split.
      - intros ->. rewrite (in_set_memb set CR eq_refl H13) in F1. discriminate F1.
      - intros ->. rewrite (in_set_memb set 0 eq_refl H0) in F1. discriminate F1.
      - rewrite <- Ed. apply (chain_ok_resolve seqb seqb_eq set d kchar x Hch F1).
      - intros Hh ->. rewrite Hh in H10. cbn [negb orb] in H10. rewrite (in_set_memb set LF eq_refl H10) in F1. discriminate F1. }
    assert (G1 : Forall (good kchar xk) (c :: r)) by (eapply Forall_impl; [|exact G]; cbn beta; tauto).
    assert (G2 : cnt (c :: r) = 0) by (apply cnt_zero; eapply Forall_impl; [|exact G]; cbn beta; tauto).
    destruct (run_aux ae (st (mc mf)) set sm krun kchar xk Hb (c :: r) mf ms q') as (ms' & T1 & T2 & T3);
      [discriminate|exact G1|rewrite Hmq; apply F2; discriminate|exact Hpre|exact H|].
    exists (length (c :: r)), ms'. split; [cbn; lia|]. split; [apply msteps_C; exact T1|].
    unfold bulkfx in T3. rewrite G2, upd_line0 in T3. exact T3.
Qed.

(* ------------------------------------------------------------------ the table conditions *)
Hypothesis Hstep : forall s, step_ok (t_step tb s) = true.
Hypothesis Heof : forall s, ok_body false false (t_eof tb s) = true.

Lemma step_sim ae (mf ms : M) : Rel true false mf ms ->
  exists n ms', (1 <= n)%nat /\ msteps ae n ms ms' (snd (stepF ae mf)) /\ Rel true false (fst (stepF ae mf)) ms'.
Proof.
  intros H. destruct (cref (mc mf)) as [cr|] eqn:Ecr.
  - apply lock_msteps. unfold step. sync H. rewrite Ecr.
    destruct (cr_step_sim cr false mf ms H) as (A & B).
    destruct (cr_stepF cr mf) as [x m1]; destruct (cr_stepS cr ms) as [x' m1']; cbn [fst snd] in *; subst x'.
    destruct x as [|cr'|chars].
    + split; [reflexivity|exact B].
    + split; [reflexivity|]. apply Rel_upd; [cg|exact B].
    + destruct (process_char_ref_sim chars true false m1 m1' B) as (P1 & P2).
      destruct (process_char_refQ chars m1) as [m2 bad]; destruct (process_char_refQ chars m1') as [m2' bad'];
        cbn [fst snd] in *; subst bad'. split; [reflexivity|]. apply Rel_upd; [cg|exact P2].
  - pose proof (Hstep (st (mc mf))) as Hs. unfold step at 1 2. rewrite Ecr.
    destruct (t_step tb (st (mc mf))) as [rk k|set sm krun kchar|p e y n|k y n|k r|tm] eqn:Eb;
      try (apply lock_msteps; unfold step; sync H; rewrite Ecr, Eb;
           apply (exec_sim ae _ true false false); [exact Hs|discriminate|exact H]).
    apply bulk_step; assumption.
Qed.

Lemma run_sim ae fuel : forall (mf ms : M), Rel true false mf ms -> snd (runF ae fuel mf) <> SPanic 98 ->
  exists k ms', (forall j, runS ae (k + j) ms = (ms', snd (runF ae fuel mf))) /\ Rel true false (fst (runF ae fuel mf)) ms'.
Proof.
  induction fuel as [|f IH]; intros mf ms H Hne; cbn [run] in *; [exfalso; apply Hne; reflexivity|].
  destruct (step_sim ae mf ms H) as (n & ms1 & _ & A & B).
  destruct (stepF ae mf) as [mf1 r1]; cbn [fst snd] in *.
  destruct r1; try (exists n, ms1; split; [intros j; exact (A j)|exact B]).
  destruct (IH mf1 ms1 B Hne) as (k & ms' & C & D).
  exists (n + k)%nat, ms'. split; [|exact D]. intros j. rewrite <- Nat.add_assoc, (A (k + j)%nat). exact (C j).
Qed.

(* feed *)
Definition bomfix (m : M) : M :=
  if discard_bom (mc m) then
    match Qpeek (mq m) with
    | Some c =>
      let m' := if c =? BOM then match Qnext (mq m) with Some (_, q') => took 1 (m <| mq := q' |>) | None => m end else m in
      upd (fun x => x <| discard_bom := false |>) m'
    | None => m
    end
  else m.
Lemma bomfix_sim w t (mf ms : M) : Rel w t mf ms -> Rel w t (bomfix mf) (bomfix ms).
Proof.
  intros H. unfold bomfix. sync H. destruct (discard_bom (mc mf)); [|exact H].
  destruct (Qpeek (mq mf)) as [c|]; [|exact H]. cbv zeta. apply Rel_upd; [cg|].
  destruct (c =? BOM); [|exact H]. destruct (Qnext (mq mf)) as [[d q']|]; [apply Rel_took, Rel_setq|]; exact H.
Qed.
Notation feedF := (@feed S Q Qemp Qnext Qpeek Qpushf Qflat Qrun fl false tb simd ent c1 sk).
Notation feedS := (@feed S Q Qemp Qnext Qpeek Qpushf Qflat Qrun fl true tb simd ent c1 sk).
Notation eof_loopF := (@eof_loop S Q Qemp Qnext Qpeek Qpushf Qflat Qrun fl false tb simd sk).
Notation eof_loopS := (@eof_loop S Q Qemp Qnext Qpeek Qpushf Qflat Qrun fl true tb simd sk).
Notation tok_endF := (@tok_end S Q Qemp Qnext Qpeek Qpushf Qflat Qrun fl false tb simd ent c1 sk).
Notation tok_endS := (@tok_end S Q Qemp Qnext Qpeek Qpushf Qflat Qrun fl true tb simd ent c1 sk).
Notation feed_loopF := (@feed_loop S Q Qemp Qnext Qpeek Qpushf Qflat Qrun fl false tb simd ent c1 sk).
Notation feed_loopS := (@feed_loop S Q Qemp Qnext Qpeek Qpushf Qflat Qrun fl true tb simd ent c1 sk).
Notation driveF := (@drive S Q Qemp Qnext Qpeek Qpushf Qpushb Qflat Qrun fl false tb simd ent c1 sk).
Notation driveS := (@drive S Q Qemp Qnext Qpeek Qpushf Qpushb Qflat Qrun fl true tb simd ent c1 sk).

Lemma feedF_eq fu (m : M) :
  feedF fu m = match Qpeek (mq m) with None => (m, SSuspend) | Some _ => runF false fu (bomfix m) end.
Proof. reflexivity. Qed.
Lemma feedS_eq fu (m : M) :
  feedS fu m = match Qpeek (mq m) with None => (m, SSuspend) | Some _ => runS false fu (bomfix m) end.
Proof. reflexivity. Qed.

Lemma feed_sim fuel (mf ms : M) : Rel true false mf ms -> snd (feedF fuel mf) <> SPanic 98 ->
  exists k ms', (forall j, feedS (k + j) ms = (ms', snd (feedF fuel mf))) /\ Rel true false (fst (feedF fuel mf)) ms'.
Proof.
  intros H. rewrite feedF_eq. pose proof (Rel_mq _ _ _ _ H) as Hq.
  destruct (Qpeek (mq mf)) as [c|] eqn:Ep.
  - intros Hne. destruct (run_sim false fuel (bomfix mf) (bomfix ms) (bomfix_sim _ _ _ _ H) Hne) as (k & ms' & A & B).
    exists k, ms'. split; [|exact B]. intros j. rewrite feedS_eq, Hq, Ep. exact (A j).
  - intros _. exists 0%nat, ms. split; [|exact H]. intros j. rewrite feedS_eq, Hq, Ep. reflexivity.
Qed.

Lemma feed_loop_log n fuel inject : forall (m : M) log x, In x log -> In x (snd (feed_loopF n fuel inject m log)).
Proof.
  induction n as [|n IH]; intros m log x Hx; cbn [feed_loop]; [right; exact Hx|].
  destruct (feedF fuel m) as [m' r]. destruct r; try (right; exact Hx); apply IH; right; exact Hx.
Qed.

Lemma feed_loop_sim n fuel inject : forall (mf ms : M) log, Rel true false mf ms ->
  ~ In (SPanic 98) (snd (feed_loopF n fuel inject mf log)) ->
  exists k ms', (forall j, feed_loopS n (k + j) inject ms log = (ms', snd (feed_loopF n fuel inject mf log))) /\
                Rel true false (fst (feed_loopF n fuel inject mf log)) ms'.
Proof.
  induction n as [|n IH]; intros mf ms log H Hno; cbn [feed_loop] in *.
  - exists 0%nat, ms. split; [reflexivity|exact H].
  - pose proof (feed_sim fuel mf ms H) as FS.
    destruct (feedF fuel mf) as [mf1 r]. cbn [fst snd] in FS.
    assert (Hr : r <> SPanic 98).
    { intros ->. apply Hno. left. reflexivity. }
    destruct (FS Hr) as (k1 & ms1 & A & B).
    destruct r;
      try (exists k1, ms1; split; [intros j; rewrite (A j); reflexivity|exact B]).
    + destruct (IH (mf1 <| mq ::= Qpushf inject |>) (ms1 <| mq ::= Qpushf inject |>) (SScript :: log)) as (k2 & ms' & C & D);
        [apply Rel_updq; exact B|exact Hno|].
      exists (k1 + k2)%nat, ms'. split; [|exact D]. intros j.
      rewrite <- Nat.add_assoc, (A (k2 + j)%nat).
      replace (k1 + (k2 + j))%nat with (k2 + (k1 + j))%nat by lia. exact (C (k1 + j)%nat).
    + destruct (IH mf1 ms1 (SEncoding :: log)) as (k2 & ms' & C & D); [exact B|exact Hno|].
      exists (k1 + k2)%nat, ms'. split; [|exact D]. intros j.
      rewrite <- Nat.add_assoc, (A (k2 + j)%nat).
      replace (k1 + (k2 + j))%nat with (k2 + (k1 + j))%nat by lia. exact (C (k1 + j)%nat).
Qed.

Lemma eof_loop_sim fuel : forall (mf ms : M), Rel false false mf ms -> snd (eof_loopF fuel mf) <> SPanic 97 ->
  exists ms', (forall j, eof_loopS (fuel + j) ms = (ms', snd (eof_loopF fuel mf))) /\ Rel false false (fst (eof_loopF fuel mf)) ms'.
Proof.
  induction fuel as [|f IH]; intros mf ms H; cbn [eof_loop Nat.add]; [intros Hne; exfalso; apply Hne; reflexivity|].
  sync H.
  destruct (exec_sim true (t_eof tb (st (mc mf))) false false false 0 [] mf ms (Heof _)) as (A & B); [discriminate|exact H|].
  destruct (execF true (t_eof tb (st (mc mf))) 0 [] mf) as [mf1 r]; destruct (execS true (t_eof tb (st (mc mf))) 0 [] ms) as [ms1 r'];
    cbn [fst snd] in *; subst r'.
  destruct r.
  - apply IH; exact B.
  - intros _. exists ms1. split; [intros j; reflexivity|exact B].
  - destruct (f_html fl); [intros _; exists ms1; split; [intros j; reflexivity|exact B]|apply IH; exact B].
  - destruct (f_html fl); [intros _; exists ms1; split; [intros j; reflexivity|exact B]|apply IH; exact B].
  - intros _. exists ms1. split; [intros j; reflexivity|exact B].
Qed.

(* end(): flush a pending character reference, run on the emptied queue, then the EOF arms *)
Definition crfin (m0 : M) : M * bool :=
  match cref (mc m0) with
  | None => (m0, false)
  | Some cr => let '(chars, m') := cr_eofQ cr (upd (fun x => x <| cref := None |>) m0) in process_char_refQ chars m'
  end.
Lemma crfin_sim w t (mf ms : M) : Rel w t mf ms ->
  snd (crfin mf) = snd (crfin ms) /\ Rel w t (fst (crfin mf)) (fst (crfin ms)).
Proof.
  intros H. unfold crfin. sync H. destruct (cref (mc mf)) as [cr|]; [|split; [reflexivity|exact H]].
  destruct (cr_eof_sim cr w t (upd (fun x => x <| cref := None |>) mf) (upd (fun x => x <| cref := None |>) ms)) as (A & B);
    [apply Rel_upd; [cg|exact H]|].
  destruct (cr_eofQ cr (upd (fun x => x <| cref := None |>) mf)) as [chars m1];
    destruct (cr_eofQ cr (upd (fun x => x <| cref := None |>) ms)) as [chars' m1']; cbn [fst snd] in *. subst chars'.
  apply process_char_ref_sim. exact B.
Qed.
Definition end_tail (ex : bool) (fuel : nat) (m1 : M) : M * sres :=
  match @run S Q Qemp Qnext Qpeek Qpushf Qflat Qrun fl ex tb simd ent c1 sk true fuel m1 with
  | (m3, SSuspend) =>
    match Qpeek (mq m3) with
    | None => @eof_loop S Q Qemp Qnext Qpeek Qpushf Qflat Qrun fl ex tb simd sk fuel m3
    | Some _ => if f_html fl then (m3, SPanic 5) else @eof_loop S Q Qemp Qnext Qpeek Qpushf Qflat Qrun fl ex tb simd sk fuel m3
    end
  | (m3, SPanic n) => (m3, SPanic n)
  | (m3, _) => if f_html fl then (m3, SPanic 4) else @eof_loop S Q Qemp Qnext Qpeek Qpushf Qflat Qrun fl ex tb simd sk fuel m3
  end.
Lemma tok_end_eq ex fuel (m : M) :
  @tok_end S Q Qemp Qnext Qpeek Qpushf Qflat Qrun fl ex tb simd ent c1 sk fuel m =
  let '(m1, bad) := crfin (m <| mq := Qemp |>) in if bad then (m1, SPanic 1) else end_tail ex fuel m1.
Proof. reflexivity. Qed.

Lemma end_tail_sim fuel (mf ms : M) : Rel true false mf ms ->
  snd (end_tail false fuel mf) <> SPanic 98 -> snd (end_tail false fuel mf) <> SPanic 97 ->
  exists k ms', (forall j, end_tail true (k + j) ms = (ms', snd (end_tail false fuel mf))) /\
                Rel false false (fst (end_tail false fuel mf)) ms'.
Proof.
  intros H. unfold end_tail at 1 2 4 5.
  pose proof (run_sim true fuel mf ms H) as RS.
  destruct (runF true fuel mf) as [mf3 r3]. cbn [fst snd] in RS.
  assert (W : forall (a b : M), Rel true false a b -> Rel false false a b).
  { intros a b X. eapply Rel_weak; [| |exact X]; [discriminate|auto]. }
  assert (Done : forall k ms3 r, (forall j, runS true (k + j) ms = (ms3, r3)) -> Rel true false mf3 ms3 ->
            (forall fu, match r3 with
                        | SSuspend => match Qpeek (mq ms3) with
                                      | None => eof_loopS fu ms3
                                      | Some _ => if f_html fl then (ms3, SPanic 5) else eof_loopS fu ms3 end
                        | SPanic n => (ms3, SPanic n)
                        | _ => if f_html fl then (ms3, SPanic 4) else eof_loopS fu ms3 end = (ms3, r)) ->
            exists k0 ms', (forall j, end_tail true (k0 + j) ms = (ms', r)) /\ Rel false false mf3 ms').
  { intros k ms3 r A B E. exists k, ms3. split; [|apply W; exact B]. intros j. unfold end_tail. rewrite (A j). apply E. }
  assert (Loop : forall k ms3, (forall j, runS true (k + j) ms = (ms3, r3)) -> Rel true false mf3 ms3 ->
            snd (eof_loopF fuel mf3) <> SPanic 97 ->
            (forall fu, match r3 with
                        | SSuspend => match Qpeek (mq ms3) with
                                      | None => eof_loopS fu ms3
                                      | Some _ => if f_html fl then (ms3, SPanic 5) else eof_loopS fu ms3 end
                        | SPanic n => (ms3, SPanic n)
                        | _ => if f_html fl then (ms3, SPanic 4) else eof_loopS fu ms3 end = eof_loopS fu ms3) ->
            exists k0 ms', (forall j, end_tail true (k0 + j) ms = (ms', snd (eof_loopF fuel mf3))) /\
                           Rel false false (fst (eof_loopF fuel mf3)) ms').
  { intros k ms3 A B H97 E. destruct (eof_loop_sim fuel mf3 ms3 (W _ _ B) H97) as (ms' & C & D).
    exists (k + fuel)%nat, ms'. split; [|exact D]. intros j. unfold end_tail.
    rewrite <- Nat.add_assoc, (A (fuel + j)%nat), E.
    replace (k + (fuel + j))%nat with (fuel + (k + j))%nat by lia. exact (C (k + j)%nat). }
  destruct r3.
  - destruct RS as (k & ms3 & A & B); [discriminate|].
    destruct (f_html fl) eqn:Hh; intros H98 H97.
    + apply (Done k ms3 _ A B). intros fu. reflexivity.
    + apply (Loop k ms3 A B H97). intros fu. reflexivity.
  - destruct RS as (k & ms3 & A & B); [discriminate|].
    pose proof (Rel_mq _ _ _ _ B) as Hq. rewrite <- Hq.
    destruct (Qpeek (mq ms3)) as [c|] eqn:Ep.
    + destruct (f_html fl) eqn:Hh; intros H98 H97.
      * apply (Done k ms3 _ A B). intros fu. rewrite Ep. reflexivity.
      * apply (Loop k ms3 A B H97). intros fu. rewrite Ep. reflexivity.
    + intros H98 H97. apply (Loop k ms3 A B H97). intros fu. rewrite Ep. reflexivity.
  - destruct RS as (k & ms3 & A & B); [discriminate|].
    destruct (f_html fl) eqn:Hh; intros H98 H97.
    + apply (Done k ms3 _ A B). intros fu. reflexivity.
    + apply (Loop k ms3 A B H97). intros fu. reflexivity.
  - destruct RS as (k & ms3 & A & B); [discriminate|].
    destruct (f_html fl) eqn:Hh; intros H98 H97.
    + apply (Done k ms3 _ A B). intros fu. reflexivity.
    + apply (Loop k ms3 A B H97). intros fu. reflexivity.
  - intros H98 H97. destruct RS as (k & ms3 & A & B); [exact H98|].
    apply (Done k ms3 _ A B). intros fu. reflexivity.
Qed.

Lemma tok_end_sim fuel (mf ms : M) : Rel true false mf ms ->
  snd (tok_endF fuel mf) <> SPanic 98 -> snd (tok_endF fuel mf) <> SPanic 97 ->
  exists k ms', (forall j, tok_endS (k + j) ms = (ms', snd (tok_endF fuel mf))) /\ Rel false false (fst (tok_endF fuel mf)) ms'.
Proof.
  intros H. rewrite tok_end_eq.
  destruct (crfin_sim true false (mf <| mq := Qemp |>) (ms <| mq := Qemp |>)) as (A & B); [apply Rel_setq; exact H|].
  destruct (crfin (mf <| mq := Qemp |>)) as [m1f bad] eqn:E1. destruct (crfin (ms <| mq := Qemp |>)) as [m1s bad'] eqn:E2.
  cbn [fst snd] in *. subst bad'. destruct bad.
  - intros _ _. exists 0%nat, m1s. split; [|eapply Rel_weak; [| |exact B]; [discriminate|auto]].
    intros j. rewrite tok_end_eq, E2. reflexivity.
  - intros H98 H97. destruct (end_tail_sim fuel m1f m1s B H98 H97) as (k & ms' & C & D).
    exists k, ms'. split; [|exact D]. intros j. rewrite tok_end_eq, E2. exact (C j).
Qed.

Lemma drive_log fuel inject : forall chunks (m : M) log x, In x log -> In x (snd (driveF fuel inject chunks m log)).
Proof.
  induction chunks as [|ch rest IH]; intros m log x Hx; cbn [drive].
  - destruct (tok_endF fuel m) as [m' r]. right. exact Hx.
  - pose proof (feed_loop_log 50 fuel inject (m <| mq ::= (fun q => Qpushb q ch) |>) log x Hx) as G.
    destruct (feed_loopF 50 fuel inject (m <| mq ::= (fun q => Qpushb q ch) |>) log) as [m' log']. apply IH. exact G.
Qed.

Theorem drive_sim fuel inject : forall chunks (mf ms : M) log, Rel true false mf ms ->
  ~ In (SPanic 98) (snd (driveF fuel inject chunks mf log)) -> ~ In (SPanic 97) (snd (driveF fuel inject chunks mf log)) ->
  exists k ms', (forall j, driveS (k + j) inject chunks ms log = (ms', snd (driveF fuel inject chunks mf log))) /\
                Rel false false (fst (driveF fuel inject chunks mf log)) ms'.
Proof.
  induction chunks as [|ch rest IH]; intros mf ms log H; cbn [drive]; intros H98 H97.
  - pose proof (tok_end_sim fuel mf ms H) as TS.
    destruct (tok_endF fuel mf) as [mf' r]. cbn [fst snd] in *.
    destruct TS as (k & ms' & A & B).
    { intros ->. apply H98. left. reflexivity. }
    { intros ->. apply H97. left. reflexivity. }
    exists k, ms'. split; [|exact B]. intros j. rewrite (A j). reflexivity.
  - pose proof (feed_loop_sim 50 fuel inject (mf <| mq ::= (fun q => Qpushb q ch) |>) (ms <| mq ::= (fun q => Qpushb q ch) |>) log
                  (Rel_updq _ _ _ _ _ H)) as FS.
    pose proof (fun x => drive_log fuel inject rest (fst (feed_loopF 50 fuel inject (mf <| mq ::= (fun q => Qpushb q ch) |>) log))
                  (snd (feed_loopF 50 fuel inject (mf <| mq ::= (fun q => Qpushb q ch) |>) log)) x) as DL.
    destruct (feed_loopF 50 fuel inject (mf <| mq ::= (fun q => Qpushb q ch) |>) log) as [mf1 log1]. cbn [fst snd] in *.
    destruct FS as (k1 & ms1 & A & B).
    { intros X. apply H98. apply DL. exact X. }
    destruct (IH mf1 ms1 log1 B H98 H97) as (k2 & ms' & C & D).
    exists (k1 + k2)%nat, ms'. split; [|exact D]. intros j.
    rewrite <- Nat.add_assoc, (A (k2 + j)%nat).
    replace (k1 + (k2 + j))%nat with (k2 + (k1 + j))%nat by lia. exact (C (k1 + j)%nat).
Qed.

(* the driver theorem in plain terms: from one and the same machine, if the fast run (bulk reads, exact_errors = false) ends
   regularly - no fuel exhaustion in any feed call, in end() or in its EOF loop - then the slow run (one character at a time,
   exact_errors = true) with any fuel from some bound on reports the same results, leaves the same unread input, has taken
   the same number of characters, ends in the same configuration up to [cur], and has delivered the same tokens up to
   parse errors and the merging of adjacent character tokens *)
Theorem bulk_drive_obs fuel inject chunks (m : M) log :
  ~ In (SPanic 98) (snd (driveF fuel inject chunks m log)) -> ~ In (SPanic 97) (snd (driveF fuel inject chunks m log)) ->
  exists k, forall j,
    snd (driveS (k + j) inject chunks m log) = snd (driveF fuel inject chunks m log) /\
    obs (mout (fst (driveS (k + j) inject chunks m log))) = obs (mout (fst (driveF fuel inject chunks m log))) /\
    ceq (mc (fst (driveS (k + j) inject chunks m log))) (mc (fst (driveF fuel inject chunks m log))) /\
    mq (fst (driveS (k + j) inject chunks m log)) = mq (fst (driveF fuel inject chunks m log)) /\
    mcons (fst (driveS (k + j) inject chunks m log)) = mcons (fst (driveF fuel inject chunks m log)).
Proof.
  intros H98 H97. destruct (drive_sim fuel inject chunks m m log (Rel_refl true false m) H98 H97) as (k & ms' & A & B).
  exists k. intros j. rewrite (A j). cbn [fst snd]. destruct B as (B1 & B2 & B3 & B4 & _).
  split; [reflexivity|]. split; [symmetry; exact B4|]. split; [unfold ceq in *; symmetry; exact B1|]. split; symmetry; assumption.
Qed.

End Bulk.

(* ------------------------------------------------------------------ the two queues *)
Lemma flat_peek_next : forall q, fq_peek q = match fq_next q with Some (c, _) => Some c | None => None end.
Proof. intros [|c t]; reflexivity. Qed.
Lemma flat_run_ok : forall stop q r q', fq_run1 stop q = (r, q') ->
  forallb (fun c => negb (stop c)) r = true /\ (r <> [] -> Qnexts fq_next r q q') /\
  (r = [] -> forall c, fq_peek q = Some c -> stop c = true).
Proof.
  intros stop [|c t] r q' H; cbn in H.
  - apply pair_inv in H. destruct H as [<- <-].
    split; [reflexivity|split; [intros X; congruence|intros _ c0 H0; discriminate H0]].
  - destruct (stop c) eqn:E; apply pair_inv in H; destruct H as [<- <-].
    + split; [reflexivity|split; [intros X; congruence|]]. intros _ c0 H0. cbn in H0. injection H0 as <-. exact E.
    + split; [cbn; rewrite E; reflexivity|split; [|intros X; discriminate X]]. intros _. cbn. exists t. split; reflexivity.
Qed.

Definition span (stop : N -> bool) : list N -> list N * list N :=
  fix go (b : list N) : list N * list N :=
    match b with [] => ([], []) | c :: b' => if stop c then ([], b) else let '(r, s) := go b' in (c :: r, s) end.
Lemma span_cons stop c b :
  span stop (c :: b) = if stop c then ([], c :: b) else let '(r, s) := span stop b in (c :: r, s).
Proof. reflexivity. Qed.
Lemma span_spec stop : forall b, b = fst (span stop b) ++ snd (span stop b) /\
  forallb (fun c => negb (stop c)) (fst (span stop b)) = true /\
  (fst (span stop b) = [] -> match b with [] => True | c :: _ => stop c = true end).
Proof.
  induction b as [|c b IH]; [repeat split|]. rewrite span_cons.
  destruct (stop c) eqn:E; [repeat split; exact E|].
  destruct (span stop b) as [r s]. cbn [fst snd] in *. destruct IH as (A & B & C).
  split; [cbn; f_equal; exact A|]. split; [cbn; rewrite E; exact B|discriminate].
Qed.
Lemma qnexts_buf : forall r s t, r <> [] -> Qnexts qnext r ((r ++ s) :: t) (qpush_front s t).
Proof.
  induction r as [|c r IH]; intros s t Hne; [congruence|]. destruct r as [|c2 r].
  - cbn [app Qnexts]. destruct s as [|d s]; [exists t|exists ((d :: s) :: t)]; split; reflexivity.
  - cbn [Qnexts]. exists (((c2 :: r) ++ s) :: t). split; [reflexivity|]. apply IH. discriminate.
Qed.
Lemma chunked_peek_next : forall q, qpeek q = match qnext q with Some (c, _) => Some c | None => None end.
Proof. intros [|[|c [|d r]] t]; reflexivity. Qed.
Lemma chunked_run_ok : forall stop q r q', qrun_chunked stop q = (r, q') ->
  forallb (fun c => negb (stop c)) r = true /\ (r <> [] -> Qnexts qnext r q q') /\
  (r = [] -> forall c, qpeek q = Some c -> stop c = true).
Proof.
  intros stop [|buf t] r q' H.
  - cbn in H. apply pair_inv in H. destruct H as [<- <-].
    split; [reflexivity|split; [intros X; congruence|intros _ c0 H0; discriminate H0]].
  - change (qrun_chunked stop (buf :: t)) with (fst (span stop buf), qpush_front (snd (span stop buf)) t) in H.
    apply pair_inv in H. destruct H as [<- <-]. destruct (span_spec stop buf) as (A & B & C).
    split; [exact B|]. split.
    + intros Hne. pose proof (qnexts_buf (fst (span stop buf)) (snd (span stop buf)) t Hne) as X. rewrite <- A in X. exact X.
    + intros E c Hc. specialize (C E). destruct buf as [|c0 b]; [discriminate Hc|]. cbn in Hc. injection Hc as <-. exact C.
Qed.

Section Final.
Context {S : Type}.
Variable fl : flavour S.
Variable tb : table S.
Variables guard stop nl : list N.
Variable ent : list N -> option (N * N).
Variable c1 : N -> option N.
Variable sk : sinkcfg.
Variable seqb : S -> S -> bool.
Hypothesis seqb_eq : forall a b, seqb a b = true -> a = b.
Hypothesis Hstep : forall s, step_ok fl guard stop nl seqb (t_step tb s) = true.
Hypothesis Heof : forall s, ok_body false false (t_eof tb s) = true.

Definition regular (log : list sres) : Prop := ~ In (SPanic 98) log /\ ~ In (SPanic 97) log.

(* milestone: the flat queue with unit runs *)
Theorem bulk_flat_obs fuel inject chunks (m : mach S (list N)) log :
  let rf := drive_flat fl false tb (guard, stop, nl) ent c1 sk fuel inject chunks m log in
  regular (snd rf) ->
  exists k, forall j,
    let rs := drive_flat fl true tb (guard, stop, nl) ent c1 sk (k + j) inject chunks m log in
    snd rs = snd rf /\ obs (mout (fst rs)) = obs (mout (fst rf)) /\ ceq (mc (fst rs)) (mc (fst rf)) /\
    mq (fst rs) = mq (fst rf) /\ mcons (fst rs) = mcons (fst rf).
Proof.
  intros rf [H98 H97].
  exact (bulk_drive_obs [] fq_next fq_peek (@app N) (@app N) (fun q => q) fq_run1 flat_peek_next flat_run_ok
           fl tb guard stop nl ent c1 sk seqb seqb_eq Hstep Heof fuel inject chunks m log H98 H97).
Qed.

(* the chunked queue: runs up to the end of the first buffer, SIMD branch included *)
Theorem bulk_chunked_obs fuel inject chunks (m : mach S queue) log :
  let rf := drive_chunked fl false tb (guard, stop, nl) ent c1 sk fuel inject chunks m log in
  regular (snd rf) ->
  exists k, forall j,
    let rs := drive_chunked fl true tb (guard, stop, nl) ent c1 sk (k + j) inject chunks m log in
    snd rs = snd rf /\ obs (mout (fst rs)) = obs (mout (fst rf)) /\ ceq (mc (fst rs)) (mc (fst rf)) /\
    mq (fst rs) = mq (fst rf) /\ mcons (fst rs) = mcons (fst rf).
Proof.
  intros rf [H98 H97].
  exact (bulk_drive_obs [] qnext qpeek qpush_front qpush_back qflat qrun_chunked chunked_peek_next chunked_run_ok
           fl tb guard stop nl ent c1 sk seqb seqb_eq Hstep Heof fuel inject chunks m log H98 H97).
Qed.

(* ... and against the reference semantics (flat queue, unit reads, exact mode) through TokIR/QueueSim.v *)
Theorem bulk_chunked_reference fuel inject chunks (m : mach S queue) log :
  wfq (mq m) ->
  let rf := drive_chunked fl false tb (guard, stop, nl) ent c1 sk fuel inject chunks m log in
  regular (snd rf) ->
  exists k, forall j,
    let rs := drive_flat fl true tb (guard, stop, nl) ent c1 sk (k + j) inject chunks
                (mkmach (mc m) (qflat (mq m)) (mout m) (mcons m)) log in
    snd rs = snd rf /\ obs (mout (fst rs)) = obs (mout (fst rf)) /\ ceq (mc (fst rs)) (mc (fst rf)) /\
    mq (fst rs) = qflat (mq (fst rf)) /\ mcons (fst rs) = mcons (fst rf).
Proof.
  intros Hw rf Hreg. destruct (bulk_chunked_obs fuel inject chunks m log Hreg) as (k & A). exists k. intros j.
  pose proof (A j) as Aj. cbv zeta in Aj. fold rf in Aj.
  pose proof (chunked_is_reference_exact fl tb (guard, stop, nl) ent c1 sk (k + j) inject chunks m log Hw) as B. cbv zeta in B.
  cbv zeta.
  set (rc := drive_chunked fl true tb (guard, stop, nl) ent c1 sk (k + j) inject chunks m log) in *.
  set (rs := drive_flat fl true tb (guard, stop, nl) ent c1 sk (k + j) inject chunks
               (mkmach (mc m) (qflat (mq m)) (mout m) (mcons m)) log) in *.
  clearbody rc rs rf. clear A.
  destruct Aj as (A1 & A2 & A3 & A4 & A5). destruct B as (_ & B1 & B2 & B3 & B4 & B5).
  split; [rewrite <- B5; exact A1|]. split; [rewrite <- B3; exact A2|]. split; [rewrite <- B1; exact A3|].
  split; [rewrite <- B2, A4; reflexivity|rewrite <- B4; exact A5].
Qed.
End Final.
