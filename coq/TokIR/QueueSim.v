(* T2 for exact_errors = true: the TokIR interpreter over ANY input queue whose operations are adequate for their
   flat reading (next / peek / push_front / push_back / flat agree with list operations on the flattened content)
   behaves exactly like the interpreter over the flat queue - same tokens with parse errors and line numbers, same
   configuration, same results - because with exact_errors the interpreter never takes a bulk read.
   Instantiated on the chunked queue (list of non-empty buffers, the mirror of BufferQueue that runs against the
   Rust code), and combined with TokIR/Chunk.v: in exact mode the chunked interpreter is chunk-independent too. *)
From Coq Require Import List NArith Bool Lia Arith.
From RecordUpdate Require Import RecordSet.
From HV Require Import TokIR.IR TokIR.Interp TokIR.Checks.
Import ListNotations RecordSetNotations.
Local Open Scope N_scope.

Section Sim.
Context {S Q : Type}.
Variable Qemp : Q.
Variable Qnext : Q -> option (N * Q).
Variable Qpeek : Q -> option N.
Variable Qpushf : list N -> Q -> Q.
Variable Qpushb : Q -> list N -> Q.
Variable Qflat : Q -> list N.
Variable Qrun : (N -> bool) -> Q -> list N * Q.
Variable QI : Q -> Prop.                  (* representation invariant of the queue *)

Hypothesis emp_ok : QI Qemp /\ Qflat Qemp = [].
Hypothesis next_ok : forall q, QI q ->
  match Qnext q with Some (c, q') => QI q' /\ Qflat q = c :: Qflat q' | None => Qflat q = [] end.
Hypothesis peek_ok : forall q, QI q -> Qpeek q = hd_error (Qflat q).
Hypothesis pushf_ok : forall b q, QI q -> QI (Qpushf b q) /\ Qflat (Qpushf b q) = b ++ Qflat q.
Hypothesis pushb_ok : forall q b, QI q -> QI (Qpushb q b) /\ Qflat (Qpushb q b) = Qflat q ++ b.

Variable fl : flavour S.
Variable tb : table S.
Variable simd : list N * list N * list N.
Variable ent : list N -> option (N * N).
Variable c1 : N -> option N.
Variable sk : sinkcfg.

Notation MQ := (mach S Q).
Notation MF := (mach S (list N)).
Notation fid := (fun q : list N => q).

Definition absm (m : MQ) : MF := mkmach (mc m) (Qflat (mq m)) (mout m) (mcons m).
Definition OK (m : MQ) : Prop := QI (mq m).

(* ---------------------------------------------------------------- no queue involved *)
Lemma abs_upd f (m : MQ) : absm (upd f m) = upd f (absm m). Proof. destruct m; reflexivity. Qed.
Lemma abs_emit t (m : MQ) : absm (emit t m) = emit t (absm m). Proof. destruct m; reflexivity. Qed.
Lemma abs_err (m : MQ) : absm (err m) = err (absm m). Proof. apply abs_emit. Qed.
Lemma abs_took n (m : MQ) : absm (took n m) = took n (absm m). Proof. destruct m; reflexivity. Qed.
Lemma abs_gave n (m : MQ) : absm (gave n m) = gave n (absm m). Proof. destruct m; reflexivity. Qed.
Lemma abs_mc (m : MQ) : mc (absm m) = mc m. Proof. reflexivity. Qed.
Lemma abs_mq (m : MQ) : mq (absm m) = Qflat (mq m). Proof. reflexivity. Qed.
Lemma abs_setq q (m : MQ) : absm (m <| mq := q |>) = (absm m) <| mq := Qflat q |>. Proof. destruct m; reflexivity. Qed.
Lemma OK_upd f (m : MQ) : OK (upd f m) <-> OK m. Proof. destruct m; reflexivity. Qed.
Lemma OK_emit t (m : MQ) : OK (emit t m) <-> OK m. Proof. destruct m; reflexivity. Qed.
Lemma OK_err (m : MQ) : OK (err m) <-> OK m. Proof. apply OK_emit. Qed.
Lemma OK_took n (m : MQ) : OK (took n m) <-> OK m. Proof. destruct m; reflexivity. Qed.
Lemma OK_gave n (m : MQ) : OK (gave n m) <-> OK m. Proof. destruct m; reflexivity. Qed.
Lemma OK_setq q (m : MQ) : OK (m <| mq := q |>) <-> QI q. Proof. destruct m; reflexivity. Qed.

(* the queue operations, read on machines *)
Lemma next_none (m : MQ) : OK m -> Qnext (mq m) = None -> fq_next (mq (absm m)) = None.
Proof. intros H E. pose proof (next_ok _ H) as N0. rewrite E in N0. cbn. rewrite N0. reflexivity. Qed.
Lemma next_some (m : MQ) c q' : OK m -> Qnext (mq m) = Some (c, q') ->
  QI q' /\ fq_next (mq (absm m)) = Some (c, Qflat q').
Proof. intros H E. pose proof (next_ok _ H) as N0. rewrite E in N0. destruct N0 as [A B]. split; [exact A|]. cbn. rewrite B. reflexivity. Qed.
Lemma peek_abs (m : MQ) : OK m -> Qpeek (mq m) = fq_peek (mq (absm m)).
Proof. intros H. rewrite (peek_ok _ H). cbn. destruct (Qflat (mq m)); reflexivity. Qed.

(* result pairs: same value, invariant kept, abstraction commutes *)
Definition simP {A} (r : A * MQ) (r' : A * MF) : Prop := fst r = fst r' /\ OK (snd r) /\ absm (snd r) = snd r'.
Definition simM (m : MQ) (m' : MF) : Prop := OK m /\ absm m = m'.
Lemma simP_intro {A} (a : A) m m' : OK m -> absm m = m' -> simP (a, m) (a, m').
Proof. intros H E. repeat split; assumption. Qed.

Variable ex : bool.
Notation gpc_skipQ := (@gpc_skip S Q Qnext).
Notation gpc_skipF := (@gpc_skip S (list N) fq_next).
Notation gpc_postQ := (@gpc_post S Q fl ex).
Notation gpc_postF := (@gpc_post S (list N) fl ex).
Notation gpcQ := (@get_preprocessed_char S Q Qnext fl ex).
Notation gpcF := (@get_preprocessed_char S (list N) fq_next fl ex).
Notation get_charQ := (@get_char S Q Qnext fl ex).
Notation get_charF := (@get_char S (list N) fq_next fl ex).
Notation peekQ := (@peek S Q Qpeek).
Notation peekF := (@peek S (list N) fq_peek).
Notation discard_charQ := (@discard_char S Q Qnext fl ex).
Notation discard_charF := (@discard_char S (list N) fq_next fl ex).
Notation discard_wsQ := (@discard_ws S Q Qnext fl ex).
Notation discard_wsF := (@discard_ws S (list N) fq_next fl ex).

Lemma gpc_skip_sim c (m : MQ) : OK m -> simP (gpc_skipQ c m) (gpc_skipF c (absm m)).
Proof.
  intros H. unfold gpc_skip. rewrite abs_mc.
  destruct (ignore_lf (mc m)); [|apply simP_intro; auto].
  destruct (c =? LF).
  - set (m1 := upd (fun x => x <| ignore_lf := false |>) m).
    assert (H1 : OK m1) by (apply OK_upd; exact H).
    rewrite <- abs_upd. fold m1.
    destruct (Qnext (mq m1)) as [[c' q']|] eqn:E.
    + destruct (next_some m1 c' q' H1 E) as [A B]. rewrite B.
      apply simP_intro; [apply OK_took, OK_setq; exact A|]. rewrite abs_took, abs_setq. reflexivity.
    + rewrite (next_none m1 H1 E). apply simP_intro; auto.
  - apply simP_intro; [apply OK_upd; exact H|apply abs_upd].
Qed.

Lemma gpc_post_sim c (m : MQ) : OK m -> simP (gpc_postQ c m) (gpc_postF c (absm m)).
Proof.
  intros H. unfold gpc_post. destruct (gpc_decide (f_html fl) ex c) as [[[c' a] b] d].
  apply simP_intro.
  - apply OK_upd. destruct d; [apply OK_err|]; (destruct b; [apply OK_upd|]); (destruct a; [apply OK_upd|]); exact H.
  - rewrite abs_upd. f_equal.
    destruct d; rewrite ?abs_err; destruct b; rewrite ?abs_upd; destruct a; rewrite ?abs_upd; reflexivity.
Qed.

Lemma gpc_sim c (m : MQ) : OK m -> simP (gpcQ c m) (gpcF c (absm m)).
Proof.
  intros H. unfold get_preprocessed_char.
  destruct (gpc_skip_sim c m H) as (A & B & C).
  destruct (gpc_skipQ c m) as [o m1]; destruct (gpc_skipF c (absm m)) as [o' m1']; cbn [fst snd] in *. subst o' m1'.
  destruct o as [d|]; [|apply simP_intro; auto].
  destruct (gpc_post_sim d m1 B) as (A2 & B2 & C2).
  destruct (gpc_postQ d m1) as [c2 m2]; destruct (gpc_postF d (absm m1)) as [c2' m2']; cbn [fst snd] in *. subst c2' m2'.
  apply simP_intro; auto.
Qed.

Lemma get_char_sim (m : MQ) : OK m -> simP (get_charQ m) (get_charF (absm m)).
Proof.
  intros H. unfold get_char. rewrite abs_mc.
  destruct (reconsume (mc m)).
  - apply simP_intro; [apply OK_upd; exact H|apply abs_upd].
  - destruct (Qnext (mq m)) as [[c q']|] eqn:E.
    + destruct (next_some m c q' H E) as [A B]. rewrite B.
      rewrite <- abs_setq, <- abs_took. apply gpc_sim. apply OK_took, OK_setq. exact A.
    + rewrite (next_none m H E). apply simP_intro; auto.
Qed.

Lemma peek_sim (m : MQ) : OK m -> peekQ m = peekF (absm m).
Proof. intros H. unfold peek. rewrite abs_mc. destruct (reconsume (mc m)); [reflexivity|apply peek_abs; exact H]. Qed.

Lemma discard_char_sim (m : MQ) : OK m -> simM (discard_charQ m) (discard_charF (absm m)).
Proof.
  intros H. unfold discard_char. destruct (f_html fl).
  - rewrite abs_mc. destruct (reconsume (mc m)).
    + split; [apply OK_upd; exact H|apply abs_upd].
    + destruct (Qnext (mq m)) as [[c q']|] eqn:E.
      * destruct (next_some m c q' H E) as [A B]. rewrite B.
        split; [apply OK_upd, OK_took, OK_setq; exact A|]. rewrite abs_upd, abs_took, abs_setq. reflexivity.
      * rewrite (next_none m H E). split; [apply OK_upd; exact H|apply abs_upd].
  - destruct (get_char_sim m H) as (_ & B & C). split; assumption.
Qed.

Lemma discard_ws_sim c (m : MQ) : OK m -> simM (discard_wsQ c m) (discard_wsF c (absm m)).
Proof.
  intros H. unfold discard_ws. rewrite abs_mc.
  destruct (discard_char_sim m H) as [A B]. rewrite <- B.
  destruct ((c =? CR) || ((c =? LF) && negb (ignore_lf (mc m)))).
  - split; [apply OK_upd, OK_upd; exact A|]. rewrite !abs_upd. reflexivity.
  - split; [apply OK_upd; exact A|]. rewrite abs_upd. reflexivity.
Qed.

Hypothesis Hex : ex = true.

Notation popQ := (@pop_except_from S Q Qnext Qpeek Qrun fl ex simd).
Notation popF := (@pop_except_from S (list N) fq_next fq_peek fq_run1 fl ex simd).
Lemma pop_sim set sm (m : MQ) : OK m -> simP (popQ set sm m) (popF set sm (absm m)).
Proof.
  intros H. unfold pop_except_from. rewrite abs_mc.
  replace (ex || reconsume (mc m) || ignore_lf (mc m)) with true by (rewrite Hex; reflexivity).
  destruct (get_char_sim m H) as (A & B & C).
  destruct (get_charQ m) as [o m1]; destruct (get_charF (absm m)) as [o' m1']; cbn [fst snd] in *. subst o' m1'.
  destruct o; apply simP_intro; auto.
Qed.

(* ---------------------------------------------------------------- eat *)
Notation QdropQ := (@Qdrop Q Qemp Qnext).
Notation QdropF := (@Qdrop (list N) [] fq_next).
Lemma Qdrop_sim n : forall q, QI q -> QI (QdropQ n q) /\ Qflat (QdropQ n q) = QdropF n (Qflat q).
Proof.
  induction n as [|n IH]; intros q H; cbn [Qdrop]; [split; auto|].
  pose proof (next_ok q H) as N0.
  destruct (Qnext q) as [[c q']|].
  - destruct N0 as [A B]. rewrite B. cbn [fq_next]. apply IH. exact A.
  - rewrite N0. cbn [fq_next]. exact emp_ok.
Qed.

Notation unconsumeQ := (@unconsume S Q Qpushf).
Notation unconsumeF := (@unconsume S (list N) (@app N)).
Lemma unconsume_sim b (m : MQ) : OK m -> simM (unconsumeQ b m) (unconsumeF b (absm m)).
Proof.
  intros H. unfold unconsume. destruct (pushf_ok b (mq m) H) as [A B].
  split.
  - apply OK_gave. destruct m; exact A.
  - rewrite abs_gave. f_equal. destruct m as [cf q o k]. unfold absm; cbn in *. rewrite B. reflexivity.
Qed.

Notation eat_bodyQ ae := (@eat_body S Q Qemp Qnext Qpeek Qpushf Qflat ae).
Notation eat_bodyF ae := (@eat_body S (list N) [] fq_next fq_peek (@app N) fid ae).
Notation eatQ ae := (@eat S Q Qemp Qnext Qpeek Qpushf Qflat fl ex ae).
Notation eatF ae := (@eat S (list N) [] fq_next fq_peek (@app N) fid fl ex ae).

Lemma eat_body_sim at_eof p e (m : MQ) : OK m -> simP (eat_bodyQ at_eof p e m) (eat_bodyF at_eof p e (absm m)).
Proof.
  intros H. unfold eat_body. rewrite abs_mc.
  destruct (unconsume_sim (temp_buf (mc m)) m H) as [A B]. rewrite <- B, <- abs_upd.
  set (m2 := upd (fun x => x <| temp_buf := [] |>) (unconsumeQ (temp_buf (mc m)) m)).
  assert (H2 : OK m2) by (apply OK_upd; exact A).
  assert (EQ : @Qeat Q Qpeek Qflat (negb e) p (mq m2) = @Qeat (list N) fq_peek fid (negb e) p (mq (absm m2))).
  { unfold Qeat. rewrite (peek_abs m2 H2). reflexivity. }
  rewrite EQ. destruct (Qeat fq_peek fid (negb e) p (mq (absm m2))).
  - destruct at_eof; [apply simP_intro; auto|].
    apply simP_intro.
    + apply OK_took, OK_upd, OK_setq. exact (proj1 emp_ok).
    + rewrite abs_took, abs_upd, abs_setq. rewrite (proj2 emp_ok). reflexivity.
  - apply simP_intro; auto.
  - destruct (Qdrop_sim (length p) (mq m2) H2) as [D1 D2].
    apply simP_intro; [apply OK_took, OK_setq; exact D1|].
    rewrite abs_took, abs_setq, D2. reflexivity.
Qed.

Lemma eat_sim at_eof p e (m : MQ) : OK m -> simP (eatQ at_eof p e m) (eatF at_eof p e (absm m)).
Proof.
  intros H. unfold eat. rewrite abs_mc.
  destruct (ignore_lf (mc m)); [|apply eat_body_sim; exact H].
  rewrite <- (peek_sim m H).
  destruct (peekQ m) as [c|].
  - assert (G : simM (if c =? LF then (if f_html fl then discard_charQ m
                                       else match Qnext (mq m) with Some (_, q') => took 1 (m <| mq := q' |>) | None => m end)
                      else m)
                     (if c =? LF then (if f_html fl then discard_charF (absm m)
                                       else match fq_next (mq (absm m)) with Some (_, q') => took 1 ((absm m) <| mq := q' |>) | None => absm m end)
                      else absm m)).
    { destruct (c =? LF); [|split; auto].
      destruct (f_html fl); [apply discard_char_sim; exact H|].
      destruct (Qnext (mq m)) as [[d q']|] eqn:E.
      - destruct (next_some m d q' H E) as [A B]. rewrite B.
        split; [apply OK_took, OK_setq; exact A|]. rewrite abs_took, abs_setq. reflexivity.
      - rewrite (next_none m H E). split; auto. }
    destruct G as [G1 G2]. rewrite <- G2, <- abs_upd. apply eat_body_sim. apply OK_upd. exact G1.
  - destruct at_eof; [|apply simP_intro; auto].
    rewrite <- abs_upd. apply eat_body_sim. apply OK_upd. exact H.
Qed.

(* ---------------------------------------------------------------- commands and terminators *)
Notation finish_attributeQ := (@finish_attribute S Q fl).
Notation finish_attributeF := (@finish_attribute S (list N) fl).
Notation discard_tagQ := (@discard_tag S Q fl).
Notation discard_tagF := (@discard_tag S (list N) fl).
Notation emit_charQ := (@emit_char S Q fl).
Notation emit_charF := (@emit_char S (list N) fl).
Notation emit_current_tagQ := (@emit_current_tag S Q fl sk).
Notation emit_current_tagF := (@emit_current_tag S (list N) fl sk).
Notation do_cmdQ := (@do_cmd S Q Qnext fl ex).
Notation do_cmdF := (@do_cmd S (list N) fq_next fl ex).
Notation do_termQ := (@do_term S Q fl sk).
Notation do_termF := (@do_term S (list N) fl sk).

Lemma finish_attribute_sim (m : MQ) : OK m -> simM (finish_attributeQ m) (finish_attributeF (absm m)).
Proof.
  intros H. unfold finish_attribute. rewrite abs_mc.
  destruct (attr_name (mc m)); [split; auto|].
  destruct (f_html fl).
  - destruct (existsb _ _).
    + split; [apply OK_upd, OK_err; exact H|rewrite abs_upd, abs_err; reflexivity].
    + split; [apply OK_upd; exact H|apply abs_upd].
  - destruct (existsb _ _).
    + split; [apply OK_upd, OK_err; exact H|rewrite abs_upd, abs_err; reflexivity].
    + destruct (qname_split _) as [p l]. split; [apply OK_upd; exact H|apply abs_upd].
Qed.
Lemma discard_tag_sim (m : MQ) : OK m -> simM (discard_tagQ m) (discard_tagF (absm m)).
Proof. intros H. unfold discard_tag. destruct (f_html fl); (split; [apply OK_upd; exact H|apply abs_upd]). Qed.
Lemma emit_char_sim c (m : MQ) : OK m -> simM (emit_charQ c m) (emit_charF c (absm m)).
Proof.
  intros H. unfold emit_char. destruct (f_html fl); [destruct (c =? 0)|]; (split; [apply OK_emit; exact H|apply abs_emit]).
Qed.

Lemma do_cmd_sim k c run (m : MQ) : OK m -> simM (do_cmdQ k c run m) (do_cmdF k c run (absm m)).
Proof.
  intros H.
  destruct k; cbn [do_cmd]; rewrite ?abs_mc;
    try match goal with |- context [match ?x with KPublic => _ | _ => _ end] => destruct x end;
    match goal with
    | |- simM (upd _ (discard_tagQ _)) _ =>
      destruct (discard_tag_sim m H) as [A B]; rewrite <- B; split; [apply OK_upd; exact A|apply abs_upd]
    | |- simM (upd _ (finish_attributeQ _)) _ =>
      destruct (finish_attribute_sim m H) as [A B]; rewrite <- B; split; [apply OK_upd; exact A|apply abs_upd]
    | |- simM (upd _ (emit _ _)) _ => split; [apply OK_upd, OK_emit; exact H|rewrite abs_upd, abs_emit; reflexivity]
    | |- simM (upd _ _) _ => split; [apply OK_upd; exact H|apply abs_upd]
    | |- simM (discard_tagQ _) _ => apply discard_tag_sim; exact H
    | |- simM (discard_charQ _) _ => apply discard_char_sim; exact H
    | |- simM (discard_wsQ _ _) _ => apply discard_ws_sim; exact H
    | |- simM (emit_charQ _ _) _ => apply emit_char_sim; exact H
    | |- simM (err _) _ => split; [apply OK_err; exact H|apply abs_err]
    | |- simM (emit _ _) _ => split; [apply OK_emit; exact H|apply abs_emit]
    end.
Qed.

Definition simR (r : MQ * sres) (r' : MF * sres) : Prop := OK (fst r) /\ absm (fst r) = fst r' /\ snd r = snd r'.
Lemma simR_intro m m' r : OK m -> absm m = m' -> simR (m, r) (m', r).
Proof. intros; repeat split; assumption. Qed.

Lemma emit_current_tag_sim (m : MQ) : OK m -> simR (emit_current_tagQ m) (emit_current_tagF (absm m)).
Proof.
  intros H. unfold emit_current_tag.
  destruct (finish_attribute_sim m H) as [A B]. rewrite <- B. rewrite !abs_mc.
  set (m1 := finish_attributeQ m) in *.
  destruct (f_html fl).
  - destruct (tag_kind (mc m1)) eqn:Ek;
      destruct (lookup_resp (tag_name (mc m1)) (sk_resp sk)) as [[]|];
      destruct (tag_attrs (mc m1)); destruct (tag_self (mc m1));
      (apply simR_intro; [repeat first [apply OK_upd | apply OK_emit | apply OK_err]; exact A
                         |rewrite ?abs_upd, ?abs_emit, ?abs_err, ?abs_upd, ?abs_emit, ?abs_err, ?abs_upd; reflexivity]).
  - destruct (tag_kind (mc m1)) eqn:Ek;
      destruct (lookup_resp (tag_name (mc m1)) (sk_resp sk)) as [[]|];
      destruct (tag_attrs (mc m1));
      (apply simR_intro; [repeat first [apply OK_upd | apply OK_emit | apply OK_err]; exact A
                         |rewrite ?abs_upd, ?abs_emit, ?abs_err, ?abs_upd, ?abs_emit, ?abs_err, ?abs_upd; reflexivity]).
Qed.

Lemma do_term_sim t (m : MQ) : OK m -> simR (do_termQ t m) (do_termF t (absm m)).
Proof.
  intros H. destruct t; cbn [do_term]; rewrite ?abs_mc.
  - apply simR_intro; auto.
  - apply simR_intro; auto.
  - apply simR_intro; [apply OK_upd; exact H|apply abs_upd].
  - apply simR_intro; [apply OK_upd; exact H|apply abs_upd].
  - apply simR_intro; [apply OK_upd; exact H|apply abs_upd].
  - rewrite <- abs_upd. apply emit_current_tag_sim. apply OK_upd. exact H.
  - destruct k; rewrite <- abs_upd; apply emit_current_tag_sim; apply OK_upd; exact H.
  - apply simR_intro; [apply OK_upd, OK_emit; exact H|rewrite abs_upd, abs_emit; reflexivity].
  - apply simR_intro; [apply OK_emit; exact H|apply abs_emit].
Qed.

Lemma ceval_cond_sim k c (m : MQ) : @ceval_cond S Q sk k c m = @ceval_cond S (list N) sk k c (absm m).
Proof. destruct k; reflexivity. Qed.

Notation execQ ae := (@exec S Q Qemp Qnext Qpeek Qpushf Qflat Qrun fl ex simd sk ae).
Notation execF ae := (@exec S (list N) [] fq_next fq_peek (@app N) fid fq_run1 fl ex simd sk ae).

Lemma exec_sim at_eof b : forall c run (m : MQ), OK m -> simR (execQ at_eof b c run m) (execF at_eof b c run (absm m)).
Proof.
  induction b as [rk k IH|set sm krun IHr kchar IHc|p e y IHy n IHn|k y IHy n IHn|k r IH|t]; intros c run m H; cbn [exec].
  - destruct rk.
    + destruct (get_char_sim m H) as (A & B & C).
      destruct (get_charQ m) as [o m1]; destruct (get_charF (absm m)) as [o' m1']; cbn [fst snd] in *. subst o' m1'.
      destruct o as [c'|]; [apply IH; exact B|apply simR_intro; auto].
    + rewrite <- (peek_sim m H). destruct (peekQ m) as [c'|]; [apply IH; exact H|apply simR_intro; auto].
  - destruct (pop_sim set sm m H) as (A & B & C).
    destruct (popQ set sm m) as [o m1]; destruct (popF set sm (absm m)) as [o' m1']; cbn [fst snd] in *. subst o' m1'.
    destruct o as [|c'|r]; [apply simR_intro; auto|apply IHc; exact B|apply IHr; exact B].
  - destruct (eat_sim at_eof p e m H) as (A & B & C).
    destruct (eatQ at_eof p e m) as [o m1]; destruct (eatF at_eof p e (absm m)) as [o' m1']; cbn [fst snd] in *. subst o' m1'.
    destruct o as [[|]|]; [apply IHy; exact B|apply IHn; exact B|apply simR_intro; auto].
  - rewrite <- ceval_cond_sim. destruct (ceval_cond sk k c m); [apply IHy|apply IHn]; exact H.
  - destruct (do_cmd_sim k c run m H) as [A B]. rewrite <- B. apply IH. exact A.
  - apply do_term_sim. exact H.
Qed.

(* ---------------------------------------------------------------- the character-reference sub-tokenizer *)
Notation finish_numericQ := (@finish_numeric S Q c1).
Notation finish_numericF := (@finish_numeric S (list N) c1).
Notation unconsume_numericQ := (@unconsume_numeric S Q Qpushf).
Notation unconsume_numericF := (@unconsume_numeric S (list N) (@app N)).
Notation finish_namedQ := (@finish_named S Q Qpushf fl).
Notation finish_namedF := (@finish_named S (list N) (@app N) fl).
Notation discard_rawQ := (@discard_raw S Q Qnext fl ex).
Notation discard_rawF := (@discard_raw S (list N) fq_next fl ex).
Notation cr_readQ := (@cr_read S Q Qnext Qpeek fl ex).
Notation cr_readF := (@cr_read S (list N) fq_next fq_peek fl ex).
Notation cr_stepQ := (@cr_step S Q Qnext Qpeek Qpushf fl ex ent c1).
Notation cr_stepF := (@cr_step S (list N) fq_next fq_peek (@app N) fl ex ent c1).
Notation process_char_refQ := (@process_char_ref S Q fl).
Notation process_char_refF := (@process_char_ref S (list N) fl).
Notation cr_eofQ := (@cr_eof S Q Qpushf fl c1).
Notation cr_eofF := (@cr_eof S (list N) (@app N) fl c1).

Lemma finish_numeric_sim cr (m : MQ) : OK m -> simP (finish_numericQ cr m) (finish_numericF cr (absm m)).
Proof.
  intros H. unfold finish_numeric.
  repeat match goal with |- context [if ?b then _ else _] => destruct b end;
    (apply simP_intro; [try apply OK_err; exact H|rewrite ?abs_err; reflexivity]).
Qed.
Lemma unconsume_numeric_sim cr (m : MQ) : OK m -> simP (unconsume_numericQ cr m) (unconsume_numericF cr (absm m)).
Proof.
  intros H. unfold unconsume_numeric.
  destruct (unconsume_sim (35 :: match cr_hex cr with Some c => [c] | None => [] end) m H) as [A B].
  apply simP_intro; [apply OK_err; exact A|rewrite abs_err, B; reflexivity].
Qed.
Lemma finish_named_sim cr e (m : MQ) : OK m -> simP (finish_namedQ cr e m) (finish_namedF cr e (absm m)).
Proof.
  intros H. unfold finish_named. destruct (cr_match cr) as [[a b]|].
  - set (nl := cr_len cr). set (last := nth (nl - 1) (cr_buf cr) 0). set (na := nth_error (cr_buf cr) nl).
    set (ia := if f_html fl then cr_attr cr else match cr_addnl cr with Some _ => true | None => false end).
    destruct (if last =? 59 then (false, false)
              else match ia, na with
                   | true, Some c => if c =? 61 then (true, negb (f_html fl)) else if is_alnum c then (true, false) else (false, true)
                   | _, _ => (false, true)
                   end) as [unc e0].
    destruct unc.
    + destruct (unconsume_sim (cr_buf cr) m H) as [A B].
      apply simP_intro; [destruct e0; [apply OK_err|]; exact A|destruct e0; rewrite ?abs_err, B; reflexivity].
    + destruct (unconsume_sim (skipn nl (cr_buf cr)) m H) as [A B].
      apply simP_intro.
      * destruct (f_html fl); [apply OK_upd|]; (destruct e0; [apply OK_err|]); exact A.
      * destruct (f_html fl); rewrite ?abs_upd; destruct e0; rewrite ?abs_err, B; reflexivity.
  - destruct e as [c|].
    + destruct (is_alnum c); [apply simP_intro; auto|].
      destruct (unconsume_sim (cr_buf cr) m H) as [A B].
      destruct ((c =? 59) && _); (apply simP_intro; [try apply OK_err; exact A|rewrite ?abs_err, B; reflexivity]).
    + destruct (unconsume_sim (cr_buf cr) m H) as [A B]. apply simP_intro; auto.
Qed.
Lemma discard_raw_sim (m : MQ) : OK m -> simM (discard_rawQ m) (discard_rawF (absm m)).
Proof.
  intros H. unfold discard_raw. destruct (f_html fl); [apply discard_char_sim; exact H|].
  rewrite abs_mc. destruct (reconsume (mc m)); [split; [apply OK_upd; exact H|apply abs_upd]|].
  destruct (Qnext (mq m)) as [[c q']|] eqn:E.
  - destruct (next_some m c q' H E) as [A B]. rewrite B.
    split; [apply OK_took, OK_setq; exact A|]. rewrite abs_took, abs_setq. reflexivity.
  - rewrite (next_none m H E). split; auto.
Qed.
Lemma cr_read_sim (m : MQ) : OK m -> simP (cr_readQ m) (cr_readF (absm m)).
Proof.
  intros H. unfold cr_read. rewrite <- (peek_sim m H).
  destruct (peekQ m) as [c|]; [|apply simP_intro; auto].
  destruct (discard_raw_sim m H) as [A B]. apply simP_intro; auto.
Qed.

Ltac use_pair L :=
  let A := fresh "A" in let B := fresh "B" in let C := fresh "C" in
  destruct L as (A & B & C);
  match goal with
  | |- context [match ?x with (_, _) => _ end] => idtac
  | _ => idtac
  end.

Lemma cr_step_sim cr (m : MQ) : OK m -> simP (cr_stepQ cr m) (cr_stepF cr (absm m)).
Proof.
  intros H. unfold cr_step. destruct (cr_st cr).
  - rewrite <- (peek_sim m H). destruct (peekQ m) as [c|]; [|apply simP_intro; auto].
    repeat match goal with |- context [if ?b then _ else _] => destruct b end;
      first [apply simP_intro; [exact H|reflexivity]
            |destruct (discard_char_sim m H) as [A B]; apply simP_intro; assumption].
  - rewrite <- (peek_sim m H). destruct (peekQ m) as [c|]; [|apply simP_intro; auto].
    destruct ((c =? 120) || (c =? 88)); [|apply simP_intro; auto].
    destruct (discard_char_sim m H) as [A B]; apply simP_intro; assumption.
  - rewrite <- (peek_sim m H). destruct (peekQ m) as [c|]; [|apply simP_intro; auto].
    destruct (to_digit _ c).
    + destruct (discard_char_sim m H) as [A B]; apply simP_intro; assumption.
    + destruct (negb (cr_seen cr)); [apply unconsume_numeric_sim; exact H|apply simP_intro; auto].
  - rewrite <- (peek_sim m H). destruct (peekQ m) as [c|]; [|apply simP_intro; auto].
    assert (G : simM (if c =? 59 then discard_charQ m else err m) (if c =? 59 then discard_charF (absm m) else err (absm m))).
    { destruct (c =? 59); [apply discard_char_sim; exact H|split; [apply OK_err; exact H|apply abs_err]]. }
    destruct G as [G1 G2]. rewrite <- G2.
    destruct (finish_numeric_sim cr _ G1) as (A & B & C).
    destruct (finish_numericQ cr (if c =? 59 then discard_charQ m else err m)) as [ch m2];
      destruct (finish_numericF cr (absm (if c =? 59 then discard_charQ m else err m))) as [ch' m2'];
      cbn [fst snd] in *. subst ch' m2'. apply simP_intro; auto.
  - destruct (cr_read_sim m H) as (A & B & C).
    destruct (cr_readQ m) as [o m1]; destruct (cr_readF (absm m)) as [o' m1']; cbn [fst snd] in *. subst o' m1'.
    destruct o as [c|]; [|apply simP_intro; auto].
    destruct (ent _) as [[a b]|]; [apply simP_intro; auto|].
    apply finish_named_sim. exact B.
  - destruct (cr_read_sim m H) as (A & B & C).
    destruct (cr_readQ m) as [o m1]; destruct (cr_readF (absm m)) as [o' m1']; cbn [fst snd] in *. subst o' m1'.
    destruct o as [c|]; [|apply simP_intro; auto].
    destruct (is_alnum c); [apply simP_intro; auto|].
    destruct (unconsume_sim (cr_buf (cr <| cr_buf ::= (fun b => b ++ [c]) |>)) m1 B) as [A2 B2].
    destruct (c =? 59); (apply simP_intro; [try apply OK_err; exact A2|rewrite ?abs_err, B2; reflexivity]).
Qed.

Lemma process_char_ref_sim chars (m : MQ) : OK m ->
  OK (fst (process_char_refQ chars m)) /\ absm (fst (process_char_refQ chars m)) = fst (process_char_refF chars (absm m)) /\
  snd (process_char_refQ chars m) = snd (process_char_refF chars (absm m)).
Proof.
  intros H. unfold process_char_ref.
  set (cs := match chars with [] => [38] | _ => chars end). clearbody cs.
  revert m H. generalize false as bad.
  induction cs as [|c cs IH]; intros bad m H; cbn [fold_left fst snd]; [auto|].
  rewrite abs_mc.
  destruct (f_charref_emit fl (st (mc m))) as [[|]|].
  - rewrite <- abs_upd. apply IH. apply OK_upd. exact H.
  - destruct (emit_char_sim c m H) as [A B]. rewrite <- B. apply IH. exact A.
  - apply IH. exact H.
Qed.

Lemma cr_eof_sim cr (m : MQ) : OK m -> simP (cr_eofQ cr m) (cr_eofF cr (absm m)).
Proof.
  intros H. unfold cr_eof. destruct (cr_st cr).
  - apply simP_intro; auto.
  - destruct (unconsume_sim [35] m H) as [A B]. apply simP_intro; [apply OK_err; exact A|rewrite abs_err, B; reflexivity].
  - destruct (negb (cr_seen cr)).
    + destruct (unconsume_numeric_sim cr m H) as (A & B & C).
      destruct (unconsume_numericQ cr m) as [x m1]; destruct (unconsume_numericF cr (absm m)) as [x' m1']; cbn [fst snd] in *.
      subst m1'. apply simP_intro; auto.
    + rewrite <- abs_err. apply finish_numeric_sim. apply OK_err. exact H.
  - rewrite <- abs_err. apply finish_numeric_sim. apply OK_err. exact H.
  - destruct (finish_named_sim cr None m H) as (A & B & C).
    destruct (finish_namedQ cr None m) as [x m1]; destruct (finish_namedF cr None (absm m)) as [x' m1']; cbn [fst snd] in *.
    subst x' m1'. destruct x; apply simP_intro; auto.
  - destruct (unconsume_sim (cr_buf cr) m H) as [A B]. apply simP_intro; auto.
Qed.

(* ---------------------------------------------------------------- step / run / feed / end / drive *)
Notation stepQ ae := (@step S Q Qemp Qnext Qpeek Qpushf Qflat Qrun fl ex tb simd ent c1 sk ae).
Notation stepF ae := (@step S (list N) [] fq_next fq_peek (@app N) fid fq_run1 fl ex tb simd ent c1 sk ae).
Notation runQ ae := (@run S Q Qemp Qnext Qpeek Qpushf Qflat Qrun fl ex tb simd ent c1 sk ae).
Notation runF ae := (@run S (list N) [] fq_next fq_peek (@app N) fid fq_run1 fl ex tb simd ent c1 sk ae).

Lemma step_sim at_eof (m : MQ) : OK m -> simR (stepQ at_eof m) (stepF at_eof (absm m)).
Proof.
  intros H. unfold step. rewrite abs_mc.
  destruct (cref (mc m)) as [cr|]; [|apply exec_sim; exact H].
  destruct (cr_step_sim cr m H) as (A & B & C).
  destruct (cr_stepQ cr m) as [x m1]; destruct (cr_stepF cr (absm m)) as [x' m1']; cbn [fst snd] in *. subst x' m1'.
  destruct x as [|cr'|chars].
  - apply simR_intro; auto.
  - apply simR_intro; [apply OK_upd; exact B|apply abs_upd].
  - destruct (process_char_ref_sim chars m1 B) as (P1 & P2 & P3).
    destruct (process_char_refQ chars m1) as [m2 bad]; destruct (process_char_refF chars (absm m1)) as [m2' bad'];
      cbn [fst snd] in *. subst m2' bad'.
    apply simR_intro; [apply OK_upd; exact P1|apply abs_upd].
Qed.

Lemma run_sim at_eof fuel : forall (m : MQ), OK m -> simR (runQ at_eof fuel m) (runF at_eof fuel (absm m)).
Proof.
  induction fuel as [|f IH]; intros m H; cbn [run]; [apply simR_intro; auto|].
  destruct (step_sim at_eof m H) as (A & B & C).
  destruct (stepQ at_eof m) as [m1 r]; destruct (stepF at_eof (absm m)) as [m1' r']; cbn [fst snd] in *. subst m1' r'.
  destruct r; try (apply simR_intro; auto). apply IH. exact A.
Qed.

Notation feedQ := (@feed S Q Qemp Qnext Qpeek Qpushf Qflat Qrun fl ex tb simd ent c1 sk).
Notation feedF := (@feed S (list N) [] fq_next fq_peek (@app N) fid fq_run1 fl ex tb simd ent c1 sk).
Notation eof_loopQ := (@eof_loop S Q Qemp Qnext Qpeek Qpushf Qflat Qrun fl ex tb simd sk).
Notation eof_loopF := (@eof_loop S (list N) [] fq_next fq_peek (@app N) fid fq_run1 fl ex tb simd sk).
Notation tok_endQ := (@tok_end S Q Qemp Qnext Qpeek Qpushf Qflat Qrun fl ex tb simd ent c1 sk).
Notation tok_endF := (@tok_end S (list N) [] fq_next fq_peek (@app N) fid fq_run1 fl ex tb simd ent c1 sk).
Notation feed_loopQ := (@feed_loop S Q Qemp Qnext Qpeek Qpushf Qflat Qrun fl ex tb simd ent c1 sk).
Notation feed_loopF := (@feed_loop S (list N) [] fq_next fq_peek (@app N) fid fq_run1 fl ex tb simd ent c1 sk).
Notation driveQ := (@drive S Q Qemp Qnext Qpeek Qpushf Qpushb Qflat Qrun fl ex tb simd ent c1 sk).
Notation driveF := (@drive S (list N) [] fq_next fq_peek (@app N) (@app N) fid fq_run1 fl ex tb simd ent c1 sk).

Lemma feed_sim fuel (m : MQ) : OK m -> simR (feedQ fuel m) (feedF fuel (absm m)).
Proof.
  intros H. unfold feed. rewrite abs_mc, <- (peek_abs m H).
  destruct (Qpeek (mq m)) as [c|] eqn:P; [|apply simR_intro; auto].
  destruct (discard_bom (mc m)); [|apply run_sim; exact H].
  assert (G : simM (if c =? BOM then match Qnext (mq m) with Some (_, q') => took 1 (m <| mq := q' |>) | None => m end else m)
                   (if c =? BOM then match fq_next (mq (absm m)) with Some (_, q') => took 1 ((absm m) <| mq := q' |>) | None => absm m end
                    else absm m)).
  { destruct (c =? BOM); [|split; auto].
    destruct (Qnext (mq m)) as [[d q']|] eqn:E.
    - destruct (next_some m d q' H E) as [A B]. rewrite B.
      split; [apply OK_took, OK_setq; exact A|]. rewrite abs_took, abs_setq. reflexivity.
    - rewrite (next_none m H E). split; auto. }
  destruct G as [G1 G2]. rewrite <- G2, <- abs_upd. apply run_sim. apply OK_upd. exact G1.
Qed.

Lemma eof_loop_sim fuel : forall (m : MQ), OK m -> simR (eof_loopQ fuel m) (eof_loopF fuel (absm m)).
Proof.
  induction fuel as [|f IH]; intros m H; cbn [eof_loop]; [apply simR_intro; auto|].
  rewrite abs_mc.
  destruct (exec_sim true (t_eof tb (st (mc m))) 0 [] m H) as (A & B & C).
  destruct (execQ true (t_eof tb (st (mc m))) 0 [] m) as [m1 r];
    destruct (execF true (t_eof tb (st (mc m))) 0 [] (absm m)) as [m1' r']; cbn [fst snd] in *. subst m1' r'.
  destruct r; try (apply simR_intro; auto); try (destruct (f_html fl); [apply simR_intro; auto|apply IH; exact A]).
  apply IH. exact A.
Qed.

Lemma tok_end_sim fuel (m : MQ) : OK m -> simR (tok_endQ fuel m) (tok_endF fuel (absm m)).
Proof.
  intros H. unfold tok_end.
  set (m0 := m <| mq := Qemp |>).
  assert (H0 : OK m0) by (apply OK_setq; exact (proj1 emp_ok)).
  assert (E0 : absm m0 = (absm m) <| mq := [] |>) by (unfold m0; rewrite abs_setq, (proj2 emp_ok); reflexivity).
  rewrite <- E0. rewrite abs_mc.
  assert (G : let r := match cref (mc m0) with
                       | None => (m0, false)
                       | Some cr => let '(chars, m') := cr_eofQ cr (upd (fun x => x <| cref := None |>) m0) in process_char_refQ chars m'
                       end in
              let r' := match cref (mc m0) with
                        | None => (absm m0, false)
                        | Some cr => let '(chars, m') := cr_eofF cr (upd (fun x => x <| cref := None |>) (absm m0)) in process_char_refF chars m'
                        end in
              OK (fst r) /\ absm (fst r) = fst r' /\ snd r = snd r').
  { destruct (cref (mc m0)) as [cr|]; [|cbn; auto].
    rewrite <- abs_upd.
    destruct (cr_eof_sim cr (upd (fun x => x <| cref := None |>) m0)) as (A & B & C); [apply OK_upd; exact H0|].
    destruct (cr_eofQ cr (upd (fun x => x <| cref := None |>) m0)) as [chars m1];
      destruct (cr_eofF cr (absm (upd (fun x => x <| cref := None |>) m0))) as [chars' m1']; cbn [fst snd] in *. subst chars' m1'.
    apply process_char_ref_sim. exact B. }
  cbn zeta in G. destruct G as (G1 & G2 & G3).
  destruct (match cref (mc m0) with
            | None => (m0, false)
            | Some cr => let '(chars, m') := cr_eofQ cr (upd (fun x => x <| cref := None |>) m0) in process_char_refQ chars m'
            end) as [m1 bad].
  destruct (match cref (mc m0) with
            | None => (absm m0, false)
            | Some cr => let '(chars, m') := cr_eofF cr (upd (fun x => x <| cref := None |>) (absm m0)) in process_char_refF chars m'
            end) as [m1' bad'].
  cbn [fst snd] in *. subst m1' bad'.
  destruct bad; [apply simR_intro; auto|].
  destruct (run_sim true fuel m1 G1) as (A & B & C).
  destruct (runQ true fuel m1) as [m3 r]; destruct (runF true fuel (absm m1)) as [m3' r']; cbn [fst snd] in *. subst m3' r'.
  destruct r; try (apply simR_intro; auto); try (destruct (f_html fl); [apply simR_intro; auto|apply eof_loop_sim; exact A]).
  rewrite <- (peek_abs m3 A). destruct (Qpeek (mq m3)); [|apply eof_loop_sim; exact A].
  destruct (f_html fl); [apply simR_intro; auto|apply eof_loop_sim; exact A].
Qed.

Definition simL (r : MQ * list sres) (r' : MF * list sres) : Prop := OK (fst r) /\ absm (fst r) = fst r' /\ snd r = snd r'.

Lemma feed_loop_sim n fuel inject : forall (m : MQ) log, OK m ->
  simL (feed_loopQ n fuel inject m log) (feed_loopF n fuel inject (absm m) log).
Proof.
  induction n as [|n IH]; intros m log H; cbn [feed_loop]; [repeat split; auto|].
  destruct (feed_sim fuel m H) as (A & B & C).
  destruct (feedQ fuel m) as [m1 r]; destruct (feedF fuel (absm m)) as [m1' r']; cbn [fst snd] in *. subst m1' r'.
  destruct r; try (repeat split; auto; fail).
  - (* Script: push the injected text in front *)
    destruct (pushf_ok inject (mq m1) A) as [P1 P2].
    assert (E : absm (m1 <| mq ::= Qpushf inject |>) = (absm m1) <| mq ::= app inject |>).
    { destruct m1 as [cf q o k]. unfold absm; cbn in *. rewrite P2. reflexivity. }
    rewrite <- E. apply IH. destruct m1; exact P1.
  - apply IH. exact A.
Qed.

(* the whole driver: push each chunk, feed until done (script pauses inject text), finally end() *)
Theorem drive_sim fuel inject chunks : forall (m : MQ) log, OK m ->
  simL (driveQ fuel inject chunks m log) (driveF fuel inject chunks (absm m) log).
Proof.
  induction chunks as [|ch rest IH]; intros m log H; cbn [drive].
  - destruct (tok_end_sim fuel m H) as (A & B & C).
    destruct (tok_endQ fuel m) as [m1 r]; destruct (tok_endF fuel (absm m)) as [m1' r']; cbn [fst snd] in *. subst m1' r'.
    repeat split; auto.
  - destruct (pushb_ok (mq m) ch H) as [P1 P2].
    assert (E : absm (m <| mq ::= (fun q => Qpushb q ch) |>) = (absm m) <| mq ::= (fun q => q ++ ch) |>).
    { destruct m as [cf q o k]. unfold absm; cbn in *. rewrite P2. reflexivity. }
    assert (H1 : OK (m <| mq ::= (fun q => Qpushb q ch) |>)) by (destruct m; exact P1).
    destruct (feed_loop_sim 50 fuel inject _ log H1) as (A & B & C).
    rewrite E in B, C.
    destruct (feed_loopQ 50 fuel inject (m <| mq ::= (fun q => Qpushb q ch) |>) log) as [m1 l1];
      destruct (feed_loopF 50 fuel inject ((absm m) <| mq ::= (fun q => q ++ ch) |>) log) as [m1' l1'];
      cbn [fst snd] in *. subst m1' l1'. apply IH. exact A.
Qed.
End Sim.

(* ------------------------------------------------------------------ the chunked queue is adequate *)
Definition wfq (q : queue) : Prop := Forall (fun b => b <> []) q.

Lemma chunked_emp : wfq [] /\ qflat [] = [].
Proof. split; [constructor|reflexivity]. Qed.
Lemma chunked_next : forall q, wfq q ->
  match qnext q with Some (c, q') => wfq q' /\ qflat q = c :: qflat q' | None => qflat q = [] end.
Proof.
  intros q H. destruct q as [|b t]; [reflexivity|]. inversion H as [|? ? Hb Ht]; subst.
  destruct b as [|c r]; [contradiction|]. destruct r as [|d r]; cbn.
  - split; [exact Ht|reflexivity].
  - split; [constructor; [discriminate|exact Ht]|reflexivity].
Qed.
Lemma chunked_peek : forall q, wfq q -> qpeek q = hd_error (qflat q).
Proof.
  intros q H. destruct q as [|b t]; [reflexivity|]. inversion H as [|? ? Hb Ht]; subst.
  destruct b as [|c r]; [contradiction|]. reflexivity.
Qed.
Lemma chunked_pushf : forall b q, wfq q -> wfq (qpush_front b q) /\ qflat (qpush_front b q) = b ++ qflat q.
Proof.
  intros b q H. destruct b as [|c r]; [split; auto|]. split; [constructor; [discriminate|exact H]|reflexivity].
Qed.
Lemma chunked_pushb : forall q b, wfq q -> wfq (qpush_back q b) /\ qflat (qpush_back q b) = qflat q ++ b.
Proof.
  intros q b H. destruct b as [|c r]; [split; [exact H|unfold qpush_back; rewrite app_nil_r; reflexivity]|].
  unfold qpush_back, qflat. split.
  - apply Forall_app. split; [exact H|constructor; [discriminate|constructor]].
  - rewrite concat_app. cbn. rewrite app_nil_r. reflexivity.
Qed.

(* C03 / C15, T2 for exact_errors = true: the interpreter over the chunked queue (the one that runs against the Rust
   tokenizers) and the reference interpreter over the flat queue deliver the same tokens with parse errors and line
   numbers, end in the same configuration with the same unread input, and report the same results, for every table,
   flavour, sink script, injected text, fuel and list of chunks *)
Theorem chunked_is_reference_exact {S} (fl : flavour S) tb simd ent c1 sk fuel inject chunks (m : mach S queue) log :
  wfq (mq m) ->
  let r := drive_chunked fl true tb simd ent c1 sk fuel inject chunks m log in
  let r' := drive_flat fl true tb simd ent c1 sk fuel inject chunks (mkmach (mc m) (qflat (mq m)) (mout m) (mcons m)) log in
  wfq (mq (fst r)) /\
  mc (fst r) = mc (fst r') /\ qflat (mq (fst r)) = mq (fst r') /\ mout (fst r) = mout (fst r') /\ mcons (fst r) = mcons (fst r') /\
  snd r = snd r'.
Proof.
  intros H r r'.
  destruct (drive_sim [] qnext qpeek qpush_front qpush_back qflat qrun_chunked wfq
              chunked_emp chunked_next chunked_peek chunked_pushf chunked_pushb fl tb simd ent c1 sk true eq_refl
              fuel inject chunks m log H) as (A & B & C).
  change (drive [] qnext qpeek qpush_front qpush_back qflat qrun_chunked fl true tb simd ent c1 sk fuel inject chunks m log)
    with r in A, B, C.
  change (drive [] fq_next fq_peek (@app N) (@app N) (fun q : list N => q) fq_run1 fl true tb simd ent c1 sk fuel inject chunks
                (absm qflat m) log) with r' in B, C.
  split; [exact A|]. rewrite <- B, <- C. unfold absm. cbn. repeat split; reflexivity.
Qed.
