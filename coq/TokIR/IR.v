(* TokIR: the tokenizers' step()/eof_step() as data.  gen/rs2ir.py translates the
   go!/shorthand! DSL of html5ever/src/tokenizer/mod.rs and
   xml5ever/src/tokenizer/mod.rs into values of these types (coq/Gen/Gen*Tok.v,
   regenerated on every run); TokIR/Interp.v gives them meaning. *)
From Coq Require Import List NArith Bool.
Import ListNotations.
Local Open Scope N_scope.

Definition str := list N.

(* parameters of parametrised Rust states (RawKind, ScriptEscapeKind, DoctypeIdKind, AttrValueKind) *)
Inductive kind :=
| KRcdata | KRawtext | KScriptData | KScriptDataEscaped (k : kind)
| KEscaped | KDoubleEscaped | KPublic | KSystem | KUnquoted | KSingleQuoted | KDoubleQuoted.

Fixpoint kind_eqb (a b : kind) : bool :=
  match a, b with
  | KRcdata, KRcdata | KRawtext, KRawtext | KScriptData, KScriptData
  | KEscaped, KEscaped | KDoubleEscaped, KDoubleEscaped | KPublic, KPublic | KSystem, KSystem
  | KUnquoted, KUnquoted | KSingleQuoted, KSingleQuoted | KDoubleQuoted, KDoubleQuoted => true
  | KScriptDataEscaped x, KScriptDataEscaped y => kind_eqb x y
  | _, _ => false
  end.

(* html5ever::tokenizer::states::State *)
Inductive hstate :=
| HData | HPlaintext | HTagOpen | HEndTagOpen | HTagName
| HRawData (k : kind) | HRawLessThanSign (k : kind) | HRawEndTagOpen (k : kind) | HRawEndTagName (k : kind)
| HScriptDataEscapeStart (k : kind) | HScriptDataEscapeStartDash
| HScriptDataEscapedDash (k : kind) | HScriptDataEscapedDashDash (k : kind) | HScriptDataDoubleEscapeEnd
| HBeforeAttributeName | HAttributeName | HAfterAttributeName | HBeforeAttributeValue
| HAttributeValue (k : kind) | HAfterAttributeValueQuoted | HSelfClosingStartTag
| HBogusComment | HMarkupDeclarationOpen | HCommentStart | HCommentStartDash | HComment
| HCommentLessThanSign | HCommentLessThanSignBang | HCommentLessThanSignBangDash
| HCommentLessThanSignBangDashDash | HCommentEndDash | HCommentEnd | HCommentEndBang
| HDoctype | HBeforeDoctypeName | HDoctypeName | HAfterDoctypeName
| HAfterDoctypeKeyword (k : kind) | HBeforeDoctypeIdentifier (k : kind)
| HDoctypeIdentifierDoubleQuoted (k : kind) | HDoctypeIdentifierSingleQuoted (k : kind)
| HAfterDoctypeIdentifier (k : kind) | HBetweenDoctypePublicAndSystemIdentifiers | HBogusDoctype
| HCdataSection | HCdataSectionBracket | HCdataSectionEnd.

(* xml5ever::tokenizer::states::XmlState *)
Inductive xstate :=
| XData | XTagState | XEndTagState | XEndTagName | XEndTagNameAfter
| XPi | XPiTarget | XPiTargetAfter | XPiData | XPiAfter
| XMarkupDecl | XCommentStart | XCommentStartDash | XComment | XCommentLessThan | XCommentLessThanBang
| XCommentLessThanBangDash | XCommentLessThanBangDashDash | XCommentEnd | XCommentEndDash | XCommentEndBang
| XCdata | XCdataBracket | XCdataEnd
| XTagName | XTagEmpty | XTagAttrNameBefore | XTagAttrName | XTagAttrNameAfter | XTagAttrValueBefore
| XTagAttrValue (k : kind)
| XDoctype | XBeforeDoctypeName | XDoctypeName | XAfterDoctypeName
| XAfterDoctypeKeyword (k : kind) | XBeforeDoctypeIdentifier (k : kind)
| XDoctypeIdentifierDoubleQuoted (k : kind) | XDoctypeIdentifierSingleQuoted (k : kind)
| XAfterDoctypeIdentifier (k : kind) | XBetweenDoctypePublicAndSystemIdentifiers | XBogusDoctype | XBogusComment.

Inductive tagkind := TStartTag | TEndTag | TShortTag | TEmptyTag.

(* character expressions inside commands *)
Inductive cexp := CLit (c : N) | CCur | CLower | CAsciiLower.

(* tests available to an arm *)
Inductive cond :=
| CIn (cs : list N)          (* current char is one of *)
| CRange (lo hi : N)
| CLetter                    (* lower_ascii_letter(c) is Some *)
| CTempIs (s : str)          (* temp_buf == literal *)
| CAppropriate               (* have_appropriate_end_tag() *)
| CForeign.                  (* sink.adjusted_current_node_present_but_not_in_html_namespace() *)

Inductive cmd :=
| CreateTag (k : tagkind) (e : cexp) | PushTag (e : cexp) | DiscardTag | DiscardChar | DiscardWs
| PushTemp (e : cexp) | ClearTemp | CreateAttr (e : cexp) | PushName (e : cexp) | PushValue (e : cexp)
| AppendValueRun | PushComment (e : cexp) | AppendComment (s : str) | EmitComment | ClearComment
| CreateDoctype | PushDoctypeName (e : cexp) | PushDoctypeId (k : kind) (e : cexp) | ClearDoctypeId (k : kind)
| ForceQuirks | EmitDoctype | Emit (e : cexp) | EmitRun | EmitTemp
| Error | ErrorEof | ErrorMsg | SetSelfClosing | SetEmptyTag
| CreatePi (e : cexp) | PushPiTarget (e : cexp) | PushPiData (e : cexp).

Inductive term (S : Type) :=
| Stay                         (* end of the `loop` body: iterate again in the same state *)
| Fall                         (* arm of a non-loop state fell through without go!(to ..) *)
| To (s : S) | Reconsume (s : S)
| ConsumeCharRef (addnl : option N)
| EmitTag (s : S) | EmitKind (k : tagkind) (s : S) | EmitPi (s : S)
| Eof.
Arguments Stay {S}. Arguments Fall {S}. Arguments To {S}. Arguments Reconsume {S}.
Arguments ConsumeCharRef {S}. Arguments EmitTag {S}. Arguments EmitKind {S}. Arguments EmitPi {S}.
Arguments Eof {S}.

Inductive rkind := RGet | RPeek.

(* an arm body: a decision tree of reads, tests and commands ending in a terminator *)
Inductive body (S : Type) :=
| BRead (r : rkind) (k : body S)                          (* get_char! / peek! ; Suspend when no input *)
| BPop (set : list N) (simd : bool) (krun kchar : body S) (* pop_except_from: NotFromSet(run) / FromSet(c) *)
| BEat (pat : str) (exact : bool) (yes no : body S)       (* eat! / eat_exact! ; Suspend when undecided *)
| BIf (c : cond) (yes no : body S)
| BCmd (c : cmd) (k : body S)
| BEnd (t : term S).
Arguments BRead {S}. Arguments BPop {S}. Arguments BEat {S}. Arguments BIf {S}. Arguments BCmd {S}.
Arguments BEnd {S}.

Record table (S : Type) := {
  t_states : list S;
  t_step : S -> body S;
  t_eof : S -> body S;
}.
Arguments t_states {S}. Arguments t_step {S}. Arguments t_eof {S}.
