(* Chunk independence at the level of the EXECUTABLE driver (reference semantics: flat queue, exact_errors = true):
   feeding the chunks of two chunkings of one input with the fuelled functions [feed] / [feed_loop] - the functions
   the correspondence check runs - ends in the same machine, provided neither run reports a panic or fuel exhaustion.
   Bridges the relational theorem of Chunk.v to the functions: on machines satisfying an invariant under which [run]
   is the relation (html: trivially; xml: J of ChunkInv.v) the driver loop is the relation [feeds]. *)
From Coq Require Import List NArith Bool Lia Arith.
From RecordUpdate Require Import RecordSet.
From HV Require Import TokIR.IR TokIR.Interp TokIR.Checks TokIR.Chunk TokIR.ChunkInv.
Import ListNotations RecordSetNotations.
Local Open Scope N_scope.

Section Exec.
Context {S : Type}.
Variable fl : flavour S.
Variable tb : table S.
Variable simd : list N * list N * list N.
Variable ent : list N -> option (N * N).
Variable c1 : N -> option N.
Variable sk : sinkcfg.

Notation M := (mach S (list N)).
Notation fid := (fun q : list N => q).
Notation runF := (@run S (list N) [] fq_next fq_peek (@app N) fid fq_run1 fl true tb simd ent c1 sk false).
Notation feedF := (@feed S (list N) [] fq_next fq_peek (@app N) fid fq_run1 fl true tb simd ent c1 sk).
Notation feed_loopF := (@feed_loop S (list N) [] fq_next fq_peek (@app N) fid fq_run1 fl true tb simd ent c1 sk).
Notation orunsF := (@oruns S fl true tb simd ent c1 sk).
Notation feedsF := (@feeds S fl true tb simd ent c1 sk).
Notation feed_chunksF := (@feed_chunks S fl true tb simd ent c1 sk).

Variable Inv : M -> Prop.
Hypothesis Hrun : forall fuel (m m' : M) r, Inv m -> runF fuel m = (m', r) -> (orunsF m m' r /\ Inv m') \/ r = SPanic 98.
Hypothesis Hext : forall x (m : M), Inv m -> Inv (ext x m).
Hypothesis Hinj : forall inj (m : M), Inv m -> Inv (m <| mq ::= app inj |>).
Hypothesis Hshape : forall s, shape fl (t_step tb s) = true.
Hypothesis Hnoeof : forall s, no_eof (t_step tb s) = true.

Definition nobom (m : M) : Prop := discard_bom (mc m) = false.
Hypothesis Hbom : forall fuel (m : M), nobom m -> nobom (fst (runF fuel m)).
Hypothesis Hbom_inj : forall inj (m : M), nobom m -> nobom (m <| mq ::= app inj |>).

Lemma pair_inv {A B} (a a' : A) (b b' : B) : (a, b) = (a', b') -> a = a' /\ b = b'.
Proof. intros H. split; [exact (f_equal fst H)|exact (f_equal snd H)]. Qed.

(* feed on a machine whose BOM flag is clear is run (or nothing, on an empty queue) *)
Lemma feed_nobom fuel (m : M) : nobom m ->
  feedF fuel m = match mq m with [] => (m, SSuspend) | _ => runF fuel m end.
Proof.
  intros H. unfold feed. destruct m as [cf q o k]. unfold nobom in H. cbn in *.
  destruct q as [|c q']; cbn; [reflexivity|]. rewrite H. reflexivity.
Qed.

(* a feed loop that ends with "done" (Suspend) is the relation [feeds] *)
Lemma feed_loop_feeds n fuel inj : forall (m m' : M) log rest,
  Inv m -> nobom m ->
  feed_loopF n fuel inj m log = (m', SSuspend :: rest) ->
  feedsF inj m m' /\ Inv m' /\ nobom m'.
Proof.
  induction n as [|n IH]; intros m m' log rest HI HB H; cbn [feed_loop] in H.
  { apply pair_inv in H. destruct H as [_ H]. discriminate H. }
  rewrite (feed_nobom fuel m HB) in H.
  destruct (mq m) as [|c q'] eqn:Eq.
  - apply pair_inv in H. destruct H as [E0 _]. subst m'. split; [apply fd_empty; exact Eq|auto].
  - destruct (runF fuel m) as [m1 r] eqn:ER.
    assert (NE : mq m <> []) by (rewrite Eq; discriminate).
    pose proof (Hbom fuel m HB) as HB1. rewrite ER in HB1. cbn [fst] in HB1.
    destruct (Hrun fuel m m1 r HI ER) as [[HO HI1]|HP].
    + destruct r.
      * apply pair_inv in H. destruct H as [_ H]. discriminate H.
      * apply pair_inv in H. destruct H as [E0 _]. subst m'. split; [apply fd_done; assumption|auto].
      * destruct (IH _ _ _ _ (Hinj inj m1 HI1) (Hbom_inj inj m1 HB1) H) as (F & I2 & B2).
        split; [eapply fd_script; eassumption|auto].
      * destruct (IH _ _ _ _ HI1 HB1 H) as (F & I2 & B2). split; [eapply fd_enc; eassumption|auto].
      * apply pair_inv in H. destruct H as [_ H]. discriminate H.
    + subst r. apply pair_inv in H. destruct H as [_ H]. discriminate H.
Qed.

(* feeding a list of chunks with the executable loop; the log collects what every feed reported *)
Fixpoint feed_all (n fuel : nat) (inj : list N) (chunks : list (list N)) (m : M) (log : list sres) : M * list sres :=
  match chunks with
  | [] => (m, log)
  | ch :: rest =>
    let '(m', log') := feed_loopF n fuel inj (m <| mq ::= (fun q => q ++ ch) |>) log in
    feed_all n fuel inj rest m' log'
  end.

(* every feed call ended with "done", a script pause or an encoding indicator: no panic, no fuel exhaustion *)
Definition all_done (log : list sres) : Prop :=
  Forall (fun r => r = SSuspend \/ r = SScript \/ r = SEncoding) log.

Lemma feed_loop_log n fuel inj : forall (m m' : M) log log',
  feed_loopF n fuel inj m log = (m', log') -> exists r pre, log' = r :: pre ++ log /\
  Forall (fun x => x = SScript \/ x = SEncoding) pre /\ r <> SScript /\ r <> SEncoding.
Proof.
  induction n as [|n IH]; intros m m' log log' H; cbn [feed_loop] in H.
  - injection H as _ <-. exists (SPanic 96), []. repeat split; [constructor|discriminate|discriminate].
  - destruct (feedF fuel m) as [m1 r].
    destruct r; try (injection H as _ <-; eexists _, []; repeat split; [constructor|discriminate|discriminate]).
    + destruct (IH _ _ _ _ H) as (r & pre & E & P & N1 & N2). exists r, (pre ++ [SScript]).
      rewrite <- app_assoc. cbn. split; [exact E|]. split; [|auto].
      apply Forall_app. split; [exact P|constructor; [auto|constructor]].
    + destruct (IH _ _ _ _ H) as (r & pre & E & P & N1 & N2). exists r, (pre ++ [SEncoding]).
      rewrite <- app_assoc. cbn. split; [exact E|]. split; [|auto].
      apply Forall_app. split; [exact P|constructor; [auto|constructor]].
Qed.

Lemma feed_all_log n fuel inj chunks : forall (m m' : M) log log',
  feed_all n fuel inj chunks m log = (m', log') -> exists pre, log' = pre ++ log.
Proof.
  induction chunks as [|ch rest IH]; intros m m' log log' H; cbn [feed_all] in H.
  - injection H as _ <-. exists []. reflexivity.
  - destruct (feed_loopF n fuel inj (m <| mq ::= (fun q => q ++ ch) |>) log) as [m1 l1] eqn:E.
    destruct (feed_loop_log _ _ _ _ _ _ _ E) as (r & pre & E1 & _).
    destruct (IH _ _ _ _ H) as [pre2 E2]. exists (pre2 ++ r :: pre). rewrite E2, E1, <- app_assoc. reflexivity.
Qed.

Lemma feed_all_chunks n fuel inj chunks : forall (m m' : M) log log',
  Inv m -> nobom m -> all_done log' ->
  feed_all n fuel inj chunks m log = (m', log') ->
  feed_chunksF inj m chunks m' /\ Inv m' /\ nobom m'.
Proof.
  induction chunks as [|ch rest IH]; intros m m' log log' HI HB HD H; cbn [feed_all] in H.
  - injection H as <- _. split; [constructor|auto].
  - destruct (feed_loopF n fuel inj (m <| mq ::= (fun q => q ++ ch) |>) log) as [m1 l1] eqn:E.
    destruct (feed_loop_log _ _ _ _ _ _ _ E) as (r & pre & E1 & P & N1 & N2).
    destruct (feed_all_log _ _ _ _ _ _ _ _ H) as [pre2 E2].
    assert (R : r = SSuspend).
    { subst log' l1. unfold all_done in HD. apply Forall_app in HD. destruct HD as [_ HD].
      inversion HD as [|? ? Hr _]; subst. destruct Hr as [?|[?|?]]; congruence. }
    subst r. rewrite E1 in E.
    assert (HI0 : Inv (m <| mq ::= (fun q => q ++ ch) |>)) by (apply (Hext ch m HI)).
    assert (HB0 : nobom (m <| mq ::= (fun q => q ++ ch) |>)) by (destruct m; exact HB).
    destruct (feed_loop_feeds _ _ _ _ _ _ _ HI0 HB0 E) as (F & I1 & B1).
    destruct (IH _ _ _ _ I1 B1 HD H) as (FC & I2 & B2).
    split; [econstructor; [exact F|exact FC]|auto].
Qed.

(* C03 / C15, executable form: two chunkings of one input, fed with the fuelled driver functions from the same
   machine, end in the same machine - tokens with parse errors and line numbers, configuration, unread input - as
   long as every feed call of both runs ended regularly (done / script pause / encoding indicator) *)
Theorem feed_all_chunking_independent n1 n2 fuel1 fuel2 inj cs1 cs2 (m m1 m2 : M) l1 l2 :
  Inv m -> nobom m ->
  all_nonempty cs1 -> all_nonempty cs2 -> cs1 <> [] -> cs2 <> [] -> concat cs1 = concat cs2 ->
  feed_all n1 fuel1 inj cs1 m [] = (m1, l1) -> all_done l1 ->
  feed_all n2 fuel2 inj cs2 m [] = (m2, l2) -> all_done l2 ->
  m1 = m2.
Proof.
  intros HI HB N1 N2 E1 E2 HC F1 D1 F2 D2.
  destruct (feed_all_chunks _ _ _ _ _ _ _ _ HI HB D1 F1) as (C1 & _).
  destruct (feed_all_chunks _ _ _ _ _ _ _ _ HI HB D2 F2) as (C2 & _).
  exact (chunking_independent fl true tb simd ent c1 sk eq_refl Hshape Hnoeof inj cs1 cs2 m m1 m2 N1 N2 E1 E2 HC C1 C2).
Qed.

(* the whole driver [drive] (= drive_flat) is feed_all followed by end() *)
Notation driveF := (@drive S (list N) [] fq_next fq_peek (@app N) (@app N) fid fq_run1 fl true tb simd ent c1 sk).
Notation tok_endF := (@tok_end S (list N) [] fq_next fq_peek (@app N) fid fq_run1 fl true tb simd ent c1 sk).
Lemma drive_is_feed_all fuel inj chunks : forall (m : M) log,
  driveF fuel inj chunks m log =
  (let '(m', l') := feed_all 50 fuel inj chunks m log in let '(m2, r) := tok_endF fuel m' in (m2, r :: l')).
Proof.
  induction chunks as [|ch rest IH]; intros m log; cbn [drive feed_all]; [reflexivity|].
  destruct (feed_loopF 50 fuel inj (m <| mq ::= (fun q => q ++ ch) |>) log) as [m1 l1]. apply IH.
Qed.

(* two chunkings of one input through the complete driver, end() included: same final machine and same result of
   end(), as long as every feed call of both runs ended regularly *)
Theorem drive_chunking_independent fuel inj cs1 cs2 (m : M) :
  Inv m -> nobom m ->
  all_nonempty cs1 -> all_nonempty cs2 -> cs1 <> [] -> cs2 <> [] -> concat cs1 = concat cs2 ->
  all_done (tl (snd (driveF fuel inj cs1 m []))) -> all_done (tl (snd (driveF fuel inj cs2 m []))) ->
  fst (driveF fuel inj cs1 m []) = fst (driveF fuel inj cs2 m []) /\
  hd SSuspend (snd (driveF fuel inj cs1 m [])) = hd SSuspend (snd (driveF fuel inj cs2 m [])).
Proof.
  intros HI HB N1 N2 E1 E2 HC. rewrite !drive_is_feed_all.
  destruct (feed_all 50 fuel inj cs1 m []) as [m1 l1] eqn:F1.
  destruct (feed_all 50 fuel inj cs2 m []) as [m2 l2] eqn:F2.
  destruct (tok_endF fuel m1) as [e1 r1] eqn:T1. destruct (tok_endF fuel m2) as [e2 r2] eqn:T2.
  cbn [snd fst tl hd]. intros D1 D2.
  assert (E : m1 = m2) by (eapply (feed_all_chunking_independent 50 50 fuel fuel inj cs1 cs2 m); eassumption).
  subst m2. rewrite T1 in T2. split; congruence.
Qed.

(* ---------------------------------------------------------------- the byte order mark
   With discard_bom set, the first feed that sees input looks at the first character of the stream, drops it if it
   is U+FEFF, and clears the flag.  On a machine with an empty queue this turns the run into a run with the flag clear:
   from the same machine if the stream does not start with U+FEFF, from the machine that has consumed one character
   and with the mark cut off the first chunk if it does.  (Not covered: a first chunk that consists of the mark alone.) *)
Definition clear_bom (m : M) : M := upd (fun x => x <| discard_bom := false |>) m.
Definition strip_first (cs : list (list N)) : list (list N) :=
  match cs with (c :: c') :: rest => c' :: rest | _ => cs end.

Lemma feed_bom_other fuel (m : M) c q : discard_bom (mc m) = true -> mq m = c :: q -> (c =? BOM) = false ->
  feedF fuel m = feedF fuel (clear_bom m).
Proof.
  intros HB Hq Hc. unfold feed. destruct m as [cf qq o k]. cbn in *. subst qq. cbn. rewrite HB, Hc.
  destruct cf; reflexivity.
Qed.
Lemma feed_bom_mark fuel (m : M) d q : discard_bom (mc m) = true -> mq m = BOM :: d :: q ->
  feedF fuel m = feedF fuel (took 1 (clear_bom (m <| mq := d :: q |>))).
Proof.
  intros HB Hq. unfold feed. destruct m as [cf qq o k]. cbn in *. subst qq. cbn. rewrite HB.
  replace (BOM =? BOM) with true by reflexivity. destruct cf; reflexivity.
Qed.

Lemma feed_loop_first n fuel inj (m m2 : M) log : feedF fuel m = feedF fuel m2 ->
  feed_loopF (Datatypes.S n) fuel inj m log = feed_loopF (Datatypes.S n) fuel inj m2 log.
Proof. intros H. cbn [feed_loop]. rewrite H. reflexivity. Qed.

Lemma feed_all_bom_other n fuel inj c d rest (m : M) log :
  mq m = [] -> discard_bom (mc m) = true -> (c =? BOM) = false ->
  feed_all (Datatypes.S n) fuel inj ((c :: d) :: rest) m log = feed_all (Datatypes.S n) fuel inj ((c :: d) :: rest) (clear_bom m) log.
Proof.
  intros Hq HB Hc. cbn [feed_all].
  rewrite (feed_loop_first n fuel inj (m <| mq ::= (fun q => q ++ c :: d) |>) ((clear_bom m) <| mq ::= (fun q => q ++ c :: d) |>)).
  - reflexivity.
  - rewrite (feed_bom_other fuel _ c d); [destruct m; reflexivity|destruct m; exact HB| |exact Hc].
    destruct m as [cf q o k]; cbn in *; subst q; reflexivity.
Qed.

Lemma feed_all_bom_mark n fuel inj d e rest (m : M) log :
  mq m = [] -> discard_bom (mc m) = true ->
  feed_all (Datatypes.S n) fuel inj ((BOM :: d :: e) :: rest) m log =
  feed_all (Datatypes.S n) fuel inj ((d :: e) :: rest) (took 1 (clear_bom m)) log.
Proof.
  intros Hq HB. cbn [feed_all].
  rewrite (feed_loop_first n fuel inj (m <| mq ::= (fun q => q ++ BOM :: d :: e) |>)
                           ((took 1 (clear_bom m)) <| mq ::= (fun q => q ++ d :: e) |>)).
  - reflexivity.
  - rewrite (feed_bom_mark fuel _ d e); [|destruct m; exact HB|destruct m as [cf q o k]; cbn in *; subst q; reflexivity].
    destruct m as [cf q o k]; cbn in *; subst q; reflexivity.
Qed.

Hypothesis Hinv_clear : forall (m : M), Inv m -> Inv (clear_bom m).
Hypothesis Hinv_took : forall n (m : M), Inv m -> Inv (took n m).

(* chunk independence of the executable feed loops INCLUDING the byte order mark *)
Theorem feed_all_chunking_independent_bom n1 n2 fuel1 fuel2 inj cs1 cs2 (m m1 m2 : M) l1 l2 :
  Inv m -> mq m = [] ->
  all_nonempty cs1 -> all_nonempty cs2 -> cs1 <> [] -> cs2 <> [] -> concat cs1 = concat cs2 ->
  hd [] cs1 <> [BOM] -> hd [] cs2 <> [BOM] ->
  feed_all (Datatypes.S n1) fuel1 inj cs1 m [] = (m1, l1) -> all_done l1 ->
  feed_all (Datatypes.S n2) fuel2 inj cs2 m [] = (m2, l2) -> all_done l2 ->
  m1 = m2.
Proof.
  intros HI Hq N1 N2 E1 E2 HC B1 B2 F1 D1 F2 D2.
  destruct (discard_bom (mc m)) eqn:HB.
  2:{ eapply (feed_all_chunking_independent (Datatypes.S n1) (Datatypes.S n2) fuel1 fuel2 inj cs1 cs2 m); eassumption. }
  destruct cs1 as [|[|a c1'] r1]; [contradiction|destruct N1; contradiction|].
  destruct cs2 as [|[|b c2'] r2]; [contradiction|destruct N2; contradiction|].
  assert (Hab : a = b) by (cbn in HC; injection HC as Hh _; exact Hh).
  subst b.
  destruct (a =? BOM) eqn:Ea.
  - apply N.eqb_eq in Ea. subst a.
    destruct c1' as [|d1 e1]; [exfalso; apply B1; reflexivity|].
    destruct c2' as [|d2 e2]; [exfalso; apply B2; reflexivity|].
    rewrite feed_all_bom_mark in F1, F2 by assumption.
    eapply (feed_all_chunking_independent (Datatypes.S n1) (Datatypes.S n2) fuel1 fuel2 inj
              ((d1 :: e1) :: r1) ((d2 :: e2) :: r2) (took 1 (clear_bom m))); try eassumption.
    + apply Hinv_took, Hinv_clear. exact HI.
    + destruct m as [cf q o k]; destruct cf; reflexivity.
    + destruct N1 as [_ N1]. split; [discriminate|exact N1].
    + destruct N2 as [_ N2]. split; [discriminate|exact N2].
    + discriminate.
    + discriminate.
    + cbn in HC |- *. injection HC as HC1 HC2. rewrite HC1, HC2. reflexivity.
  - rewrite feed_all_bom_other in F1, F2 by assumption.
    eapply (feed_all_chunking_independent (Datatypes.S n1) (Datatypes.S n2) fuel1 fuel2 inj
              ((a :: c1') :: r1) ((a :: c2') :: r2) (clear_bom m)); try eassumption.
    + apply Hinv_clear. exact HI.
    + destruct m as [cf q o k]; destruct cf; reflexivity.
Qed.

(* ... and through the complete driver, end() included *)
Theorem drive_chunking_independent_bom fuel inj cs1 cs2 (m : M) :
  Inv m -> mq m = [] ->
  all_nonempty cs1 -> all_nonempty cs2 -> cs1 <> [] -> cs2 <> [] -> concat cs1 = concat cs2 ->
  hd [] cs1 <> [BOM] -> hd [] cs2 <> [BOM] ->
  all_done (tl (snd (driveF fuel inj cs1 m []))) -> all_done (tl (snd (driveF fuel inj cs2 m []))) ->
  fst (driveF fuel inj cs1 m []) = fst (driveF fuel inj cs2 m []) /\
  hd SSuspend (snd (driveF fuel inj cs1 m [])) = hd SSuspend (snd (driveF fuel inj cs2 m [])).
Proof.
  intros HI Hq N1 N2 E1 E2 HC B1 B2. rewrite !drive_is_feed_all.
  change 50%nat with (Datatypes.S 49).
  destruct (feed_all (Datatypes.S 49) fuel inj cs1 m []) as [m1 l1] eqn:F1.
  destruct (feed_all (Datatypes.S 49) fuel inj cs2 m []) as [m2 l2] eqn:F2.
  destruct (tok_endF fuel m1) as [e1 r1] eqn:T1. destruct (tok_endF fuel m2) as [e2 r2] eqn:T2.
  cbn [snd fst tl hd]. intros D1 D2.
  assert (E : m1 = m2) by (eapply (feed_all_chunking_independent_bom 49 49 fuel fuel inj cs1 cs2 m); eassumption).
  subst m2. rewrite T1 in T2. split; congruence.
Qed.
End Exec.
