(* C09 - line numbers match the source: the invariant behind the law, for EVERY TokIR table that passes three
   decidable checks, in the html flavour, exact_errors = true, reference (flat queue) semantics.

   Law (per delivered token (t, ln, k)):   ln = 1 + breaks (firstn k input)
   where k is the interpreter's ghost counter (characters taken from the input minus characters put back) and
   [breaks] counts LF, lone CR and CR LF (once).

   Invariant [Inv] (at step boundaries), with C the consumed prefix of the input:
     - input = C ++ unread queue ++ (what end() dropped), mcons = |C|, line = 1 + breaks C          (CoreF)
     - ignore_lf  ->  C ends in CR;   C ends in CR  ->  ignore_lf or the next unread character is not LF
     - in a state whose body starts with eat: the look-ahead stash temp_buf counts as unread           (EI)
     - while a character reference is pending: C = C1 ++ W with W the raw-consumed part that may still be put
       back (#, #x, the name buffer), W free of line breaks, reconsume clear                          (CrI)
     - reconsume set  ->  the state's body starts with get_char / pop_except_from
     - temp_buf is empty in every [clean] state (so that eat() pushes back nothing but its own stash)
   Decidable table conditions (instantiated on the regenerated html table in Inst/InstLine.v):
     start_ok  (every step body: shape of reads, peek + raw discard only of characters statically known not to be
                CR/LF, DiscardWs only on a peeked character, eat patterns free of line breaks, reconsume only into
                get_char states, temp_buf discipline, tags emitted with temp_buf empty)
     eof_ok    (EOF arms neither read nor discard)
     eat states are clean.
   Hypothesis on the entity table: keys (names and their prefixes) contain no CR / LF. *)
From Coq Require Import List NArith Bool Lia Arith.
From RecordUpdate Require Import RecordSet.
From HV Require Import TokIR.IR TokIR.Interp TokIR.Checks.
From HV Require TokIR.ChunkInv.
Import ListNotations RecordSetNotations.
Local Open Scope N_scope.

(* ------------------------------------------------------------------ line breaks of a string *)
(* [bump p c]: does the character c start a new line, given that the previous character was (p = true) or was
   not a carriage return: CR always does, LF does unless it completes a CR LF pair *)
Definition bump (p : bool) (c : N) : N := if c =? CR then 1 else if (c =? LF) && negb p then 1 else 0.
Fixpoint brk (p : bool) (l : list N) : N :=
  match l with [] => 0 | c :: t => bump p c + brk (c =? CR) t end.
(* number of line breaks: LF, lone CR, and CR LF counted once *)
Definition breaks (l : list N) : N := brk false l.
Fixpoint lastcr (p : bool) (l : list N) : bool := match l with [] => p | c :: t => lastcr (c =? CR) t end.
Definition endcr (l : list N) : bool := lastcr false l.
Definition nobrk (c : N) : bool := negb ((c =? CR) || (c =? LF)).
Definition nobreaks (l : list N) : bool := forallb nobrk l.
Definition hdlf (q : list N) : bool := match q with c :: _ => c =? LF | [] => false end.

Lemma brk_app p l1 l2 : brk p (l1 ++ l2) = brk p l1 + brk (lastcr p l1) l2.
Proof. revert p; induction l1 as [|c l1 IH]; intros p; cbn; [reflexivity|]. rewrite IH. lia. Qed.
Lemma lastcr_app p l1 l2 : lastcr p (l1 ++ l2) = lastcr (lastcr p l1) l2.
Proof. revert p; induction l1 as [|c l1 IH]; intros p; cbn; auto. Qed.
Lemma nobrk_cr c : nobrk c = true -> (c =? CR) = false.
Proof. unfold nobrk. destruct (c =? CR); cbn; [discriminate|reflexivity]. Qed.
Lemma nobrk_lf c : nobrk c = true -> (c =? LF) = false.
Proof. unfold nobrk. destruct (c =? CR), (c =? LF); cbn; try discriminate; reflexivity. Qed.
Lemma bump_nobrk p c : nobrk c = true -> bump p c = 0.
Proof. intros H. unfold bump. rewrite (nobrk_cr _ H), (nobrk_lf _ H). reflexivity. Qed.
Lemma brk_nobreaks W : forall p, nobreaks W = true -> brk p W = 0.
Proof.
  induction W as [|c W IH]; intros p H; cbn in *; [reflexivity|]. apply andb_prop in H. destruct H as [H1 H2].
  rewrite (bump_nobrk _ _ H1), (IH _ H2). reflexivity.
Qed.
Lemma lastcr_nobreaks W : forall p, nobreaks W = true -> lastcr p W = match W with [] => p | _ => false end.
Proof.
  induction W as [|c W IH]; intros p H; cbn in *; [reflexivity|]. apply andb_prop in H. destruct H as [H1 H2].
  rewrite (IH _ H2), (nobrk_cr _ H1). destruct W; reflexivity.
Qed.
Lemma nobreaks_app a b : nobreaks (a ++ b) = nobreaks a && nobreaks b.
Proof. apply forallb_app. Qed.
Lemma breaks_snoc C c : breaks (C ++ [c]) = breaks C + bump (endcr C) c.
Proof. unfold breaks, endcr. rewrite brk_app. cbn. lia. Qed.
Lemma endcr_snoc C c : endcr (C ++ [c]) = (c =? CR).
Proof. unfold endcr. rewrite lastcr_app. reflexivity. Qed.
Lemma breaks_app_nb C W : nobreaks W = true -> breaks (C ++ W) = breaks C.
Proof. intros H. unfold breaks. rewrite brk_app, (brk_nobreaks _ _ H). lia. Qed.
Lemma endcr_app_nb C W : nobreaks W = true -> endcr (C ++ W) = match W with [] => endcr C | _ => false end.
Proof. intros H. unfold endcr. rewrite lastcr_app. apply lastcr_nobreaks; exact H. Qed.
Lemma hdlf_nb W q : nobreaks W = true -> W <> [] -> hdlf (W ++ q) = false.
Proof. destruct W as [|c W]; [congruence|]. cbn. intros H _. apply andb_prop in H. apply nobrk_lf. tauto. Qed.

Lemma lenN_app (a b : list N) : lenN (a ++ b) = lenN a + lenN b.
Proof. unfold lenN. rewrite app_length. lia. Qed.
Lemma lenN_snoc (a : list N) c : lenN (a ++ [c]) = 1 + lenN a.
Proof. unfold lenN. rewrite app_length. cbn [length]. lia. Qed.
Lemma firstn_lenN (C X : list N) : firstn (N.to_nat (lenN C)) (C ++ X) = C.
Proof.
  unfold lenN. rewrite Nat2N.id. rewrite firstn_app, Nat.sub_diag, firstn_all. cbn. apply app_nil_r.
Qed.

Section Pure.
Variable input : list N.

Definition tail_ok (C : list N) (il : bool) (q : list N) : Prop :=
  (il = true -> endcr C = true) /\ (endcr C = true -> il = true \/ hdlf q = false).
(* C: what has been consumed; q: unread queue; k: ghost counter; ln: line counter; il: ignore_lf *)
Definition CoreF (C q : list N) (k ln : N) (il : bool) : Prop :=
  (exists rest, input = C ++ q ++ rest) /\ k = lenN C /\ ln = 1 + breaks C /\ tail_ok C il q.
Definition law1 (e : token * N * N) : Prop :=
  let '(_, ln, k) := e in ln = 1 + breaks (firstn (N.to_nat k) input).
Definition Law (o : list (token * N * N)) : Prop := Forall law1 o.

Lemma T_law C q k ln il t : CoreF C q k ln il -> law1 (t, ln, k).
Proof. intros ([rest Hi] & -> & -> & _). cbn. rewrite Hi, firstn_lenN. reflexivity. Qed.

Lemma snoc_split (C : list N) c q rest : C ++ (c :: q) ++ rest = (C ++ [c]) ++ q ++ rest.
Proof. rewrite <- app_assoc. reflexivity. Qed.

Lemma T_plain C c q k ln : CoreF C (c :: q) k ln false ->
  CoreF (C ++ [c]) q (1 + k) (if (c =? CR) || (c =? LF) then 1 + ln else ln) (c =? CR).
Proof.
  intros ([rest Hi] & -> & -> & Ha & Hb). repeat split.
  - exists rest. rewrite Hi. apply snoc_split.
  - symmetry. apply lenN_snoc.
  - rewrite breaks_snoc. unfold bump. destruct (c =? CR) eqn:E1; cbn [orb]; [lia|].
    destruct (c =? LF) eqn:E2; cbn [andb]; [|lia].
    destruct (endcr C) eqn:E3; cbn [negb]; [|lia].
    destruct (Hb eq_refl) as [H|H]; [discriminate|]. cbn in H. congruence.
  - rewrite endcr_snoc. auto.
  - rewrite endcr_snoc. auto.
Qed.

Lemma T_skip C c q k ln : CoreF C (c :: q) k ln true -> c = LF -> CoreF (C ++ [c]) q (1 + k) ln false.
Proof.
  intros ([rest Hi] & -> & -> & Ha & Hb) ->. repeat split.
  - exists rest. rewrite Hi. apply snoc_split.
  - symmetry. apply lenN_snoc.
  - rewrite breaks_snoc, (Ha eq_refl). change (bump true LF) with 0. lia.
  - discriminate.
  - rewrite endcr_snoc. cbn. discriminate.
Qed.

Lemma T_raw C c q k ln il : CoreF C (c :: q) k ln il -> nobrk c = true -> CoreF (C ++ [c]) q (1 + k) ln false.
Proof.
  intros ([rest Hi] & -> & -> & Ha & Hb) Hc. repeat split.
  - exists rest. rewrite Hi. apply snoc_split.
  - symmetry. apply lenN_snoc.
  - rewrite breaks_snoc, (bump_nobrk _ _ Hc). lia.
  - discriminate.
  - rewrite endcr_snoc, (nobrk_cr _ Hc). discriminate.
Qed.

Lemma T_ws C c q k ln il : CoreF C (c :: q) k ln il ->
  CoreF (C ++ [c]) q (1 + k) (if (c =? CR) || ((c =? LF) && negb il) then 1 + ln else ln) (c =? CR).
Proof.
  intros ([rest Hi] & -> & -> & Ha & Hb). repeat split.
  - exists rest. rewrite Hi. apply snoc_split.
  - symmetry. apply lenN_snoc.
  - rewrite breaks_snoc. unfold bump. destruct (c =? CR) eqn:E1; cbn [orb]; [lia|].
    destruct (c =? LF) eqn:E2; cbn [andb]; [|lia].
    destruct il.
    + rewrite (Ha eq_refl). cbn [negb]. lia.
    + destruct (endcr C) eqn:E3; cbn [negb]; [|lia].
      destruct (Hb eq_refl) as [H|H]; [discriminate|]. cbn in H. congruence.
  - rewrite endcr_snoc. auto.
  - rewrite endcr_snoc. auto.
Qed.

Lemma T_ilclear C q k ln il : CoreF C q k ln il -> hdlf q = false -> CoreF C q k ln false.
Proof. intros (Hi & -> & -> & Ha & Hb) Hq. repeat split; auto. discriminate. Qed.

Lemma T_str C A q k ln : CoreF C (A ++ q) k ln false -> nobreaks A = true -> CoreF (C ++ A) q (lenN A + k) ln false.
Proof.
  intros ([rest Hi] & -> & -> & Ha & Hb) HA. repeat split.
  - exists rest. rewrite Hi, <- !app_assoc. reflexivity.
  - rewrite lenN_app. lia.
  - rewrite (breaks_app_nb _ _ HA). reflexivity.
  - discriminate.
  - rewrite (endcr_app_nb _ _ HA). destruct A; [exact Hb|discriminate].
Qed.

Lemma T_uncons C1 W q k ln il : CoreF (C1 ++ W) q k ln il -> nobreaks W = true ->
  CoreF C1 (W ++ q) (k - lenN W) ln il.
Proof.
  intros ([rest Hi] & -> & -> & Ha & Hb) HW. rewrite (endcr_app_nb _ _ HW) in Ha, Hb. repeat split.
  - exists rest. rewrite Hi, <- !app_assoc. reflexivity.
  - rewrite lenN_app. lia.
  - rewrite (breaks_app_nb _ _ HW). reflexivity.
  - destruct W; [exact Ha|]. intros H. specialize (Ha H). discriminate.
  - destruct W as [|w W]; [exact Hb|]. intros _. right. apply hdlf_nb; [exact HW|discriminate].
Qed.

Lemma T_uncons_c C1 W c q k ln il : CoreF (C1 ++ W) (c :: q) k ln il -> nobreaks W = true ->
  negb il || negb (c =? LF) = true ->
  CoreF C1 (W ++ c :: q) ((1 + k) - lenN (W ++ [c])) ln false.
Proof.
  intros ([rest Hi] & -> & -> & Ha & Hb) HW Hc. rewrite (endcr_app_nb _ _ HW) in Ha, Hb. repeat split.
  - exists rest. rewrite Hi, <- !app_assoc. reflexivity.
  - rewrite !lenN_app. change (lenN [c]) with 1. lia.
  - rewrite (breaks_app_nb _ _ HW). reflexivity.
  - discriminate.
  - intros He. right. destruct W as [|w W].
    + cbn. destruct il; cbn in Hc.
      * apply negb_true_iff in Hc. exact Hc.
      * destruct (Hb He) as [H|H]; [discriminate|exact H].
    + apply hdlf_nb; [exact HW|discriminate].
Qed.

Lemma T_dropq C q1 q2 k ln il : CoreF C (q1 ++ q2) k ln il -> CoreF C q1 k ln il.
Proof.
  intros ([rest Hi] & -> & -> & Ha & Hb). repeat split; auto.
  - exists (q2 ++ rest). rewrite Hi, <- app_assoc. reflexivity.
  - intros He. destruct (Hb He) as [H|H]; [left; exact H|right]. destruct q1; [reflexivity|exact H].
Qed.

Lemma T_init q : input = q -> CoreF [] q 0 1 false.
Proof. intros H. repeat split; try discriminate. exists []. cbn. rewrite app_nil_r. exact H. Qed.

End Pure.

Section Line.
Context {S : Type}.
Variable fl : flavour S.
Variable tb : table S.
Variable simd : list N * list N * list N.
Variable ent : list N -> option (N * N).
Variable c1 : N -> option N.
Variable sk : sinkcfg.
Variable input : list N.
Hypothesis Hhtml : f_html fl = true.

Notation M := (mach S (list N)).
Notation fid := (fun q : list N => q).
Notation gpc_skipF := (@gpc_skip S (list N) fq_next).
Notation gpc_postF := (@gpc_post S (list N) fl true).
Notation gpcF := (@get_preprocessed_char S (list N) fq_next fl true).
Notation get_charF := (@get_char S (list N) fq_next fl true).
Notation peekF := (@peek S (list N) fq_peek).
Notation discard_charF := (@discard_char S (list N) fq_next fl true).
Notation discard_wsF := (@discard_ws S (list N) fq_next fl true).
Notation popF := (@pop_except_from S (list N) fq_next fq_peek fq_run1 fl true simd).
Notation eat_bodyF := (@eat_body S (list N) [] fq_next fq_peek (@app N) fid).
Notation eatF := (@eat S (list N) [] fq_next fq_peek (@app N) fid fl true).
Notation do_cmdF := (@do_cmd S (list N) fq_next fl true).
Notation do_termF := (@do_term S (list N) fl sk).
Notation execF := (@exec S (list N) [] fq_next fq_peek (@app N) fid fq_run1 fl true simd sk).
Notation unconsumeF := (@unconsume S (list N) (@app N)).
Notation finish_attributeF := (@finish_attribute S (list N) fl).
Notation discard_tagF := (@discard_tag S (list N) fl).
Notation emit_charF := (@emit_char S (list N) fl).
Notation emit_current_tagF := (@emit_current_tag S (list N) fl sk).

(* ---------------------------------------------------------------- the fields the argument looks at *)
Definition vrc (m : M) : bool := reconsume (mc m).
Definition vst (m : M) : S := st (mc m).
Definition vil (m : M) : bool := ignore_lf (mc m).
Definition vtmp (m : M) : str := temp_buf (mc m).
Definition vcr (m : M) : option crt := cref (mc m).
Definition vln (m : M) : N := line (mc m).
Definition dv (m : M) := (mq m, mcons m, vln m, vil m).
Definition cv3 (m : M) := (vst m, vrc m, vcr m).

Ltac unf := unfold dv, cv3, vrc, vst, vil, vtmp, vcr, vln in *.

(* tokens delivered at one (line, consumed) position *)
Inductive emits (l k : N) (o : list (token * N * N)) : list (token * N * N) -> Prop :=
| em_refl : emits l k o o
| em_cons t o' : emits l k o o' -> emits l k o ((t, l, k) :: o').
Lemma emits_trans l k o o1 o2 : emits l k o o1 -> emits l k o1 o2 -> emits l k o o2.
Proof. intros H1 H2. induction H2; [exact H1|constructor; exact IHemits]. Qed.
Lemma emits_Law l k o o' : Law input o -> law1 input (TError, l, k) -> emits l k o o' -> Law input o'.
Proof. intros Ho Hl H. induction H; [exact Ho|]. constructor; [exact Hl|exact IHemits]. Qed.

(* no effect on queue, counters, flags: only tokens at the current position *)
Definition quietD (m m' : M) : Prop := dv m' = dv m /\ emits (vln m) (mcons m) (mout m) (mout m').
Definition quietT (m m' : M) : Prop := quietD m m' /\ cv3 m' = cv3 m.
Definition quiet (m m' : M) : Prop := quietT m m' /\ vtmp m' = vtmp m.

Lemma dv_inv m m' : dv m' = dv m -> mq m' = mq m /\ mcons m' = mcons m /\ vln m' = vln m /\ vil m' = vil m.
Proof. unfold dv. intros H. injection H. auto. Qed.
Lemma cv3_inv m m' : cv3 m' = cv3 m -> vst m' = vst m /\ vrc m' = vrc m /\ vcr m' = vcr m.
Proof. unfold cv3. intros H. injection H. auto. Qed.

Lemma quietD_refl m : quietD m m. Proof. split; [reflexivity|constructor]. Qed.
Lemma quietD_trans m1 m2 m3 : quietD m1 m2 -> quietD m2 m3 -> quietD m1 m3.
Proof.
  intros [A B] [C D]. split; [congruence|]. destruct (dv_inv _ _ A) as (_ & E & F & _). rewrite E, F in D.
  eapply emits_trans; eassumption.
Qed.
Lemma quietT_refl m : quietT m m. Proof. split; [apply quietD_refl|reflexivity]. Qed.
Lemma quietT_trans m1 m2 m3 : quietT m1 m2 -> quietT m2 m3 -> quietT m1 m3.
Proof. intros [A B] [C D]. split; [eapply quietD_trans; eassumption|congruence]. Qed.
Lemma quiet_refl m : quiet m m. Proof. split; [apply quietT_refl|reflexivity]. Qed.
Lemma quiet_trans m1 m2 m3 : quiet m1 m2 -> quiet m2 m3 -> quiet m1 m3.
Proof. intros [A B] [C D]. split; [eapply quietT_trans; eassumption|congruence]. Qed.
Lemma quiet_T m m' : quiet m m' -> quietT m m'. Proof. intros [A _]; exact A. Qed.

Definition keeps6 (f : cfg S -> cfg S) : Prop :=
  forall x, st (f x) = st x /\ reconsume (f x) = reconsume x /\ ignore_lf (f x) = ignore_lf x /\
            temp_buf (f x) = temp_buf x /\ cref (f x) = cref x /\ line (f x) = line x.
Definition keeps5 (f : cfg S -> cfg S) : Prop :=
  forall x, st (f x) = st x /\ reconsume (f x) = reconsume x /\ ignore_lf (f x) = ignore_lf x /\
            cref (f x) = cref x /\ line (f x) = line x.
Lemma upd_quiet f (m : M) : keeps6 f -> quiet m (upd f m).
Proof.
  intros H. destruct m as [cf q o k]. destruct (H cf) as (A & B & C & D & E & F).
  unfold quiet, quietT, quietD, upd. unf. cbn. rewrite A, B, C, D, E, F. repeat split. constructor.
Qed.
Lemma upd_quietT f (m : M) : keeps5 f -> quietT m (upd f m).
Proof.
  intros H. destruct m as [cf q o k]. destruct (H cf) as (A & B & C & E & F).
  unfold quietT, quietD, upd. unf. cbn. rewrite A, B, C, E, F. repeat split. constructor.
Qed.
Lemma emit_quiet t (m : M) : quiet m (emit t m).
Proof. destruct m as [cf q o k]. unfold quiet, quietT, quietD, emit. unf. cbn. repeat split. repeat constructor. Qed.
Lemma err_quiet (m : M) : quiet m (err m).
Proof. apply emit_quiet. Qed.

Ltac keeps := intros x; destruct x; repeat split; reflexivity.

Lemma finish_attribute_quiet (m : M) : quiet m (finish_attributeF m).
Proof.
  unfold finish_attribute. destruct (attr_name (mc m)); [apply quiet_refl|].
  rewrite Hhtml. destruct (existsb _ _).
  - eapply quiet_trans; [apply err_quiet|apply upd_quiet; keeps].
  - apply upd_quiet; keeps.
Qed.
Lemma discard_tag_quiet (m : M) : quiet m (discard_tagF m).
Proof. unfold discard_tag. rewrite Hhtml. apply upd_quiet; keeps. Qed.
Lemma emit_char_quiet c (m : M) : quiet m (emit_charF c m).
Proof. unfold emit_char. rewrite Hhtml. destruct (c =? 0); apply emit_quiet. Qed.

Definition is_discard (k : cmd) : bool := match k with DiscardChar | DiscardWs => true | _ => false end.
Definition is_tempcmd (k : cmd) : bool := match k with PushTemp _ | ClearTemp | EmitTemp => true | _ => false end.

Lemma do_cmd_quiet k c run (m : M) : is_discard k = false -> is_tempcmd k = false -> quiet m (do_cmdF k c run m).
Proof.
  intros Hd Ht. destruct k; try discriminate; cbn [do_cmd];
    try match goal with |- context [match ?x with KPublic => _ | _ => _ end] => destruct x end;
    match goal with
    | |- quiet _ (upd _ (discard_tagF _)) => eapply quiet_trans; [apply discard_tag_quiet|apply upd_quiet; keeps]
    | |- quiet _ (upd _ (finish_attributeF _)) => eapply quiet_trans; [apply finish_attribute_quiet|apply upd_quiet; keeps]
    | |- quiet _ (upd _ (emit _ _)) => eapply quiet_trans; [apply emit_quiet|apply upd_quiet; keeps]
    | |- quiet _ (upd _ _) => apply upd_quiet; keeps
    | |- quiet _ (discard_tagF _) => apply discard_tag_quiet
    | |- quiet _ (emit_charF _ _) => apply emit_char_quiet
    | |- quiet _ (err _) => apply err_quiet
    | |- quiet _ (emit _ _) => apply emit_quiet
    end.
Qed.
Lemma do_cmd_temp k c run (m : M) : is_tempcmd k = true ->
  quietT m (do_cmdF k c run m) /\ (match k with PushTemp _ => True | _ => vtmp (do_cmdF k c run m) = [] end).
Proof.
  intros Ht. destruct k; try discriminate; cbn [do_cmd]; split; try exact I.
  - apply upd_quietT; keeps.
  - apply upd_quietT; keeps.
  - destruct m as [cf q o k]; reflexivity.
  - eapply quietT_trans; [apply quiet_T, emit_quiet|apply upd_quietT; keeps].
  - destruct m as [cf q o k]; reflexivity.
Qed.

(* ---------------------------------------------------------------- the core invariant: position and line agree *)
Definition Core (m : M) : Prop := exists C, CoreF input C (mq m) (mcons m) (vln m) (vil m).
Definition CL (m : M) : Prop := Core m /\ Law input (mout m).

Lemma quietD_CL m m' : CL m -> quietD m m' -> CL m'.
Proof.
  intros [[C HC] HL] [A B]. destruct (dv_inv _ _ A) as (E1 & E2 & E3 & E4). split.
  - exists C. unfold Core. rewrite E1, E2, E3, E4. exact HC.
  - eapply emits_Law; [exact HL| |exact B]. eapply T_law; exact HC.
Qed.

(* ---------------------------------------------------------------- get_char *)
Definition cv (m : M) := (vst m, vrc m, vtmp m, vcr m).
Lemma cv_inv m m' : cv m' = cv m -> vst m' = vst m /\ vrc m' = vrc m /\ vtmp m' = vtmp m /\ vcr m' = vcr m.
Proof. unfold cv. intros H. injection H. auto. Qed.

Lemma lf_after_cr c : ((if c =? CR then LF else c) =? LF) = (c =? CR) || (c =? LF).
Proof. destruct (c =? CR); reflexivity. Qed.

Lemma gpc_post_ok c (m1 : M) C k :
  CoreF input C (c :: mq m1) k (vln m1) false -> vil m1 = false -> mcons m1 = 1 + k -> Law input (mout m1) ->
  CL (snd (gpc_postF c m1)) /\ cv (snd (gpc_postF c m1)) = cv m1.
Proof.
  intros HC Hil Hk HL. pose proof (T_plain _ _ _ _ _ _ HC) as HT.
  unfold gpc_post, gpc_decide. rewrite Hhtml. cbn [negb andb]. rewrite lf_after_cr.
  destruct m1 as [cf q o k0]. unfold CL, Core, cv in *. unf. cbn in Hil, Hk, HL, HC, HT. subst k0.
  destruct ((c =? CR) || (c =? LF)); destruct (c =? CR); destruct (bad_char _); destruct cf; cbn in *; subst;
    (split; [split; [eexists; exact HT|]|reflexivity]); try exact HL;
    (constructor; [eapply T_law; exact HT|exact HL]).
Qed.

Lemma gpc_ok c (m0 : M) C k :
  CoreF input C (c :: mq m0) k (vln m0) (vil m0) -> mcons m0 = 1 + k -> Law input (mout m0) ->
  CL (snd (gpcF c m0)) /\ cv (snd (gpcF c m0)) = cv m0.
Proof.
  intros HC Hk HL. unfold get_preprocessed_char, gpc_skip.
  destruct (ignore_lf (mc m0)) eqn:Hil.
  - unfold vil in HC. rewrite Hil in HC. destruct (c =? LF) eqn:Ec.
    + apply N.eqb_eq in Ec. pose proof (T_skip _ _ _ _ _ _ HC Ec) as HT.
      destruct (mq m0) as [|c' q''] eqn:Hq.
      * replace (fq_next (mq (upd (fun x => x <| ignore_lf := false |>) m0))) with (@None (N * list N))
          by (destruct m0 as [cf q o k0]; cbn in *; subst; reflexivity).
        cbn [snd]. destruct m0 as [cf q o k0]. unfold CL, Core, cv in *. unf. cbn in *. subst.
        destruct cf; cbn in *. repeat split; auto. eexists; exact HT.
      * replace (fq_next (mq (upd (fun x => x <| ignore_lf := false |>) m0))) with (Some (c', q''))
          by (destruct m0 as [cf q o k0]; cbn in *; subst; reflexivity).
        set (m2 := took 1 (upd (fun x => x <| ignore_lf := false |>) m0 <| mq := q'' |>)).
        assert (G : CL (snd (gpc_postF c' m2)) /\ cv (snd (gpc_postF c' m2)) = cv m2).
        { apply (gpc_post_ok c' m2 (C ++ [c]) (1 + k)); subst m2; destruct m0 as [cf q o k0]; unf; cbn in *; subst;
            destruct cf; cbn in *; auto. }
        destruct (gpc_postF c' m2) as [c2 m3]. cbn [snd] in *. destruct G as [G1 G2]. split; [exact G1|].
        rewrite G2. subst m2. destruct m0 as [cf q o k0]; destruct cf; reflexivity.
    + assert (HC' : CoreF input C (c :: mq m0) k (vln m0) false).
      { eapply T_ilclear; [exact HC|]. cbn. exact Ec. }
      set (m1 := upd (fun x => x <| ignore_lf := false |>) m0).
      assert (G : CL (snd (gpc_postF c m1)) /\ cv (snd (gpc_postF c m1)) = cv m1).
      { apply (gpc_post_ok c m1 C k); subst m1; destruct m0 as [cf q o k0]; unf; cbn in *; subst;
          destruct cf; cbn in *; auto. }
      destruct (gpc_postF c m1) as [c2 m3]. cbn [snd] in *. destruct G as [G1 G2]. split; [exact G1|].
      rewrite G2. subst m1. destruct m0 as [cf q o k0]; destruct cf; cbn in *; subst; reflexivity.
  - unfold vil in HC. rewrite Hil in HC.
    assert (G : CL (snd (gpc_postF c m0)) /\ cv (snd (gpc_postF c m0)) = cv m0).
    { apply (gpc_post_ok c m0 C k); auto. }
    destruct (gpc_postF c m0) as [c2 m3]. exact G.
Qed.

Definition cvx (m : M) := (vst m, vtmp m, vcr m).
Lemma cvx_inv m m' : cvx m' = cvx m -> vst m' = vst m /\ vtmp m' = vtmp m /\ vcr m' = vcr m.
Proof. unfold cvx. intros H. injection H. auto. Qed.
Lemma cv_cvx m m' : cv m' = cv m -> cvx m' = cvx m.
Proof. intros H. destruct (cv_inv _ _ H) as (A & B & C & D). unfold cvx. congruence. Qed.

Lemma get_char_ok (m : M) : CL m ->
  CL (snd (get_charF m)) /\ cvx (snd (get_charF m)) = cvx m /\ vrc (snd (get_charF m)) = false.
Proof.
  intros HCL. unfold get_char. destruct (reconsume (mc m)) eqn:Hr.
  - cbn [snd]. destruct m as [cf q o k]. unfold CL, Core, cvx in *. unf. destruct cf; cbn in *. auto.
  - destruct (mq m) as [|c q'] eqn:Hq; cbn [fq_next].
    + cbn [snd]. auto.
    + destruct HCL as [[C HC] HL]. rewrite Hq in HC.
      set (m0 := took 1 (m <| mq := q' |>)).
      assert (G : CL (snd (gpcF c m0)) /\ cv (snd (gpcF c m0)) = cv m0).
      { apply (gpc_ok c m0 C (mcons m)); subst m0; destruct m as [cf q o k]; unf; cbn in *; auto. }
      destruct G as [G1 G2]. split; [exact G1|]. destruct (cv_inv _ _ G2) as (A & B & D & E).
      unfold cvx. rewrite A, B, D, E. subst m0. destruct m as [cf q o k]. unf. cbn in *. auto.
Qed.

Lemma peek_some (m : M) c : vrc m = false -> peekF m = Some c -> exists q', mq m = c :: q'.
Proof.
  unfold peek, vrc. intros -> H. destruct (mq m) as [|d q']; cbn in H; [discriminate|].
  injection H as ->. eauto.
Qed.
Lemma peek_none (m : M) : vrc m = false -> peekF m = None -> mq m = [].
Proof. unfold peek, vrc. intros -> H. destruct (mq m); [reflexivity|discriminate]. Qed.

(* ---------------------------------------------------------------- raw discards *)
Lemma discard_char_raw (m : M) c q' : vrc m = false -> mq m = c :: q' ->
  dv (discard_charF m) = (q', 1 + mcons m, vln m, false) /\ cv (discard_charF m) = cv m /\
  mout (discard_charF m) = mout m.
Proof.
  intros Hr Hq. unfold discard_char. rewrite Hhtml. unfold vrc in Hr. rewrite Hr, Hq. cbn [fq_next].
  destruct m as [cf q o k]. unfold cv. unf. cbn in *. destruct cf; cbn in *. subst. auto.
Qed.

Lemma discard_char_nb (m : M) c q' : CL m -> vrc m = false -> mq m = c :: q' -> nobrk c = true ->
  CL (discard_charF m) /\ cv (discard_charF m) = cv m /\ vil (discard_charF m) = false.
Proof.
  intros [[C HC] HL] Hr Hq Hc. destruct (discard_char_raw m c q' Hr Hq) as (A & B & D).
  rewrite Hq in HC. pose proof (T_raw _ _ _ _ _ _ _ HC Hc) as HT.
  unfold dv in A. injection A as A1 A2 A3 A4. repeat split; auto.
  - exists (C ++ [c]). rewrite A1, A2, A3, A4. exact HT.
  - rewrite D. exact HL.
Qed.

Lemma discard_ws_ok (m : M) c q' : CL m -> vrc m = false -> mq m = c :: q' ->
  CL (discard_wsF c m) /\ cv (discard_wsF c m) = cv m.
Proof.
  intros [[C HC] HL] Hr Hq. rewrite Hq in HC. pose proof (T_ws _ _ _ _ _ _ _ HC) as HT.
  unfold discard_ws, discard_char. rewrite Hhtml. unfold vrc in Hr. rewrite Hr, Hq. cbn [fq_next].
  destruct m as [cf q o k]. unfold CL, Core, cv in *. unf. cbn in *.
  destruct ((c =? CR) || (c =? LF) && negb (ignore_lf cf)); destruct cf; cbn in *; subst;
    (split; [split; [eexists; exact HT|exact HL]|reflexivity]).
Qed.

(* exact_errors: pop_except_from is get_char *)
Lemma pop_exact set sm (m : M) :
  popF set sm m = match get_charF m with (None, m') => (PopNone, m') | (Some c, m') => (PopChar c, m') end.
Proof. reflexivity. Qed.

(* ---------------------------------------------------------------- eat *)
Notation QdropF := (@Qdrop (list N) [] fq_next).
Notation QeatF := (@Qeat (list N) fq_peek fid).

Lemma match_nb (ic : bool) x p : nobrk p = true -> (if ic then to_lower x =? to_lower p else x =? p) = true -> nobrk x = true.
Proof.
  intros Hp H. destruct ic; [|apply N.eqb_eq in H; subst; exact Hp].
  apply N.eqb_eq in H. unfold nobrk in *. apply negb_true_iff. apply negb_true_iff in Hp.
  apply orb_false_iff in Hp. destruct Hp as [Hp1 Hp2]. apply N.eqb_neq in Hp1, Hp2. unfold CR, LF in *.
  unfold to_lower, is_upper in H.
  apply orb_false_iff. split; apply N.eqb_neq; intros ->; cbn in H;
    destruct ((65 <=? p) && (p <=? 90)) eqn:E; try lia;
    apply andb_prop in E; destruct E as [E _]; apply N.leb_le in E; lia.
Qed.

Lemma eat_cmp_true_split ic pat : forall f, eat_cmp ic pat f = EatTrue -> nobreaks pat = true ->
  exists A r, f = A ++ r /\ QdropF (length pat) f = r /\ lenN A = lenN pat /\ nobreaks A = true.
Proof.
  induction pat as [|p pt IH]; intros f H Hp.
  - exists [], f. repeat split.
  - destruct f as [|x ft]; cbn in H; [discriminate|].
    destruct (if ic then to_lower x =? to_lower p else x =? p) eqn:E; [|discriminate].
    change (nobreaks (p :: pt)) with (nobrk p && nobreaks pt) in Hp. apply andb_prop in Hp. destruct Hp as [Hp1 Hp2].
    destruct (IH ft H Hp2) as (A & r & E1 & E2 & E3 & E4).
    exists (x :: A), r. repeat split.
    + cbn. rewrite E1. reflexivity.
    + cbn. exact E2.
    + unfold lenN in *. cbn [length]. lia.
    + change (nobreaks (x :: A)) with (nobrk x && nobreaks A). rewrite E4, (match_nb ic x p Hp1 E). reflexivity.
Qed.

Definition EIc (m : M) : Prop :=
  exists C, CoreF input C (vtmp m ++ mq m) (mcons m - lenN (vtmp m)) (vln m) (vil m).
Lemma EIc_nil (m : M) : vtmp m = [] -> (EIc m <-> Core m).
Proof.
  intros H. unfold EIc, Core. rewrite H. cbn [app]. change (lenN []) with 0. rewrite N.sub_0_r. tauto.
Qed.

Definition Uu (m : M) : M := upd (fun x => x <| temp_buf := [] |>) (unconsumeF (temp_buf (mc m)) m).
Lemma Uu_facts (m : M) :
  dv (Uu m) = (vtmp m ++ mq m, mcons m - lenN (vtmp m), vln m, vil m) /\ cv3 (Uu m) = cv3 m /\
  vtmp (Uu m) = [] /\ mout (Uu m) = mout m.
Proof. destruct m as [cf q o k]; destruct cf; unfold Uu; unf; cbn. auto. Qed.

Lemma eat_body_ok a pat ex (m : M) : nobreaks pat = true -> EIc m -> vil m = false ->
  cv3 (snd (eat_bodyF a pat ex m)) = cv3 m /\ mout (snd (eat_bodyF a pat ex m)) = mout m /\
  vil (snd (eat_bodyF a pat ex m)) = false /\
  match fst (eat_bodyF a pat ex m) with
  | Some _ => Core (snd (eat_bodyF a pat ex m)) /\ vtmp (snd (eat_bodyF a pat ex m)) = []
  | None => a = false /\ EIc (snd (eat_bodyF a pat ex m))
  end.
Proof.
  intros Hp [C HC] Hil. unfold eat_body. fold (Uu m).
  destruct (Uu_facts m) as (F1 & F2 & F3 & F4). set (m2 := Uu m) in *. clearbody m2.
  unfold dv in F1. injection F1 as G1 G2 G3 G4. rewrite Hil in *.
  assert (HC2 : CoreF input C (mq m2) (mcons m2) (vln m2) false) by (rewrite G1, G2, G3; exact HC).
  assert (Hstash : forall a0, a0 = false ->
    let m3 := took (lenN (mq m2)) (upd (fun x => x <| temp_buf := mq m2 |>) (m2 <| mq := [] |>)) in
    cv3 m3 = cv3 m /\ mout m3 = mout m /\ vil m3 = false /\ a0 = false /\ EIc m3).
  { intros a0 Ha m3. subst m3. rewrite <- F2, <- F4. destruct m2 as [cf q o k]. unfold EIc in *. unf.
    destruct cf; cbn in *. repeat split; auto. exists C. rewrite app_nil_r.
    replace (lenN q + k - lenN q) with k by lia. subst. exact HC2. }
  destruct (QeatF (negb ex) pat (mq m2)) eqn:EQ.
  - (* undecided *)
    destruct a; cbn [fst snd].
    + rewrite F2, F4, G4. repeat split; auto. exists C. unfold Core. rewrite G4. exact HC2.
    + apply Hstash. reflexivity.
  - cbn [fst snd]. rewrite F2, F4, G4. repeat split; auto. exists C. unfold Core. rewrite G4. exact HC2.
  - unfold Qeat in EQ. destruct (fq_peek (mq m2)); [|discriminate].
    destruct (eat_cmp_true_split _ _ _ EQ Hp) as (A & r & E1 & E2 & E3 & E4).
    cbn [fst snd]. rewrite E2. rewrite E1 in HC2. pose proof (T_str _ _ _ _ _ _ HC2 E4) as HT.
    rewrite E3 in HT. rewrite <- F2, <- F4.
    destruct m2 as [cf q o k]. unfold Core in *. unf. destruct cf; cbn in *. subst.
    repeat split; auto. eexists; exact HT.
Qed.

Lemma eat_ok a pat ex (m : M) : nobreaks pat = true -> vrc m = false -> EIc m -> (vtmp m = [] \/ vil m = false) ->
  Law input (mout m) ->
  cv3 (snd (eatF a pat ex m)) = cv3 m /\ Law input (mout (snd (eatF a pat ex m))) /\
  match fst (eatF a pat ex m) with
  | Some _ => Core (snd (eatF a pat ex m)) /\ vtmp (snd (eatF a pat ex m)) = [] /\ vil (snd (eatF a pat ex m)) = false
  | None => a = false /\ EIc (snd (eatF a pat ex m)) /\
            (vtmp (snd (eatF a pat ex m)) = [] \/ vil (snd (eatF a pat ex m)) = false)
  end.
Proof.
  intros Hp Hr HE Hti HL.
  assert (Hbody : forall m1 : M, cv3 m1 = cv3 m -> mout m1 = mout m -> EIc m1 -> vil m1 = false ->
    cv3 (snd (eat_bodyF a pat ex m1)) = cv3 m /\ Law input (mout (snd (eat_bodyF a pat ex m1))) /\
    match fst (eat_bodyF a pat ex m1) with
    | Some _ => Core (snd (eat_bodyF a pat ex m1)) /\ vtmp (snd (eat_bodyF a pat ex m1)) = [] /\
                vil (snd (eat_bodyF a pat ex m1)) = false
    | None => a = false /\ EIc (snd (eat_bodyF a pat ex m1)) /\
              (vtmp (snd (eat_bodyF a pat ex m1)) = [] \/ vil (snd (eat_bodyF a pat ex m1)) = false)
    end).
  { intros m1 A1 A2 A3 A4. destruct (eat_body_ok a pat ex m1 Hp A3 A4) as (B1 & B2 & B3 & B4).
    rewrite B1, B2, A1, A2. repeat split; auto.
    destruct (fst (eat_bodyF a pat ex m1)); [destruct B4; auto|destruct B4; auto]. }
  unfold eat. destruct (ignore_lf (mc m)) eqn:Hil.
  - destruct Hti as [Ht|Ht]; [|unfold vil in Ht; congruence].
    apply (EIc_nil m Ht) in HE. destruct HE as [C HC]. unfold vil in HC. rewrite Hil in HC.
    destruct (peekF m) as [c|] eqn:Hpk.
    + destruct (peek_some m c Hr Hpk) as [q' Hq]. rewrite Hq in HC.
      destruct (c =? LF) eqn:Ec.
      * rewrite Hhtml. apply N.eqb_eq in Ec. pose proof (T_skip _ _ _ _ _ _ HC Ec) as HT.
        destruct (discard_char_raw m c q' Hr Hq) as (D1 & D2 & D3).
        set (m' := discard_charF m) in *. clearbody m'. unfold dv in D1. injection D1 as G1 G2 G3 G4.
        destruct (cv_inv _ _ D2) as (I1 & I2 & I3 & I4).
        apply Hbody.
        -- destruct m' as [cf q o k]; destruct cf; unfold cv3 in *; unf; cbn in *; congruence.
        -- destruct m' as [cf q o k]; cbn in *; congruence.
        -- apply EIc_nil; [destruct m' as [cf q o k]; destruct cf; unf; cbn in *; congruence|].
           exists (C ++ [c]). destruct m' as [cf q o k]; destruct cf; unf; cbn in *. subst. exact HT.
        -- destruct m' as [cf q o k]; destruct cf; reflexivity.
      * assert (HT : CoreF input C (c :: q') (mcons m) (vln m) false) by (eapply T_ilclear; [exact HC|exact Ec]).
        apply Hbody.
        -- destruct m as [cf q o k]; destruct cf; reflexivity.
        -- destruct m as [cf q o k]; reflexivity.
        -- apply EIc_nil; [destruct m as [cf q o k]; destruct cf; unf; cbn in *; congruence|].
           exists C. destruct m as [cf q o k]; destruct cf; unf; cbn in *. subst. exact HT.
        -- destruct m as [cf q o k]; destruct cf; reflexivity.
    + pose proof (peek_none m Hr Hpk) as Hq. rewrite Hq in HC. destruct a.
      * assert (HT : CoreF input C [] (mcons m) (vln m) false) by (eapply T_ilclear; [exact HC|reflexivity]).
        apply Hbody.
        -- destruct m as [cf q o k]; destruct cf; reflexivity.
        -- destruct m as [cf q o k]; reflexivity.
        -- apply EIc_nil; [destruct m as [cf q o k]; destruct cf; unf; cbn in *; congruence|].
           exists C. destruct m as [cf q o k]; destruct cf; unf; cbn in *. subst. exact HT.
        -- destruct m as [cf q o k]; destruct cf; reflexivity.
      * cbn [fst snd]. repeat split; auto. apply EIc_nil; [exact Ht|]. exists C. rewrite Hq. unfold vil. rewrite Hil. exact HC.
  - apply Hbody; auto.
Qed.

(* ---------------------------------------------------------------- the step-boundary invariant *)
Variable clean : S -> bool.     (* states that are only ever entered with an empty temp_buf *)

Definition getter (b : body S) : bool := match b with BRead RGet _ | BPop _ _ _ _ => true | _ => false end.
Definition is_eatb (b : body S) : bool := match b with BEat _ _ _ _ => true | _ => false end.
Definition eatS (s : S) : bool := is_eatb (t_step tb s).
Lemma getter_not_eat s : getter (t_step tb s) = true -> eatS s = false.
Proof. unfold eatS. destruct (t_step tb s); cbn; congruence. Qed.

Hypothesis Hec : forall s, eatS s = true -> clean s = true.

(* what the character-reference sub-tokenizer has consumed RAW and may still put back *)
Definition hexl (o : option N) : list N := match o with Some c => [c] | None => [] end.
Definition crW (cr : crt) : list N :=
  match cr_st cr with
  | CrBegin | CrNumSemi => []
  | CrOcto => [35]
  | CrNumeric _ => if cr_seen cr then [] else 35 :: hexl (cr_hex cr)
  | CrNamed | CrBogus => cr_buf cr
  end.
Definition crshape (cr : crt) (q : list N) : Prop :=
  match cr_st cr with
  | CrBegin => cr_seen cr = false /\ cr_len cr = O
  | CrOcto => cr_seen cr = false
  | CrNamed => (cr_len cr <= length (cr_buf cr))%nat /\
               (cr_buf cr <> [] \/ exists c q', q = c :: q' /\ is_alnum c = true)
  | CrBogus => cr_buf cr <> []
  | _ => True
  end.
Definition CrC (cr : crt) (m : M) : Prop :=
  (exists C1, CoreF input (C1 ++ crW cr) (mq m) (mcons m) (vln m) (vil m)) /\ nobreaks (crW cr) = true.
Definition CrI (cr : crt) (m : M) : Prop := CrC cr m /\ crshape cr (mq m).

Definition EI (a : bool) (m : M) : Prop := EIc m /\ (vtmp m = [] \/ (vil m = false /\ a = false)).
Definition Inv (a : bool) (m : M) : Prop :=
  Law input (mout m) /\
  (vrc m = true -> getter (t_step tb (vst m)) = true /\ vcr m = None) /\
  (clean (vst m) = true -> eatS (vst m) = false -> vtmp m = []) /\
  match vcr m with
  | Some cr => vrc m = false /\ eatS (vst m) = false /\ CrI cr m
  | None => if eatS (vst m) then EI a m else Core m
  end.

Lemma Inv_weaken a (m : M) : Inv a m -> Inv false m.
Proof.
  intros (A & B & C & D). split; [exact A|split; [exact B|split; [exact C|]]]. destruct (vcr m); [exact D|].
  destruct (eatS (vst m)); [|exact D]. destruct D as [D1 D2]. split; [exact D1|].
  destruct D2 as [D2|[D2 _]]; auto.
Qed.

Lemma finish_Inv a (m : M) : CL m -> vrc m = false -> vcr m = None -> (clean (vst m) = true -> vtmp m = []) -> Inv a m.
Proof.
  intros [HC HL] Hr Hcr Ht. split; [exact HL|split; [rewrite Hr; discriminate|split; [auto|]]].
  rewrite Hcr. destruct (eatS (vst m)) eqn:E; [|exact HC].
  pose proof (Ht (Hec _ E)) as Ht'. split; [apply EIc_nil; assumption|left; exact Ht'].
Qed.

(* ---------------------------------------------------------------- terminators *)
Lemma updD_quiet f (m : M) : (forall x, ignore_lf (f x) = ignore_lf x /\ line (f x) = line x) -> quietD m (upd f m).
Proof.
  intros H. destruct m as [cf q o k]. destruct (H cf) as (A & B). unfold quietD, upd. unf. cbn. rewrite A, B.
  split; [reflexivity|constructor].
Qed.

Definition ectP (m m' : M) : Prop := quietD m m' /\ vrc m' = vrc m /\ vcr m' = vcr m /\ vtmp m' = vtmp m.
Lemma ect_spec (m : M) : ectP m (fst (emit_current_tagF m)).
Proof.
  unfold emit_current_tag. pose proof (finish_attribute_quiet m) as [[H0 H1] H2].
  destruct (cv3_inv _ _ H1) as (_ & I2 & I3).
  set (m1 := finish_attributeF m) in *. clearbody m1.
  assert (G : forall m' : M, ectP m1 m' -> ectP m m').
  { intros m' (A & B & C & D). split; [eapply quietD_trans; eassumption|]. repeat split; congruence. }
  apply G. clear G H0 H1 H2 I2 I3.
  rewrite Hhtml.
  destruct (tag_kind (mc m1)) eqn:Ek;
    destruct (lookup_resp (tag_name (mc m1)) (sk_resp sk)) as [[]|];
    destruct (tag_attrs (mc m1)); destruct (tag_self (mc m1));
    destruct m1 as [cf q o k0]; destruct cf; unfold ectP, quietD; unf; cbn; repeat split; repeat constructor.
Qed.

Inductive amode := AGot | APeek | AEat.

Definition term_ok (s : S) (cl : bool) (t : term S) : bool :=
  match t with
  | Stay | Fall | Eof => implb (clean s) cl
  | To s' | EmitPi s' => implb (clean s') cl
  | Reconsume s' => getter (t_step tb s') && implb (clean s') cl
  | ConsumeCharRef _ => negb (eatS s) && implb (clean s) cl
  | EmitTag _ | EmitKind _ _ => cl
  end.

Definition G (s : S) (cl : bool) (m : M) : Prop :=
  CL m /\ vst m = s /\ vrc m = false /\ vcr m = None /\ (cl = true -> vtmp m = []).

Lemma implb_use (a b : bool) : implb a b = true -> a = true -> b = true.
Proof. destruct a, b; cbn; congruence. Qed.

Lemma do_term_ok a s cl t (m : M) : term_ok s cl t = true -> G s cl m -> Inv a (fst (do_termF t m)).
Proof.
  intros Ht (HCL & Hs & Hr & Hcr & Htmp).
  assert (Hfin : forall m' : M, quietD m m' -> vrc m' = false -> vcr m' = None -> vtmp m' = vtmp m ->
                 implb (clean (vst m')) cl = true -> Inv a m').
  { intros m' Q A B C D. apply finish_Inv; auto; [eapply quietD_CL; eassumption|].
    intros E. rewrite C. apply Htmp. eapply implb_use; eassumption. }
  assert (Hect : forall m1 : M, quietD m m1 -> vrc m1 = false -> vcr m1 = None -> vtmp m1 = vtmp m -> cl = true ->
                 Inv a (fst (emit_current_tagF m1))).
  { intros m1 Q A B C D. destruct (ect_spec m1) as (E1 & E2 & E3 & E4). fold (vrc m1) in *. apply Hfin.
    - eapply quietD_trans; eassumption.
    - congruence.
    - congruence.
    - congruence.
    - rewrite D. destruct (clean _); reflexivity. }
  destruct t; cbn [do_term fst]; cbn [term_ok] in Ht.
  - (* Stay *) apply Hfin; auto using quietD_refl. rewrite Hs. exact Ht.
  - (* Fall *) apply Hfin; auto using quietD_refl. rewrite Hs. exact Ht.
  - (* To *) apply Hfin.
    + apply updD_quiet. intros x; destruct x; split; reflexivity.
    + destruct m as [cf q o k]; destruct cf; exact Hr.
    + destruct m as [cf q o k]; destruct cf; exact Hcr.
    + destruct m as [cf q o k]; destruct cf; reflexivity.
    + destruct m as [cf q o k]; destruct cf; exact Ht.
  - (* Reconsume *) apply andb_prop in Ht. destruct Ht as [Ht1 Ht2].
    set (m' := upd (fun x => x <| reconsume := true |> <| st := s0 |>) m).
    assert (Q : quietD m m') by (apply updD_quiet; intros x; destruct x; split; reflexivity).
    assert (E1 : vst m' = s0) by (destruct m as [cf q o k]; destruct cf; reflexivity).
    assert (E2 : vcr m' = None) by (destruct m as [cf q o k]; destruct cf; exact Hcr).
    assert (E3 : vtmp m' = vtmp m) by (destruct m as [cf q o k]; destruct cf; reflexivity).
    destruct (quietD_CL _ _ HCL Q) as [HC' HL']. unfold Inv. rewrite E1, E2, (getter_not_eat _ Ht1).
    repeat split; auto. intros E _. rewrite E3. apply Htmp. eapply implb_use; eassumption.
  - (* ConsumeCharRef *) apply andb_prop in Ht. destruct Ht as [Ht1 Ht2]. apply negb_true_iff in Ht1.
    set (m' := upd (fun x => x <| cref := Some (cr_new (f_is_attr_value fl (st x)) addnl) |>) m).
    assert (Q : quietD m m') by (apply updD_quiet; intros x; destruct x; split; reflexivity).
    assert (E1 : vst m' = s) by (destruct m as [cf q o k]; destruct cf; exact Hs).
    assert (E2 : vcr m' = Some (cr_new (f_is_attr_value fl (vst m)) addnl)) by (destruct m as [cf q o k]; destruct cf; reflexivity).
    assert (E3 : vtmp m' = vtmp m) by (destruct m as [cf q o k]; destruct cf; reflexivity).
    assert (E4 : vrc m' = false) by (destruct m as [cf q o k]; destruct cf; exact Hr).
    destruct (quietD_CL _ _ HCL Q) as [[C HC'] HL']. unfold Inv. rewrite E1, E2, E4, Ht1.
    repeat split; auto; try discriminate.
    + intros E _. rewrite E3. apply Htmp. eapply implb_use; eassumption.
    + exists C. cbn. rewrite app_nil_r. exact HC'.
  - (* EmitTag *) apply Hect;
      [apply updD_quiet; intros x; destruct x; split; reflexivity
      |destruct m as [cf q o k0]; destruct cf; exact Hr
      |destruct m as [cf q o k0]; destruct cf; exact Hcr
      |destruct m as [cf q o k0]; destruct cf; reflexivity
      |exact Ht].
  - (* EmitKind *) destruct k; cbn [do_term fst]; (apply Hect;
      [apply updD_quiet; intros x; destruct x; split; reflexivity
      |destruct m as [cf q o k0]; destruct cf; exact Hr
      |destruct m as [cf q o k0]; destruct cf; exact Hcr
      |destruct m as [cf q o k0]; destruct cf; reflexivity
      |exact Ht]).
  - (* EmitPi *) apply Hfin.
    + eapply quietD_trans; [apply emit_quiet|]. apply updD_quiet. intros x; destruct x; split; reflexivity.
    + destruct m as [cf q o k]; destruct cf; exact Hr.
    + destruct m as [cf q o k]; destruct cf; exact Hcr.
    + destruct m as [cf q o k]; destruct cf; reflexivity.
    + destruct m as [cf q o k]; destruct cf; exact Ht.
  - (* Eof *) apply Hfin.
    + apply emit_quiet.
    + destruct m as [cf q o k]; exact Hr.
    + destruct m as [cf q o k]; exact Hcr.
    + destruct m as [cf q o k]; reflexivity.
    + destruct m as [cf q o k]; unf; cbn in *. rewrite Hs. exact Ht.
Qed.

(* ---------------------------------------------------------------- the shape check on arm bodies *)
(* [md]: AGot  = the reconsume flag is clear, nothing is pending;
         APeek = the character at hand was peeked and is still the head of the queue;
         AEat  = look-ahead position of an eat state (nothing consumed in this step, temp_buf empty, no pending CR).
   [cl]: temp_buf is known to be empty. *)
Fixpoint lchk (s : S) (md : amode) (cl : bool) (b : body S) : bool :=
  match b with
  | BRead RGet k => implb (clean s) cl && lchk s AGot cl k
  | BRead RPeek k =>
    implb (clean s) cl && negb (path_discards 10 k) && negb (path_discards 13 k) && lchk s APeek cl k
  | BPop _ _ _ kc => implb (clean s) cl && lchk s AGot cl kc
  | BEat p _ y n =>
    match md with AEat => nobreaks p && lchk s AGot true y && lchk s AEat true n | _ => false end
  | BIf _ y n => lchk s md cl y && lchk s md cl n
  | BCmd DiscardChar k | BCmd DiscardWs k => match md with APeek => lchk s AGot cl k | _ => false end
  | BCmd (PushTemp _) k => lchk s (match md with AEat => AGot | _ => md end) false k
  | BCmd ClearTemp k | BCmd EmitTemp k => lchk s md true k
  | BCmd _ k => lchk s md cl k
  | BEnd t => term_ok s cl t
  end.

Definition Pm (md : amode) (c : N) (b : body S) (m : M) : Prop :=
  match md with
  | AGot => True
  | APeek => (exists q', mq m = c :: q') /\ (nobrk c = false -> path_discards c b = false)
  | AEat => vil m = false /\ vtmp m = [] /\ eatS (vst m) = true
  end.

Notation ceval_condF := (@ceval_cond S (list N) sk).
Lemma static_cond_sound k c (m : M) b : static_cond k c = Some b -> ceval_condF k c m = b.
Proof. destruct k; cbn; intros H; try discriminate; injection H; auto. Qed.

Lemma nobrk_false c : nobrk c = false -> c = 10 \/ c = 13.
Proof.
  unfold nobrk. intros H. apply negb_false_iff in H. apply orb_prop in H.
  destruct H as [H|H]; apply N.eqb_eq in H; [right|left]; exact H.
Qed.

Lemma lchk_quiet s md cl k rest : is_discard k = false -> is_tempcmd k = false ->
  lchk s md cl (BCmd k rest) = lchk s md cl rest.
Proof. destruct k; cbn; intros; try discriminate; reflexivity. Qed.
Lemma pd_cmd c k (rest : body S) : is_discard k = false -> path_discards c (BCmd k rest) = path_discards c rest.
Proof. destruct k; cbn; intros; try discriminate; reflexivity. Qed.

Lemma G_quietT s cl cl' (m m' : M) : G s cl m -> quietT m m' -> (cl' = true -> vtmp m' = []) -> G s cl' m'.
Proof.
  intros (A & B & C & D & E) [Q1 Q2] Ht. destruct (cv3_inv _ _ Q2) as (I1 & I2 & I3).
  split; [eapply quietD_CL; [exact A|exact Q1]|]. repeat split; try congruence. exact Ht.
Qed.

Lemma mkG s cl (m : M) : CL m -> vst m = s -> vrc m = false -> vcr m = None -> (cl = true -> vtmp m = []) -> G s cl m.
Proof. unfold G. auto. Qed.

Lemma exec_ok a s : forall b md cl c run (m : M),
  lchk s md cl b = true -> G s cl m -> Pm md c b m -> Inv a (fst (execF a b c run m)).
Proof.
  induction b as [rk k IH|set sm krun IHr kchar IHc|p e y IHy n IHn|k y IHy n IHn|k rest IH|t];
    intros md cl c run m Hc HG HP; cbn [exec]; cbn [lchk] in Hc.
  - (* BRead *) destruct rk.
    + apply andb_prop in Hc. destruct Hc as [Hc1 Hc2]. destruct HG as (HCL & Hs & Hr & Hcr & Ht).
      pose proof (get_char_ok m HCL) as (A & B & D). destruct (cvx_inv _ _ B) as (B1 & B2 & B3).
      destruct (get_charF m) as [[c'|] m1]; cbn [fst snd] in *.
      * apply (IH AGot cl); [exact Hc2|apply mkG; try congruence; intros E; rewrite B2; auto|exact I].
      * apply finish_Inv; try congruence. intros E. rewrite B2. apply Ht. eapply implb_use; [exact Hc1|congruence].
    + apply andb_prop in Hc. destruct Hc as [Hc Hc4]. apply andb_prop in Hc. destruct Hc as [Hc Hc3].
      apply andb_prop in Hc. destruct Hc as [Hc1 Hc2]. apply negb_true_iff in Hc2, Hc3.
      destruct HG as (HCL & Hs & Hr & Hcr & Ht).
      destruct (peekF m) as [c'|] eqn:Hp.
      * apply (IH APeek cl); [exact Hc4|apply mkG; auto|]. split; [eapply peek_some; eassumption|].
        intros Hn. destruct (nobrk_false _ Hn) as [->| ->]; assumption.
      * cbn [fst]. apply finish_Inv; auto. intros E. apply Ht. eapply implb_use; [exact Hc1|congruence].
  - (* BPop *) rewrite pop_exact.
    apply andb_prop in Hc. destruct Hc as [Hc1 Hc2]. destruct HG as (HCL & Hs & Hr & Hcr & Ht).
    pose proof (get_char_ok m HCL) as (A & B & D). destruct (cvx_inv _ _ B) as (B1 & B2 & B3).
    destruct (get_charF m) as [[c'|] m1]; cbn [fst snd] in *.
    * apply (IHc AGot cl); [exact Hc2|apply mkG; try congruence; intros E; rewrite B2; auto|exact I].
    * apply finish_Inv; try congruence. intros E. rewrite B2. apply Ht. eapply implb_use; [exact Hc1|congruence].
  - (* BEat *) destruct md; try discriminate. apply andb_prop in Hc. destruct Hc as [Hc Hc3].
    apply andb_prop in Hc. destruct Hc as [Hc1 Hc2]. destruct HG as ([HC HL] & Hs & Hr & Hcr & Ht).
    destruct HP as (P1 & P2 & P3).
    pose proof (eat_ok a p e m Hc1 Hr (proj2 (EIc_nil m P2) HC) (or_introl P2) HL) as (A & B & D).
    destruct (cv3_inv _ _ A) as (A1 & A2 & A3).
    destruct (eatF a p e m) as [[[|]|] m1]; cbn [fst snd] in *.
    + destruct D as (D1 & D2 & D3). apply (IHy AGot true); [exact Hc2|apply mkG; auto; try congruence; split; auto|exact I].
    + destruct D as (D1 & D2 & D3). apply (IHn AEat true); [exact Hc3|apply mkG; auto; try congruence; split; auto|repeat split; auto; congruence].
    + destruct D as (D1 & D2 & D3). unfold Inv. rewrite A1, A2, A3, Hr, Hcr, P3.
      split; [exact B|split; [discriminate|split; [discriminate|]]]. split; [exact D2|].
      destruct D3 as [D3|D3]; [left; exact D3|right; auto].
  - (* BIf *) apply andb_prop in Hc. destruct Hc as [Hc1 Hc2].
    destruct (ceval_condF k c m) eqn:E; [apply (IHy md cl)|apply (IHn md cl)]; auto;
      (destruct md; [exact I| |exact HP]); destruct HP as [HP1 HP2]; (split; [exact HP1|]);
      intros Hn; specialize (HP2 Hn); cbn [path_discards] in HP2;
      destruct (static_cond k c) as [[|]|] eqn:Es;
      try (rewrite (static_cond_sound _ _ m _ Es) in E; discriminate E); try exact HP2;
      apply orb_false_iff in HP2; tauto.
  - (* BCmd *) destruct (is_discard k) eqn:Ed.
    + destruct HG as (HCL & Hs & Hr & Hcr & Ht).
      destruct k; try discriminate Ed; cbn [lchk do_cmd] in *; (destruct md; try discriminate Hc);
        destruct HP as [[q' Hq] HP2].
      * (* DiscardChar *) destruct (nobrk c) eqn:En; [|specialize (HP2 eq_refl); discriminate HP2].
        destruct (discard_char_nb m c q' HCL Hr Hq En) as (A & B & D). destruct (cv_inv _ _ B) as (B1 & B2 & B3 & B4).
        apply (IH AGot cl); [exact Hc|apply mkG; try congruence; intros E; rewrite B3; auto|exact I].
      * (* DiscardWs *)
        destruct (discard_ws_ok m c q' HCL Hr Hq) as (A & B). destruct (cv_inv _ _ B) as (B1 & B2 & B3 & B4).
        apply (IH AGot cl); [exact Hc|apply mkG; try congruence; intros E; rewrite B3; auto|exact I].
    + destruct (is_tempcmd k) eqn:Et.
      * destruct (do_cmd_temp k c run m Et) as [Q Htmp].
        assert (Hq : mq (do_cmdF k c run m) = mq m) by (destruct Q as [[Q _] _]; apply (dv_inv _ _ Q)).
        assert (Hi : vil (do_cmdF k c run m) = vil m) by (destruct Q as [[Q _] _]; apply (dv_inv _ _ Q)).
        assert (Hst : vst (do_cmdF k c run m) = vst m) by (destruct Q as [_ Q]; apply (cv3_inv _ _ Q)).
        destruct k; try discriminate Et; cbn [lchk] in Hc.
        -- (* PushTemp *) apply (IH (match md with AEat => AGot | _ => md end) false); [exact Hc| |].
           ++ eapply G_quietT; [exact HG|exact Q|discriminate].
           ++ destruct md; [exact I| |exact I]. destruct HP as [[q' Hq'] HP2]. split; [exists q'; congruence|].
              intros Hn. rewrite <- (pd_cmd c (PushTemp e) rest eq_refl). auto.
        -- (* ClearTemp *) apply (IH md true); [exact Hc| |].
           ++ eapply G_quietT; [exact HG|exact Q|intros _; exact Htmp].
           ++ destruct md; [exact I| |].
              ** destruct HP as [[q' Hq'] HP2]. split; [exists q'; congruence|].
                 intros Hn. rewrite <- (pd_cmd c ClearTemp rest eq_refl). auto.
              ** destruct HP as (P1 & P2 & P3). repeat split; congruence.
        -- (* EmitTemp *) apply (IH md true); [exact Hc| |].
           ++ eapply G_quietT; [exact HG|exact Q|intros _; exact Htmp].
           ++ destruct md; [exact I| |].
              ** destruct HP as [[q' Hq'] HP2]. split; [exists q'; congruence|].
                 intros Hn. rewrite <- (pd_cmd c EmitTemp rest eq_refl). auto.
              ** destruct HP as (P1 & P2 & P3). repeat split; congruence.
      * assert (Hc' : lchk s md cl rest = true) by (rewrite <- (lchk_quiet s md cl k rest Ed Et); exact Hc).
        clear Hc; rename Hc' into Hc. pose proof (do_cmd_quiet k c run m Ed Et) as [Q Htmp].
        assert (Hq : mq (do_cmdF k c run m) = mq m) by (destruct Q as [[Q _] _]; apply (dv_inv _ _ Q)).
        assert (Hi : vil (do_cmdF k c run m) = vil m) by (destruct Q as [[Q _] _]; apply (dv_inv _ _ Q)).
        assert (Hst : vst (do_cmdF k c run m) = vst m) by (destruct Q as [_ Q]; apply (cv3_inv _ _ Q)).
        apply (IH md cl); [exact Hc| |].
        -- eapply G_quietT; [exact HG|exact Q|]. intros E. rewrite Htmp. destruct HG as (_ & _ & _ & _ & Ht). auto.
        -- destruct md; [exact I| |].
           ** destruct HP as [[q' Hq'] HP2]. split; [exists q'; congruence|].
              intros Hn. rewrite <- (pd_cmd c k rest Ed). auto.
           ** destruct HP as (P1 & P2 & P3). repeat split; congruence.
  - (* BEnd *) eapply do_term_ok; eassumption.
Qed.

(* ---------------------------------------------------------------- one step of the table (no character reference pending) *)
Definition start_ok (s : S) : bool :=
  match t_step tb s with
  | BRead RGet k => lchk s AGot (clean s) k
  | BPop _ _ _ kc => lchk s AGot (clean s) kc
  | BRead RPeek k => lchk s AGot (clean s) (BRead RPeek k)
  | BEat p e y n => nobreaks p && lchk s AGot true y && lchk s AEat true n
  | BEnd Fall => true
  | _ => false
  end.
Hypothesis Hstart : forall s, start_ok s = true.

Lemma Inv_noeat a b (m : M) : eatS (vst m) = false -> Inv a m -> Inv b m.
Proof.
  intros He (A & B & C & D). split; [exact A|split; [exact B|split; [exact C|]]].
  destruct (vcr m); [exact D|]. rewrite He in *. exact D.
Qed.

Lemma step_exec_ok a (m : M) : Inv false m -> vcr m = None -> Inv a (fst (execF a (t_step tb (vst m)) 0 [] m)).
Proof.
  intros HI Hcr. pose proof (Hstart (vst m)) as Hs. unfold start_ok in Hs.
  pose proof HI as (HL & HR & HT & HD). rewrite Hcr in HD.
  destruct (t_step tb (vst m)) as [rk k|set sm krun kchar|p e y n|k y n|k rest|t] eqn:Eb; try discriminate Hs.
  - assert (He : eatS (vst m) = false) by (unfold eatS; rewrite Eb; destruct rk; reflexivity).
    rewrite He in HD. specialize (HT). destruct rk.
    + cbn [exec]. pose proof (get_char_ok m (conj HD HL)) as (A & B & D). destruct (cvx_inv _ _ B) as (B1 & B2 & B3).
      destruct (get_charF m) as [[c'|] m1]; cbn [fst snd] in *.
      * apply (exec_ok a (vst m) k AGot (clean (vst m))); [exact Hs|apply mkG; try congruence|exact I].
        intros E. rewrite B2. auto.
      * apply finish_Inv; try congruence. intros E. rewrite B2. apply HT; congruence.
    + assert (Hr : vrc m = false).
      { destruct (vrc m) eqn:E; [|reflexivity]. destruct (HR eq_refl) as [G _]. try rewrite Eb in G. discriminate G. }
      apply (exec_ok a (vst m) (BRead RPeek k) AGot (clean (vst m))); [exact Hs|apply mkG; auto|exact I].
      split; assumption.
  - assert (He : eatS (vst m) = false) by (unfold eatS; rewrite Eb; reflexivity).
    rewrite He in HD. cbn [exec]. rewrite pop_exact.
    pose proof (get_char_ok m (conj HD HL)) as (A & B & D). destruct (cvx_inv _ _ B) as (B1 & B2 & B3).
    destruct (get_charF m) as [[c'|] m1]; cbn [fst snd] in *.
    + apply (exec_ok a (vst m) kchar AGot (clean (vst m))); [exact Hs|apply mkG; try congruence|exact I].
      intros E. rewrite B2. auto.
    + apply finish_Inv; try congruence. intros E. rewrite B2. apply HT; congruence.
  - assert (He : eatS (vst m) = true) by (unfold eatS; rewrite Eb; reflexivity).
    rewrite He in HD.
    assert (Hr : vrc m = false).
    { destruct (vrc m) eqn:E; [|reflexivity]. destruct (HR eq_refl) as [G _]. try rewrite Eb in G. discriminate G. }
    apply andb_prop in Hs. destruct Hs as [Hs Hc3]. apply andb_prop in Hs. destruct Hs as [Hc1 Hc2].
    destruct HD as [D1 D2]. cbn [exec].
    assert (D2' : vtmp m = [] \/ vil m = false) by (destruct D2 as [D2|[D2 _]]; auto).
    pose proof (eat_ok a p e m Hc1 Hr D1 D2' HL) as (A & B & D).
    destruct (cv3_inv _ _ A) as (A1 & A2 & A3).
    destruct (eatF a p e m) as [[[|]|] m1]; cbn [fst snd] in *.
    + destruct D as (E1 & E2 & E3).
      apply (exec_ok a (vst m) y AGot true); [exact Hc2|apply mkG; auto; try congruence; split; auto|exact I].
    + destruct D as (E1 & E2 & E3).
      apply (exec_ok a (vst m) n AEat true); [exact Hc3|apply mkG; auto; try congruence; split; auto|].
      repeat split; auto; congruence.
    + destruct D as (E1 & E2 & E3). unfold Inv. rewrite A1, A2, A3, Hr, Hcr, He.
      split; [exact B|split; [discriminate|split; [discriminate|]]]. split; [exact E2|].
      destruct E3 as [E3|E3]; [left; exact E3|right; auto].
  - destruct t; try discriminate Hs. cbn [exec do_term fst]. apply (Inv_noeat false a); [|exact HI].
    unfold eatS. rewrite Eb. reflexivity.
Qed.

(* ---------------------------------------------------------------- the character-reference sub-tokenizer *)
Notation finish_numericF := (@finish_numeric S (list N) c1).
Notation unconsume_numericF := (@unconsume_numeric S (list N) (@app N)).
Notation finish_namedF := (@finish_named S (list N) (@app N) fl).
Notation discard_rawF := (@discard_raw S (list N) fq_next fl true).
Notation cr_readF := (@cr_read S (list N) fq_next fq_peek fl true).
Notation cr_stepF := (@cr_step S (list N) fq_next fq_peek (@app N) fl true ent c1).
Notation process_char_refF := (@process_char_ref S (list N) fl).

(* entity names (and the prefixes the table knows) contain no line break *)
Hypothesis Hent : forall buf v, ent buf = Some v -> nobreaks buf = true.

Definition CoreAt (C : list N) (m : M) : Prop := CoreF input C (mq m) (mcons m) (vln m) (vil m).

Lemma raw_ok (m : M) c q' C : vrc m = false -> mq m = c :: q' -> CoreAt C m -> nobrk c = true ->
  CoreAt (C ++ [c]) (discard_charF m) /\ cv (discard_charF m) = cv m /\ mout (discard_charF m) = mout m /\
  mq (discard_charF m) = q'.
Proof.
  intros Hr Hq HC Hc. destruct (discard_char_raw m c q' Hr Hq) as (A & B & D).
  unfold CoreAt in *. rewrite Hq in HC. pose proof (T_raw _ _ _ _ _ _ _ HC Hc) as HT.
  unfold dv in A. injection A as A1 A2 A3 A4. rewrite A1, A2, A3, A4. auto.
Qed.

Lemma unc_ok (m : M) C1 W : CoreAt (C1 ++ W) m -> nobreaks W = true ->
  CoreAt C1 (unconsumeF W m) /\ cv (unconsumeF W m) = cv m /\ mout (unconsumeF W m) = mout m.
Proof.
  intros HC HW. pose proof (T_uncons _ _ _ _ _ _ _ HC HW) as HT.
  destruct m as [cf q o k]. unfold CoreAt, cv in *. unf. cbn in *. auto.
Qed.

Lemma unconsume_spec b (m : M) :
  mq (unconsumeF b m) = b ++ mq m /\ mcons (unconsumeF b m) = mcons m - lenN b /\ vln (unconsumeF b m) = vln m /\
  vil (unconsumeF b m) = vil m /\ cv (unconsumeF b m) = cv m /\ mout (unconsumeF b m) = mout m.
Proof. destruct m as [cf q o k]. repeat split. Qed.

Lemma unc_c_ok (m : M) c q' C1 W : vrc m = false -> mq m = c :: q' -> CoreAt (C1 ++ W) m -> nobreaks W = true ->
  negb (vil m) || negb (c =? LF) = true ->
  CoreAt C1 (unconsumeF (W ++ [c]) (discard_charF m)) /\ cv (unconsumeF (W ++ [c]) (discard_charF m)) = cv m /\
  mout (unconsumeF (W ++ [c]) (discard_charF m)) = mout m /\ vil (unconsumeF (W ++ [c]) (discard_charF m)) = false.
Proof.
  intros Hr Hq HC HW Hc. destruct (discard_char_raw m c q' Hr Hq) as (A & B & D).
  unfold CoreAt in *. rewrite Hq in HC. pose proof (T_uncons_c _ _ _ _ _ _ _ _ HC HW Hc) as HT.
  set (m1 := discard_charF m) in *. clearbody m1. unfold dv in A. injection A as A1 A2 A3 A4.
  destruct (unconsume_spec (W ++ [c]) m1) as (U1 & U2 & U3 & U4 & U5 & U6).
  rewrite U1, U2, U3, U4, U5, U6, A1, A2, A3, A4, <- app_assoc. cbn [app]. auto.
Qed.

Lemma CoreAt_CL C (m : M) : CoreAt C m -> Law input (mout m) -> CL m.
Proof. intros A B. split; [exists C; exact A|exact B]. Qed.

Lemma err_ok (m : M) : CL m -> CL (err m) /\ cv (err m) = cv m.
Proof.
  intros H. destruct (err_quiet m) as [[Q1 Q2] Q3]. split; [eapply quietD_CL; eassumption|].
  destruct (cv3_inv _ _ Q2) as (A & B & D). unfold cv. congruence.
Qed.
Lemma errif_ok (b : bool) (m : M) : CL m -> CL (if b then err m else m) /\ cv (if b then err m else m) = cv m.
Proof. intros H. destruct b; [apply err_ok; exact H|auto]. Qed.

Lemma finish_numeric_ok cr (m : M) : CL m ->
  CL (snd (finish_numericF cr m)) /\ cv (snd (finish_numericF cr m)) = cv m.
Proof.
  intros H. unfold finish_numeric.
  repeat match goal with |- context [if ?b then _ else _] => destruct b end; cbn [snd]; auto using err_ok.
Qed.

Lemma setil_ok (m : M) : CL m -> vil m = false ->
  CL (upd (fun x => x <| ignore_lf := false |>) m) /\ cv (upd (fun x => x <| ignore_lf := false |>) m) = cv m.
Proof.
  intros H Hi. destruct m as [cf q o k]. unfold CL, Core, cv in *. unf. destruct cf; cbn in *. subst. auto.
Qed.

Lemma nb_il_false C1 W q k ln i : CoreF input (C1 ++ W) q k ln i -> nobreaks W = true -> W <> [] -> i = false.
Proof.
  intros (_ & _ & _ & Ha & _) HW Hne. destruct i; [|reflexivity]. specialize (Ha eq_refl).
  rewrite (endcr_app_nb _ _ HW) in Ha. destruct W; [congruence|discriminate].
Qed.

Lemma is_alnum_nobrk c : is_alnum c = true -> nobrk c = true.
Proof.
  unfold nobrk. intros H. apply negb_true_iff. apply orb_false_iff.
  split; apply N.eqb_neq; intros ->; vm_compute in H; discriminate.
Qed.
Lemma to_digit_nobrk b c n : to_digit b c = Some n -> nobrk c = true.
Proof.
  unfold nobrk. intros H. apply negb_true_iff. apply orb_false_iff.
  split; apply N.eqb_neq; intros ->; unfold to_digit in H; cbn in H;
    rewrite ?andb_false_r in H; cbn in H; discriminate.
Qed.

Definition crP (m : M) (r : crres * M) : Prop :=
  cv (snd r) = cv m /\ Law input (mout (snd r)) /\
  match fst r with
  | CrStuck => snd r = m
  | CrProgress cr' => CrI cr' (snd r)
  | CrDone _ => Core (snd r)
  end.

Lemma mk_prog (m m' : M) cr' : cv m' = cv m -> Law input (mout m') -> CrI cr' m' -> crP m (CrProgress cr', m').
Proof. unfold crP. auto. Qed.
Lemma mk_done (m m' : M) chars : cv m' = cv m -> CL m' -> crP m (CrDone chars, m').
Proof. unfold crP. intros A [B D]. auto. Qed.
Lemma mkCrI cr (m : M) C1 : CoreAt (C1 ++ crW cr) m -> nobreaks (crW cr) = true -> crshape cr (mq m) -> CrI cr m.
Proof. intros A B D. split; [split; [exists C1; exact A|exact B]|exact D]. Qed.

(* what finish_named does when the name ended at the character c just read raw *)
Lemma finish_named_some cr1 c (m : M) q' C1 buf :
  vrc m = false -> mq m = c :: q' -> CoreAt (C1 ++ buf) m -> nobreaks buf = true ->
  negb (vil m) || negb (c =? LF) = true -> Law input (mout m) ->
  cr_buf cr1 = buf ++ [c] -> (cr_len cr1 <= length buf)%nat -> cr_st cr1 = CrNamed ->
  crP m (finish_namedF cr1 (Some c) (discard_charF m)).
Proof.
  intros Hr Hq HC Hb Hc HL Ebuf Hlen Est.
  assert (Hall : forall (e : bool) C1' W, C1' ++ W = C1 ++ buf -> nobreaks W = true ->
     let m' := unconsumeF (W ++ [c]) (discard_charF m) in
     CL (if e then err m' else m') /\ cv (if e then err m' else m') = cv m /\ vil (if e then err m' else m') = false).
  { intros e C1' W EW HW m'. rewrite <- EW in HC. destruct (unc_c_ok m c q' C1' W Hr Hq HC HW Hc) as (A & B & D & E).
    fold m' in A, B, D, E. assert (G : CL m') by (eapply CoreAt_CL; [exact A|rewrite D; exact HL]).
    destruct e; [|auto]. destruct (err_ok m' G) as [G1 G2]. split; [exact G1|split; [congruence|]].
    destruct m' as [cf q o k]; exact E. }
  unfold finish_named. rewrite Ebuf. destruct (cr_match cr1) as [[a b]|].
  - rewrite Hhtml.
    match goal with |- context [let '(unc, e) := ?X in _] => destruct X as [unc e] end.
    destruct unc.
    + destruct (Hall e C1 buf eq_refl Hb) as (A & B & D). apply mk_done; assumption.
    + assert (Esk : skipn (cr_len cr1) (buf ++ [c]) = skipn (cr_len cr1) buf ++ [c]).
      { rewrite skipn_app. replace (cr_len cr1 - length buf)%nat with O by lia. reflexivity. }
      rewrite Esk.
      assert (EW : (C1 ++ firstn (cr_len cr1) buf) ++ skipn (cr_len cr1) buf = C1 ++ buf)
        by (rewrite <- app_assoc, firstn_skipn; reflexivity).
      assert (HW : nobreaks (skipn (cr_len cr1) buf) = true).
      { rewrite <- (firstn_skipn (cr_len cr1) buf), nobreaks_app in Hb. apply andb_prop in Hb. tauto. }
      destruct (Hall e _ _ EW HW) as (A & B & D).
      match goal with |- crP m (_, upd _ ?X) => set (m2 := X) in * end.
      destruct (setil_ok m2 A D) as [G1 G2]. apply mk_done; [congruence|exact G1].
  - destruct (is_alnum c) eqn:Ea.
    + destruct (raw_ok m c q' (C1 ++ buf) Hr Hq HC (is_alnum_nobrk _ Ea)) as (A & B & D & E).
      apply mk_prog; [exact B|rewrite D; exact HL|]. apply (mkCrI _ _ C1).
      * unfold crW. destruct cr1; cbn in Ebuf, Est |- *. subst. rewrite app_assoc. exact A.
      * unfold crW. destruct cr1; cbn in Ebuf, Est |- *. subst. rewrite nobreaks_app, Hb. cbn. rewrite (is_alnum_nobrk _ Ea). reflexivity.
      * unfold crshape. destruct cr1; cbn in Ebuf, Est |- *. subst. destruct buf; discriminate.
    + destruct (Hall ((c =? 59) && Nat.ltb 1 (length (buf ++ [c]))) C1 buf eq_refl Hb) as (A & B & D).
      apply mk_done; assumption.
Qed.

Lemma cr_step_ok cr (m : M) : Law input (mout m) -> vrc m = false -> CrI cr m -> crP m (cr_stepF cr m).
Proof.
  intros HL Hr [[[C1 HC] HW] Hsh]. fold (CoreAt (C1 ++ crW cr) m) in HC.
  assert (Hstuck : crP m (CrStuck, m)) by (unfold crP; cbn [fst snd]; auto).
  unfold cr_step. destruct (cr_st cr) eqn:Est.
  - (* CrBegin *) destruct (peekF m) as [c|] eqn:Hp; [|exact Hstuck].
    destruct (peek_some m c Hr Hp) as [q' Hq]. rewrite Hhtml.
    unfold crW in HC, HW. unfold crshape in Hsh. rewrite Est in *. rewrite app_nil_r in HC. destruct Hsh as [Hs1 Hs2].
    destruct (is_alnum c) eqn:Ea; [|destruct (c =? 35) eqn:E35].
    + apply mk_prog; auto. apply (mkCrI _ _ C1).
      * unfold crW. destruct cr; cbn. rewrite app_nil_r. exact HC.
      * unfold crW. destruct cr; reflexivity.
      * unfold crshape. destruct cr; cbn in Hs2 |- *. subst. split; [lia|]. right. eauto.
    + apply N.eqb_eq in E35. subst c.
      destruct (raw_ok m 35 q' C1 Hr Hq HC eq_refl) as (A & B & D & E).
      apply mk_prog; [exact B|rewrite D; exact HL|]. apply (mkCrI _ _ C1).
      * unfold crW. destruct cr; cbn. exact A.
      * unfold crW. destruct cr; reflexivity.
      * unfold crshape. destruct cr; cbn in Hs1 |- *. exact Hs1.
    + apply mk_done; auto. eapply CoreAt_CL; eassumption.
  - (* CrOcto *) destruct (peekF m) as [c|] eqn:Hp; [|exact Hstuck].
    destruct (peek_some m c Hr Hp) as [q' Hq].
    unfold crW in HC, HW. unfold crshape in Hsh. rewrite Est in *.
    destruct ((c =? 120) || (c =? 88)) eqn:Ex.
    + assert (Hc : nobrk c = true).
      { apply orb_prop in Ex. destruct Ex as [Ex|Ex]; apply N.eqb_eq in Ex; subst; reflexivity. }
      destruct (raw_ok m c q' _ Hr Hq HC Hc) as (A & B & D & E).
      apply mk_prog; [exact B|rewrite D; exact HL|]. apply (mkCrI _ _ C1).
      * unfold crW. destruct cr; cbn in Hsh |- *. subst. rewrite <- app_assoc in A. exact A.
      * unfold crW. destruct cr; cbn in Hsh |- *. subst. cbn. rewrite Hc. reflexivity.
      * unfold crshape. destruct cr; exact I.
    + apply mk_prog; auto. apply (mkCrI _ _ C1).
      * unfold crW. destruct cr; cbn in Hsh |- *. subst. exact HC.
      * unfold crW. destruct cr; cbn in Hsh |- *. subst. reflexivity.
      * unfold crshape. destruct cr; exact I.
  - (* CrNumeric *) destruct (peekF m) as [c|] eqn:Hp; [|exact Hstuck].
    destruct (peek_some m c Hr Hp) as [q' Hq].
    destruct (to_digit base c) as [n|] eqn:Ed.
    + pose proof (to_digit_nobrk _ _ _ Ed) as Hc.
      destruct (raw_ok m c q' _ Hr Hq HC Hc) as (A & B & D & E).
      apply mk_prog; [exact B|rewrite D; exact HL|]. apply (mkCrI _ _ ((C1 ++ crW cr) ++ [c])).
      * unfold crW at 2. destruct cr; cbn in Est |- *. subst. rewrite app_nil_r. exact A.
      * unfold crW. destruct cr; cbn in Est |- *. subst. reflexivity.
      * unfold crshape. destruct cr; cbn in Est |- *. subst. exact I.
    + destruct (negb (cr_seen cr)) eqn:Eseen.
      * apply negb_true_iff in Eseen. unfold unconsume_numeric.
        unfold crW in HC, HW. rewrite Est, Eseen in *.
        destruct (unc_ok m C1 _ HC HW) as (A & B & D).
        change (35 :: match cr_hex cr with Some c0 => [c0] | None => [] end) with (35 :: hexl (cr_hex cr)).
        set (m1 := unconsumeF (35 :: hexl (cr_hex cr)) m) in *.
        assert (G : CL m1) by (eapply CoreAt_CL; [exact A|rewrite D; exact HL]).
        destruct (err_ok m1 G) as [G1 G2]. apply mk_done; [congruence|exact G1].
      * apply negb_false_iff in Eseen. unfold crW in HC, HW. rewrite Est, Eseen in *.
        apply mk_prog; auto. apply (mkCrI _ _ C1).
        -- unfold crW. destruct cr; cbn. exact HC.
        -- unfold crW. destruct cr; reflexivity.
        -- unfold crshape. destruct cr; exact I.
  - (* CrNumSemi *) destruct (peekF m) as [c|] eqn:Hp; [|exact Hstuck].
    destruct (peek_some m c Hr Hp) as [q' Hq].
    unfold crW in HC, HW. rewrite Est in *.
    assert (G : CL (if c =? 59 then discard_charF m else err m) /\ cv (if c =? 59 then discard_charF m else err m) = cv m).
    { destruct (c =? 59) eqn:E59.
      - apply N.eqb_eq in E59. subst c. destruct (raw_ok m 59 q' _ Hr Hq HC eq_refl) as (A & B & D & E).
        split; [eapply CoreAt_CL; [exact A|rewrite D; exact HL]|exact B].
      - apply err_ok. eapply CoreAt_CL; eassumption. }
    destruct G as [G1 G2]. set (m1 := if c =? 59 then discard_charF m else err m) in *. clearbody m1.
    destruct (finish_numeric_ok cr m1 G1) as [F1 F2].
    destruct (finish_numericF cr m1) as [chars m2]. cbn [fst snd] in *.
    apply mk_done; [congruence|exact F1].
  - (* CrNamed *) unfold cr_read. destruct (peekF m) as [c|] eqn:Hp; [|exact Hstuck].
    destruct (peek_some m c Hr Hp) as [q' Hq]. unfold discard_raw. rewrite Hhtml.
    unfold crW in HC, HW. unfold crshape in Hsh. rewrite Est in *. destruct Hsh as [Hs1 Hs2].
    destruct (ent (cr_buf cr ++ [c])) as [[a b]|] eqn:Ee.
    + pose proof (Hent _ _ Ee) as Hnb. rewrite nobreaks_app in Hnb. apply andb_prop in Hnb. destruct Hnb as [_ Hc].
      cbn in Hc. rewrite andb_true_r in Hc.
      destruct (raw_ok m c q' _ Hr Hq HC Hc) as (A & B & D & E).
      assert (G : forall cr', cr_st cr' = CrNamed -> cr_buf cr' = cr_buf cr ++ [c] ->
                  (cr_len cr' <= length (cr_buf cr ++ [c]))%nat -> CrI cr' (discard_charF m)).
      { intros cr' G1 G2 G3. apply (mkCrI _ _ C1).
        - unfold crW. rewrite G1, G2, app_assoc. exact A.
        - unfold crW. rewrite G1, G2, nobreaks_app, HW. cbn. rewrite Hc. reflexivity.
        - unfold crshape. rewrite G1, G2. split; [exact G3|]. left. destruct (cr_buf cr); discriminate. }
      apply mk_prog; [exact B|rewrite D; exact HL|].
      destruct (a =? 0); apply G; try (destruct cr; exact Est); try (destruct cr; reflexivity);
        destruct cr; cbn in Hs1 |- *; rewrite ?app_length; cbn; lia.
    + match goal with |- crP m (finish_namedF ?X _ _) => set (cr1 := X) end.
      apply (finish_named_some cr1 c m q' C1 (cr_buf cr)); [exact Hr|exact Hq|exact HC|exact HW| |exact HL| | |].
      * destruct (cr_buf cr) as [|b0 bt] eqn:Eb.
        -- destruct Hs2 as [Hs2|(c' & q'' & E1 & E2)]; [congruence|]. rewrite Hq in E1. injection E1 as <- <-.
           rewrite (nobrk_lf _ (is_alnum_nobrk _ E2)). apply orb_true_r.
        -- unfold CoreAt in HC. rewrite (nb_il_false _ _ _ _ _ _ HC HW) by discriminate. reflexivity.
      * subst cr1. destruct cr; reflexivity.
      * subst cr1. destruct cr; exact Hs1.
      * subst cr1. destruct cr; exact Est.
  - (* CrBogus *) unfold cr_read. destruct (peekF m) as [c|] eqn:Hp; [|exact Hstuck].
    destruct (peek_some m c Hr Hp) as [q' Hq]. unfold discard_raw. rewrite Hhtml.
    unfold crW in HC, HW. unfold crshape in Hsh. rewrite Est in *.
    destruct (is_alnum c) eqn:Ea.
    + pose proof (is_alnum_nobrk _ Ea) as Hc.
      destruct (raw_ok m c q' _ Hr Hq HC Hc) as (A & B & D & E).
      apply mk_prog; [exact B|rewrite D; exact HL|].
      set (cr' := cr <| cr_buf ::= (fun b => b ++ [c]) |>).
      assert (G1 : cr_st cr' = CrBogus) by (subst cr'; destruct cr; exact Est).
      assert (G2 : cr_buf cr' = cr_buf cr ++ [c]) by (subst cr'; destruct cr; reflexivity).
      apply (mkCrI _ _ C1).
      * unfold crW. rewrite G1, G2, app_assoc. exact A.
      * unfold crW. rewrite G1, G2, nobreaks_app, HW. cbn. rewrite Hc. reflexivity.
      * unfold crshape. rewrite G1, G2. destruct (cr_buf cr); discriminate.
    + assert (Hil : negb (vil m) || negb (c =? LF) = true).
      { unfold CoreAt in HC. rewrite (nb_il_false _ _ _ _ _ _ HC HW Hsh). reflexivity. }
      replace (cr_buf (cr <| cr_buf ::= (fun b => b ++ [c]) |>)) with (cr_buf cr ++ [c]) by (destruct cr; reflexivity).
      destruct (unc_c_ok m c q' C1 _ Hr Hq HC HW Hil) as (A & B & D & E).
      set (m1 := unconsumeF (cr_buf cr ++ [c]) (discard_charF m)) in *.
      assert (G : CL m1) by (eapply CoreAt_CL; [exact A|rewrite D; exact HL]).
      destruct (errif_ok (c =? 59) m1 G) as [G1 G2]. apply mk_done; [congruence|exact G1].
Qed.

(* ---------------------------------------------------------------- step, run *)
Notation stepF := (@step S (list N) [] fq_next fq_peek (@app N) fid fq_run1 fl true tb simd ent c1 sk).
Notation runF := (@run S (list N) [] fq_next fq_peek (@app N) fid fq_run1 fl true tb simd ent c1 sk).

Lemma pcr_quiet chars (m : M) : quiet m (fst (process_char_refF chars m)).
Proof.
  unfold process_char_ref.
  set (cs := match chars with [] => [38] | _ => chars end). clearbody cs.
  assert (G0 : forall l (m0 : M) b, quiet m m0 ->
    quiet m (fst (fold_left (fun '(m1, bad) c =>
               match f_charref_emit fl (st (mc m1)) with
               | Some false => (emit_charF c m1, bad)
               | Some true => (upd (fun x => x <| attr_value ::= (fun s => s ++ [c]) |>) m1, bad)
               | None => (m1, true)
               end) l (m0, b)))).
  { induction l as [|c l IH]; intros m0 b H; cbn [fold_left fst]; [exact H|].
    destruct (f_charref_emit fl (st (mc m0))) as [[|]|]; apply IH.
    - eapply quiet_trans; [exact H|apply upd_quiet; keeps].
    - eapply quiet_trans; [exact H|apply emit_char_quiet].
    - exact H. }
  apply G0. apply quiet_refl.
Qed.

Lemma quiet_cv (m m' : M) : quiet m m' -> cv m' = cv m.
Proof. intros [[_ Q] T]. destruct (cv3_inv _ _ Q) as (A & B & D). unfold cv. congruence. Qed.

Lemma step_ok a (m : M) : Inv false m -> Inv a (fst (stepF a m)).
Proof.
  intros HI. unfold step. fold (vcr m). fold (vst m). destruct (vcr m) as [cr|] eqn:Ecr; [|apply step_exec_ok; assumption].
  pose proof HI as (HL & HR & HT & HD). rewrite Ecr in HD. destruct HD as (Hr & He & HCr).
  pose proof (cr_step_ok cr m HL Hr HCr) as (A & B & D).
  destruct (cv_inv _ _ A) as (A1 & A2 & A3 & A4).
  destruct (cr_stepF cr m) as [[|cr'|chars] m1]; cbn [fst snd] in *.
  - subst m1. apply (Inv_noeat false a); assumption.
  - set (m2 := upd (fun x => x <| cref := Some cr' |>) m1).
    assert (E1 : dv m2 = dv m1) by (subst m2; destruct m1 as [cf q o k]; destruct cf; reflexivity).
    assert (E2 : mout m2 = mout m1) by (subst m2; destruct m1 as [cf q o k]; reflexivity).
    assert (E3 : vst m2 = vst m1 /\ vrc m2 = vrc m1 /\ vtmp m2 = vtmp m1 /\ vcr m2 = Some cr')
      by (subst m2; destruct m1 as [cf q o k]; destruct cf; repeat split).
    destruct E3 as (E3 & E4 & E5 & E6). destruct (dv_inv _ _ E1) as (F1 & F2 & F3 & F4).
    unfold Inv. rewrite E2, E3, E4, E5, E6, A1, A2, A3, Hr, He.
    split; [exact B|split; [discriminate|split; [intros X _; apply HT; assumption|]]]. split; [reflexivity|split; [reflexivity|]].
    destruct D as [[[C1 D1] D2] D3]. unfold CrI, CrC. rewrite F1, F2, F3, F4. split; [split; [exists C1; exact D1|exact D2]|exact D3].
  - pose proof (pcr_quiet chars m1) as Q. destruct (process_char_refF chars m1) as [m2 bad]. cbn [fst] in *.
    pose proof (quiet_cv _ _ Q) as Q2. destruct (cv_inv _ _ Q2) as (Q3 & Q4 & Q5 & Q6).
    assert (HCL2 : CL m2) by (eapply quietD_CL; [split; [exact D|exact B]|apply Q]).
    set (m3 := upd (fun x => x <| cref := None |>) m2).
    assert (E1 : quietD m2 m3) by (apply updD_quiet; intros x; destruct x; split; reflexivity).
    assert (E3 : vst m3 = vst m2 /\ vrc m3 = vrc m2 /\ vtmp m3 = vtmp m2 /\ vcr m3 = None)
      by (subst m3; destruct m2 as [cf q o k]; destruct cf; repeat split).
    destruct E3 as (E3 & E4 & E5 & E6).
    apply finish_Inv; [eapply quietD_CL; eassumption|congruence|exact E6|].
    rewrite E3, E5, Q3, Q5, A1, A3. intros E. apply HT; assumption.
Qed.

Lemma run_ok a : forall fuel (m : M), Inv false m -> Inv false (fst (runF a fuel m)).
Proof.
  induction fuel as [|f IH]; intros m HI; cbn [run]; [exact HI|].
  pose proof (step_ok a m HI) as G0. destruct (stepF a m) as [m1 r]; cbn [fst] in *.
  apply Inv_weaken in G0. destruct r; try exact G0. apply IH. exact G0.
Qed.
Lemma run_true_susp : forall fuel (m m' : M), Inv false m -> runF true fuel m = (m', SSuspend) -> Inv true m'.
Proof.
  induction fuel as [|f IH]; intros m m' HI H; cbn [run] in H; [discriminate|].
  pose proof (step_ok true m HI) as G0. destruct (stepF true m) as [m1 r]; cbn [fst] in *.
  destruct r; try discriminate.
  - eapply IH; [apply Inv_weaken in G0; exact G0|exact H].
  - injection H as <-. exact G0.
Qed.

Lemma Inv_true_CL (m : M) : Inv true m -> CL m.
Proof.
  intros (HL & _ & _ & HD). split; [|exact HL]. destruct (vcr m) as [cr|].
  - destruct HD as (_ & _ & [[[C1 D1] _] _]). eexists; exact D1.
  - destruct (eatS (vst m)); [|exact HD]. destruct HD as [D1 [D2|[_ D2]]]; [|discriminate].
    apply EIc_nil; assumption.
Qed.

(* ---------------------------------------------------------------- end of input *)
Notation eof_loopF := (@eof_loop S (list N) [] fq_next fq_peek (@app N) fid fq_run1 fl true tb simd sk).
Notation tok_endF := (@tok_end S (list N) [] fq_next fq_peek (@app N) fid fq_run1 fl true tb simd ent c1 sk).
Notation cr_eofF := (@cr_eof S (list N) (@app N) fl c1).
Notation feedF := (@feed S (list N) [] fq_next fq_peek (@app N) fid fq_run1 fl true tb simd ent c1 sk).
Notation feed_loopF := (@feed_loop S (list N) [] fq_next fq_peek (@app N) fid fq_run1 fl true tb simd ent c1 sk).

Fixpoint eof_ok (b : body S) : bool :=
  match b with
  | BIf _ y n => eof_ok y && eof_ok n
  | BCmd k r => negb (is_discard k) && eof_ok r
  | BEnd _ => true
  | _ => false
  end.
Hypothesis Heof : forall s, eof_ok (t_eof tb s) = true.

Lemma do_term_quietD t (m : M) : quietD m (fst (do_termF t m)).
Proof.
  assert (U : forall f, (forall x : cfg S, ignore_lf (f x) = ignore_lf x /\ line (f x) = line x) ->
              quietD m (fst (emit_current_tagF (upd f m)))).
  { intros f Hf. eapply quietD_trans; [apply updD_quiet; exact Hf|apply ect_spec]. }
  destruct t; cbn [do_term fst]; try apply quietD_refl;
    try (apply updD_quiet; intros x; destruct x; split; reflexivity).
  - apply U. intros x; destruct x; split; reflexivity.
  - destruct k; cbn [do_term fst]; apply U; intros x; destruct x; split; reflexivity.
  - eapply quietD_trans; [apply emit_quiet|]. apply updD_quiet; intros x; destruct x; split; reflexivity.
  - apply emit_quiet.
Qed.

Lemma exec_eof_CL a : forall b c run (m : M), eof_ok b = true -> CL m -> CL (fst (execF a b c run m)).
Proof.
  induction b as [rk k IH|set sm krun IHr kchar IHc|p e y IHy n IHn|k y IHy n IHn|k rest IH|t];
    intros c run m Hb HCL; cbn [eof_ok] in Hb; try discriminate; cbn [exec].
  - apply andb_prop in Hb. destruct Hb as [Hb1 Hb2]. destruct (ceval_condF k c m); [apply IHy|apply IHn]; assumption.
  - apply andb_prop in Hb. destruct Hb as [Hb1 Hb2]. apply negb_true_iff in Hb1. apply IH; [exact Hb2|].
    destruct (is_tempcmd k) eqn:Et.
    + eapply quietD_CL; [exact HCL|]. apply (do_cmd_temp k c run m Et).
    + eapply quietD_CL; [exact HCL|]. apply (do_cmd_quiet k c run m Hb1 Et).
  - eapply quietD_CL; [exact HCL|apply do_term_quietD].
Qed.

Lemma eof_loop_CL : forall fuel (m : M), CL m -> CL (fst (eof_loopF fuel m)).
Proof.
  induction fuel as [|f IH]; intros m HCL; cbn [eof_loop]; [exact HCL|].
  pose proof (exec_eof_CL true (t_eof tb (st (mc m))) 0 [] m (Heof _) HCL) as G0.
  destruct (execF true (t_eof tb (st (mc m))) 0 [] m) as [m1 r]; cbn [fst] in *.
  destruct r; try exact G0; try (rewrite Hhtml; exact G0). apply IH; exact G0.
Qed.

Lemma hdlf_nb_nil W : nobreaks W = true -> hdlf (W ++ []) = false.
Proof. destruct W as [|c W]; [reflexivity|]. cbn. intros H. apply andb_prop in H. apply nobrk_lf. tauto. Qed.

Lemma cr_eof_ok cr (m : M) : CrC cr m -> mq m = [] -> Law input (mout m) ->
  CL (snd (cr_eofF cr m)) /\ cv (snd (cr_eofF cr m)) = cv m.
Proof.
  intros [[C1 HC] HW] Hq HL. fold (CoreAt (C1 ++ crW cr) m) in HC.
  assert (Hunc : forall C1' W (e : bool), C1' ++ W = C1 ++ crW cr -> nobreaks W = true ->
     CL (if e then err (unconsumeF W m) else unconsumeF W m) /\
     cv (if e then err (unconsumeF W m) else unconsumeF W m) = cv m /\
     hdlf (mq (if e then err (unconsumeF W m) else unconsumeF W m)) = false).
  { intros C1' W e EW HW'. rewrite <- EW in HC. destruct (unc_ok m C1' W HC HW') as (A & B & D).
    assert (G0 : CL (unconsumeF W m)) by (eapply CoreAt_CL; [exact A|rewrite D; exact HL]).
    assert (Hh : hdlf (mq (unconsumeF W m)) = false).
    { destruct (unconsume_spec W m) as (U1 & _). rewrite U1, Hq. apply hdlf_nb_nil; exact HW'. }
    destruct e; [|auto]. destruct (err_ok _ G0) as [G1 G2]. split; [exact G1|split; [congruence|]].
    destruct (unconsumeF W m) as [cf q o k]; exact Hh. }
  unfold cr_eof. unfold crW in HC, HW, Hunc. destruct (cr_st cr) eqn:Est.
  - cbn [snd]. split; [eapply CoreAt_CL; eassumption|reflexivity].
  - destruct (Hunc C1 [35] true eq_refl eq_refl) as (A & B & _). cbn [snd]. auto.
  - destruct (negb (cr_seen cr)) eqn:Eseen.
    + apply negb_true_iff in Eseen. rewrite Eseen in *. unfold unconsume_numeric.
      destruct (Hunc C1 _ true eq_refl HW) as (A & B & _). cbn [snd]. auto.
    + destruct (err_ok m (CoreAt_CL _ _ HC HL)) as [G1 G2].
      destruct (finish_numeric_ok cr (err m) G1) as [F1 F2]. split; [exact F1|congruence].
  - destruct (err_ok m (CoreAt_CL _ _ HC HL)) as [G1 G2].
    destruct (finish_numeric_ok cr (err m) G1) as [F1 F2]. split; [exact F1|congruence].
  - assert (G0 : CL (snd (finish_namedF cr None m)) /\ cv (snd (finish_namedF cr None m)) = cv m).
    { unfold finish_named. destruct (cr_match cr) as [[a b]|].
      + rewrite Hhtml.
        match goal with |- context [let '(unc, e) := ?X in _] => destruct X as [unc e] end.
        destruct unc.
        * destruct (Hunc C1 _ e eq_refl HW) as (A & B & _). cbn [snd]. auto.
        * assert (EW : (C1 ++ firstn (cr_len cr) (cr_buf cr)) ++ skipn (cr_len cr) (cr_buf cr) = C1 ++ cr_buf cr)
            by (rewrite <- app_assoc, firstn_skipn; reflexivity).
          assert (HW' : nobreaks (skipn (cr_len cr) (cr_buf cr)) = true).
          { rewrite <- (firstn_skipn (cr_len cr) (cr_buf cr)), nobreaks_app in HW. apply andb_prop in HW. tauto. }
          destruct (Hunc _ _ e EW HW') as (A & B & D).
          set (m2 := if e then err (unconsumeF (skipn (cr_len cr) (cr_buf cr)) m)
                     else unconsumeF (skipn (cr_len cr) (cr_buf cr)) m) in *. clearbody m2.
          cbn [snd]. destruct A as [[C2 A] AL].
          pose proof (T_ilclear _ _ _ _ _ _ A D) as A'.
          destruct m2 as [cf q o k]. unfold CL, Core, cv in *. unf. destruct cf; cbn in *.
          split; [split; [exists C2; exact A'|exact AL]|exact B].
      + destruct (Hunc C1 _ false eq_refl HW) as (A & B & _). cbn [snd]. auto. }
    destruct (finish_namedF cr None m) as [[|cr'|chars] m']; cbn [snd] in *; exact G0.
  - destruct (Hunc C1 _ false eq_refl HW) as (A & B & _). cbn [snd]. auto.
Qed.

Lemma setq_nil_Inv (m : M) : Inv false m -> vcr m = None -> Inv false (m <| mq := [] |>).
Proof.
  intros (HL & HR & HT & HD) Hcr. rewrite Hcr in HD.
  set (m0 := m <| mq := [] |>).
  assert (E : mq m0 = [] /\ mcons m0 = mcons m /\ mout m0 = mout m /\ vln m0 = vln m /\ vil m0 = vil m /\
              vst m0 = vst m /\ vrc m0 = vrc m /\ vtmp m0 = vtmp m /\ vcr m0 = vcr m)
    by (subst m0; destruct m as [cf q o k]; repeat split).
  destruct E as (E1 & E2 & E3 & E4 & E5 & E6 & E7 & E8 & E9).
  unfold Inv, EI, EIc, Core. rewrite E1, E2, E3, E4, E5, E6, E7, E8, E9, Hcr.
  split; [exact HL|split; [intros X; destruct (HR X); split; congruence|split; [exact HT|]]].
  destruct (eatS (vst m)).
  - destruct HD as [[C D1] D2]. split; [|exact D2]. exists C. rewrite app_nil_r. eapply T_dropq; exact D1.
  - destruct HD as [C D1]. exists C. apply (T_dropq input C [] (mq m)). exact D1.
Qed.

Lemma tok_end_Law fuel (m : M) : Inv false m -> Law input (mout (fst (tok_endF fuel m))).
Proof.
  intros HI. unfold tok_end.
  set (m0 := m <| mq := [] |>).
  assert (H1 : Inv false (fst (match cref (mc m0) with
                 | None => (m0, false)
                 | Some cr => let '(chars, m') := cr_eofF cr (upd (fun x => x <| cref := None |>) m0) in
                              process_char_refF chars m' end))).
  { destruct (vcr m) as [cr|] eqn:Ecr.
    - replace (cref (mc m0)) with (Some cr) by (subst m0; destruct m as [cf q o k]; symmetry; exact Ecr).
      pose proof HI as (HL & HR & HT & HD). rewrite Ecr in HD. destruct HD as (Hr & He & [[[C1 HC] HW] _]).
      set (m0' := upd (fun x => x <| cref := None |>) m0).
      assert (E : mq m0' = [] /\ mcons m0' = mcons m /\ mout m0' = mout m /\ vln m0' = vln m /\ vil m0' = vil m /\
                  vst m0' = vst m /\ vrc m0' = vrc m /\ vtmp m0' = vtmp m /\ vcr m0' = None)
        by (subst m0' m0; destruct m as [cf q o k]; destruct cf; repeat split).
      destruct E as (E1 & E2 & E3 & E4 & E5 & E6 & E7 & E8 & E9).
      assert (HC0 : CrC cr m0').
      { split; [|exact HW]. exists C1. rewrite E1, E2, E4, E5. apply (T_dropq input _ [] (mq m)). exact HC. }
      assert (HL0 : Law input (mout m0')) by (rewrite E3; exact HL).
      destruct (cr_eof_ok cr m0' HC0 E1 HL0) as [F1 F2].
      destruct (cr_eofF cr m0') as [chars m1]. cbn [snd] in *.
      pose proof (pcr_quiet chars m1) as Q. pose proof (quiet_cv _ _ Q) as Q2.
      destruct (cv_inv _ _ F2) as (G1 & G2 & G3 & G4). destruct (cv_inv _ _ Q2) as (Q3 & Q4 & Q5 & Q6).
      apply finish_Inv; [eapply quietD_CL; [exact F1|apply Q]|congruence|congruence|].
      rewrite Q3, Q5, G1, G3, E6, E8. intros E. apply HT; assumption.
    - replace (cref (mc m0)) with (@None crt) by (subst m0; destruct m as [cf q o k]; symmetry; exact Ecr).
      cbn [fst]. apply setq_nil_Inv; assumption. }
  destruct (match cref (mc m0) with
            | None => (m0, false)
            | Some cr => let '(chars, m') := cr_eofF cr (upd (fun x => x <| cref := None |>) m0) in
                         process_char_refF chars m' end) as [m1 bad].
  cbn [fst] in H1. destruct bad; [cbn [fst]; apply H1|].
  pose proof (run_ok true fuel m1 H1) as H2. pose proof (run_true_susp fuel m1) as H3.
  destruct (runF true fuel m1) as [m3 r]. cbn [fst] in H2.
  destruct r; try (rewrite Hhtml; cbn [fst]; apply H2); try (cbn [fst]; apply H2).
  specialize (H3 m3 H1 eq_refl). destruct (fq_peek (mq m3)).
  - rewrite Hhtml. cbn [fst]. apply H2.
  - apply eof_loop_CL. apply Inv_true_CL. exact H3.
Qed.

(* ---------------------------------------------------------------- feed, the driver *)
Lemma setq_id (m : M) : (m <| mq ::= app [] |>) = m.
Proof. destruct m; reflexivity. Qed.

Lemma feed_ok fuel (m : M) : Inv false m -> discard_bom (mc m) = false ->
  Inv false (fst (feedF fuel m)) /\ discard_bom (mc (fst (feedF fuel m))) = false.
Proof.
  intros HI Hb. unfold feed. destruct (fq_peek (mq m)); [|auto]. rewrite Hb. split; [apply run_ok; exact HI|].
  pose proof (ChunkInv.run_db fl true tb simd ent c1 sk fuel m) as G0. unfold ChunkInv.dbom in G0. rewrite G0. exact Hb.
Qed.

Lemma feed_loop_ok fuel : forall n (m : M) log, Inv false m -> discard_bom (mc m) = false ->
  Inv false (fst (feed_loopF n fuel [] m log)).
Proof.
  induction n as [|n IH]; intros m log HI Hb; cbn [feed_loop]; [exact HI|].
  destruct (feed_ok fuel m HI Hb) as [G1 G2]. destruct (feedF fuel m) as [m1 r]. cbn [fst] in *.
  destruct r; try exact G1.
  - rewrite setq_id. apply IH; assumption.
  - apply IH; assumption.
Qed.

Definition line_law (o : list (token * N * N)) : Prop :=
  forall t ln k, In (t, ln, k) o -> ln = 1 + breaks (firstn (N.to_nat k) input).
Lemma Law_line_law o : Law input o -> line_law o.
Proof. intros H t ln k Hin. unfold Law in H. rewrite Forall_forall in H. exact (H _ Hin). Qed.
Lemma Inv_line_law a (m : M) : Inv a m -> line_law (mout m).
Proof. intros [H _]. apply Law_line_law. exact H. Qed.

Lemma init_Inv s0 last : Inv false (mkmach (init_cfg s0 last false) input [] 0).
Proof.
  apply finish_Inv; try reflexivity. split; [|constructor]. exists []. apply T_init. reflexivity.
Qed.

(* the whole input fed at once: every token delivered up to the suspension of feed() obeys the law ... *)
Theorem feed_line_law fuel s0 last :
  line_law (mout (fst (feed_loopF 50 fuel [] (mkmach (init_cfg s0 last false) input [] 0) []))).
Proof.
  pose proof (feed_loop_ok fuel 50 _ [] (init_Inv s0 last) eq_refl) as H. eapply Inv_line_law. exact H.
Qed.

(* ... and so does every token delivered by feed() followed by end(), the EOF token included *)
Theorem drive_line_law fuel s0 last :
  line_law (mout (fst (drive_flat fl true tb simd ent c1 sk fuel [] [input] (mkmach (init_cfg s0 last false) [] [] 0) []))).
Proof.
  unfold drive_flat. cbn [drive].
  change (mkmach (init_cfg s0 last false) [] [] 0 <| mq ::= (fun q => q ++ input) |>)
    with (mkmach (init_cfg s0 last false) input [] 0).
  pose proof (feed_loop_ok fuel 50 _ [] (init_Inv s0 last) eq_refl) as H.
  destruct (feed_loopF 50 fuel [] (mkmach (init_cfg s0 last false) input [] 0) []) as [m1 log1].
  cbn [fst] in H. pose proof (tok_end_Law fuel m1 H) as H2.
  destruct (tok_endF fuel m1) as [m2 r]. cbn [fst]. apply Law_line_law. exact H2.
Qed.

End Line.
