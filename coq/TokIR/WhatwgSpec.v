(* The WHATWG HTML tokenization algorithm (HTML Living Standard, section 13.2.5 "Tokenization") as a direct executable state
   machine, one clause per tokenizer state in the wording of the standard (consume the next input character / reconsume /
   emit / switch to), with the input-stream preprocessing of 13.2.3.5 (CR LF and CR become LF) as a separate pass.

   PROVENANCE: transcribed from /verif/lib/whatwg_tok.py, which was written from the text of the standard and mirrors it
   clause by clause.  This file is NOT derived from html5ever, from TokIR/Interp.v, from the generated tables or from the
   golden tables, and imports nothing of them: its value is its independence.

   Scope: all 80 states; tokens WITHOUT parse errors; named character references by maximal munch over a table of rows
   (name without the ampersand, (first code point, second code point or 0)) - the WHATWG table CharRef/WhatwgEntities.v in
   every use; the feedback of tree construction a tokenizer run needs is scripted: a map start-tag name -> state to switch to
   (RCDATA / RAWTEXT / script data / PLAINTEXT ...), "when this end tag has been emitted, insert this text at the insertion
   point" (document.write from a script), the "adjusted current node is not in the HTML namespace" answer for CDATA
   sections, and the last start tag name for "appropriate end tag token".  No proofs in this file. *)
From Coq Require Import List NArith Bool.
From RecordUpdate Require Import RecordSet.
Import ListNotations RecordSetNotations.
Local Open Scope N_scope.

Definition wstr := list N.

(* ------------------------------------------------------------------ 13.2.3.5 preprocessing the input stream *)
(* [after_cr]: the previous character was a CR (already turned into LF): an LF now is the second half of a CR LF pair *)
Fixpoint preprocess_from (after_cr : bool) (s : list N) : list N :=
  match s with
  | [] => []
  | c :: t =>
    if after_cr && (c =? 10) then preprocess_from false t
    else if c =? 13 then 10 :: preprocess_from true t
    else c :: preprocess_from false t
  end.
Definition preprocess (s : list N) : list N := preprocess_from false s.

(* ------------------------------------------------------------------ character classes *)
Definition w_in (c : N) (l : list N) : bool := existsb (N.eqb c) l.
Definition w_ws (c : N) : bool := w_in c [9; 10; 12; 32].                 (* tab, LF, FF, space *)
Definition w_upper (c : N) : bool := (65 <=? c) && (c <=? 90).
Definition w_lower_alpha (c : N) : bool := (97 <=? c) && (c <=? 122).
Definition w_alpha (c : N) : bool := w_upper c || w_lower_alpha c.
Definition w_digit (c : N) : bool := (48 <=? c) && (c <=? 57).
Definition w_alnum (c : N) : bool := w_alpha c || w_digit c.
Definition w_hexu (c : N) : bool := (65 <=? c) && (c <=? 70).
Definition w_hexl (c : N) : bool := (97 <=? c) && (c <=? 102).
Definition w_lower (c : N) : N := if w_upper c then c + 32 else c.
Fixpoint wstr_eqb (a b : wstr) : bool :=
  match a, b with
  | [], [] => true
  | x :: a', y :: b' => (x =? y) && wstr_eqb a' b'
  | _, _ => false
  end.
Definition REPLACEMENT : N := 0xFFFD.

(* ------------------------------------------------------------------ states (the names of 13.2.5.1 - 13.2.5.80) *)
Inductive wstate :=
| WData | WRcdata | WRawtext | WScriptData | WPlaintext | WTagOpen | WEndTagOpen | WTagName
| WRcdataLt | WRcdataEndTagOpen | WRcdataEndTagName
| WRawtextLt | WRawtextEndTagOpen | WRawtextEndTagName
| WScriptLt | WScriptEndTagOpen | WScriptEndTagName | WScriptEscapeStart | WScriptEscapeStartDash
| WScriptEscaped | WScriptEscapedDash | WScriptEscapedDashDash | WScriptEscapedLt | WScriptEscapedEndTagOpen
| WScriptEscapedEndTagName | WScriptDoubleEscapeStart | WScriptDoubleEscaped | WScriptDoubleEscapedDash
| WScriptDoubleEscapedDashDash | WScriptDoubleEscapedLt | WScriptDoubleEscapeEnd
| WBeforeAttrName | WAttrName | WAfterAttrName | WBeforeAttrValue | WAttrValueDq | WAttrValueSq | WAttrValueUnq
| WAfterAttrValueQuoted | WSelfClosingStartTag
| WBogusComment | WMarkupDeclarationOpen | WCommentStart | WCommentStartDash | WComment | WCommentLt | WCommentLtBang
| WCommentLtBangDash | WCommentLtBangDashDash | WCommentEndDash | WCommentEnd | WCommentEndBang
| WDoctype | WBeforeDoctypeName | WDoctypeName | WAfterDoctypeName | WAfterDoctypePublicKeyword | WBeforeDoctypePublicId
| WDoctypePublicIdDq | WDoctypePublicIdSq | WAfterDoctypePublicId | WBetweenDoctypePublicAndSystemIds
| WAfterDoctypeSystemKeyword | WBeforeDoctypeSystemId | WDoctypeSystemIdDq | WDoctypeSystemIdSq | WAfterDoctypeSystemId
| WBogusDoctype
| WCdataSection | WCdataSectionBracket | WCdataSectionEnd
| WCharRef | WNamedCharRef | WAmbiguousAmpersand | WNumericCharRef | WHexCharRefStart | WDecCharRefStart | WHexCharRef
| WDecCharRef | WNumericCharRefEnd.

(* ------------------------------------------------------------------ tokens (13.2.5: DOCTYPE, start tag, end tag, comment, character,
   end-of-file); no parse errors *)
Inductive wtoken :=
| WTDoctype (name pub sys : option wstr) (force_quirks : bool)
| WTStart (name : wstr) (self_closing : bool) (attrs : list (wstr * wstr)) (dup : bool)
| WTEnd (name : wstr) (self_closing : bool) (attrs : list (wstr * wstr)) (dup : bool)
| WTComment (data : wstr)
| WTChar (c : N)
| WTEof.

(* ------------------------------------------------------------------ the tokenizer's variables *)
Record wtag := mkwtag {
  tg_end : bool;                       (* an end tag token *)
  tg_name : wstr;
  tg_self : bool;                      (* self-closing flag *)
  tg_attrs : list (wstr * wstr) }.     (* NEWEST FIRST: the head is the current attribute *)
#[export] Instance eta_wtag : Settable _ := settable! mkwtag <tg_end; tg_name; tg_self; tg_attrs>.
Record wdoctype := mkwdoc { dc_name : option wstr; dc_pub : option wstr; dc_sys : option wstr; dc_fq : bool }.
#[export] Instance eta_wdoc : Settable _ := settable! mkwdoc <dc_name; dc_pub; dc_sys; dc_fq>.
Record wconf := mkwconf {
  wst : wstate;                        (* the state *)
  wret : wstate;                       (* the return state *)
  wtmp : wstr;                         (* the temporary buffer *)
  wtag_ : option wtag;                 (* the current tag token *)
  wcomment : wstr;                     (* the current comment token's data *)
  wdoc : wdoctype;                     (* the current DOCTYPE token *)
  wcode : N;                           (* the character reference code (unbounded) *)
  wlast : option wstr;                 (* the name of the last start tag emitted *)
  wout : list wtoken }.                (* tokens emitted so far, NEWEST FIRST *)
#[export] Instance eta_wconf : Settable _ :=
  settable! mkwconf <wst; wret; wtmp; wtag_; wcomment; wdoc; wcode; wlast; wout>.

(* the scripted tree-construction stage *)
Record wenv := mkwenv {
  e_switches : list (wstr * wstate);          (* after this start tag has been emitted, switch the tokenizer to ... *)
  e_script : option (wstr * list N);          (* after this end tag: insert the text at the insertion point *)
  e_foreign : bool;                           (* adjusted current node exists and is not in the HTML namespace *)
  e_entities : list (wstr * (N * N)) }.       (* the named character references table *)

Definition winit (s : wstate) (last : option wstr) : wconf :=
  mkwconf s WData [] None [] (mkwdoc None None None false) 0 last [].

Inductive wres := WCont (c : wconf) (input : list N) | WStop (c : wconf).

(* ------------------------------------------------------------------ emission *)
Definition emit (t : wtoken) (cf : wconf) : wconf := cf <| wout ::= cons t |>.
Definition emitc (c : N) (cf : wconf) : wconf := emit (WTChar c) cf.
Definition emitcs (s : wstr) (cf : wconf) : wconf := fold_left (fun cf c => emitc c cf) s cf.
Definition sw (s : wstate) (cf : wconf) : wconf := cf <| wst := s |>.

Fixpoint lookup_sw (n : wstr) (l : list (wstr * wstate)) : option wstate :=
  match l with [] => None | (k, s) :: t => if wstr_eqb k n then Some s else lookup_sw n t end.

(* "if there is already an attribute on the token with the exact same name, ... the new attribute must be removed from the
   token" (the later one is dropped): attributes oldest first in, oldest first out, with a flag if any was dropped *)
Fixpoint dedup (seen : list wstr) (attrs : list (wstr * wstr)) : list (wstr * wstr) * bool :=
  match attrs with
  | [] => ([], false)
  | (n, v) :: t =>
    if existsb (wstr_eqb n) seen then (fst (dedup seen t), true)
    else let '(k, d) := dedup (n :: seen) t in ((n, v) :: k, d)
  end.

(* emit the current tag token; the tree construction stage may switch the state (start tags) or a script may insert text
   (end tags) *)
Definition emit_tag (env : wenv) (cf : wconf) (input : list N) : wconf * list N :=
  match wtag_ cf with
  | None => (cf, input)
  | Some t =>
    let '(keep, dup) := dedup [] (rev (tg_attrs t)) in
    if tg_end t then
      let cf := emit (WTEnd (tg_name t) (tg_self t) keep dup) cf <| wtag_ := None |> in
      match e_script env with
      | Some (n, ins) => if wstr_eqb (tg_name t) n then (cf, preprocess ins ++ input) else (cf, input)
      | None => (cf, input)
      end
    else
      let cf := emit (WTStart (tg_name t) (tg_self t) keep dup) cf <| wlast := Some (tg_name t) |> <| wtag_ := None |> in
      match lookup_sw (tg_name t) (e_switches env) with
      | Some s => (sw s cf, input)
      | None => (cf, input)
      end
  end.

(* "an appropriate end tag token": an end tag whose name is that of the last start tag emitted *)
Definition appropriate (cf : wconf) : bool :=
  match wtag_ cf, wlast cf with
  | Some t, Some l => tg_end t && wstr_eqb (tg_name t) l
  | _, _ => false
  end.

Definition new_tag (is_end : bool) (cf : wconf) : wconf := cf <| wtag_ := Some (mkwtag is_end [] false []) |>.
Definition on_tag (f : wtag -> wtag) (cf : wconf) : wconf :=
  cf <| wtag_ ::= (fun o => match o with Some t => Some (f t) | None => None end) |>.
Definition new_attr (n v : wstr) (cf : wconf) : wconf := on_tag (fun t => t <| tg_attrs ::= cons (n, v) |>) cf.
Definition on_attr (f : wstr * wstr -> wstr * wstr) (cf : wconf) : wconf :=
  on_tag (fun t => t <| tg_attrs ::= (fun l => match l with a :: r => f a :: r | [] => [] end) |>) cf.
Definition attr_name_push (c : N) : wconf -> wconf := on_attr (fun a => (fst a ++ [c], snd a)).
Definition attr_value_push (c : N) : wconf -> wconf := on_attr (fun a => (fst a, snd a ++ [c])).
Definition tag_name_push (c : N) : wconf -> wconf := on_tag (fun t => t <| tg_name ::= (fun n => n ++ [c]) |>).
Definition comment_push (s : wstr) (cf : wconf) : wconf := cf <| wcomment ::= (fun d => d ++ s) |>.
Definition emit_comment (cf : wconf) : wconf := emit (WTComment (wcomment cf)) cf.
Definition emit_doctype (cf : wconf) : wconf :=
  let d := wdoc cf in emit (WTDoctype (dc_name d) (dc_pub d) (dc_sys d) (dc_fq d)) cf.
Definition on_doc (f : wdoctype -> wdoctype) (cf : wconf) : wconf := cf <| wdoc ::= f |>.
Definition opt_push (o : option wstr) (c : N) : option wstr :=
  match o with Some s => Some (s ++ [c]) | None => Some [c] end.
Definition eof_doctype (cf : wconf) : wres :=
  WStop (emit WTEof (emit_doctype (on_doc (fun d => d <| dc_fq := true |>) cf))).

(* "consumed as part of an attribute": the return state is one of the three attribute value states *)
Definition in_attr (cf : wconf) : bool :=
  match wret cf with WAttrValueDq | WAttrValueSq | WAttrValueUnq => true | _ => false end.
(* "flush code points consumed as a character reference" *)
Definition flush_charref (cf : wconf) : wconf :=
  fold_left (fun cf c => if in_attr cf then attr_value_push c cf else emitc c cf) (wtmp cf) cf.

(* ------------------------------------------------------------------ helpers for the states that share a wording *)
Definition stop_eof (cf : wconf) : wres := WStop (emit WTEof cf).

(* RCDATA / RAWTEXT less-than sign state *)
Definition lt_sign (back end_open : wstate) (cf : wconf) (input : list N) : wres :=
  match input with
  | c :: rest => if c =? 47 then WCont (sw end_open (cf <| wtmp := [] |>)) rest else WCont (sw back (emitc 60 cf)) input
  | [] => WCont (sw back (emitc 60 cf)) input
  end.
(* ... end tag open state *)
Definition end_tag_open (back name_state : wstate) (cf : wconf) (input : list N) : wres :=
  match input with
  | c :: _ => if w_alpha c then WCont (sw name_state (new_tag true cf)) input
              else WCont (sw back (emitc 47 (emitc 60 cf))) input
  | [] => WCont (sw back (emitc 47 (emitc 60 cf))) input
  end.
(* ... end tag name state *)
Definition end_tag_name (env : wenv) (back : wstate) (cf : wconf) (input : list N) : wres :=
  let anything_else := WCont (sw back (emitcs (wtmp cf) (emitc 47 (emitc 60 cf)) <| wtag_ := None |>)) input in
  match input with
  | c :: rest =>
    if w_ws c && appropriate cf then WCont (sw WBeforeAttrName cf) rest
    else if (c =? 47) && appropriate cf then WCont (sw WSelfClosingStartTag cf) rest
    else if (c =? 62) && appropriate cf then let '(cf', inp) := emit_tag env (sw WData cf) rest in WCont cf' inp
    else if w_alpha c then WCont (tag_name_push (w_lower c) cf <| wtmp ::= (fun t => t ++ [c]) |>) rest
    else anything_else
  | [] => anything_else
  end.
(* script data double escape start / end state *)
Definition double_escape (if_script otherwise back : wstate) (cf : wconf) (input : list N) : wres :=
  match input with
  | c :: rest =>
    if w_ws c || (c =? 47) || (c =? 62) then
      WCont (emitc c (sw (if wstr_eqb (wtmp cf) [115; 99; 114; 105; 112; 116] then if_script else otherwise) cf)) rest
    else if w_alpha c then WCont (emitc c (cf <| wtmp ::= (fun t => t ++ [w_lower c]) |>)) rest
    else WCont (sw back cf) input
  | [] => WCont (sw back cf) input
  end.
(* attribute value (double-quoted / single-quoted) state *)
Definition attr_value_quoted (q : N) (me : wstate) (cf : wconf) (input : list N) : wres :=
  match input with
  | [] => stop_eof cf
  | c :: rest =>
    if c =? q then WCont (sw WAfterAttrValueQuoted cf) rest
    else if c =? 38 then WCont (sw WCharRef (cf <| wret := me |>)) rest
    else if c =? 0 then WCont (attr_value_push REPLACEMENT cf) rest
    else WCont (attr_value_push c cf) rest
  end.
Definition set_pub (v : option wstr) : wdoctype -> wdoctype := fun d => d <| dc_pub := v |>.
Definition set_sys (v : option wstr) : wdoctype -> wdoctype := fun d => d <| dc_sys := v |>.
Definition set_fq : wdoctype -> wdoctype := fun d => d <| dc_fq := true |>.
(* after DOCTYPE public / system keyword state; [which] = true: public *)
Definition after_keyword (which : bool) (before dq sq : wstate) (cf : wconf) (input : list N) : wres :=
  match input with
  | [] => eof_doctype cf
  | c :: rest =>
    if w_ws c then WCont (sw before cf) rest
    else if c =? 34 then WCont (sw dq (on_doc (if which then set_pub (Some []) else set_sys (Some [])) cf)) rest
    else if c =? 39 then WCont (sw sq (on_doc (if which then set_pub (Some []) else set_sys (Some [])) cf)) rest
    else if c =? 62 then WCont (emit_doctype (sw WData (on_doc set_fq cf))) rest
    else WCont (sw WBogusDoctype (on_doc set_fq cf)) input
  end.
(* before DOCTYPE public / system identifier state *)
Definition before_identifier (which : bool) (dq sq : wstate) (cf : wconf) (input : list N) : wres :=
  match input with
  | [] => eof_doctype cf
  | c :: rest =>
    if w_ws c then WCont cf rest
    else if c =? 34 then WCont (sw dq (on_doc (if which then set_pub (Some []) else set_sys (Some [])) cf)) rest
    else if c =? 39 then WCont (sw sq (on_doc (if which then set_pub (Some []) else set_sys (Some [])) cf)) rest
    else if c =? 62 then WCont (emit_doctype (sw WData (on_doc set_fq cf))) rest
    else WCont (sw WBogusDoctype (on_doc set_fq cf)) input
  end.
(* DOCTYPE public / system identifier (double-quoted / single-quoted) state *)
Definition identifier (which : bool) (q : N) (after : wstate) (cf : wconf) (input : list N) : wres :=
  let push c := on_doc (fun d => if which then d <| dc_pub ::= (fun o => opt_push o c) |> else d <| dc_sys ::= (fun o => opt_push o c) |>) in
  match input with
  | [] => eof_doctype cf
  | c :: rest =>
    if c =? q then WCont (sw after cf) rest
    else if c =? 0 then WCont (push REPLACEMENT cf) rest
    else if c =? 62 then WCont (emit_doctype (sw WData (on_doc set_fq cf))) rest
    else WCont (push c cf) rest
  end.

Fixpoint is_prefix (p s : list N) : bool :=
  match p, s with
  | [], _ => true
  | x :: p', y :: s' => (x =? y) && is_prefix p' s'
  | _ :: _, [] => false
  end.
(* "consume the maximum number of characters possible, where the consumed characters are one of the identifiers in the first
   column of the named character references table" *)
Definition best_match (entities : list (wstr * (N * N))) (input : list N) : option (wstr * (N * N)) :=
  fold_left (fun best row =>
               if is_prefix (fst row) input then
                 match best with
                 | Some b => if Nat.ltb (length (fst b)) (length (fst row)) then Some row else best
                 | None => Some row
                 end
               else best) entities None.
Definition chars_of_ref (v : N * N) : list N := if snd v =? 0 then [fst v] else [fst v; snd v].
Fixpoint lower_eq (s lit : list N) : bool :=
  match s, lit with
  | [], [] => true
  | x :: s', y :: l' => (w_lower x =? y) && w_alpha x && lower_eq s' l'
  | _, _ => false
  end.
(* numeric character reference end state: the table of replacements for the C1 controls *)
Definition c1_table : list (N * N) :=
  [(0x80, 0x20AC); (0x82, 0x201A); (0x83, 0x0192); (0x84, 0x201E); (0x85, 0x2026); (0x86, 0x2020); (0x87, 0x2021);
   (0x88, 0x02C6); (0x89, 0x2030); (0x8A, 0x0160); (0x8B, 0x2039); (0x8C, 0x0152); (0x8E, 0x017D); (0x91, 0x2018);
   (0x92, 0x2019); (0x93, 0x201C); (0x94, 0x201D); (0x95, 0x2022); (0x96, 0x2013); (0x97, 0x2014); (0x98, 0x02DC);
   (0x99, 0x2122); (0x9A, 0x0161); (0x9B, 0x203A); (0x9C, 0x0153); (0x9E, 0x017E); (0x9F, 0x0178)].
Fixpoint c1_lookup (n : N) (l : list (N * N)) : option N :=
  match l with [] => None | (k, v) :: t => if k =? n then Some v else c1_lookup n t end.

(* ------------------------------------------------------------------ the state machine: one step of "the tokenizer's state machine" *)
Definition wstep (env : wenv) (cf : wconf) (input : list N) : wres :=
  match wst cf with
  (* 13.2.5.1 Data state *)
  | WData =>
    match input with
    | [] => stop_eof cf
    | c :: rest =>
      if c =? 38 then WCont (sw WCharRef (cf <| wret := WData |>)) rest
      else if c =? 60 then WCont (sw WTagOpen cf) rest
      else WCont (emitc c cf) rest                        (* U+0000 included: emitted as it is *)
    end
  (* 13.2.5.2 RCDATA state *)
  | WRcdata =>
    match input with
    | [] => stop_eof cf
    | c :: rest =>
      if c =? 38 then WCont (sw WCharRef (cf <| wret := WRcdata |>)) rest
      else if c =? 60 then WCont (sw WRcdataLt cf) rest
      else if c =? 0 then WCont (emitc REPLACEMENT cf) rest
      else WCont (emitc c cf) rest
    end
  (* 13.2.5.3 RAWTEXT state *)
  | WRawtext =>
    match input with
    | [] => stop_eof cf
    | c :: rest =>
      if c =? 60 then WCont (sw WRawtextLt cf) rest
      else if c =? 0 then WCont (emitc REPLACEMENT cf) rest
      else WCont (emitc c cf) rest
    end
  (* 13.2.5.4 Script data state *)
  | WScriptData =>
    match input with
    | [] => stop_eof cf
    | c :: rest =>
      if c =? 60 then WCont (sw WScriptLt cf) rest
      else if c =? 0 then WCont (emitc REPLACEMENT cf) rest
      else WCont (emitc c cf) rest
    end
  (* 13.2.5.5 PLAINTEXT state *)
  | WPlaintext =>
    match input with
    | [] => stop_eof cf
    | c :: rest => if c =? 0 then WCont (emitc REPLACEMENT cf) rest else WCont (emitc c cf) rest
    end
  (* 13.2.5.6 Tag open state *)
  | WTagOpen =>
    match input with
    | [] => WStop (emit WTEof (emitc 60 cf))
    | c :: rest =>
      if c =? 33 then WCont (sw WMarkupDeclarationOpen cf) rest
      else if c =? 47 then WCont (sw WEndTagOpen cf) rest
      else if w_alpha c then WCont (sw WTagName (new_tag false cf)) input
      else if c =? 63 then WCont (sw WBogusComment (cf <| wcomment := [] |>)) input
      else WCont (sw WData (emitc 60 cf)) input
    end
  (* 13.2.5.7 End tag open state *)
  | WEndTagOpen =>
    match input with
    | [] => WStop (emit WTEof (emitc 47 (emitc 60 cf)))
    | c :: rest =>
      if w_alpha c then WCont (sw WTagName (new_tag true cf)) input
      else if c =? 62 then WCont (sw WData cf) rest
      else WCont (sw WBogusComment (cf <| wcomment := [] |>)) input
    end
  (* 13.2.5.8 Tag name state *)
  | WTagName =>
    match input with
    | [] => stop_eof cf
    | c :: rest =>
      if w_ws c then WCont (sw WBeforeAttrName cf) rest
      else if c =? 47 then WCont (sw WSelfClosingStartTag cf) rest
      else if c =? 62 then let '(cf', inp) := emit_tag env (sw WData cf) rest in WCont cf' inp
      else if c =? 0 then WCont (tag_name_push REPLACEMENT cf) rest
      else WCont (tag_name_push (w_lower c) cf) rest
    end
  (* 13.2.5.9 - 11 RCDATA less-than sign / end tag open / end tag name *)
  | WRcdataLt => lt_sign WRcdata WRcdataEndTagOpen cf input
  | WRcdataEndTagOpen => end_tag_open WRcdata WRcdataEndTagName cf input
  | WRcdataEndTagName => end_tag_name env WRcdata cf input
  (* 13.2.5.12 - 14 RAWTEXT ... *)
  | WRawtextLt => lt_sign WRawtext WRawtextEndTagOpen cf input
  | WRawtextEndTagOpen => end_tag_open WRawtext WRawtextEndTagName cf input
  | WRawtextEndTagName => end_tag_name env WRawtext cf input
  (* 13.2.5.15 Script data less-than sign state *)
  | WScriptLt =>
    match input with
    | c :: rest =>
      if c =? 47 then WCont (sw WScriptEndTagOpen (cf <| wtmp := [] |>)) rest
      else if c =? 33 then WCont (emitc 33 (emitc 60 (sw WScriptEscapeStart cf))) rest
      else WCont (sw WScriptData (emitc 60 cf)) input
    | [] => WCont (sw WScriptData (emitc 60 cf)) input
    end
  | WScriptEndTagOpen => end_tag_open WScriptData WScriptEndTagName cf input
  | WScriptEndTagName => end_tag_name env WScriptData cf input
  (* 13.2.5.18 / 19 Script data escape start (dash) state *)
  | WScriptEscapeStart =>
    match input with
    | c :: rest => if c =? 45 then WCont (emitc 45 (sw WScriptEscapeStartDash cf)) rest else WCont (sw WScriptData cf) input
    | [] => WCont (sw WScriptData cf) input
    end
  | WScriptEscapeStartDash =>
    match input with
    | c :: rest => if c =? 45 then WCont (emitc 45 (sw WScriptEscapedDashDash cf)) rest else WCont (sw WScriptData cf) input
    | [] => WCont (sw WScriptData cf) input
    end
  (* 13.2.5.20 Script data escaped state *)
  | WScriptEscaped =>
    match input with
    | [] => stop_eof cf
    | c :: rest =>
      if c =? 45 then WCont (emitc 45 (sw WScriptEscapedDash cf)) rest
      else if c =? 60 then WCont (sw WScriptEscapedLt cf) rest
      else if c =? 0 then WCont (emitc REPLACEMENT cf) rest
      else WCont (emitc c cf) rest
    end
  | WScriptEscapedDash =>
    match input with
    | [] => stop_eof cf
    | c :: rest =>
      if c =? 45 then WCont (emitc 45 (sw WScriptEscapedDashDash cf)) rest
      else if c =? 60 then WCont (sw WScriptEscapedLt cf) rest
      else if c =? 0 then WCont (emitc REPLACEMENT (sw WScriptEscaped cf)) rest
      else WCont (emitc c (sw WScriptEscaped cf)) rest
    end
  | WScriptEscapedDashDash =>
    match input with
    | [] => stop_eof cf
    | c :: rest =>
      if c =? 45 then WCont (emitc 45 cf) rest
      else if c =? 60 then WCont (sw WScriptEscapedLt cf) rest
      else if c =? 62 then WCont (emitc 62 (sw WScriptData cf)) rest
      else if c =? 0 then WCont (emitc REPLACEMENT (sw WScriptEscaped cf)) rest
      else WCont (emitc c (sw WScriptEscaped cf)) rest
    end
  (* 13.2.5.23 Script data escaped less-than sign state *)
  | WScriptEscapedLt =>
    match input with
    | c :: rest =>
      if c =? 47 then WCont (sw WScriptEscapedEndTagOpen (cf <| wtmp := [] |>)) rest
      else if w_alpha c then WCont (sw WScriptDoubleEscapeStart (emitc 60 (cf <| wtmp := [] |>))) input
      else WCont (sw WScriptEscaped (emitc 60 cf)) input
    | [] => WCont (sw WScriptEscaped (emitc 60 cf)) input
    end
  | WScriptEscapedEndTagOpen => end_tag_open WScriptEscaped WScriptEscapedEndTagName cf input
  | WScriptEscapedEndTagName => end_tag_name env WScriptEscaped cf input
  | WScriptDoubleEscapeStart => double_escape WScriptDoubleEscaped WScriptEscaped WScriptEscaped cf input
  (* 13.2.5.27 Script data double escaped state *)
  | WScriptDoubleEscaped =>
    match input with
    | [] => stop_eof cf
    | c :: rest =>
      if c =? 45 then WCont (emitc 45 (sw WScriptDoubleEscapedDash cf)) rest
      else if c =? 60 then WCont (emitc 60 (sw WScriptDoubleEscapedLt cf)) rest
      else if c =? 0 then WCont (emitc REPLACEMENT cf) rest
      else WCont (emitc c cf) rest
    end
  | WScriptDoubleEscapedDash =>
    match input with
    | [] => stop_eof cf
    | c :: rest =>
      if c =? 45 then WCont (emitc 45 (sw WScriptDoubleEscapedDashDash cf)) rest
      else if c =? 60 then WCont (emitc 60 (sw WScriptDoubleEscapedLt cf)) rest
      else if c =? 0 then WCont (emitc REPLACEMENT (sw WScriptDoubleEscaped cf)) rest
      else WCont (emitc c (sw WScriptDoubleEscaped cf)) rest
    end
  | WScriptDoubleEscapedDashDash =>
    match input with
    | [] => stop_eof cf
    | c :: rest =>
      if c =? 45 then WCont (emitc 45 cf) rest
      else if c =? 60 then WCont (emitc 60 (sw WScriptDoubleEscapedLt cf)) rest
      else if c =? 62 then WCont (emitc 62 (sw WScriptData cf)) rest
      else if c =? 0 then WCont (emitc REPLACEMENT (sw WScriptDoubleEscaped cf)) rest
      else WCont (emitc c (sw WScriptDoubleEscaped cf)) rest
    end
  | WScriptDoubleEscapedLt =>
    match input with
    | c :: rest =>
      if c =? 47 then WCont (emitc 47 (sw WScriptDoubleEscapeEnd (cf <| wtmp := [] |>))) rest
      else WCont (sw WScriptDoubleEscaped cf) input
    | [] => WCont (sw WScriptDoubleEscaped cf) input
    end
  | WScriptDoubleEscapeEnd => double_escape WScriptEscaped WScriptDoubleEscaped WScriptDoubleEscaped cf input
  (* 13.2.5.32 Before attribute name state *)
  | WBeforeAttrName =>
    match input with
    | [] => WCont (sw WAfterAttrName cf) input
    | c :: rest =>
      if w_ws c then WCont cf rest
      else if (c =? 47) || (c =? 62) then WCont (sw WAfterAttrName cf) input
      else if c =? 61 then WCont (sw WAttrName (new_attr [c] [] cf)) rest
      else WCont (sw WAttrName (new_attr [] [] cf)) input
    end
  (* 13.2.5.33 Attribute name state *)
  | WAttrName =>
    match input with
    | [] => WCont (sw WAfterAttrName cf) input
    | c :: rest =>
      if w_ws c || (c =? 47) || (c =? 62) then WCont (sw WAfterAttrName cf) input
      else if c =? 61 then WCont (sw WBeforeAttrValue cf) rest
      else if c =? 0 then WCont (attr_name_push REPLACEMENT cf) rest
      else WCont (attr_name_push (w_lower c) cf) rest
    end
  (* 13.2.5.34 After attribute name state *)
  | WAfterAttrName =>
    match input with
    | [] => stop_eof cf
    | c :: rest =>
      if w_ws c then WCont cf rest
      else if c =? 47 then WCont (sw WSelfClosingStartTag cf) rest
      else if c =? 61 then WCont (sw WBeforeAttrValue cf) rest
      else if c =? 62 then let '(cf', inp) := emit_tag env (sw WData cf) rest in WCont cf' inp
      else WCont (sw WAttrName (new_attr [] [] cf)) input
    end
  (* 13.2.5.35 Before attribute value state *)
  | WBeforeAttrValue =>
    match input with
    | [] => WCont (sw WAttrValueUnq cf) input
    | c :: rest =>
      if w_ws c then WCont cf rest
      else if c =? 34 then WCont (sw WAttrValueDq cf) rest
      else if c =? 39 then WCont (sw WAttrValueSq cf) rest
      else if c =? 62 then let '(cf', inp) := emit_tag env (sw WData cf) rest in WCont cf' inp
      else WCont (sw WAttrValueUnq cf) input
    end
  | WAttrValueDq => attr_value_quoted 34 WAttrValueDq cf input
  | WAttrValueSq => attr_value_quoted 39 WAttrValueSq cf input
  (* 13.2.5.38 Attribute value (unquoted) state *)
  | WAttrValueUnq =>
    match input with
    | [] => stop_eof cf
    | c :: rest =>
      if w_ws c then WCont (sw WBeforeAttrName cf) rest
      else if c =? 38 then WCont (sw WCharRef (cf <| wret := WAttrValueUnq |>)) rest
      else if c =? 62 then let '(cf', inp) := emit_tag env (sw WData cf) rest in WCont cf' inp
      else if c =? 0 then WCont (attr_value_push REPLACEMENT cf) rest
      else WCont (attr_value_push c cf) rest
    end
  (* 13.2.5.39 After attribute value (quoted) state *)
  | WAfterAttrValueQuoted =>
    match input with
    | [] => stop_eof cf
    | c :: rest =>
      if w_ws c then WCont (sw WBeforeAttrName cf) rest
      else if c =? 47 then WCont (sw WSelfClosingStartTag cf) rest
      else if c =? 62 then let '(cf', inp) := emit_tag env (sw WData cf) rest in WCont cf' inp
      else WCont (sw WBeforeAttrName cf) input
    end
  (* 13.2.5.40 Self-closing start tag state *)
  | WSelfClosingStartTag =>
    match input with
    | [] => stop_eof cf
    | c :: rest =>
      if c =? 62 then let '(cf', inp) := emit_tag env (sw WData (on_tag (fun t => t <| tg_self := true |>) cf)) rest in WCont cf' inp
      else WCont (sw WBeforeAttrName cf) input
    end
  (* 13.2.5.41 Bogus comment state *)
  | WBogusComment =>
    match input with
    | [] => WStop (emit WTEof (emit_comment cf))
    | c :: rest =>
      if c =? 62 then WCont (emit_comment (sw WData cf)) rest
      else if c =? 0 then WCont (comment_push [REPLACEMENT] cf) rest
      else WCont (comment_push [c] cf) rest
    end
  (* 13.2.5.42 Markup declaration open state *)
  | WMarkupDeclarationOpen =>
    if is_prefix [45; 45] input then WCont (sw WCommentStart (cf <| wcomment := [] |>)) (skipn 2 input)
    else
      if lower_eq (firstn 7 input) [100; 111; 99; 116; 121; 112; 101] then WCont (sw WDoctype cf) (skipn 7 input)
      else if is_prefix [91; 67; 68; 65; 84; 65; 91] input then
        if e_foreign env then WCont (sw WCdataSection cf) (skipn 7 input)
        else WCont (sw WBogusComment (cf <| wcomment := [91; 67; 68; 65; 84; 65; 91] |>)) (skipn 7 input)
      else WCont (sw WBogusComment (cf <| wcomment := [] |>)) input
  (* 13.2.5.43 Comment start state *)
  | WCommentStart =>
    match input with
    | c :: rest =>
      if c =? 45 then WCont (sw WCommentStartDash cf) rest
      else if c =? 62 then WCont (emit_comment (sw WData cf)) rest
      else WCont (sw WComment cf) input
    | [] => WCont (sw WComment cf) input
    end
  | WCommentStartDash =>
    match input with
    | [] => WStop (emit WTEof (emit_comment cf))
    | c :: rest =>
      if c =? 45 then WCont (sw WCommentEnd cf) rest
      else if c =? 62 then WCont (emit_comment (sw WData cf)) rest
      else WCont (sw WComment (comment_push [45] cf)) input
    end
  (* 13.2.5.45 Comment state *)
  | WComment =>
    match input with
    | [] => WStop (emit WTEof (emit_comment cf))
    | c :: rest =>
      if c =? 60 then WCont (sw WCommentLt (comment_push [c] cf)) rest
      else if c =? 45 then WCont (sw WCommentEndDash cf) rest
      else if c =? 0 then WCont (comment_push [REPLACEMENT] cf) rest
      else WCont (comment_push [c] cf) rest
    end
  | WCommentLt =>
    match input with
    | c :: rest =>
      if c =? 33 then WCont (sw WCommentLtBang (comment_push [33] cf)) rest
      else if c =? 60 then WCont (comment_push [60] cf) rest
      else WCont (sw WComment cf) input
    | [] => WCont (sw WComment cf) input
    end
  | WCommentLtBang =>
    match input with
    | c :: rest => if c =? 45 then WCont (sw WCommentLtBangDash cf) rest else WCont (sw WComment cf) input
    | [] => WCont (sw WComment cf) input
    end
  | WCommentLtBangDash =>
    match input with
    | c :: rest => if c =? 45 then WCont (sw WCommentLtBangDashDash cf) rest else WCont (sw WCommentEndDash cf) input
    | [] => WCont (sw WCommentEndDash cf) input
    end
  | WCommentLtBangDashDash => WCont (sw WCommentEnd cf) input
  | WCommentEndDash =>
    match input with
    | [] => WStop (emit WTEof (emit_comment cf))
    | c :: rest => if c =? 45 then WCont (sw WCommentEnd cf) rest else WCont (sw WComment (comment_push [45] cf)) input
    end
  | WCommentEnd =>
    match input with
    | [] => WStop (emit WTEof (emit_comment cf))
    | c :: rest =>
      if c =? 62 then WCont (emit_comment (sw WData cf)) rest
      else if c =? 33 then WCont (sw WCommentEndBang cf) rest
      else if c =? 45 then WCont (comment_push [45] cf) rest
      else WCont (sw WComment (comment_push [45; 45] cf)) input
    end
  | WCommentEndBang =>
    match input with
    | [] => WStop (emit WTEof (emit_comment cf))
    | c :: rest =>
      if c =? 45 then WCont (sw WCommentEndDash (comment_push [45; 45; 33] cf)) rest
      else if c =? 62 then WCont (emit_comment (sw WData cf)) rest
      else WCont (sw WComment (comment_push [45; 45; 33] cf)) input
    end
  (* 13.2.5.53 DOCTYPE state *)
  | WDoctype =>
    match input with
    | [] => WStop (emit WTEof (emit_doctype (cf <| wdoc := mkwdoc None None None true |>)))
    | c :: rest =>
      if w_ws c then WCont (sw WBeforeDoctypeName cf) rest
      else WCont (sw WBeforeDoctypeName cf) input
    end
  (* 13.2.5.54 Before DOCTYPE name state *)
  | WBeforeDoctypeName =>
    match input with
    | [] => eof_doctype (cf <| wdoc := mkwdoc None None None false |>)
    | c :: rest =>
      if w_ws c then WCont cf rest
      else
        let cf := cf <| wdoc := mkwdoc None None None false |> in
        if c =? 62 then WCont (emit_doctype (sw WData (on_doc set_fq cf))) rest
        else if c =? 0 then WCont (sw WDoctypeName (on_doc (fun d => d <| dc_name := Some [REPLACEMENT] |>) cf)) rest
        else WCont (sw WDoctypeName (on_doc (fun d => d <| dc_name := Some [w_lower c] |>) cf)) rest
    end
  (* 13.2.5.55 DOCTYPE name state *)
  | WDoctypeName =>
    match input with
    | [] => eof_doctype cf
    | c :: rest =>
      if w_ws c then WCont (sw WAfterDoctypeName cf) rest
      else if c =? 62 then WCont (emit_doctype (sw WData cf)) rest
      else if c =? 0 then WCont (on_doc (fun d => d <| dc_name ::= (fun o => opt_push o REPLACEMENT) |>) cf) rest
      else WCont (on_doc (fun d => d <| dc_name ::= (fun o => opt_push o (w_lower c)) |>) cf) rest
    end
  (* 13.2.5.56 After DOCTYPE name state *)
  | WAfterDoctypeName =>
    match input with
    | [] => eof_doctype cf
    | c :: rest =>
      if w_ws c then WCont cf rest
      else if c =? 62 then WCont (emit_doctype (sw WData cf)) rest
      else if lower_eq (firstn 6 input) [112; 117; 98; 108; 105; 99] then WCont (sw WAfterDoctypePublicKeyword cf) (skipn 6 input)
      else if lower_eq (firstn 6 input) [115; 121; 115; 116; 101; 109] then WCont (sw WAfterDoctypeSystemKeyword cf) (skipn 6 input)
      else WCont (sw WBogusDoctype (on_doc set_fq cf)) input
    end
  | WAfterDoctypePublicKeyword => after_keyword true WBeforeDoctypePublicId WDoctypePublicIdDq WDoctypePublicIdSq cf input
  | WBeforeDoctypePublicId => before_identifier true WDoctypePublicIdDq WDoctypePublicIdSq cf input
  | WDoctypePublicIdDq => identifier true 34 WAfterDoctypePublicId cf input
  | WDoctypePublicIdSq => identifier true 39 WAfterDoctypePublicId cf input
  (* 13.2.5.61 After DOCTYPE public identifier state *)
  | WAfterDoctypePublicId =>
    match input with
    | [] => eof_doctype cf
    | c :: rest =>
      if w_ws c then WCont (sw WBetweenDoctypePublicAndSystemIds cf) rest
      else if c =? 62 then WCont (emit_doctype (sw WData cf)) rest
      else if c =? 34 then WCont (sw WDoctypeSystemIdDq (on_doc (set_sys (Some [])) cf)) rest
      else if c =? 39 then WCont (sw WDoctypeSystemIdSq (on_doc (set_sys (Some [])) cf)) rest
      else WCont (sw WBogusDoctype (on_doc set_fq cf)) input
    end
  | WBetweenDoctypePublicAndSystemIds =>
    match input with
    | [] => eof_doctype cf
    | c :: rest =>
      if w_ws c then WCont cf rest
      else if c =? 62 then WCont (emit_doctype (sw WData cf)) rest
      else if c =? 34 then WCont (sw WDoctypeSystemIdDq (on_doc (set_sys (Some [])) cf)) rest
      else if c =? 39 then WCont (sw WDoctypeSystemIdSq (on_doc (set_sys (Some [])) cf)) rest
      else WCont (sw WBogusDoctype (on_doc set_fq cf)) input
    end
  | WAfterDoctypeSystemKeyword => after_keyword false WBeforeDoctypeSystemId WDoctypeSystemIdDq WDoctypeSystemIdSq cf input
  | WBeforeDoctypeSystemId => before_identifier false WDoctypeSystemIdDq WDoctypeSystemIdSq cf input
  | WDoctypeSystemIdDq => identifier false 34 WAfterDoctypeSystemId cf input
  | WDoctypeSystemIdSq => identifier false 39 WAfterDoctypeSystemId cf input
  (* 13.2.5.67 After DOCTYPE system identifier state *)
  | WAfterDoctypeSystemId =>
    match input with
    | [] => eof_doctype cf
    | c :: rest =>
      if w_ws c then WCont cf rest
      else if c =? 62 then WCont (emit_doctype (sw WData cf)) rest
      else WCont (sw WBogusDoctype cf) input               (* does NOT set the force-quirks flag *)
    end
  (* 13.2.5.68 Bogus DOCTYPE state *)
  | WBogusDoctype =>
    match input with
    | [] => WStop (emit WTEof (emit_doctype cf))
    | c :: rest => if c =? 62 then WCont (emit_doctype (sw WData cf)) rest else WCont cf rest
    end
  (* 13.2.5.69 - 71 CDATA section *)
  | WCdataSection =>
    match input with
    | [] => stop_eof cf
    | c :: rest => if c =? 93 then WCont (sw WCdataSectionBracket cf) rest else WCont (emitc c cf) rest
    end
  | WCdataSectionBracket =>
    match input with
    | c :: rest => if c =? 93 then WCont (sw WCdataSectionEnd cf) rest else WCont (sw WCdataSection (emitc 93 cf)) input
    | [] => WCont (sw WCdataSection (emitc 93 cf)) input
    end
  | WCdataSectionEnd =>
    match input with
    | c :: rest =>
      if c =? 93 then WCont (emitc 93 cf) rest
      else if c =? 62 then WCont (sw WData cf) rest
      else WCont (sw WCdataSection (emitc 93 (emitc 93 cf))) input
    | [] => WCont (sw WCdataSection (emitc 93 (emitc 93 cf))) input
    end
  (* 13.2.5.72 Character reference state *)
  | WCharRef =>
    let cf := cf <| wtmp := [38] |> in
    match input with
    | c :: rest =>
      if w_alnum c then WCont (sw WNamedCharRef cf) input
      else if c =? 35 then WCont (sw WNumericCharRef (cf <| wtmp ::= (fun t => t ++ [c]) |>)) rest
      else WCont (sw (wret cf) (flush_charref cf)) input
    | [] => WCont (sw (wret cf) (flush_charref cf)) input
    end
  (* 13.2.5.73 Named character reference state *)
  | WNamedCharRef =>
    match best_match (e_entities env) input with
    | Some (name, v) =>
      let rest := skipn (length name) input in
      let cf := cf <| wtmp ::= (fun t => t ++ name) |> in
      if in_attr cf && negb (last name 0 =? 59) &&
         match rest with c :: _ => (c =? 61) || w_alnum c | [] => false end
      then WCont (sw (wret cf) (flush_charref cf)) rest                      (* for historical reasons *)
      else WCont (sw (wret cf) (flush_charref (cf <| wtmp := chars_of_ref v |>))) rest
    | None => WCont (sw WAmbiguousAmpersand (flush_charref cf)) input
    end
  (* 13.2.5.74 Ambiguous ampersand state *)
  | WAmbiguousAmpersand =>
    match input with
    | c :: rest =>
      if w_alnum c then WCont (if in_attr cf then attr_value_push c cf else emitc c cf) rest
      else WCont (sw (wret cf) cf) input
    | [] => WCont (sw (wret cf) cf) input
    end
  (* 13.2.5.75 Numeric character reference state *)
  | WNumericCharRef =>
    let cf := cf <| wcode := 0 |> in
    match input with
    | c :: rest =>
      if (c =? 120) || (c =? 88) then WCont (sw WHexCharRefStart (cf <| wtmp ::= (fun t => t ++ [c]) |>)) rest
      else WCont (sw WDecCharRefStart cf) input
    | [] => WCont (sw WDecCharRefStart cf) input
    end
  | WHexCharRefStart =>
    match input with
    | c :: _ => if w_digit c || w_hexu c || w_hexl c then WCont (sw WHexCharRef cf) input
                else WCont (sw (wret cf) (flush_charref cf)) input
    | [] => WCont (sw (wret cf) (flush_charref cf)) input
    end
  | WDecCharRefStart =>
    match input with
    | c :: _ => if w_digit c then WCont (sw WDecCharRef cf) input else WCont (sw (wret cf) (flush_charref cf)) input
    | [] => WCont (sw (wret cf) (flush_charref cf)) input
    end
  | WHexCharRef =>
    match input with
    | c :: rest =>
      if w_digit c then WCont (cf <| wcode ::= (fun n => n * 16 + (c - 0x30)) |>) rest
      else if w_hexu c then WCont (cf <| wcode ::= (fun n => n * 16 + (c - 0x37)) |>) rest
      else if w_hexl c then WCont (cf <| wcode ::= (fun n => n * 16 + (c - 0x57)) |>) rest
      else if c =? 59 then WCont (sw WNumericCharRefEnd cf) rest
      else WCont (sw WNumericCharRefEnd cf) input
    | [] => WCont (sw WNumericCharRefEnd cf) input
    end
  | WDecCharRef =>
    match input with
    | c :: rest =>
      if w_digit c then WCont (cf <| wcode ::= (fun n => n * 10 + (c - 0x30)) |>) rest
      else if c =? 59 then WCont (sw WNumericCharRefEnd cf) rest
      else WCont (sw WNumericCharRefEnd cf) input
    | [] => WCont (sw WNumericCharRefEnd cf) input
    end
  (* 13.2.5.80 Numeric character reference end state *)
  | WNumericCharRefEnd =>
    let n := wcode cf in
    let n := if n =? 0 then REPLACEMENT
             else if 0x10FFFF <? n then REPLACEMENT
             else if (0xD800 <=? n) && (n <=? 0xDFFF) then REPLACEMENT
             else match c1_lookup n c1_table with Some v => v | None => n end in
    WCont (sw (wret cf) (flush_charref (cf <| wtmp := [n] |>))) input
  end.

(* run the state machine; [None]: out of fuel *)
Fixpoint wrun (fuel : nat) (env : wenv) (cf : wconf) (input : list N) : option wconf :=
  match fuel with
  | O => None
  | S f => match wstep env cf input with
           | WStop cf' => Some cf'
           | WCont cf' input' => wrun f env cf' input'
           end
  end.

(* the tokens of a whole input, oldest first: preprocess, then tokenize from the given state *)
Definition wtokenize (fuel : nat) (env : wenv) (s : wstate) (last : option wstr) (text : list N) : option (list wtoken) :=
  match wrun fuel env (winit s last) (preprocess text) with
  | Some cf => Some (rev (wout cf))
  | None => None
  end.
