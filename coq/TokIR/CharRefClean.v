(* At every ConsumeCharRef terminator the machine is "clean": the reconsume flag is clear and no CR is pending
   (ignore_lf = false) - the character that started the reference arrived through get_char / a single-character pop and
   is statically not LF (so it was not a CR), or the arm has just discarded raw / looked ahead.  This is the premise of
   CharRef/CrInterp.v's whole-reference theorems.  Generic in the table (html flavour, exact_errors = true, flat
   queue) under the decidable condition [cchk]; the invariant CI: reconsume set and CR pending -> current_char = LF. *)
From Coq Require Import List NArith Bool Lia Arith.
From RecordUpdate Require Import RecordSet.
From HV Require Import TokIR.IR TokIR.Interp TokIR.Checks TokIR.LineInv TokIR.Termination.
Import ListNotations RecordSetNotations.
Local Open Scope N_scope.

Section Clean.
Context {S : Type}.
Variable fl : flavour S.
Variable tb : table S.
Variable simd : list N * list N * list N.
Variable ent : list N -> option (N * N).
Variable c1 : N -> option N.
Variable sk : sinkcfg.
Hypothesis Hhtml : f_html fl = true.

Notation M := (mach S (list N)).
Notation fid := (fun q : list N => q).
Notation gpc_skipF := (@gpc_skip S (list N) fq_next).
Notation gpc_postF := (@gpc_post S (list N) fl true).
Notation gpcF := (@get_preprocessed_char S (list N) fq_next fl true).
Notation get_charF := (@get_char S (list N) fq_next fl true).
Notation peekF := (@peek S (list N) fq_peek).
Notation discard_charF := (@discard_char S (list N) fq_next fl true).
Notation discard_wsF := (@discard_ws S (list N) fq_next fl true).
Notation popF := (@pop_except_from S (list N) fq_next fq_peek fq_run1 fl true simd).
Notation eatF := (@eat S (list N) [] fq_next fq_peek (@app N) fid fl true).
Notation do_cmdF := (@do_cmd S (list N) fq_next fl true).
Notation do_termF := (@do_term S (list N) fl sk).
Notation execF := (@exec S (list N) [] fq_next fq_peek (@app N) fid fq_run1 fl true simd sk).
Notation emit_current_tagF := (@emit_current_tag S (list N) fl sk).
Notation stepF := (@step S (list N) [] fq_next fq_peek (@app N) fid fq_run1 fl true tb simd ent c1 sk).

Definition vcur (m : M) : N := cur (mc m).
Definition CI (m : M) : Prop := vrc m = true -> vil m = true -> vcur m = LF.

(* ---------------------------------------------------------------- current_char is only written by get_char *)
Definition kc (m m' : M) : Prop := vcur m' = vcur m.
Lemma kc_refl m : kc m m. Proof. reflexivity. Qed.
Lemma kc_trans m1 m2 m3 : kc m1 m2 -> kc m2 m3 -> kc m1 m3.
Proof. unfold kc. congruence. Qed.
Lemma upd_kc f (m : M) : (forall x, cur (f x) = cur x) -> kc m (upd f m).
Proof. intros H. destruct m as [cf q o k]. unfold kc, vcur, upd. cbn. apply H. Qed.
Lemma emit_kc t (m : M) : kc m (emit t m). Proof. destruct m; reflexivity. Qed.
Ltac kcur := intros x; destruct x; reflexivity.
Lemma finish_attribute_kc (m : M) : kc m (finish_attribute fl m).
Proof.
  unfold finish_attribute. destruct (attr_name (mc m)); [apply kc_refl|]. rewrite Hhtml. destruct (existsb _ _).
  - eapply kc_trans; [apply emit_kc|apply upd_kc; kcur].
  - apply upd_kc; kcur.
Qed.
Lemma discard_tag_kc (m : M) : kc m (discard_tag fl m).
Proof. unfold discard_tag. rewrite Hhtml. apply upd_kc; kcur. Qed.
Lemma emit_char_kc c (m : M) : kc m (emit_char fl c m).
Proof. unfold emit_char. rewrite Hhtml. destruct (c =? 0); apply emit_kc. Qed.
Lemma do_cmd_kc k c run (m : M) : is_discard k = false -> kc m (do_cmdF k c run m).
Proof.
  intros Hd. destruct k; try discriminate; cbn [do_cmd];
    try match goal with |- context [match ?x with KPublic => _ | _ => _ end] => destruct x end;
    match goal with
    | |- kc _ (upd _ (discard_tag _ _)) => eapply kc_trans; [apply discard_tag_kc|apply upd_kc; kcur]
    | |- kc _ (upd _ (finish_attribute _ _)) => eapply kc_trans; [apply finish_attribute_kc|apply upd_kc; kcur]
    | |- kc _ (upd _ (emit _ _)) => eapply kc_trans; [apply emit_kc|apply upd_kc; kcur]
    | |- kc _ (upd _ _) => apply upd_kc; kcur
    | |- kc _ (discard_tag _ _) => apply discard_tag_kc
    | |- kc _ (emit_char _ _ _) => apply emit_char_kc
    | |- kc _ (err _) => apply emit_kc
    | |- kc _ (emit _ _) => apply emit_kc
    end.
Qed.
Lemma do_cmd_il k c run (m : M) : is_discard k = false ->
  vil (do_cmdF k c run m) = vil m /\ vrc (do_cmdF k c run m) = vrc m.
Proof.
  intros Hd. assert (Q : quietT m (do_cmdF k c run m)).
  { destruct (is_tempcmd k) eqn:Et; [apply (do_cmd_temp fl k c run m Et)|apply (do_cmd_quiet fl Hhtml k c run m Hd Et)]. }
  destruct Q as [[Q1 _] Q2]. destruct (dv_inv _ _ Q1) as (_ & _ & _ & A). destruct (cv3_inv _ _ Q2) as (_ & B & _). auto.
Qed.

(* a fresh get_char: current_char is the character delivered, and a pending CR means it is LF *)
Lemma get_char_fresh (m : M) c' : vrc m = false -> fst (get_charF m) = Some c' ->
  vcur (snd (get_charF m)) = c' /\ (vil (snd (get_charF m)) = true -> c' = LF).
Proof.
  intros Hr. unfold get_char. unfold vrc in Hr. rewrite Hr.
  destruct (mq m) as [|d q']; cbn [fq_next]; [discriminate|].
  set (m0 := took 1 (m <| mq := q' |>)). clearbody m0.
  unfold get_preprocessed_char.
  assert (Hskip : forall d2 m1, gpc_skipF d m0 = (Some d2, m1) -> vil m1 = false).
  { unfold gpc_skip. intros d2 m1. destruct m0 as [cf q o k]. unfold vil, upd, took, set. cbn.
    destruct (ignore_lf cf) eqn:E.
    - destruct (d =? LF).
      + destruct q as [|e q'']; cbn; [discriminate|]. intros H; injection H as _ <-. destruct cf; reflexivity.
      + intros H; injection H as _ <-. destruct cf; reflexivity.
    - intros H; injection H as _ <-. exact E. }
  destruct (gpc_skipF d m0) as [[d2|] m1]; [|discriminate]. specialize (Hskip d2 m1 eq_refl).
  unfold gpc_post, gpc_decide. rewrite Hhtml. cbn [negb andb]. rewrite lf_after_cr.
  destruct m1 as [cf q o k]. unfold vil, vcur in *. cbn in Hskip.
  destruct ((d2 =? CR) || (d2 =? LF)) eqn:E1; destruct (d2 =? CR) eqn:E2; destruct (bad_char _); destruct cf; cbn in *; subst;
    intros H; injection H as <-; split; try reflexivity; intros X; try discriminate X; reflexivity.
Qed.

Notation eat_bodyF := (@eat_body S (list N) [] fq_next fq_peek (@app N) fid).
Lemma eat_body_il a p e (m : M) : vil (snd (eat_bodyF a p e m)) = vil m.
Proof.
  unfold eat_body. fold (Uu m).
  assert (G : vil (Uu m) = vil m) by (destruct m as [cf q o k]; destruct cf; reflexivity).
  set (m2 := Uu m) in *. clearbody m2. rewrite <- G.
  destruct (Qeat fq_peek fid (negb e) p (mq m2)); [destruct a| |]; cbn [snd]; destruct m2 as [cf q o k]; destruct cf; reflexivity.
Qed.
Lemma eat_il a p e (m : M) : fst (eatF a p e m) <> None -> vil (snd (eatF a p e m)) = false.
Proof.
  unfold eat. destruct (ignore_lf (mc m)) eqn:Ei.
  - destruct (peekF m) as [c0|].
    + intros _. rewrite eat_body_il. destruct (c0 =? LF); [rewrite Hhtml|]; 
        match goal with |- vil (upd _ ?X) = false => destruct X as [cf q o k]; destruct cf; reflexivity end.
    + destruct a; [|intros X; exfalso; apply X; reflexivity]. intros _. rewrite eat_body_il.
      destruct m as [cf q o k]; destruct cf; reflexivity.
  - intros _. rewrite eat_body_il. exact Ei.
Qed.
Lemma discard_char_il (m : M) : vrc m = false ->
  vil (discard_charF m) = false /\ vrc (discard_charF m) = false /\ vcr (discard_charF m) = vcr m.
Proof.
  intros Hr. unfold discard_char. rewrite Hhtml. unfold vrc in Hr. rewrite Hr.
  destruct (fq_next (mq m)) as [[c q']|]; destruct m as [cf q o k]; destruct cf; cbn in *; subst; auto.
Qed.
Lemma discard_ws_rc c (m : M) : vrc m = false -> vrc (discard_wsF c m) = false /\ vcr (discard_wsF c m) = vcr m.
Proof.
  intros Hr. destruct (discard_char_il m Hr) as (_ & A & B). unfold discard_ws.
  set (d := discard_charF m) in *. clearbody d. rewrite <- B.
  destruct ((c =? CR) || (c =? LF) && negb (ignore_lf (mc m))); destruct d as [cf q o k]; destruct cf; cbn in *; auto.
Qed.

(* ---------------------------------------------------------------- the static condition *)
Inductive ist := IUnk | IGet | IStale | IFalse.
(* can the arm, entered with the character c at hand, reach ConsumeCharRef before reading again *)
Fixpoint path_cref (c : N) (b : body S) : bool :=
  match b with
  | BIf k y n => match static_cond k c with
                 | Some true => path_cref c y | Some false => path_cref c n
                 | None => path_cref c y || path_cref c n end
  | BCmd _ k => path_cref c k
  | BEnd (ConsumeCharRef _) => true
  | _ => false
  end.
Fixpoint cchk (st : ist) (b : body S) : bool :=
  match b with
  | BRead RGet k => cchk IGet k && negb (path_cref 10 k)
  | BPop _ _ _ kc => cchk IGet kc && negb (path_cref 10 kc)
  | BRead RPeek k => cchk (match st with IGet => IStale | x => x end) k
  | BEat _ _ y n => cchk IFalse y && cchk IFalse n
  | BIf _ y n => cchk st y && cchk st n
  | BCmd DiscardChar k => cchk IFalse k
  | BCmd DiscardWs k => cchk IUnk k
  | BCmd _ k => cchk st k
  | BEnd (Reconsume _) => match st with IUnk => false | _ => true end
  | BEnd (ConsumeCharRef _) => match st with IGet | IFalse => true | _ => false end
  | BEnd _ => true
  end.

Definition Qs (st : ist) (c : N) (b : body S) (m : M) : Prop :=
  match st with
  | IUnk => True
  | IGet => vcur m = c /\ (vil m = true -> c = LF) /\ (c = LF -> path_cref c b = false)
  | IStale => vil m = true -> vcur m = LF
  | IFalse => vil m = false
  end.
Definition Rs (m' : M) : Prop :=
  CI m' /\ (vcr m' <> None -> vil m' = false /\ vrc m' = false /\ exists in_attr ad, vcr m' = Some (cr_new in_attr ad)).

Lemma ect_il (m : M) : vil (fst (emit_current_tagF m)) = vil m /\ vrc (fst (emit_current_tagF m)) = vrc m /\
  vcr (fst (emit_current_tagF m)) = vcr m.
Proof.
  destruct (ect_spec fl sk Hhtml m) as ([Q _] & A & B & _). destruct (dv_inv _ _ Q) as (_ & _ & _ & E). auto.
Qed.

Lemma do_term_clean ia c t (m : M) : cchk ia (BEnd t) = true -> Qs ia c (BEnd t) m -> vrc m = false -> vcr m = None ->
  Rs (fst (do_termF t m)).
Proof.
  intros Hc HQ Hr Hcr.
  assert (Hsame : forall m' : M, vrc m' = false -> vcr m' = None -> Rs m').
  { intros m' A B. split; [intros X; congruence|intros X; congruence]. }
  assert (Hect : forall m1 : M, vrc m1 = false -> vcr m1 = None -> Rs (fst (emit_current_tagF m1))).
  { intros m1 A B. destruct (ect_il m1) as (_ & E2 & E3). apply Hsame; congruence. }
  destruct t; cbn [do_term fst]; cbn [cchk] in Hc.
  - apply Hsame; assumption.
  - apply Hsame; assumption.
  - apply Hsame; destruct m as [cf q o k]; destruct cf; assumption.
  - (* Reconsume *) split; [|intros X; exfalso; apply X; destruct m as [cf q o k]; destruct cf; exact Hcr].
    intros _ Hi.
    assert (E : vil (upd (fun x => x <| reconsume := true |> <| st := s |>) m) = vil m /\
                vcur (upd (fun x => x <| reconsume := true |> <| st := s |>) m) = vcur m)
      by (destruct m as [cf q o k]; destruct cf; split; reflexivity).
    destruct E as [E1 E2]. rewrite E1 in Hi. rewrite E2.
    destruct ia; try discriminate Hc; cbn [Qs] in HQ.
    + destruct HQ as (A & B & _). rewrite A. auto.
    + auto.
    + congruence.
  - (* ConsumeCharRef *) split; [intros X; exfalso; destruct m as [cf q o k]; destruct cf; unfold vrc in *; cbn in *; congruence|].
    intros _. split; [|split; [destruct m as [cf q o k]; destruct cf; exact Hr|destruct m as [cf q o k]; destruct cf; eexists _, _; reflexivity]].
    assert (E : vil (upd (fun x => x <| cref := Some (cr_new (f_is_attr_value fl (Interp.st x)) addnl) |>) m) = vil m)
      by (destruct m as [cf q o k]; destruct cf; reflexivity).
    rewrite E. destruct ia; try discriminate Hc; cbn [Qs] in HQ.
    + destruct HQ as (A & B & D). destruct (vil m) eqn:Ei; [|reflexivity].
      specialize (B eq_refl). specialize (D B). cbn in D. discriminate D.
    + exact HQ.
  - apply Hect; destruct m as [cf q o k0]; destruct cf; assumption.
  - destruct k; cbn [do_term fst]; apply Hect; destruct m as [cf q o k0]; destruct cf; assumption.
  - apply Hsame; destruct m as [cf q o k]; destruct cf; assumption.
  - apply Hsame; destruct m as [cf q o k]; assumption.
Qed.

Lemma susp_clean (m : M) : vrc m = false -> vcr m = None -> Rs m.
Proof. intros A B. split; intros X; congruence. Qed.

Lemma exec_clean a : forall b ia c run (m : M), cchk ia b = true -> Qs ia c b m -> vrc m = false -> vcr m = None ->
  Rs (fst (execF a b c run m)).
Proof.
  induction b as [rk k IH|set sm krun IHr kchar IHc|p e y IHy n IHn|k y IHy n IHn|k rest IH|t];
    intros ia c run m Hc HQ Hr Hcr; cbn [exec]; cbn [cchk] in Hc.
  - destruct rk.
    + apply andb_prop in Hc. destruct Hc as [Hc1 Hc2]. apply negb_true_iff in Hc2.
      pose proof (get_char_fresh m) as G. destruct (get_char_sz fl m) as (A & B & _). destruct (cvx_inv _ _ A) as (_ & _ & A3).
      destruct (get_charF m) as [[c'|] m1]; cbn [fst snd] in *.
      * destruct (G c' Hr eq_refl) as [G1 G2]. apply (IH IGet); [exact Hc1| |exact B|congruence].
        split; [exact G1|split; [exact G2|intros ->; exact Hc2]].
      * apply susp_clean; congruence.
    + destruct (peekF m) as [c'|]; [|apply susp_clean; assumption].
      apply (IH (match ia with IGet => IStale | x => x end)); auto.
      destruct ia; cbn [Qs] in *; auto. destruct HQ as (A & B & _). intros X. rewrite A. auto.
  - rewrite pop_exact. apply andb_prop in Hc. destruct Hc as [Hc1 Hc2]. apply negb_true_iff in Hc2.
    pose proof (get_char_fresh m) as G. destruct (get_char_sz fl m) as (A & B & _). destruct (cvx_inv _ _ A) as (_ & _ & A3).
    destruct (get_charF m) as [[c'|] m1]; cbn [fst snd] in *.
    + destruct (G c' Hr eq_refl) as [G1 G2]. apply (IHc IGet); [exact Hc1| |exact B|congruence].
      split; [exact G1|split; [exact G2|intros ->; exact Hc2]].
    + apply susp_clean; congruence.
  - apply andb_prop in Hc. destruct Hc as [Hc1 Hc2].
    destruct (eat_sz fl Hhtml a p e m Hr) as (A & _). destruct (cv3_inv _ _ A) as (_ & A2 & A3).
    pose proof (eat_il a p e m) as Hil.
    destruct (eatF a p e m) as [[[|]|] m1]; cbn [fst snd] in *.
    + apply (IHy IFalse); [exact Hc1| |congruence|congruence]. apply Hil. discriminate.
    + apply (IHn IFalse); [exact Hc2| |congruence|congruence]. apply Hil. discriminate.
    + apply susp_clean; congruence.
  - apply andb_prop in Hc. destruct Hc as [Hc1 Hc2].
    destruct (ceval_cond sk k c m) eqn:E; [apply (IHy ia)|apply (IHn ia)]; auto;
      (destruct ia; cbn [Qs] in *; auto); destruct HQ as (A & B & D); (split; [exact A|split; [exact B|]]);
      intros X; specialize (D X); cbn [path_cref] in D;
      destruct (static_cond k c) as [[|]|] eqn:Es;
      try (rewrite (static_cond_sound sk _ _ m _ Es) in E; discriminate E); try exact D;
      apply orb_false_iff in D; tauto.
  - destruct (is_discard k) eqn:Ed.
    + destruct k; try discriminate Ed; cbn [cchk do_cmd] in *.
      * destruct (discard_char_il m Hr) as (A & B & D). apply (IH IFalse); [exact Hc|exact A|exact B|congruence].
      * destruct (discard_ws_rc c m Hr) as (B & D). apply (IH IUnk); [exact Hc|exact I|exact B|congruence].
    + assert (Hc' : cchk ia rest = true) by (destruct k; try discriminate Ed; exact Hc).
      destruct (do_cmd_il k c run m Ed) as [A B]. pose proof (do_cmd_kc k c run m Ed) as D.
      assert (Hcr' : vcr (do_cmdF k c run m) = None).
      { assert (Q : quietT m (do_cmdF k c run m)).
        { destruct (is_tempcmd k) eqn:Et; [apply (do_cmd_temp fl k c run m Et)|apply (do_cmd_quiet fl Hhtml k c run m Ed Et)]. }
        destruct Q as [_ Q2]. destruct (cv3_inv _ _ Q2) as (_ & _ & X). congruence. }
      apply (IH ia); [exact Hc'| |congruence|exact Hcr'].
      destruct ia; cbn [Qs] in *; auto; unfold kc in D.
      * destruct HQ as (X & Y & Z). split; [congruence|split; [rewrite A; exact Y|]].
        intros W. specialize (Z W). destruct k; try discriminate Ed; exact Z.
      * rewrite A, D. exact HQ.
      * congruence.
  - eapply do_term_clean; eassumption.
Qed.

Variable clean : S -> bool.
Hypothesis Hc : forall s, cchk IUnk (t_step tb s) = true.

(* one step of the table keeps CI and ends clean whenever it started a character reference *)
Lemma step_exec_clean a (m : M) : TI tb clean m -> CI m -> vcr m = None ->
  Rs (fst (execF a (t_step tb (vst m)) 0 [] m)).
Proof.
  intros (HR & _ & _) HCI Hcr. pose proof (Hc (vst m)) as Hs.
  destruct (vrc m) eqn:Hr.
  - destruct (HR eq_refl) as [Hg _].
    destruct (t_step tb (vst m)) as [rk k|set sm krun kchar|p e y n|k y n|k rest|t]; try discriminate Hg.
    + destruct rk; [|discriminate Hg]. cbn [exec]. cbn [cchk] in Hs. apply andb_prop in Hs. destruct Hs as [Hs1 Hs2].
      apply negb_true_iff in Hs2.
      unfold get_char. unfold vrc in Hr. rewrite Hr.
      apply (exec_clean a k IGet).
      * exact Hs1.
      * split; [destruct m as [cf q o k0]; destruct cf; reflexivity|split; [|intros ->; exact Hs2]].
        intros X. apply HCI; [exact Hr|]. destruct m as [cf q o k0]; destruct cf; exact X.
      * destruct m as [cf q o k0]; destruct cf; reflexivity.
      * destruct m as [cf q o k0]; destruct cf; exact Hcr.
    + cbn [exec]. rewrite pop_exact. cbn [cchk] in Hs. apply andb_prop in Hs. destruct Hs as [Hs1 Hs2].
      apply negb_true_iff in Hs2.
      unfold get_char. unfold vrc in Hr. rewrite Hr.
      apply (exec_clean a kchar IGet).
      * exact Hs1.
      * split; [destruct m as [cf q o k0]; destruct cf; reflexivity|split; [|intros ->; exact Hs2]].
        intros X. apply HCI; [exact Hr|]. destruct m as [cf q o k0]; destruct cf; exact X.
      * destruct m as [cf q o k0]; destruct cf; reflexivity.
      * destruct m as [cf q o k0]; destruct cf; exact Hcr.
  - apply (exec_clean a _ IUnk); auto. exact I.
Qed.

Theorem step_keeps_CI a (m : M) : TI tb clean m -> CI m -> CI (fst (stepF a m)).
Proof.
  intros HI HCI. unfold step. fold (vcr m). fold (vst m). destruct (vcr m) as [cr|] eqn:Ecr.
  - (* inside a reference the reconsume flag stays clear *)
    pose proof HI as (HR & _ & _).
    assert (Hr : vrc m = false).
    { destruct (vrc m) eqn:E; [|reflexivity]. destruct (HR eq_refl) as [_ G0]. congruence. }
    destruct (cr_step_sz fl ent c1 Hhtml cr m Hr) as [A _]. destruct (cv_inv _ _ A) as (_ & A2 & _).
    destruct (cr_step fq_next fq_peek (@app N) fl true ent c1 cr m) as [[|cr'|chars] m1]; cbn [fst snd] in *.
    + intros X. congruence.
    + intros X. exfalso. destruct m1 as [cf q o k]; destruct cf; unfold vrc in *; cbn in *; congruence.
    + pose proof (pcr_quiet fl Hhtml chars m1) as Q. pose proof (quiet_cv _ _ Q) as Q2. destruct (cv_inv _ _ Q2) as (_ & Q4 & _).
      destruct (process_char_ref fl chars m1) as [m2 bad]. cbn [fst] in *.
      intros X. exfalso. destruct m2 as [cf q o k]; destruct cf; unfold vrc in *; cbn in *; congruence.
  - apply step_exec_clean; assumption.
Qed.

(* the premise of the whole-reference theorems: right after a ConsumeCharRef terminator the machine is clean *)
Theorem consume_charref_clean a (m : M) : TI tb clean m -> CI m -> vcr m = None -> vcr (fst (stepF a m)) <> None ->
  reconsume (mc (fst (stepF a m))) = false /\ ignore_lf (mc (fst (stepF a m))) = false /\
  exists in_attr ad, cref (mc (fst (stepF a m))) = Some (cr_new in_attr ad).
Proof.
  intros HI HCI Hcr. unfold step. fold (vcr m). rewrite Hcr. fold (vst m).
  destruct (step_exec_clean a m HI HCI Hcr) as [_ R2]. intros X. destruct (R2 X) as (A & B & D). split; [exact B|split; [exact A|exact D]].
Qed.

Lemma CI_init s0 last q o k : CI (mkmach (init_cfg s0 last false) q o k).
Proof. intros X. discriminate X. Qed.
Lemma CI_same (m m' : M) : vrc m' = vrc m -> vil m' = vil m -> vcur m' = vcur m -> CI m -> CI m'.
Proof. unfold CI. intros -> -> ->. auto. Qed.
End Clean.
