(* C04 - the html tokenizer interpreter never reaches a panic site (reference semantics: exact_errors = true, flat
   queue), on top of TokIR/Termination.v.  Panic values of Interp.v:
     99  an arm fell through (the translator's default arm of an ill-kinded state)      - excluded by well-kindedness
      1  process_char_ref in a state without an arm                                        - excluded by state_ok
     98 / 97  out of fuel                                                                   - Termination.v
      3  eof_loop: an EOF arm answered Script / Encoding                                   - EOF arms emit no tags
      5  end(): input left after the final run                                             - a suspended run leaves the queue empty
      4  end(): the final run answered Script / Encoding (assert!(matches!(run, Done)))   - REMAINS unless the sink never
         answers Script / EncodingIndicator: it needs a tag completed from put-back character-reference input
     96  the driver model's limit of 50 pauses per chunk                                    - a property of the driver, kept
   Invariant K: the current state is well-kinded (the table has real arms for it) and, while a character reference is
   pending, process_char_ref has an arm for the state.  Decidable table conditions: [state_ok] (no arm of a
   well-kinded state falls through, every transition target is well-kinded, references start only in states with a
   process_char_ref arm), [noeofb] (step arms have no Eof terminator), the sink's switch targets are well-kinded. *)
From Coq Require Import List NArith Bool Lia Arith.
From RecordUpdate Require Import RecordSet.
From HV Require Import TokIR.IR TokIR.Interp TokIR.Checks TokIR.LineInv TokIR.Termination.
From HV Require TokIR.Chunk.
Import ListNotations RecordSetNotations.
Local Open Scope N_scope.

Section NoPanic.
Context {S : Type}.
Variable fl : flavour S.
Variable tb : table S.
Variable simd : list N * list N * list N.
Variable ent : list N -> option (N * N).
Variable c1 : N -> option N.
Variable sk : sinkcfg.
Hypothesis Hhtml : f_html fl = true.

Notation M := (mach S (list N)).
Notation fid := (fun q : list N => q).
Notation get_charF := (@get_char S (list N) fq_next fl true).
Notation peekF := (@peek S (list N) fq_peek).
Notation discard_charF := (@discard_char S (list N) fq_next fl true).
Notation discard_wsF := (@discard_ws S (list N) fq_next fl true).
Notation popF := (@pop_except_from S (list N) fq_next fq_peek fq_run1 fl true simd).
Notation eat_bodyF := (@eat_body S (list N) [] fq_next fq_peek (@app N) fid).
Notation eatF := (@eat S (list N) [] fq_next fq_peek (@app N) fid fl true).
Notation do_cmdF := (@do_cmd S (list N) fq_next fl true).
Notation do_termF := (@do_term S (list N) fl sk).
Notation execF := (@exec S (list N) [] fq_next fq_peek (@app N) fid fq_run1 fl true simd sk).
Notation unconsumeF := (@unconsume S (list N) (@app N)).
Notation emit_current_tagF := (@emit_current_tag S (list N) fl sk).

(* ---------------------------------------------------------------- frame: state and pending reference untouched *)
Definition sc (m m' : M) : Prop := vst m' = vst m /\ vcr m' = vcr m.
Lemma sc_refl m : sc m m. Proof. split; reflexivity. Qed.
Lemma sc_trans m1 m2 m3 : sc m1 m2 -> sc m2 m3 -> sc m1 m3.
Proof. intros [A B] [C D]. split; congruence. Qed.
Lemma upd_sc f (m : M) : (forall x, st (f x) = st x /\ cref (f x) = cref x) -> sc m (upd f m).
Proof. intros H. destruct m as [cf q o k]. destruct (H cf) as [A B]. unfold sc, upd, vst, vcr. cbn. auto. Qed.
Lemma took_sc n (m : M) : sc m (took n m). Proof. destruct m; split; reflexivity. Qed.
Lemma setq_sc q (m : M) : sc m (m <| mq := q |>). Proof. destruct m; split; reflexivity. Qed.
Lemma unconsume_sc b (m : M) : sc m (unconsumeF b m). Proof. destruct m; split; reflexivity. Qed.
Lemma cvx_sc (m m' : M) : cvx m' = cvx m -> sc m m'.
Proof. intros H. destruct (cvx_inv _ _ H) as (A & _ & B). split; assumption. Qed.
Lemma cv3_sc (m m' : M) : cv3 m' = cv3 m -> sc m m'.
Proof. intros H. destruct (cv3_inv _ _ H) as (A & _ & B). split; assumption. Qed.
Ltac keeps2 := intros x; destruct x; split; reflexivity.

Lemma get_char_sc (m : M) : sc m (snd (get_charF m)).
Proof. apply cvx_sc. exact (proj1 (get_char_sz fl m)). Qed.
Lemma discard_char_sc (m : M) : sc m (discard_charF m).
Proof.
  unfold discard_char. rewrite Hhtml. destruct (reconsume (mc m)); [apply upd_sc; keeps2|].
  destruct (fq_next (mq m)) as [[c q']|].
  - eapply sc_trans; [eapply sc_trans; [apply setq_sc|apply took_sc]|apply upd_sc; keeps2].
  - apply upd_sc; keeps2.
Qed.
Lemma discard_ws_sc c (m : M) : sc m (discard_wsF c m).
Proof.
  unfold discard_ws.
  assert (H : sc m (upd (fun x => x <| ignore_lf := (c =? CR) |>) (discard_charF m))).
  { eapply sc_trans; [apply discard_char_sc|apply upd_sc; keeps2]. }
  destruct ((c =? CR) || ((c =? LF) && negb (ignore_lf (mc m)))); [|exact H].
  eapply sc_trans; [exact H|apply upd_sc; keeps2].
Qed.
Lemma eat_body_sc a p e (m : M) : sc m (snd (eat_bodyF a p e m)).
Proof. apply cv3_sc. exact (proj1 (eat_body_sz a p e m)). Qed.
Lemma eat_sc a p e (m : M) : sc m (snd (eatF a p e m)).
Proof.
  unfold eat. destruct (ignore_lf (mc m)); [|apply eat_body_sc].
  destruct (peekF m) as [c|].
  - eapply sc_trans; [|apply eat_body_sc]. eapply sc_trans; [|apply upd_sc; keeps2].
    destruct (c =? LF); [|apply sc_refl]. rewrite Hhtml. apply discard_char_sc.
  - destruct a; [|apply sc_refl]. eapply sc_trans; [|apply eat_body_sc]. apply upd_sc; keeps2.
Qed.
Lemma do_cmd_sc k c run (m : M) : sc m (do_cmdF k c run m).
Proof.
  destruct (is_discard k) eqn:Ed.
  - destruct k; try discriminate; cbn [do_cmd]; [apply discard_char_sc|apply discard_ws_sc].
  - destruct (is_tempcmd k) eqn:Et.
    + destruct (do_cmd_temp fl k c run m Et) as [[_ Q] _]. apply cv3_sc; exact Q.
    + destruct (do_cmd_quiet fl Hhtml k c run m Ed Et) as [[_ Q] _]. apply cv3_sc; exact Q.
Qed.

(* ---------------------------------------------------------------- well-kinded states *)
Definition is_fallb (b : body S) : bool := match b with BEnd Fall => true | _ => false end.
(* the table has real arms for the state (not the translator's default for ill-kinded parameter values) *)
Definition wk (s : S) : bool := negb (is_fallb (t_step tb s)) && negb (is_fallb (t_eof tb s)).
(* no arm falls through, every transition target is well-kinded *)
Fixpoint tgt_ok (b : body S) : bool :=
  match b with
  | BRead _ k => tgt_ok k
  | BPop _ _ r c => tgt_ok r && tgt_ok c
  | BEat _ _ y n | BIf _ y n => tgt_ok y && tgt_ok n
  | BCmd _ k => tgt_ok k
  | BEnd Fall => false
  | BEnd (To s) | BEnd (Reconsume s) | BEnd (EmitTag s) | BEnd (EmitKind _ s) | BEnd (EmitPi s) => wk s
  | BEnd _ => true
  end.
Definition is_some {A} (o : option A) : bool := match o with Some _ => true | None => false end.
Definition state_ok (s : S) : bool :=
  implb (wk s) (tgt_ok (t_step tb s) && tgt_ok (t_eof tb s) &&
                implb (starts_charref (t_step tb s) || starts_charref (t_eof tb s)) (is_some (f_charref_emit fl s))).
Hypothesis Hstate : forall s, state_ok s = true.
(* the states the sink may switch to *)
Hypothesis Hdata : wk (f_data fl) = true.
Hypothesis Hplain : wk (f_plaintext fl) = true.
Definition sk_wk : bool :=
  forallb (fun e => match snd e with RespRawData k => wk (f_rawdata fl k) | _ => true end) (sk_resp sk).
Hypothesis Hsk : sk_wk = true.

Lemma lookup_resp_in name : forall l r, lookup_resp name l = Some r -> exists n, In (n, r) l.
Proof.
  induction l as [|[n r0] l IH]; intros r H; cbn in H; [discriminate|].
  destruct (str_eqb n name).
  - injection H as <-. exists n. left; reflexivity.
  - destruct (IH r H) as [n' Hn]. exists n'. right; exact Hn.
Qed.
Lemma sk_raw_wk name k : lookup_resp name (sk_resp sk) = Some (RespRawData k) -> wk (f_rawdata fl k) = true.
Proof.
  intros H. destruct (lookup_resp_in _ _ _ H) as [n Hn]. unfold sk_wk in Hsk. rewrite forallb_forall in Hsk.
  exact (Hsk _ Hn).
Qed.

Definition K (m : M) : Prop := wk (vst m) = true /\ (vcr m <> None -> f_charref_emit fl (vst m) <> None).

Definition ectK (m m' : M) : Prop := wk (vst m) = true -> wk (vst m') = true.
Lemma ect_wk (m : M) : ectK m (fst (emit_current_tagF m)).
Proof.
  unfold emit_current_tag. pose proof (finish_attribute_quiet fl Hhtml m) as [[_ H1] _].
  destruct (cv3_inv _ _ H1) as (I1 & _ & _).
  set (m1 := finish_attribute fl m) in *. clearbody m1. unfold ectK. rewrite <- I1. clear I1 H1. rewrite Hhtml.
  destruct (tag_kind (mc m1)) eqn:Ek;
    destruct (lookup_resp (tag_name (mc m1)) (sk_resp sk)) as [[]|] eqn:El;
    try (destruct (tag_attrs (mc m1)); destruct (tag_self (mc m1)); destruct m1 as [cf q o k0]; destruct cf; cbn; intros X;
         first [exact X|exact Hplain|exact Hdata]).
  pose proof (sk_raw_wk _ _ El) as W.
  destruct m1 as [cf q o k0]; destruct cf; cbn; intros _; exact W.
Qed.

Definition nopanic (r : sres) : Prop := forall n, r <> SPanic n.

Lemma do_term_K t (m : M) : tgt_ok (BEnd t) = true -> wk (vst m) = true ->
  wk (vst (fst (do_termF t m))) = true /\ nopanic (snd (do_termF t m)) /\
  (vcr m = None -> vcr (fst (do_termF t m)) <> None -> vst (fst (do_termF t m)) = vst m /\ starts_charref (BEnd t) = true).
Proof.
  intros Ht Hw.
  assert (Hect : forall m1 : M, wk (vst m1) = true -> vcr m1 = vcr m ->
     wk (vst (fst (emit_current_tagF m1))) = true /\ nopanic (snd (emit_current_tagF m1)) /\
     (vcr m = None -> vcr (fst (emit_current_tagF m1)) <> None -> False)).
  { intros m1 A B. split; [apply ect_wk; exact A|split; [intros n; apply ect_res; exact Hhtml|]].
    intros X Y. destruct (ect_spec fl sk Hhtml m1) as (_ & _ & E & _). congruence. }
  destruct t; cbn [do_term fst snd tgt_ok] in *; try discriminate.
  - repeat split; auto; try discriminate; intros; contradiction.
  - split; [destruct m as [cf q o k]; destruct cf; exact Ht|split; [discriminate|]].
    intros X Y. exfalso. apply Y. destruct m as [cf q o k]; destruct cf; exact X.
  - split; [destruct m as [cf q o k]; destruct cf; exact Ht|split; [discriminate|]].
    intros X Y. exfalso. apply Y. destruct m as [cf q o k]; destruct cf; exact X.
  - split; [destruct m as [cf q o k]; destruct cf; exact Hw|split; [discriminate|]].
    intros _ _. split; [destruct m as [cf q o k]; destruct cf; reflexivity|reflexivity].
  - destruct (Hect (upd (fun x => x <| st := s |>) m)) as (A & B & D).
    + destruct m as [cf q o k]; destruct cf; exact Ht.
    + destruct m as [cf q o k]; destruct cf; reflexivity.
    + split; [exact A|split; [exact B|intros X Y; exfalso; exact (D X Y)]].
  - destruct k; cbn [do_term];
      match goal with |- context [emit_current_tagF ?X] => destruct (Hect X) as (A & B & D) end;
      try (destruct m as [cf q o k0]; destruct cf; first [exact Ht|reflexivity]);
      (split; [exact A|split; [exact B|intros X Y; exfalso; exact (D X Y)]]).
  - split; [destruct m as [cf q o k]; destruct cf; exact Ht|split; [discriminate|]].
    intros X Y. exfalso. apply Y. destruct m as [cf q o k]; destruct cf; exact X.
  - split; [destruct m as [cf q o k]; exact Hw|split; [discriminate|]].
    intros X Y. exfalso. apply Y. destruct m as [cf q o k]; exact X.
Qed.

Lemma exec_K a : forall b c run (m : M), tgt_ok b = true -> wk (vst m) = true ->
  wk (vst (fst (execF a b c run m))) = true /\ nopanic (snd (execF a b c run m)) /\
  (vcr m = None -> vcr (fst (execF a b c run m)) <> None ->
   vst (fst (execF a b c run m)) = vst m /\ starts_charref b = true).
Proof.
  induction b as [rk k IH|set sm krun IHr kchar IHc|p e y IHy n IHn|k y IHy n IHn|k rest IH|t];
    intros c run m Hb Hw; cbn [exec]; cbn [tgt_ok starts_charref] in *.
  - destruct rk.
    + pose proof (get_char_sc m) as [A B]. destruct (get_charF m) as [[c'|] m1]; cbn [fst snd] in *.
      * destruct (IH c' run m1 Hb) as (I1 & I2 & I3); [congruence|]. rewrite A, B in *. auto.
      * split; [congruence|split; [discriminate|]]. intros X Y. congruence.
    + destruct (peekF m); [apply IH; assumption|]. cbn [fst snd]. split; [exact Hw|split; [discriminate|]]. intros X Y. congruence.
  - rewrite pop_exact. apply andb_prop in Hb. destruct Hb as [Hb1 Hb2].
    pose proof (get_char_sc m) as [A B]. destruct (get_charF m) as [[c'|] m1]; cbn [fst snd] in *.
    + destruct (IHc c' run m1 Hb2) as (I1 & I2 & I3); [congruence|]. rewrite A, B in *.
      split; [exact I1|split; [exact I2|]]. intros X Y. destruct (I3 X Y) as [Z1 Z2]. rewrite Z2, orb_true_r. auto.
    + split; [congruence|split; [discriminate|]]. intros X Y. congruence.
  - apply andb_prop in Hb. destruct Hb as [Hb1 Hb2].
    pose proof (eat_sc a p e m) as [A B]. destruct (eatF a p e m) as [[[|]|] m1]; cbn [fst snd] in *.
    + destruct (IHy c run m1 Hb1) as (I1 & I2 & I3); [congruence|]. rewrite A, B in *.
      split; [exact I1|split; [exact I2|]]. intros X Y. destruct (I3 X Y) as [Z1 Z2]. rewrite Z2. auto.
    + destruct (IHn c run m1 Hb2) as (I1 & I2 & I3); [congruence|]. rewrite A, B in *.
      split; [exact I1|split; [exact I2|]]. intros X Y. destruct (I3 X Y) as [Z1 Z2]. rewrite Z2, orb_true_r. auto.
    + split; [congruence|split; [discriminate|]]. intros X Y. congruence.
  - apply andb_prop in Hb. destruct Hb as [Hb1 Hb2]. destruct (ceval_cond sk k c m).
    + destruct (IHy c run m Hb1 Hw) as (I1 & I2 & I3). split; [exact I1|split; [exact I2|]].
      intros X Y. destruct (I3 X Y) as [Z1 Z2]. rewrite Z2. auto.
    + destruct (IHn c run m Hb2 Hw) as (I1 & I2 & I3). split; [exact I1|split; [exact I2|]].
      intros X Y. destruct (I3 X Y) as [Z1 Z2]. rewrite Z2, orb_true_r. auto.
  - pose proof (do_cmd_sc k c run m) as [A B].
    destruct (IH c run (do_cmdF k c run m) Hb) as (I1 & I2 & I3); [congruence|]. rewrite A, B in *. auto.
  - apply do_term_K; assumption.
Qed.

(* ---------------------------------------------------------------- suspension leaves the queue empty *)
Fixpoint noeofb (b : body S) : bool :=
  match b with
  | BRead _ k => noeofb k
  | BPop _ _ r c => noeofb r && noeofb c
  | BEat _ _ y n | BIf _ y n => noeofb y && noeofb n
  | BCmd _ k => noeofb k
  | BEnd Eof => false
  | BEnd _ => true
  end.

Lemma peek_none_q (m : M) : peekF m = None -> mq m = [].
Proof. unfold peek. destruct (reconsume (mc m)); [discriminate|]. destruct (mq m); [reflexivity|discriminate]. Qed.
Lemma get_char_none_q (m : M) : fst (get_charF m) = None -> mq (snd (get_charF m)) = [].
Proof.
  destruct (get_charF m) as [o m'] eqn:E. cbn [fst snd]. intros ->.
  destruct (Chunk.get_char_none fl true m m' E) as [_ Hq ->|_ _ _ ->]; [exact Hq|destruct m; reflexivity].
Qed.
Lemma eat_body_none_q a p e (m : M) : fst (eat_bodyF a p e m) = None -> mq (snd (eat_bodyF a p e m)) = [].
Proof.
  unfold eat_body. fold (Uu m). set (m2 := Uu m). clearbody m2.
  destruct (Qeat fq_peek fid (negb e) p (mq m2)); cbn [fst snd]; try discriminate.
  destruct a; cbn [fst snd]; [discriminate|]. intros _. destruct m2 as [cf q o k]; reflexivity.
Qed.
Lemma eat_none_q a p e (m : M) : fst (eatF a p e m) = None -> mq (snd (eatF a p e m)) = [].
Proof.
  unfold eat. destruct (ignore_lf (mc m)); [|apply eat_body_none_q].
  destruct (peekF m) as [c|] eqn:Hp; [apply eat_body_none_q|].
  destruct a; [apply eat_body_none_q|]. cbn [fst snd]. intros _. apply peek_none_q; exact Hp.
Qed.
Lemma ect_not_susp (m : M) : snd (emit_current_tagF m) <> SSuspend.
Proof.
  unfold emit_current_tag. set (m1 := finish_attribute fl m). clearbody m1. rewrite Hhtml.
  destruct (tag_kind (mc m1));
    destruct (lookup_resp (tag_name (mc m1)) (sk_resp sk)) as [[]|]; cbn [snd]; discriminate.
Qed.
Lemma exec_susp_q a : forall b c run (m : M), noeofb b = true ->
  snd (execF a b c run m) = SSuspend -> mq (fst (execF a b c run m)) = [].
Proof.
  induction b as [rk k IH|set sm krun IHr kchar IHc|p e y IHy n IHn|k y IHy n IHn|k rest IH|t];
    intros c run m Hb; cbn [exec]; cbn [noeofb] in Hb.
  - destruct rk.
    + pose proof (get_char_none_q m) as G. destruct (get_charF m) as [[c'|] m1]; cbn [fst snd] in *; [apply IH; exact Hb|auto].
    + destruct (peekF m) eqn:Hp; [apply IH; exact Hb|]. cbn [fst snd]. intros _. apply peek_none_q; exact Hp.
  - rewrite pop_exact. apply andb_prop in Hb. destruct Hb as [Hb1 Hb2].
    pose proof (get_char_none_q m) as G. destruct (get_charF m) as [[c'|] m1]; cbn [fst snd] in *; [apply IHc; exact Hb2|auto].
  - apply andb_prop in Hb. destruct Hb as [Hb1 Hb2].
    pose proof (eat_none_q a p e m) as G. destruct (eatF a p e m) as [[[|]|] m1]; cbn [fst snd] in *;
      [apply IHy; exact Hb1|apply IHn; exact Hb2|auto].
  - apply andb_prop in Hb. destruct Hb as [Hb1 Hb2]. destruct (ceval_cond sk k c m); [apply IHy|apply IHn]; assumption.
  - apply IH; exact Hb.
  - destruct t; cbn [do_term fst snd]; try discriminate; try (intros X; exfalso; exact (ect_not_susp _ X)).
    destruct k; cbn [do_term]; intros X; exfalso; exact (ect_not_susp _ X).
Qed.

(* ---------------------------------------------------------------- character references never hit the panic arm *)
Notation process_char_refF := (@process_char_ref S (list N) fl).
Lemma pcr_bad chars (m : M) : f_charref_emit fl (vst m) <> None -> snd (process_char_refF chars m) = false.
Proof.
  intros H. unfold process_char_ref.
  set (cs := match chars with [] => [38] | _ => chars end). clearbody cs.
  assert (G0 : forall l (m0 : M), vst m0 = vst m ->
    snd (fold_left (fun '(m1, bad) c =>
               match f_charref_emit fl (st (mc m1)) with
               | Some false => (emit_char fl c m1, bad)
               | Some true => (upd (fun x => x <| attr_value ::= (fun s => s ++ [c]) |>) m1, bad)
               | None => (m1, true)
               end) l (m0, false)) = false).
  { induction l as [|c l IH]; intros m0 E; cbn [fold_left snd]; [reflexivity|].
    fold (vst m0). rewrite E. destruct (f_charref_emit fl (vst m)) as [[|]|]; [| |congruence]; apply IH.
    - rewrite <- E. destruct m0 as [cf q o k]; destruct cf; reflexivity.
    - rewrite <- E. pose proof (emit_char_quiet fl Hhtml c m0) as [[_ Q] _]. apply (cv3_inv _ _ Q). }
  apply G0. reflexivity.
Qed.

(* ---------------------------------------------------------------- step, run *)
Variable clean : S -> bool.
Variable rank : S -> nat.
Variable R : nat.
Variable D : nat.
Hypothesis Hrank : forall s, (rank s <= R)%nat.
Hypothesis Hec : forall s, eatS tb s = true -> clean s = true.
Hypothesis Hstart : forall s, start_ok tb clean s = true.
Hypothesis Hprog : forall s, pchk rank s false (t_step tb s) = true.
Hypothesis Heof : forall s, eof_ok (t_eof tb s) = true.
Hypothesis Hnotag : forall s, notag (t_eof tb s) = true.
Hypothesis Hdepth : forall s, edepth tb D s = true.
Hypothesis Hnoeof : forall s, noeofb (t_step tb s) = true.

Notation cr_stepF := (@cr_step S (list N) fq_next fq_peek (@app N) fl true ent c1).
Notation cr_eofF := (@cr_eof S (list N) (@app N) fl c1).
Notation stepF := (@step S (list N) [] fq_next fq_peek (@app N) fid fq_run1 fl true tb simd ent c1 sk).
Notation runF := (@run S (list N) [] fq_next fq_peek (@app N) fid fq_run1 fl true tb simd ent c1 sk).
Notation eof_loopF := (@eof_loop S (list N) [] fq_next fq_peek (@app N) fid fq_run1 fl true tb simd sk).
Notation tok_endF := (@tok_end S (list N) [] fq_next fq_peek (@app N) fid fq_run1 fl true tb simd ent c1 sk).
Notation feedF := (@feed S (list N) [] fq_next fq_peek (@app N) fid fq_run1 fl true tb simd ent c1 sk).
Notation feed_loopF := (@feed_loop S (list N) [] fq_next fq_peek (@app N) fid fq_run1 fl true tb simd ent c1 sk).
Notation driveF := (@drive S (list N) [] fq_next fq_peek (@app N) (@app N) fid fq_run1 fl true tb simd ent c1 sk).
Notation TIc := (TI tb clean).
Notation Tlc := (Tl tb).
Notation bound := (run_bound R).

Lemma state_ok_use s : wk s = true ->
  tgt_ok (t_step tb s) = true /\ tgt_ok (t_eof tb s) = true /\
  (starts_charref (t_step tb s) = true -> f_charref_emit fl s <> None).
Proof.
  intros Hw. pose proof (Hstate s) as H. unfold state_ok in H. rewrite Hw in H. cbn [implb] in H.
  apply andb_prop in H. destruct H as [H H3]. apply andb_prop in H. destruct H as [H1 H2].
  split; [exact H1|split; [exact H2|]]. intros X. rewrite X in H3. cbn in H3.
  destruct (f_charref_emit fl s); [discriminate|discriminate H3].
Qed.

Lemma cr_step_stuck_q cr (m : M) : fst (cr_stepF cr m) = CrStuck -> mq (snd (cr_stepF cr m)) = [].
Proof.
  unfold cr_step, cr_read.
  destruct (cr_st cr); (destruct (peekF m) as [c|] eqn:Hp; [|cbn [fst snd]; intros _; apply peek_none_q; exact Hp]).
  - rewrite Hhtml. destruct (is_alnum c); [discriminate|]. destruct (c =? 35); discriminate.
  - destruct ((c =? 120) || (c =? 88)); discriminate.
  - destruct (to_digit base c); [discriminate|]. destruct (negb (cr_seen cr)); discriminate.
  - destruct (finish_numeric c1 cr _). discriminate.
  - destruct (ent _) as [[a b]|]; [discriminate|].
    match goal with |- context [finish_named ?A ?B ?C ?D ?E] =>
      pose proof (finish_named_sz fl Hhtml C D E) as [_ F]; destruct (finish_named A B C D E) as [[|?|?] ?] end;
      cbn [fst snd] in *; [contradiction|discriminate|discriminate].
  - destruct (is_alnum c); [discriminate|]. discriminate.
Qed.

Lemma step_K a (m : M) : TIc m -> K m ->
  K (fst (stepF a m)) /\ nopanic (snd (stepF a m)) /\ (snd (stepF a m) = SSuspend -> mq (fst (stepF a m)) = []).
Proof.
  intros HI [Kw Kc]. unfold step. fold (vcr m). fold (vst m).
  destruct (state_ok_use _ Kw) as (S1 & S2 & S3).
  destruct (vcr m) as [cr|] eqn:Ecr.
  - pose proof HI as (HR & _ & _).
    assert (Hr : vrc m = false).
    { destruct (vrc m) eqn:E; [|reflexivity]. destruct (HR eq_refl) as [_ G0]. congruence. }
    assert (Hce : f_charref_emit fl (vst m) <> None) by (apply Kc; discriminate).
    pose proof (cr_step_sz fl ent c1 Hhtml cr m Hr) as [A _]. destruct (cv_inv _ _ A) as (A1 & A2 & A3 & A4).
    pose proof (cr_step_stuck_q cr m) as Hq.
    destruct (cr_stepF cr m) as [[|cr'|chars] m1]; cbn [fst snd] in *.
    + split; [split; [congruence|intros _; congruence]|split; [discriminate|intros _; auto]].
    + split; [|split; [discriminate|discriminate]].
      split; [destruct m1 as [cf q o k]; destruct cf; unfold vst in *; cbn in *; congruence|].
      intros _. destruct m1 as [cf q o k]; destruct cf; unfold vst in *; cbn in *; congruence.
    + pose proof (pcr_bad chars m1) as Hb. rewrite A1 in Hb. specialize (Hb Hce).
      pose proof (pcr_quiet fl Hhtml chars m1) as Q. pose proof (quiet_cv _ _ Q) as Q2.
      destruct (cv_inv _ _ Q2) as (Q3 & _).
      destruct (process_char_ref fl chars m1) as [m2 bad]. cbn [fst snd] in *. subst bad.
      split; [|split; [discriminate|discriminate]].
      split; [destruct m2 as [cf q o k]; destruct cf; unfold vst in *; cbn in *; congruence|].
      intros X. exfalso. apply X. destruct m2 as [cf q o k]; destruct cf; reflexivity.
  - destruct (exec_K a (t_step tb (vst m)) 0 [] m S1 Kw) as (E1 & E2 & E3).
    pose proof (exec_susp_q a (t_step tb (vst m)) 0 [] m (Hnoeof _)) as E4.
    split; [|split; [exact E2|exact E4]]. split; [exact E1|].
    intros X. destruct (E3 Ecr X) as [Y1 Y2]. rewrite Y1. apply S3. exact Y2.
Qed.

Definition fine (r : sres) : Prop := r = SSuspend \/ r = SScript \/ r = SEncoding.

Lemma run_K a : forall fuel (m : M), TIc m -> K m ->
  K (fst (runF a fuel m)) /\ (forall n, snd (runF a fuel m) = SPanic n -> n = 98) /\
  snd (runF a fuel m) <> SContinue /\ (snd (runF a fuel m) = SSuspend -> mq (fst (runF a fuel m)) = []).
Proof.
  induction fuel as [|f IH]; intros m HI HK; cbn [run].
  - cbn [fst snd]. split; [exact HK|split; [intros n X; congruence|split; discriminate]].
  - pose proof (step_K a m HI HK) as (S1 & S2 & S3).
    pose proof (step_term fl tb simd ent c1 sk Hhtml clean rank R Hrank Hec Hstart Hprog a m HI) as (P1 & _).
    destruct (stepF a m) as [m1 r]. cbn [fst snd] in *.
    destruct r; try (cbn [fst snd]; split; [exact S1|split; [intros n X; exfalso; exact (S2 n X)|split; [discriminate|first [exact S3|discriminate]]]]).
    apply IH; assumption.
Qed.

Lemma run_total a fuel (m : M) : TIc m -> K m -> (bound (Tlc m) <= fuel)%nat ->
  TIc (fst (runF a fuel m)) /\ K (fst (runF a fuel m)) /\ (Tlc (fst (runF a fuel m)) <= Tlc m)%nat /\
  fine (snd (runF a fuel m)) /\ (snd (runF a fuel m) = SSuspend -> mq (fst (runF a fuel m)) = []).
Proof.
  intros HI HK Hf.
  destruct (run_terminates fl tb simd ent c1 sk Hhtml clean rank R Hrank Hec Hstart Hprog a fuel m HI Hf) as (T1 & T2 & T3 & _).
  destruct (run_K a fuel m HI HK) as (K1 & K2 & K3 & K4).
  split; [exact T1|split; [exact K1|split; [exact T2|split; [|exact K4]]]].
  unfold fine. destruct (snd (runF a fuel m)); auto; try congruence.
  exfalso. apply T3. f_equal. apply K2. reflexivity.
Qed.

(* ---------------------------------------------------------------- a sink that never pauses the tokenizer *)
Definition sk_quiet : bool :=
  forallb (fun e => match snd e with RespScript | RespEncoding => false | _ => true end) (sk_resp sk).
Definition noscript (r : sres) : Prop := r <> SScript /\ r <> SEncoding.
Lemma ect_quiet (m : M) : sk_quiet = true -> noscript (snd (emit_current_tagF m)).
Proof.
  intros Hq. unfold emit_current_tag. set (m1 := finish_attribute fl m). clearbody m1. rewrite Hhtml.
  destruct (lookup_resp (tag_name (mc m1)) (sk_resp sk)) as [r|] eqn:El.
  - destruct (lookup_resp_in _ _ _ El) as [n Hn]. unfold sk_quiet in Hq. rewrite forallb_forall in Hq.
    specialize (Hq _ Hn). cbn in Hq. destruct (tag_kind (mc m1)); destruct r; try discriminate Hq; cbn [snd]; split; discriminate.
  - destruct (tag_kind (mc m1)); cbn [snd]; split; discriminate.
Qed.
Lemma exec_quiet a : sk_quiet = true -> forall b c run (m : M), noscript (snd (execF a b c run m)).
Proof.
  intros Hq. induction b as [rk k IH|set sm krun IHr kchar IHc|p e y IHy n IHn|k y IHy n IHn|k rest IH|t]; intros c run m; cbn [exec].
  - destruct rk.
    + destruct (get_charF m) as [[c'|] m1]; [apply IH|split; discriminate].
    + destruct (peekF m); [apply IH|split; discriminate].
  - destruct (popF set sm m) as [[|c'|r] m1]; [split; discriminate|apply IHc|apply IHr].
  - destruct (eatF a p e m) as [[[|]|] m1]; [apply IHy|apply IHn|split; discriminate].
  - destruct (ceval_cond sk k c m); [apply IHy|apply IHn].
  - apply IH.
  - destruct t; cbn [do_term snd]; try (split; discriminate); try (apply ect_quiet; exact Hq).
    destruct k; cbn [do_term]; apply ect_quiet; exact Hq.
Qed.
Lemma step_quiet a (m : M) : sk_quiet = true -> noscript (snd (stepF a m)).
Proof.
  intros Hq. unfold step. destruct (cref (mc m)) as [cr|]; [|apply exec_quiet; exact Hq].
  destruct (cr_stepF cr m) as [[|cr'|chars] m1]; cbn [snd]; try (split; discriminate).
  destruct (process_char_ref fl chars m1) as [m2 bad]. cbn [snd]. destruct bad; split; discriminate.
Qed.
Lemma run_quiet a : sk_quiet = true -> forall fuel (m : M), noscript (snd (runF a fuel m)).
Proof.
  intros Hq. induction fuel as [|f IH]; intros m; cbn [run]; [split; discriminate|].
  pose proof (step_quiet a m Hq) as G. destruct (stepF a m) as [m1 r]. cbn [snd] in G.
  destruct r; try exact G. apply IH.
Qed.

(* ---------------------------------------------------------------- end() *)
Lemma do_term_noscript t (m : M) : notag (BEnd t) = true ->
  snd (do_termF t m) <> SScript /\ snd (do_termF t m) <> SEncoding.
Proof. destruct t; cbn [notag do_term snd]; intros H; try discriminate H; split; discriminate. Qed.
Lemma exec_eof_noscript a : forall b c run (m : M), eof_ok b = true -> notag b = true ->
  snd (execF a b c run m) <> SScript /\ snd (execF a b c run m) <> SEncoding.
Proof.
  induction b as [rk k IH|set sm krun IHr kchar IHc|p e y IHy n IHn|k y IHy n IHn|k rest IH|t];
    intros c run m Hb Hn; cbn [eof_ok] in Hb; try discriminate; cbn [exec]; cbn [notag] in Hn.
  - apply andb_prop in Hb. destruct Hb as [Hb1 Hb2]. apply andb_prop in Hn. destruct Hn as [Hn1 Hn2].
    destruct (ceval_cond sk k c m); [apply IHy|apply IHn]; assumption.
  - apply andb_prop in Hb. destruct Hb as [_ Hb2]. apply IH; assumption.
  - apply do_term_noscript; exact Hn.
Qed.

Lemma eof_loop_total : forall n fuel (m : M), wk (vst m) = true -> edepth tb n (vst m) = true -> (n <= fuel)%nat ->
  snd (eof_loopF fuel m) = SSuspend.
Proof.
  induction n as [|n IH]; intros fuel m Hw Hd Hf; [discriminate|]. destruct fuel as [|f]; [lia|].
  cbn [edepth] in Hd. cbn [eof_loop]. fold (vst m).
  destruct (state_ok_use _ Hw) as (_ & S2 & _).
  destruct (exec_K true (t_eof tb (vst m)) 0 [] m S2 Hw) as (E1 & E2 & _).
  pose proof (exec_eof_noscript true (t_eof tb (vst m)) 0 [] m (Heof _) (Hnotag _)) as [N1 N2].
  pose proof (exec_eof_succ fl simd sk Hhtml true (t_eof tb (vst m)) 0 [] m (Heof _) (Hnotag _)) as Hs.
  destruct (execF true (t_eof tb (vst m)) 0 [] m) as [m1 r]. cbn [fst snd] in *.
  destruct r; try congruence; try (exfalso; exact (E2 _ eq_refl)); [|reflexivity].
  apply IH; [exact E1| |lia]. rewrite forallb_forall in Hd. apply Hd. apply Hs. reflexivity.
Qed.

Definition end_ok (r : sres) : Prop := r = SSuspend \/ r = SPanic 4.

Theorem tok_end_total fuel (m : M) : TIc m -> K m -> (bound (Tlc m) <= fuel)%nat -> (D <= fuel)%nat ->
  end_ok (snd (tok_endF fuel m)) /\ (sk_quiet = true -> snd (tok_endF fuel m) = SSuspend).
Proof.
  intros HI [Kw Kc] Hf HD. unfold tok_end.
  set (m0 := m <| mq := [] |>).
  assert (E0 : cv m0 = cv m /\ qn m0 = 0%nat) by (subst m0; destruct m as [cf q o k]; split; reflexivity).
  destruct E0 as [E0 E0q].
  assert (H1 : forall r : M * bool, r = (match cref (mc m0) with
                 | None => (m0, false)
                 | Some cr => let '(chars, m') := cr_eofF cr (upd (fun x => x <| cref := None |>) m0) in
                              process_char_ref fl chars m' end) ->
               TIc (fst r) /\ K (fst r) /\ (Tlc (fst r) <= Tlc m)%nat /\ snd r = false).
  { intros r ->. destruct (vcr m) as [cr|] eqn:Ecr.
    - replace (cref (mc m0)) with (Some cr) by (subst m0; destruct m as [cf q o k]; symmetry; exact Ecr).
      pose proof HI as (HR & HT & HC).
      assert (He : eatS tb (vst m) = false) by (apply HC; rewrite Ecr; discriminate).
      assert (Hr : vrc m = false).
      { destruct (vrc m) eqn:E; [|reflexivity]. destruct (HR eq_refl) as [_ G0]. congruence. }
      assert (Hce : f_charref_emit fl (vst m) <> None) by (apply Kc; discriminate).
      set (m0' := upd (fun x => x <| cref := None |>) m0).
      assert (E : qn m0' = 0%nat /\ vst m0' = vst m /\ vrc m0' = vrc m /\ vtmp m0' = vtmp m /\ vcr m0' = None)
        by (subst m0' m0; destruct m as [cf q o k]; destruct cf; repeat split).
      destruct E as (E1 & E2 & E3 & E4 & E5).
      destruct (cr_eof_sz fl c1 Hhtml cr m0') as [F1 F2]. destruct (cv_inv _ _ F1) as (G1 & G2 & G3 & G4).
      destruct (cr_eofF cr m0') as [chars m1]. cbn [snd] in *.
      pose proof (pcr_bad chars m1) as Hb. rewrite G1, E2 in Hb. specialize (Hb Hce).
      pose proof (pcr_quiet fl Hhtml chars m1) as Q. destruct (quiet_sz _ _ Q) as [Q1 Q2].
      destruct (cv_inv _ _ Q2) as (Q3 & Q4 & Q5 & Q6).
      destruct (process_char_ref fl chars m1) as [m2 bad]. cbn [fst snd] in *.
      assert (Hc' : clean (vst m2) = true -> vtmp m2 = []).
      { rewrite Q3, Q5, G1, G3, E2, E4. intros X. apply HT; assumption. }
      assert (Hr2 : vrc m2 = false) by congruence. assert (Hcr2 : vcr m2 = None) by congruence.
      destruct (fin tb clean rank R Hec m2 Hr2 Hcr2 Hc') as (I1 & I2 & _).
      split; [exact I1|split; [|split; [|exact Hb]]].
      + split; [congruence|intros X; congruence].
      + rewrite I2. unfold Tl, wn. rewrite Ecr. lia.
    - replace (cref (mc m0)) with (@None crt) by (subst m0; destruct m as [cf q o k]; symmetry; exact Ecr).
      cbn [fst snd]. destruct (cv_inv _ _ E0) as (Z1 & _ & _ & Z4).
      split; [eapply TI_same; eassumption|split; [|split; [rewrite (Tl_same _ _ _ E0); lia|reflexivity]]].
      split; [congruence|intros X; congruence]. }
  specialize (H1 _ eq_refl).
  destruct (match cref (mc m0) with
            | None => (m0, false)
            | Some cr => let '(chars, m') := cr_eofF cr (upd (fun x => x <| cref := None |>) m0) in
                         process_char_ref fl chars m' end) as [m1 bad].
  cbn [fst snd] in H1. destruct H1 as (H1 & H1k & H1' & ->).
  assert (Hf1 : (bound (Tlc m1) <= fuel)%nat) by (pose proof (run_bound_mono R _ _ H1'); lia).
  pose proof (run_total true fuel m1 H1 H1k Hf1) as (R1 & R2 & R3 & R4 & R5).
  pose proof (fun Hq => run_quiet true Hq fuel m1) as RQ.
  destruct (runF true fuel m1) as [m3 r]. cbn [fst snd] in *.
  destruct R4 as [->|[->| ->]];
    try (rewrite Hhtml; cbn [snd]; split; [right; reflexivity|intros Hq; destruct (RQ Hq) as [Q1 Q2]; congruence]).
  rewrite (R5 eq_refl). cbn [fq_peek].
  assert (G : snd (eof_loopF fuel m3) = SSuspend) by (apply (eof_loop_total D); [apply R2|apply Hdepth|exact HD]).
  split; [left; exact G|intros _; exact G].
Qed.

(* ---------------------------------------------------------------- feed, driver *)
Lemma feed_total fuel (m : M) : TIc m -> K m -> (bound (Tlc m) <= fuel)%nat ->
  TIc (fst (feedF fuel m)) /\ K (fst (feedF fuel m)) /\ (Tlc (fst (feedF fuel m)) <= Tlc m)%nat /\ fine (snd (feedF fuel m)).
Proof.
  intros HI HK Hf. unfold feed. destruct (fq_peek (mq m)) as [c|] eqn:Hp;
    [|cbn [fst snd]; split; [exact HI|split; [exact HK|split; [lia|left; reflexivity]]]].
  match goal with |- context [runF false fuel ?X] => set (m1 := X) end.
  assert (E : cv m1 = cv m /\ (qn m1 <= qn m)%nat).
  { subst m1. destruct (discard_bom (mc m)); [|split; [reflexivity|lia]].
    destruct (c =? BOM); [|destruct m as [cf q o k]; destruct cf; split; [reflexivity|unfold qn; cbn; lia]].
    destruct m as [cf q o k]; destruct q as [|d q']; [discriminate Hp|]. destruct cf; split; [reflexivity|unfold qn; cbn; lia]. }
  destruct E as [E1 E2].
  assert (H1 : TIc m1) by (eapply TI_same; eassumption).
  assert (H1k : K m1) by (destruct HK as [A B]; destruct (cv_inv _ _ E1) as (Z1 & _ & _ & Z4); split; [congruence|intros X; rewrite Z1; apply B; congruence]).
  assert (H2 : (Tlc m1 <= Tlc m)%nat) by (rewrite (Tl_same _ _ _ E1); lia).
  assert (Hf1 : (bound (Tlc m1) <= fuel)%nat) by (pose proof (run_bound_mono R _ _ H2); lia).
  pose proof (run_total false fuel m1 H1 H1k Hf1) as (R1 & R2 & R3 & R4 & _).
  split; [exact R1|split; [exact R2|split; [lia|exact R4]]].
Qed.

(* ALL INPUT IS CONSUMED: when feed() answers "done" (TokenizerResult::Done) the queue is empty - whatever the tokenizer
   still holds back (an eat() look-ahead, a pending character reference) lives in its own buffers, not in the input *)
Lemma feed_consumes fuel (m : M) : TIc m -> K m -> (bound (Tlc m) <= fuel)%nat ->
  snd (feedF fuel m) = SSuspend -> mq (fst (feedF fuel m)) = [].
Proof.
  intros HI HK Hf. unfold feed. destruct (fq_peek (mq m)) as [c|] eqn:Hp.
  2:{ cbn [fst snd]. intros _. destruct (mq m); [reflexivity|discriminate Hp]. }
  match goal with |- context [runF false fuel ?X] => set (m1 := X) end.
  assert (E : cv m1 = cv m /\ (qn m1 <= qn m)%nat).
  { subst m1. destruct (discard_bom (mc m)); [|split; [reflexivity|lia]].
    destruct (c =? BOM); [|destruct m as [cf q o k]; destruct cf; split; [reflexivity|unfold qn; cbn; lia]].
    destruct m as [cf q o k]; destruct q as [|d q']; [discriminate Hp|]. destruct cf; split; [reflexivity|unfold qn; cbn; lia]. }
  destruct E as [E1 E2].
  assert (H1 : TIc m1) by (eapply TI_same; eassumption).
  assert (H1k : K m1) by (destruct HK as [A B]; destruct (cv_inv _ _ E1) as (Z1 & _ & _ & Z4); split; [congruence|intros X; rewrite Z1; apply B; congruence]).
  assert (H2 : (Tlc m1 <= Tlc m)%nat) by (rewrite (Tl_same _ _ _ E1); lia).
  assert (Hf1 : (bound (Tlc m1) <= fuel)%nat) by (pose proof (run_bound_mono R _ _ H2); lia).
  pose proof (run_total false fuel m1 H1 H1k Hf1) as (_ & _ & _ & _ & R5). exact R5.
Qed.

(* a log entry of a feed loop: done, script pause, encoding indicator, or the driver's pause limit *)
Definition feed_ok (r : sres) : Prop := fine r \/ r = SPanic 96.

Lemma feed_loop_total fuel inj : forall n (m : M) log, TIc m -> K m -> (bound (Tlc m + n * length inj) <= fuel)%nat ->
  Forall feed_ok log ->
  TIc (fst (feed_loopF n fuel inj m log)) /\ K (fst (feed_loopF n fuel inj m log)) /\
  (Tlc (fst (feed_loopF n fuel inj m log)) <= Tlc m + n * length inj)%nat /\
  Forall feed_ok (snd (feed_loopF n fuel inj m log)).
Proof.
  induction n as [|n IH]; intros m log HI HK Hf HL; cbn [feed_loop].
  - cbn [fst snd]. split; [exact HI|split; [exact HK|split; [lia|constructor; [right; reflexivity|exact HL]]]].
  - assert (Hf0 : (bound (Tlc m) <= fuel)%nat).
    { pose proof (run_bound_mono R (Tlc m) (Tlc m + Datatypes.S n * length inj) ltac:(lia)). lia. }
    destruct (feed_total fuel m HI HK Hf0) as (F1 & F1k & F2 & F3). destruct (feedF fuel m) as [m1 r]. cbn [fst snd] in *.
    destruct F3 as [->|[->| ->]].
    + cbn [fst snd]. split; [exact F1|split; [exact F1k|split; [lia|constructor; [left; left; reflexivity|exact HL]]]].
    + set (m2 := m1 <| mq ::= app inj |>).
      assert (E : cv m2 = cv m1 /\ qn m2 = (length inj + qn m1)%nat)
        by (subst m2; destruct m1 as [cf q o k]; split; [reflexivity|unfold qn; cbn; rewrite app_length; lia]).
      destruct E as [E1 E2].
      assert (H1 : TIc m2) by (eapply TI_same; eassumption).
      assert (H1k : K m2) by (destruct F1k as [A B]; destruct (cv_inv _ _ E1) as (Z1 & _ & _ & Z4); split; [congruence|intros X; rewrite Z1; apply B; congruence]).
      assert (H2 : Tlc m2 = (Tlc m1 + length inj)%nat) by (rewrite (Tl_same _ _ _ E1); lia).
      assert (Hf2 : (bound (Tlc m2 + n * length inj) <= fuel)%nat).
      { pose proof (run_bound_mono R (Tlc m2 + n * length inj) (Tlc m + Datatypes.S n * length inj) ltac:(lia)). lia. }
      destruct (IH m2 (SScript :: log) H1 H1k Hf2) as (I1 & I1k & I2 & I3); [constructor; [left; right; left; reflexivity|exact HL]|].
      split; [exact I1|split; [exact I1k|split; [lia|exact I3]]].
    + assert (Hf2 : (bound (Tlc m1 + n * length inj) <= fuel)%nat).
      { pose proof (run_bound_mono R (Tlc m1 + n * length inj) (Tlc m + Datatypes.S n * length inj) ltac:(lia)). lia. }
      destruct (IH m1 (SEncoding :: log) F1 F1k Hf2) as (I1 & I1k & I2 & I3); [constructor; [left; right; right; reflexivity|exact HL]|].
      split; [exact I1|split; [exact I1k|split; [lia|exact I3]]].
Qed.

(* the same for the driver's feed loop (script pauses with injected text in between): when its last answer is "done" the
   queue is empty *)
Lemma feed_loop_consumes fuel inj : forall n (m : M) log, TIc m -> K m -> (bound (Tlc m + n * length inj) <= fuel)%nat ->
  hd (SPanic 0) (snd (feed_loopF n fuel inj m log)) = SSuspend ->
  mq (fst (feed_loopF n fuel inj m log)) = [].
Proof.
  induction n as [|n IH]; intros m log HI HK Hf; cbn [feed_loop]; [cbn [snd hd]; discriminate|].
  assert (Hf0 : (bound (Tlc m) <= fuel)%nat) by (pose proof (run_bound_mono R (Tlc m) (Tlc m + Datatypes.S n * length inj) ltac:(lia)); lia).
  pose proof (feed_total fuel m HI HK Hf0) as (F1 & F1k & F2 & F3).
  pose proof (feed_consumes fuel m HI HK Hf0) as FC.
  destruct (feedF fuel m) as [m1 r]. cbn [fst snd] in *.
  destruct r; try (cbn [fst snd hd]; intros X; first [exact (FC X)|discriminate X]).
  - (* script pause: inject and go on *)
    set (m2 := m1 <| mq ::= app inj |>).
    assert (E : cv m2 = cv m1 /\ qn m2 = (length inj + qn m1)%nat)
      by (subst m2; destruct m1 as [cf q o k]; split; [reflexivity|unfold qn; cbn; rewrite app_length; lia]).
    destruct E as [E1 E2].
    assert (H2 : TIc m2) by (eapply TI_same; eassumption).
    assert (H2k : K m2) by (destruct F1k as [A B]; destruct (cv_inv _ _ E1) as (Z1 & _ & _ & Z4); split; [congruence|intros X; rewrite Z1; apply B; congruence]).
    assert (H3 : Tlc m2 = (Tlc m1 + length inj)%nat) by (rewrite (Tl_same _ _ _ E1); lia).
    intros X. apply (IH m2 (SScript :: log) H2 H2k); [|exact X].
    pose proof (run_bound_mono R (Tlc m2 + n * length inj) (Tlc m + Datatypes.S n * length inj) ltac:(lia)). lia.
  - intros X. apply (IH m1 (SEncoding :: log) F1 F1k); [|exact X].
    pose proof (run_bound_mono R (Tlc m1 + n * length inj) (Tlc m + Datatypes.S n * length inj) ltac:(lia)). lia.
Qed.


(* the log of the driver: the answer of end() first, then the feed entries *)
Definition log_ok (log : list sres) : Prop := exists r rest, log = r :: rest /\ end_ok r /\ Forall feed_ok rest.

Theorem drive_total_ok fuel inj : forall chunks (m : M) log, TIc m -> K m ->
  (bound (drive_total tb inj chunks m) <= fuel)%nat -> (D <= fuel)%nat -> Forall feed_ok log ->
  log_ok (snd (driveF fuel inj chunks m log)).
Proof.
  induction chunks as [|ch rest IH]; intros m log HI HK Hf HD HL; cbn [drive].
  - unfold drive_total in Hf. cbn in Hf.
    assert (Hf0 : (bound (Tlc m) <= fuel)%nat) by (pose proof (run_bound_mono R (Tlc m) (Tlc m + 0 + 0) ltac:(lia)); lia).
    pose proof (tok_end_total fuel m HI HK Hf0 HD) as [H _]. destruct (tok_endF fuel m) as [m' r]. cbn [snd] in *.
    exists r, log. auto.
  - set (m1 := m <| mq ::= (fun q => q ++ ch) |>).
    assert (E : cv m1 = cv m /\ qn m1 = (qn m + length ch)%nat)
      by (subst m1; destruct m as [cf q o k]; split; [reflexivity|unfold qn; cbn; rewrite app_length; lia]).
    destruct E as [E1 E2].
    assert (H1 : TIc m1) by (eapply TI_same; eassumption).
    assert (H1k : K m1) by (destruct HK as [A B]; destruct (cv_inv _ _ E1) as (Z1 & _ & _ & Z4); split; [congruence|intros X; rewrite Z1; apply B; congruence]).
    assert (H2 : Tlc m1 = (Tlc m + length ch)%nat) by (rewrite (Tl_same _ _ _ E1); lia).
    unfold drive_total in Hf. cbn [concat length] in Hf. rewrite app_length in Hf.
    assert (Hf1 : (bound (Tlc m1 + 50 * length inj) <= fuel)%nat).
    { pose proof (run_bound_mono R (Tlc m1 + 50 * length inj)
                    (Tlc m + (length ch + length (concat rest)) + Datatypes.S (length rest) * (50 * length inj)) ltac:(lia)). lia. }
    destruct (feed_loop_total fuel inj 50 m1 log H1 H1k Hf1 HL) as (F1 & F1k & F2 & F3).
    destruct (feed_loopF 50 fuel inj m1 log) as [m2 log2]. cbn [fst snd] in *.
    apply IH; auto. unfold drive_total.
    pose proof (run_bound_mono R (Tlc m2 + length (concat rest) + length rest * (50 * length inj))
                  (Tlc m + (length ch + length (concat rest)) + Datatypes.S (length rest) * (50 * length inj)) ltac:(lia)). lia.
Qed.

Lemma K_init s0 last q o k : wk s0 = true -> K (mkmach (init_cfg s0 last false) q o k).
Proof. intros H. split; [exact H|intros X; exfalso; apply X; reflexivity]. Qed.

(* with a sink that never answers Script / EncodingIndicator every feed is done at once and end() succeeds: the log
   consists of "done" entries only *)
Lemma feed_loop_quiet fuel inj n (m : M) log : sk_quiet = true -> TIc m -> K m -> (bound (Tlc m) <= fuel)%nat ->
  TIc (fst (feed_loopF (Datatypes.S n) fuel inj m log)) /\ K (fst (feed_loopF (Datatypes.S n) fuel inj m log)) /\
  (Tlc (fst (feed_loopF (Datatypes.S n) fuel inj m log)) <= Tlc m)%nat /\
  snd (feed_loopF (Datatypes.S n) fuel inj m log) = SSuspend :: log.
Proof.
  intros Hq HI HK Hf. cbn [feed_loop].
  destruct (feed_total fuel m HI HK Hf) as (F1 & F1k & F2 & F3).
  assert (NQ : noscript (snd (feedF fuel m))).
  { unfold feed. destruct (fq_peek (mq m)); [apply run_quiet; exact Hq|split; discriminate]. }
  destruct (feedF fuel m) as [m1 r]. cbn [fst snd] in *. destruct NQ as [N1 N2].
  destruct F3 as [->|[->| ->]]; try congruence. cbn [fst snd]. auto.
Qed.

Theorem drive_quiet fuel inj : sk_quiet = true -> forall chunks (m : M) log, TIc m -> K m ->
  (bound (Tlc m + length (concat chunks)) <= fuel)%nat -> (D <= fuel)%nat -> Forall (eq SSuspend) log ->
  Forall (eq SSuspend) (snd (driveF fuel inj chunks m log)).
Proof.
  intros Hq. induction chunks as [|ch rest IH]; intros m log HI HK Hf HD HL; cbn [drive].
  - cbn in Hf. assert (Hf0 : (bound (Tlc m) <= fuel)%nat) by (pose proof (run_bound_mono R (Tlc m) (Tlc m + 0) ltac:(lia)); lia).
    pose proof (tok_end_total fuel m HI HK Hf0 HD) as [_ H]. specialize (H Hq).
    destruct (tok_endF fuel m) as [m' r]. cbn [snd] in *. subst r. constructor; [reflexivity|exact HL].
  - set (m1 := m <| mq ::= (fun q => q ++ ch) |>).
    assert (E : cv m1 = cv m /\ qn m1 = (qn m + length ch)%nat)
      by (subst m1; destruct m as [cf q o k]; split; [reflexivity|unfold qn; cbn; rewrite app_length; lia]).
    destruct E as [E1 E2].
    assert (H1 : TIc m1) by (eapply TI_same; eassumption).
    assert (H1k : K m1) by (destruct HK as [A B]; destruct (cv_inv _ _ E1) as (Z1 & _ & _ & Z4); split; [congruence|intros X; rewrite Z1; apply B; congruence]).
    assert (H2 : Tlc m1 = (Tlc m + length ch)%nat) by (rewrite (Tl_same _ _ _ E1); lia).
    cbn [concat] in Hf. rewrite app_length in Hf.
    assert (Hf1 : (bound (Tlc m1) <= fuel)%nat).
    { pose proof (run_bound_mono R (Tlc m1) (Tlc m + (length ch + length (concat rest))) ltac:(lia)). lia. }
    destruct (feed_loop_quiet fuel inj 49 m1 log Hq H1 H1k Hf1) as (F1 & F1k & F2 & F3).
    change (Datatypes.S 49) with 50%nat in *.
    destruct (feed_loopF 50 fuel inj m1 log) as [m2 log2]. cbn [fst snd] in *. subst log2.
    apply IH; [exact F1|exact F1k| |exact HD|constructor; [reflexivity|exact HL]].
    pose proof (run_bound_mono R (Tlc m2 + length (concat rest)) (Tlc m + (length ch + length (concat rest))) ltac:(lia)). lia.
Qed.

End NoPanic.
