(* C04, fourth clause - EXACTLY ONE EOF TOKEN, for BOTH tokenizers and without any invariant or fuel hypothesis.
   [eofs m] counts the EOF tokens delivered so far.  Every primitive of the interpreter - get_char with its CR/LF and
   bad-character handling, the bulk read, eat(), every command, emit_current_tag, the character-reference
   sub-tokenizer - leaves the count alone (frame lemmas, one per primitive); a terminator adds one exactly when it is
   Eof.  Hence: step / run() / feed() / the driver's feed loop never deliver an EOF token (step arms have no Eof
   terminator: [noeofb] on the regenerated tables), and an end() that returns normally delivers exactly one (EOF arms
   never read - [eof_ok] - so an arm answers "done" only through Eof, and the loop stops there).  For the whole driver
   from a fresh tokenizer: exactly one EOF token, and by TokIR/Consumed.v it is the last token.
   Reference semantics (exact_errors = true, flat queue). *)
From Coq Require Import List NArith Bool Lia Arith.
From RecordUpdate Require Import RecordSet.
From HV Require Import TokIR.IR TokIR.Interp TokIR.Checks TokIR.LineInv TokIR.NoPanic TokIR.Consumed.
Import ListNotations RecordSetNotations.
Local Open Scope N_scope.

Section SingleEof.
Context {S : Type}.
Variable fl : flavour S.
Variable tb : table S.
Variable simd : list N * list N * list N.
Variable ent : list N -> option (N * N).
Variable c1 : N -> option N.
Variable sk : sinkcfg.

Notation M := (mach S (list N)).
Notation fid := (fun q : list N => q).

Definition is_eof (t : token) : bool := match t with TEof => true | _ => false end.
Fixpoint eofc (o : list (token * N * N)) : nat :=
  match o with [] => 0%nat | e :: o' => ((if is_eof (fst (fst e)) then 1 else 0) + eofc o')%nat end.
Definition eofs (m : M) : nat := eofc (mout m).

Lemma eofs_upd f (m : M) : eofs (upd f m) = eofs m. Proof. destruct m; reflexivity. Qed.
Lemma eofs_took n (m : M) : eofs (took n m) = eofs m. Proof. destruct m; reflexivity. Qed.
Lemma eofs_gave n (m : M) : eofs (gave n m) = eofs m. Proof. destruct m; reflexivity. Qed.
Lemma eofs_setq q (m : M) : eofs (m <| mq := q |>) = eofs m. Proof. destruct m; reflexivity. Qed.
Lemma eofs_modq f (m : M) : eofs (m <| mq ::= f |>) = eofs m. Proof. destruct m; reflexivity. Qed.
Lemma eofs_emit t (m : M) : is_eof t = false -> eofs (emit t m) = eofs m.
Proof. intros H. destruct m as [cf q o k]. unfold eofs, emit. cbn. rewrite H. reflexivity. Qed.
Lemma eofs_err (m : M) : eofs (err m) = eofs m. Proof. apply eofs_emit. reflexivity. Qed.
Lemma eofs_unconsume b (m : M) : eofs (@unconsume S (list N) (@app N) b m) = eofs m. Proof. destruct m; reflexivity. Qed.
Hint Rewrite eofs_upd eofs_took eofs_gave eofs_setq eofs_modq eofs_err eofs_unconsume : eo.
Ltac eo := autorewrite with eo; try reflexivity.

Notation get_charF := (@get_char S (list N) fq_next fl true).
Lemma gpc_eofs c (m : M) : eofs (snd (@get_preprocessed_char S (list N) fq_next fl true c m)) = eofs m.
Proof.
  unfold get_preprocessed_char, gpc_skip.
  assert (P : forall c (m1 : M), eofs (snd (@gpc_post S (list N) fl true c m1)) = eofs m1).
  { intros c0 m1. unfold gpc_post. destruct (gpc_decide (f_html fl) true c0) as [[[c' a] b] r]. cbn [snd].
    destruct a, b, r; eo. }
  destruct (ignore_lf (mc m)).
  - destruct (c =? LF).
    + cbn [mq]. destruct (fq_next _) as [[c' q']|]; cbn [snd]; [|eo].
      match goal with |- context [gpc_post ?a ?b ?c ?d] => pose proof (P c d) as Q; destruct (gpc_post a b c d) end.
      cbn [snd] in *. rewrite Q. eo.
    + match goal with |- context [gpc_post ?a ?b ?c ?d] => pose proof (P c d) as Q; destruct (gpc_post a b c d) end.
      cbn [snd] in *. rewrite Q. eo.
  - match goal with |- context [gpc_post ?a ?b ?c ?d] => pose proof (P c d) as Q; destruct (gpc_post a b c d) end.
    cbn [snd] in *. rewrite Q. eo.
Qed.
Lemma get_char_eofs (m : M) : eofs (snd (get_charF m)) = eofs m.
Proof.
  unfold get_char. destruct (reconsume (mc m)); [cbn [snd]; eo|].
  destruct (fq_next (mq m)) as [[c q']|]; [|reflexivity]. rewrite gpc_eofs. eo.
Qed.

Notation discard_charF := (@discard_char S (list N) fq_next fl true).
Notation discard_wsF := (@discard_ws S (list N) fq_next fl true).
Notation discard_rawF := (@discard_raw S (list N) fq_next fl true).
Notation popF := (@pop_except_from S (list N) fq_next fq_peek fq_run1 fl true simd).
Notation eat_bodyF := (@eat_body S (list N) [] fq_next fq_peek (@app N) fid).
Notation eatF := (@eat S (list N) [] fq_next fq_peek (@app N) fid fl true).
Notation do_cmdF := (@do_cmd S (list N) fq_next fl true).
Notation do_termF := (@do_term S (list N) fl sk).
Notation execF := (@exec S (list N) [] fq_next fq_peek (@app N) fid fq_run1 fl true simd sk).
Notation emit_current_tagF := (@emit_current_tag S (list N) fl sk).
Notation finish_attributeF := (@finish_attribute S (list N) fl).

Lemma discard_char_eofs (m : M) : eofs (discard_charF m) = eofs m.
Proof.
  unfold discard_char. destruct (f_html fl); [|apply get_char_eofs].
  destruct (reconsume (mc m)); [eo|]. destruct (fq_next (mq m)) as [[c q']|]; eo.
Qed.
Lemma discard_ws_eofs c (m : M) : eofs (discard_wsF c m) = eofs m.
Proof. unfold discard_ws. destruct ((c =? CR) || ((c =? LF) && negb (ignore_lf (mc m)))); eo; apply discard_char_eofs. Qed.
Lemma discard_raw_eofs (m : M) : eofs (discard_rawF m) = eofs m.
Proof.
  unfold discard_raw. destruct (f_html fl); [apply discard_char_eofs|].
  destruct (reconsume (mc m)); [eo|]. destruct (fq_next (mq m)) as [[c q']|]; eo.
Qed.
Lemma pop_eofs set sm (m : M) : eofs (snd (popF set sm m)) = eofs m.
Proof.
  rewrite (LineInv.pop_exact fl simd set sm m). pose proof (get_char_eofs m) as G.
  destruct (get_charF m) as [[c|] m1]; cbn [snd] in *; exact G.
Qed.
Lemma eat_body_eofs a p e (m : M) : eofs (snd (eat_bodyF a p e m)) = eofs m.
Proof.
  unfold eat_body. destruct (Qeat _ _ _ _ _); cbn [snd]; eo. destruct a; cbn [snd]; eo.
Qed.
Lemma eat_eofs a p e (m : M) : eofs (snd (eatF a p e m)) = eofs m.
Proof.
  unfold eat. destruct (ignore_lf (mc m)); [|apply eat_body_eofs].
  destruct (peek fq_peek m) as [c|].
  - rewrite eat_body_eofs. eo. destruct (c =? LF); [|reflexivity].
    destruct (f_html fl); [apply discard_char_eofs|]. destruct (fq_next (mq m)) as [[c' q']|]; eo.
  - destruct a; [rewrite eat_body_eofs; eo|reflexivity].
Qed.
Lemma finish_attribute_eofs (m : M) : eofs (finish_attributeF m) = eofs m.
Proof.
  unfold finish_attribute. destruct (attr_name (mc m)); [reflexivity|].
  destruct (f_html fl).
  - destruct (existsb _ _); eo.
  - destruct (existsb _ _); eo. destruct (qname_split _) as [pp l]. eo.
Qed.
Lemma discard_tag_eofs (m : M) : eofs (@discard_tag S (list N) fl m) = eofs m.
Proof. unfold discard_tag. destruct (f_html fl); eo. Qed.
Lemma emit_char_eofs c (m : M) : eofs (@emit_char S (list N) fl c m) = eofs m.
Proof. unfold emit_char. destruct (f_html fl); [destruct (c =? 0)|]; apply eofs_emit; reflexivity. Qed.
Lemma ect_eofs (m : M) : eofs (fst (emit_current_tagF m)) = eofs m.
Proof.
  unfold emit_current_tag. pose proof (finish_attribute_eofs m) as F. set (m1 := finish_attributeF m) in *. clearbody m1.
  rewrite <- F. clear F.
  destruct (f_html fl).
  - destruct (tag_kind (mc m1)); destruct (lookup_resp (tag_name (mc m1)) (sk_resp sk)) as [[]|]; cbn [fst]; eo;
      rewrite eofs_emit by reflexivity; eo;
      repeat match goal with |- context [if ?b then _ else _] => destruct b end; eo.
  - destruct (tag_kind (mc m1)); destruct (lookup_resp (tag_name (mc m1)) (sk_resp sk)) as [[]|]; cbn [fst]; eo;
      rewrite eofs_emit by reflexivity; eo;
      repeat match goal with |- context [if ?b then _ else _] => destruct b end; eo.
Qed.
Lemma do_cmd_eofs k c run (m : M) : eofs (do_cmdF k c run m) = eofs m.
Proof.
  destruct k; cbn [do_cmd]; eo;
    try apply discard_tag_eofs; try apply discard_char_eofs; try apply discard_ws_eofs; try apply finish_attribute_eofs;
    try apply emit_char_eofs; try (apply eofs_emit; reflexivity).
  all: try (destruct k; eo).
Qed.

(* terminators: every one but Eof leaves the count alone; Eof adds exactly one *)
Lemma do_term_eofs t (m : M) : eofs (fst (do_termF t m)) = (eofs m + match t with Eof => 1 | _ => 0 end)%nat.
Proof.
  destruct t; cbn [do_term fst]; eo; try lia; try (rewrite ect_eofs; eo; lia).
  - destruct k; rewrite ect_eofs; eo; lia.
  - rewrite eofs_emit by reflexivity. lia.
  - destruct m as [cf q o k]. unfold eofs, emit. cbn. lia.
Qed.

Hypothesis Hnoeof : forall s, noeofb (t_step tb s) = true.

Lemma exec_eofs a : forall b c run (m : M), noeofb b = true -> eofs (fst (execF a b c run m)) = eofs m.
Proof.
  induction b as [rk k IH|set sm krun IHr kchar IHc|p e y IHy n IHn|k y IHy n IHn|k rest IH|t];
    intros c run m Hb; cbn [exec]; cbn [noeofb] in Hb.
  - destruct rk.
    + pose proof (get_char_eofs m) as G. destruct (get_charF m) as [[c'|] m1]; cbn [fst snd] in *; [rewrite IH by exact Hb|]; exact G.
    + destruct (peek fq_peek m); [apply IH; exact Hb|reflexivity].
  - apply andb_prop in Hb. destruct Hb as [Hb1 Hb2]. pose proof (pop_eofs set sm m) as G.
    destruct (popF set sm m) as [[|c'|r] m1]; cbn [fst snd] in *; [exact G|rewrite IHc by exact Hb2; exact G|rewrite IHr by exact Hb1; exact G].
  - apply andb_prop in Hb. destruct Hb as [Hb1 Hb2]. pose proof (eat_eofs a p e m) as G.
    destruct (eatF a p e m) as [[[|]|] m1]; cbn [fst snd] in *.
    + rewrite (IHy c run m1 Hb1). exact G.
    + rewrite (IHn c run m1 Hb2). exact G.
    + exact G.
  - apply andb_prop in Hb. destruct Hb as [Hb1 Hb2]. destruct (ceval_cond sk k c m); [apply IHy|apply IHn]; assumption.
  - rewrite IH by exact Hb. apply do_cmd_eofs.
  - rewrite do_term_eofs. destruct t; try lia; discriminate Hb.
Qed.

(* EOF arms (no reads: eof_ok): the count grows by one exactly when the arm answers "suspend" *)
Lemma exec_eof_arm : forall b c run (m : M), LineInv.eof_ok b = true ->
  eofs (fst (execF true b c run m)) = (eofs m + match snd (execF true b c run m) with SSuspend => 1 | _ => 0 end)%nat.
Proof.
  induction b as [rk k IH|set sm krun IHr kchar IHc|p e y IHy n IHn|k y IHy n IHn|k rest IH|t];
    intros c run m Hb; cbn [exec]; cbn [LineInv.eof_ok] in Hb; try discriminate Hb.
  - apply andb_prop in Hb. destruct Hb as [Hb1 Hb2]. destruct (ceval_cond sk k c m); [apply IHy|apply IHn]; assumption.
  - apply andb_prop in Hb. destruct Hb as [_ Hb2]. rewrite IH by exact Hb2. rewrite do_cmd_eofs. reflexivity.
  - rewrite do_term_eofs. pose proof (Consumed.ect_not_susp fl sk) as NS.
    destruct t; cbn [do_term snd]; try lia.
    + specialize (NS (upd (fun x => x <| st := s |>) m)). destruct (snd (emit_current_tagF _)); try lia. contradiction.
    + destruct k; match goal with |- context [snd (emit_current_tagF ?X)] => specialize (NS X); destruct (snd (emit_current_tagF X)) end; try lia; contradiction.
Qed.

(* ---------------------------------------------------------------- character references *)
Notation cr_stepF := (@cr_step S (list N) fq_next fq_peek (@app N) fl true ent c1).
Notation cr_eofF := (@cr_eof S (list N) (@app N) fl c1).
Notation process_char_refF := (@process_char_ref S (list N) fl).
Notation finish_namedF := (@finish_named S (list N) (@app N) fl).
Notation finish_numericF := (@finish_numeric S (list N) c1).
Notation unconsume_numericF := (@unconsume_numeric S (list N) (@app N)).

Lemma finish_numeric_eofs cr (m : M) : eofs (snd (finish_numericF cr m)) = eofs m.
Proof.
  unfold finish_numeric.
  match goal with |- context [let '(c, e) := ?X in _] => destruct X as [c e] end. cbn [snd]. destruct e; eo.
Qed.
Lemma unconsume_numeric_eofs cr (m : M) : eofs (snd (unconsume_numericF cr m)) = eofs m.
Proof. unfold unconsume_numeric. cbn [snd]. eo. Qed.
Lemma finish_named_eofs cr e (m : M) : eofs (snd (finish_namedF cr e m)) = eofs m.
Proof.
  unfold finish_named. destruct (cr_match cr) as [[a b]|].
  - match goal with |- context [let '(unc, e) := ?X in _] => destruct X as [unc er] end.
    destruct unc; cbn [snd]; [destruct er; eo|]. destruct (f_html fl); destruct er; eo.
  - destruct e as [c|]; cbn [snd]; [|eo]. destruct (is_alnum c); cbn [snd]; [reflexivity|].
    destruct ((c =? 59) && Nat.ltb 1 (length (cr_buf cr))); eo.
Qed.
Lemma cr_step_eofs cr (m : M) : eofs (snd (cr_stepF cr m)) = eofs m.
Proof.
  unfold cr_step, cr_read.
  destruct (cr_st cr); (destruct (peek fq_peek m) as [c|]; [|reflexivity]).
  - destruct (f_html fl).
    + destruct (is_alnum c); [reflexivity|]. destruct (c =? 35); cbn [snd]; [apply discard_char_eofs|reflexivity].
    + destruct (memb c _); [reflexivity|]. destruct (match cr_addnl cr with Some a => a =? c | None => false end); [reflexivity|].
      destruct (c =? 35); cbn [snd]; [apply discard_char_eofs|reflexivity].
  - destruct ((c =? 120) || (c =? 88)); cbn [snd]; [apply discard_char_eofs|reflexivity].
  - destruct (to_digit base c); cbn [snd]; [apply discard_char_eofs|].
    destruct (negb (cr_seen cr)); [apply unconsume_numeric_eofs|reflexivity].
  - match goal with |- context [finish_numeric ?a ?b ?c] => pose proof (finish_numeric_eofs b c) as F; destruct (finish_numeric a b c) as [chars m2] end.
    cbn [snd] in *. rewrite F. destruct (c =? 59); [apply discard_char_eofs|eo].
  - destruct (ent _) as [[a b]|]; cbn [snd]; [apply discard_raw_eofs|].
    rewrite finish_named_eofs. apply discard_raw_eofs.
  - destruct (is_alnum c); cbn [snd]; [apply discard_raw_eofs|].
    destruct (c =? 59); eo; apply discard_raw_eofs.
Qed.
Lemma pcr_eofs chars (m : M) : eofs (fst (process_char_refF chars m)) = eofs m.
Proof.
  unfold process_char_ref. set (cs := match chars with [] => [38] | _ => chars end). clearbody cs.
  assert (G : forall l (m0 : M) b, eofs (fst (fold_left (fun '(m1, bad) c =>
               match f_charref_emit fl (st (mc m1)) with
               | Some false => (emit_char fl c m1, bad)
               | Some true => (upd (fun x => x <| attr_value ::= (fun s => s ++ [c]) |>) m1, bad)
               | None => (m1, true)
               end) l (m0, b))) = eofs m0).
  { induction l as [|c l IH]; intros m0 b; cbn [fold_left fst]; [reflexivity|].
    destruct (f_charref_emit fl (st (mc m0))) as [[|]|]; rewrite IH; eo. apply emit_char_eofs. }
  apply G.
Qed.
Lemma cr_eof_eofs cr (m : M) : eofs (snd (cr_eofF cr m)) = eofs m.
Proof.
  unfold cr_eof. destruct (cr_st cr); cbn [snd]; eo.
  - destruct (negb (cr_seen cr)).
    + pose proof (unconsume_numeric_eofs cr m) as U. destruct (unconsume_numericF cr m) as [r m']. cbn [snd] in *. exact U.
    + rewrite finish_numeric_eofs. eo.
  - rewrite finish_numeric_eofs. eo.
  - pose proof (finish_named_eofs cr None m) as F. destruct (finish_namedF cr None m) as [[|?|?] m']; cbn [snd] in *; exact F.
Qed.

(* ---------------------------------------------------------------- step, run, feed: no EOF token before end() *)
Notation stepF := (@step S (list N) [] fq_next fq_peek (@app N) fid fq_run1 fl true tb simd ent c1 sk).
Notation runF := (@run S (list N) [] fq_next fq_peek (@app N) fid fq_run1 fl true tb simd ent c1 sk).
Notation feedF := (@feed S (list N) [] fq_next fq_peek (@app N) fid fq_run1 fl true tb simd ent c1 sk).
Notation feed_loopF := (@feed_loop S (list N) [] fq_next fq_peek (@app N) fid fq_run1 fl true tb simd ent c1 sk).
Notation eof_loopF := (@eof_loop S (list N) [] fq_next fq_peek (@app N) fid fq_run1 fl true tb simd sk).
Notation tok_endF := (@tok_end S (list N) [] fq_next fq_peek (@app N) fid fq_run1 fl true tb simd ent c1 sk).

Theorem step_eofs a (m : M) : eofs (fst (stepF a m)) = eofs m.
Proof.
  unfold step. destruct (cref (mc m)) as [cr|]; [|apply exec_eofs; apply Hnoeof].
  pose proof (cr_step_eofs cr m) as C. destruct (cr_stepF cr m) as [[|cr'|chars] m1]; cbn [fst snd] in *; eo; try exact C.
  pose proof (pcr_eofs chars m1) as P. destruct (process_char_refF chars m1) as [m2 bad]. cbn [fst] in *. eo. congruence.
Qed.
Theorem run_eofs a : forall fuel (m : M), eofs (fst (runF a fuel m)) = eofs m.
Proof.
  induction fuel as [|f IH]; intros m; cbn [run]; [reflexivity|].
  pose proof (step_eofs a m) as St. destruct (stepF a m) as [m1 r]. cbn [fst] in *.
  destruct r; cbn [fst]; try exact St. rewrite IH. exact St.
Qed.
Theorem feed_eofs fuel (m : M) : eofs (fst (feedF fuel m)) = eofs m.
Proof.
  unfold feed. destruct (fq_peek (mq m)) as [c|]; [|reflexivity]. rewrite run_eofs.
  destruct (discard_bom (mc m)); [|reflexivity]. eo.
  destruct (c =? BOM); [|reflexivity]. destruct (fq_next (mq m)) as [[d q']|]; eo.
Qed.
Theorem feed_loop_eofs fuel inj : forall n (m : M) log, eofs (fst (feed_loopF n fuel inj m log)) = eofs m.
Proof.
  induction n as [|n IH]; intros m log; cbn [feed_loop]; [reflexivity|].
  pose proof (feed_eofs fuel m) as F. destruct (feedF fuel m) as [m1 r]. cbn [fst] in *.
  destruct r; cbn [fst]; try exact F; rewrite IH; eo; exact F.
Qed.

(* ---------------------------------------------------------------- end(): exactly one more *)
Hypothesis Heof : forall s, LineInv.eof_ok (t_eof tb s) = true.

Theorem eof_loop_eofs : forall fuel (m : M), snd (eof_loopF fuel m) = SSuspend ->
  eofs (fst (eof_loopF fuel m)) = Datatypes.S (eofs m).
Proof.
  induction fuel as [|f IH]; intros m; cbn [eof_loop]; [discriminate|].
  pose proof (exec_eof_arm (t_eof tb (st (mc m))) 0 [] m (Heof _)) as E.
  destruct (execF true (t_eof tb (st (mc m))) 0 [] m) as [m1 r]. cbn [fst snd] in *.
  destruct r; cbn [fst snd]; try discriminate.
  - intros X. rewrite (IH m1 X). lia.
  - intros _. lia.
  - destruct (f_html fl); cbn [fst snd]; [discriminate|]. intros X. rewrite (IH m1 X). lia.
  - destruct (f_html fl); cbn [fst snd]; [discriminate|]. intros X. rewrite (IH m1 X). lia.
Qed.

Theorem tok_end_eofs fuel (m : M) : snd (tok_endF fuel m) = SSuspend ->
  eofs (fst (tok_endF fuel m)) = Datatypes.S (eofs m).
Proof.
  unfold tok_end.
  assert (T : forall m1 : M, eofs m1 = eofs m ->
    snd (Consumed.tok_tail fl tb simd ent c1 sk fuel m1) = SSuspend ->
    eofs (fst (Consumed.tok_tail fl tb simd ent c1 sk fuel m1)) = Datatypes.S (eofs m)).
  { intros m1 E1. unfold Consumed.tok_tail. pose proof (run_eofs true fuel m1) as R.
    destruct (runF true fuel m1) as [m3 r]. cbn [fst] in R.
    destruct r; cbn [fst snd]; try discriminate;
      try (destruct (f_html fl); cbn [fst snd]; try discriminate; intros X; rewrite (eof_loop_eofs fuel m3 X); congruence).
    destruct (fq_peek (mq m3)); [destruct (f_html fl); cbn [fst snd]; try discriminate|];
      intros X; rewrite (eof_loop_eofs fuel m3 X); congruence. }
  fold (Consumed.tok_tail fl tb simd ent c1 sk fuel).
  match goal with |- context [cref ?Y] => destruct (cref Y) as [cr|] end.
  2:{ apply T. eo. }
  match goal with |- context [@cr_eof ?a ?b ?c ?d ?e ?f ?g] =>
    pose proof (cr_eof_eofs f g) as CE; destruct (@cr_eof a b c d e f g) as [chars m'] end.
  match goal with |- context [process_char_ref ?a ?b ?c] =>
    pose proof (pcr_eofs b c) as PE; destruct (process_char_ref a b c) as [m1 bad] end.
  cbn [fst snd] in *. destruct bad; cbn [fst snd]; [discriminate|]. apply T. rewrite PE, CE. eo.
Qed.

(* the whole driver: chunks fed with script pauses and injected text, then end() *)
Notation driveF := (@drive S (list N) [] fq_next fq_peek (@app N) (@app N) fid fq_run1 fl true tb simd ent c1 sk).
Theorem drive_eofs fuel inj : forall chunks (m : M) log,
  hd (SPanic 0) (snd (driveF fuel inj chunks m log)) = SSuspend ->
  eofs (fst (driveF fuel inj chunks m log)) = Datatypes.S (eofs m).
Proof.
  induction chunks as [|ch rest IH]; intros m log; cbn [drive].
  - pose proof (tok_end_eofs fuel m) as T. destruct (tok_endF fuel m) as [m' r]. cbn [fst snd hd] in *. exact T.
  - pose proof (feed_loop_eofs fuel inj 50 (m <| mq ::= (fun q => q ++ ch) |>) log) as F.
    destruct (feed_loopF 50 fuel inj (m <| mq ::= (fun q => q ++ ch) |>) log) as [m2 log2]. cbn [fst] in F.
    intros X. rewrite (IH m2 log2 X). rewrite F. eo.
Qed.
End SingleEof.
