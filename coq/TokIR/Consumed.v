(* C04, third clause - ALL INPUT IS CONSUMED, for BOTH tokenizers and without any invariant or fuel hypothesis:
   whenever a step, run() or feed() of the interpreter answers "suspend" (TokenizerResult::Done), the input queue is
   empty.  What the tokenizer still holds back - an eat() look-ahead, the raw characters of a pending character
   reference - lives in its own buffers.  The only table condition is [noeofb]: no step arm ends in the Eof
   terminator (decided on the regenerated tables).  Reference semantics (exact_errors = true, flat queue). *)
From Coq Require Import List NArith Bool Lia Arith.
From RecordUpdate Require Import RecordSet.
From HV Require Import TokIR.IR TokIR.Interp TokIR.Checks TokIR.LineInv TokIR.Termination TokIR.NoPanic.
From HV Require TokIR.Chunk TokIR.TermX.
Import ListNotations RecordSetNotations.
Local Open Scope N_scope.

Section Consumed.
Context {S : Type}.
Variable fl : flavour S.
Variable tb : table S.
Variable simd : list N * list N * list N.
Variable ent : list N -> option (N * N).
Variable c1 : N -> option N.
Variable sk : sinkcfg.
Hypothesis Hnoeof : forall s, noeofb (t_step tb s) = true.

Notation M := (mach S (list N)).
Notation fid := (fun q : list N => q).
Notation get_charF := (@get_char S (list N) fq_next fl true).
Notation peekF := (@peek S (list N) fq_peek).
Notation eat_bodyF := (@eat_body S (list N) [] fq_next fq_peek (@app N) fid).
Notation eatF := (@eat S (list N) [] fq_next fq_peek (@app N) fid fl true).
Notation execF := (@exec S (list N) [] fq_next fq_peek (@app N) fid fq_run1 fl true simd sk).
Notation emit_current_tagF := (@emit_current_tag S (list N) fl sk).
Notation cr_stepF := (@cr_step S (list N) fq_next fq_peek (@app N) fl true ent c1).
Notation stepF := (@step S (list N) [] fq_next fq_peek (@app N) fid fq_run1 fl true tb simd ent c1 sk).
Notation runF := (@run S (list N) [] fq_next fq_peek (@app N) fid fq_run1 fl true tb simd ent c1 sk).
Notation feedF := (@feed S (list N) [] fq_next fq_peek (@app N) fid fq_run1 fl true tb simd ent c1 sk).
Notation feed_loopF := (@feed_loop S (list N) [] fq_next fq_peek (@app N) fid fq_run1 fl true tb simd ent c1 sk).

Lemma peek_none_q (m : M) : peekF m = None -> mq m = [].
Proof. unfold peek. destruct (reconsume (mc m)); [discriminate|]. destruct (mq m); [reflexivity|discriminate]. Qed.
Lemma get_char_none_q (m : M) : fst (get_charF m) = None -> mq (snd (get_charF m)) = [].
Proof.
  destruct (get_charF m) as [o m'] eqn:E. cbn [fst snd]. intros ->.
  destruct (Chunk.get_char_none fl true m m' E) as [_ Hq ->|_ _ _ ->]; [exact Hq|destruct m; reflexivity].
Qed.
Lemma eat_body_none_q a p e (m : M) : fst (eat_bodyF a p e m) = None -> mq (snd (eat_bodyF a p e m)) = [].
Proof.
  unfold eat_body. fold (Uu m). set (m2 := Uu m). clearbody m2.
  destruct (Qeat fq_peek fid (negb e) p (mq m2)); cbn [fst snd]; try discriminate.
  destruct a; cbn [fst snd]; [discriminate|]. intros _. destruct m2 as [cf q o k]; reflexivity.
Qed.
Lemma eat_none_q a p e (m : M) : fst (eatF a p e m) = None -> mq (snd (eatF a p e m)) = [].
Proof.
  unfold eat. destruct (ignore_lf (mc m)); [|apply eat_body_none_q].
  destruct (peekF m) as [c|] eqn:Hp; [apply eat_body_none_q|].
  destruct a; [apply eat_body_none_q|]. cbn [fst snd]. intros _. apply peek_none_q; exact Hp.
Qed.
Lemma ect_not_susp (m : M) : snd (emit_current_tagF m) <> SSuspend.
Proof.
  unfold emit_current_tag. set (m1 := finish_attribute fl m). clearbody m1. destruct (f_html fl);
  destruct (tag_kind (mc m1));
    destruct (lookup_resp (tag_name (mc m1)) (sk_resp sk)) as [[]|]; cbn [snd]; discriminate.
Qed.
Lemma exec_susp_q a : forall b c run (m : M), noeofb b = true ->
  snd (execF a b c run m) = SSuspend -> mq (fst (execF a b c run m)) = [].
Proof.
  induction b as [rk k IH|set sm krun IHr kchar IHc|p e y IHy n IHn|k y IHy n IHn|k rest IH|t];
    intros c run m Hb; cbn [exec]; cbn [noeofb] in Hb.
  - destruct rk.
    + pose proof (get_char_none_q m) as G. destruct (get_charF m) as [[c'|] m1]; cbn [fst snd] in *; [apply IH; exact Hb|auto].
    + destruct (peekF m) eqn:Hp; [apply IH; exact Hb|]. cbn [fst snd]. intros _. apply peek_none_q; exact Hp.
  - rewrite pop_exact. apply andb_prop in Hb. destruct Hb as [Hb1 Hb2].
    pose proof (get_char_none_q m) as G. destruct (get_charF m) as [[c'|] m1]; cbn [fst snd] in *; [apply IHc; exact Hb2|auto].
  - apply andb_prop in Hb. destruct Hb as [Hb1 Hb2].
    pose proof (eat_none_q a p e m) as G. destruct (eatF a p e m) as [[[|]|] m1]; cbn [fst snd] in *;
      [apply IHy; exact Hb1|apply IHn; exact Hb2|auto].
  - apply andb_prop in Hb. destruct Hb as [Hb1 Hb2]. destruct (ceval_cond sk k c m); [apply IHy|apply IHn]; assumption.
  - apply IH; exact Hb.
  - destruct t; cbn [do_term fst snd]; try discriminate; try (intros X; exfalso; exact (ect_not_susp _ X)).
    destruct k; cbn [do_term]; intros X; exfalso; exact (ect_not_susp _ X).
Qed.

Lemma cr_step_stuck_q cr (m : M) : fst (cr_stepF cr m) = CrStuck -> mq (snd (cr_stepF cr m)) = [].
Proof.
  unfold cr_step, cr_read.
  destruct (cr_st cr); (destruct (peekF m) as [c|] eqn:Hp; [|cbn [fst snd]; intros _; apply peek_none_q; exact Hp]).
  - destruct (f_html fl).
    + destruct (is_alnum c); [discriminate|]. destruct (c =? 35); discriminate.
    + destruct (memb c _); [discriminate|]. destruct (match cr_addnl cr with Some a => a =? c | None => false end); [discriminate|].
      destruct (c =? 35); discriminate.
  - destruct ((c =? 120) || (c =? 88)); discriminate.
  - destruct (to_digit base c); [discriminate|]. destruct (negb (cr_seen cr)); discriminate.
  - destruct (finish_numeric c1 cr _). discriminate.
  - destruct (ent _) as [[a b]|]; [discriminate|].
    destruct (f_html fl) eqn:Hh.
    + match goal with |- context [finish_named ?A ?B ?C ?D ?E] =>
        pose proof (Termination.finish_named_sz fl Hh C D E) as [_ F]; destruct (finish_named A B C D E) as [[|?|?] ?] end;
        cbn [fst snd] in *; [contradiction|discriminate|discriminate].
    + match goal with |- context [finish_named ?A ?B ?C ?D ?E] =>
        pose proof (TermX.finish_named_sz fl Hh C D E) as [_ F]; destruct (finish_named A B C D E) as [[|?|?] ?] end;
        cbn [fst snd] in *; [contradiction|discriminate|discriminate].
  - destruct (is_alnum c); [discriminate|]. discriminate.
Qed.

Theorem step_susp_q a (m : M) : snd (stepF a m) = SSuspend -> mq (fst (stepF a m)) = [].
Proof.
  unfold step. destruct (cref (mc m)) as [cr|].
  - pose proof (cr_step_stuck_q cr m) as Hq.
    destruct (cr_stepF cr m) as [[|cr'|chars] m1]; cbn [fst snd] in *.
    + intros _. auto.
    + discriminate.
    + destruct (process_char_ref fl chars m1) as [m2 bad]. cbn [fst snd]. destruct bad; discriminate.
  - apply exec_susp_q. apply Hnoeof.
Qed.

Theorem run_susp_q a : forall fuel (m : M), snd (runF a fuel m) = SSuspend -> mq (fst (runF a fuel m)) = [].
Proof.
  induction fuel as [|f IH]; intros m; cbn [run]; [discriminate|].
  pose proof (step_susp_q a m) as Hs. destruct (stepF a m) as [m1 r]. cbn [fst snd] in *.
  destruct r; cbn [fst snd]; try discriminate; [apply IH|exact Hs].
Qed.

(* Tokenizer::feed answering Done *)
Theorem feed_susp_q fuel (m : M) : snd (feedF fuel m) = SSuspend -> mq (fst (feedF fuel m)) = [].
Proof.
  unfold feed. destruct (fq_peek (mq m)) as [c|] eqn:Hp.
  - apply run_susp_q.
  - cbn [fst snd]. intros _. destruct (mq m); [reflexivity|discriminate Hp].
Qed.

(* the driver's feed loop (script pauses with injected text, encoding-indicator pauses) whose last answer is Done *)
Theorem feed_loop_susp_q fuel inj : forall n (m : M) log,
  hd (SPanic 0) (snd (feed_loopF n fuel inj m log)) = SSuspend -> mq (fst (feed_loopF n fuel inj m log)) = [].
Proof.
  induction n as [|n IH]; intros m log; cbn [feed_loop]; [cbn [snd hd]; discriminate|].
  pose proof (feed_susp_q fuel m) as FC. destruct (feedF fuel m) as [m1 r]. cbn [fst snd] in *.
  destruct r; cbn [fst snd hd]; try discriminate; try (intros X; exact (FC X)); apply IH.
Qed.

(* ---------------------------------------------------------------- end() delivers the EOF token, last *)
Notation eof_loopF := (@eof_loop S (list N) [] fq_next fq_peek (@app N) fid fq_run1 fl true tb simd sk).
Notation tok_endF := (@tok_end S (list N) [] fq_next fq_peek (@app N) fid fq_run1 fl true tb simd ent c1 sk).
Hypothesis Heof : forall s, eof_ok (t_eof tb s) = true.

Definition newest_is_eof (m : M) : Prop := match mout m with (TEof, _, _) :: _ => True | _ => False end.

(* an EOF arm (no reads, [eof_ok]) answers "suspend" only through its Eof terminator, which has just emitted TEof *)
Lemma exec_eof_last : forall b c run (m : M), eof_ok b = true ->
  snd (execF true b c run m) = SSuspend -> newest_is_eof (fst (execF true b c run m)).
Proof.
  induction b as [rk k IH|set sm krun IHr kchar IHc|p e y IHy n IHn|k y IHy n IHn|k rest IH|t];
    intros c run m Hb; cbn [exec]; cbn [eof_ok] in Hb; try discriminate Hb.
  - apply andb_prop in Hb. destruct Hb as [Hb1 Hb2]. destruct (ceval_cond sk k c m); [apply IHy|apply IHn]; assumption.
  - apply andb_prop in Hb. destruct Hb as [_ Hb2]. apply IH; exact Hb2.
  - destruct t; cbn [do_term fst snd]; try discriminate; try (intros X; exfalso; exact (ect_not_susp _ X)).
    + destruct k; cbn [do_term]; intros X; exfalso; exact (ect_not_susp _ X).
    + intros _. unfold newest_is_eof. destruct m as [cf q o kk]. cbn. exact I.
Qed.

Theorem eof_loop_last : forall fuel (m : M), snd (eof_loopF fuel m) = SSuspend -> newest_is_eof (fst (eof_loopF fuel m)).
Proof.
  induction fuel as [|f IH]; intros m; cbn [eof_loop]; [discriminate|].
  pose proof (exec_eof_last (t_eof tb (st (mc m))) 0 [] m (Heof _)) as E.
  destruct (execF true (t_eof tb (st (mc m))) 0 [] m) as [m1 r]. cbn [fst snd] in *.
  destruct r; cbn [fst snd]; try discriminate; try (apply IH); try (intros _; apply E; reflexivity);
    destruct (f_html fl); cbn [fst snd]; try discriminate; apply IH.
Qed.

(* Tokenizer::end answering normally: the EOF token has been delivered and nothing after it *)
Definition tok_tail (fuel : nat) (m1 : M) : M * sres :=
  match runF true fuel m1 with
  | (m3, SSuspend) => match fq_peek (mq m3) with
                      | None => eof_loopF fuel m3
                      | Some _ => if f_html fl then (m3, SPanic 5) else eof_loopF fuel m3 end
  | (m3, SPanic n) => (m3, SPanic n)
  | (m3, _) => if f_html fl then (m3, SPanic 4) else eof_loopF fuel m3 end.
Lemma tok_tail_last fuel (m1 : M) : snd (tok_tail fuel m1) = SSuspend -> newest_is_eof (fst (tok_tail fuel m1)).
Proof.
  unfold tok_tail. destruct (runF true fuel m1) as [m3 r]. destruct r; cbn [fst snd]; try discriminate;
    try (destruct (f_html fl); cbn [fst snd]; try discriminate; apply eof_loop_last).
  destruct (fq_peek (mq m3)); [destruct (f_html fl); cbn [fst snd]; try discriminate|]; apply eof_loop_last.
Qed.

(* Tokenizer::end answering normally: the EOF token has been delivered and nothing after it *)
Theorem tok_end_last fuel (m : M) : snd (tok_endF fuel m) = SSuspend -> newest_is_eof (fst (tok_endF fuel m)).
Proof.
  unfold tok_end. fold (tok_tail fuel).
  match goal with |- context [cref ?Y] => destruct (cref Y) as [cr|] end.
  2:{ apply tok_tail_last. }
  match goal with |- context [@cr_eof ?a ?b ?c ?d ?e ?f ?g] => destruct (@cr_eof a b c d e f g) as [chars m'] end.
  match goal with |- context [process_char_ref ?a ?b ?c] => destruct (process_char_ref a b c) as [m1 bad] end.
  destruct bad; cbn [fst snd]; [discriminate|]. apply tok_tail_last.
Qed.
End Consumed.
