(* Chunk independence of the tokenizer semantics (C03 / C15), for EVERY table that passes the decidable
   shape check [shape_ok] and both flavours.

   Reference semantics: the TokIR interpreter over a FLAT queue with unit runs ([drive_flat]).  Appending input
   to the queue commutes with stepping:
     - a step that does not suspend is unaffected by what is appended behind the unread input   (ext_nosusp)
     - a step that suspends for lack of input only re-arranges look-ahead (stash), and stepping again once more
       input is there gives the same result as if the input had been there from the start      (ext_susp)
   hence feeding x1 then x2 reaches exactly the machine reached by feeding x1 ++ x2 (same tokens, parse errors,
   line numbers, configuration).  *)
From Coq Require Import List NArith Bool Lia Arith.
From RecordUpdate Require Import RecordSet.
From HV Require Import TokIR.IR TokIR.Interp TokIR.Checks.
Import ListNotations RecordSetNotations.
Local Open Scope N_scope.

Section Chunk.
Context {S : Type}.
Variable fl : flavour S.
Variable ex : bool.        (* exact_errors *)
Variable tb : table S.
Variable simd : list N * list N * list N.
Variable ent : list N -> option (N * N).
Variable c1 : N -> option N.
Variable sk : sinkcfg.

Notation M := (mach S (list N)).
Notation fid := (fun q : list N => q).
Notation gpcF := (@get_preprocessed_char S (list N) fq_next fl ex).
Notation get_charF := (@get_char S (list N) fq_next fl ex).
Notation peekF := (@peek S (list N) fq_peek).
Notation discard_charF := (@discard_char S (list N) fq_next fl ex).
Notation discard_wsF := (@discard_ws S (list N) fq_next fl ex).
Notation popF := (@pop_except_from S (list N) fq_next fq_peek fq_run1 fl ex simd).
Notation eat_bodyF := (@eat_body S (list N) [] fq_next fq_peek (@app N) fid).
Notation eatF := (@eat S (list N) [] fq_next fq_peek (@app N) fid fl ex).
Notation do_cmdF := (@do_cmd S (list N) fq_next fl ex).
Notation do_termF := (@do_term S (list N) fl sk).
Notation execF := (@exec S (list N) [] fq_next fq_peek (@app N) fid fq_run1 fl ex simd sk).
Notation unconsumeF := (@unconsume S (list N) (@app N)).
Notation cr_stepF := (@cr_step S (list N) fq_next fq_peek (@app N) fl ex ent c1).
Notation stepF := (@step S (list N) [] fq_next fq_peek (@app N) fid fq_run1 fl ex tb simd ent c1 sk).

(* append input behind everything unread *)
Definition ext (x : list N) (m : M) : M := m <| mq ::= (fun q => q ++ x) |>.

Ltac rs := unfold set; cbn.

(* ---------------------------------------------------------------- frame lemmas *)
Lemma upd_ext f x (m : M) : upd f (ext x m) = ext x (upd f m).
Proof. destruct m; reflexivity. Qed.
Lemma emit_ext t x (m : M) : emit t (ext x m) = ext x (emit t m).
Proof. destruct m; reflexivity. Qed.
Lemma err_ext x (m : M) : err (ext x m) = ext x (err m).
Proof. apply emit_ext. Qed.
Lemma took_ext n x (m : M) : took n (ext x m) = ext x (took n m).
Proof. destruct m; reflexivity. Qed.
Lemma unconsume_ext b x (m : M) : unconsumeF b (ext x m) = ext x (unconsumeF b m).
Proof. destruct m; unfold unconsume, gave, ext, set; cbn. rewrite app_assoc. reflexivity. Qed.
Lemma ext_mc x (m : M) : mc (ext x m) = mc m.
Proof. destruct m; reflexivity. Qed.
Lemma ext_mq x (m : M) : mq (ext x m) = mq m ++ x.
Proof. destruct m; reflexivity. Qed.
Lemma ext_nil (m : M) : ext [] m = m.
Proof. destruct m; unfold ext, set; cbn. rewrite app_nil_r. reflexivity. Qed.
Lemma ext_ext x y (m : M) : ext y (ext x m) = ext (x ++ y) m.
Proof. destruct m; unfold ext, set; cbn. rewrite app_assoc. reflexivity. Qed.
Lemma setq_ext q x (m : M) : (m <| mq := q ++ x |>) = ext x (m <| mq := q |>).
Proof. destruct m; reflexivity. Qed.

(* ---------------------------------------------------------------- get_preprocessed_char / get_char *)
Notation gpc_skipF := (@gpc_skip S (list N) fq_next).
Notation gpc_postF := (@gpc_post S (list N) fl ex).

Lemma gpc_post_ext c x (m : M) :
  gpc_postF c (ext x m) = (fst (gpc_postF c m), ext x (snd (gpc_postF c m))).
Proof.
  unfold gpc_post.
  destruct (gpc_decide (f_html fl) ex c) as [[[c' a] b] d].
  destruct m; destruct a, b, d; reflexivity.
Qed.

Lemma gpc_skip_some c x (m m' : M) c' :
  gpc_skipF c m = (Some c', m') -> gpc_skipF c (ext x m) = (Some c', ext x m').
Proof.
  unfold gpc_skip. destruct m as [cf q o k]. unfold ext, upd, took, set; cbn.
  destruct (ignore_lf cf); [|intros H; inversion H; reflexivity].
  destruct (c =? LF); [|intros H; inversion H; reflexivity].
  destruct q as [|d q']; cbn; [discriminate|]. intros H; inversion H; reflexivity.
Qed.

(* the only way to suspend inside get_preprocessed_char: the LF of a CR LF pair was the last character *)
Lemma gpc_skip_none c (m m' : M) :
  gpc_skipF c m = (None, m') ->
  ignore_lf (mc m) = true /\ c = LF /\ mq m = [] /\ m' = upd (fun x => x <| ignore_lf := false |>) m.
Proof.
  unfold gpc_skip. destruct m as [cf q o k]. unfold upd, took, set; cbn.
  destruct (ignore_lf cf); [|discriminate].
  destruct (c =? LF) eqn:E; [|discriminate].
  destruct q as [|d q']; cbn; [|discriminate]. intros H; inversion H. apply N.eqb_eq in E. auto.
Qed.

Lemma gpc_some c x (m m' : M) c' :
  gpcF c m = (Some c', m') -> gpcF c (ext x m) = (Some c', ext x m').
Proof.
  unfold get_preprocessed_char. destruct (gpc_skipF c m) as [[d|] m1] eqn:E; [|discriminate].
  rewrite (gpc_skip_some _ x _ _ _ E). rewrite gpc_post_ext.
  destruct (gpc_postF d m1) as [c2 m2]. cbn. intros H; inversion H; reflexivity.
Qed.

Lemma gpc_none c (m m' : M) :
  gpcF c m = (None, m') ->
  ignore_lf (mc m) = true /\ c = LF /\ mq m = [] /\ m' = upd (fun x => x <| ignore_lf := false |>) m.
Proof.
  unfold get_preprocessed_char. destruct (gpc_skipF c m) as [[d|] m1] eqn:E.
  - destruct (gpc_postF d m1); discriminate.
  - intros H; inversion H; subst. now apply gpc_skip_none.
Qed.

Lemma get_char_some x (m m' : M) c :
  get_charF m = (Some c, m') -> get_charF (ext x m) = (Some c, ext x m').
Proof.
  destruct m as [cf q o k]. unfold get_char. cbn.
  destruct (reconsume cf).
  - intros H; inversion H; reflexivity.
  - destruct q as [|d q']; cbn; [discriminate|].
    intros H. apply (gpc_some _ x) in H. exact H.
Qed.

(* get_char suspends only on an empty queue (possibly after swallowing the LF of a CR LF pair) *)
Inductive gc_none (m m' : M) : Prop :=
| gcn_empty : reconsume (mc m) = false -> mq m = [] -> m' = m -> gc_none m m'
| gcn_lf : reconsume (mc m) = false -> ignore_lf (mc m) = true -> mq m = [LF] ->
           m' = upd (fun x => x <| ignore_lf := false |>) (took 1 (m <| mq := [] |>)) -> gc_none m m'.

Lemma get_char_none (m m' : M) : get_charF m = (None, m') -> gc_none m m'.
Proof.
  unfold get_char. destruct (reconsume (mc m)) eqn:Hr; [discriminate|].
  destruct (mq m) as [|d q'] eqn:Hq; cbn [fq_next].
  - intros H; inversion H; subst. apply gcn_empty; auto.
  - intros H. apply gpc_none in H. destruct H as [Hi [-> [Hq' ->]]].
    destruct m as [cf q o k]; cbn in *. subst. apply gcn_lf; auto.
Qed.

(* after such a suspension, reading again once input is there gives what reading would have given had the
   input been there from the start *)
Local Arguments gpc_post : simpl never.
Lemma get_char_resume x (m m' : M) :
  get_charF m = (None, m') -> x <> [] -> get_charF (ext x m) = get_charF (ext x m').
Proof.
  intros H Hx. apply get_char_none in H. destruct H as [Hr Hq ->|Hr Hi Hq ->]; [reflexivity|].
  destruct x as [|d x']; [contradiction|].
  destruct m as [cf q o k]; cbn in Hr, Hi, Hq. subst q.
  unfold get_char, get_preprocessed_char, gpc_skip, ext, upd, took, set. cbn. rewrite Hr, Hi. cbn. reflexivity.
Qed.

(* ---------------------------------------------------------------- peek / discard *)
Lemma peek_some x (m : M) c : peekF m = Some c -> peekF (ext x m) = Some c.
Proof.
  destruct m as [cf q o k]. unfold peek. cbn. destruct (reconsume cf); [auto|].
  destruct q; cbn; [discriminate|auto].
Qed.
Lemma peek_none (m : M) : peekF m = None -> reconsume (mc m) = false /\ mq m = [].
Proof.
  destruct m as [cf q o k]. unfold peek. cbn. destruct (reconsume cf); [discriminate|].
  destruct q; cbn; [auto|discriminate].
Qed.

(* discarding the character that was just peeked (html: raw; xml: through get_char, never for a line feed) *)
Lemma discard_char_ext x (m : M) c :
  peekF m = Some c -> f_html fl = true \/ c <> LF ->
  discard_charF (ext x m) = ext x (discard_charF m).
Proof.
  destruct m as [cf q o k]. unfold peek, discard_char. cbn. intros Hp Hc.
  destruct (f_html fl) eqn:Hh.
  - destruct (reconsume cf); [reflexivity|]. destruct q as [|d q']; [discriminate|]. reflexivity.
  - destruct Hc as [Hc|Hc]; [discriminate|].
    unfold get_char. cbn. destruct (reconsume cf); [reflexivity|].
    destruct q as [|d q']; [discriminate|]. cbn in Hp. inversion Hp; subst d. cbn.
    unfold get_preprocessed_char, gpc_skip. cbn.
    replace (c =? LF) with false by (symmetry; apply N.eqb_neq; exact Hc).
    destruct (ignore_lf cf); unfold ext, upd, took, set; cbn.
    + match goal with |- context [gpc_postF c {| mc := ?a; mq := q' ++ x; mout := o; mcons := ?n |}] =>
        change {| mc := a; mq := q' ++ x; mout := o; mcons := n |}
          with (ext x {| mc := a; mq := q'; mout := o; mcons := n |}) end.
      rewrite gpc_post_ext. destruct (gpc_postF c _); reflexivity.
    + match goal with |- context [gpc_postF c {| mc := ?a; mq := q' ++ x; mout := o; mcons := ?n |}] =>
        change {| mc := a; mq := q' ++ x; mout := o; mcons := n |}
          with (ext x {| mc := a; mq := q'; mout := o; mcons := n |}) end.
      rewrite gpc_post_ext. destruct (gpc_postF c _); reflexivity.
Qed.

Lemma discard_ws_ext x (m : M) c c0 :
  peekF m = Some c0 -> f_html fl = true ->
  discard_wsF c (ext x m) = ext x (discard_wsF c m).
Proof.
  intros Hp Hh. unfold discard_ws. rewrite ext_mc.
  rewrite (discard_char_ext x m c0 Hp (or_introl Hh)).
  rewrite !upd_ext. destruct ((c =? CR) || (c =? LF) && negb (ignore_lf (mc m))); rewrite ?upd_ext; reflexivity.
Qed.
(* ---------------------------------------------------------------- eat *)
Lemma eat_cmp_true_ext ic p f x : eat_cmp ic p f = EatTrue -> eat_cmp ic p (f ++ x) = EatTrue.
Proof.
  revert f; induction p as [|a p IH]; intros f H; [reflexivity|].
  destruct f as [|b f]; cbn in *; [discriminate|].
  destruct (if ic then to_lower b =? to_lower a else b =? a); [auto|discriminate].
Qed.
Lemma eat_cmp_false_ext ic p f x : eat_cmp ic p f = EatFalse -> eat_cmp ic p (f ++ x) = EatFalse.
Proof.
  revert f; induction p as [|a p IH]; intros f H; [discriminate|].
  destruct f as [|b f]; cbn in *; [discriminate|].
  destruct (if ic then to_lower b =? to_lower a else b =? a); [auto|reflexivity].
Qed.
Lemma eat_cmp_true_len ic p f : eat_cmp ic p f = EatTrue -> (length p <= length f)%nat.
Proof.
  revert f; induction p as [|a p IH]; intros f H; [cbn; lia|].
  destruct f as [|b f]; cbn in *; [discriminate|].
  destruct (if ic then to_lower b =? to_lower a else b =? a); [|discriminate]. apply IH in H. lia.
Qed.
Notation QdropF := (@Qdrop (list N) [] fq_next).
Lemma qdrop_ext n f x : (n <= length f)%nat -> QdropF n (f ++ x) = QdropF n f ++ x.
Proof.
  revert f; induction n as [|n IH]; intros f H; [reflexivity|].
  destruct f as [|b f]; cbn in *; [lia|]. apply IH. lia.
Qed.
Lemma eat_cmp_false_nonempty ic p f : eat_cmp ic p f = EatFalse -> f <> [].
Proof. destruct p, f; cbn; try discriminate. Qed.

(* U: what eat() does first - push the look-ahead stash back in front of the queue *)
Definition U (m : M) : M := upd (fun c => c <| temp_buf := [] |>) (unconsumeF (temp_buf (mc m)) m).
(* the look-ahead stash made when eat() cannot decide yet *)
Definition stash (m : M) : M :=
  took (lenN (mq m)) (upd (fun c => c <| temp_buf := mq m |>) (m <| mq := [] |>)).

Lemma U_ext x (m : M) : U (ext x m) = ext x (U m).
Proof. unfold U. rewrite ext_mc, unconsume_ext, upd_ext. reflexivity. Qed.
Lemma U_idem (m : M) : temp_buf (mc m) = [] -> U m = m.
Proof.
  destruct m as [cf q o k]. cbn. intros H. unfold U, unconsume, gave, upd, lenN, set. cbn. rewrite H. cbn.
  rewrite N.sub_0_r. destruct cf; cbn in *; subst; reflexivity.
Qed.
Lemma U_temp (m : M) : temp_buf (mc (U m)) = [].
Proof. destruct m; reflexivity. Qed.
Lemma U_stash (m : M) : temp_buf (mc m) = [] -> U (stash m) = m.
Proof.
  destruct m as [cf q o k]. cbn. intros H. unfold U, stash, unconsume, gave, took, upd, lenN, set. cbn.
  rewrite app_nil_r. replace (N.of_nat (length q) + k - N.of_nat (length q)) with k by lia.
  destruct cf; cbn in *; subst; reflexivity.
Qed.

Lemma eat_body_U p e (m : M) : eat_bodyF p e m = eat_bodyF p e (U m).
Proof.
  unfold eat_body. fold (U m). fold (U (U m)). rewrite (U_idem (U m)) by apply U_temp. reflexivity.
Qed.

Inductive eat_result (p : str) (e : bool) (m : M) : option bool * M -> Prop :=
| er_true : eat_cmp (negb e) p (mq (U m)) = EatTrue ->
            eat_result p e m (Some true, took (lenN p) (U m <| mq := QdropF (length p) (mq (U m)) |>))
| er_false : eat_cmp (negb e) p (mq (U m)) = EatFalse -> eat_result p e m (Some false, U m)
| er_eof : at_eof (mc m) = true -> eat_result p e m (Some false, U m)
| er_none : at_eof (mc m) = false -> eat_result p e m (None, stash (U m)).

Lemma eat_body_cases p e (m : M) : eat_result p e m (eat_bodyF p e m).
Proof.
  unfold eat_body. fold (U m). unfold Qeat.
  destruct (fq_peek (mq (U m))) eqn:Hp.
  - destruct (eat_cmp (negb e) p (mq (U m))) eqn:Hc.
    + destruct (at_eof (mc (U m))) eqn:Ha.
      * apply er_eof. destruct m; exact Ha.
      * apply er_none. destruct m; exact Ha.
    + now apply er_false.
    + now apply er_true.
  - destruct (at_eof (mc (U m))) eqn:Ha.
    + apply er_eof. destruct m; exact Ha.
    + apply er_none. destruct m; exact Ha.
Qed.

Lemma eat_body_some_ext p e x (m m' : M) b :
  at_eof (mc m) = false -> eat_bodyF p e m = (Some b, m') -> eat_bodyF p e (ext x m) = (Some b, ext x m').
Proof.
  intros Ha H. unfold eat_body in *. fold (U m) in H. fold (U (ext x m)). rewrite U_ext, ext_mq.
  unfold Qeat in *. rewrite ext_mc.
  assert (Ha' : at_eof (mc (U m)) = false) by (destruct m; exact Ha).
  destruct (mq (U m)) as [|d q'] eqn:Hq; cbn [fq_peek] in H.
  - rewrite Ha' in H. discriminate.
  - cbn [fq_peek app]. change (d :: q' ++ x) with ((d :: q') ++ x).
    destruct (eat_cmp (negb e) p (d :: q')) eqn:Hc.
    + rewrite Ha' in H. discriminate.
    + rewrite (eat_cmp_false_ext _ _ _ x Hc). inversion H; reflexivity.
    + rewrite (eat_cmp_true_ext _ _ _ x Hc). inversion H; subst.
      rewrite qdrop_ext by (apply eat_cmp_true_len in Hc; exact Hc).
      destruct (U m); reflexivity.
Qed.

Lemma eat_body_none p e (m m' : M) : eat_bodyF p e m = (None, m') -> m' = stash (U m) /\ at_eof (mc m) = false.
Proof.
  intros H. pose proof (eat_body_cases p e m) as C. rewrite H in C. inversion C; subst; auto.
Qed.

Lemma eat_body_resume p e x (m m' : M) :
  eat_bodyF p e m = (None, m') -> eat_bodyF p e (ext x m) = eat_bodyF p e (ext x m').
Proof.
  intros H. apply eat_body_none in H. destruct H as [-> _].
  rewrite (eat_body_U p e (ext x m)), (eat_body_U p e (ext x (stash (U m)))).
  rewrite !U_ext, U_stash by apply U_temp. reflexivity.
Qed.
End Chunk.
