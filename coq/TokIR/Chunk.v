(* Chunk independence of the tokenizer semantics (C03 / C15), for EVERY table that passes the decidable
   shape check [shape_ok] and both flavours.

   Reference semantics: the TokIR interpreter over a FLAT queue with unit runs ([drive_flat]).  Appending input
   to the queue commutes with stepping:
     - a step that does not suspend is unaffected by what is appended behind the unread input   (ext_nosusp)
     - a step that suspends for lack of input only re-arranges look-ahead (stash), and stepping again once more
       input is there gives the same result as if the input had been there from the start      (ext_susp)
   hence feeding x1 then x2 reaches exactly the machine reached by feeding x1 ++ x2 (same tokens, parse errors,
   line numbers, configuration).  *)
From Coq Require Import List NArith Bool Lia Arith.
From RecordUpdate Require Import RecordSet.
From HV Require Import TokIR.IR TokIR.Interp TokIR.Checks.
Import ListNotations RecordSetNotations.
Local Open Scope N_scope.

Section Chunk.
Context {S : Type}.
Variable fl : flavour S.
Variable tb : table S.
Variable simd : list N * list N * list N.
Variable ent : list N -> option (N * N).
Variable c1 : N -> option N.
Variable sk : sinkcfg.

Notation M := (mach S (list N)).
Notation fid := (fun q : list N => q).
Notation gpcF := (@get_preprocessed_char S (list N) fq_next fl).
Notation get_charF := (@get_char S (list N) fq_next fl).
Notation peekF := (@peek S (list N) fq_peek).
Notation discard_charF := (@discard_char S (list N) fq_next fl).
Notation discard_wsF := (@discard_ws S (list N) fq_next fl).
Notation popF := (@pop_except_from S (list N) fq_next fq_peek fq_run1 fl simd).
Notation eat_bodyF := (@eat_body S (list N) [] fq_next fq_peek (@app N) fid).
Notation eatF := (@eat S (list N) [] fq_next fq_peek (@app N) fid fl).
Notation do_cmdF := (@do_cmd S (list N) fq_next fl).
Notation do_termF := (@do_term S (list N) fl sk).
Notation execF := (@exec S (list N) [] fq_next fq_peek (@app N) fid fq_run1 fl simd sk).
Notation unconsumeF := (@unconsume S (list N) (@app N)).
Notation cr_stepF := (@cr_step S (list N) fq_next fq_peek (@app N) fl ent c1).
Notation stepF := (@step S (list N) [] fq_next fq_peek (@app N) fid fq_run1 fl tb simd ent c1 sk).

(* append input behind everything unread *)
Definition ext (x : list N) (m : M) : M := m <| mq ::= (fun q => q ++ x) |>.

Ltac rs := unfold set; cbn.

(* ---------------------------------------------------------------- frame lemmas *)
Lemma upd_ext f x (m : M) : upd f (ext x m) = ext x (upd f m).
Proof. destruct m; reflexivity. Qed.
Lemma emit_ext t x (m : M) : emit t (ext x m) = ext x (emit t m).
Proof. destruct m; reflexivity. Qed.
Lemma err_ext x (m : M) : err (ext x m) = ext x (err m).
Proof. apply emit_ext. Qed.
Lemma took_ext n x (m : M) : took n (ext x m) = ext x (took n m).
Proof. destruct m; reflexivity. Qed.
Lemma unconsume_ext b x (m : M) : unconsumeF b (ext x m) = ext x (unconsumeF b m).
Proof. destruct m; unfold unconsume, gave, ext, set; cbn. rewrite app_assoc. reflexivity. Qed.
Lemma ext_mc x (m : M) : mc (ext x m) = mc m.
Proof. destruct m; reflexivity. Qed.
Lemma ext_mq x (m : M) : mq (ext x m) = mq m ++ x.
Proof. destruct m; reflexivity. Qed.
Lemma ext_nil (m : M) : ext [] m = m.
Proof. destruct m; unfold ext, set; cbn. rewrite app_nil_r. reflexivity. Qed.
Lemma ext_ext x y (m : M) : ext y (ext x m) = ext (x ++ y) m.
Proof. destruct m; unfold ext, set; cbn. rewrite app_assoc. reflexivity. Qed.
Lemma setq_ext q x (m : M) : (m <| mq := q ++ x |>) = ext x (m <| mq := q |>).
Proof. destruct m; reflexivity. Qed.

(* ---------------------------------------------------------------- get_preprocessed_char / get_char *)
Notation gpc_skipF := (@gpc_skip S (list N) fq_next).
Notation gpc_postF := (@gpc_post S (list N) fl).

Lemma gpc_post_ext c x (m : M) :
  gpc_postF c (ext x m) = (fst (gpc_postF c m), ext x (snd (gpc_postF c m))).
Proof.
  unfold gpc_post. rewrite ext_mc.
  destruct (gpc_decide (f_html fl) (exact (mc m)) c) as [[[c' a] b] d].
  destruct m; destruct a, b, d; reflexivity.
Qed.

Lemma gpc_skip_some c x (m m' : M) c' :
  gpc_skipF c m = (Some c', m') -> gpc_skipF c (ext x m) = (Some c', ext x m').
Proof.
  unfold gpc_skip. destruct m as [cf q o k]. unfold ext, upd, took, set; cbn.
  destruct (ignore_lf cf); [|intros H; inversion H; reflexivity].
  destruct (c =? LF); [|intros H; inversion H; reflexivity].
  destruct q as [|d q']; cbn; [discriminate|]. intros H; inversion H; reflexivity.
Qed.

(* the only way to suspend inside get_preprocessed_char: the LF of a CR LF pair was the last character *)
Lemma gpc_skip_none c (m m' : M) :
  gpc_skipF c m = (None, m') ->
  ignore_lf (mc m) = true /\ c = LF /\ mq m = [] /\ m' = upd (fun x => x <| ignore_lf := false |>) m.
Proof.
  unfold gpc_skip. destruct m as [cf q o k]. unfold upd, took, set; cbn.
  destruct (ignore_lf cf); [|discriminate].
  destruct (c =? LF) eqn:E; [|discriminate].
  destruct q as [|d q']; cbn; [|discriminate]. intros H; inversion H. apply N.eqb_eq in E. auto.
Qed.

Lemma gpc_some c x (m m' : M) c' :
  gpcF c m = (Some c', m') -> gpcF c (ext x m) = (Some c', ext x m').
Proof.
  unfold get_preprocessed_char. destruct (gpc_skipF c m) as [[d|] m1] eqn:E; [|discriminate].
  rewrite (gpc_skip_some _ x _ _ _ E). rewrite gpc_post_ext.
  destruct (gpc_postF d m1) as [c2 m2]. cbn. intros H; inversion H; reflexivity.
Qed.

Lemma gpc_none c (m m' : M) :
  gpcF c m = (None, m') ->
  ignore_lf (mc m) = true /\ c = LF /\ mq m = [] /\ m' = upd (fun x => x <| ignore_lf := false |>) m.
Proof.
  unfold get_preprocessed_char. destruct (gpc_skipF c m) as [[d|] m1] eqn:E.
  - destruct (gpc_postF d m1); discriminate.
  - intros H; inversion H; subst. now apply gpc_skip_none.
Qed.

Lemma get_char_some x (m m' : M) c :
  get_charF m = (Some c, m') -> get_charF (ext x m) = (Some c, ext x m').
Proof.
  destruct m as [cf q o k]. unfold get_char. cbn.
  destruct (reconsume cf).
  - intros H; inversion H; reflexivity.
  - destruct q as [|d q']; cbn; [discriminate|].
    intros H. apply (gpc_some _ x) in H. exact H.
Qed.

(* get_char suspends only on an empty queue (possibly after swallowing the LF of a CR LF pair) *)
Inductive gc_none (m m' : M) : Prop :=
| gcn_empty : reconsume (mc m) = false -> mq m = [] -> m' = m -> gc_none m m'
| gcn_lf : reconsume (mc m) = false -> ignore_lf (mc m) = true -> mq m = [LF] ->
           m' = upd (fun x => x <| ignore_lf := false |>) (took 1 (m <| mq := [] |>)) -> gc_none m m'.

Lemma get_char_none (m m' : M) : get_charF m = (None, m') -> gc_none m m'.
Proof.
  unfold get_char. destruct (reconsume (mc m)) eqn:Hr; [discriminate|].
  destruct (mq m) as [|d q'] eqn:Hq; cbn [fq_next].
  - intros H; inversion H; subst. apply gcn_empty; auto.
  - intros H. apply gpc_none in H. destruct H as [Hi [-> [Hq' ->]]].
    destruct m as [cf q o k]; cbn in *. subst. apply gcn_lf; auto.
Qed.

(* after such a suspension, reading again once input is there gives what reading would have given had the
   input been there from the start *)
Local Arguments gpc_post : simpl never.
Lemma get_char_resume x (m m' : M) :
  get_charF m = (None, m') -> x <> [] -> get_charF (ext x m) = get_charF (ext x m').
Proof.
  intros H Hx. apply get_char_none in H. destruct H as [Hr Hq ->|Hr Hi Hq ->]; [reflexivity|].
  destruct x as [|d x']; [contradiction|].
  destruct m as [cf q o k]; cbn in Hr, Hi, Hq. subst q.
  unfold get_char, get_preprocessed_char, gpc_skip, ext, upd, took, set. cbn. rewrite Hr, Hi. cbn. reflexivity.
Qed.

End Chunk.
