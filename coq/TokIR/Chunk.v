(* Chunk independence of the tokenizer semantics (C03 / C15), for EVERY table that passes the decidable
   shape check [shape_ok] and both flavours.

   Reference semantics: the TokIR interpreter over a FLAT queue with unit runs ([drive_flat]).  Appending input
   to the queue commutes with stepping:
     - a step that does not suspend is unaffected by what is appended behind the unread input   (ext_nosusp)
     - a step that suspends for lack of input only re-arranges look-ahead (stash), and stepping again once more
       input is there gives the same result as if the input had been there from the start      (ext_susp)
   hence feeding x1 then x2 reaches exactly the machine reached by feeding x1 ++ x2 (same tokens, parse errors,
   line numbers, configuration).  *)
From Coq Require Import List NArith Bool Lia Arith.
From RecordUpdate Require Import RecordSet.
From HV Require Import TokIR.IR TokIR.Interp TokIR.Checks.
Import ListNotations RecordSetNotations.
Local Open Scope N_scope.

Section Chunk.
Context {S : Type}.
Variable fl : flavour S.
Variable ex : bool.        (* exact_errors *)
Variable tb : table S.
Variable simd : list N * list N * list N.
Variable ent : list N -> option (N * N).
Variable c1 : N -> option N.
Variable sk : sinkcfg.

Notation M := (mach S (list N)).
Notation fid := (fun q : list N => q).
Notation gpcF := (@get_preprocessed_char S (list N) fq_next fl ex).
Notation get_charF := (@get_char S (list N) fq_next fl ex).
Notation peekF := (@peek S (list N) fq_peek).
Notation discard_charF := (@discard_char S (list N) fq_next fl ex).
Notation discard_wsF := (@discard_ws S (list N) fq_next fl ex).
Notation popF := (@pop_except_from S (list N) fq_next fq_peek fq_run1 fl ex simd).
Notation eat_bodyF := (@eat_body S (list N) [] fq_next fq_peek (@app N) fid false).
Notation eatF := (@eat S (list N) [] fq_next fq_peek (@app N) fid fl ex false).
Notation do_cmdF := (@do_cmd S (list N) fq_next fl ex).
Notation do_termF := (@do_term S (list N) fl sk).
Notation execF := (@exec S (list N) [] fq_next fq_peek (@app N) fid fq_run1 fl ex simd sk false).
Notation unconsumeF := (@unconsume S (list N) (@app N)).
Notation cr_stepF := (@cr_step S (list N) fq_next fq_peek (@app N) fl ex ent c1).
Notation stepF := (@step S (list N) [] fq_next fq_peek (@app N) fid fq_run1 fl ex tb simd ent c1 sk false).

(* append input behind everything unread *)
Definition ext (x : list N) (m : M) : M := m <| mq ::= (fun q => q ++ x) |>.

Ltac rs := unfold set; cbn.

(* ---------------------------------------------------------------- frame lemmas *)
Lemma upd_ext f x (m : M) : upd f (ext x m) = ext x (upd f m).
Proof. destruct m; reflexivity. Qed.
Lemma emit_ext t x (m : M) : emit t (ext x m) = ext x (emit t m).
Proof. destruct m; reflexivity. Qed.
Lemma err_ext x (m : M) : err (ext x m) = ext x (err m).
Proof. apply emit_ext. Qed.
Lemma took_ext n x (m : M) : took n (ext x m) = ext x (took n m).
Proof. destruct m; reflexivity. Qed.
Lemma unconsume_ext b x (m : M) : unconsumeF b (ext x m) = ext x (unconsumeF b m).
Proof. destruct m; unfold unconsume, gave, ext, set; cbn. rewrite app_assoc. reflexivity. Qed.
Lemma ext_mc x (m : M) : mc (ext x m) = mc m.
Proof. destruct m; reflexivity. Qed.
Lemma ext_mq x (m : M) : mq (ext x m) = mq m ++ x.
Proof. destruct m; reflexivity. Qed.
Lemma ext_nil (m : M) : ext [] m = m.
Proof. destruct m; unfold ext, set; cbn. rewrite app_nil_r. reflexivity. Qed.
Lemma ext_ext x y (m : M) : ext y (ext x m) = ext (x ++ y) m.
Proof. destruct m; unfold ext, set; cbn. rewrite app_assoc. reflexivity. Qed.
Lemma setq_ext q x (m : M) : (m <| mq := q ++ x |>) = ext x (m <| mq := q |>).
Proof. destruct m; reflexivity. Qed.

(* ---------------------------------------------------------------- get_preprocessed_char / get_char *)
Notation gpc_skipF := (@gpc_skip S (list N) fq_next).
Notation gpc_postF := (@gpc_post S (list N) fl ex).

Lemma gpc_post_ext c x (m : M) :
  gpc_postF c (ext x m) = (fst (gpc_postF c m), ext x (snd (gpc_postF c m))).
Proof.
  unfold gpc_post.
  destruct (gpc_decide (f_html fl) ex c) as [[[c' a] b] d].
  destruct m; destruct a, b, d; reflexivity.
Qed.

Lemma gpc_skip_some c x (m m' : M) c' :
  gpc_skipF c m = (Some c', m') -> gpc_skipF c (ext x m) = (Some c', ext x m').
Proof.
  unfold gpc_skip. destruct m as [cf q o k]. unfold ext, upd, took, set; cbn.
  destruct (ignore_lf cf); [|intros H; inversion H; reflexivity].
  destruct (c =? LF); [|intros H; inversion H; reflexivity].
  destruct q as [|d q']; cbn; [discriminate|]. intros H; inversion H; reflexivity.
Qed.

(* the only way to suspend inside get_preprocessed_char: the LF of a CR LF pair was the last character *)
Lemma gpc_skip_none c (m m' : M) :
  gpc_skipF c m = (None, m') ->
  ignore_lf (mc m) = true /\ c = LF /\ mq m = [] /\ m' = upd (fun x => x <| ignore_lf := false |>) m.
Proof.
  unfold gpc_skip. destruct m as [cf q o k]. unfold upd, took, set; cbn.
  destruct (ignore_lf cf); [|discriminate].
  destruct (c =? LF) eqn:E; [|discriminate].
  destruct q as [|d q']; cbn; [|discriminate]. intros H; inversion H. apply N.eqb_eq in E. auto.
Qed.

Lemma gpc_some c x (m m' : M) c' :
  gpcF c m = (Some c', m') -> gpcF c (ext x m) = (Some c', ext x m').
Proof.
  unfold get_preprocessed_char. destruct (gpc_skipF c m) as [[d|] m1] eqn:E; [|discriminate].
  rewrite (gpc_skip_some _ x _ _ _ E). rewrite gpc_post_ext.
  destruct (gpc_postF d m1) as [c2 m2]. cbn. intros H; inversion H; reflexivity.
Qed.

Lemma gpc_none c (m m' : M) :
  gpcF c m = (None, m') ->
  ignore_lf (mc m) = true /\ c = LF /\ mq m = [] /\ m' = upd (fun x => x <| ignore_lf := false |>) m.
Proof.
  unfold get_preprocessed_char. destruct (gpc_skipF c m) as [[d|] m1] eqn:E.
  - destruct (gpc_postF d m1); discriminate.
  - intros H; inversion H; subst. now apply gpc_skip_none.
Qed.

Lemma get_char_some x (m m' : M) c :
  get_charF m = (Some c, m') -> get_charF (ext x m) = (Some c, ext x m').
Proof.
  destruct m as [cf q o k]. unfold get_char. cbn.
  destruct (reconsume cf).
  - intros H; inversion H; reflexivity.
  - destruct q as [|d q']; cbn; [discriminate|].
    intros H. apply (gpc_some _ x) in H. exact H.
Qed.

(* get_char suspends only on an empty queue (possibly after swallowing the LF of a CR LF pair) *)
Inductive gc_none (m m' : M) : Prop :=
| gcn_empty : reconsume (mc m) = false -> mq m = [] -> m' = m -> gc_none m m'
| gcn_lf : reconsume (mc m) = false -> ignore_lf (mc m) = true -> mq m = [LF] ->
           m' = upd (fun x => x <| ignore_lf := false |>) (took 1 (m <| mq := [] |>)) -> gc_none m m'.

Lemma get_char_none (m m' : M) : get_charF m = (None, m') -> gc_none m m'.
Proof.
  unfold get_char. destruct (reconsume (mc m)) eqn:Hr; [discriminate|].
  destruct (mq m) as [|d q'] eqn:Hq; cbn [fq_next].
  - intros H; inversion H; subst. apply gcn_empty; auto.
  - intros H. apply gpc_none in H. destruct H as [Hi [-> [Hq' ->]]].
    destruct m as [cf q o k]; cbn in *. subst. apply gcn_lf; auto.
Qed.

(* after such a suspension, reading again once input is there gives what reading would have given had the
   input been there from the start *)
Local Arguments gpc_post : simpl never.
Lemma gpc_skip_lf (m : M) d q' :
  ignore_lf (mc m) = true -> mq m = d :: q' ->
  gpc_skipF LF m = (Some d, took 1 (upd (fun x => x <| ignore_lf := false |>) m <| mq := q' |>)).
Proof.
  destruct m as [cf q o k]. cbn. intros Hi ->. unfold gpc_skip. cbn. rewrite Hi. reflexivity.
Qed.
Lemma gpc_skip_noil c (m : M) : ignore_lf (mc m) = false -> gpc_skipF c m = (Some c, m).
Proof. intros Hi. unfold gpc_skip. rewrite Hi. reflexivity. Qed.

Lemma get_char_resume x (m m' : M) :
  get_charF m = (None, m') -> x <> [] -> get_charF (ext x m) = get_charF (ext x m').
Proof.
  intros H Hx. apply get_char_none in H. destruct H as [Hr Hq ->|Hr Hi Hq ->]; [reflexivity|].
  destruct x as [|d x']; [contradiction|].
  unfold get_char at 1. rewrite ext_mc, Hr, ext_mq, Hq. cbn [app fq_next].
  unfold get_preprocessed_char at 1.
  rewrite (gpc_skip_lf _ d x') by (destruct m; cbn in *; auto).
  unfold get_char. 
  assert (E1 : reconsume (mc (ext (d :: x') (upd (fun x0 => x0 <| ignore_lf := false |>) (took 1 (m <| mq := [] |>))))) = false)
    by (destruct m; exact Hr).
  rewrite E1.
  assert (E2 : mq (ext (d :: x') (upd (fun x0 => x0 <| ignore_lf := false |>) (took 1 (m <| mq := [] |>)))) = d :: x')
    by (destruct m; reflexivity).
  rewrite E2. cbn [fq_next]. unfold get_preprocessed_char.
  rewrite gpc_skip_noil by (destruct m; reflexivity).
  match goal with |- (let '(c', m2) := gpc_postF d ?A in _) = (let '(c', m2) := gpc_postF d ?B in _) =>
    replace A with B by (destruct m; reflexivity) end.
  reflexivity.
Qed.

(* ---------------------------------------------------------------- peek / discard *)
Lemma peek_some x (m : M) c : peekF m = Some c -> peekF (ext x m) = Some c.
Proof.
  destruct m as [cf q o k]. unfold peek. cbn. destruct (reconsume cf); [auto|].
  destruct q; cbn; [discriminate|auto].
Qed.
Lemma peek_none (m : M) : peekF m = None -> reconsume (mc m) = false /\ mq m = [].
Proof.
  destruct m as [cf q o k]. unfold peek. cbn. destruct (reconsume cf); [discriminate|].
  destruct q; cbn; [auto|discriminate].
Qed.

(* discarding the character that was just peeked (html: raw; xml: through get_char, never for a line feed) *)
Lemma discard_char_ext x (m : M) c :
  peekF m = Some c -> f_html fl = true \/ c <> LF ->
  discard_charF (ext x m) = ext x (discard_charF m).
Proof.
  destruct m as [cf q o k]. unfold peek, discard_char. cbn. intros Hp Hc.
  destruct (f_html fl) eqn:Hh.
  - destruct (reconsume cf); [reflexivity|]. destruct q as [|d q']; [discriminate|]. reflexivity.
  - destruct Hc as [Hc|Hc]; [discriminate|].
    unfold get_char. cbn. destruct (reconsume cf); [reflexivity|].
    destruct q as [|d q']; [discriminate|]. cbn in Hp. inversion Hp; subst d. cbn.
    unfold get_preprocessed_char, gpc_skip. cbn.
    replace (c =? LF) with false by (symmetry; apply N.eqb_neq; exact Hc).
    destruct (ignore_lf cf); unfold ext, upd, took, set; cbn.
    + match goal with |- context [gpc_postF c {| mc := ?a; mq := q' ++ x; mout := o; mcons := ?n |}] =>
        change {| mc := a; mq := q' ++ x; mout := o; mcons := n |}
          with (ext x {| mc := a; mq := q'; mout := o; mcons := n |}) end.
      rewrite gpc_post_ext. destruct (gpc_postF c _); reflexivity.
    + match goal with |- context [gpc_postF c {| mc := ?a; mq := q' ++ x; mout := o; mcons := ?n |}] =>
        change {| mc := a; mq := q' ++ x; mout := o; mcons := n |}
          with (ext x {| mc := a; mq := q'; mout := o; mcons := n |}) end.
      rewrite gpc_post_ext. destruct (gpc_postF c _); reflexivity.
Qed.

Lemma discard_ws_ext x (m : M) c c0 :
  peekF m = Some c0 -> f_html fl = true ->
  discard_wsF c (ext x m) = ext x (discard_wsF c m).
Proof.
  intros Hp Hh. unfold discard_ws. rewrite ext_mc.
  rewrite (discard_char_ext x m c0 Hp (or_introl Hh)).
  rewrite !upd_ext. destruct ((c =? CR) || (c =? LF) && negb (ignore_lf (mc m))); rewrite ?upd_ext; reflexivity.
Qed.
(* ---------------------------------------------------------------- eat *)
Lemma eat_cmp_true_ext ic p f x : eat_cmp ic p f = EatTrue -> eat_cmp ic p (f ++ x) = EatTrue.
Proof.
  revert f; induction p as [|a p IH]; intros f H; [reflexivity|].
  destruct f as [|b f]; cbn in *; [discriminate|].
  destruct (if ic then to_lower b =? to_lower a else b =? a); [auto|discriminate].
Qed.
Lemma eat_cmp_false_ext ic p f x : eat_cmp ic p f = EatFalse -> eat_cmp ic p (f ++ x) = EatFalse.
Proof.
  revert f; induction p as [|a p IH]; intros f H; [discriminate|].
  destruct f as [|b f]; cbn in *; [discriminate|].
  destruct (if ic then to_lower b =? to_lower a else b =? a); [auto|reflexivity].
Qed.
Lemma eat_cmp_true_len ic p f : eat_cmp ic p f = EatTrue -> (length p <= length f)%nat.
Proof.
  revert f; induction p as [|a p IH]; intros f H; [cbn; lia|].
  destruct f as [|b f]; cbn in *; [discriminate|].
  destruct (if ic then to_lower b =? to_lower a else b =? a); [|discriminate]. apply IH in H. lia.
Qed.
Notation QdropF := (@Qdrop (list N) [] fq_next).
Lemma qdrop_ext n f x : (n <= length f)%nat -> QdropF n (f ++ x) = QdropF n f ++ x.
Proof.
  revert f; induction n as [|n IH]; intros f H; [reflexivity|].
  destruct f as [|b f]; cbn in *; [lia|]. apply IH. lia.
Qed.
Lemma eat_cmp_false_nonempty ic p f : eat_cmp ic p f = EatFalse -> f <> [].
Proof. destruct p, f; cbn; try discriminate. Qed.

(* U: what eat() does first - push the look-ahead stash back in front of the queue *)
Definition U (m : M) : M := upd (fun c => c <| temp_buf := [] |>) (unconsumeF (temp_buf (mc m)) m).
(* the look-ahead stash made when eat() cannot decide yet *)
Definition stash (m : M) : M :=
  took (lenN (mq m)) (upd (fun c => c <| temp_buf := mq m |>) (m <| mq := [] |>)).

Lemma U_ext x (m : M) : U (ext x m) = ext x (U m).
Proof. unfold U. rewrite ext_mc, unconsume_ext, upd_ext. reflexivity. Qed.
Lemma U_idem (m : M) : temp_buf (mc m) = [] -> U m = m.
Proof.
  destruct m as [cf q o k]. cbn. intros H. unfold U, unconsume, gave, upd, lenN, set. cbn. rewrite H. cbn.
  rewrite N.sub_0_r. destruct cf; cbn in *; subst; reflexivity.
Qed.
Lemma U_temp (m : M) : temp_buf (mc (U m)) = [].
Proof. destruct m; reflexivity. Qed.
Lemma U_stash (m : M) : temp_buf (mc m) = [] -> U (stash m) = m.
Proof.
  destruct m as [cf q o k]. cbn. intros H. unfold U, stash, unconsume, gave, took, upd, lenN, set. cbn.
  rewrite app_nil_r. replace (N.of_nat (length q) + k - N.of_nat (length q)) with k by lia.
  destruct cf; cbn in *; subst; reflexivity.
Qed.

Lemma eat_body_U p e (m : M) : eat_bodyF p e m = eat_bodyF p e (U m).
Proof.
  unfold eat_body. fold (U m). fold (U (U m)). rewrite (U_idem (U m)) by apply U_temp. reflexivity.
Qed.

Inductive eat_result (p : str) (e : bool) (m : M) : option bool * M -> Prop :=
| er_true : eat_cmp (negb e) p (mq (U m)) = EatTrue ->
            eat_result p e m (Some true, took (lenN p) (U m <| mq := QdropF (length p) (mq (U m)) |>))
| er_false : eat_cmp (negb e) p (mq (U m)) = EatFalse -> mq (U m) <> [] -> eat_result p e m (Some false, U m)
| er_none : eat_result p e m (None, stash (U m)).

Lemma eat_body_cases p e (m : M) : eat_result p e m (eat_bodyF p e m).
Proof.
  unfold eat_body. fold (U m). unfold Qeat.
  destruct (fq_peek (mq (U m))) eqn:Hp.
  - destruct (eat_cmp (negb e) p (mq (U m))) eqn:Hc.
    + apply er_none.
    + apply er_false; [assumption|]. destruct (mq (U m)); [discriminate|discriminate].
    + now apply er_true.
  - apply er_none.
Qed.

Lemma eat_body_some_ext p e x (m m' : M) b :
  eat_bodyF p e m = (Some b, m') -> eat_bodyF p e (ext x m) = (Some b, ext x m').
Proof.
  intros H. unfold eat_body in *. fold (U m) in H. fold (U (ext x m)). rewrite U_ext, ext_mq.
  unfold Qeat in *.
  destruct (mq (U m)) as [|d q'] eqn:Hq; cbn [fq_peek] in H; [discriminate|].
  cbn [fq_peek app]. change (d :: q' ++ x) with ((d :: q') ++ x).
  destruct (eat_cmp (negb e) p (d :: q')) eqn:Hc.
  - discriminate.
  - rewrite (eat_cmp_false_ext _ _ _ x Hc). inversion H; reflexivity.
  - rewrite (eat_cmp_true_ext _ _ _ x Hc). inversion H; subst.
    rewrite qdrop_ext by (apply eat_cmp_true_len in Hc; exact Hc).
    destruct (U m); reflexivity.
Qed.

Lemma eat_body_none p e (m m' : M) : eat_bodyF p e m = (None, m') -> m' = stash (U m).
Proof.
  intros H. pose proof (eat_body_cases p e m) as C. rewrite H in C. inversion C; subst; auto.
Qed.

Lemma eat_body_resume p e x (m m' : M) :
  eat_bodyF p e m = (None, m') -> eat_bodyF p e (ext x m) = eat_bodyF p e (ext x m').
Proof.
  intros H. apply eat_body_none in H. subst m'.
  rewrite (eat_body_U p e (ext x m)), (eat_body_U p e (ext x (stash (U m)))).
  rewrite !U_ext, U_stash by apply U_temp. reflexivity.
Qed.
(* eat() proper: the pending-LF clause, then eat_body *)
Definition skip_lf (m : M) (c : N) : M :=
  upd (fun x => x <| ignore_lf := false |>)
      (if c =? LF then
         (if f_html fl then discard_charF m
          else match fq_next (mq m) with Some (_, q') => took 1 (m <| mq := q' |>) | None => m end)
       else m).

Lemma eat_unfold p e (m : M) :
  eatF p e m =
  if ignore_lf (mc m) then
    match peekF m with
    | None => (None, m)
    | Some c => eat_bodyF p e (skip_lf m c)
    end
  else eat_bodyF p e m.
Proof. reflexivity. Qed.

Definition rec_ok (m : M) : Prop := f_html fl = true \/ reconsume (mc m) = false.

Lemma skip_lf_ext x (m : M) c :
  peekF m = Some c -> rec_ok m -> skip_lf (ext x m) c = ext x (skip_lf m c).
Proof.
  intros Hp Hr. unfold skip_lf. rewrite <- upd_ext. f_equal.
  destruct (c =? LF) eqn:E; [|reflexivity].
  destruct (f_html fl) eqn:Hh.
  - apply (discard_char_ext x m c Hp). left. exact Hh.
  - destruct Hr as [Hr|Hr]; [congruence|].
    destruct m as [cf q o k]. unfold peek in Hp. cbn in Hp, Hr. rewrite Hr in Hp.
    destruct q as [|d q']; [discriminate|]. reflexivity.
Qed.

Lemma eat_some_ext p e x (m m' : M) b :
  rec_ok m ->
  eatF p e m = (Some b, m') -> eatF p e (ext x m) = (Some b, ext x m').
Proof.
  intros Hr. rewrite !eat_unfold, ext_mc.
  destruct (ignore_lf (mc m)).
  - destruct (peekF m) as [c|] eqn:Hp.
    + rewrite (peek_some x m c Hp). rewrite skip_lf_ext; [|assumption|assumption].
      apply eat_body_some_ext.
    + discriminate.
  - apply eat_body_some_ext.
Qed.

(* a suspended eat() resumes as if the input had been there from the start *)
Lemma eat_resume p e x (m m' : M) :
  rec_ok m ->
  eatF p e m = (None, m') -> eatF p e (ext x m) = eatF p e (ext x m').
Proof.
  intros Hr H. rewrite eat_unfold in H.
  destruct (ignore_lf (mc m)) eqn:Hi.
  - destruct (peekF m) as [c|] eqn:Hp.
    + rewrite (eat_unfold p e (ext x m)), ext_mc, Hi, (peek_some x m c Hp).
      rewrite skip_lf_ext; [|assumption|assumption].
      rewrite (eat_body_resume p e x _ _ H).
      apply eat_body_none in H. subst m'.
      rewrite eat_unfold, ext_mc.
      assert (E : ignore_lf (mc (stash (U (skip_lf m c)))) = false).
      { unfold skip_lf. destruct (if c =? LF then _ else m); reflexivity. }
      rewrite E. reflexivity.
    + inversion H; subst. reflexivity.
  - rewrite (eat_unfold p e (ext x m)), ext_mc, Hi.
    rewrite (eat_body_resume p e x _ _ H).
    apply eat_body_none in H. subst m'.
    rewrite eat_unfold, ext_mc.
    assert (E : ignore_lf (mc (stash (U m))) = false) by (destruct m; cbn in *; exact Hi).
    rewrite E. reflexivity.
Qed.

(* ---------------------------------------------------------------- commands and terminators never look at the queue *)
Notation finish_attributeF := (@finish_attribute S (list N) fl).
Notation emit_current_tagF := (@emit_current_tag S (list N) fl sk).

Lemma finish_attribute_ext x (m : M) : finish_attributeF (ext x m) = ext x (finish_attributeF m).
Proof.
  unfold finish_attribute. rewrite !ext_mc.
  destruct (attr_name (mc m)) as [|a0 an]; [reflexivity|].
  destruct (f_html fl).
  - destruct (existsb _ (tag_attrs (mc m))); destruct m; reflexivity.
  - destruct (existsb _ (tag_attrs (mc m))); [destruct m; reflexivity|].
    destruct (qname_split (a0 :: an)) as [p l]. destruct m; reflexivity.
Qed.

Lemma discard_tag_ext x (m : M) : @discard_tag S (list N) fl (ext x m) = ext x (@discard_tag S (list N) fl m).
Proof. unfold discard_tag. destruct (f_html fl); destruct m; reflexivity. Qed.

Lemma emit_char_ext c x (m : M) : @emit_char S (list N) fl c (ext x m) = ext x (@emit_char S (list N) fl c m).
Proof. unfold emit_char. destruct (f_html fl); [destruct (c =? 0)|]; destruct m; reflexivity. Qed.

Definition is_discard (k : cmd) : bool := match k with DiscardChar | DiscardWs => true | _ => false end.

Lemma do_cmd_ext k c run x (m : M) :
  is_discard k = false -> do_cmdF k c run (ext x m) = ext x (do_cmdF k c run m).
Proof.
  intros Hk. destruct k; try discriminate; cbn [do_cmd];
    rewrite ?finish_attribute_ext, ?discard_tag_ext, ?emit_char_ext, ?ext_mc;
    try (destruct m; reflexivity).
  - destruct k; destruct m; reflexivity.
  - destruct k; destruct m; reflexivity.
Qed.

Lemma emit_current_tag_ext x (m : M) :
  emit_current_tagF (ext x m) = (ext x (fst (emit_current_tagF m)), snd (emit_current_tagF m)).
Proof.
  unfold emit_current_tag. rewrite finish_attribute_ext. rewrite !ext_mc.
  set (m1 := finish_attributeF m).
  destruct (f_html fl).
  - destruct (tag_kind (mc m1)) eqn:Ek;
      destruct (lookup_resp (tag_name (mc m1)) (sk_resp sk)) as [[]|];
      destruct (tag_attrs (mc m1)); destruct (tag_self (mc m1)); destruct m1; reflexivity.
  - destruct (tag_kind (mc m1)) eqn:Ek;
      destruct (lookup_resp (tag_name (mc m1)) (sk_resp sk)) as [[]|];
      destruct (tag_attrs (mc m1)); destruct m1; reflexivity.
Qed.

Lemma do_term_ext t x (m : M) : do_termF t (ext x m) = (ext x (fst (do_termF t m)), snd (do_termF t m)).
Proof.
  destruct t; cbn [do_term]; rewrite ?upd_ext, ?emit_current_tag_ext; try (destruct m; reflexivity).
  - destruct k; cbn [do_term]; rewrite ?upd_ext, ?emit_current_tag_ext; reflexivity.
Qed.
(* ---------------------------------------------------------------- shapes of arm bodies *)
Fixpoint no_eof (b : body S) : bool :=
  match b with
  | BRead _ k => no_eof k
  | BPop _ _ r c => no_eof r && no_eof c
  | BEat _ _ y n | BIf _ y n => no_eof y && no_eof n
  | BCmd _ k => no_eof k
  | BEnd Eof => false
  | BEnd _ => true
  end.
(* no read, no discard *)
Fixpoint plain (b : body S) : bool :=
  match b with
  | BRead _ _ | BPop _ _ _ _ | BEat _ _ _ _ => false
  | BIf _ y n => plain y && plain n
  | BCmd k r => negb (is_discard k) && plain r
  | BEnd _ => true
  end.
(* what may follow a peek: tests, then at most one discard (first), then a plain body *)
Fixpoint ptail (b : body S) : bool :=
  match b with
  | BIf _ y n => ptail y && ptail n
  | BCmd k r => plain r
  | BEnd _ => true
  | _ => false
  end.
(* what may follow a look-ahead that said "no": more look-aheads, tests, one get_char, plain bodies *)
Fixpoint chain (b : body S) : bool :=
  match b with
  | BEat _ _ y n => plain y && chain n
  | BIf _ y n => chain y && chain n
  | BRead RGet k => plain k
  | BRead RPeek _ | BPop _ _ _ _ => false
  | BCmd k r => negb (is_discard k) && plain r
  | BEnd _ => true
  end.
Definition shape (b : body S) : bool :=
  match b with
  | BRead RGet k => plain k
  | BRead RPeek k => f_html fl && ptail k
  | BPop _ _ krun kchar => plain krun && plain kchar
  | BEat _ _ y n => plain y && chain n
  | _ => plain b
  end.

Lemma ceval_cond_ext k c x (m : M) : @ceval_cond S (list N) sk k c (ext x m) = @ceval_cond S (list N) sk k c m.
Proof. destruct k; destruct m; reflexivity. Qed.

Lemma exec_plain_ext b : plain b = true -> forall c run x (m : M),
  execF b c run (ext x m) = (ext x (fst (execF b c run m)), snd (execF b c run m)).
Proof.
  induction b as [r k IH|s f r IHr cc IHc|p e y IHy n IHn|k y IHy n IHn|k r IH|t]; intros Hp c run x m; cbn in Hp;
    try discriminate.
  - apply andb_prop in Hp. destruct Hp as [Hy Hn]. cbn [exec]. rewrite ceval_cond_ext.
    destruct (ceval_cond sk k c m); auto.
  - apply andb_prop in Hp. destruct Hp as [Hk Hr]. cbn [exec].
    rewrite do_cmd_ext by (destruct (is_discard k); [discriminate|reflexivity]). apply IH. exact Hr.
  - cbn [exec]. apply do_term_ext.
Qed.

Lemma exec_plain_nosusp b : plain b = true -> no_eof b = true -> forall c run (m : M),
  snd (execF b c run m) <> SSuspend.
Proof.
  induction b as [r k IH|s f r IHr cc IHc|p e y IHy n IHn|k y IHy n IHn|k r IH|t]; intros Hp He c run m; cbn in Hp, He;
    try discriminate.
  - apply andb_prop in Hp. destruct Hp. apply andb_prop in He. destruct He. cbn [exec].
    destruct (ceval_cond sk k c m); auto.
  - apply andb_prop in Hp. destruct Hp. cbn [exec]. auto.
  - cbn [exec]. destruct t; cbn [do_term]; try discriminate.
    + unfold emit_current_tag. destruct (f_html fl);
        repeat match goal with |- context [match ?b with _ => _ end] => destruct b end; cbn; discriminate.
    + destruct k; unfold emit_current_tag; destruct (f_html fl);
        repeat match goal with |- context [match ?b with _ => _ end] => destruct b end; cbn; discriminate.
Qed.

Lemma exec_ptail_ext b : ptail b = true -> f_html fl = true -> forall c run x (m : M),
  peekF m = Some c ->
  execF b c run (ext x m) = (ext x (fst (execF b c run m)), snd (execF b c run m)).
Proof.
  induction b as [r k IH|s f r IHr cc IHc|p e y IHy n IHn|k y IHy n IHn|k r IH|t]; intros Hp Hh c run x m Hpk; cbn in Hp;
    try discriminate.
  - apply andb_prop in Hp. destruct Hp as [Hy Hn]. cbn [exec]. rewrite ceval_cond_ext.
    destruct (ceval_cond sk k c m); auto.
  - cbn [exec]. destruct (is_discard k) eqn:Hd.
    + assert (E : do_cmdF k c run (ext x m) = ext x (do_cmdF k c run m)).
      { destruct k; try discriminate; cbn [do_cmd].
        - apply (discard_char_ext x m c Hpk). left. exact Hh.
        - apply (discard_ws_ext x m c c Hpk Hh). }
      rewrite E. apply exec_plain_ext. exact Hp.
    + rewrite do_cmd_ext by exact Hd. apply exec_plain_ext. exact Hp.
  - cbn [exec]. apply do_term_ext.
Qed.
Lemma exec_ptail_nosusp b : ptail b = true -> no_eof b = true -> forall c run (m : M),
  snd (execF b c run m) <> SSuspend.
Proof.
  induction b as [r k IH|s f r IHr cc IHc|p e y IHy n IHn|k y IHy n IHn|k r IH|t]; intros Hp He c run m; cbn in Hp, He;
    try discriminate.
  - apply andb_prop in Hp. destruct Hp. apply andb_prop in He. destruct He. cbn [exec].
    destruct (ceval_cond sk k c m); auto.
  - cbn [exec]. apply exec_plain_nosusp; assumption.
  - apply (exec_plain_nosusp (BEnd t)); [reflexivity|exact He].
Qed.

(* ---------------------------------------------------------------- after a look-ahead said "no" *)
Definition settled (n : M) : Prop :=
  temp_buf (mc n) = [] /\ ignore_lf (mc n) = false /\ (reconsume (mc n) = true \/ mq n <> []).

Lemma U_ignore_lf (m : M) : ignore_lf (mc (U m)) = ignore_lf (mc m).
Proof. destruct m; reflexivity. Qed.

Lemma skip_lf_ignore_lf (m : M) c : ignore_lf (mc (skip_lf m c)) = false.
Proof. unfold skip_lf. destruct (if c =? LF then _ else m); reflexivity. Qed.

Lemma eat_false_settled p e (m n : M) :
  eatF p e m = (Some false, n) -> settled n /\ eat_cmp (negb e) p (mq n) = EatFalse.
Proof.
  intros H. rewrite eat_unfold in H.
  assert (G : forall m0, ignore_lf (mc m0) = false ->
                         eat_bodyF p e m0 = (Some false, n) -> settled n /\ eat_cmp (negb e) p (mq n) = EatFalse).
  { intros m0 Hi0 H0. pose proof (eat_body_cases p e m0) as C. rewrite H0 in C. inversion C; subst.
    unfold settled. rewrite U_temp, U_ignore_lf. auto. }
  destruct (ignore_lf (mc m)) eqn:Hi.
  - destruct (peekF m) as [c|]; [|discriminate]. eapply G; [apply skip_lf_ignore_lf|eassumption].
  - eapply G; eassumption.
Qed.

Lemma settled_eat p e (n : M) : settled n -> eatF p e n = eat_bodyF p e n /\ U n = n.
Proof.
  intros [Ht [Hi _]]. rewrite eat_unfold, Hi. split; [reflexivity|]. apply U_idem. exact Ht.
Qed.
Lemma settled_eat_ext p e x (n : M) : settled n -> eatF p e (ext x n) = eat_bodyF p e (ext x n).
Proof. intros [_ [Hi _]]. rewrite eat_unfold, ext_mc, Hi. reflexivity. Qed.

Lemma settled_get_char (n : M) : settled n -> exists c n', get_charF n = (Some c, n').
Proof.
  intros [_ [Hi Hq]]. unfold get_char. destruct (reconsume (mc n)) eqn:Hr; [eauto|].
  destruct Hq as [Hq|Hq]; [discriminate|].
  destruct (mq n) as [|d q'] eqn:E; [contradiction|]. cbn [fq_next].
  unfold get_preprocessed_char. rewrite gpc_skip_noil by (destruct n; cbn in *; exact Hi).
  destruct (gpc_postF d _) as [c' m2]. eauto.
Qed.

(* (A) a chain can only suspend in an undecided look-ahead, and then it has just stashed the queue *)
Lemma chain_susp b : chain b = true -> no_eof b = true -> forall c run (n m' : M),
  settled n -> execF b c run n = (m', SSuspend) -> m' = stash n.
Proof.
  induction b as [r k IH|s f r IHr cc IHc|p e y IHy nb IHn|k y IHy nb IHn|k r IH|t]; intros Hc He c run n m' Hs H;
    cbn in Hc, He; try discriminate.
  - (* BRead *) destruct r; [|discriminate]. cbn [exec] in H.
    destruct (settled_get_char n Hs) as [c' [n' E]]. rewrite E in H.
    exfalso. apply (exec_plain_nosusp k Hc He c' run n'). rewrite H. reflexivity.
  - (* BEat *) apply andb_prop in Hc. destruct Hc as [Hy Hn]. apply andb_prop in He. destruct He as [Ey En].
    cbn [exec] in H. destruct (settled_eat p e n Hs) as [E1 E2]. rewrite E1 in H.
    pose proof (eat_body_cases p e n) as C.
    destruct (eat_bodyF p e n) as [[[|]|] m1]; inversion C; subst; rewrite ?E2 in *.
    + exfalso. match type of H with execF y c run ?mm = _ => apply (exec_plain_nosusp y Hy Ey c run mm) end.
      rewrite H. reflexivity.
    + eapply IHn; eassumption.
    + inversion H; subst. reflexivity.
  - (* BIf *) apply andb_prop in Hc. destruct Hc. apply andb_prop in He. destruct He. cbn [exec] in H.
    destruct (ceval_cond sk k c n); eauto.
  - (* BCmd *) exfalso. apply (exec_plain_nosusp (BCmd k r) Hc He c run n). rewrite H. reflexivity.
  - exfalso. apply (exec_plain_nosusp (BEnd t) eq_refl He c run n). rewrite H. reflexivity.
Qed.

(* (B) a chain that does not suspend is unaffected by input appended behind the queue *)
Lemma chain_nosusp b : chain b = true -> forall c run x (n m' : M) r,
  settled n -> execF b c run n = (m', r) -> r <> SSuspend -> execF b c run (ext x n) = (ext x m', r).
Proof.
  induction b as [rk k IH|s f rr IHr cc IHc|p e y IHy nb IHn|k y IHy nb IHn|k rr IH|t]; intros Hc c run x n m' r Hs H Hr;
    cbn in Hc; try discriminate.
  - destruct rk; [|discriminate]. cbn [exec] in *.
    destruct (get_charF n) as [[c'|] n'] eqn:E.
    + rewrite (get_char_some x n n' c' E). rewrite exec_plain_ext by exact Hc. rewrite H. reflexivity.
    + inversion H; subst. contradiction.
  - apply andb_prop in Hc. destruct Hc as [Hy Hn]. cbn [exec] in *.
    destruct (settled_eat p e n Hs) as [E1 _]. rewrite (settled_eat_ext p e x n Hs).
    destruct (eatF p e n) as [[[|]|] m1] eqn:E.
    + symmetry in E1. rewrite (eat_body_some_ext p e x n m1 true E1). rewrite exec_plain_ext by exact Hy.
      rewrite H. reflexivity.
    + pose proof (proj1 (eat_false_settled p e n m1 E)) as Hs1.
      symmetry in E1. rewrite (eat_body_some_ext p e x n m1 false E1). eapply IHn; eassumption.
    + inversion H; subst. contradiction.
  - apply andb_prop in Hc. destruct Hc. cbn [exec] in *. rewrite ceval_cond_ext.
    destruct (ceval_cond sk k c n); eauto.
  - rewrite (exec_plain_ext (BCmd k rr) Hc). rewrite H. reflexivity.
  - rewrite (exec_plain_ext (BEnd t) eq_refl). rewrite H. reflexivity.
Qed.
(* ---------------------------------------------------------------- one arm body, top level *)
Hypothesis Hex : ex = true.        (* exact_errors: every bulk read takes the character-at-a-time path *)

Lemma pop_slow set sm (m : M) :
  popF set sm m = match get_charF m with (None, m') => (PopNone, m') | (Some c, m') => (PopChar c, m') end.
Proof. unfold pop_except_from. rewrite Hex. reflexivity. Qed.

Definition is_eat (b : body S) : bool := match b with BEat _ _ _ _ => true | _ => false end.

(* L2: an arm that does not suspend is unaffected by input appended behind the queue *)
Theorem exec_nosusp b : shape b = true -> forall c run x (m m' : M) r,
  (is_eat b = true -> rec_ok m) ->
  execF b c run m = (m', r) -> r <> SSuspend -> execF b c run (ext x m) = (ext x m', r).
Proof.
  intros Hs c run x m m' r Hrc H Hr.
  destruct b as [rk k|set sm krun kchar|p e y nb|k y nb|k rr|t]; cbn [shape] in Hs.
  - destruct rk.
    + cbn [exec] in *. destruct (get_charF m) as [[c'|] n'] eqn:E.
      * rewrite (get_char_some x m n' c' E). rewrite exec_plain_ext by exact Hs. rewrite H. reflexivity.
      * exfalso; injection H as _ Hrr; apply Hr; symmetry; exact Hrr.
    + apply andb_prop in Hs. destruct Hs as [Hh Hp]. cbn [exec] in *.
      destruct (peekF m) as [c'|] eqn:E.
      * rewrite (peek_some x m c' E). rewrite (exec_ptail_ext k Hp Hh c' run x m E). rewrite H. reflexivity.
      * exfalso; injection H as _ Hrr; apply Hr; symmetry; exact Hrr.
  - apply andb_prop in Hs. destruct Hs as [H1 H2]. cbn [exec] in *. rewrite pop_slow in *.
    destruct (get_charF m) as [[c'|] n'] eqn:E.
    + rewrite (get_char_some x m n' c' E). rewrite exec_plain_ext by exact H2. rewrite H. reflexivity.
    + exfalso; injection H as _ Hrr; apply Hr; symmetry; exact Hrr.
  - apply andb_prop in Hs. destruct Hs as [Hy Hn]. specialize (Hrc eq_refl). cbn [exec] in *.
    destruct (eatF p e m) as [[[|]|] m1] eqn:E.
    + rewrite (eat_some_ext p e x m m1 true Hrc E). rewrite exec_plain_ext by exact Hy. rewrite H. reflexivity.
    + rewrite (eat_some_ext p e x m m1 false Hrc E).
      eapply chain_nosusp; try eassumption. exact (proj1 (eat_false_settled p e m m1 E)).
    + exfalso; injection H as _ Hrr; apply Hr; symmetry; exact Hrr.
  - rewrite (exec_plain_ext (BIf k y nb) Hs). rewrite H. reflexivity.
  - rewrite (exec_plain_ext (BCmd k rr) Hs). rewrite H. reflexivity.
  - rewrite (exec_plain_ext (BEnd t) Hs). rewrite H. reflexivity.
Qed.

(* L3: an arm that suspends for lack of input has only re-arranged look-ahead; running it again once more input
   is there gives exactly what running it would have given had the input been there from the start *)
Theorem exec_susp b : shape b = true -> no_eof b = true -> forall c run x (m m' : M),
  (is_eat b = true -> rec_ok m) ->
  execF b c run m = (m', SSuspend) -> x <> [] -> execF b c run (ext x m) = execF b c run (ext x m').
Proof.
  intros Hs He c run x m m' Hrc H Hx.
  destruct b as [rk k|set sm krun kchar|p e y nb|k y nb|k rr|t]; cbn [shape] in Hs; cbn [no_eof] in He.
  - destruct rk.
    + cbn [exec] in *. destruct (get_charF m) as [[c'|] n'] eqn:E.
      * exfalso. apply (exec_plain_nosusp k Hs He c' run n'). rewrite H. reflexivity.
      * injection H as Hm; subst m'. rewrite (get_char_resume x m n' E Hx). reflexivity.
    + apply andb_prop in Hs. destruct Hs as [Hh Hp]. cbn [exec] in *.
      destruct (peekF m) as [c'|] eqn:E.
      * exfalso. apply (exec_ptail_nosusp k Hp He c' run m). rewrite H. reflexivity.
      * injection H as Hm; subst m'. reflexivity.
  - apply andb_prop in Hs. destruct Hs as [H1 H2]. apply andb_prop in He. destruct He as [E1 E2].
    cbn [exec] in *. rewrite !pop_slow. rewrite pop_slow in H.
    destruct (get_charF m) as [[c'|] n'] eqn:E.
    + exfalso. apply (exec_plain_nosusp kchar H2 E2 c' run n'). rewrite H. reflexivity.
    + injection H as Hm; subst m'. rewrite (get_char_resume x m n' E Hx). reflexivity.
  - apply andb_prop in Hs. destruct Hs as [Hy Hn]. apply andb_prop in He. destruct He as [Ey En].
    specialize (Hrc eq_refl). cbn [exec] in *.
    destruct (eatF p e m) as [[[|]|] m1] eqn:E.
    + exfalso. apply (exec_plain_nosusp y Hy Ey c run m1). rewrite H. reflexivity.
    + destruct (eat_false_settled p e m m1 E) as [Hst Hcmp].
      assert (Em : m' = stash m1) by (eapply chain_susp; eassumption). subst m'.
      rewrite (eat_some_ext p e x m m1 false Hrc E).
      (* the resumed run: the stash is pushed back, the first look-ahead says "no" again *)
      destruct Hst as [Ht [Hi Hq]].
      assert (Ee : eatF p e (ext x (stash m1)) = (Some false, ext x m1)).
      { rewrite eat_unfold, ext_mc.
        assert (Ei : ignore_lf (mc (stash m1)) = false) by (destruct m1; exact Hi). rewrite Ei.
        rewrite eat_body_U, U_ext, U_stash by exact Ht.
        unfold eat_body. fold (U (ext x m1)). rewrite U_ext, (U_idem m1 Ht), ext_mq. unfold Qeat.
        destruct (mq m1) as [|d q'] eqn:Eq; [destruct p; discriminate|]. cbn [app fq_peek].
        change (d :: q' ++ x) with ((d :: q') ++ x). rewrite (eat_cmp_false_ext _ _ _ x Hcmp). reflexivity. }
      rewrite Ee. reflexivity.
    + injection H as Hm; subst m'. rewrite (eat_resume p e x m m1 Hrc E). reflexivity.
  - exfalso. apply (exec_plain_nosusp (BIf k y nb) Hs He c run m). rewrite H. reflexivity.
  - exfalso. apply (exec_plain_nosusp (BCmd k rr) Hs He c run m). rewrite H. reflexivity.
  - exfalso. apply (exec_plain_nosusp (BEnd t) Hs He c run m). rewrite H. reflexivity.
Qed.
(* ---------------------------------------------------------------- the character-reference sub-tokenizer *)
Notation finish_numericF := (@finish_numeric S (list N) c1).
Notation unconsume_numericF := (@unconsume_numeric S (list N) (@app N)).
Notation finish_namedF := (@finish_named S (list N) (@app N) fl).
Notation discard_rawF := (@discard_raw S (list N) fq_next fl ex).
Notation cr_readF := (@cr_read S (list N) fq_next fq_peek fl ex).
Notation process_char_refF := (@process_char_ref S (list N) fl).

Lemma finish_numeric_ext cr x (m : M) :
  finish_numericF cr (ext x m) = (fst (finish_numericF cr m), ext x (snd (finish_numericF cr m))).
Proof.
  unfold finish_numeric.
  match goal with |- context [let '(c, e) := ?X in _] => destruct X as [c0 e0] end.
  destruct e0; rewrite ?err_ext; reflexivity.
Qed.

Lemma unconsume_numeric_ext cr x (m : M) :
  unconsume_numericF cr (ext x m) = (fst (unconsume_numericF cr m), ext x (snd (unconsume_numericF cr m))).
Proof. unfold unconsume_numeric. rewrite unconsume_ext, err_ext. reflexivity. Qed.

Lemma finish_named_ext cr ec x (m : M) :
  finish_namedF cr ec (ext x m) = (fst (finish_namedF cr ec m), ext x (snd (finish_namedF cr ec m))).
Proof.
  unfold finish_named.
  destruct (cr_match cr) as [[a b]|].
  - match goal with |- context [let '(unc, e) := ?X in _] => destruct X as [unc e0] end.
    destruct unc; destruct e0; destruct (f_html fl); rewrite ?unconsume_ext, ?err_ext, ?upd_ext; reflexivity.
  - destruct ec as [c|]; [|rewrite unconsume_ext; reflexivity].
    destruct (is_alnum c); [reflexivity|].
    destruct ((c =? 59) && Nat.ltb 1 (length (cr_buf cr))); rewrite unconsume_ext, ?err_ext; reflexivity.
Qed.

Lemma discard_raw_ext x (m : M) c : peekF m = Some c -> discard_rawF (ext x m) = ext x (discard_rawF m).
Proof.
  intros Hp. unfold discard_raw. destruct (f_html fl) eqn:Hh.
  - apply (discard_char_ext x m c Hp). left. exact Hh.
  - rewrite ext_mc. destruct m as [cf q o k]. unfold peek in Hp. cbn in *.
    destruct (reconsume cf); [reflexivity|]. destruct q; [discriminate|reflexivity].
Qed.

Lemma to_digit_not_lf base c n : to_digit base c = Some n -> c <> LF.
Proof.
  intros H ->. unfold to_digit in H. cbn in H. destruct (base =? 16); cbn in H; discriminate.
Qed.

Lemma process_char_ref_ext chars x (m : M) :
  process_char_refF chars (ext x m) = (ext x (fst (process_char_refF chars m)), snd (process_char_refF chars m)).
Proof.
  unfold process_char_ref.
  generalize (match chars with [] => [38] | _ :: _ => chars end). clear chars. intros chars.
  generalize false. revert m. induction chars as [|c chars IH]; intros m b; [reflexivity|].
  cbn [fold_left]. rewrite ext_mc.
  destruct (f_charref_emit fl (st (mc m))) as [[|]|]; rewrite ?upd_ext, ?emit_char_ext; apply IH.
Qed.

Lemma cr_step_stuck cr (m m' : M) : cr_stepF cr m = (CrStuck, m') -> m' = m.
Proof.
  unfold cr_step, cr_read. intros H.
  destruct (cr_st cr); destruct (peekF m) as [c|] eqn:Hp;
    try (injection H as <-; reflexivity).
  - destruct (f_html fl).
    + destruct (is_alnum c); [discriminate|]. destruct (c =? 35); discriminate.
    + destruct (memb c _); [discriminate|]. destruct (match cr_addnl cr with Some a => a =? c | None => false end); [discriminate|].
      destruct (c =? 35); discriminate.
  - destruct ((c =? 120) || (c =? 88)); discriminate.
  - destruct (to_digit base c); [discriminate|]. destruct (negb (cr_seen cr)); [|discriminate].
    unfold unconsume_numeric in H. discriminate.
  - destruct (finish_numericF cr _). discriminate.
  - destruct (ent (cr_buf cr ++ [c])) as [[a b]|]; [discriminate|].
    unfold finish_named in H. destruct (cr_match _) as [[a b]|].
    + match type of H with context [let '(unc, e) := ?X in _] => destruct X as [unc e0] end.
      destruct unc; discriminate.
    + cbn in H. destruct (is_alnum c); [discriminate|]. discriminate.
  - destruct (is_alnum c); discriminate.
Qed.

Lemma cr_step_nostuck cr x (m m' : M) res :
  cr_stepF cr m = (res, m') -> res <> CrStuck -> cr_stepF cr (ext x m) = (res, ext x m').
Proof.
  unfold cr_step, cr_read. intros H Hn.
  destruct (cr_st cr); destruct (peekF m) as [c|] eqn:Hp;
    try (exfalso; injection H as Hr _; apply Hn; symmetry; exact Hr);
    rewrite (peek_some x m c Hp).
  - destruct (f_html fl) eqn:Hh.
    + destruct (is_alnum c); [injection H as <- <-; reflexivity|].
      destruct (c =? 35) eqn:E35; [|injection H as <- <-; reflexivity].
      rewrite (discard_char_ext x m c Hp (or_introl Hh)). injection H as <- <-. reflexivity.
    + destruct (memb c _); [injection H as <- <-; reflexivity|].
      destruct (match cr_addnl cr with Some a => a =? c | None => false end); [injection H as <- <-; reflexivity|].
      destruct (c =? 35) eqn:E35; [|injection H as <- <-; reflexivity].
      assert (Hc : c <> LF) by (apply N.eqb_eq in E35; subst; discriminate).
      rewrite (discard_char_ext x m c Hp (or_intror Hc)). injection H as <- <-. reflexivity.
  - destruct ((c =? 120) || (c =? 88)) eqn:Ex; [|injection H as <- <-; reflexivity].
    assert (Hc : c <> LF).
    { intros ->. cbn in Ex. discriminate. }
    rewrite (discard_char_ext x m c Hp (or_intror Hc)). injection H as <- <-. reflexivity.
  - destruct (to_digit base c) as [n|] eqn:Ed.
    + rewrite (discard_char_ext x m c Hp (or_intror (to_digit_not_lf _ _ _ Ed))). injection H as <- <-. reflexivity.
    + destruct (negb (cr_seen cr)); [|injection H as <- <-; reflexivity].
      rewrite unconsume_numeric_ext. rewrite H. reflexivity.
  - assert (E : (if c =? 59 then discard_charF (ext x m) else err (ext x m)) =
                ext x (if c =? 59 then discard_charF m else err m)).
    { destruct (c =? 59) eqn:E59; [|apply err_ext].
      apply (discard_char_ext x m c Hp). right. apply N.eqb_eq in E59. subst. discriminate. }
    rewrite E, finish_numeric_ext. destruct (finish_numericF cr _) as [chars m2]. injection H as <- <-. reflexivity.
  - rewrite (discard_raw_ext x m c Hp).
    destruct (ent (cr_buf cr ++ [c])) as [[a b]|]; [injection H as <- <-; reflexivity|].
    rewrite finish_named_ext. rewrite H. reflexivity.
  - rewrite (discard_raw_ext x m c Hp).
    destruct (is_alnum c); [injection H as <- <-; reflexivity|].
    rewrite unconsume_ext. destruct (c =? 59); rewrite ?err_ext; injection H as <- <-; reflexivity.
Qed.
(* ---------------------------------------------------------------- one step *)
Hypothesis Hshape : forall s, shape (t_step tb s) = true.
Hypothesis Hnoeof : forall s, no_eof (t_step tb s) = true.

(* what the look-ahead lemmas need from the machine (always true for the html flavour) *)
Definition step_ok (m : M) : Prop :=
  cref (mc m) = None -> is_eat (t_step tb (st (mc m))) = true -> rec_ok m.
Lemma step_ok_ext x (m : M) : step_ok (ext x m) <-> step_ok m.
Proof. unfold step_ok, rec_ok. rewrite ext_mc. tauto. Qed.
Lemma step_ok_html (m : M) : f_html fl = true -> step_ok m.
Proof. intros H _ _. left. exact H. Qed.

Theorem step_nosusp x (m m' : M) r :
  step_ok m -> stepF m = (m', r) -> r <> SSuspend -> stepF (ext x m) = (ext x m', r).
Proof.
  unfold step. rewrite !ext_mc. intros Hok H Hr.
  destruct (cref (mc m)) as [cr|] eqn:Ec.
  - destruct (cr_stepF cr m) as [res m1] eqn:E.
    destruct res as [|cr'|chars].
    + exfalso. injection H as _ Hrr. apply Hr. symmetry. exact Hrr.
    + rewrite (cr_step_nostuck cr x m m1 (CrProgress cr') E) by discriminate.
      injection H as <- <-. rewrite upd_ext. reflexivity.
    + rewrite (cr_step_nostuck cr x m m1 (CrDone chars) E) by discriminate.
      rewrite process_char_ref_ext. destruct (process_char_refF chars m1) as [m2 bad]. cbn [fst snd].
      injection H as <- <-. rewrite upd_ext. reflexivity.
  - apply exec_nosusp; auto.
Qed.

Theorem step_susp x (m m' : M) :
  step_ok m -> stepF m = (m', SSuspend) -> x <> [] -> stepF (ext x m) = stepF (ext x m').
Proof.
  intros Hok H Hx. unfold step in H.
  destruct (cref (mc m)) as [cr|] eqn:Ec.
  - destruct (cr_stepF cr m) as [res m1] eqn:E.
    destruct res as [|cr'|chars].
    + injection H as <-. apply cr_step_stuck in E. subst m1. reflexivity.
    + discriminate.
    + destruct (process_char_refF chars m1) as [m2 bad]. destruct bad; discriminate.
  - unfold step. rewrite !ext_mc, Ec.
    assert (Em : cref (mc m') = None /\ st (mc m') = st (mc m)).
    { (* a suspending arm has executed no terminator: state and cref are those of m; we only need them to
         re-enter the same arm, which follows from exec_susp's own statement once we know the arm *)
      clear Hx. revert H. generalize (Hshape (st (mc m))) (Hnoeof (st (mc m))) (Hok Ec).
      generalize (t_step tb (st (mc m))). intros b Hs He Hrc H.
      destruct b as [rk k|set sm krun kchar|p e y nb|k y nb|k rr|t]; cbn [shape] in Hs; cbn [no_eof] in He; cbn [exec] in H.
      - destruct rk.
        + destruct (get_charF m) as [[c'|] n'] eqn:E.
          * exfalso. apply (exec_plain_nosusp k Hs He c' [] n'). rewrite H. reflexivity.
          * injection H as <-. apply get_char_none in E. destruct E as [_ _ ->|_ _ _ ->]; [auto|].
            destruct m; auto.
        + apply andb_prop in Hs. destruct Hs as [Hh Hp]. destruct (peekF m) as [c'|] eqn:E.
          * exfalso. apply (exec_ptail_nosusp k Hp He c' [] m). rewrite H. reflexivity.
          * injection H as <-. auto.
      - apply andb_prop in Hs. destruct Hs as [H1 H2]. apply andb_prop in He. destruct He as [E1 E2].
        rewrite pop_slow in H. destruct (get_charF m) as [[c'|] n'] eqn:E.
        + exfalso. apply (exec_plain_nosusp kchar H2 E2 c' [] n'). rewrite H. reflexivity.
        + injection H as <-. apply get_char_none in E. destruct E as [_ _ ->|_ _ _ ->]; [auto|]. destruct m; auto.
      - apply andb_prop in Hs. destruct Hs as [Hy Hn]. apply andb_prop in He. destruct He as [Ey En].
        destruct (eatF p e m) as [[[|]|] m1] eqn:E.
        + exfalso. apply (exec_plain_nosusp y Hy Ey 0 [] m1). rewrite H. reflexivity.
        + destruct (eat_false_settled p e m m1 E) as [Hst _].
          assert (Em : m' = stash m1) by (eapply chain_susp; eassumption). subst m'.
          rewrite eat_unfold in E. 
          assert (G : forall m0, cref (mc m0) = None /\ st (mc m0) = st (mc m) -> eat_bodyF p e m0 = (Some false, m1) ->
                      cref (mc (stash m1)) = None /\ st (mc (stash m1)) = st (mc m)).
          { intros m0 [G1 G2] H0. pose proof (eat_body_cases p e m0) as C. rewrite H0 in C. inversion C; subst.
            destruct m0; cbn in *. auto. }
          destruct (ignore_lf (mc m)).
          * destruct (peekF m) as [c'|]; [|discriminate]. apply (G (skip_lf m c')); [|exact E].
            unfold skip_lf. destruct (c' =? LF); [|destruct m; auto].
            destruct (f_html fl) eqn:Hh.
            -- unfold discard_char. rewrite Hh. destruct m as [cf q o k]; cbn in *.
               destruct (reconsume cf); [auto|]. destruct q; auto.
            -- destruct m as [cf q o k]; cbn in *. destruct q; auto.
          * apply (G m); auto.
        + injection H as <-. rewrite eat_unfold in E.
          assert (G : forall m0, cref (mc m0) = None /\ st (mc m0) = st (mc m) -> eat_bodyF p e m0 = (None, m1) ->
                      cref (mc m1) = None /\ st (mc m1) = st (mc m)).
          { intros m0 [G1 G2] H0. apply eat_body_none in H0. subst m1. destruct m0; cbn in *. auto. }
          destruct (ignore_lf (mc m)).
          * destruct (peekF m) as [c'|]; [|injection E as <-; auto]. apply (G (skip_lf m c')); [|exact E].
            unfold skip_lf. destruct (c' =? LF); [|destruct m; auto].
            destruct (f_html fl) eqn:Hh.
            -- unfold discard_char. rewrite Hh. destruct m as [cf q o k]; cbn in *.
               destruct (reconsume cf); [auto|]. destruct q; auto.
            -- destruct m as [cf q o k]; cbn in *. destruct q; auto.
          * apply (G m); auto.
      - exfalso. apply (exec_plain_nosusp (BIf k y nb) Hs He 0 [] m). cbn [exec]. rewrite H. reflexivity.
      - exfalso. apply (exec_plain_nosusp (BCmd k rr) Hs He 0 [] m). cbn [exec]. rewrite H. reflexivity.
      - exfalso. apply (exec_plain_nosusp (BEnd t) Hs He 0 [] m). cbn [exec]. rewrite H. reflexivity. }
    destruct Em as [Em1 Em2]. rewrite Em1, Em2.
    apply exec_susp; auto.
Qed.
(* ---------------------------------------------------------------- runs *)
(* run the state machine to its first non-Continue result (Tokenizer::run), every machine on the way satisfying
   [step_ok]; relational, so no fuel *)
Inductive oruns : M -> M -> sres -> Prop :=
| runs_stop m m' r : step_ok m -> stepF m = (m', r) -> r <> SContinue -> oruns m m' r
| runs_step m m1 m' r : step_ok m -> stepF m = (m1, SContinue) -> oruns m1 m' r -> oruns m m' r.

Lemma oruns_det m m1 r1 : oruns m m1 r1 -> forall m2 r2, oruns m m2 r2 -> m1 = m2 /\ r1 = r2.
Proof.
  induction 1 as [m m' r Hok H Hr|m ma m' r Hok H Hrun IH]; intros m2 r2 H2;
    inversion H2 as [? ? ? ? H1 Hr1|? ? ? ? ? H1 Hrun1]; subst; rewrite H in H1.
  - inversion H1; auto.
  - inversion H1; subst. exfalso. apply Hr. reflexivity.
  - inversion H1; subst. exfalso. apply Hr1. reflexivity.
  - inversion H1; subst. apply IH. assumption.
Qed.

(* a run that ends in a result other than Suspend is unaffected by input appended behind the queue *)
Lemma oruns_ext x m m' r : oruns m m' r -> r <> SSuspend -> oruns (ext x m) (ext x m') r.
Proof.
  induction 1 as [m m' r Hok H Hr|m ma m' r Hok H Hrun IH]; intros Hs.
  - apply runs_stop; [apply step_ok_ext; exact Hok| |exact Hr]. apply step_nosusp; assumption.
  - eapply runs_step; [apply step_ok_ext; exact Hok| |apply IH; exact Hs].
    apply step_nosusp; [assumption|assumption|discriminate].
Qed.

(* the suspend/resume theorem: running on, once more input has arrived, from the machine a suspended run left
   behind is the same as running with that input present from the start *)
Theorem oruns_resume x m m1 : oruns m m1 SSuspend -> x <> [] ->
  forall m2 r, oruns (ext x m1) m2 r -> oruns (ext x m) m2 r.
Proof.
  remember SSuspend as rs eqn:Ers. induction 1 as [m m' r Hok H Hr|m ma m' r Hok H Hrun IH]; intros Hx m2 r2 H2; subst.
  - pose proof (step_susp x m m' Hok H Hx) as E.
    inversion H2; subst.
    + apply runs_stop; [apply step_ok_ext; exact Hok| |assumption]. rewrite E. assumption.
    + eapply runs_step; [apply step_ok_ext; exact Hok| |eassumption]. rewrite E. assumption.
  - eapply runs_step; [apply step_ok_ext; exact Hok| |apply IH; auto].
    apply step_nosusp; [assumption|assumption|discriminate].
Qed.

(* ---------------------------------------------------------------- feeding (the driver loop around feed()) *)
(* feed() until it reports Done; a Script result pushes [inj] to the front of the queue (document.write) and feeds
   again, an EncodingIndicator just feeds again.  discard_bom is handled before (see Chunk_bom below). *)
Inductive feeds (inj : list N) : M -> M -> Prop :=
| fd_empty m : mq m = [] -> feeds inj m m
| fd_done m m' : mq m <> [] -> oruns m m' SSuspend -> feeds inj m m'
| fd_script m m1 m' : mq m <> [] -> oruns m m1 SScript -> feeds inj (m1 <| mq ::= app inj |>) m' -> feeds inj m m'
| fd_enc m m1 m' : mq m <> [] -> oruns m m1 SEncoding -> feeds inj m1 m' -> feeds inj m m'.

Lemma ext_nonempty x (m : M) : x <> [] -> mq (ext x m) <> [].
Proof. intros Hx. rewrite ext_mq. destruct (mq m); [exact Hx|discriminate]. Qed.
Lemma ext_nonempty_l x (m : M) : mq m <> [] -> mq (ext x m) <> [].
Proof. intros H. rewrite ext_mq. destruct (mq m); [contradiction|discriminate]. Qed.
Lemma inj_ext inj x (m : M) : (ext x m) <| mq ::= app inj |> = ext x (m <| mq ::= app inj |>).
Proof. destruct m; unfold ext, set; cbn. rewrite app_assoc. reflexivity. Qed.

Theorem feeds_split inj x m m1 : feeds inj m m1 -> x <> [] ->
  forall m2, feeds inj (ext x m1) m2 -> feeds inj (ext x m) m2.
Proof.
  induction 1 as [m Hq|m m' Hq Hr|m ma m' Hq Hr Hf IH|m ma m' Hq Hr Hf IH]; intros Hx m2 H2.
  - exact H2.
  - inversion H2; subst.
    + exfalso. apply (ext_nonempty x m' Hx). assumption.
    + apply fd_done; [apply ext_nonempty; exact Hx|]. eapply oruns_resume; eassumption.
    + eapply fd_script; [apply ext_nonempty; exact Hx| |eassumption]. eapply oruns_resume; eassumption.
    + eapply fd_enc; [apply ext_nonempty; exact Hx| |eassumption]. eapply oruns_resume; eassumption.
  - eapply fd_script; [apply ext_nonempty_l; exact Hq|apply oruns_ext; [exact Hr|discriminate]|].
    rewrite inj_ext. apply IH; assumption.
  - eapply fd_enc; [apply ext_nonempty_l; exact Hq|apply oruns_ext; [exact Hr|discriminate]|].
    apply IH; assumption.
Qed.

Lemma feeds_det inj m m1 : feeds inj m m1 -> forall m2, feeds inj m m2 -> m1 = m2.
Proof.
  induction 1 as [m Hq|m m' Hq Hr|m ma m' Hq Hr Hf IH|m ma m' Hq Hr Hf IH]; intros m2 H2; inversion H2; subst;
    try contradiction; try reflexivity;
    match goal with
    | A : oruns ?m _ _, B : oruns ?m _ _ |- _ => destruct (oruns_det _ _ _ A _ _ B) as [E1 E2]; try discriminate; subst
    end; auto.
Qed.

(* feeding a list of chunks: push_back each chunk, feed until Done *)
Inductive feed_chunks (inj : list N) : M -> list (list N) -> M -> Prop :=
| fc_nil m : feed_chunks inj m [] m
| fc_cons m ch rest m1 m2 : feeds inj (ext ch m) m1 -> feed_chunks inj m1 rest m2 -> feed_chunks inj m (ch :: rest) m2.

Lemma feeds_empty_chunk inj m m1 : mq m = [] -> feeds inj (ext [] m) m1 -> m1 = m.
Proof.
  rewrite ext_nil. intros Hq H. inversion H; subst; try contradiction. reflexivity.
Qed.

(* C03/C15, reference semantics: merging two adjacent chunks does not change the machine reached (token stream with
   parse errors and line numbers, configuration, unread input) *)
Theorem feed_chunks_merge inj m c1' c2' rest m2 : c2' <> [] ->
  feed_chunks inj m (c1' :: c2' :: rest) m2 -> feed_chunks inj m ((c1' ++ c2') :: rest) m2.
Proof.
  intros Hc2 H. inversion H as [|? ? ? ma ? Hf1 Hrest]; subst.
  inversion Hrest as [|? ? ? mb ? Hf2 Hrest2]; subst.
  eapply fc_cons; [|exact Hrest2].
  rewrite <- ext_ext. eapply feeds_split; eassumption.
Qed.
(* ---------------------------------------------------------------- the fuelled executable loop is the relation *)
Notation runF := (@run S (list N) [] fq_next fq_peek (@app N) fid fq_run1 fl ex tb simd ent c1 sk false).

Lemma run_is_oruns : (forall m : M, step_ok m) -> forall fuel (m m' : M) r,
  runF fuel m = (m', r) -> oruns m m' r \/ r = SPanic 98.
Proof.
  intros Hok. induction fuel as [|f IH]; intros m m' r H; cbn [run] in H.
  - injection H as _ <-. right. reflexivity.
  - destruct (stepF m) as [m1 r1] eqn:E.
    destruct r1; try (injection H as <- <-; left; apply runs_stop; [apply Hok|exact E|discriminate]).
    destruct (IH m1 m' r H) as [Hr|Hr]; [left|right; exact Hr].
    eapply runs_step; [apply Hok|exact E|exact Hr].
Qed.

(* any two ways of cutting the same input into non-empty chunks reach the same machine *)
Fixpoint all_nonempty (cs : list (list N)) : Prop :=
  match cs with [] => True | c :: r => c <> [] /\ all_nonempty r end.

Lemma feed_chunks_concat_aux inj rest : forall c m m2, c <> [] -> all_nonempty rest ->
  feed_chunks inj m (c :: rest) m2 -> feed_chunks inj m [c ++ concat rest] m2.
Proof.
  induction rest as [|c2 rest IH]; intros c m m2 Hc Hne H.
  - cbn. rewrite app_nil_r. exact H.
  - destruct Hne as [Hc2 Hne]. apply feed_chunks_merge in H; [|exact Hc2].
    cbn [concat]. rewrite app_assoc. apply IH; [|exact Hne|exact H].
    destruct c; [contradiction|discriminate].
Qed.

Lemma feed_chunks_concat inj cs : forall m m2, all_nonempty cs -> cs <> [] ->
  feed_chunks inj m cs m2 -> feed_chunks inj m [concat cs] m2.
Proof.
  intros m m2 Hne Hnil H. destruct cs as [|c rest]; [contradiction|].
  destruct Hne as [Hc Hne]. cbn [concat]. apply feed_chunks_concat_aux; assumption.
Qed.

Lemma feed_chunks_det inj cs : forall m m1 m2, feed_chunks inj m cs m1 -> feed_chunks inj m cs m2 -> m1 = m2.
Proof.
  induction cs as [|c cs IH]; intros m m1 m2 H1 H2; inversion H1; inversion H2; subst; [reflexivity|].
  match goal with A : feeds inj (ext c m) ?a, B : feeds inj (ext c m) ?b |- _ =>
    assert (a = b) by (eapply feeds_det; eassumption); subst end.
  eapply IH; eassumption.
Qed.

Theorem chunking_independent inj cs1 cs2 m m1 m2 :
  all_nonempty cs1 -> all_nonempty cs2 -> cs1 <> [] -> cs2 <> [] -> concat cs1 = concat cs2 ->
  feed_chunks inj m cs1 m1 -> feed_chunks inj m cs2 m2 -> m1 = m2.
Proof.
  intros N1 N2 E1 E2 Hc H1 H2.
  apply feed_chunks_concat in H1; auto. apply feed_chunks_concat in H2; auto.
  rewrite Hc in H1. eapply feed_chunks_det; eassumption.
Qed.
End Chunk.
