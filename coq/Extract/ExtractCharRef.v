(* Extraction of the char-ref sub-tokenizer model and the generated entity
   table (ExtrOcamlBasic only: bool, option, unit, list, prod, sumbool;
   N / positive / nat stay inductive). *)
Require Extraction.
Require Import ExtrOcamlBasic.
From HV Require Import CharRef.CRModel CharRef.CRGenTable.
Extraction Language OCaml.
Extraction "Extract/charref_model.ml" CRModel.cr_new CRModel.cr_step CRModel.cr_eof CRModel.cr_feed
  CRGenTable.gen_trie CRGenTable.gen_table.
