(* Extraction of the from_utf8 model, the Utf8LossyDecoder model and the lossy
   specification (ExtrOcamlBasic only: bool, option, unit, list, prod, sumbool;
   N / positive / nat stay inductive). *)
Require Extraction.
Require Import ExtrOcamlBasic.
From HV Require Import Decode.Utf8Check Decode.Utf8DecModel Decode.Utf8DecSpec.
Extraction Language OCaml.
Extraction "Extract/decode_model.ml"
  Utf8Check.check Utf8DecModel.run Utf8DecModel.api_run
  Utf8DecSpec.lossy Utf8DecSpec.lossy_replacements.
