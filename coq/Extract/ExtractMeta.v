(* Extraction of the meta-charset extraction model and of the WHATWG
   transcription (ExtrOcamlBasic only: bool, option, unit, list, prod,
   sumbool; N / positive / nat stay inductive). *)
Require Extraction.
Require Import ExtrOcamlBasic.
From HV Require Import Meta.MetaModel Meta.MetaSpec.
Extraction Language OCaml.
Extraction "Extract/meta_model.ml" MetaModel.extract_impl MetaModel.meta_arm MetaSpec.extract_spec MetaSpec.meta_label_spec.
