(* Extraction of the TreeSink-boundary specifications: the contract monitor (C05),
   the skeleton predicate (C06), the collecting-sink model (C18), with the abstract
   DOM they run on (ExtrOcamlBasic only). *)
Require Extraction.
Require Import ExtrOcamlBasic.
From HV Require Import Dom.DomSpec SinkSpec.Contract SinkSpec.Skeleton SinkSpec.Gc.
Extraction Language OCaml.
Extraction "Extract/sinkspec_model.ml"
  DomSpec.init DomSpec.apply DomSpec.contract_ok DomSpec.contract_run DomSpec.parent_of DomSpec.data_of DomSpec.kids DomSpec.size
  Contract.check_call Contract.apply_call Contract.monitor Contract.monitor_all Contract.run_calls Contract.ops_of Contract.wf_b
  Skeleton.skeleton_ok Skeleton.skeleton_faults
  Gc.gc_check Gc.gc_ok Gc.gc_counts Gc.live_set.
