(* Extraction of the TokIR interpreter and the generated tables. *)
Require Extraction.
Require Import ExtrOcamlBasic.
From HV Require Import TokIR.IR TokIR.Interp Gen.GenHtmlTok Gen.GenXmlTok Golden.GoldenHtmlTok Golden.GoldenXmlTok.
Extraction Language OCaml.
Extraction "Extract/tok_model.ml"
  Interp.drive_chunked Interp.drive_flat Interp.init_cfg Interp.html_flavour Interp.xml_flavour
  GenHtmlTok.html_table GenHtmlTok.html_state_names GenHtmlTok.simd_first_guard GenHtmlTok.simd_tail_stop
  GenHtmlTok.simd_tail_newline GenHtmlTok.simd_lane_stop GenHtmlTok.simd_lane_newline
  GenXmlTok.xml_table GenXmlTok.xml_state_names
  GoldenHtmlTok.g_html_table GoldenHtmlTok.g_simd_first_guard GoldenHtmlTok.g_simd_tail_stop GoldenHtmlTok.g_simd_tail_newline
  GoldenXmlTok.g_xml_table.
