(* Extraction of the BufferQueue model (ExtrOcamlBasic only: bool, option,
   unit, list, prod, sumbool; N / positive / nat stay inductive). *)
Require Extraction.
Require Import ExtrOcamlBasic.
From HV Require Import BQ.BQModel.
Extraction Language OCaml.
Extraction "Extract/bq_model.ml" BQModel.run BQModel.step.
