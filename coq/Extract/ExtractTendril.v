(* Extraction of the tendril heap model (ExtrOcamlBasic only: bool, option,
   unit, list, prod, sumbool; N / positive / nat stay inductive). *)
Require Extraction.
Require Import ExtrOcamlBasic.
From HV Require Import Tendril.Heap Tendril.TModel.
Extraction Language OCaml.
Extraction "Extract/tendril_model.ml" TModel.run_history.
