(* Extraction of the HTML serializer model and of the WHATWG escaping
   specification (ExtrOcamlBasic only: bool, option, unit, list, prod,
   sumbool; N / positive / nat stay inductive). *)
Require Extraction.
Require Import ExtrOcamlBasic.
From HV Require Import HtmlSer.SerModel HtmlSer.SerSpec.
Extraction Language OCaml.
Extraction "Extract/htmlser_model.ml" SerModel.ser_bytes SerModel.ser_deque_bytes SerModel.ser_calls SerModel.write_escaped_impl
  SerModel.as_is SerModel.repaired SerSpec.escape_spec SerSpec.unescape.
