(* Extraction of the RcDom model and the abstract DOM specification
   (ExtrOcamlBasic only: bool, option, unit, list, prod, sumbool; nat / N /
   positive stay inductive). *)
Require Extraction.
Require Import ExtrOcamlBasic.
From HV Require Import Dom.DomSpec Dom.DomCopy RcDom.RcModel.
Extraction Language OCaml.
Extraction "Extract/rcdom_model.ml"
  DomSpec.init DomSpec.apply DomSpec.contract_ok DomSpec.parent_of DomSpec.data_of DomSpec.kids DomSpec.size
  DomCopy.clone_finite_op
  RcModel.rinit RcModel.rapply RcModel.abs RcModel.rdata RcModel.rparent RcModel.rkids RcModel.rsize
  RcModel.serialize RcModel.call_of.
