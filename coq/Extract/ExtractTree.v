(* Extraction of the HTML tree-builder model (ExtrOcamlBasic only: bool, option,
   unit, list, prod, sumbool; nat / N / positive / string / ascii stay inductive). *)
Require Extraction.
Require Import ExtrOcamlBasic.
From HV Require Import Dom.DomSpec Tree.TreeTypes Tree.TreeTables Tree.TreeModelHelpers Tree.TreeModelRules Tree.TreeModel.
Extraction Language OCaml.
Extraction "Extract/tree_model.ml"
  TreeModel.init_state TreeModel.init_fragment TreeModel.tokenizer_state_for_context_elem
  TreeModel.process_token TreeModel.tb_end
  TreeModel.adjusted_current_node_present_but_not_in_html_namespace TreeModel.take_out TreeModel.arm_counts
  DomSpec.init DomSpec.apply TreeTypes.ns_html TreeTypes.ns_svg TreeTypes.ns_mathml TreeTypes.qn_elem TreeTypes.qn_plain.
