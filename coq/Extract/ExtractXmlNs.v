(* Extraction of the XML tree builder / serializer models (ExtrOcamlBasic only:
   bool, option, unit, list, prod, sumbool; N / positive / nat stay inductive). *)
Require Extraction.
Require Import ExtrOcamlBasic.
From HV Require Import XmlNs.XTreeModel XmlNs.XSerModel XmlNs.XTreeSpec XmlNs.XSerSpec XmlNs.XRoundTrip XmlNs.XLexHyps.
Extraction Language OCaml.
Extraction "Extract/xmlns_model.ml"
  XTreeModel.tokenize XTreeModel.run XTreeModel.document XTreeModel.erase
  XTreeModel.parse_tokens XTreeModel.parse_raw XTreeModel.terrs XTreeModel.tpanic
  XSerModel.ser_doc XSerModel.render XSerModel.serialize XSerModel.item_rtoken
  XSerModel.lex_text XSerModel.lex_attr_value XSerModel.escape XSerModel.decl_rawattr XSerModel.attr_rawattr
  XSerSpec.forest_cons XSerSpec.adequate XSerSpec.roundtrip_tok XRoundTrip.rt_hyps XLexHyps.lex_hyps.
